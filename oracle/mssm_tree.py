"""Reference model for C04: tree-level MSSM mass matrices written from the textbook
expressions (S.P. Martin, "A Supersymmetry Primer", hep-ph/9709356, sect. 8; SLHA
conventions hep-ph/0311123) in terms of m_Z, m_W, sin^2(theta_W), beta, the fermion
masses and the isospin / charge assignments - *not* a transcription of the library's
generated get_mass_matrix_* functions (which are polynomials in g1, g2, vd, vu).

Normalisation: <H_d^0> = vd/sqrt2, <H_u^0> = vu/sqrt2 (v ~ 246 GeV), g1 GUT-normalised
(g' = sqrt(3/5) g1), superpotential mu H_u H_d, soft terms T_f = "A_f y_f", B mu.
R_xi = Feynman gauge for the would-be Goldstone bosons (mass m_Z, m_W), which is what a
spectrum "with Goldstones of mass MZ / MW" means.

All functions are generic in the number type: they use + - * / and the `sqrt` that is
passed in, so the same source is evaluated with numpy arrays (vectorised over lattice
points) and with mpmath numbers (confirmation of any failure at 50 digits)."""
import math

# (T3, Q) of the left-handed sfermion and Q of the right-handed one
ISO = {"u": (0.5, 2.0 / 3.0), "d": (-0.5, -1.0 / 3.0), "e": (-0.5, -1.0), "v": (0.5, 0.0)}

# sector name -> (type, generation, soft L, soft R, Yukawa, trilinear)
SFERMIONS = {
    "Su": ("u", 0), "Sc": ("u", 1), "St": ("u", 2),
    "Sd": ("d", 0), "Ss": ("d", 1), "Sb": ("d", 2),
    "Se": ("e", 0), "Sm": ("e", 1), "Stau": ("e", 2),
}
SNEUTRINOS = {"SveL": 0, "SvmL": 1, "SvtL": 2}
MIX = {"Su": "ZU", "Sc": "ZC", "St": "ZT", "Sd": "ZD", "Ss": "ZS", "Sb": "ZB",
       "Se": "ZE", "Sm": "ZM", "Stau": "ZTau"}
# sectors for which the library records tachyons (MSSMNoFV_onshell_problems)
MONITORED = ["SvmL", "Sm", "Stau", "Sb", "St", "hh", "Ah", "Hpm"]


def derived(p, sqrt):
    """electroweak quantities from the Lagrangian parameters"""
    gY2 = 0.6 * p["g1"] * p["g1"]
    g22 = p["g2"] * p["g2"]
    v2 = p["vd"] * p["vd"] + p["vu"] * p["vu"]
    d = {}
    d["mZ2"] = 0.25 * (gY2 + g22) * v2
    d["mW2"] = 0.25 * g22 * v2
    d["sW2"] = gY2 / (gY2 + g22)
    d["cW2"] = g22 / (gY2 + g22)
    v = sqrt(v2)
    d["sb"] = p["vu"] / v
    d["cb"] = p["vd"] / v
    d["c2b"] = (p["vd"] * p["vd"] - p["vu"] * p["vu"]) / v2
    d["s2b"] = 2 * p["vu"] * p["vd"] / v2
    # tree-level minimum: m_A^2 = 2 B mu / sin(2 beta)
    d["mA2"] = 2 * p["BMu"] / d["s2b"]
    return d


def sfermion(p, d, name, sqrt):
    """2x2 mass matrix in the (f_L, f_R) basis, Martin (8.4.18)-(8.4.20)"""
    typ, g = SFERMIONS[name]
    T3, Q = ISO[typ]
    r2 = sqrt(2)
    if typ == "u":
        mL2, mR2, y, T = p["mq2"][g], p["mu2"][g], p["Yu"][g], p["TYu"][g]
        mf = y * p["vu"] / r2
        # a_u <H_u> - mu y_u <H_d>
        off = (T * p["vu"] - p["Mu"] * y * p["vd"]) / r2
    else:
        if typ == "d":
            mL2, mR2, y, T = p["mq2"][g], p["md2"][g], p["Yd"][g], p["TYd"][g]
        else:
            mL2, mR2, y, T = p["ml2"][g], p["me2"][g], p["Ye"][g], p["TYe"][g]
        mf = y * p["vd"] / r2
        off = (T * p["vd"] - p["Mu"] * y * p["vu"]) / r2
    DL = (T3 - Q * d["sW2"]) * d["c2b"] * d["mZ2"]
    DR = (Q * d["sW2"]) * d["c2b"] * d["mZ2"]       # conjugate field: T3 = 0, charge -Q
    return [[mL2 + mf * mf + DL, off], [off, mR2 + mf * mf + DR]]


def sneutrino(p, d, name):
    g = SNEUTRINOS[name]
    T3, Q = ISO["v"]
    return p["ml2"][g] + (T3 - Q * d["sW2"]) * d["c2b"] * d["mZ2"]


def higgs_even(p, d):
    """CP-even, basis (Re H_d^0, Re H_u^0)"""
    a, z = d["mA2"], d["mZ2"]
    sb, cb = d["sb"], d["cb"]
    off = -(a + z) * sb * cb
    return [[a * sb * sb + z * cb * cb, off], [off, a * cb * cb + z * sb * sb]]


def higgs_odd(p, d):
    """CP-odd, basis (Im H_d^0, Im H_u^0): physical A along (sb, cb) with m_A^2, would-be
    Goldstone along (cb, -sb) with xi m_Z^2, xi = 1"""
    a, z = d["mA2"], d["mZ2"]
    sb, cb = d["sb"], d["cb"]
    off = (a - z) * sb * cb
    return [[a * sb * sb + z * cb * cb, off], [off, a * cb * cb + z * sb * sb]]


def higgs_charged(p, d):
    """charged, basis (H_d^-*, H_u^+): physical H+ along (sb, cb) with m_A^2 + m_W^2,
    Goldstone along (cb, -sb) with xi m_W^2"""
    h, w = d["mA2"] + d["mW2"], d["mW2"]
    sb, cb = d["sb"], d["cb"]
    off = (h - w) * sb * cb
    return [[h * sb * sb + w * cb * cb, off], [off, h * cb * cb + w * sb * sb]]


def neutralino(p, d, sqrt):
    """basis (bino, wino0, higgsino_d0, higgsino_u0), SLHA / Martin (8.2.2)-(8.2.3)"""
    mZ = sqrt(d["mZ2"])
    sW, cW = sqrt(d["sW2"]), sqrt(d["cW2"])
    sb, cb = d["sb"], d["cb"]
    z = 0 * p["Mu"]
    a, b, c, e = -cb * sW * mZ, sb * sW * mZ, cb * cW * mZ, -sb * cW * mZ
    return [[p["M1"] + z, z, a, b],
            [z, p["M2"] + z, c, e],
            [a, c, z, -p["Mu"]],
            [b, e, -p["Mu"], z]]


def chargino(p, d, sqrt):
    """X of psi^-T X psi^+, rows (wino-, higgsino_d-), columns (wino+, higgsino_u+), Martin (8.2.13)"""
    mW = sqrt(d["mW2"])
    r2 = sqrt(2)
    z = 0 * p["Mu"]
    return [[p["M2"] + z, r2 * d["sb"] * mW], [r2 * d["cb"] * mW, p["Mu"] + z]]


def neutralino_det(p, d):
    """closed form of det M_chi0 (expansion of the 4x4 determinant in the SLHA form)"""
    return p["Mu"] * (-p["Mu"] * p["M1"] * p["M2"]
                      + d["mZ2"] * d["s2b"] * (p["M1"] * d["cW2"] + p["M2"] * d["sW2"]))


def neutralino_det_terms(p, d):
    return [p["Mu"] * p["Mu"] * p["M1"] * p["M2"], p["Mu"] * d["mZ2"] * d["s2b"] * p["M1"] * d["cW2"],
            p["Mu"] * d["mZ2"] * d["s2b"] * p["M2"] * d["sW2"]]


def fermion_masses(p, sqrt):
    r2 = sqrt(2)
    out = {}
    for nm, (y, v, g) in {"MFu": ("Yu", "vu", 0), "MFc": ("Yu", "vu", 1), "MFt": ("Yu", "vu", 2),
                          "MFd": ("Yd", "vd", 0), "MFs": ("Yd", "vd", 1), "MFb": ("Yd", "vd", 2),
                          "MFe": ("Ye", "vd", 0), "MFm": ("Ye", "vd", 1), "MFtau": ("Ye", "vd", 2)}.items():
        out[nm] = p[y][g] * p[v] / r2
    return out


# ---------------------------------------------------------------- mpmath confirmation
def to_mp(p):
    import mpmath
    q = {}
    for k, v in p.items():
        q[k] = [mpmath.mpf(float(x)) for x in v] if isinstance(v, (list, tuple)) or hasattr(v, "__len__") \
            else mpmath.mpf(float(v))
    return q


def mp_matrix(p, sector, dps=50):
    """reference matrix of one sector at `dps` digits from a single point's parameters (floats)"""
    import mpmath
    with mpmath.workdps(dps):
        q = to_mp(p)
        d = derived(q, mpmath.sqrt)
        if sector in SFERMIONS:
            m = sfermion(q, d, sector, mpmath.sqrt)
        elif sector in SNEUTRINOS:
            m = [[sneutrino(q, d, sector)]]
        elif sector == "hh":
            m = higgs_even(q, d)
        elif sector == "Ah":
            m = higgs_odd(q, d)
        elif sector == "Hpm":
            m = higgs_charged(q, d)
        elif sector == "Chi":
            m = neutralino(q, d, mpmath.sqrt)
        elif sector == "Cha":
            m = chargino(q, d, mpmath.sqrt)
        else:
            raise KeyError(sector)
        return mpmath.matrix(m)


def mp_min_eig(p, sector, dps=50):
    import mpmath
    with mpmath.workdps(dps):
        m = mp_matrix(p, sector, dps)
        if m.rows == 1:
            return m[0, 0]
        ev = mpmath.eigsy(m, eigvals_only=True)
        return min(ev)


def selftest():
    """internal consistency of the closed forms (not a statement about the library)"""
    import numpy as np
    p = dict(g1=0.46, g2=0.65, vd=30.0, vu=244.0, Mu=-350.0, BMu=4e4, M1=120.0, M2=-310.0)
    d = derived(p, math.sqrt)
    m = np.array(neutralino(p, d, math.sqrt))
    assert abs(np.linalg.det(m) - neutralino_det(p, d)) < 1e-6 * abs(neutralino_det(p, d))
    for f in (higgs_odd, higgs_charged):
        ev = np.linalg.eigvalsh(np.array(f(p, d)))
        assert min(abs(ev - d["mZ2"]).min(), abs(ev - d["mW2"]).min()) < 1e-6
    return True
