"""High-precision reference definitions of the loop / special functions.

Transcribed from the *defining* expressions in /repo/math/ffunctions.m and the
cited papers; none of the library's series, windows or shifts is reproduced.
Removable singularities are handled by raising the working precision (the
closed forms cancel to d^4 near x = 1, so dps grows with -log10|x-1|), or,
at exact coincidence, by the documented analytic limit.
"""
import mpmath
from mpmath import mp, mpf, mpc, log, polylog, pi, sqrt, re as mre, im as mim

BASE_DPS = 50


def _li2(x):
    return polylog(2, x)


def _dps_for(*deltas, per_decade=5):
    """precision needed when a closed form cancels like delta^k"""
    extra = 0
    for d in deltas:
        d = abs(d)
        if d == 0:
            continue
        if d < 1:
            extra = max(extra, int(-mpmath.log10(d)) * per_decade)
    return BASE_DPS + extra


class prec:
    def __init__(self, dps):
        self.dps = dps

    def __enter__(self):
        self.old = mp.dps
        mp.dps = self.dps

    def __exit__(self, *a):
        mp.dps = self.old


# ---------------------------------------------------------------- one argument

def F1C(x):
    if x == 0: return mpf(4)
    if x == 1: return mpf(1)
    return 2/(1 - x)**4*(2 + 3*x - 6*x**2 + x**3 + 6*x*log(x))

def F2C(x):
    if x == 1: return mpf(1)
    return 3/(2*(1 - x)**3)*(-3 + 4*x - x**2 - 2*log(x))

def F3C(x):
    if x == 1: return mpf(1)
    return 4/(141*(1 - x)**4)*((1 - x)*(151*x**2 - 335*x + 592)
        + 6*(21*x**3 - 108*x**2 - 93*x + 50)*log(x)
        - 54*x*(x**2 - 2*x - 2)*log(x)**2
        - 108*x*(x**2 - 2*x + 12)*mre(_li2(1 - x)))

def F4C(x):
    if x == 1: return mpf(1)
    return -9/(122*(1 - x)**3)*(8*(x**2 - 3*x + 2) + (11*x**2 - 40*x + 5)*log(x)
        - 2*(x**2 - 2*x - 2)*log(x)**2 - 4*(x**2 - 2*x + 9)*mre(_li2(1 - x)))

def F1N(x):
    if x == 0: return mpf(2)
    if x == 1: return mpf(1)
    return 2/(1 - x)**4*(1 - 6*x + 3*x**2 + 2*x**3 - 6*x**2*log(x))

def F2N(x):
    if x == 0: return mpf(3)
    if x == 1: return mpf(1)
    return 3/(1 - x)**3*(1 - x**2 + 2*x*log(x))

def F3N(x):
    if x == 0: return mpf(8)/105
    if x == 1: return mpf(1)
    return 4/(105*(1 - x)**4)*((1 - x)*(-97*x**2 - 529*x + 2)
        + 6*x**2*(13*x + 81)*log(x) + 108*x*(7*x + 4)*mre(_li2(1 - x)))

def F4N(x):
    if x == 0: return -mpf(3)/4*(-9 + pi**2)
    if x == 1: return mpf(1)
    return -(mpf(9)/4/(1 - x)**3)*((x + 3)*(x*log(x) + x - 1) + (6*x + 2)*mre(_li2(1 - x)))

def G3(x):
    if x == 1: return mpf(1)/3
    return 1/(2*(x - 1)**3)*((x - 1)*(x - 3) + 2*log(x))

def G4(x):
    if x == 1: return mpf(1)/6
    return 1/(2*(x - 1)**3)*((x - 1)*(x + 1) - 2*x*log(x))

def fPS(z):
    if z == 0: return mpf(0)
    if z == mpf(1)/4: return 2*log(2)
    y = sqrt(mpc(1 - 4*z))
    return mre(2*z/y*(_li2(1 - (1 - y)/(2*z)) - _li2(1 - (1 + y)/(2*z))))

def fS(z):
    if z == 0: return mpf(0)
    return (2*z - 1)*fPS(z) - 2*z*(2 + log(z))

def fsferm(z):
    if z == 0: return mpf(0)
    return z/2*(2 + log(z) - fPS(z))

def fCSl(z):
    if z == 0: return mpf(0)
    return z*(z + z*(z - 1)*(mre(_li2(1 - 1/z)) - pi**2/6) + (z - mpf(1)/2)*log(z))

# arXiv:1502.04199 Eqs.(25)-(28): integral definitions; the closed forms in
# terms of f_PS below are the ones quoted in math/ffunctions.m and are checked
# against the integrals in selftest().
def F1(w):
    if w == 0: return mpf(0)
    return (w - mpf(1)/2)*fPS(w) - w*(2 + log(w))

def F1t(w):
    return fPS(w)/2

def F2(w):
    return 1 + (log(w) - fPS(w))/2

def F3(w):
    return (mpf(17)/2 - 15*w)*fPS(w)/2 + (mpf(1)/2 + mpf(15)/2*w)*(2 + log(w))

def F1_int(w):
    return w/2*mpmath.quad(lambda x: (2*x*(1 - x) - 1)/(w - x*(1 - x))*log(w/(x*(1 - x))), [0, mpf(1)/2, 1])

def F1t_int(w):
    return w/2*mpmath.quad(lambda x: 1/(w - x*(1 - x))*log(w/(x*(1 - x))), [0, mpf(1)/2, 1])

def F2_int(w):
    return mpf(1)/2*mpmath.quad(lambda x: x*(x - 1)/(w - x*(1 - x))*log(w/(x*(1 - x))), [0, mpf(1)/2, 1])

def F3_int(w):
    return mpf(1)/2*mpmath.quad(lambda x: (x*w*(3*x*(4*x - 1) + 10) - x*(1 - x))/(w - x*(1 - x))*log(w/(x*(1 - x))), [0, mpf(1)/2, 1])

def dilog(x):
    return mre(_li2(x))

def clausen_2(x):
    return mpmath.clsin(2, x)

def dilogc(re_, im_):
    # on the cut (im == 0, re > 1) the library documents the value below the
    # cut: Im = -pi log(re) (continuity from Im z -> -0)
    if im_ == 0:
        r = mre(_li2(re_))
        if re_ > 1:
            return r, -pi*log(re_)
        return r, mpf(0)
    v = _li2(mpc(re_, im_))
    return mre(v), mim(v)

# ---------------------------------------------------------------- more arguments

def Fa(x, y):
    if x == 0 or y == 0: return mpf(0)     # documented: multiplied by vanishing mass
    if x == y:
        if x == 1: return mpf(1)/4
        return (2 + 3*x - 6*x**2 + x**3 + 6*x*log(x))/(2*(-1 + x)**4*x)
    return -(G3(x) - G3(y))/(x - y)

def Fb(x, y):
    if x == 0 or y == 0: return mpf(0)
    if x == y:
        if x == 1: return mpf(1)/12
        return (-5 + 4*x + x**2 - 2*log(x) - 4*x*log(x))/(2*(-1 + x)**4)
    return -(G4(x) - G4(y))/(x - y)

def I2abc(a, b, c):
    a, b, c = sorted([a, b, c])
    if c == 0: return mpf(0)
    if a == 0 and b == 0: return mpf(0) if False else mpmath.inf
    if a == b == c: return 1/(2*a)
    if a == b: return (a - c - c*log(a/c))/(a - c)**2
    if b == c: return (b - a - a*log(b/a))/(b - a)**2 if a != 0 else 1/b
    if a == 0: return log(b/c)/(b - c)
    return (a*b*log(a/b) + b*c*log(b/c) + c*a*log(c/a))/((a - b)*(b - c)*(a - c))

def Iabc(a, b, c):
    return I2abc(a*a, b*b, c*c)

def LambdaK2(x, y, z):
    return x**2 + y**2 + z**2 - 2*x*y - 2*y*z - 2*z*x

def lambda_2(x, y, z):
    return LambdaK2(x, y, z)

def Phi(x, y, z):
    # arXiv:1607.06292 Eq.(68); z must be the largest argument for the
    # alpha_+- form, the function itself is totally symmetric.
    x, y, z = sorted([x, y, z])
    l2 = LambdaK2(x, y, z)
    if l2 == 0: return mpf(0)
    l = sqrt(mpc(l2))
    ap = (z + x - y - l)/(2*z); am = (z - x + y - l)/(2*z)
    return mre(l/2*(2*log(ap)*log(am) - log(x/z)*log(y/z) - 2*_li2(ap) - 2*_li2(am) + pi**2/3))

def FPZ(x, y):
    if x == 0 or y == 0: return mpf(0)
    if x == y:
        if x == mpf(1)/4: return (-1 - 2*log(2))/3
        return -2*x*(fPS(x) + log(x))/(-1 + 4*x)
    return (y*fPS(x) - x*fPS(y))/(x - y)

def FSZ(x, y):
    if x == 0 or y == 0: return mpf(0)
    if x == y:
        if x == mpf(1)/4: return (-1 + log(16))/3
        return 2*x*(1 - 4*x + 2*x*fPS(x) + log(x) - 2*x*log(x))/(-1 + 4*x)
    return (y*fS(x) - x*fS(y))/(x - y)

def FCWl(x, y):
    if x == 0 or y == 0: return mpf(0)
    if x == y:
        # limit of the difference quotient: f(x) - x f'(x) for g(x,y) = (y f(x) - x f(y))/(x-y) -> x f'(x) - f(x) ... use derivative
        f = fCSl
        return x*mpmath.diff(f, x) - f(x)
    return (y*fCSl(x) - x*fCSl(y))/(x - y)

def PhiOverY(xu, xd):
    y = (xu - xd)**2 - 2*(xu + xd) + 1
    if y == 0:
        s = sqrt(xd)
        if abs(xu - (1 - 2*s + xd)) <= abs(xu - (1 + 2*s + xd)):
            return -log(abs(-1 + s))/s + log(xd)/(2*(-1 + s))
        return log(1 + s)/s - log(xd)/(2*(1 + s))
    return Phi(xd, xu, mpf(1))/y

def fCSd(xu, xd, qu, qd):
    if xd == 0: return mpf(0)
    s = (qu + qd)/4
    c = (xu - xd)**2 - qu*xu + qd*xd
    cbar = (xu - qu)*xu - (xd + qd)*xd
    lxu = log(xu); lxd = log(xd)
    return xd*(-(xu - xd) + (cbar - c*(xu - xd))*PhiOverY(xu, xd)
               + c*(mre(_li2(1 - xd/xu)) - lxu*(lxd - lxu)/2) + (s + xd)*lxd + (s - xu)*lxu)

def fCSu(xu, xd, qu, qd):
    if xu == 0: return mpf(0)
    lxu = log(xu); lxd = log(xd)
    return xu*(fCSd(xu, xd, qu + 2, qd + 2)/xd - mpf(4)/3*(xu - xd - 1)*PhiOverY(xu, xd)
               - (lxd + lxu)*(lxd - lxu)/3)

def FCWd(xu, xd, yu, yd, qu, qd):
    return (yd*fCSd(xu, xd, qu, qd) - xd*fCSd(yu, yd, qu, qd))/(xd - yd)

def FCWu(xu, xd, yu, yd, qu, qd):
    return (yu*fCSu(xu, xd, qu, qd) - xu*fCSu(yu, yd, qu, qd))/(xu - yu)


ONE_ARG = {
    "F1C": F1C, "F2C": F2C, "F3C": F3C, "F4C": F4C, "F1N": F1N, "F2N": F2N,
    "F3N": F3N, "F4N": F4N, "G3": G3, "G4": G4, "f_PS": fPS, "f_S": fS,
    "f_sferm": fsferm, "f_CSl": fCSl, "F1": F1, "F1t": F1t, "F2": F2, "F3": F3,
    "dilog": dilog, "clausen_2": clausen_2,
}
MULTI = {
    "Fa": Fa, "Fb": Fb, "Iabc": Iabc, "Phi": Phi, "lambda_2": lambda_2,
    "FPZ": FPZ, "FSZ": FSZ, "FCWl": FCWl, "f_CSd": fCSd, "f_CSu": fCSu,
    "FCWu": FCWu, "FCWd": FCWd,
}
# which functions cancel near 1 (need d^k extra precision)
_NEAR1 = {"F1C", "F2C", "F3C", "F4C", "F1N", "F2N", "F3N", "F4N", "G3", "G4"}


def ref1(name, x):
    """reference value of a one-argument function at the double x (float)."""
    f = ONE_ARG[name]
    xm = mpf(x)
    dps = BASE_DPS
    if name in _NEAR1:
        dps = _dps_for(x - 1.0)
    elif name in ("f_PS", "f_S", "f_sferm", "F1", "F1t", "F2", "F3"):
        dps = _dps_for(x - 0.25, per_decade=2) + (int(mpmath.log10(x)) * 2 if x > 10 else 0)
    elif name == "f_CSl":
        dps = BASE_DPS + (int(mpmath.log10(x)) * 3 if x > 10 else 0)
    with prec(dps):
        return +f(mpf(x))


def refN(name, args):
    f = MULTI[name]
    a = [float(v) for v in args]
    ds = []
    pos = [v for v in a if v > 0]
    for i in range(len(pos)):
        ds.append(pos[i] - 1.0)
        ds.append(pos[i] - 0.25)
        for j in range(i + 1, len(pos)):
            ds.append((pos[i] - pos[j]) / max(pos[i], pos[j]))
    dps = _dps_for(*[d for d in ds if d != 0]) if ds else BASE_DPS
    if pos:
        span = max(pos) / min(pos)
        dps += int(mpmath.log10(span)) * 3 if span > 10 else 0
    with prec(dps):
        return +f(*[mpf(v) for v in a])


def selftest():
    """identities / integral definitions: validates the oracle itself."""
    bad = []
    with prec(40):
        for w in [mpf("0.01"), mpf("0.2"), mpf("0.3"), mpf(1), mpf(7), mpf(150)]:
            for nm, a, b in (("F1", F1, F1_int), ("F1t", F1t, F1t_int), ("F2", F2, F2_int), ("F3", F3, F3_int)):
                va, vb = a(w), b(w)
                if abs(va - vb) > mpf(10)**-20*max(1, abs(va)):
                    bad.append((nm, float(w), str(va), str(vb)))
        # Li2 reflection, f_PS at 1/4 limit, Phi symmetry, Iabc limit
        x = mpf("0.3")
        if abs(_li2(x) + _li2(1 - x) - (pi**2/6 - log(x)*log(1 - x))) > mpf(10)**-30: bad.append("li2-reflection")
        if abs(fPS(mpf(1)/4 + mpf(10)**-25) - 2*log(2)) > mpf(10)**-20: bad.append("fPS-1/4")
        if abs(Phi(mpf(1), mpf(2), mpf(5)) - Phi(mpf(5), mpf(1), mpf(2))) > mpf(10)**-30: bad.append("Phi-sym")
        if abs(Phi(mpf(2), mpf(3), mpf(1)) - 2*Phi(mpf(1), mpf("1.5"), mpf("0.5"))) > mpf(10)**-30: bad.append("Phi-hom")
        if abs(I2abc(mpf(2), mpf(2) + mpf(10)**-20, mpf(3)) - I2abc(mpf(2), mpf(2), mpf(3))) > mpf(10)**-15: bad.append("I-limit")
        if abs(FCWl(mpf(2), mpf(2)) - FCWl(mpf(2), mpf(2) + mpf(10)**-18)) > mpf(10)**-12: bad.append("FCWl-limit")
        # FCWl(x,x) closed form of ffunctions.m
        xx = mpf("0.7")
        cf = (-3*xx + 12*xx**2 + pi**2*xx**2 - 2*pi**2*xx**3 - 6*xx**2*log(1 - (-1 + xx)/xx) + 6*xx**2*log(xx)
              + 6*xx**2*_li2(1 - 1/xx) - 6*xx**3*_li2(1 - 1/xx) - 12*xx**2*_li2((-1 + xx)/xx) + 18*xx**3*_li2((-1 + xx)/xx))/6
        if abs(mre(cf) - FCWl(xx, xx)) > mpf(10)**-25: bad.append(("FCWl-closed", str(cf), str(FCWl(xx, xx))))
    return bad


if __name__ == "__main__":
    print(selftest() or "oracle selftest ok")
