"""High-precision reference definitions of the loop / special functions.

Transcribed from the *defining* expressions in /repo/math/ffunctions.m and the
cited papers; none of the library's series, windows or shifts is reproduced.
Removable singularities are handled by raising the working precision (the
closed forms cancel to d^4 near x = 1, so dps grows with -log10|x-1|), or,
at exact coincidence, by the documented analytic limit.
"""
import mpmath
from mpmath import mp, mpf, mpc, log, polylog, pi, sqrt, re as mre, im as mim

BASE_DPS = 50


def _li2(x):
    return polylog(2, x)


def _dps_for(*deltas, per_decade=5):
    """precision needed when a closed form cancels like delta^k"""
    extra = 0
    for d in deltas:
        d = abs(d)
        if d == 0:
            continue
        if d < 1:
            extra = max(extra, int(-mpmath.log10(d)) * per_decade)
    return BASE_DPS + extra


class prec:
    def __init__(self, dps):
        self.dps = dps

    def __enter__(self):
        self.old = mp.dps
        mp.dps = self.dps

    def __exit__(self, *a):
        mp.dps = self.old


# ---------------------------------------------------------------- one argument

def F1C(x):
    if x == 0: return mpf(4)
    if x == 1: return mpf(1)
    return 2/(1 - x)**4*(2 + 3*x - 6*x**2 + x**3 + 6*x*log(x))

def F2C(x):
    if x == 1: return mpf(1)
    return 3/(2*(1 - x)**3)*(-3 + 4*x - x**2 - 2*log(x))

def F3C(x):
    if x == 1: return mpf(1)
    return 4/(141*(1 - x)**4)*((1 - x)*(151*x**2 - 335*x + 592)
        + 6*(21*x**3 - 108*x**2 - 93*x + 50)*log(x)
        - 54*x*(x**2 - 2*x - 2)*log(x)**2
        - 108*x*(x**2 - 2*x + 12)*mre(_li2(1 - x)))

def F4C(x):
    if x == 1: return mpf(1)
    return -9/(122*(1 - x)**3)*(8*(x**2 - 3*x + 2) + (11*x**2 - 40*x + 5)*log(x)
        - 2*(x**2 - 2*x - 2)*log(x)**2 - 4*(x**2 - 2*x + 9)*mre(_li2(1 - x)))

def F1N(x):
    if x == 0: return mpf(2)
    if x == 1: return mpf(1)
    return 2/(1 - x)**4*(1 - 6*x + 3*x**2 + 2*x**3 - 6*x**2*log(x))

def F2N(x):
    if x == 0: return mpf(3)
    if x == 1: return mpf(1)
    return 3/(1 - x)**3*(1 - x**2 + 2*x*log(x))

def F3N(x):
    if x == 0: return mpf(8)/105
    if x == 1: return mpf(1)
    return 4/(105*(1 - x)**4)*((1 - x)*(-97*x**2 - 529*x + 2)
        + 6*x**2*(13*x + 81)*log(x) + 108*x*(7*x + 4)*mre(_li2(1 - x)))

def F4N(x):
    if x == 0: return -mpf(3)/4*(-9 + pi**2)
    if x == 1: return mpf(1)
    return -(mpf(9)/4/(1 - x)**3)*((x + 3)*(x*log(x) + x - 1) + (6*x + 2)*mre(_li2(1 - x)))

def G3(x):
    if x == 1: return mpf(1)/3
    return 1/(2*(x - 1)**3)*((x - 1)*(x - 3) + 2*log(x))

def G4(x):
    if x == 1: return mpf(1)/6
    return 1/(2*(x - 1)**3)*((x - 1)*(x + 1) - 2*x*log(x))

def fPS(z):
    if z == 0: return mpf(0)
    if z == mpf(1)/4: return 2*log(2)
    y = sqrt(mpc(1 - 4*z))
    return mre(2*z/y*(_li2(1 - (1 - y)/(2*z)) - _li2(1 - (1 + y)/(2*z))))

def fS(z):
    if z == 0: return mpf(0)
    return (2*z - 1)*fPS(z) - 2*z*(2 + log(z))

def fsferm(z):
    if z == 0: return mpf(0)
    return z/2*(2 + log(z) - fPS(z))

def fCSl(z):
    if z == 0: return mpf(0)
    return z*(z + z*(z - 1)*(mre(_li2(1 - 1/z)) - pi**2/6) + (z - mpf(1)/2)*log(z))

# arXiv:1502.04199 Eqs.(25)-(28): integral definitions; the closed forms in
# terms of f_PS below are the ones quoted in math/ffunctions.m and are checked
# against the integrals in selftest().
def F1(w):
    if w == 0: return mpf(0)
    return (w - mpf(1)/2)*fPS(w) - w*(2 + log(w))

def F1t(w):
    return fPS(w)/2

def F2(w):
    return 1 + (log(w) - fPS(w))/2

def F3(w):
    return (mpf(17)/2 - 15*w)*fPS(w)/2 + (mpf(1)/2 + mpf(15)/2*w)*(2 + log(w))

def F1_int(w):
    return w/2*mpmath.quad(lambda x: (2*x*(1 - x) - 1)/(w - x*(1 - x))*log(w/(x*(1 - x))), [0, mpf(1)/2, 1])

def F1t_int(w):
    return w/2*mpmath.quad(lambda x: 1/(w - x*(1 - x))*log(w/(x*(1 - x))), [0, mpf(1)/2, 1])

def F2_int(w):
    return mpf(1)/2*mpmath.quad(lambda x: x*(x - 1)/(w - x*(1 - x))*log(w/(x*(1 - x))), [0, mpf(1)/2, 1])

def F3_int(w):
    return mpf(1)/2*mpmath.quad(lambda x: (x*w*(3*x*(4*x - 1) + 10) - x*(1 - x))/(w - x*(1 - x))*log(w/(x*(1 - x))), [0, mpf(1)/2, 1])

def dilog(x):
    return mre(_li2(x))

def clausen_2(x):
    return mpmath.clsin(2, x)

def dilogc(re_, im_):
    # on the cut (im == 0, re > 1) the library documents the value below the
    # cut: Im = -pi log(re) (continuity from Im z -> -0)
    if im_ == 0:
        r = mre(_li2(re_))
        if re_ > 1:
            return r, -pi*log(re_)
        return r, mpf(0)
    v = _li2(mpc(re_, im_))
    return mre(v), mim(v)

# ---------------------------------------------------------------- more arguments

def Fa(x, y):
    if x == 0 or y == 0: return mpf(0)     # documented: multiplied by vanishing mass
    if x == y:
        if x == 1: return mpf(1)/4
        return (2 + 3*x - 6*x**2 + x**3 + 6*x*log(x))/(2*(-1 + x)**4*x)
    return -(G3(x) - G3(y))/(x - y)

def Fb(x, y):
    if x == 0 or y == 0: return mpf(0)
    if x == y:
        if x == 1: return mpf(1)/12
        return (-5 + 4*x + x**2 - 2*log(x) - 4*x*log(x))/(2*(-1 + x)**4)
    return -(G4(x) - G4(y))/(x - y)

def I2abc(a, b, c):
    a, b, c = sorted([a, b, c])
    if c == 0: return mpf(0)
    if a == 0 and b == 0: return mpf(0) if False else mpmath.inf
    if a == b == c: return 1/(2*a)
    if a == b: return (a - c - c*log(a/c))/(a - c)**2
    if b == c: return (b - a - a*log(b/a))/(b - a)**2 if a != 0 else 1/b
    if a == 0: return log(b/c)/(b - c)
    return (a*b*log(a/b) + b*c*log(b/c) + c*a*log(c/a))/((a - b)*(b - c)*(a - c))

def Iabc(a, b, c):
    return I2abc(a*a, b*b, c*c)

def LambdaK2(x, y, z):
    return x**2 + y**2 + z**2 - 2*x*y - 2*y*z - 2*z*x

def lambda_2(x, y, z):
    return LambdaK2(x, y, z)

def Phi(x, y, z):
    # arXiv:1607.06292 Eq.(68); z must be the largest argument for the
    # alpha_+- form, the function itself is totally symmetric.
    x, y, z = sorted([x, y, z])
    l2 = LambdaK2(x, y, z)
    if l2 == 0: return mpf(0)
    l = sqrt(mpc(l2))
    ap = (z + x - y - l)/(2*z); am = (z - x + y - l)/(2*z)
    return mre(l/2*(2*log(ap)*log(am) - log(x/z)*log(y/z) - 2*_li2(ap) - 2*_li2(am) + pi**2/3))

def FPZ(x, y):
    if x == 0 or y == 0: return mpf(0)
    if x == y:
        if x == mpf(1)/4: return (-1 - 2*log(2))/3
        return -2*x*(fPS(x) + log(x))/(-1 + 4*x)
    return (y*fPS(x) - x*fPS(y))/(x - y)

def FSZ(x, y):
    if x == 0 or y == 0: return mpf(0)
    if x == y:
        if x == mpf(1)/4: return (-1 + log(16))/3
        return 2*x*(1 - 4*x + 2*x*fPS(x) + log(x) - 2*x*log(x))/(-1 + 4*x)
    return (y*fS(x) - x*fS(y))/(x - y)

def FCWl(x, y):
    if x == 0 or y == 0: return mpf(0)
    if x == y:
        # limit of the difference quotient: f(x) - x f'(x) for g(x,y) = (y f(x) - x f(y))/(x-y) -> x f'(x) - f(x) ... use derivative
        f = fCSl
        return x*mpmath.diff(f, x) - f(x)
    return (y*fCSl(x) - x*fCSl(y))/(x - y)

def PhiOverY(xu, xd):
    y = (xu - xd)**2 - 2*(xu + xd) + 1
    if y == 0:
        s = sqrt(xd)
        if abs(xu - (1 - 2*s + xd)) <= abs(xu - (1 + 2*s + xd)):
            return -log(abs(-1 + s))/s + log(xd)/(2*(-1 + s))
        return log(1 + s)/s - log(xd)/(2*(1 + s))
    return Phi(xd, xu, mpf(1))/y

def fCSd(xu, xd, qu, qd):
    if xd == 0: return mpf(0)
    s = (qu + qd)/4
    c = (xu - xd)**2 - qu*xu + qd*xd
    cbar = (xu - qu)*xu - (xd + qd)*xd
    lxu = log(xu); lxd = log(xd)
    return xd*(-(xu - xd) + (cbar - c*(xu - xd))*PhiOverY(xu, xd)
               + c*(mre(_li2(1 - xd/xu)) - lxu*(lxd - lxu)/2) + (s + xd)*lxd + (s - xu)*lxu)

def fCSu(xu, xd, qu, qd):
    if xu == 0: return mpf(0)
    lxu = log(xu); lxd = log(xd)
    return xu*(fCSd(xu, xd, qu + 2, qd + 2)/xd - mpf(4)/3*(xu - xd - 1)*PhiOverY(xu, xd)
               - (lxd + lxu)*(lxd - lxu)/3)

def FCWd(xu, xd, yu, yd, qu, qd):
    return (yd*fCSd(xu, xd, qu, qd) - xd*fCSd(yu, yd, qu, qd))/(xd - yd)

def FCWu(xu, xd, yu, yd, qu, qd):
    return (yu*fCSu(xu, xd, qu, qd) - xu*fCSu(yu, yd, qu, qd))/(xu - yu)


# ---- C02 additions -------------------------------------------------------------------------
# Shared evaluation of f_CSd / f_CSu (same expressions as fCSd/fCSu above, the expensive
# PhiOverY / Li2 / log pieces computed once per (xu, xd) and reused for every charge pair).

def fCS_parts(xu, xd):
    return (PhiOverY(xu, xd), mre(_li2(1 - xd/xu)), log(xu), log(xd))

def fCSd_from(parts, xu, xd, qu, qd):
    phiy, li, lxu, lxd = parts
    s = (qu + qd)/4
    c = (xu - xd)**2 - qu*xu + qd*xd
    cbar = (xu - qu)*xu - (xd + qd)*xd
    return xd*(-(xu - xd) + (cbar - c*(xu - xd))*phiy + c*(li - lxu*(lxd - lxu)/2) + (s + xd)*lxd + (s - xu)*lxu)

def fCSu_from(parts, xu, xd, qu, qd):
    phiy, li, lxu, lxd = parts
    return xu*(fCSd_from(parts, xu, xd, qu + 2, qd + 2)/xd - mpf(4)/3*(xu - xd - 1)*phiy
               - (lxd + lxu)*(lxd - lxu)/3)

def fCS_all(xu, xd, charges):
    """[(fCSd, fCSu)] for every (qu, qd) in charges; xu, xd > 0."""
    parts = fCS_parts(xu, xd)
    return [(fCSd_from(parts, xu, xd, qu, qd), fCSu_from(parts, xu, xd, qu, qd)) for qu, qd in charges]

def FCW_both(xu, xd, yu, yd, qu, qd):
    """(FCWu, FCWd) of ffunctions.m.  When the two mass scales coincide exactly (xu == yu and
    xd == yd) the difference quotient is replaced by its limit along the physical direction
    (yu, yd) = s (xu, xd), s -> 1, evaluated as the symmetric mean over s = 1 +- h (error O(h^2))."""
    if xu == yu and xd == yd:
        h = mpf(10)**(-(mp.dps//3))
        res = [mpf(0), mpf(0)]
        d0, u0 = fCS_all(xu, xd, [(qu, qd)])[0]
        for s in (1 + h, 1 - h):
            d1, u1 = fCS_all(s*xu, s*xd, [(qu, qd)])[0]
            res[0] += (s*u0 - u1)/(1 - s)/2
            res[1] += (s*d0 - d1)/(1 - s)/2
        return res[0], res[1]
    d0, u0 = fCS_all(xu, xd, [(qu, qd)])[0]
    d1, u1 = fCS_all(yu, yd, [(qu, qd)])[0]
    return (yu*u0 - xu*u1)/(xu - yu), (yd*d0 - xd*d1)/(xd - yd)

def FCWl_closed(x):
    """FCWl[x, x] exactly as written in math/ffunctions.m"""
    return mre((-3*x + 12*x**2 + pi**2*x**2 - 2*pi**2*x**3 - 6*x**2*log(1 - (-1 + x)/x) + 6*x**2*log(x)
                + 6*x**2*_li2(1 - 1/x) - 6*x**3*_li2(1 - 1/x) - 12*x**2*_li2((-1 + x)/x)
                + 18*x**3*_li2((-1 + x)/x))/6)

def Phi_DT_integral(u, v):
    """Davydychev-Tausk one-dimensional integral representation of Phi(u, v) (independent of the
    closed form): Phi(x, y, z) = z lambda^2(u, v)/2 * Phi_DT(x/z, y/z).  Used to validate Phi()."""
    g = lambda xi: -(log(v/u) + 2*log(xi))/(v*xi*xi + (1 - u - v)*xi + u)
    return mpmath.quad(g, [0, mpf(1)/4, mpf(1)/2, mpf(3)/4, 1])

def dps_multi(args, base=30):
    """working precision for the multi-argument definitions: base + 5 digits per decade of
    closeness of any two positive arguments to each other / to 1 / to 1/4 (the closed forms
    cancel like delta^k there) + allowance for cancellation at very large / small arguments."""
    pos = [float(v) for v in args if v > 0]
    ds = []
    for i in range(len(pos)):
        ds.append(pos[i] - 1.0)
        ds.append(pos[i] - 0.25)
        for j in range(i + 1, len(pos)):
            ds.append((pos[i] - pos[j])/max(pos[i], pos[j]))
    dps = base - BASE_DPS + _dps_for(*[d for d in ds if d != 0]) if ds else base
    if pos:
        import math
        dps += int(4*max(0.0, math.log10(max(pos))) + 2*max(0.0, -math.log10(min(pos))))
    return dps

def ref_multi(name, args, extra=0):
    """reference value(s) at the doubles `args`.  name in MULTI, or the groups
    'fCS' (args = xu, xd, then charge pairs flattened -> list of (fCSd, fCSu)) and
    'FCW' (args = xu, xd, yu, yd, qu, qd -> (FCWu, FCWd))."""
    a = [float(v) for v in args]
    if name == "fCS":
        with prec(dps_multi(a[:2]) + extra):
            ch = [(mpf(a[i]), mpf(a[i + 1])) for i in range(2, len(a), 2)]
            return [(+d, +u) for d, u in fCS_all(mpf(a[0]), mpf(a[1]), ch)]
    if name == "FCW":
        with prec(dps_multi(a[:4]) + extra + (30 if (a[0] == a[2] and a[1] == a[3]) else 0)):
            u, d = FCW_both(*[mpf(v) for v in a])
            return +u, +d
    if name == "FCWl" and a[0] == a[1] and a[0] > 0:
        with prec(dps_multi(a) + extra):
            return +FCWl_closed(mpf(a[0]))
    with prec(dps_multi(a) + extra):
        return +MULTI[name](*[mpf(v) for v in a])


ONE_ARG = {
    "F1C": F1C, "F2C": F2C, "F3C": F3C, "F4C": F4C, "F1N": F1N, "F2N": F2N,
    "F3N": F3N, "F4N": F4N, "G3": G3, "G4": G4, "f_PS": fPS, "f_S": fS,
    "f_sferm": fsferm, "f_CSl": fCSl, "F1": F1, "F1t": F1t, "F2": F2, "F3": F3,
    "dilog": dilog, "clausen_2": clausen_2,
}
MULTI = {
    "Fa": Fa, "Fb": Fb, "Iabc": Iabc, "Phi": Phi, "lambda_2": lambda_2,
    "FPZ": FPZ, "FSZ": FSZ, "FCWl": FCWl, "f_CSd": fCSd, "f_CSu": fCSu,
    "FCWu": FCWu, "FCWd": FCWd,
}
# which functions cancel near 1 (need d^k extra precision)
_NEAR1 = {"F1C", "F2C", "F3C", "F4C", "F1N", "F2N", "F3N", "F4N", "G3", "G4"}


def ref1(name, x):
    """reference value of a one-argument function at the double x (float)."""
    f = ONE_ARG[name]
    xm = mpf(x)
    dps = BASE_DPS
    if name in _NEAR1:
        dps = _dps_for(x - 1.0)
    elif name in ("f_PS", "f_S", "f_sferm", "F1", "F1t", "F2", "F3"):
        dps = _dps_for(x - 0.25, per_decade=2) + (int(mpmath.log10(x)) * 2 if x > 10 else 0)
    elif name == "f_CSl":
        dps = BASE_DPS + (int(mpmath.log10(x)) * 3 if x > 10 else 0)
    with prec(dps):
        return +f(mpf(x))


def refN(name, args):
    f = MULTI[name]
    a = [float(v) for v in args]
    ds = []
    pos = [v for v in a if v > 0]
    for i in range(len(pos)):
        ds.append(pos[i] - 1.0)
        ds.append(pos[i] - 0.25)
        for j in range(i + 1, len(pos)):
            ds.append((pos[i] - pos[j]) / max(pos[i], pos[j]))
    dps = _dps_for(*[d for d in ds if d != 0]) if ds else BASE_DPS
    if pos:
        span = max(pos) / min(pos)
        dps += int(mpmath.log10(span)) * 3 if span > 10 else 0
    with prec(dps):
        return +f(*[mpf(v) for v in a])


def selftest():
    """identities / integral definitions: validates the oracle itself."""
    bad = []
    with prec(40):
        for w in [mpf("0.01"), mpf("0.2"), mpf("0.3"), mpf(1), mpf(7), mpf(150)]:
            for nm, a, b in (("F1", F1, F1_int), ("F1t", F1t, F1t_int), ("F2", F2, F2_int), ("F3", F3, F3_int)):
                va, vb = a(w), b(w)
                if abs(va - vb) > mpf(10)**-20*max(1, abs(va)):
                    bad.append((nm, float(w), str(va), str(vb)))
        # Li2 reflection, f_PS at 1/4 limit, Phi symmetry, Iabc limit
        x = mpf("0.3")
        if abs(_li2(x) + _li2(1 - x) - (pi**2/6 - log(x)*log(1 - x))) > mpf(10)**-30: bad.append("li2-reflection")
        if abs(fPS(mpf(1)/4 + mpf(10)**-25) - 2*log(2)) > mpf(10)**-20: bad.append("fPS-1/4")
        if abs(Phi(mpf(1), mpf(2), mpf(5)) - Phi(mpf(5), mpf(1), mpf(2))) > mpf(10)**-30: bad.append("Phi-sym")
        if abs(Phi(mpf(2), mpf(3), mpf(1)) - 2*Phi(mpf(1), mpf("1.5"), mpf("0.5"))) > mpf(10)**-30: bad.append("Phi-hom")
        if abs(I2abc(mpf(2), mpf(2) + mpf(10)**-20, mpf(3)) - I2abc(mpf(2), mpf(2), mpf(3))) > mpf(10)**-15: bad.append("I-limit")
        if abs(FCWl(mpf(2), mpf(2)) - FCWl(mpf(2), mpf(2) + mpf(10)**-18)) > mpf(10)**-12: bad.append("FCWl-limit")
        # FCWl(x,x) closed form of ffunctions.m
        xx = mpf("0.7")
        cf = (-3*xx + 12*xx**2 + pi**2*xx**2 - 2*pi**2*xx**3 - 6*xx**2*log(1 - (-1 + xx)/xx) + 6*xx**2*log(xx)
              + 6*xx**2*_li2(1 - 1/xx) - 6*xx**3*_li2(1 - 1/xx) - 12*xx**2*_li2((-1 + xx)/xx) + 18*xx**3*_li2((-1 + xx)/xx))/6
        if abs(mre(cf) - FCWl(xx, xx)) > mpf(10)**-25: bad.append(("FCWl-closed", str(cf), str(FCWl(xx, xx))))
    bad += selftest_multi()
    return bad


def selftest_multi():
    """C02: validates the multi-argument references against independent representations."""
    bad = []
    with prec(25):
        # Phi closed form (arXiv:1607.06292 Eq.68) vs the Davydychev-Tausk integral, in all three
        # regions of lambda^2; for lambda^2 < 0 for every choice of the normalising argument (for
        # lambda^2 > 0 the integrand has poles inside (0,1) unless the largest argument normalises)
        for x, y, z in [(1, 1, 1), (0.3, 0.2, 1), (0.01, 0.5, 1), (2.5, 0.7, 1), (0.04, 0.05, 1), (3, 7, 1), (9, 1, 1.5),
                        (1e-3, 1, 1e3), (1, 1.001, 4.1), (1, 1.001, 3.9)]:
            x, y, z = mpf(x), mpf(y), mpf(z)
            l2 = LambdaK2(x, y, z)
            for (p, q, r) in ((x, y, z), (z, x, y), (y, z, x)):
                if l2 > 0 and r != max(x, y, z): continue
                u, v = p/r, q/r
                want = r*((1 - u - v)**2 - 4*u*v)/2*Phi_DT_integral(u, v)
                got = Phi(x, y, z)
                if abs(want - got) > mpf(10)**-15*max(x, y, z): bad.append(("Phi-DT", str(p), str(q), str(r), str(want), str(got)))
    with prec(15):
        # manifestly symmetric Feynman-parameter form of the massless triangle:
        # Phi_DT(x/z, y/z)/z = int da1 da2 1/(a1 a2 z + a2 a3 x + a1 a3 y), a3 = 1 - a1 - a2
        for x, y, z in [(1, 1, 1), (0.2, 1.0, 0.3), (3, 0.5, 1)]:
            x, y, z = mpf(x), mpf(y), mpf(z)
            f = lambda a1, a2: 1/(a1*a2*z + a2*(1 - a1 - a2)*x + a1*(1 - a1 - a2)*y)
            want = LambdaK2(x, y, z)/2*mpmath.quad(lambda a1: mpmath.quad(lambda a2: f(a1, a2), [0, 1 - a1]), [0, 1])
            if abs(want - Phi(x, y, z)) > mpf(10)**-7: bad.append(("Phi-Feynman", str(x), str(y), str(z), str(want), str(Phi(x, y, z))))
    with prec(25):
        # Phi(x,y,y) relations to f_PS (test_ffunctions.cpp / gm2_2loop_B.cpp comments)
        for x, y in [(0.1, 3), (2, 0.3), (5, 1)]:
            x, y = mpf(x), mpf(y)
            if abs(Phi(x, y, y)/(x - 4*y) - x/y/2*fPS(y/x)) > mpf(10)**-18: bad.append(("Phi-fPS", str(x), str(y)))
        # Iabc: defining integral  I(a,b,c) = int_0^inf t dt /((t+a^2)(t+b^2)(t+c^2))
        for a, b, c in [(1, 2, 3), (0.3, 0.3, 2), (5, 0.1, 0.7), (2, 2, 2)]:
            a, b, c = mpf(a), mpf(b), mpf(c)
            want = mpmath.quad(lambda t: t/((t + a*a)*(t + b*b)*(t + c*c)), [0, 1, mpmath.inf])
            if abs(want - Iabc(a, b, c)) > mpf(10)**-15: bad.append(("Iabc-int", str(a), str(b), str(c), str(want), str(Iabc(a, b, c))))
        # Fa/Fb coincidence limits, FPZ/FSZ coincidence limits = limits of the difference quotients
        e = mpf(10)**-12
        mp.dps = 90
        for f in (Fa, Fb, FPZ, FSZ):
            for x in (mpf("0.3"), mpf(2), mpf("0.25"), mpf(1)):
                if abs(f(x, x) - (f(x*(1 + e), x*(1 - e)))) > mpf(10)**-9: bad.append((f.__name__ + "-limit", str(x)))
        # shared f_CS evaluation == plain transcription; FCW limit at equal scales
        xu, xd = mpf("1.3"), mpf("0.4")
        (d, u), = fCS_all(xu, xd, [(mpf(2)/3, -mpf(1)/3)])
        if abs(d - fCSd(xu, xd, mpf(2)/3, -mpf(1)/3)) > mpf(10)**-20 or abs(u - fCSu(xu, xd, mpf(2)/3, -mpf(1)/3)) > mpf(10)**-20:
            bad.append("fCS-shared")
        uu, dd = FCW_both(xu, xd, xu, xd, mpf(2)/3, -mpf(1)/3)
        s = 1 + mpf(10)**-9
        if abs(uu - FCWu(xu, xd, s*xu, s*xd, mpf(2)/3, -mpf(1)/3)) > mpf(10)**-7 or \
           abs(dd - FCWd(xu, xd, s*xu, s*xd, mpf(2)/3, -mpf(1)/3)) > mpf(10)**-7:
            bad.append("FCW-limit")
        # PhiOverY limit formulas at y = 0 against neighbouring points
        for xd in (mpf("0.25"), mpf(4)):
            for sgn in (1, -1):
                xu0 = (1 + sgn*sqrt(xd))**2
                if xu0 == 0: continue
                if abs(PhiOverY(xu0, xd) - PhiOverY(xu0*(1 + mpf(10)**-8), xd)) > mpf(10)**-6: bad.append(("PhiOverY", str(xd), sgn))
    return bad


if __name__ == "__main__":
    print(selftest() or "oracle selftest ok")
