"""Independent reference for the THDM one-loop a_mu (C03 part 2).

Inputs are exactly what the model reports: Yukawa matrices y_l^{h,H,A,H+} (3x3 complex), charged-lepton and
neutrino masses, Higgs masses, SM Higgs mass, v.  Lagrangian convention (THDM.cpp, arXiv:1607.06292 Eq.(17)):

    -L = sum_{S=h,H} S lbar_i ( Y^S_ij P_R + (Y^S^dagger)_ij P_L ) l_j
         - i A lbar_i ( Y^A_ij P_R - (Y^A^dagger)_ij P_L ) l_j  [sign of i irrelevant]
         + H^+ nubar_i Y^{H+}_ij P_R l_j + h.c.

Generic one-loop result for an external muon, internal fermion f, scalar of mass M (Leveille 1978), to
leading order in m_mu^2/M^2 in the propagator denominators (that is the form published in arXiv:1607.06292
Eqs.(27)-(30) in terms of F1C, F2C, F1N and generalised to a generation sum in the library comments):

  neutral scalar, charged lepton g inside, c_L = Y*_{g mu}, c_R = Y_{mu g}  (pseudoscalar: c_L -> -c_L)
     A(g) = (|c_L|^2 + |c_R|^2)/2 * I1(x_g) + Re(c_L c_R^*) m_g/m_mu * I2(x_g),   x_g = m_g^2/M^2
  charged scalar, neutrino g inside (photon couples to the scalar), c = Y^{H+}_{g mu}
     A(g) = - |c|^2/2 * J(x_nu_g)
  a_mu = m_mu^2/(8 pi^2) [ sum_S sum_g A_S(g)/M_S^2 ]  -  SM Higgs term (Y = m_mu/v, M = mhSM, g = mu only)

Loop integrals are *defined* here as Feynman-parameter integrals and evaluated by tanh-sinh quadrature

     I1(x) = int_0^1 z^2 (1-z) / (1 - z + x z) dz       [= F1C(x)/12]
     I2(x) = int_0^1 z^2       / (1 - z + x z) dz       [= F2C(x)/3 ]
     J (x) = int_0^1 z^2 (1-z) / (z + x (1-z)) dz       [= F1N(x)/12]

and cross-checked on every evaluation against elementary antiderivatives derived here (not the library's
series / windows).  The bracketed identities with oracle/ff_ref.py are verified in selftest().
"""
import mpmath
from mpmath import mp, mpf, mpc, log, pi

import ff_ref

DPS = 30
QUAD_DPS = 20
_cache = {}


def _closed_I2(x):
    a = 1 - x
    return -1 / (2 * a) - 1 / a ** 2 - log(x) / a ** 3


def _closed_I3(x):           # int z^3/(1 - a z)
    a = 1 - x
    return -1 / (3 * a) - 1 / (2 * a ** 2) - 1 / a ** 3 - log(x) / a ** 4


def _closed(kind, x):
    """elementary antiderivatives; cancel like (1-x)^4 near x = 1 -> evaluated with extra digits"""
    d = abs(1 - x)
    if d == 0:
        return {"I1": mpf(1) / 12, "I2": mpf(1) / 3, "J": mpf(1) / 12}[kind]
    extra = 10 + (int(-mpmath.log10(d)) * 5 if d < 1 else 0)
    with ff_ref.prec(mp.dps + extra):
        x = +x
        if kind == "I2":
            r = _closed_I2(x)
        elif kind == "I1":
            r = _closed_I2(x) - _closed_I3(x)
        else:
            # J(x) = int z^2(1-z)/(x + a z), a = 1-x; substitute z -> 1-z: int (1-z)^2 z/(1 - a z)
            if x == 0:
                r = mpf(1) / 6
            else:
                a = 1 - x
                i1 = -1 / a - log(x) / a ** 2          # int z/(1-az)
                r = i1 - 2 * _closed_I2(x) + _closed_I3(x)
        return +r


def _quad(kind, x):
    """tanh-sinh quadrature of the defining integral (20 digits are plenty for a 1e-12 cross-check)"""
    with ff_ref.prec(QUAD_DPS):
        x = +x
        if kind == "I1":
            f = lambda z: z * z * (1 - z) / (1 - z + x * z)
        elif kind == "I2":
            f = lambda z: z * z / (1 - z + x * z)
        elif x == 0:
            f = lambda z: z * (1 - z)
        else:
            f = lambda z: z * z * (1 - z) / (z + x * (1 - z))
        # the integrand varies on the scale s = min(x, 1/x) next to one endpoint: split there
        pts = [mpf(0), mpf(1)]
        if x != 0:
            s = min(x, 1 / x)
            if s < mpf("0.1"):
                inner = [s / 100, s, mpmath.sqrt(s)]
                # I1, I2: structure at z = 1 for x < 1, at z = 0 for x > 1;  J: the other way round
                at_one = (x < 1) if kind in ("I1", "I2") else (x > 1)
                pts = [mpf(0)] + [1 - t for t in inner[::-1]] + [mpf(1)] if at_one else [mpf(0)] + inner + [mpf(1)]
        return +mpmath.quad(f, pts)


def loopint(kind, x):
    """I1, I2 or J at mp argument x >= 0 (I2 diverges at x = 0): the quadrature of the defining integral and
    the elementary antiderivative must agree to 1e-12, the (more precise) latter is returned."""
    key = (kind, x, mp.dps)
    if key in _cache:
        return _cache[key]
    c = _closed(kind, x)
    q = _quad(kind, x)
    if not abs(c - q) <= mpf(10) ** -12 * abs(c):
        raise ArithmeticError("thdm_ref: quadrature %s and antiderivative %s of %s(%s) disagree"
                              % (mpmath.nstr(q, 25), mpmath.nstr(c, 25), kind, mpmath.nstr(x, 20)))
    _cache[key] = c
    return c


def needed(d):
    """(kind, fermion mass, scalar mass) triples (floats) whose loop integrals amu_1loop(d) may ask for"""
    out = []
    for M in (d["mh"], d["mH"], d["mA"]):
        for g in range(3):
            out += [("I1", d["ml"][g], M), ("I2", d["ml"][g], M)]
    for g in range(3):
        out.append(("J", d["mv"][g], d["mHp"]))
    out += [("I1", d["ml"][1], d["mhSM"]), ("I2", d["ml"][1], d["mhSM"])]
    return out


def precompute(triples, dps=DPS):
    """evaluate the integrals for a list of triples; returns [(cache key, value)] to be fed to preload()"""
    out = []
    with ff_ref.prec(dps):
        for kind, mf, M in triples:
            x = mpf(mf) ** 2 / mpf(M) ** 2          # same expression as in amu_1loop
            if kind == "I2" and x == 0:
                continue
            out.append(((kind, x, mp.dps), loopint(kind, x)))
    return out


def preload(items):
    _cache.update(items)


def amu_1loop(d, dps=DPS, exact_kinematics=False):
    """d: dict with floats mm (= ml[1]), ml[3], mv[3], mh, mH, mA, mHp, mhSM, v and complex 3x3 nested lists
    ylh, ylH, ylA, ylHp.  Returns dict(amu=mpf, sumabs=mpf, parts={...})."""
    with ff_ref.prec(dps):
        ml = [mpf(v) for v in d["ml"]]
        mv = [mpf(v) for v in d["mv"]]
        mm = ml[1]
        terms = []
        parts = {}

        def neutral(name, Y, M, sign):
            M2 = mpf(M) ** 2
            tot = mpf(0)
            for g in range(3):
                cL = mpc(*Y[g][1]).conjugate()      # Y*_{g mu}
                cR = mpc(*Y[1][g])                  # Y_{mu g}
                if cL == 0 and cR == 0:
                    continue
                x = ml[g] ** 2 / M2
                t1 = (abs(cL) ** 2 + abs(cR) ** 2) / 2 * loopint("I1", x) / M2
                t2 = mpf(0)
                lr = (cL * cR.conjugate()).real
                if lr != 0:
                    t2 = sign * lr * ml[g] / mm * loopint("I2", x) / M2
                terms.extend([t1, t2])
                tot += t1 + t2
            parts[name] = tot
            return tot

        res = neutral("h", d["ylh"], d["mh"], +1) + neutral("H", d["ylH"], d["mH"], +1) \
            + neutral("A", d["ylA"], d["mA"], -1)
        M2 = mpf(d["mHp"]) ** 2
        hp = mpf(0)
        for g in range(3):
            c = mpc(*d["ylHp"][g][1])
            if c == 0:
                continue
            t = -abs(c) ** 2 / 2 * loopint("J", mv[g] ** 2 / M2) / M2
            terms.append(t)
            hp += t
        parts["Hp"] = hp
        res += hp
        # SM Higgs with Yukawa m_mu/v
        M2 = mpf(d["mhSM"]) ** 2
        ysm = mm / mpf(d["v"])
        x = mm ** 2 / M2
        sm = (ysm ** 2 * loopint("I1", x) + ysm ** 2 * loopint("I2", x)) / M2
        terms.append(sm)
        parts["SM"] = -sm
        res -= sm
        pref = mm ** 2 / (8 * pi ** 2)
        return dict(amu=pref * res, sumabs=pref * sum(abs(t) for t in terms),
                    parts={k: pref * v for k, v in parts.items()})


def selftest():
    bad = []
    with ff_ref.prec(DPS):
        for xs in ("1e-14", "1.6e-12", "3e-7", "0.02", "0.5", "0.999", "1", "1.0001", "7", "4e4"):
            x = mpf(xs)
            for kind, fn, k in (("I1", ff_ref.F1C, 12), ("I2", ff_ref.F2C, 3), ("J", ff_ref.F1N, 12)):
                try:
                    v = loopint(kind, x)
                except ArithmeticError as e:
                    bad.append(str(e))
                    continue
                with ff_ref.prec(DPS + 40):
                    ref = fn(+x) / k
                if abs(v - ref) > mpf(10) ** -18 * abs(ref):
                    bad.append((kind, xs, mpmath.nstr(v, 22), mpmath.nstr(ref, 22)))
        if abs(loopint("J", mpf(0)) - mpf(1) / 6) > mpf(10) ** -25:
            bad.append("J(0)")
    return bad


if __name__ == "__main__":
    print(selftest() or "thdm_ref selftest ok")
