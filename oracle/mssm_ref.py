"""Independent reference for the MSSM one-loop a_mu (C03) and small helpers for C05.

Input: the Lagrangian parameters a model reports through its public getters
  g1 (GUT normalised), g2, vd, vu, mu, M1, M2, ml2(2,2), me2(2,2), y_mu, T_mu (= y_mu A_mu), m_mu(pole)
Everything else is rebuilt here with mpmath:

  * neutralino mass matrix in the basis (bino, wino, Hd0, Hu0), chargino matrix X in the basis
    (W-, Hd-) x (W+, Hu+), smuon matrix in the basis (L, R), muon-sneutrino mass -- textbook
    expressions (e.g. Martin's primer / hep-ph/0609168 appendix);
  * diagonalisation in the *real orthogonal, signed mass* convention (mpmath eigsy / svd_r): the
    neutralino masses keep their sign and all mixing matrices are real.  The library works in the
    Haber-Kane convention (positive masses, complex rows), so sign/conjugation conventions are not shared;
  * couplings n^L, n^R, c^L, c^R of hep-ph/0609168 Eqs.(48)-(51) (= arXiv:1311.1775 Eq.(2.5) up to the
    convention dependent overall sign of n^R, which drops out with the matching sign of the F2N term);
  * Eqs.(2.11a,b) of arXiv:1311.1775 / Eqs.(46),(47) of hep-ph/0609168 with the loop functions of
    oracle/ff_ref.py evaluated at a working precision raised near x = 1.

Definition used by the library (read from src/MSSMNoFV/gm2_1loop.cpp, MSSMNoFV_onshell.cpp), which is part
of what "the published formula" is evaluated with: masses and mixings are the tree-level ones of the on-shell
parameter set *including* the tan(beta)-resummed muon Yukawa y_mu (also inside the smuon mass matrix, where
m_mu^2 -> y_mu^2 vd^2/2 and m_mu (A_mu - mu tan beta) -> (vd T_mu - vu y_mu mu)/sqrt2); the explicit
prefactors m_mu are the pole mass.
"""
import mpmath
from mpmath import mp, mpf, matrix, sqrt, pi

import ff_ref

DPS = 40


def _F(fn, x):
    """loop function at mp argument x with precision raised near the removable singularity x = 1"""
    d = abs(x - 1)
    if d == 0:
        return mpf(1)
    extra = 0
    if d < 1:
        extra = int(-mpmath.log10(d)) * 5 + 5
    if extra:
        with ff_ref.prec(mp.dps + extra):
            return +fn(+x)
    return fn(x)


_last = {}


def _memo(key, fn):
    """one-entry memo per sector: the resummed and the non-resummed parameter set of a point share the gaugino
    sector (identical inputs give the identical decomposition), so it is diagonalised once"""
    hit = _last.get(key[0])
    if hit is not None and hit[0] == key:
        return hit[1]
    val = fn()
    _last[key[0]] = (key, val)
    return val


def neutralino_matrix(gp, g2, vd, vu, mu, M1, M2):
    return matrix([[M1, 0, -gp * vd / 2, gp * vu / 2],
                   [0, M2, g2 * vd / 2, -g2 * vu / 2],
                   [-gp * vd / 2, g2 * vd / 2, 0, -mu],
                   [gp * vu / 2, -g2 * vu / 2, -mu, 0]])


def chargino_matrix(g2, vd, vu, mu, M2):
    return matrix([[M2, g2 * vu / sqrt(2)], [g2 * vd / sqrt(2), mu]])


def smuon_matrix(gp, g2, vd, vu, mu, ml2, me2, y, Ty):
    D = vd ** 2 - vu ** 2
    mm2 = y ** 2 * vd ** 2 / 2
    LL = ml2 + mm2 + (gp ** 2 - g2 ** 2) / 8 * D          # (-1/2 + sw^2) MZ^2 cos2b
    RR = me2 + mm2 - gp ** 2 / 4 * D                      # -sw^2 MZ^2 cos2b
    LR = (vd * Ty - vu * y * mu) / sqrt(2)                # m_mu (A - mu tan beta)
    return matrix([[LL, LR], [LR, RR]])


def sneutrino_mass2(gp, g2, vd, vu, ml2):
    return ml2 + (gp ** 2 + g2 ** 2) / 8 * (vd ** 2 - vu ** 2)   # + 1/2 MZ^2 cos2b


def amu_1loop(par, dps=DPS, detail=False):
    """par: dict of floats.  Returns dict(chi0=, chipm=, sumabs0=, sumabsc=, ...) (mpf) or raises
    ValueError('tachyon') if a scalar mass^2 is not positive."""
    with ff_ref.prec(dps):
        g1, g2, vd, vu, mu, M1, M2, ml2, me2, y, Ty, mm = [mpf(par[k]) for k in
            ("g1", "g2", "vd", "vu", "mu", "M1", "M2", "ml2", "me2", "y", "Ty", "mm")]
        gp = sqrt(mpf(3) / 5) * g1
        # --- neutralinos: Mn = Q diag(E) Q^T, row i of N is column i of Q; signed masses E_i
        E, Q = _memo(("chi0", dps) + tuple(par[k] for k in ("g1", "g2", "vd", "vu", "mu", "M1", "M2")),
                     lambda: mpmath.eigsy(neutralino_matrix(gp, g2, vd, vu, mu, M1, M2)))
        # --- smuons
        Es, Qs = mpmath.eigsy(smuon_matrix(gp, g2, vd, vu, mu, ml2, me2, y, Ty))
        msn2 = sneutrino_mass2(gp, g2, vd, vu, ml2)
        if msn2 <= 0 or Es[0] <= 0 or Es[1] <= 0:
            raise ValueError("tachyon")
        terms0 = []
        a0 = mpf(0)
        for i in range(4):
            N1, N2, N3 = Q[0, i], Q[1, i], Q[2, i]
            mi = E[i]
            for m in range(2):
                UL, UR = Qs[0, m], Qs[1, m]
                ms2 = Es[m]
                nL = (gp * N1 + g2 * N2) / sqrt(2) * UL - y * N3 * UR
                nR = sqrt(2) * gp * N1 * UR + y * N3 * UL
                x = mi ** 2 / ms2
                t1 = -mm / (12 * ms2) * (nL ** 2 + nR ** 2) * _F(ff_ref.F1N, x)
                t2 = mi / (3 * ms2) * nL * nR * _F(ff_ref.F2N, x)
                terms0 += [t1, t2]
                a0 += t1 + t2
        pref = mm / (16 * pi ** 2)
        a0 *= pref
        # --- charginos: X = Uc diag(S) Vc  (psi^-T X psi^+)
        Uc, S, Vc = _memo(("cha", dps) + tuple(par[k] for k in ("g2", "vd", "vu", "mu", "M2")),
                          lambda: mpmath.svd_r(chargino_matrix(g2, vd, vu, mu, M2)))
        ac = mpf(0)
        termsc = []
        for k in range(2):
            cL = -g2 * Vc[k, 0]
            cR = y * Uc[1, k]
            x = S[k] ** 2 / msn2
            t1 = mm / (12 * msn2) * (cL ** 2 + cR ** 2) * _F(ff_ref.F1C, x)
            t2 = 2 * S[k] / (3 * msn2) * cL * cR * _F(ff_ref.F2C, x)
            termsc += [t1, t2]
            ac += t1 + t2
        ac *= pref
        res = dict(chi0=+a0, chipm=+ac,
                   sumabs0=pref * sum(abs(t) for t in terms0),
                   sumabsc=pref * sum(abs(t) for t in termsc))
        if detail:
            # composition of the mass-ordered (by |m|) neutralinos, used as "regime" key
            order = sorted(range(4), key=lambda i: abs(E[i]))
            comp = []
            for i in order:
                col = [abs(Q[k, i]) for k in range(4)]
                dom = max(range(4), key=lambda k: col[k])
                comp.append("BWHH"[dom] + ("-" if E[i] < 0 else "+"))
            res["chi0_pattern"] = "".join(comp)
            r = 0 if abs(Qs[1, 0]) > abs(Qs[0, 0]) else 1
            res["smuR_index"] = r          # eigsy sorts ascending
            res["smu_mix"] = float(min(abs(Qs[0, 0]), abs(Qs[1, 0])))
            res["masses"] = dict(chi0=[float(E[i]) for i in order], cha=sorted(float(s) for s in S),
                                 smu=[float(sqrt(Es[0])), float(sqrt(Es[1]))], snu=float(sqrt(msn2)))
        return res


def selftest():
    """validates the reference itself: invariance under the remaining convention freedom and the
    known decoupling limit"""
    bad = []
    par = dict(g1=0.4575, g2=0.6612, vd=24.19, vu=241.9, mu=350.0, M1=150.0, M2=300.0,
               ml2=250000.0, me2=250000.0, y=0.00626, Ty=0.0, mm=0.1056583715)
    r = amu_1loop(par)
    # (mu, M1, M2) -> -(mu, M1, M2) with T -> -T leaves a_mu invariant (field redefinition)
    p2 = dict(par, mu=-350.0, M1=-150.0, M2=-300.0)
    r2 = amu_1loop(p2)
    if abs(r["chi0"] - r2["chi0"]) > mpf(10) ** -25 or abs(r["chipm"] - r2["chipm"]) > mpf(10) ** -25:
        bad.append("joint sign flip")
    # rough size: ~ 13e-10 * tanb/... for this point (README example ~ 1.7e-9 at one loop incl. resummation)
    tot = r["chi0"] + r["chipm"]
    if not (mpf("5e-10") < tot < mpf("3e-9")):
        bad.append("magnitude %s" % mpmath.nstr(tot, 6))
    return bad


if __name__ == "__main__":
    print(selftest() or "mssm_ref selftest ok")
