"""Reader model for GM2Calc input files (C13).  Written from README.md and the
property statement, not from gm2_slha_io.cpp / slhaea.h.

A file *is* the ordered list of block instances; a block instance is
(NAME upper-cased, optional scale Q, ordered list of data lines); a data line
in a block that the chosen input format reads is an assignment
(key tuple) -> value token.

  parse(text)            -> File   (lines with token spans, block instances)
  structure(text)        -> layout-free ordered form (order, duplicates and foreign
                            blocks kept; comments, case, whitespace, spelling dropped)
  content(text, fmt)     -> {(BLOCK, key tuple): float}: what the file *means* for
                            input format fmt: "later overrides", scale rule (only blocks
                            whose Q equals the Q of the LAST HMIX block), restricted to
                            the keys the format knows (KNOWN); plus ('HMIX','Q').
  canon(content)         -> canonical file text of a content map
  DOC / DOC_EX           -> own transcription of the README tables / of the comments in the
                            shipped example files: (fmt, BLOCK, key) -> (parameter(s), transform)
  spellings(token)       -> other spellings of the same decimal number

Deliberately NOT modelled (the statement does not promise them): `Q=1000` without
blank, lower-case `q=`, hex floats, CR line ends.  parse() raises ModelError on them.
"""
import math
import re
from decimal import Decimal

WS = " \t\v\f\r"
_TOK = re.compile(r"[^ \t\v\f\r]+")
NUM_RE = re.compile(r"^[+-]?(\d+\.?\d*|\.\d+)([eE][+-]?\d+)?$")
INT_RE = re.compile(r"^[+-]?\d+$")


class ModelError(Exception):
    pass


def is_number(tok):
    """in its entirety a finite decimal number"""
    if not NUM_RE.match(tok):
        return False
    try:
        return math.isfinite(float(tok))
    except (ValueError, OverflowError):
        return False


def is_int(tok):
    return bool(INT_RE.match(tok)) and abs(int(tok)) < 2 ** 31


class Line:
    __slots__ = ("raw", "spans", "toks", "comment_at", "kind")

    def __init__(self, raw):
        self.raw = raw
        h = raw.find("#")
        self.comment_at = h
        data = raw if h < 0 else raw[:h]
        self.spans = [(m.start(), m.end()) for m in _TOK.finditer(data)]
        self.toks = [data[a:b] for a, b in self.spans]
        if not self.toks:
            self.kind = "blank" if h < 0 else "comment"
        elif self.toks[0].upper() in ("BLOCK", "DECAY"):
            self.kind = "block" if len(self.toks) >= 2 else "junk"
        else:
            self.kind = "data"


class BlockInst:
    __slots__ = ("name", "q", "hdr", "end", "data")

    def __init__(self, name, q, hdr):
        self.name, self.q, self.hdr, self.end, self.data = name, q, hdr, hdr + 1, []


class File:
    __slots__ = ("lines", "blocks", "pre_end")


def parse(text, strict=True):
    f = File()
    f.lines = [Line(r) for r in text.split("\n")]
    f.blocks = []
    cur = None
    for i, ln in enumerate(f.lines):
        if ln.kind == "block":
            q = None
            t = ln.toks
            if len(t) >= 3 and ln.toks[0].upper() == "BLOCK":
                if t[2] == "Q=":
                    if len(t) >= 4 and is_number(t[3]):
                        q = float(t[3])
                    elif strict:
                        raise ModelError("scale of block %s is not a number" % t[1])
                elif t[2].upper().startswith("Q=") and strict:
                    raise ModelError("unsupported scale syntax %r" % t[2])
            if cur:
                cur.end = i
            cur = BlockInst(t[1].upper(), q, i)
            f.blocks.append(cur)
        elif ln.kind == "data" and cur is not None:
            cur.data.append(i)
    if cur:
        cur.end = len(f.lines)
    f.pre_end = f.blocks[0].hdr if f.blocks else len(f.lines)
    return f


# ---------------------------------------------------------------------------
# which blocks a format reads: NAME -> (shape, scale dependent)
_MAT3 = ["GM2CALCTHDMDELTAUINPUT", "GM2CALCTHDMDELTADINPUT", "GM2CALCTHDMDELTALINPUT",
         "GM2CALCTHDMPIUINPUT", "GM2CALCTHDMPIDINPUT", "GM2CALCTHDMPILINPUT"]
READ = {
    "slha": {"GM2CALCCONFIG": ("vec", False), "SMINPUTS": ("vec", False), "MASS": ("vec", False),
             "GM2CALCINPUT": ("vec", False), "HMIX": ("vec", True), "MSOFT": ("vec", True),
             "AU": ("mat", True), "AD": ("mat", True), "AE": ("mat", True),
             # not in the README, SLHA standard mixing matrices the reader also accepts
             "NMIX": ("mat", False), "SMUMIX": ("mat", False)},
    "gm2calc": {"GM2CALCCONFIG": ("vec", False), "SMINPUTS": ("vec", False), "GM2CALCINPUT": ("vec", False)},
    "thdm": dict([("GM2CALCCONFIG", ("vec", False)), ("SMINPUTS", ("vec", False)), ("MASS", ("vec", False)),
                  ("GM2CALCINPUT", ("vec", False)), ("VCKMIN", ("vec", False)), ("MINPAR", ("vec", False))]
                 + [(n, ("mat", False)) for n in _MAT3]),
}
MATDIM = {"AU": 3, "AD": 3, "AE": 3, "NMIX": 4, "SMUMIX": 2}
MATDIM.update({n: 3 for n in _MAT3})

# ---------------------------------------------------------------------------
# README tables: (fmt, BLOCK, key) -> (list of parameter names in the cli_mirror dump, transform)
# transforms: id | sq (signed square: "soft mass given unsquared") | abs (mass of a Majorana
# fermion is stored non-negative) | e (gauge coupling sqrt(4 pi alpha)) | inv | int | ckm
DOC, DOC_EX = {}, {}


def _d(tab, fmt, blk, key, names, tr="id"):
    tab[(fmt, blk, key if isinstance(key, tuple) else (key,))] = (
        [names] if isinstance(names, str) else list(names), tr)


_SOFT3 = lambda n: [n + "00", n + "11", n + "22"]
for _fmt in ("slha", "gm2calc"):
    # README "Block SMINPUTS"
    _d(DOC, _fmt, "SMINPUTS", 3, "g3", "e")
    _d(DOC, _fmt, "SMINPUTS", 4, "MVZ")
    _d(DOC, _fmt, "SMINPUTS", 5, "MFb")
    _d(DOC, _fmt, "SMINPUTS", 6, "MFt")
    _d(DOC, _fmt, "SMINPUTS", 7, "MFtau")
    _d(DOC, _fmt, "SMINPUTS", 9, "MVWm")
    _d(DOC, _fmt, "SMINPUTS", 13, "MFm")
    # comments of input/example.{slha,gm2}; SLHA-1 standard meaning
    for _k, _n in ((8, "MFvt"), (11, "MFe"), (12, "MFve"), (14, "MFvm"), (21, "MFd"), (22, "MFu"),
                   (23, "MFs"), (24, "MFc")):
        _d(DOC_EX, _fmt, "SMINPUTS", _k, _n)
# README "Block MASS" (SLHA input)
_d(DOC, "slha", "MASS", 24, "MVWm")
_d(DOC, "slha", "MASS", 36, "MAh1")
for _k, _n in ((1000022, "MChi0"), (1000023, "MChi1"), (1000025, "MChi2"), (1000035, "MChi3")):
    _d(DOC, "slha", "MASS", _k, _n, "abs")
_d(DOC, "slha", "MASS", 1000024, "MCha0")
_d(DOC, "slha", "MASS", 1000037, "MCha1")
_d(DOC, "slha", "MASS", 1000013, "MSm0")
_d(DOC, "slha", "MASS", 2000013, "MSm1")
_d(DOC, "slha", "MASS", 1000014, "MSvmL")
for _k, _n in ((25, "Mhh0"), (35, "Mhh1"), (37, "MHpm1"), (1000021, "MGlu"),
               (1000001, "MSd0"), (2000001, "MSd1"), (1000002, "MSu0"), (2000002, "MSu1"),
               (1000003, "MSs0"), (2000003, "MSs1"), (1000004, "MSc0"), (2000004, "MSc1"),
               (1000005, "MSb0"), (2000005, "MSb1"), (1000006, "MSt0"), (2000006, "MSt1"),
               (1000011, "MSe0"), (2000011, "MSe1"), (1000012, "MSveL"),
               (1000015, "MStau0"), (2000015, "MStau1"), (1000016, "MSvtL")):
    _d(DOC_EX, "slha", "MASS", _k, _n)
# README "Block HMIX", "AU/AD/AE", "MSOFT", "GM2CalcInput" (SLHA input)
_d(DOC, "slha", "HMIX", 1, "Mu")
_d(DOC, "slha", "HMIX", 2, "TB")
_d(DOC, "slha", "AU", (3, 3), "Au22")
_d(DOC, "slha", "AD", (3, 3), "Ad22")
_d(DOC, "slha", "AE", (2, 2), "Ae11")
_d(DOC, "slha", "AE", (3, 3), "Ae22")
_d(DOC, "slha", "MSOFT", 1, "MassB")
_d(DOC, "slha", "MSOFT", 2, "MassWB")
_d(DOC, "slha", "MSOFT", 3, "MassG")
for _k0, _n in ((31, "ml2_"), (34, "me2_"), (41, "mq2_"), (44, "mu2_"), (47, "md2_")):
    for _i, _nn in enumerate(_SOFT3(_n)):
        _d(DOC, "slha", "MSOFT", _k0 + _i, _nn, "sq")
_d(DOC, "slha", "GM2CALCINPUT", 1, "EL", "e")
_d(DOC, "slha", "GM2CALCINPUT", 2, "EL0", "e")
# README "Block GM2CalcInput" (GM2Calc input)
for _k, _n, _t in ((0, "scale", "id"), (1, "EL", "e"), (2, "EL0", "e"), (3, "TB", "id"), (4, "Mu", "id"),
                   (5, "MassB", "id"), (6, "MassWB", "id"), (7, "MassG", "id"), (8, "MAh1", "id")):
    _d(DOC, "gm2calc", "GM2CALCINPUT", _k, _n, _t)
for _k0, _n in ((9, "ml2_"), (12, "me2_"), (15, "mq2_"), (18, "mu2_"), (21, "md2_")):
    for _i, _nn in enumerate(_SOFT3(_n)):
        _d(DOC, "gm2calc", "GM2CALCINPUT", _k0 + _i, _nn, "sq")
for _k0, _n in ((24, "Ae"), (27, "Ad"), (30, "Au")):
    for _i, _nn in enumerate(_SOFT3(_n)):
        _d(DOC, "gm2calc", "GM2CALCINPUT", _k0 + _i, _nn)
# README THDM: MINPAR (gauge + mass basis; one file fills both basis objects), MASS, matrices
_d(DOC, "thdm", "MINPAR", 3, ["gb.tan_beta", "mb.tan_beta"])
for _i in range(5):
    _d(DOC, "thdm", "MINPAR", 11 + _i, "gb.lambda%d" % _i)
_d(DOC, "thdm", "MINPAR", 16, ["gb.lambda5", "mb.lambda_6"])
_d(DOC, "thdm", "MINPAR", 17, ["gb.lambda6", "mb.lambda_7"])
_d(DOC, "thdm", "MINPAR", 18, ["gb.m122", "mb.m122"])
_d(DOC, "thdm", "MINPAR", 20, "mb.sin_beta_minus_alpha")
for _k, _n in ((21, "zeta_u"), (22, "zeta_d"), (23, "zeta_l")):
    _d(DOC, "thdm", "MINPAR", _k, ["gb." + _n, "mb." + _n])
_d(DOC, "thdm", "MINPAR", 24, ["gb.yukawa_type", "mb.yukawa_type"], "int")
for _k, _n in ((25, "mb.mh"), (35, "mb.mH"), (36, "mb.mA"), (37, "mb.mHp")):
    _d(DOC, "thdm", "MASS", _k, _n)
for _blk, _n in zip(_MAT3, ("Delta_u", "Delta_d", "Delta_l", "Pi_u", "Pi_d", "Pi_l")):
    for _i in range(3):
        for _j in range(3):
            _d(DOC, "thdm", _blk, (_i + 1, _j + 1), ["gb.%s%d%d" % (_n, _i, _j), "mb.%s%d%d" % (_n, _i, _j)])
# comments of input/example.thdm
_d(DOC_EX, "thdm", "SMINPUTS", 1, "sm.alpha_em_mz", "inv")
_d(DOC_EX, "thdm", "SMINPUTS", 3, "sm.alpha_s_mz")
_d(DOC_EX, "thdm", "SMINPUTS", 4, "sm.mz")
_d(DOC_EX, "thdm", "SMINPUTS", 9, "sm.mw")
for _k, _n in ((5, "sm.md2"), (6, "sm.mu2"), (7, "sm.ml2"), (8, "sm.mv2"), (11, "sm.ml0"), (12, "sm.mv0"),
               (13, "sm.ml1"), (14, "sm.mv1"), (21, "sm.md0"), (22, "sm.mu0"), (23, "sm.md1"), (24, "sm.mu1")):
    _d(DOC_EX, "thdm", "SMINPUTS", _k, _n)
_d(DOC_EX, "thdm", "GM2CALCINPUT", 33, "sm.mh")
for _k in (1, 2, 3, 4):
    _d(DOC_EX, "thdm", "VCKMIN", _k, ["sm.ckm*"], "ckm")
# README "Block GM2CalcConfig": entry -> (option, allowed values)
CONFIG = {0: ("cfg.output_format", (0, 1, 2, 3, 4)), 1: ("cfg.loop_order", (0, 1, 2)),
          2: ("cfg.tanb_resummation", (0, 1)), 3: ("cfg.force_output", (0, 1)),
          4: ("cfg.verbose_output", (0, 1)), 5: ("cfg.calculate_uncertainty", (0, 1)),
          6: ("cfg.running_couplings", (0, 1))}
CONFIG_DEFAULT_FORMAT = {"slha": 4, "gm2calc": 1, "thdm": 4}
# README table "Defaul value": entry -> default (entry 0 depends on the input format)
CONFIG_DEFAULT = {1: 2, 2: 1, 3: 0, 4: 0, 5: 0, 6: 1}


def config_default(fmt, key):
    return CONFIG_DEFAULT_FORMAT[fmt] if key == 0 else CONFIG_DEFAULT[key]
for _fmt in READ:
    for _k, (_n, _al) in CONFIG.items():
        _d(DOC, _fmt, "GM2CALCCONFIG", _k, _n, "int")

# keys that are meaningful (SLHA standard / used) but not documented with a parameter
_EXTRA = {("slha", "SMINPUTS"): (1, 2), ("gm2calc", "SMINPUTS"): (1, 2), ("thdm", "SMINPUTS"): (2,),
          ("slha", "HMIX"): (3, 4), ("slha", "MSOFT"): (21, 22), ("gm2calc", "GM2CALCINPUT"): (33,),
          ("slha", "GM2CALCINPUT"): (0, 3), ("thdm", "MASS"): (24,)}


def known_key(fmt, blk, key):
    if blk not in READ[fmt]:
        return False
    if (fmt, blk, key) in DOC or (fmt, blk, key) in DOC_EX:
        return True
    if READ[fmt][blk][0] == "mat":
        n = MATDIM[blk]
        return all(1 <= k <= n for k in key)
    return len(key) == 1 and key[0] in _EXTRA.get((fmt, blk), ())


def entry(ln, shape):
    """(key tuple, value token, index of the value token) of a data line, or None if the
    line does not carry an assignment of that shape"""
    nk = 1 if shape == "vec" else 2
    if len(ln.toks) < nk + 1:
        return None
    ks = ln.toks[:nk]
    if not all(is_int(k) for k in ks):
        raise ModelError("key is not an integer: %r" % (ks,))
    if not is_number(ln.toks[nk]):
        raise ModelError("value is not a number: %r" % ln.toks[nk])
    return tuple(int(k) for k in ks), ln.toks[nk], nk


def last_hmix_scale(f):
    q = None
    for b in f.blocks:
        if b.name == "HMIX":
            q = b.q
    return q


def block_is_read(f, fmt, b, qlast=None):
    info = READ[fmt].get(b.name)
    if info is None:
        return False
    if info[1]:
        if qlast is None:
            qlast = last_hmix_scale(f)
        return b.q is not None and qlast is not None and b.q == qlast
    return True


def assignments(text, fmt, f=None):
    """ordered list of (block index, line index, BLOCK, key, value token, token index) of all
    assignments the format reads (scale rule applied)"""
    f = f or parse(text)
    ql = last_hmix_scale(f)
    out = []
    for bi, b in enumerate(f.blocks):
        if not block_is_read(f, fmt, b, ql):
            continue
        shape = READ[fmt][b.name][0]
        for li in b.data:
            e = entry(f.lines[li], shape)
            if e:
                out.append((bi, li, b.name, e[0], e[1], e[2]))
    return out


def content(text, fmt, f=None):
    f = f or parse(text)
    c = {}
    for bi, li, blk, key, val, _ in assignments(text, fmt, f):
        if known_key(fmt, blk, key):
            c[(blk, key)] = float(val)          # later overrides
    if fmt == "slha":
        c[("HMIX", "Q")] = last_hmix_scale(f)
    return c


def structure(text):
    """layout-free ordered form: [(NAME, Q, [(tokens as numbers where possible)])]"""
    f = parse(text)
    out = []
    for b in f.blocks:
        rows = []
        for li in b.data:
            rows.append(tuple(float(t) if is_number(t) else t for t in f.lines[li].toks))
        out.append((b.name, b.q, tuple(rows)))
    return tuple(out)


def canon(c):
    """canonical file of a content map"""
    blocks = {}
    for (blk, key), v in c.items():
        if key == "Q":
            continue
        blocks.setdefault(blk, []).append((key, v))
    q = c.get(("HMIX", "Q"))
    out = []
    for blk in sorted(blocks):
        scaled = any(blk in READ[fm] and READ[fm][blk][1] for fm in READ)
        out.append("Block %s%s" % (blk, " Q= %r" % q if scaled and q is not None else ""))
        for key, v in sorted(blocks[blk]):
            out.append(" %s  %r" % (" ".join("%d" % k for k in key), v))
    return "\n".join(out) + "\n"


# ---------------------------------------------------------------------------
def spellings(tok):
    """other spellings of exactly the same decimal number (same Decimal value, hence the
    same correctly rounded double): 3 -> 3.0, +3, 3.000e+00, 0.3E1, ..."""
    if not is_number(tok):
        return []
    d = Decimal(tok)
    sign, digits, exp = d.as_tuple()
    body = tok.lstrip("+-")
    sg = "-" if tok.startswith("-") else ""
    out = []
    if not tok.startswith(("+", "-")):
        out.append("+" + tok)
    # mantissa/exponent split of the written token
    m = re.match(r"^(\d*)\.?(\d*)(?:[eE]([+-]?\d+))?$", body)
    ip, fp, ex = m.group(1), m.group(2), int(m.group(3) or 0)
    alld = (ip + fp).lstrip("0") or "0"
    e10 = ex - len(fp)                     # value = alld * 10^e10
    # plain scientific with the decimal point after the first digit, upper / lower case e
    mant = alld[0] + "." + (alld[1:] or "0")
    out.append("%s%se%+03d" % (sg, mant + "00", e10 + len(alld) - 1))
    # 0.ddd E n
    out.append("%s0.%sE%d" % (sg, alld, e10 + len(alld)))
    # fixed notation if short
    if -12 <= e10 <= 12 and len(alld) <= 20:
        if e10 >= 0:
            out.append("%s%s%s.0" % (sg, alld, "0" * e10))
        else:
            s = alld.rjust(-e10 + 1, "0")
            out.append("%s%s.%s0" % (sg, s[:e10], s[e10:]))
    # leading zeros / exponent letter case
    out.append("%s00%s" % (sg, body if body[0] != "." else "0" + body))
    if "e" in body:
        out.append(sg + body.replace("e", "E"))
    elif "E" in body:
        out.append(sg + body.replace("E", "e"))
    else:
        out.append(sg + body + ("E+00" if ("." in body) else ".E0"))
    res = []
    for s in out:
        if s != tok and s not in res and is_number(s) and Decimal(s) == d and float(s) == float(tok):
            res.append(s)
    return res


def transform(tr, v):
    if tr == "id" or tr == "int":
        return v
    if tr == "sq":
        return v * abs(v)
    if tr == "abs":
        return abs(v)
    if tr == "e":
        return math.sqrt(4.0 * math.pi * v)
    if tr == "inv":
        return 1.0 / v
    raise ModelError("no transform " + tr)
