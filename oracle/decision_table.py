"""C16 reference model: which inputs GM2Calc documents as untreatable, and what
the program / library must do with them.

Written from README.md (input tables, "force output even if physical problem
has occured", error classes named in the C/C++ interface section and
gm2_error.hpp / gm2_error.h) and from the statement of property C16 -- NOT
from the behaviour of the implementation.  checks/c16.py replays every
prediction made here against gm2calc.x and both library interfaces.

A *defect* is a named modification of a valid parameter point.  `kind` says
which documented rule it falls under:

  input       an input value the documentation declares untreatable
              -> C++: gm2calc::EInvalidInput, C: gm2calc_InvalidInput
  tachyon     a tachyonic state in the spectrum ("physical problem")
              -> C++: gm2calc::EPhysicalProblem, C: gm2calc_PhysicalProblem
  structural  the input does not define a model at all (undecidable basis,
              Yukawa type outside 1..6); no specific error class is
              documented, any gm2calc::Error / non-zero error code is accepted.
              Refusal is expected WITH OR WITHOUT force-output: the statement's
              'unless force-output is set ... the calculation proceeds' clause
              cannot apply where no calculation is defined (there is no basis /
              no Yukawa scheme to proceed with), so refusing is the only
              meaningful behaviour; exit 1 + diagnostic + no number stay required.
              The only C entry that cannot refuse is int_to_c_yukawa_type(): it
              returns an enum and has no error channel but stderr, so there the
              'Error:' message on stderr is the required flag (never silent).

Rule (statement of C16):
  without force-output: the library throws the documented class, the program
      exits with status 1 and prints no physics number;
  with force-output:    a warning is emitted (stderr, SPINFO[3], or a problem
      flag of the model) and the calculation proceeds: a result is reported;
  exit status:          non-zero iff the calculation was refused or (MSSM) a
      problem (tachyon) was flagged; zero when a result was produced with at
      most warnings;
  silence:              a result reported without error, problem or warning is
      a finite number.
"""
import math

CLASS = {"input": "EInvalidInput", "tachyon": "EPhysicalProblem", "structural": "*"}
CCODE = {"input": 1, "tachyon": 2, "structural": "*"}      # gm2_error.h: NoError 0, InvalidInput 1, PhysicalProblem 2
REMOVE = None      # parameter is absent from the input


class Defect:
    def __init__(self, did, kind, setp, styles, doc, special=None, also=()):
        self.id, self.kind, self.set, self.styles, self.doc, self.special = did, kind, setp, styles, doc, special
        self.also = tuple(also)      # further documented rules the same modification inevitably falls under
        self.thorough_only = False
        self.sector = None           # name(s) of the state(s) that must be reported as tachyonic ("<sector> tachyon")
        self.pattern = None          # THDM: sign pattern of the tree-level squared masses
        self.pairs_in_quick = True   # False: enumerated alone in the quick tier, in all pairs in the thorough tier
        self.assumes = ()            # parameters whose valid base value the realisation relies on
        # spectra in which the defect is present: "res" = spectrum with tan(beta)-resummed Yukawa couplings
        # (always built by the setup), "nonres" = spectrum rebuilt with tree-level Yukawa couplings by the
        # *_non_tan_beta_resummed functions / GM2CalcConfig[2] = 0
        self.paths = ("res", "nonres")

    def kinds(self):
        return (self.kind,) + self.also

    def __repr__(self):
        return self.id


MSSM_STYLES = ("slha", "gm2")
SOFT = ("msl", "mse", "msq", "msu", "msd")


def mssm_defects():
    D = []
    both = MSSM_STYLES
    D.append(Defect("MW>MZ", "input", {"MW": 95.0}, both, "MW >= MZ"))
    D.append(Defect("MW=MZ", "input", {"MW": "=MZ"}, both, "MW >= MZ (equality)"))
    D.append(Defect("MW=0", "input", {"MW": 0.0}, both, "vanishing MW"))
    D.append(Defect("MZ=0", "input", {"MZ": 0.0}, both, "vanishing MZ"))
    D.append(Defect("mmu=0", "input", {"MM": 0.0}, both, "vanishing muon mass"))
    D.append(Defect("mu=0", "input", {"Mu": 0.0}, both, "vanishing mu"))
    D.append(Defect("M1=0", "input", {"M1": 0.0}, both, "vanishing M1"))
    D.append(Defect("M2=0", "input", {"M2": 0.0}, both, "vanishing M2"))
    D.append(Defect("tb=0", "input", {"TB": 0.0}, both, "vanishing tan(beta)"))
    D.append(Defect("tb=inf", "input", {"TB": 1e300}, both, "infinite tan(beta) (1e300: cos(beta) underflows to 0)"))
    for s in SOFT:
        for g in (1, 2, 3):
            # README, MSOFT table: mmuL(Q) [32] is "irrelevant" and mmuR(Q) [35] an "initial guess" for SLHA
            # input (both are re-determined from the pole masses), so their sign is no defect there.
            # A soft mass squared of -(several 100 GeV)^2 also makes a state of that sector tachyonic,
            # which is the other documented rule (EPhysicalProblem); either class is correct.
            styles = ("gm2",) if (s in ("msl", "mse") and g == 2) else both
            D.append(Defect("%s%d^2<0" % (s, g), "input", {"%s_%d" % (s, g): "negate"}, styles,
                            "negative soft squared mass %s(%d,%d)" % (s, g, g), also=("tachyon",)))
            # the same with -(1 GeV)^2: negative, but too small to make a squark or stau tachyonic
            d = Defect("%s%d^2=-1" % (s, g), "input", {"%s_%d" % (s, g): -1.0}, styles,
                       "negative soft squared mass %s(%d,%d) = -1 GeV^2" % (s, g, g), also=("tachyon",))
            d.thorough_only = g != 3
            D.append(d)
    # massless lightest chargino: det X = M2 mu - MW^2 sin(2 beta) = 0, realised at tan(beta) = 1,
    # M2 = mu = MW (value computed by the driver in the arithmetic of the tree-level mass matrix);
    # only where M2, mu are on-shell inputs
    # (at tan(beta) = 1 the tree-level h is massless as well and may come out tachyonic by rounding)
    D.append(Defect("cha0", "input", {"TB": 1.0, "Mu": "=MWtree", "M2": "=MWtree"}, ("gm2",),
                    "massless lightest chargino", special="cha0", also=("tachyon",)))
    # tachyons with all soft squared masses positive: left-right mixing m_f (A_f - mu tan(beta)|cot(beta))
    # exceeding the diagonal entries, or a D-term larger than the soft mass
    # Every sfermion mass matrix is [[mL^2 + mf^2 + DL, mf X], [mf X, mR^2 + mf^2 + DR]].  A state is
    # tachyonic iff the determinant is negative (exactly one negative eigenvalue) or both diagonal
    # entries are.  Each monitored sector is realised in four forms, because "which eigenvalue is the
    # negative one" differs between them:
    #   mix-small   huge left-right mixing, all soft masses positive: trace > 0, so the negative
    #               eigenvalue is the one of SMALLER magnitude
    #   D-dom       tiny positive soft masses at tan(beta) = 1/2, where the D-terms make the trace
    #               negative: the negative eigenvalue is the one of LARGER magnitude ("dominant")
    #               (impossible for the stop: 2 mt^2 >> MZ^2)
    #   soft-small  negative soft mass^2 in one chirality, smaller in magnitude than the positive one
    #   soft-dom    negative soft mass^2 in one chirality, 4x the positive one in magnitude
    # The soft-* forms are also negative-soft-mass inputs (either error class is correct without
    # force-output) but the tachyon itself must be flagged: exit status non-zero under force-output.
    def tach(did, sector, setp, styles, doc, also=(), pairs_in_quick=False, assumes=()):
        d = Defect(did, "tachyon", setp, styles, doc, also=also)
        d.sector, d.pairs_in_quick, d.assumes = sector, pairs_in_quick, tuple(assumes)
        D.append(d)

    tach("tach:Sm", "Sm", {"Ae_2": 1e9}, both, "tachyonic smuon, mix-small (A_mu = 1e9)", pairs_in_quick=True)
    tach("tach:Stau", "Stau", {"Ae_3": 1e8}, both, "tachyonic stau, mix-small (A_tau = 1e8)", pairs_in_quick=True)
    tach("tach:Sb", "Sb", {"Ad_3": 1e9}, both, "tachyonic sbottom, mix-small (A_b = 1e9)", pairs_in_quick=True)
    tach("tach:St", "St", {"Au_3": 1e8}, both, "tachyonic stop, mix-small (A_t = 1e8)", pairs_in_quick=True)
    tach("tach:SvmL", "SvmL", {"msl_2": 30.0}, ("gm2",),
         "tachyonic muon sneutrino (msl(2,2)^2 = 900 < -MZ^2 cos(2 beta)/2)", pairs_in_quick=True,
         assumes=("TB",))       # needs cos(2 beta) < 0, i.e. the tan(beta) > 1 of the base points
    tach("tach:SvmL:soft", "SvmL", {"msl_2": -200.0}, ("gm2",), "tachyonic muon sneutrino, msl(2,2)^2 = -4e4", also=("input",))
    tach("tach:Sm:D-dom", "Sm", {"TB": 0.5, "msl_2": 20.0, "mse_2": 40.0}, ("gm2",),
         "tachyonic smuon, dominant negative eigenvalue (tan(beta) = 1/2, msl = 20, mse = 40)")
    tach("tach:Stau:D-dom", "Stau", {"TB": 0.5, "msl_3": 20.0, "mse_3": 40.0}, both,
         "tachyonic stau, dominant negative eigenvalue (tan(beta) = 1/2, msl3 = 20, mse3 = 40)")
    tach("tach:Sb:D-dom", "Sb", {"TB": 0.5, "msq_3": 20.0, "msd_3": 30.0}, both,
         "tachyonic sbottom, dominant negative eigenvalue (tan(beta) = 1/2, msq3 = 20, msd3 = 30)")
    # Tachyons that exist in only one of the two spectra.  The bottom Yukawa coupling entering the sbottom
    # mixing m_b (A_b - mu tan(beta)) is y_b(tree) / (1 + Delta_b) with resummation (arXiv:0901.2065 Eq.(31),
    # (103), cited by the library's documentation), Delta_b ~ (2 alpha_s / 3 pi) mu M3 tan(beta) I(..) + EW.
    #   nonres-only: mu > 0 large, Delta_b ~ +5: mixing exceeds the diagonal only with the tree-level y_b
    #   res-only:    mu < 0, Delta_b ~ -0.56: mixing exceeds the diagonal only with the resummed y_b
    # sbottom_window() below evaluates the cited formula and check c16 asserts margins >= 1.2 on both
    # sides for every base point before trusting these two predictions.  All parameters that enter are
    # fixed by the realisation; SUSY pole masses are removed (= tree-level masses are used) for SLHA input.
    nopoles = {k: 0.0 for k in ("MChi_1", "MChi_2", "MChi_3", "MChi_4", "MCha_1", "MCha_2", "MSm_1", "MSm_2", "MSvmL")}
    common = dict(TB=50.0, M1=200.0, M2=400.0, msu_3=1500.0, Au_3=0.0, Ad_3=0.0, Ae_3=0.0, msl_3=3000.0, mse_3=3000.0)
    for did, paths, setp in (
            ("tach:Sb:nonres-only", ("nonres",), dict(common, Mu=5000.0, M3=2000.0, msq_3=700.0, msd_3=700.0)),
            ("tach:Sb:res-only", ("res",), dict(common, Mu=-300.0, M3=1500.0, msq_3=250.0, msd_3=250.0))):
        for sty in both:
            sp = dict(setp)
            if sty == "slha":
                sp.update(nopoles)
            tach(did + ("" if sty == "gm2" else "'"), "Sb", sp, (sty,),
                 "sbottom tachyonic only %s tan(beta) resummation (Delta_b)" % ("without" if paths == ("nonres",) else "with"))
            D[-1].paths = paths
    for sec, L, R, sty, small, floor in (("Sm", "msl_2", "mse_2", ("gm2",), 0.3, 100.0),
                                         ("Stau", "msl_3", "mse_3", both, 0.3, 100.0),
                                         ("Sb", "msq_3", "msd_3", both, 0.3, 100.0),
                                         ("St", "msq_3", "msu_3", both, 0.5, 400.0)):
        tach("tach:%s:soft-small" % sec, sec, {R: ("rel", L, small, floor)}, sty,
             "tachyonic %s: %s^2 = -max(%g |%s|, %g)^2, negative eigenvalue of smaller magnitude" % (sec, R, small, L, floor),
             also=("input",))
        tach("tach:%s:soft-dom" % sec, sec, {R: ("rel", L, 2.0, floor)}, sty,
             "tachyonic %s: %s^2 = -max(2 |%s|, %g)^2, negative eigenvalue of larger magnitude" % (sec, R, L, floor),
             also=("input",))
        # sign pattern (-,-): both soft masses squared negated, both eigenvalues negative
        # (verified by sfermion_both_negative() below on every base point)
        tach("tach:%s:both-neg" % sec, sec, {L: "negate", R: "negate"}, sty,
             "tachyonic %s: %s^2 and %s^2 both negated, both eigenvalues negative" % (sec, L, R), also=("input",))
    # A negative soft squared mass that is an OUTPUT of the DR-bar -> on-shell conversion (SLHA input):
    # me2(2,2) is determined from the right-smuon pole mass (README: MSOFT[35] is only an "initial guess").
    # At tree level m^2(smu_R) = me2 + m_mu^2 - MZ^2 sw^2 cos(2 beta), so with tan(beta) >= 10 a 20 GeV
    # pole mass needs me2 = 400 - 1810 < 0 (left-right mixing shifts this by O(1 GeV^2)).  All input soft
    # masses stay positive: the defect exists only in the converted parameter set.
    # (The sneutrino analogue does not exist for tan(beta) > 1: ml2 = m^2 - MZ^2 cos(2 beta)/2 > 0.)
    d = Defect("pole:SmR-light", "input", {"MSm_1": 20.0, "MSm_2": ("copy", "msl_2")}, ("slha",),
               "right-smuon pole mass 20 GeV: on-shell me2(2,2) < 0 after the conversion", also=("tachyon",))
    d.assumes = ("TB", "MZ", "MW")
    D.append(d)
    return D


THDM_STYLES = ("mass", "gauge")
LAM = {"lambda_1": 0.7, "lambda_2": 0.6, "lambda_3": 0.5, "lambda_4": 0.4, "lambda_5": 0.3}
MASSES = {"mh": 125.0, "mH": 400.0, "mA": 420.0, "mHp": 440.0, "sba": 0.995}


def thdm_defects():
    D = []
    D.append(Defect("tb=0", "input", {"tan_beta": 0.0}, THDM_STYLES, "tan(beta) <= 0"))
    D.append(Defect("tb<0", "input", {"tan_beta": -3.0}, THDM_STYLES, "tan(beta) <= 0"))
    D.append(Defect("mh>mH", "input", {"mh": 500.0}, ("mass",), "mh > mH"))
    D.append(Defect("sba>1", "input", {"sba": 1.5}, ("mass",), "|sin(beta-alpha)| > 1"))
    D.append(Defect("sba<-1", "input", {"sba": -1.5}, ("mass",), "|sin(beta-alpha)| > 1"))
    D.append(Defect("mh<0", "input", {"mh": -125.0}, ("mass",), "negative mass mh"))
    D.append(Defect("mH<0", "input", {"mH": -400.0}, ("mass",), "negative mass mH"))
    D.append(Defect("mA<0", "input", {"mA": -420.0}, ("mass",), "negative mass mA"))
    D.append(Defect("mHp<0", "input", {"mHp": -440.0}, ("mass",), "negative mass mH+"))
    D.append(Defect("yukawa=0", "structural", {"yukawa_type": 0}, THDM_STYLES, "invalid Yukawa type 0"))
    D.append(Defect("yukawa=7", "structural", {"yukawa_type": 7}, THDM_STYLES, "invalid Yukawa type 7"))
    # MINPAR[24] is an integer-valued entry (README: "Yukawa type (1 = type I, ..., 6 = general)"): a value
    # that is not one of the integers 1..6 names no Yukawa scheme, whatever an integer conversion would
    # make of it.  Program input only (the library interfaces take an enum / int).
    for tag, val in (("2.5", 2.5), ("1.5", 1.5), ("6.9", 6.9), ("2+1e-9", 2.000000001), ("2-1e-9", 1.999999999),
                     ("2.999999", 2.999999), ("1e-300", 1e-300), ("nan", float("nan")), ("inf", float("inf"))):
        d = Defect("yukawa=" + tag, "structural", {"yukawa_type": val}, THDM_STYLES,
                   "non-integer Yukawa type %s" % tag, special="cli-only")
        d.pairs_in_quick = False
        D.append(d)
    # every sign pattern of the tree-level squared masses (hh: (-,+) with the negative eigenvalue small / dominant,
    # (-,-); Ah; Hm; alone and in all combinations), gauge basis at tan(beta) = 3, lambda_6 = lambda_7 = 0.
    # thdm_tree_spectrum() below (textbook formulas) confirms each pattern for v^2 in [58000, 61000] GeV^2.
    for hh, a_neg, h_neg, lam, m122 in THDM_TACHYON_POINTS:
        secs = tuple(x for x, on in (("hh", hh != "++"), ("Ah", a_neg), ("Hm", h_neg)) if on)
        d = Defect("tach:gauge:hh%s:A%s:H%s" % (hh, "-" if a_neg else "+", "-" if h_neg else "+"), "tachyon",
                   dict({"lambda_%d" % (i + 1): float(lam[i]) for i in range(5)}, lambda_6=0.0, lambda_7=0.0,
                        tan_beta=3.0, m122=float(m122)), ("gauge",),
                   "gauge-basis point with tachyonic %s (hh pattern %s)" % ("+".join(secs), hh))
        d.sector, d.pairs_in_quick, d.pattern = secs, False, (hh, a_neg, h_neg)
        D.append(d)
    D.append(Defect("tach:gauge", "tachyon", {"m122": -1.0e5}, ("gauge",), "tachyonic gauge-basis point (m12^2 = -1e5)"))
    # undecidable basis exists only where the basis is inferred from the file (program)
    D.append(Defect("basis=both", "structural", dict(LAM), ("mass",), "mass and gauge basis both given", special="cli-only"))
    D.append(Defect("basis=both'", "structural", dict(MASSES), ("gauge",), "mass and gauge basis both given", special="cli-only"))
    D.append(Defect("basis=neither", "structural", {k: REMOVE for k in MASSES}, ("mass",), "neither basis given", special="cli-only"))
    D.append(Defect("basis=neither'", "structural", {k: REMOVE for k in LAM}, ("gauge",), "neither basis given", special="cli-only"))
    # README documents two input forms: gauge basis = MINPAR[11..15] (lambda_1..5) and none of the mass-basis
    # quantities; mass basis = MASS[25,35,36,37] + MINPAR[20] and none of lambda_1..5.  lambda_6, lambda_7,
    # tan(beta), m12^2, zeta, Yukawa type are listed for BOTH forms and cannot decide.  A file that gives
    # (non-zero) quantities specific to both forms, or specific to neither, matches no documented form:
    # undecidable, to be refused.  Partial shapes:
    import itertools as _it
    mq = sorted(MASSES)
    for r in (1, 2):
        for ks in _it.combinations(mq, r):
            d = Defect("basis=lambdas+%s" % "+".join(ks), "structural", {k: MASSES[k] for k in ks}, ("gauge",),
                       "lambda_1..5 given together with %s" % ", ".join(ks), special="cli-only")
            d.pairs_in_quick = False
            D.append(d)
    for k in sorted(LAM):
        d = Defect("basis=masses+%s" % k, "structural", {k: LAM[k]}, ("mass",),
                   "all mass-basis quantities given together with %s" % k, special="cli-only")
        d.pairs_in_quick = False
        D.append(d)
    for sty, rem in (("mass", MASSES), ("gauge", LAM)):
        sp = {k: REMOVE for k in rem}
        sp.update({"lambda_6": 0.2, "lambda_7": 0.1})
        d = Defect("basis=lambda67-only" + ("" if sty == "mass" else "'"), "structural", sp, (sty,),
                   "only lambda_6, lambda_7 (common to both forms) given", special="cli-only")
        d.pairs_in_quick = False
        D.append(d)
    return D


# (hh pattern, Ah tachyonic, Hm tachyonic, (lambda_1..5), m12^2); '-+s' / '-+d': one negative CP-even eigenvalue of
# smaller / larger magnitude than the positive one, '--': both negative, '++': CP-even sector healthy
THDM_TACHYON_POINTS = [
    ("++", False, True, (2, 0.5, -2, 3, -1), 0.0),
    ("++", True, False, (-1, 0.5, -2, -1, 3), 40000.0),
    ("++", True, True, (-1, 0.5, -2, 3, 3), 40000.0),
    ("-+d", False, False, (-1, -1, -2, -3, -3), 0.0),
    ("-+d", False, True, (-1, -1, 0, 3, -1), 0.0),
    ("-+d", True, False, (-1, -1, -2, -3, 1), 0.0),
    ("-+d", True, True, (-1, -1, -2, 1, 3), 0.0),
    ("-+s", False, False, (-1, -1, -2, -3, -3), 40000.0),
    ("-+s", False, True, (-1, 0.5, -2, 3, -1), 0.0),
    ("-+s", True, False, (-1, -1, -2, -3, 3), 40000.0),
    ("-+s", True, True, (-1, -1, -2, 3, 3), 40000.0),
    ("--", False, False, (-1, -1, 2, -1, -1), 0.0),
    ("--", False, True, (-1, -1, -2, 3, -1), 0.0),
    ("--", True, False, (-1, -1, 2, -3, 1), 0.0),
    ("--", True, True, (-1, -1, -2, -3, -3), -100000.0),
]


def thdm_tree_spectrum(p, v2):
    """tree-level squared masses of the general CP-conserving THDM in the gauge basis (Gunion, Haber,
    hep-ph/0207010 App. D):  mA^2 = m12^2/(s c) - v^2 (2 l5 + l6 c/s + l7 s/c)/2,  mH+^2 = mA^2 + v^2 (l5 - l4)/2,
    M_hh^2 = mA^2 [[s^2, -s c], [-s c, c^2]] + v^2 [[l1 c^2 + 2 l6 s c + l5 s^2, (l3 + l4) s c + l6 c^2 + l7 s^2],
                                                  [., l2 s^2 + 2 l7 s c + l5 c^2]]
    -> ((hh_1^2, hh_2^2) ascending, mA^2, mH+^2)"""
    tb = p["tan_beta"]
    l = [p["lambda_%d" % i] for i in range(1, 8)]
    sb, cb = tb / math.sqrt(1 + tb * tb), 1 / math.sqrt(1 + tb * tb)
    mA2 = p["m122"] / (sb * cb) - 0.5 * v2 * (2 * l[4] + l[5] * cb / sb + l[6] * sb / cb)
    mH2 = mA2 + 0.5 * v2 * (l[4] - l[3])
    a = mA2 * sb * sb + v2 * (l[0] * cb * cb + 2 * l[5] * sb * cb + l[4] * sb * sb)
    b = -mA2 * sb * cb + v2 * ((l[2] + l[3]) * sb * cb + l[5] * cb * cb + l[6] * sb * sb)
    c = mA2 * cb * cb + v2 * (l[1] * sb * sb + 2 * l[6] * sb * cb + l[4] * cb * cb)
    r_ = math.sqrt((a - c) ** 2 / 4 + b * b)
    return ((a + c) / 2 - r_, (a + c) / 2 + r_), mA2, mH2


def thdm_pattern_ok(p, pattern):
    """does the realisation have its sign pattern, every |m^2| > 3000 GeV^2, for v^2 in [58000, 61000]?"""
    hh, a_neg, h_neg = pattern
    for v2 in (58000.0, 61000.0):
        (e1, e2), A, H = thdm_tree_spectrum(p, v2)
        if min(abs(e1), abs(e2), abs(A), abs(H)) < 3000 or (A < 0) != a_neg or (H < 0) != h_neg:
            return False
        got = "--" if e2 < 0 else "++" if e1 > 0 else "-+s" if abs(e1) < 0.7 * abs(e2) else "-+d" if abs(e1) > 1.4 * abs(e2) else "?"
        if got != hh:
            return False
    return True


def sfermion_both_negative(p, sector):
    """tree-level sfermion mass matrix [[mL^2 + mf^2 + DL, mf X], [mf X, mR^2 + mf^2 + DR]] of the point: are both
    eigenvalues negative (trace < 0, det > 0) for the fermion mass anywhere in its plausible range?"""
    L, R, mfs, A, up, T3, Q = {"Sm": ("msl_2", "mse_2", (0.1, 0.11), "Ae_2", False, -0.5, -1.0),
                               "Stau": ("msl_3", "mse_3", (1.7, 1.8), "Ae_3", False, -0.5, -1.0),
                               "Sb": ("msq_3", "msd_3", (2.4, 4.3), "Ad_3", False, -0.5, -1.0 / 3),
                               "St": ("msq_3", "msu_3", (150.0, 175.0), "Au_3", True, 0.5, 2.0 / 3)}[sector]
    tb = p["TB"]
    c2b = (1 - tb * tb) / (1 + tb * tb)
    sw2 = 1 - (p["MW"] / p["MZ"]) ** 2
    mz2 = p["MZ"] ** 2
    for mf in mfs:
        a = p[L] * abs(p[L]) + mf * mf + (T3 - Q * sw2) * mz2 * c2b
        b = p[R] * abs(p[R]) + mf * mf + Q * sw2 * mz2 * c2b
        x = mf * (p[A] - p["Mu"] * (1 / tb if up else tb))
        if not (a + b < 0 and a * b - x * x > 0.05 * a * b):
            return False
    return True


def _Iabc(a, b, c):
    a2, b2, c2 = a * a, b * b, c * c
    if abs(a2 - b2) < 1e-9 * a2:
        b2 *= 1 + 1e-6
    if abs(b2 - c2) < 1e-9 * b2:
        c2 *= 1 + 2e-6
    if abs(a2 - c2) < 1e-9 * a2:
        c2 *= 1 + 3e-6
    return (a2 * b2 * math.log(a2 / b2) + b2 * c2 * math.log(b2 / c2) + c2 * a2 * math.log(c2 / a2)) / (
        (a2 - b2) * (b2 - c2) * (a2 - c2))


def delta_b(p):
    """Delta_b of arXiv:0901.2065 Eq.(31),(103) for A_t = 0 from the parameter point (soft masses as masses)"""
    e = math.sqrt(4 * math.pi * p["alpha_MZ"])
    cw = p["MW"] / p["MZ"]
    g2, gY = e / math.sqrt(1 - cw * cw), e / cw
    mu, M1, M2, M3, mL, mR = p["Mu"], p["M1"], p["M2"], p["M3"], abs(p["msq_3"]), abs(p["msd_3"])
    eps0 = (2 / (3 * math.pi) * p["alpha_s"] * mu * M3 * _Iabc(mL, mR, abs(M3))
            - 1 / (96 * math.pi ** 2) * gY ** 2 * mu * M1 * (_Iabc(mL, abs(mu), abs(M1)) + 2 * _Iabc(mR, abs(mu), abs(M1)))
            - 1 / (144 * math.pi ** 2) * gY ** 2 * mu * M1 * _Iabc(mL, mR, abs(M1))
            - 3 / (32 * math.pi ** 2) * g2 ** 2 * mu * M2 * _Iabc(mL, abs(mu), abs(M2)))
    return p["TB"] * eps0


def sbottom_window(p):
    """-> (worst-case |mixing| / sqrt(diagonal product) with tree-level y_b [min, max], the same with the
    resummed y_b [min, max]) for m_b(MZ, DR-bar) in [2.65, 2.95] GeV and Delta_b known to 10 %"""
    tb, cw2 = p["TB"], (p["MW"] / p["MZ"]) ** 2
    c2b = (1 - tb * tb) / (1 + tb * tb)
    sw2 = 1 - cw2
    diag = math.sqrt((p["msq_3"] ** 2 + 9 + (-0.5 + sw2 / 3) * p["MZ"] ** 2 * c2b)
                     * (p["msd_3"] ** 2 + 9 - sw2 / 3 * p["MZ"] ** 2 * c2b))
    db = delta_b(p)
    xt = [mb * abs(p["Ad_3"] - p["Mu"] * tb) / diag for mb in (2.65, 2.95)]
    xr = [x / abs(1 + f * db) for x in xt for f in (0.9, 1.1)]
    return (min(xt), max(xt)), (min(xr), max(xr)), db


def compatible(a, b):
    """two defects can be applied together iff they do not assign the same parameter"""
    if set(a.set) & set(b.set):
        return False
    if set(a.assumes) & set(b.set) or set(b.assumes) & set(a.set):
        return False         # one realisation relies on a base value the other one changes
    if a.id.startswith("basis=") and b.id.startswith("basis="):
        return False         # 'both' and 'neither' applied together turn one valid basis into the other
    for x, y in ((a, b), (b, a)):
        if x.special == "cha0" and set(y.set) & {"MW", "MZ"}:
            return False     # the realisation of cha0 needs a finite tree-level MW
    return True


def apply(point, defects, helpers):
    """returns the modified copy of a valid parameter point"""
    p = dict(point)
    late = []
    for d in sorted(defects, key=lambda x: x.special == "cha0"):     # cha0 last: it depends on MW, MZ, alpha
        for k, v in d.set.items():
            if isinstance(v, tuple) and v[0] == "rel":
                late.append((k, v))          # relative to another (possibly modified) parameter
            elif isinstance(v, tuple) and v[0] == "copy":
                p[k] = abs(point[v[1]])      # value of another parameter of the valid base point
            elif v is REMOVE:
                p.pop(k, None)
            elif v == "negate":
                p[k] = -abs(p[k])
            elif v == "=MZ":
                p[k] = p["MZ"]
            elif v == "=MWtree":
                p[k] = helpers["mw_tree"](p)
            else:
                p[k] = v
    for k, (_, other, factor, floor) in late:
        p[k] = -max(factor * abs(p[other]), floor)       # signed mass: the soft mass squared is -(...)^2
    return p


def predict(model, defects, force):
    """expected outcome for a set of defects (possibly empty).

    refused        the calculation must be refused
    classes        acceptable exception classes ('*' = any gm2calc::Error)
    ccodes         acceptable C error codes ('*' = any non-zero)
    indicator      a warning / problem indication must accompany the result
    exit           0, 1 or None (= 1 iff the run reports a problem (tachyon); MSSM only)
    finite         the reported result must be finite"""
    if not defects:
        return dict(refused=False, classes=set(), ccodes=set(), indicator=False, exit=0, finite=True)
    # structural defects define no model: the 'unless force-output' clause cannot apply where no
    # calculation is defined, refusal (exit 1, diagnostic, no number) is expected with or without force
    if force and any(d.kind == "structural" for d in defects):
        return dict(refused=True, classes={"*"}, ccodes={"*"}, indicator=True, exit=1, finite=False)
    if not force:
        return dict(refused=True, classes={CLASS[k] for d in defects for k in d.kinds()},
                    ccodes={CCODE[k] for d in defects for k in d.kinds()}, indicator=True, exit=1, finite=False)
    if model == "THDM":
        ex = 0
    elif all(d.kind == "tachyon" for d in defects):
        ex = 1           # the tachyon is certain only while the rest of the point is valid
    else:
        ex = None
    return dict(refused=False, classes=set(), ccodes=set(), indicator=True, exit=ex, finite=False)
