#!/opt/veriftools/pyvenv/bin/python
"""Applies a stored seeded change to /repo, runs the given checks (default: the property's own, quick), reverts.
usage: run_seed.py <seeded name> [--tier quick|thorough] [check ids...]"""
import json, os, subprocess, sys, time
def sh(cmd): p = subprocess.run(cmd, shell=True, stdout=subprocess.PIPE, stderr=subprocess.STDOUT, text=True); return p.returncode, p.stdout
def main():
    args = sys.argv[1:]; tier = "quick"
    if "--tier" in args: i = args.index("--tier"); tier = args[i + 1]; del args[i:i + 2]
    name = args[0]; d = os.path.join("/verif/seeded", name); meta = json.load(open(os.path.join(d, "meta.json")))
    checks = args[1:] or [meta["property"]]
    rc, out = sh("git -C /repo status --porcelain --untracked-files=no"); assert out.strip() == "", "repo not clean: " + out
    rc, out = sh("git -C /repo apply %s/patch.diff" % d); assert rc == 0, out
    res = {}
    try:
        for c in checks:
            t0 = time.time(); rc, out = sh("cd /verif && bin/vcheck %s --tier %s" % (c, tier))
            viol = [l for l in out.split("\n") if l.startswith("VIOLATION")]
            res[c] = {"tier": tier, "exit": rc, "violations": len(viol), "first": viol[0][:400] if viol else None, "wall_s": round(time.time() - t0, 1)}
            print(c, res[c])
    finally:
        sh("git -C /repo checkout -- .")
    meta.setdefault("checks_run", {}).update({"%s/%s" % (c, tier): r for c, r in res.items()})
    meta["detected_by"] = sorted({k for k, r in meta["checks_run"].items() if r["exit"] == 1})
    json.dump(meta, open(os.path.join(d, "meta.json"), "w"), indent=1)
if __name__ == "__main__":
    main()
