#!/opt/veriftools/pyvenv/bin/python
"""Regression sweep: every stored seeded change against the quick tier of its own property's check, in
parallel lanes.  Each lane owns a scratch worktree of /repo HEAD and its own build/output directories
(VERIF_REPO / VERIF_BUILD / VERIF_OUT), so /repo, /verif/build and /verif/evidence are not touched.
usage: sweep_seeds.py [--lanes N] [--only GLOB] [--keep]
Writes seeded/SWEEP.json (name -> exit, violations, first line) and updates checks_run["<id>/quick"] in meta.json."""
import fnmatch, glob, json, os, shutil, subprocess, sys, time
from concurrent.futures import ThreadPoolExecutor

ROOT = "/var/tmp/sweep"


def sh(cmd, env=None):
    e = dict(os.environ)
    if env:
        e.update(env)
    p = subprocess.run(cmd, shell=True, stdout=subprocess.PIPE, stderr=subprocess.STDOUT, text=True, env=e)
    return p.returncode, p.stdout


def lane(args):
    li, names, nlanes = args
    wt, bd, od = "%s/wt%d" % (ROOT, li), "%s/build%d" % (ROOT, li), "%s/out%d" % (ROOT, li)
    sh("git -C /repo worktree remove --force %s" % wt)
    shutil.rmtree(wt, ignore_errors=True)
    rc, out = sh("git -C /repo worktree add --detach %s HEAD" % wt)
    assert rc == 0, out
    env = {"VERIF_REPO": wt, "VERIF_BUILD": bd, "VERIF_OUT": od}
    res = {}
    for name in names:
        d = "/verif/seeded/" + name
        meta = json.load(open(d + "/meta.json"))
        pid = meta["property"]
        sh("git -C %s checkout -- ." % wt)
        rc, out = sh("git -C %s apply %s/patch.diff" % (wt, d))
        if rc != 0:
            res[name] = {"exit": None, "error": "patch does not apply: " + out[-200:]}
            continue
        t0 = time.time()
        rc, out = sh("cd /verif && nice bin/vcheck %s --tier quick" % pid, env)
        viol = [l for l in out.split("\n") if l.startswith("VIOLATION")]
        res[name] = {"tier": "quick", "exit": rc, "violations": len(viol), "first": viol[0][:300] if viol else None,
                     "wall_s": round(time.time() - t0, 1), "lanes": nlanes}
        if rc not in (0, 1):
            res[name]["tail"] = out[-400:]
        print("[lane %d] %s -> exit %s (%d violations, %.0f s)" % (li, name, rc, len(viol), time.time() - t0), flush=True)
    sh("git -C %s checkout -- ." % wt)
    return res


def main():
    a = sys.argv[1:]
    nl = int(a[a.index("--lanes") + 1]) if "--lanes" in a else 4
    only = a[a.index("--only") + 1] if "--only" in a else "*"
    names = sorted(os.path.basename(d.rstrip("/")) for d in glob.glob("/verif/seeded/*/") if os.path.exists(d + "patch.diff"))
    names = [n for n in names if fnmatch.fnmatch(n, only)]
    os.makedirs(ROOT, exist_ok=True)
    # spread the properties over the lanes so that one lane does not get all slow checks
    lanes = [names[i::nl] for i in range(nl)]
    allres = {}
    with ThreadPoolExecutor(nl) as ex:
        for r in ex.map(lane, [(i, lanes[i], nl) for i in range(nl)]):
            allres.update(r)
    for name, r in allres.items():
        mp = "/verif/seeded/%s/meta.json" % name
        meta = json.load(open(mp))
        if r.get("exit") is not None:
            meta.setdefault("checks_run", {})["%s/quick" % meta["property"]] = {k: r[k] for k in ("tier", "exit", "violations", "first", "wall_s")}
            meta["detected_by"] = sorted({k for k, v in meta["checks_run"].items() if v["exit"] == 1})
            json.dump(meta, open(mp, "w"), indent=1)
    json.dump(allres, open("/verif/seeded/SWEEP.json", "w"), indent=1, sort_keys=True)
    bad = {n: r for n, r in allres.items() if r.get("exit") != 1}
    print("SWEEP: %d seeds, %d detected by own quick check, %d not: %s" % (len(allres), len(allres) - len(bad), len(bad), sorted(bad)))
    if "--keep" not in a:
        for i in range(nl):
            sh("git -C /repo worktree remove --force %s/wt%d" % (ROOT, i))
        shutil.rmtree(ROOT, ignore_errors=True)
        sh("git -C /repo worktree prune")


if __name__ == "__main__":
    main()
