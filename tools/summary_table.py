#!/opt/veriftools/pyvenv/bin/python
"""Regenerates the summary table of DESIGN.md section 0 from MANIFEST.json, evidence/ (quick) and evidence_thorough/."""
import json, re
m = json.load(open("/verif/MANIFEST.json"))
rows = ["| id  | level | deciding method (MANIFEST `technique`) | quick: cases / distinct / wall | thorough: cases / distinct / wall |",
        "|-----|-------|----------------------------------------|-------------------------------|----------------------------------|"]
for c in sorted(m["checks"], key=lambda c: c["property_id"]):
    pid = c["property_id"]
    def cell(path):
        try:
            e = json.load(open(path))
            cov = e["coverage"]
            return "%d / %d / %ds" % (cov["evaluations"], cov["distinct_nontrivial"], round(e["wall_s"]))
        except Exception:
            return "-"
    lvl = c["level_claimed"]["category"]
    tech = c["level_claimed"].get("technique") or c.get("technique", "")
    rows.append("| %s | %s | %s | %s | %s |" % (pid, lvl, tech.replace("|", "\\|"), cell("/verif/evidence/%s.json" % pid), cell("/verif/evidence_thorough/%s.json" % pid)))
table = "\n".join(rows)
s = open("/verif/DESIGN.md").read()
a = s.index("| id  | level | deciding method")
b = s.index('\n\n"exploration" = a finite', a)
open("/verif/DESIGN.md", "w").write(s[:a] + table + s[b:])
print(table[:600])
