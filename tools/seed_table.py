#!/opt/veriftools/pyvenv/bin/python
"""Prints the markdown table of seeded changes and which checks detected them (from seeded/*/meta.json)."""
import json, os, glob, re
rows = []
SUMM = json.load(open("/verif/seeded/SUMMARIES.json")) if os.path.exists("/verif/seeded/SUMMARIES.json") else {}
for d in sorted(glob.glob("/verif/seeded/*/")):
    m = json.load(open(os.path.join(d, "meta.json")))
    name = os.path.basename(d.rstrip("/"))
    if name in SUMM and (m.get("summary") != SUMM[name]["summary"] or m.get("needs_to_manifest") != SUMM[name]["needs"]):
        m["summary"] = SUMM[name]["summary"]; m["needs_to_manifest"] = SUMM[name]["needs"]
        json.dump(m, open(os.path.join(d, "meta.json"), "w"), indent=1)
    notes = ""
    np_ = os.path.join(d, "notes.md")
    if os.path.exists(np_):
        notes = open(np_).read()
    patch = open(os.path.join(d, "patch.diff")).read()
    files = sorted(set(re.findall(r"^\+\+\+ b/(\S+)", patch, re.M)))
    runs = m.get("checks_run", {})
    det = [k for k, r in sorted(runs.items()) if r["exit"] == 1]
    miss = [k for k, r in sorted(runs.items()) if r["exit"] == 0]
    summ = m.get("summary", "") + " — needs: " + m.get("needs_to_manifest", "")
    summ = summ.replace("|", "\\|")
    rows.append((name, m["property"], ", ".join(files), summ, ", ".join(det) or "-", ", ".join(miss) or "-"))
print("| seeded change | property | files | what it is / what it needs | detected by | run without detection |")
print("|---|---|---|---|---|---|")
for r in rows:
    print("| %s | %s | %s | %s | %s | %s |" % r)
