#!/opt/veriftools/pyvenv/bin/python
"""Confirms a seeded change delivered by a sub-agent in a scratch worktree and stores it under /verif/seeded/<name>/.
usage: confirm_seed.py <prop> <mutant dir> [name]
Checks: patch applies; project builds; full ctest passes WITH the change; demo fails with it and passes without it."""
import json, os, shutil, subprocess, sys, time
WT = os.environ.get("SEED_WT", "/var/tmp/wt_seed")
def sh(cmd, **kw):
    p = subprocess.run(cmd, shell=True, stdout=subprocess.PIPE, stderr=subprocess.STDOUT, text=True, **kw)
    return p.returncode, p.stdout
def build():
    rc, out = sh("cmake --build %s/_build -j 6" % WT)
    return rc, out[-2000:]
def main():
    prop, mdir = sys.argv[1], sys.argv[2].rstrip("/")
    name = sys.argv[3] if len(sys.argv) > 3 else "%s_%s" % (prop, os.path.basename(mdir))
    if not os.path.exists(WT):
        sh("git -C /repo worktree add %s HEAD" % WT)
        sh("cmake -G Ninja -S %s -B %s/_build -DCMAKE_BUILD_TYPE=Release" % (WT, WT))
    sh("git -C %s checkout -q --detach $(git -C /repo rev-parse HEAD) && git -C %s checkout -- ." % (WT, WT))
    log = {"property": prop, "source_dir": mdir, "repo_head": sh("git -C /repo rev-parse --short HEAD")[1].strip()}
    patch = os.path.join(mdir, "patch.diff")
    rc, out = sh("git -C %s apply --check %s" % (WT, patch)); log["applies"] = rc == 0
    if rc != 0:
        print(json.dumps(log, indent=1), out); return 1
    rc, out = build(); assert rc == 0, "original does not build: " + out
    os.environ["GM2CALC_SRC"] = WT
    rc0, out0 = sh("sh %s/run.sh %s/_build" % (mdir, WT), cwd=mdir, timeout=3000); log["demo_on_original_exit"] = rc0
    sh("git -C %s apply %s" % (WT, patch))
    rc, out = build(); log["builds_with_change"] = rc == 0
    if rc == 0:
        rct, outt = sh("ctest --test-dir %s/_build -j 6 --timeout 900" % WT, timeout=6000)
        log["ctest_with_change"] = [l for l in outt.split("\n") if "tests passed" in l or "tests failed" in l]
        log["ctest_pass"] = rct == 0
        rc1, out1 = sh("sh %s/run.sh %s/_build" % (mdir, WT), cwd=mdir, timeout=3000); log["demo_with_change_exit"] = rc1
        log["demo_with_change_tail"] = out1[-600:]
    sh("git -C %s checkout -- ." % WT); build()
    ok = log.get("ctest_pass") and log.get("demo_with_change_exit", 0) != 0 and log["demo_on_original_exit"] == 0
    log["confirmed"] = bool(ok)
    if ok:
        dst = os.path.join("/verif/seeded", name); os.makedirs(dst, exist_ok=True)
        for f in os.listdir(mdir):
            p = os.path.join(mdir, f)
            if os.path.isfile(p) and os.path.getsize(p) < 2_000_000 and not f.endswith((".o", ".x", ".log")) and os.access(p, os.R_OK):
                shutil.copy(p, dst)
        notes = open(os.path.join(mdir, "notes.md")).read() if os.path.exists(os.path.join(mdir, "notes.md")) else ""
        meta = {"property": prop, "needs_to_manifest": "see notes.md", "confirmed_by_integrator": log, "checks_run": {}}
        json.dump(meta, open(os.path.join(dst, "meta.json"), "w"), indent=1)
    print(json.dumps(log, indent=1))
    return 0 if ok else 1
if __name__ == "__main__":
    sys.exit(main())
