"""Seeds for continuous domains: log lattices, literals harvested from the
anchored sources of the working tree, small rationals, ulp neighbours."""
import math
import os
import re

REPO = os.environ.get("VERIF_REPO", "/repo")
_FLOAT = re.compile(r"(?<![\w.])(\d+\.\d*(?:[eE][-+]?\d+)?|\d+[eE][-+]?\d+|\.\d+(?:[eE][-+]?\d+)?)(?![\w.])")
_RATIO = re.compile(r"(?<![\w.])(\d+\.?\d*)\s*/\s*(\d+\.?\d*)(?![\w.])")


def literals(files, lo=0.0, hi=float("inf")):
    out = set()
    for f in files:
        p = os.path.join(REPO, f)
        try:
            txt = open(p, errors="replace").read()
        except OSError:
            continue
        txt = re.sub(r"//[^\n]*", "", txt)
        txt = re.sub(r"/\*.*?\*/", "", txt, flags=re.S)
        for m in _FLOAT.finditer(txt):
            try:
                out.add(float(m.group(1)))
            except ValueError:
                pass
        for m in _RATIO.finditer(txt):
            try:
                d = float(m.group(2))
                if d:
                    out.add(float(m.group(1)) / d)
            except ValueError:
                pass
    return sorted(v for v in out if lo <= v <= hi and math.isfinite(v))


def rationals(qmax=12, pmax=24, lo=0.0, hi=float("inf")):
    s = set()
    for q in range(1, qmax + 1):
        for p in range(1, pmax + 1):
            v = p / q
            if lo <= v <= hi:
                s.add(v)
    return sorted(s)


def loglattice(K, lo_exp, hi_exp):
    return [10.0 ** (j / K) for j in range(lo_exp * K, hi_exp * K + 1)]


def ulps(x, W):
    out = [x]
    a = b = x
    for _ in range(W):
        a = math.nextafter(a, -math.inf)
        b = math.nextafter(b, math.inf)
        out += [a, b]
    return out


def rel_offsets(x, kstep=4, kmin=4, kmax=52):
    out = []
    for k in range(kmin, kmax + 1, kstep):
        out += [x * (1 + 2.0 ** -k), x * (1 - 2.0 ** -k)]
    return out
