"""Pool runner for the gm2calc.x command line (checks C13 / C14).

run_many(cases, exe, ...) executes every case (argv tail, stdin bytes) in a
pool of worker processes and returns, in input order, Result tuples
(rc, stdout, stderr, timed_out).  rc < 0 is the negated signal number.
A case that exceeds `timeout` is re-run alone with `timeout2` before it is
reported as a hang (DESIGN 2.5).  Nothing here is random; the order of the
returned list is the order of the input list.
"""
import collections
import multiprocessing as mp
import os
import subprocess

Result = collections.namedtuple("Result", "rc out err timed_out")

SAN_ENV = {"UBSAN_OPTIONS": "halt_on_error=1:exitcode=77:print_stacktrace=1",
           "ASAN_OPTIONS": "exitcode=78:detect_leaks=1"}

_G = {}


def _init(exe, env, timeout, cwd, post=None):
    _G["post"] = post
    _G["exe"] = exe
    e = dict(os.environ)
    e.update(env or {})
    _G["env"] = e
    _G["timeout"] = timeout
    _G["cwd"] = cwd


OUT_CAP = 32 << 20      # bytes of stdout+stderr after which a run is killed and reported as a hang ("output flood")


def _one(exe, env, args, data, timeout, cwd=None):
    """runs one case; output is read by two threads with a cap, so that a program that prints without bound
    neither exhausts memory nor has to be waited for until the timeout"""
    import threading
    import time
    p = subprocess.Popen([exe] + list(args), stdin=subprocess.PIPE if data is not None else subprocess.DEVNULL,
                         stdout=subprocess.PIPE, stderr=subprocess.PIPE, env=env, cwd=cwd)
    bufs = {"out": [], "err": []}
    tot = [0]
    flood = [False]

    def pump(f, key):
        while True:
            b = f.read(65536)
            if not b:
                break
            tot[0] += len(b)
            if tot[0] <= OUT_CAP:
                bufs[key].append(b)
            elif not flood[0]:
                flood[0] = True
                try:
                    p.kill()
                except OSError:
                    pass
    ts = [threading.Thread(target=pump, args=(p.stdout, "out"), daemon=True), threading.Thread(target=pump, args=(p.stderr, "err"), daemon=True)]
    for t in ts:
        t.start()
    if data is not None:
        def feed():
            try:
                p.stdin.write(data)
                p.stdin.close()
            except (BrokenPipeError, OSError):
                pass
        tf = threading.Thread(target=feed, daemon=True)
        tf.start()
    timed_out = False
    try:
        p.wait(timeout=timeout)
    except subprocess.TimeoutExpired:
        timed_out = True
        p.kill()
        p.wait()
    for t in ts:
        t.join(5)
    out, err = b"".join(bufs["out"]), b"".join(bufs["err"])
    if flood[0]:
        return Result(None, out[:1 << 20], err[:1 << 20] + b"\n[killed: output exceeded %d bytes]" % OUT_CAP, True)
    if timed_out:
        return Result(None, out, err, True)
    return Result(p.returncode, out, err, False)


def _chunk(chunk):
    out = []
    post = _G.get("post")
    for args, data in chunk:
        r = _one(_G["exe"], _G["env"], args, data, _G["timeout"], _G["cwd"])
        # a timed-out case is judged by the master after its solitary re-run
        out.append(r if (post is None or r.timed_out) else post(args, data, r))
    return out


def run_one(exe, args, data=None, env=None, timeout=60.0, cwd=None):
    e = dict(os.environ)
    e.update(env or {})
    return _one(exe, e, args, data, timeout, cwd)


class Runner:
    """keeps one worker pool alive for many batches"""

    def __init__(self, exe, env=None, timeout=10.0, timeout2=60.0, workers=16, cwd=None, post=None):
        """post: optional module-level function (args, data, Result) -> anything, evaluated in the
        worker; run_many then returns its values instead of Result tuples"""
        self.exe, self.env, self.timeout, self.timeout2, self.cwd = exe, env, timeout, timeout2, cwd
        self.post = post
        self.workers = min(workers, os.cpu_count() or 4)
        self.pool = mp.Pool(self.workers, initializer=_init, initargs=(exe, env, timeout, cwd, post))
        self.nrun = 0
        self.nretry = 0

    def run_many(self, cases, chunksize=None):
        cases = list(cases)
        if not cases:
            return []
        n = len(cases)
        cs = chunksize or max(1, min(64, n // (self.workers * 4) or 1))
        chunks = [cases[i:i + cs] for i in range(0, n, cs)]
        res = []
        for r in self.pool.imap(_chunk, chunks):
            res.extend(r)
        self.nrun += n
        # timed-out cases: re-run with the long timeout before calling them a hang.  The first two are re-run alone
        # (and, if still hanging, once more with five times the limit: busy machine); further ones are re-run four
        # at a time with the long timeout - a deterministic hang has been established by then and each of them
        # still gets 6 x the ordinary limit.
        late = [i for i, r in enumerate(res) if isinstance(r, Result) and r.timed_out]
        def _confirm(i):
            r2 = run_one(self.exe, cases[i][0], cases[i][1], self.env, self.timeout2, self.cwd)
            if r2.timed_out and b"output exceeded" not in r2.err:
                r2 = run_one(self.exe, cases[i][0], cases[i][1], self.env, 5 * self.timeout2, self.cwd)
            return r2
        if late:
            # the two confirmations run side by side (2 of the 16 cores, the pool is idle by now)
            from concurrent.futures import ThreadPoolExecutor
            with ThreadPoolExecutor(2) as ex:
                for i, r2 in zip(late[:2], ex.map(_confirm, late[:2])):
                    self.nretry += 1
                    res[i] = self.post(cases[i][0], cases[i][1], r2) if self.post else r2
        if len(late) > 2:
            from concurrent.futures import ThreadPoolExecutor
            with ThreadPoolExecutor(4) as ex:
                for i, r2 in zip(late[2:], ex.map(lambda j: run_one(self.exe, cases[j][0], cases[j][1], self.env, self.timeout2, self.cwd), late[2:])):
                    self.nretry += 1
                    res[i] = self.post(cases[i][0], cases[i][1], r2) if self.post else r2
        return res

    def close(self):
        self.pool.close()
        self.pool.join()

    def __enter__(self):
        return self

    def __exit__(self, *a):
        self.pool.terminate()
        self.pool.join()
