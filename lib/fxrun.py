"""Driver side of harness/fx.cpp: build, send commands, parse points."""
import subprocess
from core import InfraError, hexf, unhex
import build

_exe = {}


def exe(variant="cov"):
    if variant not in _exe:
        _exe[variant] = build.harness("fx", variant, ["fx.cpp"])
    return _exe[variant]


class Pt:
    __slots__ = ("fn", "tag", "t", "args", "outs", "sig")

    def __init__(self, fn, tag, t, args, outs, sig):
        self.fn, self.tag, self.t, self.args, self.outs, self.sig = fn, tag, t, args, outs, sig


def run_cmds(cmds, nargs_of, variant="cov", timeout=600):
    """cmds: list of (fn, text).  Returns list of (pts, boundaries, caps) per command."""
    inp = "\n".join(c[1] for c in cmds) + "\n"
    p = subprocess.run([exe(variant)], input=inp, stdout=subprocess.PIPE, stderr=subprocess.PIPE,
                       text=True, timeout=timeout)
    if p.returncode != 0:
        raise InfraError("fx harness exit %d: %s" % (p.returncode, p.stdout[-500:] + p.stderr[-500:]))
    res = []
    it = iter(cmds)
    cur = next(it, None)
    pts, bds, caps = [], [], []
    for ln in p.stdout.split("\n"):
        if not ln:
            continue
        tk = ln.split()
        if tk[0] == "P":
            fn = cur[0]
            na, no = nargs_of[fn]
            t = unhex(tk[2])
            args = tuple(unhex(v) for v in tk[3:3 + na])
            outs = tuple(unhex(v) for v in tk[3 + na:3 + na + no])
            pts.append(Pt(fn, tk[1], t, args, outs, tk[3 + na + no]))
        elif tk[0] == "BD":
            bds.append((unhex(tk[1]), unhex(tk[2]), tk[3], tk[4]))
        elif tk[0] == "CAP":
            caps.append(tk[1])
        elif tk[0] == "END":
            res.append((pts, bds, caps))
            pts, bds, caps = [], [], []
            cur = next(it, None)
        elif tk[0] == "ERR":
            raise InfraError("fx harness: " + ln)
    if len(res) != len(cmds):
        raise InfraError("fx harness: %d results for %d commands" % (len(res), len(cmds)))
    return res


def functions(variant="cov"):
    p = subprocess.run([exe(variant)], input="list\n", stdout=subprocess.PIPE, text=True, timeout=60)
    d = {}
    for ln in p.stdout.split("\n"):
        tk = ln.split()
        if tk and tk[0] == "FN":
            d[tk[1]] = (int(tk[2]), int(tk[3]))
    return d


def cmd_line(fn, W, base, coef, ts):
    return (fn, "line %s %d %s %s %d %s" % (
        fn, W, " ".join(hexf(v) for v in base), " ".join(hexf(v) for v in coef),
        len(ts), " ".join(hexf(v) for v in ts)))


def cmd_pts(fn, pts):
    return (fn, "pts %s %d %s" % (fn, len(pts), " ".join(hexf(v) for p in pts for v in p)))
