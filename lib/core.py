"""Shared run context: tiers, deadlines, violation/known-finding handling,
evidence files, replay artefacts.  One Ctx per `vcheck <id>` invocation."""
import fnmatch
import json
import os
import sys
import time

VERIF = os.path.dirname(os.path.dirname(os.path.abspath(__file__)))
# VERIF_OUT redirects evidence and replay files (used by tools/sweep_seeds.py lanes, which run the checks
# against mutated scratch worktrees and must not touch the evidence of the real tree)
_OUT = os.environ.get("VERIF_OUT", VERIF)
EVID = os.path.join(_OUT, "evidence")
REPLAY = os.path.join(_OUT, "replay")
FINDINGS = os.path.join(VERIF, "known_findings.json")

LEVELS = {}  # property -> level, filled from MANIFEST.json


def _manifest_levels():
    try:
        m = json.load(open(os.path.join(VERIF, "MANIFEST.json")))
        return {c["property_id"]: c["level_claimed"]["category"] for c in m["checks"]}
    except Exception:
        return {}


def load_findings(pid):
    try:
        data = json.load(open(FINDINGS))
    except FileNotFoundError:
        return []
    out = [f for f in data.get("findings", []) if f.get("property") == pid]
    # staging area used while a check is being developed; merged into known_findings.json on integration
    try:
        extra = json.load(open(os.path.join(VERIF, "findings.d", pid + ".json")))
        out += [f for f in extra.get("findings", []) if f.get("property") == pid]
    except (FileNotFoundError, ValueError):
        pass
    return out


class InfraError(Exception):
    """infrastructure failure: exit 2, never a VIOLATION."""


class Ctx:
    def __init__(self, pid, tier, level=None, deadline_s=None):
        self.pid = pid
        self.tier = tier
        self.quick = tier == "quick"
        self.level = level or _manifest_levels().get(pid, "exploration")
        self.t0 = time.time()
        self.deadline = self.t0 + (deadline_s or (150 if self.quick else 1500))
        self.seed = int(os.environ.get("VERIF_SEED", "0") or 0)
        self.findings = load_findings(pid)
        self.known_hit = {}      # finding key pattern -> count
        self.violations = []     # (key, what, path)
        self.cov = {"evaluations": 0, "samples": [], "exhaustive": True, "caps_hit": []}
        self.distinct = set()
        self.assumptions = []
        self.notes = {}
        self._nrep = 0
        self._vkeys = {}

    # ----- budget ---------------------------------------------------------
    def time_left(self):
        return self.deadline - time.time()

    def out_of_time(self, what=""):
        if time.time() > self.deadline:
            self.cap("deadline" + (":" + what if what else ""))
            return True
        return False

    def cap(self, what):
        if what not in self.cov["caps_hit"]:
            self.cov["caps_hit"].append(what)
        self.cov["exhaustive"] = False

    # ----- coverage accounting ---------------------------------------------
    def evals(self, n=1):
        self.cov["evaluations"] += n

    def nontrivial(self, key):
        self.distinct.add(key)

    def sample(self, s, maxn=12):
        if len(self.cov["samples"]) < maxn:
            self.cov["samples"].append(s)

    def note(self, k, v):
        self.notes[k] = v

    def add(self, k, n=1):
        self.notes[k] = self.notes.get(k, 0) + n

    # ----- verdicts ---------------------------------------------------------
    def fail(self, key, what, data=None, max_per_key=3):
        """Report a failing case.  `key` identifies the failing input class /
        call site narrowly; a known finding whose pattern matches it turns
        the case into a KNOWN-FINDING, anything else is a VIOLATION."""
        for f in self.findings:
            if fnmatch.fnmatchcase(key, f["key"]):
                self.known_hit.setdefault(f["key"], [f, 0, key, what, {}])
                self.known_hit[f["key"]][1] += 1
                ck = self.known_hit[f["key"]][4]
                ck[key] = ck.get(key, 0) + 1       # every concrete key a pattern absorbed (audit against masking)
                return False
        n = self._vkeys.get(key, 0)
        self._vkeys[key] = n + 1
        if n >= max_per_key:
            return True
        os.makedirs(os.path.join(REPLAY, self.pid), exist_ok=True)
        self._nrep += 1
        path = os.path.join(REPLAY, self.pid, "%s_%03d.json" % (self.tier, self._nrep))
        with open(path, "w") as fh:
            json.dump({"property": self.pid, "key": key, "what": what, "data": data},
                      fh, indent=1, default=str)
        self.violations.append((key, what, path))
        print("  fail[%s] %s" % (key, what), flush=True)
        return True

    def finish(self, rule, extra=None):
        cov = dict(self.cov)
        cov["distinct_nontrivial"] = len(self.distinct)
        cov["rule"] = rule
        cov.update(self.notes)
        if extra:
            cov.update(extra)
        if not cov["samples"]:
            cov["samples"] = ["(none recorded)"]
        nviol = sum(self._vkeys.values())
        ev = {
            "property_id": self.pid, "tier": self.tier, "seed": self.seed,
            "level": self.level, "coverage": cov,
            "assumptions": self.assumptions,
            "wall_s": round(time.time() - self.t0, 2),
            "violations": nviol,
            "known_findings_observed": [
                {"key": k, "count": v[1], "example": v[2],
                 "concrete_keys": dict(sorted(v[4].items())[:200])} for k, v in self.known_hit.items()],
        }
        os.makedirs(EVID, exist_ok=True)
        tmp = os.path.join(EVID, self.pid + ".json.tmp")
        with open(tmp, "w") as fh:
            json.dump(ev, fh, indent=1, default=str)
        os.replace(tmp, os.path.join(EVID, self.pid + ".json"))
        for k, v in self.known_hit.items():
            print("KNOWN-FINDING: property=%s %s [key=%s, %d case(s) this run, e.g. %s]"
                  % (self.pid, v[0]["what"], k, v[1], v[2]))
        for key, what, path in self.violations:
            print("VIOLATION property=%s replay=%s  # %s: %s" % (self.pid, path, key, what))
        print("[%s/%s] evaluations=%d distinct=%d exhaustive=%s violations=%d known=%d wall=%.1fs"
              % (self.pid, self.tier, cov["evaluations"], cov["distinct_nontrivial"],
                 cov["exhaustive"], nviol, len(self.known_hit), time.time() - self.t0))
        sys.stdout.flush()
        return 1 if self.violations else 0


def hexf(x):
    return float(x).hex()


def unhex(s):
    if s in ("nan", "-nan"):
        return float("nan")
    if s == "inf":
        return float("inf")
    if s == "-inf":
        return float("-inf")
    return float.fromhex(s)


def replay_by_rerun(run, ctx, path):
    """generic replay: re-run the (deterministic) exploration of the tier that produced the artefact and
    report whether the same failing key is still produced"""
    d = json.load(open(path))
    key = d.get("key")
    import io, contextlib
    buf = io.StringIO()
    with contextlib.redirect_stdout(buf):
        run(ctx)
    still = key in ctx._vkeys or any(fnmatch.fnmatchcase(key, k) for k in ctx.known_hit)
    print("replay %s: key %s %s" % (path, key, "still fails: " + d.get("what", "")[:300] if still else "no longer fails"))
    if key in ctx._vkeys:
        print("VIOLATION property=%s replay=%s" % (ctx.pid, path))
        return 1
    return 0
