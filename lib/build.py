"""Build variants of /repo's *current working tree* and harness programs.

Every check calls ensure(variant) first: out-of-tree CMake/Ninja build with source
dir /repo itself (no copy), incremental (no-op ~1 s).  A flock per variant makes
concurrent checks safe.
"""
import fcntl
import hashlib
import os
import shlex
import subprocess
import sys
import time

REPO = os.environ.get("VERIF_REPO", "/repo")
VERIF = os.path.dirname(os.path.dirname(os.path.abspath(__file__)))
BUILD = os.environ.get("VERIF_BUILD", os.path.join(VERIF, "build"))
NPROC = os.cpu_count() or 4

COMMON_CMAKE = [
    "-G", "Ninja",
    "-DENABLE_TESTS=OFF", "-DENABLE_EXAMPLES=OFF",
    "-DENABLE_MATHEMATICA=OFF", "-DENABLE_PYTHON=OFF",
]

# no source hooks exist; the guard define is passed anyway so that a future
# hook guarded by it would be enabled in every verification build.
GUARD = "-DGM2CALC_VERIF"

VARIANTS = {
    # what users get: g++ Release
    "plain": dict(
        cxx="g++", cc="gcc", shared=False, build_type="Release",
        flags=GUARD, targets=["gm2calc", "gm2calc.x"]),
    # path signatures / scheduler yield points
    "cov": dict(
        cxx="clang++", cc="clang", shared=True, build_type="None",
        flags=GUARD + " -O1 -g -fsanitize-coverage=trace-pc-guard",
        ldflags="-Wl,-z,now", targets=["gm2calc"]),
    "asan": dict(
        cxx="clang++", cc="clang", shared=False, build_type="None",
        flags=GUARD + " -O1 -g -fno-omit-frame-pointer "
              "-fsanitize=address,undefined,float-cast-overflow "
              "-fno-sanitize-recover=undefined,float-cast-overflow",
        ldflags="-fsanitize=address,undefined",
        targets=["gm2calc", "gm2calc.x"]),
    "tsan": dict(
        cxx="clang++", cc="clang", shared=False, build_type="None",
        flags=GUARD + " -O1 -g -fsanitize=thread",
        ldflags="-fsanitize=thread", targets=["gm2calc"]),
}


class BuildError(Exception):
    pass


def _run(cmd, **kw):
    p = subprocess.run(cmd, stdout=subprocess.PIPE, stderr=subprocess.STDOUT,
                       text=True, **kw)
    return p.returncode, p.stdout


def vdir(variant):
    return os.path.join(BUILD, variant)


def libpath(variant):
    v = VARIANTS[variant]
    return os.path.join(vdir(variant), "lib",
                        "libgm2calc.so" if v["shared"] else "libgm2calc.a")


def cli(variant="plain"):
    return os.path.join(vdir(variant), "bin", "gm2calc.x")


class _Lock:
    def __init__(self, name):
        os.makedirs(BUILD, exist_ok=True)
        self.path = os.path.join(BUILD, "." + name + ".lock")

    def __enter__(self):
        self.f = open(self.path, "w")
        fcntl.flock(self.f, fcntl.LOCK_EX)

    def __exit__(self, *a):
        fcntl.flock(self.f, fcntl.LOCK_UN)
        self.f.close()


def ensure(variant, quiet=True):
    """configure (once) + incremental ninja of /repo's working tree."""
    v = VARIANTS[variant]
    d = vdir(variant)
    with _Lock(variant):
        if not os.path.exists(os.path.join(d, "build.ninja")):
            os.makedirs(d, exist_ok=True)
            cmd = ["cmake", "-S", REPO, "-B", d] + COMMON_CMAKE + [
                "-DCMAKE_CXX_COMPILER=" + v["cxx"],
                "-DCMAKE_C_COMPILER=" + v["cc"],
                "-DCMAKE_BUILD_TYPE=" + v["build_type"],
                "-DBUILD_SHARED_LIBS=" + ("ON" if v["shared"] else "OFF"),
                "-DCMAKE_CXX_FLAGS=" + v["flags"],
                "-DCMAKE_C_FLAGS=" + v["flags"],
            ]
            if v.get("ldflags"):
                cmd += ["-DCMAKE_EXE_LINKER_FLAGS=" + v["ldflags"],
                        "-DCMAKE_SHARED_LINKER_FLAGS=" + v["ldflags"]]
            rc, out = _run(cmd)
            if rc != 0:
                raise BuildError("cmake configure failed for %s:\n%s" % (variant, out[-4000:]))
        t0 = time.time()
        rc, out = _run(["ninja", "-C", d, "-j", str(NPROC)] + v["targets"])
        if rc != 0:
            raise BuildError("build failed for %s:\n%s" % (variant, out[-6000:]))
        if not quiet:
            print("[build] %s ok (%.1fs)" % (variant, time.time() - t0), file=sys.stderr)
    return d


HARNESS_FLAGS = {
    "plain": ["g++", "-O2", "-std=c++14"],
    "cov": ["clang++", "-O1", "-g", "-std=c++14"],
    "asan": ["clang++", "-O1", "-g", "-std=c++14", "-fno-omit-frame-pointer",
             "-fsanitize=address,undefined,float-cast-overflow",
             "-fno-sanitize-recover=undefined,float-cast-overflow"],
    "tsan": ["clang++", "-O1", "-g", "-std=c++14", "-fsanitize=thread"],
    # header-only harnesses (link_lib=False): clang compiles Eigen-heavy code about twice as fast as g++
    "clang": ["clang++", "-O1", "-std=c++14"],
}


def _deps_newer(depfile, out):
    try:
        t = os.path.getmtime(out)
        txt = open(depfile).read().replace("\\\n", " ")
        deps = txt.split(":", 1)[1].split()
        for dp in deps:
            if not os.path.exists(dp) or os.path.getmtime(dp) > t:
                return True
        return False
    except (OSError, IndexError):
        return True


def harness(name, variant, sources, extra=(), link_lib=True, instrument_harness=False,
            libs=(), cov_sources=()):
    """Compile /verif/harness sources against a variant's library.  Returns the
    executable path.  Rebuilds iff a dependency (incl. repo headers and the
    library itself) is newer or the command line changed."""
    if link_lib or variant in VARIANTS:
        ensure(variant)
    hd = os.path.join(vdir(variant), "harness")
    os.makedirs(hd, exist_ok=True)
    out = os.path.join(hd, name)
    srcs = [s if os.path.isabs(s) else os.path.join(VERIF, "harness", s) for s in sources]
    cmd = list(HARNESS_FLAGS[variant])
    if variant == "cov" and instrument_harness:
        cmd += ["-fsanitize-coverage=trace-pc-guard"]
    cmd += [GUARD, "-I" + os.path.join(REPO, "include"), "-I" + os.path.join(REPO, "src"),
            "-I" + os.path.join(VERIF, "engine"), "-I/usr/include/eigen3",
            "-fno-access-control", "-MD", "-MF", out + ".d"]
    # cov_sources: harness TUs that get coverage instrumentation individually (cov variant only)
    pre = []
    for cs in cov_sources:
        csp = cs if os.path.isabs(cs) else os.path.join(VERIF, "harness", cs)
        obj = out + "." + os.path.basename(cs) + ".o"
        c = list(HARNESS_FLAGS[variant]) + (["-fsanitize-coverage=trace-pc-guard"] if variant == "cov" else []) + [
            GUARD, "-I" + os.path.join(REPO, "include"), "-I" + os.path.join(REPO, "src"),
            "-I" + os.path.join(VERIF, "engine"), "-I/usr/include/eigen3", "-fno-access-control"] + list(extra) + ["-c", csp, "-o", obj]
        pre.append((c, csp, obj))
    cmd += list(extra) + srcs + [p_[2] for p_ in pre] + ["-o", out]
    if link_lib:
        if VARIANTS[variant]["shared"]:  # noqa
            cmd += ["-L" + os.path.join(vdir(variant), "lib"), "-lgm2calc",
                    "-Wl,-rpath," + os.path.join(vdir(variant), "lib")]
        else:
            cmd += [libpath(variant)]
    cmd += ["-lpthread", "-ldl"] + list(libs)
    sig = hashlib.sha1(" ".join(cmd).encode()).hexdigest()
    sigf = out + ".cmd"
    with _Lock("h_" + variant + "_" + name):
        need = (not os.path.exists(out) or not os.path.exists(sigf)
                or open(sigf).read() != sig or _deps_newer(out + ".d", out)
                or (link_lib and os.path.getmtime(libpath(variant)) > os.path.getmtime(out)))
        need = need or any(not os.path.exists(o_) or os.path.getmtime(s_) > os.path.getmtime(o_) for _, s_, o_ in pre)
        # -MF holds the dependencies of the last source only when several sources are compiled in one
        # command: be conservative and rebuild when any harness / engine source is newer than the binary
        if not need:
            t_out = os.path.getmtime(out)
            for sub in ("harness", "engine"):
                dd = os.path.join(VERIF, sub)
                for fn in os.listdir(dd):
                    if fn.endswith((".hpp", ".cpp", ".h", ".inc")) and os.path.getmtime(os.path.join(dd, fn)) > t_out:
                        need = True
        if need:
            for c, s_, o_ in pre:
                rc, o = _run(c)
                if rc != 0:
                    raise BuildError("harness %s/%s (%s) failed:\n%s" % (variant, name, s_, o[-4000:]))
            rc, o = _run(cmd)
            if rc != 0:
                raise BuildError("harness %s/%s failed:\n%s\n%s" % (variant, name, shlex.join(cmd), o[-6000:]))
            open(sigf, "w").write(sig)
    return out


if __name__ == "__main__":
    for v in (sys.argv[1:] or list(VARIANTS)):
        ensure(v, quiet=False)
