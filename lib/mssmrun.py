"""Driver side of harness/mssm.cpp (C04, C06, C07): build, send cases, parse result lines."""
import subprocess

import numpy as np

import build
from core import InfraError, hexf

_exe = {}
_layout = {}

TREE_ORDER = ["g1", "g2", "g3", "vd", "vu", "Mu", "BMu", "M1", "M2", "M3", "mHd2", "mHu2",
              "mq2", "ml2", "mu2", "md2", "me2", "Yu", "Yd", "Ye", "TYu", "TYd", "TYe"]     # 12 scalars + 11 triples
OS_ORDER = ["tb", "Mu", "M1", "M2", "M3", "MA", "Q", "ml2", "me2", "mq2", "mu2", "md2", "Ae", "Ad", "Au",
            "force"]                                                                       # + 3 spare


def exe(variant="plain"):
    if variant not in _exe:
        _exe[variant] = build.harness("mssm", variant, ["mssm.cpp"])
    return _exe[variant]


def layout(variant="plain"):
    """{'T': [(name, offset, len)], 'O': [...]} column layout as printed by the harness itself"""
    if variant not in _layout:
        p = subprocess.run([exe(variant)], input="names\n", stdout=subprocess.PIPE, text=True, timeout=120)
        lay = {}
        for ln in p.stdout.split("\n"):
            tk = ln.split()
            if tk and tk[0] in ("NAMES_T", "NAMES_O"):
                off, cols = 0, {}
                for t in tk[1:]:
                    n, l = t.rsplit(":", 1)
                    cols[n] = (off, int(l))
                    off += int(l)
                cols["__n__"] = (off, 0)
                lay[tk[0][-1]] = cols
        if "T" not in lay or "O" not in lay:
            raise InfraError("mssm harness: no layout: " + p.stdout[:300])
        _layout[variant] = lay
    return _layout[variant]


def flat_tree(p):
    out = []
    for k in TREE_ORDER:
        v = p[k]
        out += list(v) if isinstance(v, (list, tuple)) else [v]
    assert len(out) == 45
    return out


def flat_os(p):
    out = []
    for k in OS_ORDER:
        v = p.get(k, 0.0)
        out += list(v) if isinstance(v, (list, tuple)) else [v]
    out += [float(p.get("mode", 0)), float(p.get("order", 0)), float(p.get("sm", 0))]      # spare[0..2]
    assert len(out) == 35
    return out


def _run(text, variant, timeout):
    p = subprocess.run([exe(variant)], input=text, stdout=subprocess.PIPE, stderr=subprocess.PIPE,
                       text=True, timeout=timeout)
    if p.returncode != 0:
        raise InfraError("mssm harness exit %d: %s" % (p.returncode, (p.stdout[-300:] + p.stderr[-300:])))
    return p.stdout


def _parse_tree(out, ncol, expect):
    """T lines -> (values ndarray, sigs, problems, gx) ; X lines (exception escaped) -> NaN row, problem 'X: ...'"""
    vals = np.full((expect, ncol), np.nan)
    sigs, probs, gx = [], [], []
    i = 0
    for ln in out.split("\n"):
        if ln.startswith("X "):
            if i >= expect:
                raise InfraError("mssm harness: more result lines than cases")
            sigs.append("-"); probs.append("X: " + ln[2:]); gx.append((0, "")); i += 1
            continue
        if not ln.startswith("T "):
            if ln.startswith("ERR"):
                raise InfraError("mssm harness: " + ln)
            continue
        if i >= expect:
            raise InfraError("mssm harness: more result lines than cases")
        a, prob, g = ln.split("|")
        tk = a.split()
        sigs.append(tk[1])
        if len(tk) - 2 != ncol:
            raise InfraError("mssm harness: %d columns, expected %d" % (len(tk) - 2, ncol))
        vals[i, :] = [_fh(t) for t in tk[2:]]
        probs.append(prob.strip())
        gt = g.split()
        gx.append((int(gt[1]), " ".join(gt[2:])))
        i += 1
    if i != expect:
        raise InfraError("mssm harness: %d results for %d cases" % (i, expect))
    return vals, sigs, probs, gx


def run_tree(points, variant="plain", timeout=900):
    """points: list of parameter dicts.  Returns (values ndarray N x ncol, sigs, problems, gx) ;
    gx: list of (n_mismatch, text)."""
    ncol = layout(variant)["T"]["__n__"][0]
    text = "tree %d\n" % len(points) + "\n".join(
        " ".join(hexf(x) for x in flat_tree(p)) for p in points) + "\n"
    return _parse_tree(_run(text, variant, timeout), ncol, len(points))


def run_spec(cases, variant="plain", timeout=900):
    """cases: list of (os point dict (keys order, sm: set-up order and SM input set), mode 0|1, [5 initial values
    or nan]).  Four result lines per case (fresh, fresh again, the second one called once more without setting
    anything, the first one with all inputs set again); returns the tuple of run_tree with 4 N rows (case-major)."""
    ncol = layout(variant)["T"]["__n__"][0]
    rows = []
    for p, mode, init in cases:
        f = flat_os(dict(p, mode=mode))
        rows.append(" ".join(hexf(x) if x == x else "nan" for x in f + list(init)))
    text = "spec %d\n" % len(cases) + "\n".join(rows) + "\n"
    return _parse_tree(_run(text, variant, timeout), ncol, 4 * len(cases))


def run_tsig(points, variant="cov", timeout=900):
    text = "tsig %d\n" % len(points) + "\n".join(
        " ".join(hexf(x) for x in flat_tree(p)) for p in points) + "\n"
    out = _run(text, variant, timeout)
    sigs = [ln.split()[1] for ln in out.split("\n") if ln.startswith("S ")]
    if len(sigs) != len(points):
        raise InfraError("mssm harness: %d signatures for %d cases" % (len(sigs), len(points)))
    return sigs


def _fh(t):
    try:
        return float.fromhex(t)
    except ValueError:
        return float("nan") if "nan" in t else (float("-inf") if t.startswith("-") else float("inf"))


def _parse_os(out, ncol, expect):
    res = []
    for ln in out.split("\n"):
        if not ln.startswith("O "):
            if ln.startswith("ERR"):
                raise InfraError("mssm harness: " + ln)
            continue
        tk = ln.split(None, 3)
        if tk[1] == "OK":
            v = np.array([_fh(t) for t in ln.split()[2:]])
            if len(v) != ncol:
                raise InfraError("mssm harness: %d columns, expected %d" % (len(v), ncol))
            res.append(("OK", v))
        else:
            res.append(("EXC", tk[2], tk[3] if len(tk) > 3 else ""))
    if len(res) != expect:
        raise InfraError("mssm harness: %d results, expected %d" % (len(res), expect))
    return res


def run_os(points, variant="plain", timeout=900):
    """Returns list: ('OK', ndarray) | ('EXC', class, what)"""
    ncol = layout(variant)["O"]["__n__"][0]
    text = "os %d\n" % len(points) + "\n".join(
        " ".join(hexf(x) for x in flat_os(p)) for p in points) + "\n"
    return _parse_os(_run(text, variant, timeout), ncol, len(points))


def run_os_cols(points, names, variant="plain", timeout=900):
    """like run_os, but the harness prints only the quantities `names`; returns (results, sub-layout) where the
    sub-layout maps name -> (offset, length) in the reduced vectors"""
    lay = layout(variant)["O"]
    idx, sub, off = [], {}, 0
    for n in names:
        o, l = lay[n]
        idx += list(range(o, o + l))
        sub[n] = (off, l)
        off += l
    sub["__n__"] = (off, 0)
    text = "select %d %s\nos %d\n" % (len(idx), " ".join(str(i) for i in idx), len(points)) + "\n".join(
        " ".join(hexf(x) for x in flat_os(p)) for p in points) + "\n"
    return _parse_os(_run(text, variant, timeout), off, len(points)), sub


def run_osf(families, mode, variant="plain", timeout=900):
    """families: list of (base point, [target points]) with equal numbers of targets.  The harness evaluates
    the base model and then (mode & 1) moves the same object through the targets one after the other and/or
    (mode & 2) moves a copy of the evaluated base model to every target, through the public setters +
    calculate_masses().  Returns per family {'chain': [results], 'copy': [results]} (results as in run_os)."""
    ncol = layout(variant)["O"]["__n__"][0]
    nk = len(families[0][1])
    assert all(len(t) == nk for _, t in families)
    nvar = (1 if mode & 1 else 0) + (1 if mode & 2 else 0)
    text = "osf %d %d %d\n" % (len(families), nk, mode) + "\n".join(
        " ".join(hexf(x) for x in flat_os(p)) for b, t in families for p in [b] + list(t)) + "\n"
    res = _parse_os(_run(text, variant, timeout), ncol, len(families) * nk * nvar)
    out, i = [], 0
    for _ in families:
        d = {}
        if mode & 1:
            d["chain"] = res[i:i + nk]; i += nk
        if mode & 2:
            d["copy"] = res[i:i + nk]; i += nk
        out.append(d)
    return out


def col(lay, name):
    off, n = lay[name]
    return slice(off, off + n)


# ---------------------------------------------------------------- on-shell base points (C06, C07)
# magnitudes taken from /repo/input/example.gm2, /repo/examples/example-gm2calc.cpp and the
# GM2CalcInput blocks of /repo/test/test_points/{BM1..BM4,P1a,P3}*.in (1504.05500 benchmark points,
# M. Bach's thesis points).  Those files have degenerate generations and A_f = 0; here the three
# generations get independent soft masses and every trilinear is non-zero, as the properties demand.
def _bm(mu, m1, m2, msl2, mse2, heavy3=False):
    # heavy3: third-generation soft masses at ~3 TeV so that mu = 15..30 TeV does not make the stop
    # (tan beta 1.5) or the stau/sbottom (tan beta 80) tachyonic
    l3, e3, q3, u3, d3 = (3000.0, 3300.0, 3100.0, 2900.0, 3200.0) if heavy3 else (1166.0, 1222.0, 1000.0, 900.0, 950.0)
    return dict(Mu=mu, M1=m1, M2=m2, M3=1111.0, MA=1111.0, Q=866.360379,
                msl=[1055.0, msl2, l3], mse=[1000.0, mse2, e3],
                msq=[1111.0, 1200.0, q3], msu=[1050.0, 1150.0, u3], msd=[1080.0, 1180.0, d3],
                Ae=[250.0, 300.0, 500.0], Ad=[400.0, 450.0, 1200.0], Au=[350.0, 380.0, 900.0])


BASE_POINTS = {
    "example.gm2": dict(Mu=619.858, M1=211.722, M2=401.057, M3=1103.00877, MA=707.025, Q=866.360379,
                        msl=[351.653258, 356.09, 350.674223], mse=[221.215037, 225.076, 218.022142],
                        msq=[1007.11403, 1007.11149, 929.083096], msu=[969.369660, 969.366965, 799.712943],
                        msd=[964.756473, 964.753818, 960.016201],
                        Ae=[150.0, 293.720212, 292.154796], Ad=[200.0, 250.0, 1283.30100], Au=[300.0, 350.0, 870.714986]),
    "example-gm2calc.cpp": dict(Mu=350.0, M1=150.0, M2=300.0, M3=1000.0, MA=1500.0, Q=454.7,
                                msl=[480.0, 500.0, 520.0], mse=[510.0, 500.0, 490.0], msq=[500.0, 520.0, 540.0],
                                msu=[505.0, 525.0, 545.0], msd=[495.0, 515.0, 535.0],
                                Ae=[100.0, 200.0, 300.0], Ad=[150.0, 250.0, 600.0], Au=[120.0, 220.0, 700.0]),
    "BM1": _bm(30000.0, 1000.0, 30000.0, 1000.0, 1000.0, heavy3=True),
    "BM2": _bm(15000.0, 1000.0, 1000.0, 1000.0, 1000.0, heavy3=True),
    "BM3": _bm(1000.0, 1000.0, 1000.0, 15000.0, 1000.0),
    "BM4": _bm(1000.0, 1000.0, 30000.0, 30000.0, 1000.0),
    "P1a": _bm(2000.0, 200.0, 8000.0, 200.0, 2000.0),
    "P3": _bm(2400.0, 400.0, 2400.0, 10000.0, 400.0),
}

SIGN_NAMES = ["Mu", "M1", "M2", "M3", "At", "Ab", "Atau", "Amu"]


def os_point(base, tb, signs, k=1.0, force=0.0, order=0, sm=0):
    """on-shell harness input: base point magnitudes, tan(beta), signs of (mu, M1, M2, M3, At, Ab, Atau, Amu)
    (first/second-generation A_u, A_d follow the sign of A_t, A_b; A_e(1,1) follows A_tau), every
    dimensionful SUSY parameter and the renormalisation scale multiplied by k"""
    b = BASE_POINTS[base]
    s = dict(zip(SIGN_NAMES, signs))
    sq = lambda xs: [(k * x) ** 2 for x in xs]
    return dict(tb=tb, Mu=s["Mu"] * k * b["Mu"], M1=s["M1"] * k * b["M1"], M2=s["M2"] * k * b["M2"],
                M3=s["M3"] * k * b["M3"], MA=k * b["MA"], Q=k * b["Q"],
                ml2=sq(b["msl"]), me2=sq(b["mse"]), mq2=sq(b["msq"]), mu2=sq(b["msu"]), md2=sq(b["msd"]),
                Ae=[s["Atau"] * k * b["Ae"][0], s["Amu"] * k * b["Ae"][1], s["Atau"] * k * b["Ae"][2]],
                Ad=[s["Ab"] * k * b["Ad"][0], s["Ab"] * k * b["Ad"][1], s["Ab"] * k * b["Ad"][2]],
                Au=[s["At"] * k * b["Au"][0], s["At"] * k * b["Au"][1], s["At"] * k * b["Au"][2]],
                force=force, order=order, sm=sm)       # order of the setter calls / SM input set, see setup_os() in harness/mssm.cpp


# ---------------------------------------------------------------- hierarchy base points (C06)
# The code paths select minima / sort their arguments (log_scale = min(|M1|,|M2|,|mu|,mse2,msl2), Iabc,
# Fa, Fb), so every ordering of (|mu|, |M1|, |M2|, m_smuonL, m_smuonR) must occur: the five masses
# below are assigned in all 120 permutations.  The third-generation sleptons follow the values given to
# M2 and mu (so that the stau / gaugino / higgsino orderings vary as well), and the gluino is lighter
# (g0) or heavier (g1) than all squarks.
HIER_VALUES = [300.0, 520.0, 900.0, 1500.0, 2600.0]
HIER_NAMES = ["Mu", "M1", "M2", "msl2", "mse2"]


def hierarchy_points():
    import itertools
    out = {}
    for perm in itertools.permutations(range(5)):
        val = dict(zip(HIER_NAMES, (HIER_VALUES[i] for i in perm)))
        order = "<".join(n for _, n in sorted((val[n], n) for n in HIER_NAMES))
        for g, m3 in ((0, 600.0), (1, 4000.0)):
            out["H:%s:g%d" % (order, g)] = dict(
                Mu=val["Mu"], M1=val["M1"], M2=val["M2"], M3=m3, MA=1000.0, Q=1000.0,
                msl=[700.0, val["msl2"], 1.1 * val["M2"]], mse=[1100.0, val["mse2"], 0.9 * val["Mu"]],
                msq=[1800.0, 1900.0, 1400.0], msu=[1750.0, 1850.0, 1200.0], msd=[1700.0, 1950.0, 1600.0],
                Ae=[250.0, 300.0, 500.0], Ad=[400.0, 450.0, 1200.0], Au=[350.0, 380.0, 900.0])
    return out


HIER_POINTS = hierarchy_points()
BENCH_POINTS = list(BASE_POINTS)            # the 8 benchmark-derived points (C06, C07)
BASE_POINTS.update(HIER_POINTS)


# ---------------------------------------------------------------- comparison of two result vectors (C06, C07)
TOL = 1e-9
# groups of quantities that are sums of the listed parts: a value that is small through cancellation is
# compared relative to the largest part as well (1e-13: double rounding of the parts)
GROUPS = {
    "1L": ["amu1L", "amu1L_nonres", "unc0L", "amu1LChi0", "amu1LChipm", "nr.amu1LChi0", "nr.amu1LChipm"],
    "2L": ["amu2L", "amu2L_nonres", "unc1L", "amu2LFSfapprox", "amu2LFSfapprox_nonres", "amu2LChipmPhotonic",
           "amu2LChi0Photonic", "amu2LaSferm", "amu2LaCha", "nr.amu2LFSfapprox", "nr.amu2LFSfapprox_nonres",
           "nr.amu2LChipmPhotonic", "nr.amu2LChi0Photonic", "nr.amu2LaSferm", "nr.amu2LaCha"],
    "1Lapprox": ["amu1Lapprox", "amu1Lapprox_nonres", "amu1LWHnu", "amu1LWHmuL", "amu1LBHmuL", "amu1LBHmuR", "amu1LBmuLmuR"],
    "2Lapprox": ["amu2LWHnu", "amu2LWHmuL", "amu2LBHmuL", "amu2LBHmuR", "amu2LBmuLmuR"],
}
SKIP = {"sig_lo", "par_Mu", "nr.par_Mu"} | {pre + "mix_" + x for pre in ("", "nr.") for x in ("Sm", "Stau", "Sb", "St")}
EPS = 2.0 ** -52
# quantities that carry a mass-eigenstate index -> sectors whose eigenvectors enter
H_DEPENDENT = {"amu2LaSferm", "amu2LaCha", "amu2L", "amu2L_nonres", "unc1L", "unc2L"}
HIGGS_MASSES = {"Mhh", "MAh", "MHpm", "pole_Mhh", "pole_MAh"}
STATE_INDEXED = {"AAN": ("Chi", "Sm"), "BBN": ("Chi", "Sm"), "AAC": ("Cha",), "BBC": ("Cha",),
                 "lambda_mu_cha": ("Cha",), "lambda_stop": ("St",), "lambda_sbot": ("Sb",), "lambda_stau": ("Stau",)}


def conditioning(lay, V):
    """||M||/gap per sector from the reported masses (mass matrices for fermions, squared for scalars);
    V: (npairs, ncol)"""
    out = {}
    for sct, name, sq in (("Chi", "MChi", False), ("Cha", "MCha", False), ("Sm", "MSm", True), ("St", "MSt", True),
                          ("Sb", "MSb", True), ("Stau", "MStau", True)):
        m = np.sort(V[:, col(lay, name)] ** (2 if sq else 1), axis=1)
        gap = np.diff(m, axis=1).min(axis=1)
        with np.errstate(all="ignore"):
            out[sct] = np.where(gap > 0, m.max(axis=1) / gap, np.inf)
    return out


def compare_block(lay, A, B, skip=()):
    """A, B: (npairs, ncol) result vectors of the points and of their complete flips.
    Returns (fails per pair: list of lists of (quantity, element index, x, y, rel), worst rel per quantity).
    Criterion |x-y| <= 1e-9 max(|x|,|y|) + floor, vectorised over the pairs."""
    npairs = A.shape[0]
    fails = [[] for _ in range(npairs)]
    worst = {}
    grp = {}
    groups = [[n for n in names if n in lay] for names in GROUPS.values()]
    groups += [["nr." + n for n in GROUPS[g] if "nr." + n in lay] for g in ("1Lapprox", "2Lapprox")]
    for names in groups:
        cols = [lay[n][0] for n in names]
        S = np.maximum(np.nanmax(np.abs(A[:, cols]), axis=1), np.nanmax(np.abs(B[:, cols]), axis=1))
        for n in names:
            grp[n] = S
    kap = conditioning(lay, A)
    if "Mhh" in lay and "amu2LaSferm" in lay:
        mh2 = np.nanmin(A[:, col(lay, "Mhh")], axis=1) ** 2
        s2la = np.maximum(np.abs(A[:, lay["amu2LaSferm"][0]]), np.abs(A[:, lay["amu2LaCha"][0]]))
    else:
        mh2, s2la = np.ones(npairs), np.zeros(npairs)
    hs = np.nanmax(A[:, col(lay, "MAh")], axis=1) ** 2 + A[:, lay["par_Mu"][0]] ** 2 if "MAh" in lay and "par_Mu" in lay else np.zeros(npairs)
    for n, (off, ln) in lay.items():
        if n in SKIP or n in skip or n == "__n__" or ln == 0:
            continue
        x, y = A[:, off:off + ln], B[:, off:off + ln]
        amax = np.maximum(np.abs(x).max(axis=1), np.abs(y).max(axis=1))
        if ln > 1:
            floor = 1e-13 * amax
        else:
            floor = 1e-13 * grp[n] if n in grp else np.zeros(npairs)
        # per-state couplings of nearly degenerate mass eigenstates are only defined up to
        # (rounding of the mass matrix)/(eigenvalue gap): 256 eps ||M||/gap of the sectors they are built from
        scts = STATE_INDEXED.get(n[3:] if n.startswith("nr.") else n, ())
        if scts:
            floor = floor + 256 * EPS * sum(kap[sct] for sct in scts) * amax
        den = np.maximum(np.abs(x), np.abs(y))
        diff = np.abs(x - y)
        floor = floor[:, None]
        if (n[3:] if n.startswith("nr.") else n) in HIGGS_MASSES:
            # Higgs / Goldstone squared masses are eigenvalues of matrices with entries ~ m_A^2 + mu^2 formed as
            # (mH^2 + mu^2): they are only defined to eps (m_A^2 + mu^2), i.e. the mass to that / (2 m)
            with np.errstate(all="ignore"):
                floor = floor + np.nan_to_num(np.where(den > 0, 128 * EPS * hs[:, None] / np.where(den > 0, den, 1.0), 0.0), nan=0.0, posinf=np.finfo(float).max)
        if (n[3:] if n.startswith("nr.") else n) in H_DEPENDENT:
            # the 2L(a) terms are functions of m_sf^2/m_h^2, m_cha^2/m_h^2: they inherit the relative uncertainty
            # eps (m_A^2 + mu^2)/m_h^2 of m_h^2 (times their own size), and so do the sums that contain them
            with np.errstate(all="ignore"):
                extra = np.where((s2la > 0) & (mh2 > 0), 128 * EPS * hs / np.where(mh2 > 0, mh2, 1.0) * s2la, 0.0)
            floor = floor + np.nan_to_num(extra, nan=0.0, posinf=np.finfo(float).max)[:, None]
        bad = ~(diff <= TOL * den + floor)          # NaN counts as failure
        with np.errstate(all="ignore"):
            rel = np.where(den > 0, diff / den, 0.0)
        worst[n] = float(np.nanmax(rel)) if np.isfinite(rel).any() else float("inf")
        if bad.any():
            for i, j in zip(*np.nonzero(bad)):
                fails[int(i)].append((n, int(j), float(x[i, j]), float(y[i, j]), float(rel[i, j])))
    return fails, worst


def compare(lay, a, b, skip=()):
    f, w = compare_block(lay, a[None, :], b[None, :], skip)
    return f[0], w


