"""Helpers shared by checks/c15.py and checks/c16.py: running gm2calc.x and the
cli_api harness, rendering parameter points to the three input formats, parsing
SLHA-like output and printed numbers.  Nothing here knows about expected values."""
import math
import os
import re
import shutil
import subprocess

import build
from core import InfraError, unhex

SCRATCH_ROOT = "/var/tmp/verif_c15c16"


def scratch(tag):
    d = os.path.join(SCRATCH_ROOT, "%s_%d" % (tag, os.getpid()))
    shutil.rmtree(d, ignore_errors=True)
    os.makedirs(d)
    return d


def harness_exe():
    return build.harness("cli_api", "plain", ["cli_api.cpp"])


OPT = {"slha": "--slha-input-file=", "gm2calc": "--gm2calc-input-file=", "thdm": "--thdm-input-file="}


def run_cli(cli, typ, path, timeout=20):
    """-> (returncode, stdout, stderr); returncode None on timeout."""
    try:
        p = subprocess.run([cli, OPT[typ] + path], stdout=subprocess.PIPE, stderr=subprocess.PIPE,
                           stdin=subprocess.DEVNULL, timeout=timeout)
    except subprocess.TimeoutExpired:
        return None, "", "TIMEOUT"
    return p.returncode, p.stdout.decode("latin-1"), p.stderr.decode("latin-1")


def unesc(s):
    if s == "-":
        return ""
    out, i = [], 0
    while i < len(s):
        c = s[i]
        if c == "\\" and i + 1 < len(s):
            n = s[i + 1]
            if n == "n":
                out.append("\n"); i += 2; continue
            if n == "s":
                out.append(" "); i += 2; continue
            if n == "\\":
                out.append("\\"); i += 2; continue
            if n == "x":
                out.append(chr(int(s[i + 2:i + 4], 16))); i += 4; continue
        out.append(c); i += 1
    return "".join(out)


def parse_kv(line):
    """'F 3 a=b c=d' -> dict (values raw strings)"""
    d = {}
    for tok in line.split()[2:]:
        k, _, v = tok.partition("=")
        d[k] = v
    return d


def run_harness(exe, mode, lines, tag, timeout=600):
    """one harness process for all `lines`; returns list of dicts (one per line)."""
    p = subprocess.run([exe, mode], input=("\n".join(lines) + "\n").encode(), stdout=subprocess.PIPE,
                       stderr=subprocess.DEVNULL, timeout=timeout)
    out = p.stdout.decode("latin-1").split("\n")
    res = [parse_kv(ln) for ln in out if ln[:2] == tag + " "]
    if p.returncode != 0 or len(res) != len(lines):
        return None, "exit %s, %d results for %d cases" % (p.returncode, len(res), len(lines))
    return res, None


def hval(s):
    """harness value token -> float | None (exception / not available)"""
    if not s or s.startswith("EXC") or s == "NA":
        return None
    return unhex(s)


# ----------------------------------------------------------------------------
# printed numbers
# ----------------------------------------------------------------------------
SCI = r"[-+]?(?:\d\.\d+[eE][-+]?\d{2,3}|nan|inf)"
SCI_RE = re.compile(r"(?<![\w.])" + SCI + r"(?![\w.])")


def pnum(s):
    """printed token -> float"""
    t = s.strip().lower()
    if t in ("nan", "-nan", "+nan"):
        return float("nan")
    return float(t)


def half_ulp(s):
    """half a unit in the last printed place of a printed scientific number"""
    t = s.strip().lower()
    if "nan" in t or "inf" in t:
        return 0.0
    mant, _, ex = t.partition("e")
    digits = len(mant.split(".")[1]) if "." in mant else 0
    return 0.5 * 10.0 ** (int(ex) - digits)


def ndigits(s):
    t = s.strip().lower()
    mant = t.partition("e")[0].lstrip("+-")
    return len(mant.replace(".", ""))


def agrees(printed, api):
    """the printed string is a correctly rounded decimal rendering of the double `api`"""
    v = pnum(printed)
    if api is None:
        return False
    if math.isnan(api) or math.isnan(v):
        return math.isnan(api) and math.isnan(v)
    if math.isinf(api) or math.isinf(v):
        return api == v
    return abs(v - api) <= half_ulp(printed) * (1 + 1e-6)


# ----------------------------------------------------------------------------
# SLHA-like text
# ----------------------------------------------------------------------------
HDR = re.compile(r"^\s*(block|decay)\b\s*([^\s#]*)", re.I)


def split_blocks(text):
    """-> list of [name_upper | None (preamble) , header_line, [body lines]] in file order"""
    blocks = [[None, None, []]]
    for ln in text.split("\n"):
        m = HDR.match(ln)
        if m:
            kind = m.group(1).upper()
            blocks.append([(m.group(2).upper() if kind == "BLOCK" else "DECAY:" + m.group(2)), ln, []])
        else:
            blocks[-1][2].append(ln)
    return blocks


def data_tokens(ln):
    return ln.split("#", 1)[0].split()


def block_entries(text, name):
    """all data lines (token lists) of all blocks called `name` (case-insensitive), later ones last"""
    out = []
    for nm, _, body in split_blocks(text):
        if nm == name.upper():
            for ln in body:
                tk = data_tokens(ln)
                if tk:
                    out.append(tk)
    return out


def entry(text, name, key):
    """value token of the last entry `key` in block `name`, or None"""
    v = None
    for tk in block_entries(text, name):
        if len(tk) >= 2 and tk[0] == str(key):
            v = tk[1]
    return v


def entries_all(text, name, key):
    """value tokens of EVERY data line with first token `key` in every block called `name`, in file order"""
    return [tk[1] for tk in block_entries(text, name) if len(tk) >= 2 and tk[0] == str(key)]


def _is_int(t):
    try:
        int(t)
        return True
    except ValueError:
        return False


def key_counts(text):
    """{(BLOCK, key tuple): number of data lines}; the key of a data line is its run of leading integer
    tokens (without the last token if the whole line is integers: that one is the value); lines that do
    not start with an integer (decay tables, text) have no key and are not counted"""
    cnt = {}
    for nm, hdr, body in split_blocks(text):
        if nm is None or nm.startswith("DECAY:"):
            continue
        for ln in body:
            tk = data_tokens(ln)
            k = []
            for t in tk:
                if _is_int(t):
                    k.append(t)
                else:
                    break
            if len(k) == len(tk) and len(k) > 1:
                k = k[:-1]
            if k:
                cnt[(nm, tuple(k))] = cnt.get((nm, tuple(k)), 0) + 1
    return cnt


def strip_config(text):
    """remove every GM2CalcConfig block (header and body up to the next block header)"""
    out, skip = [], False
    for ln in text.split("\n"):
        m = HDR.match(ln)
        if m:
            skip = m.group(1).upper() == "BLOCK" and m.group(2).upper() == "GM2CALCCONFIG"
        if not skip:
            out.append(ln)
    t = "\n".join(out)
    if not t.endswith("\n"):
        t += "\n"
    return t


def config_block(c):
    fmt, loop, resum, force, verbose, unc, run = c
    return ("Block GM2CalcConfig\n"
            "     0     %d     # output format\n"
            "     1     %d     # loop order\n"
            "     2     %d     # tan(beta) resummation\n"
            "     3     %d     # force output\n"
            "     4     %d     # verbose output\n"
            "     5     %d     # calculate uncertainty\n"
            "     6     %d     # running couplings\n" % (fmt, loop, resum, force, verbose, unc, run))


# ----------------------------------------------------------------------------
# parameter points -> input files / harness arguments
# ----------------------------------------------------------------------------
def r(x):
    """decimal text that strtod / stod read back to the same double"""
    if isinstance(x, int):
        return str(x)
    if math.isinf(x):
        return "inf" if x > 0 else "-inf"
    return repr(float(x))


SOFT = [("msl", "ml2", 31, 9), ("mse", "me2", 34, 12), ("msq", "mq2", 41, 15),
        ("msu", "mu2", 44, 18), ("msd", "md2", 47, 21)]   # name, API name, MSOFT key0, GM2CalcInput key0

MSSM_COMMON = dict(alpha_MZ=0.00775531, alpha_0=0.00729735, alpha_s=0.1184, MZ=91.1876, MB=4.18,
                   MT=173.34, ML=1.777, MW=80.385, MM=0.1056583715)


def mssm_point(**kw):
    p = dict(MSSM_COMMON)
    p.update(kw)
    return p


def mssm_api_args(p):
    """key=value list for the cli_api c16 MSSM entries (soft masses squared, sign kept)"""
    a = {}
    for k, v in p.items():
        done = False
        for nm, api, _, _ in SOFT:
            if k.startswith(nm + "_"):
                a[api + k[len(nm):]] = v * abs(v)
                done = True
        if not done:
            a[k] = v
    return " ".join("%s=%s" % (k, r(float(v))) for k, v in sorted(a.items()))


def render_slha(p, extra=""):
    L = ["Block SMINPUTS",
         "     3   %s   # alpha_s(MZ)" % r(p["alpha_s"]),
         "     4   %s   # MZ(pole)" % r(p["MZ"]),
         "     5   %s   # mb(mb)" % r(p["MB"]),
         "     6   %s   # mtop(pole)" % r(p["MT"]),
         "     7   %s   # mtau(pole)" % r(p["ML"]),
         "     9   %s   # MW(pole)" % r(p["MW"]),
         "    13   %s   # mmuon(pole)" % r(p["MM"]),
         "Block GM2CalcInput",
         "     1   %s   # alpha(MZ)" % r(p["alpha_MZ"]),
         "     2   %s   # alpha(0)" % r(p["alpha_0"]),
         "Block MASS",
         "        36   %s   # A0" % r(p["MA"])]
    for k, pdg in (("MChi_1", 1000022), ("MChi_2", 1000023), ("MCha_1", 1000024), ("MChi_3", 1000025),
                   ("MChi_4", 1000035), ("MCha_2", 1000037), ("MSm_2", 1000013), ("MSvmL", 1000014),
                   ("MSm_1", 2000013)):
        if p.get(k, 0.0) != 0.0:
            L.append("   %d   %s" % (pdg, r(p[k])))
    q = r(p["scale"])
    L += ["Block HMIX Q= %s" % q,
          "     1   %s   # mu" % r(p["Mu"]),
          "     2   %s   # tan(beta)" % r(p["TB"]),
          "Block MSOFT Q= %s" % q,
          "     1   %s   # M1" % r(p["M1"]),
          "     2   %s   # M2" % r(p["M2"]),
          "     3   %s   # M3" % r(p["M3"])]
    for nm, _, k0, _ in SOFT:
        for g in range(3):
            L.append("    %d   %s   # %s(%d)" % (k0 + g, r(p["%s_%d" % (nm, g + 1)]), nm, g + 1))
    L += ["Block AU Q= %s" % q, "  3  3   %s   # At" % r(p["Au_3"]),
          "Block AD Q= %s" % q, "  3  3   %s   # Ab" % r(p["Ad_3"]),
          "Block AE Q= %s" % q, "  2  2   %s   # Amu" % r(p["Ae_2"]), "  3  3   %s   # Atau" % r(p["Ae_3"])]
    return "\n".join(L) + "\n" + extra


def render_gm2(p, extra=""):
    L = ["Block GM2CalcInput",
         "     0   %s   # Q" % r(p["scale"]),
         "     1   %s   # alpha(MZ)" % r(p["alpha_MZ"]),
         "     2   %s   # alpha(0)" % r(p["alpha_0"]),
         "     3   %s   # tan(beta)" % r(p["TB"]),
         "     4   %s   # mu" % r(p["Mu"]),
         "     5   %s   # M1" % r(p["M1"]),
         "     6   %s   # M2" % r(p["M2"]),
         "     7   %s   # M3" % r(p["M3"]),
         "     8   %s   # MA" % r(p["MA"])]
    for nm, _, _, k0 in SOFT:
        for g in range(3):
            L.append("    %d   %s   # %s(%d)" % (k0 + g, r(p["%s_%d" % (nm, g + 1)]), nm, g + 1))
    L += ["    25   %s   # Ae(2,2)" % r(p["Ae_2"]), "    26   %s   # Ae(3,3)" % r(p["Ae_3"]),
          "    29   %s   # Ad(3,3)" % r(p["Ad_3"]), "    32   %s   # Au(3,3)" % r(p["Au_3"]),
          "Block SMINPUTS",
          "     3   %s   # alpha_s(MZ)" % r(p["alpha_s"]),
          "     4   %s   # MZ(pole)" % r(p["MZ"]),
          "     5   %s   # mb(mb)" % r(p["MB"]),
          "     6   %s   # mtop(pole)" % r(p["MT"]),
          "     7   %s   # mtau(pole)" % r(p["ML"]),
          "     9   %s   # MW(pole)" % r(p["MW"]),
          "    13   %s   # mmuon(pole)" % r(p["MM"])]
    return "\n".join(L) + "\n" + extra


THDM_SM = dict(alpha_em_mz_inv=128.94579, alpha_s=0.1184, MZ=91.1876, MW=80.385, mhSM=125.09,
               MT=173.34, MC=1.28, MB=4.18, ML=1.77684, MM=0.1056583715)
MATS = [("Delta_u", "GM2CalcTHDMDeltauInput"), ("Delta_d", "GM2CalcTHDMDeltadInput"),
        ("Delta_l", "GM2CalcTHDMDeltalInput"), ("Pi_u", "GM2CalcTHDMPiuInput"),
        ("Pi_d", "GM2CalcTHDMPidInput"), ("Pi_l", "GM2CalcTHDMPilInput")]


def thdm_point(**kw):
    p = dict(THDM_SM)
    p.update(kw)
    return p


def thdm_api_args(p):
    return " ".join("%s=%s" % (k, r(float(v))) for k, v in sorted(p.items()) if not k.startswith("_"))


def render_thdm(p, extra=""):
    """mass-basis keys (mh, mH, mA, mHp, sba) and gauge-basis keys (lambda_1..5) are written
    whenever present in p, so a point carrying both renders the contradictory file"""
    L = ["Block SMINPUTS",
         "     1   %s   # alpha_em(MZ)^-1" % r(p["alpha_em_mz_inv"]),
         "     3   %s   # alpha_s(MZ)" % r(p["alpha_s"]),
         "     4   %s   # MZ" % r(p["MZ"]),
         "     5   %s   # mb(mb)" % r(p["MB"]),
         "     6   %s   # mt" % r(p["MT"]),
         "     7   %s   # mtau" % r(p["ML"]),
         "     9   %s   # MW" % r(p["MW"]),
         "    13   %s   # mmu" % r(p["MM"]),
         "    24   %s   # mc" % r(p["MC"]),
         "Block GM2CalcInput",
         "    33   %s   # mhSM" % r(p["mhSM"]),
         "Block MINPAR",
         "     3   %s   # tan(beta)" % r(p["tan_beta"])]
    for i in range(1, 8):
        if "lambda_%d" % i in p:
            L.append("    %d   %s   # lambda_%d" % (10 + i, r(p["lambda_%d" % i]), i))
    L.append("    18   %s   # m12^2" % r(p["m122"]))
    if "sba" in p:
        L.append("    20   %s   # sin(beta-alpha)" % r(p["sba"]))
    for k, key in (("zeta_u", 21), ("zeta_d", 22), ("zeta_l", 23)):
        L.append("    %d   %s   # %s" % (key, r(p.get(k, 0.0)), k))
    L.append("    24   %s   # Yukawa type" % r(p["yukawa_type"]))
    ms = [(k, pdg) for k, pdg in (("mh", 25), ("mH", 35), ("mA", 36), ("mHp", 37)) if k in p]
    if ms:
        L.append("Block MASS")
        for k, pdg in ms:
            L.append("    %d   %s   # %s" % (pdg, r(p[k]), k))
    for nm, blk in MATS:
        ent = [(i, k, p["%s_%d%d" % (nm, i, k)]) for i in (1, 2, 3) for k in (1, 2, 3) if "%s_%d%d" % (nm, i, k) in p]
        if ent:
            L.append("Block " + blk)
            for i, k, v in ent:
                L.append("    %d %d   %s" % (i, k, r(v)))
    return "\n".join(L) + "\n" + extra


# ----------------------------------------------------------------------------
# valid base points (established as valid at run time by the checks)
# ----------------------------------------------------------------------------
def _soft(msl, mse, msq, msu, msd):
    d = {}
    for nm, vals in (("msl", msl), ("mse", mse), ("msq", msq), ("msu", msu), ("msd", msd)):
        for g in range(3):
            d["%s_%d" % (nm, g + 1)] = float(vals[g])
    return d


def slha_points():
    """SLHA (DR-bar + pole masses) points; a vanishing pole mass means 'use the tree-level mass'"""
    S1 = mssm_point(scale=1000.0, Mu=489.499929, TB=39.3371545, M1=200.0, M2=400.0, M3=2000.0, MA=1500.0,
                    MChi_1=201.611468, MChi_2=410.040273, MChi_3=-516.529941, MChi_4=545.628749,
                    MCha_1=409.98989, MCha_2=546.05719, MSm_1=505.095249, MSm_2=525.187016, MSvmL=518.860573,
                    Au_3=1.57871614e-05, Ad_3=8.99561673e-06, Ae_2=2.84230475e-06, Ae_3=3.02719242e-06,
                    **_soft((500, 500, 3000), (499.999999, 499.999999, 3000), (7000, 7000, 6999.99999),
                            (7000, 7000, 6999.99999), (7000, 7000, 7000)))
    S2 = mssm_point(scale=800.0, Mu=350.0, TB=10.0, M1=150.0, M2=300.0, M3=1500.0, MA=1200.0,
                    Au_3=-1000.0, Ad_3=-500.0, Ae_2=-200.0, Ae_3=-300.0,
                    **_soft((420, 430, 440), (380, 390, 400), (1500, 1500, 1400), (1450, 1450, 1300), (1480, 1480, 1470)))
    S3 = mssm_point(scale=1500.0, Mu=-700.0, TB=25.0, M1=250.0, M2=500.0, M3=2500.0, MA=2000.0,
                    Au_3=1500.0, Ad_3=0.0, Ae_2=100.0, Ae_3=0.0,
                    **_soft((600, 650, 900), (550, 560, 800), (2500, 2500, 2300), (2450, 2450, 2200), (2480, 2480, 2470)))
    return [("S1", S1), ("S2", S2), ("S3", S3)]


def gm2_points():
    G1 = mssm_point(scale=866.360379, alpha_MZ=0.00775531, TB=10.0, Mu=619.858, M1=211.722, M2=401.057,
                    M3=1103.00877, MA=707.025, Ae_2=-293.720212, Ae_3=-292.154796, Ad_3=-1283.301, Au_3=-870.714986,
                    **_soft((351.653258, 356.09, 350.674223), (221.215037, 225.076, 218.022142),
                            (1007.11403, 1007.11149, 929.083096), (969.36966, 969.366965, 799.712943),
                            (964.756473, 964.753818, 960.016201)))
    G2 = mssm_point(scale=454.7, TB=10.0, Mu=350.0, M1=150.0, M2=300.0, M3=1000.0, MA=1500.0,
                    Ae_2=0.0, Ae_3=0.0, Ad_3=0.0, Au_3=0.0,
                    **_soft((500,) * 3, (500,) * 3, (500,) * 3, (500,) * 3, (500,) * 3))
    G3 = mssm_point(scale=1000.0, TB=40.0, Mu=-800.0, M1=300.0, M2=-600.0, M3=2500.0, MA=2000.0,
                    Ae_2=50.0, Ae_3=-100.0, Ad_3=500.0, Au_3=-2000.0,
                    **_soft((700, 720, 1500), (650, 640, 1400), (3000, 3000, 2800), (2900, 2900, 2500), (2950, 2950, 2900)))
    return [("G1", G1), ("G2", G2), ("G3", G3)]


def thdm_mass_points():
    M1 = thdm_point(yukawa_type=2, mh=125.0, mH=400.0, mA=420.0, mHp=440.0, sba=0.995, lambda_6=0.2, lambda_7=0.1,
                    tan_beta=3.0, m122=40000.0)
    M2 = thdm_point(yukawa_type=3, mh=125.0, mH=300.0, mA=200.0, mHp=250.0, sba=0.999, lambda_6=0.0, lambda_7=0.0,
                    tan_beta=20.0, m122=4480.0)
    M3 = thdm_point(yukawa_type=5, mh=125.0, mH=150.0, mA=80.0, mHp=200.0, sba=1.0, lambda_6=0.0, lambda_7=0.0,
                    tan_beta=2.0, m122=9000.0, zeta_u=0.3, zeta_d=-0.5, zeta_l=-40.0)
    return [("M1", M1), ("M2", M2), ("M3", M3)]


def thdm_gauge_points():
    Q1 = thdm_point(yukawa_type=2, lambda_1=0.7, lambda_2=0.6, lambda_3=0.5, lambda_4=0.4, lambda_5=0.3,
                    lambda_6=0.2, lambda_7=0.1, tan_beta=3.0, m122=40000.0)
    Q2 = thdm_point(yukawa_type=1, lambda_1=0.3, lambda_2=0.26, lambda_3=2.0, lambda_4=-1.0, lambda_5=-0.5,
                    lambda_6=0.0, lambda_7=0.0, tan_beta=10.0, m122=10000.0)
    Q3 = thdm_point(yukawa_type=4, lambda_1=1.0, lambda_2=0.3, lambda_3=1.5, lambda_4=-0.5, lambda_5=-1.0,
                    lambda_6=0.1, lambda_7=-0.1, tan_beta=2.0, m122=20000.0)
    return [("Q1", Q1), ("Q2", Q2), ("Q3", Q3)]
