"""Driver side of harness/thdm.cpp (properties C08, C09, C10): case description ->
command line, chunked execution, result parsing, deviation-bounded products."""
import itertools
import math
import subprocess

import build
from core import InfraError, hexf, unhex

_exe = {}

# ---- S block layout (harness/thdm.cpp block_S) --------------------------------------
S_LEN, A_LEN, T_LEN, Y_LEN = 96, 4, 17, 216
MHH0, MHH1, MAH0, MAH1, MHM0, MHM1, SBA, CBA, TB = range(9)
LAM = slice(9, 16)
M122, MW, MZ = 16, 17, 18
MFU, MFD, MFE, MFV = slice(19, 22), slice(22, 25), slice(25, 28), slice(28, 31)
ALPHA_H, BETA, V = 31, 32, 33
ZA00, ZA01, ZP00, ZP01 = 34, 35, 36, 37
VREC = slice(38, 56)
SM_MW, SM_MZ = 56, 57
SM_MU, SM_MD, SM_ML = slice(58, 61), slice(61, 64), slice(64, 67)
SM_CKM = slice(67, 85)
SM_V, SM_MH = 85, 86
ZETA = slice(87, 90)
MVG, MVP = 90, 91
SM_AEM, SM_AS, ALPHA_EM = 92, 93, 94
PROBLEM = 95
YNAMES = ["yuh", "yuH", "yuA", "yuHp", "ydh", "ydH", "ydA", "ydHp", "ylh", "ylH", "ylA", "ylHp"]
TYPES = {1: "I", 2: "II", 3: "X", 4: "Y", 5: "aligned", 6: "general"}

# ---- 3x3 real matrix alphabet for Delta_f / Pi_f (entries in [-1,1]) -----------------
MATS = {
    "0": None,
    "e12": [0, 1, 0, 0, 0, 0, 0, 0, 0],            # single off-diagonal entry
    "m22": [0, 0, 0, 0, -0.1, 0, 0, 0, 0],          # single diagonal entry (muon / 2nd generation)
    "e31": [0, 0, 0, 0, 0, 0, -1, 0, 0],
    "dense": [0.1, -0.2, 0.3, -0.4, 0.5, 0.6, 0.7, -0.8, -0.9],
}
MAT_NAMES = ["0", "e12", "m22", "e31", "dense"]


def exe():
    if "plain" not in _exe:
        _exe["plain"] = build.harness("thdm", "plain", ["thdm.cpp"])
        p = subprocess.run([_exe["plain"]], input="hello\n", stdout=subprocess.PIPE, text=True, timeout=60)
        if "THDM-HARNESS 7 S96 A4 T17 Y216 X48 P46" not in p.stdout:
            raise InfraError("thdm harness: unexpected hello: %r" % p.stdout[:200])
        check_accessors(_exe["plain"])
    return _exe["plain"]


# ---- X block layout (harness/thdm.cpp block_X) -------------------------------------------
X_ARR = {"Mhh": (slice(0, 2), (0, 1)), "MAh": (slice(2, 4), (2, 3)), "MHm": (slice(4, 6), (4, 5)),
         "MFu": (slice(6, 9), (19, 20, 21)), "MFd": (slice(9, 12), (22, 23, 24)), "MFe": (slice(12, 15), (25, 26, 27)),
         "MFv": (slice(15, 18), (28, 29, 30))}          # name -> (slice in X, indices of the indexed getter in S)
X_VSQR, X_SINB, X_COSB, X_ETA, X_L5, X_L67, X_V1, X_V2, X_G1, X_G2, X_G3, X_M112, X_M222, X_EW1, X_EW2 = range(18, 33)
X_OVL = ["ZH", "ZA", "ZP", "Vd", "Ud", "Vu", "Uu", "Ve", "Ue", "Gamma_u", "Gamma_d", "Gamma_l", "Pi_u", "Pi_d", "Pi_l"]   # 33..47
P_MISSING = 45     # P block: 45 printed values + number of labels not found


def declared_accessors(repo=None):
    """(name/arity) of every get_* member function declared in a public section of the THDM headers"""
    import os
    import re
    inc = os.path.join(repo or build.REPO, "include", "gm2calc")
    found = set()
    for hdr in ("THDM.hpp", "THDM_mass_eigenstates.hpp", "THDM_parameters.hpp"):
        access, depth = None, 0
        for ln in open(os.path.join(inc, hdr)):
            code = ln.split("//")[0]
            m = re.match(r"\s*(class|struct)\s+\w+[^;]*$", code)
            if m and depth <= 1:
                access = "private" if m.group(1) == "class" else "public"
            m = re.match(r"\s*(public|protected|private)\s*:", code)
            if m:
                access = m.group(1)
            if access == "public" and "using" not in code:
                for fm in re.finditer(r"\b(get_\w+)\s*\(([^)]*)\)", code):
                    args = fm.group(2).strip()
                    found.add("%s/%d" % (fm.group(1), 0 if not args else args.count(",") + 1))
            depth += code.count("{") - code.count("}")
    return found


def check_accessors(executable):
    """every declared public accessor must be read by the harness (so that a new one cannot be forgotten)"""
    p = subprocess.run([executable], input="accessors\n", stdout=subprocess.PIPE, text=True, timeout=60)
    read = set(ln.split()[1] for ln in p.stdout.split("\n") if ln.startswith("ACC "))
    decl = declared_accessors()
    if len(decl) < 60:
        raise InfraError("accessor enumeration of the THDM headers found only %d get_* declarations" % len(decl))
    missing = sorted(decl - read)
    if missing:
        raise InfraError("public accessor(s) declared in the THDM headers but not read by harness/thdm.cpp: %s" % ", ".join(missing))
    return len(decl)


def mat_token(m):
    if m is None:
        return "0"
    if isinstance(m, str):
        m = MATS[m]
        if m is None:
            return "0"
    return ",".join(hexf(x) for x in m)


SM_KEYS = ["mw", "mz", "aem", "ae0", "as", "mu0", "mu1", "mu2", "md0", "md1", "md2", "ml0", "ml1", "ml2"]
# SM input alphabet: None = gm2calc::SM default, 1-2 alternates per parameter (mw < mz, mass ordering kept)
SM_ALPHA = {
    "mw": [None, 80.4335, 78.5], "mz": [None, 91.05, 93.0],
    "aem": [None, 1.0 / 128.94579, 1.0 / 127.0], "as": [None, 0.1, 0.13],
    "mu0": [None, 0.003], "mu1": [None, 1.4], "mu2": [None, 165.0, 180.0],
    "md0": [None, 0.006], "md1": [None, 0.11], "md2": [None, 4.5],
    "ml0": [None, 0.0006], "ml1": [None, 0.12], "ml2": [None, 1.9],
    "mhsm": [None, 100.0, 150.0],
}
SM_DIMS = ["mw", "mz", "aem", "as", "mu0", "mu1", "mu2", "md0", "md1", "md2", "ml0", "ml1", "ml2", "mhsm"]
SM_BASE = {k: None for k in SM_DIMS}
# one complete alternate SM input set (every parameter differs from the default)
SM_ALT = {"mw": 80.4335, "mz": 91.05, "aem": 1.0 / 128.94579, "as": 0.13, "mu0": 0.003, "mu1": 1.4, "mu2": 165.0,
          "md0": 0.006, "md1": 0.11, "md2": 4.5, "ml0": 0.0006, "ml1": 0.12, "ml2": 1.9}


def sm_from(a):
    """SM override dict from an assignment that contains (some of) the SM_DIMS"""
    return {k: a[k] for k in SM_KEYS if a.get(k) is not None}


def case(basis, p, ytype=2, run=1, ckm=1, mhsm="-", z=(0.0, 0.0, 0.0),
         D=(None, None, None), P=(None, None, None), sm=None, force=0, post=()):
    """canonical, JSON-able case description; sm: dict of SM input overrides (keys SM_KEYS);
    run / force: thdm::Config::running_couplings / force_output;
    post: arguments of the set_tan_beta calls applied to the object after construction"""
    if mhsm is None:
        mhsm = "-"
    return {"basis": basis, "p": [float(x) for x in p], "ytype": int(ytype), "run": int(run),
            "ckm": int(ckm), "mhsm": mhsm if isinstance(mhsm, str) else hexf(mhsm),
            "z": [float(x) for x in z], "D": list(D), "P": list(P),
            "sm": {k: float(v) for k, v in sorted((sm or {}).items())}, "force": int(force), "post": [float(x) for x in post]}


def sm_token(sm):
    if not sm:
        return "-"
    return ",".join("%s=%s" % (k, hexf(sm[k])) for k in SM_KEYS if k in sm)


def line(cid, c, ops):
    return " ".join([str(cid), c["basis"], str(c["ytype"]), str(c["run"] + 2 * c.get("force", 0)), str(c["ckm"]), c["mhsm"], sm_token(c.get("sm"))]
                    + [hexf(x) for x in c["p"]] + [hexf(x) for x in c["z"]]
                    + [mat_token(m) for m in c["D"]] + [mat_token(m) for m in c["P"]]
                    + [ops + ("@" + ",".join(hexf(x) for x in c["post"]) if c.get("post") else "")])


class Res:
    __slots__ = ("id", "exc", "S", "A", "T", "Y", "X", "P", "raw")

    def __init__(self):
        self.id = None; self.exc = None; self.S = self.A = self.T = self.Y = self.X = self.P = None; self.raw = {}


def run_lines(lines, executable=None, timeout=3000):
    """run one harness process over the given command lines; returns list of Res (same order)"""
    executable = executable or exe()
    p = subprocess.run([executable], input="\n".join(lines) + "\n", stdout=subprocess.PIPE,
                       stderr=subprocess.PIPE, text=True, timeout=timeout)
    if p.returncode != 0:
        raise InfraError("thdm harness exit %d: %s %s" % (p.returncode, p.stdout[-400:], p.stderr[-400:]))
    out = []
    end = None
    for ln in p.stdout.split("\n"):
        if not ln:
            continue
        tk = ln.split(" ")
        if tk[0] == "R":
            r = Res()
            r.id = tk[1]
            if tk[2] == "EXC":
                r.exc = (tk[3], " ".join(tk[4:]))
            else:
                i = 3
                while i < len(tk):
                    tag, n = tk[i], int(tk[i + 1])
                    vals = tk[i + 2:i + 2 + n]
                    if len(vals) != n:
                        raise InfraError("thdm harness: short block in " + ln[:200])
                    r.raw[tag] = " ".join(vals)
                    setattr(r, tag, [unhex(v) for v in vals])
                    i += 2 + n
            out.append(r)
        elif tk[0] == "END":
            end = tk
        else:
            raise InfraError("thdm harness: " + ln[:400])
    if end is None or int(end[1]) != len(lines) or len(out) != len(lines):
        raise InfraError("thdm harness: %d results for %d commands" % (len(out), len(lines)))
    return out


def run_cases(cases, ops, executable=None):
    """cases: list of case dicts; returns list of Res"""
    return run_lines([line(i, c, ops if isinstance(ops, str) else ops[i]) for i, c in enumerate(cases)], executable)


def chunks(seq, n):
    return [seq[i:i + n] for i in range(0, len(seq), n)]


def strided_chunks(seq, n):
    """chunks of about n elements taken with a stride over the whole sequence, so that every chunk
    (= one harness process) mixes all parts of a lattice, in particular different SM inputs"""
    k = max(1, (len(seq) + n - 1) // n)
    # prime stride: a periodic pattern in the sequence (e.g. SM input sets alternating with period 2 or 3)
    # must not be in phase with the stride, or every chunk would see one phase only
    while k > 1 and any(k % q == 0 for q in range(2, int(k ** 0.5) + 1)):
        k += 1
    return [seq[i::k] for i in range(k)]


def history_mismatches(cases, ops, res):
    """re-run the cases in reversed order in a fresh harness process and compare bitwise (hex text):
    the result of a case must not depend on what was constructed before it in the same process.
    returns list of (index, what)"""
    rev = run_lines([line(i, c, ops if isinstance(ops, str) else ops[i]) for i, c in enumerate(cases)][::-1])[::-1]
    bad = []
    for i, (a, b) in enumerate(zip(res, rev)):
        if (a.exc or None) != (b.exc or None):
            bad.append((i, "outcome %r vs %r" % (a.exc, b.exc)))
        elif not a.exc:
            for blk in sorted(a.raw):
                if a.raw[blk] != b.raw.get(blk):
                    va, vb = getattr(a, blk), getattr(b, blk)
                    idx = [j for j in range(len(va)) if va[j].hex() != vb[j].hex()][:4] if len(va) == len(vb) else []
                    bad.append((i, "block %s positions %s: %r (forward order) vs %r (reversed order)"
                                % (blk, idx, [va[j] for j in idx], [vb[j] for j in idx])))
                    break
    return bad


# ---- enumerators ----------------------------------------------------------------------
def devprod(dims, base, alphabet, dmax):
    """Deviation-bounded product: all assignments that differ from `base` in at most dmax
    dimensions, each deviating dimension running over its alphabet minus the base value.
    Deterministic order (fewest deviations first).  Yields (assignment dict, deviating dims)."""
    alts = {d: [v for v in alphabet[d] if v != base[d]] for d in dims}
    for k in range(0, dmax + 1):
        for combo in itertools.combinations(dims, k):
            for vals in itertools.product(*[alts[d] for d in combo]):
                a = dict(base)
                for d, v in zip(combo, vals):
                    a[d] = v
                yield a, combo


def devprod_size(dims, base, alphabet, dmax):
    n = [len([v for v in alphabet[d] if v != base[d]]) for d in dims]
    tot = 0
    for k in range(0, dmax + 1):
        for combo in itertools.combinations(range(len(dims)), k):
            t = 1
            for i in combo:
                t *= n[i]
            tot += t
    return tot


def cmat(vals):
    """18 doubles (re,im row-major) -> 3x3 list of complex"""
    return [[complex(vals[2 * (3 * i + j)], vals[2 * (3 * i + j) + 1]) for j in range(3)] for i in range(3)]


def jarlskog(V):
    return (V[0][0] * V[1][1] * V[0][1].conjugate() * V[1][0].conjugate()).imag


def sm_inputs(ckm=1, sm=None):
    """SM input values as the harness' SM object reports them (masses, v, CKM) for an override set"""
    c = case("M", [125.0, 400.0, 420.0, 440.0, 0.999, 0.0, 0.0, 3.0, 40000.0], ckm=ckm, sm=sm)
    r, = run_cases([c], "S")
    if r.exc:
        raise InfraError("sm_inputs: reference point threw %r" % (r.exc,))
    S = r.S
    return {"mw": S[SM_MW], "mz": S[SM_MZ], "mu": S[SM_MU], "md": S[SM_MD], "ml": S[SM_ML],
            "v": S[SM_V], "mh": S[SM_MH], "ckm": cmat(S[SM_CKM]), "aem": S[SM_AEM], "as": S[SM_AS]}


def pi_from_aligned(zeta, Delta, masses, tb, v):
    """Pi_f = cos(beta) (sqrt(2) M_f (zeta_f + tan(beta))/v + Delta_f), row-major 9-list"""
    cb = 1.0 / math.sqrt(1.0 + tb * tb)
    D = Delta if Delta is not None else [0.0] * 9
    if isinstance(D, str):
        D = MATS[D] or [0.0] * 9
    out = []
    for i in range(3):
        for j in range(3):
            x = D[3 * i + j]
            if i == j:
                x = math.sqrt(2.0) * masses[i] * (zeta + tb) / v + x
            out.append(cb * x)
    return out
