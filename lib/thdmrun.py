"""Driver side of harness/thdm.cpp (properties C08, C09, C10): case description ->
command line, chunked execution, result parsing, deviation-bounded products."""
import itertools
import math
import subprocess

import build
from core import InfraError, hexf, unhex

_exe = {}

# ---- S block layout (harness/thdm.cpp block_S) --------------------------------------
S_LEN, A_LEN, T_LEN, Y_LEN = 92, 4, 17, 216
MHH0, MHH1, MAH0, MAH1, MHM0, MHM1, SBA, CBA, TB = range(9)
LAM = slice(9, 16)
M122, MW, MZ = 16, 17, 18
MFU, MFD, MFE, MFV = slice(19, 22), slice(22, 25), slice(25, 28), slice(28, 31)
ALPHA_H, BETA, V = 31, 32, 33
ZA00, ZA01, ZP00, ZP01 = 34, 35, 36, 37
VREC = slice(38, 56)
SM_MW, SM_MZ = 56, 57
SM_MU, SM_MD, SM_ML = slice(58, 61), slice(61, 64), slice(64, 67)
SM_CKM = slice(67, 85)
SM_V, SM_MH = 85, 86
ZETA = slice(87, 90)
MVG, MVP = 90, 91
YNAMES = ["yuh", "yuH", "yuA", "yuHp", "ydh", "ydH", "ydA", "ydHp", "ylh", "ylH", "ylA", "ylHp"]
TYPES = {1: "I", 2: "II", 3: "X", 4: "Y", 5: "aligned", 6: "general"}

# ---- 3x3 real matrix alphabet for Delta_f / Pi_f (entries in [-1,1]) -----------------
MATS = {
    "0": None,
    "e12": [0, 1, 0, 0, 0, 0, 0, 0, 0],            # single off-diagonal entry
    "m22": [0, 0, 0, 0, -0.1, 0, 0, 0, 0],          # single diagonal entry (muon / 2nd generation)
    "e31": [0, 0, 0, 0, 0, 0, -1, 0, 0],
    "dense": [0.1, -0.2, 0.3, -0.4, 0.5, 0.6, 0.7, -0.8, -0.9],
}
MAT_NAMES = ["0", "e12", "m22", "e31", "dense"]


def exe():
    if "plain" not in _exe:
        _exe["plain"] = build.harness("thdm", "plain", ["thdm.cpp"])
        p = subprocess.run([_exe["plain"]], input="hello\n", stdout=subprocess.PIPE, text=True, timeout=60)
        if "THDM-HARNESS 2 S92 A4 T17 Y216" not in p.stdout:
            raise InfraError("thdm harness: unexpected hello: %r" % p.stdout[:200])
    return _exe["plain"]


def mat_token(m):
    if m is None:
        return "0"
    if isinstance(m, str):
        m = MATS[m]
        if m is None:
            return "0"
    return ",".join(hexf(x) for x in m)


def case(basis, p, ytype=2, run=1, ckm=1, mhsm="-", z=(0.0, 0.0, 0.0),
         D=(None, None, None), P=(None, None, None)):
    """canonical, JSON-able case description"""
    return {"basis": basis, "p": [float(x) for x in p], "ytype": int(ytype), "run": int(run),
            "ckm": int(ckm), "mhsm": mhsm if isinstance(mhsm, str) else hexf(mhsm),
            "z": [float(x) for x in z], "D": list(D), "P": list(P)}


def line(cid, c, ops):
    return " ".join([str(cid), c["basis"], str(c["ytype"]), str(c["run"]), str(c["ckm"]), c["mhsm"]]
                    + [hexf(x) for x in c["p"]] + [hexf(x) for x in c["z"]]
                    + [mat_token(m) for m in c["D"]] + [mat_token(m) for m in c["P"]] + [ops])


class Res:
    __slots__ = ("id", "exc", "S", "A", "T", "Y", "raw")

    def __init__(self):
        self.id = None; self.exc = None; self.S = self.A = self.T = self.Y = None; self.raw = {}


def run_lines(lines, executable=None, timeout=3000):
    """run one harness process over the given command lines; returns list of Res (same order)"""
    executable = executable or exe()
    p = subprocess.run([executable], input="\n".join(lines) + "\n", stdout=subprocess.PIPE,
                       stderr=subprocess.PIPE, text=True, timeout=timeout)
    if p.returncode != 0:
        raise InfraError("thdm harness exit %d: %s %s" % (p.returncode, p.stdout[-400:], p.stderr[-400:]))
    out = []
    end = None
    for ln in p.stdout.split("\n"):
        if not ln:
            continue
        tk = ln.split(" ")
        if tk[0] == "R":
            r = Res()
            r.id = tk[1]
            if tk[2] == "EXC":
                r.exc = (tk[3], " ".join(tk[4:]))
            else:
                i = 3
                while i < len(tk):
                    tag, n = tk[i], int(tk[i + 1])
                    vals = tk[i + 2:i + 2 + n]
                    if len(vals) != n:
                        raise InfraError("thdm harness: short block in " + ln[:200])
                    r.raw[tag] = " ".join(vals)
                    setattr(r, tag, [unhex(v) for v in vals])
                    i += 2 + n
            out.append(r)
        elif tk[0] == "END":
            end = tk
        else:
            raise InfraError("thdm harness: " + ln[:400])
    if end is None or int(end[1]) != len(lines) or len(out) != len(lines):
        raise InfraError("thdm harness: %d results for %d commands" % (len(out), len(lines)))
    return out


def run_cases(cases, ops, executable=None):
    """cases: list of case dicts; returns list of Res"""
    return run_lines([line(i, c, ops) for i, c in enumerate(cases)], executable)


def chunks(seq, n):
    return [seq[i:i + n] for i in range(0, len(seq), n)]


# ---- enumerators ----------------------------------------------------------------------
def devprod(dims, base, alphabet, dmax):
    """Deviation-bounded product: all assignments that differ from `base` in at most dmax
    dimensions, each deviating dimension running over its alphabet minus the base value.
    Deterministic order (fewest deviations first).  Yields (assignment dict, deviating dims)."""
    alts = {d: [v for v in alphabet[d] if v != base[d]] for d in dims}
    for k in range(0, dmax + 1):
        for combo in itertools.combinations(dims, k):
            for vals in itertools.product(*[alts[d] for d in combo]):
                a = dict(base)
                for d, v in zip(combo, vals):
                    a[d] = v
                yield a, combo


def devprod_size(dims, base, alphabet, dmax):
    n = [len([v for v in alphabet[d] if v != base[d]]) for d in dims]
    tot = 0
    for k in range(0, dmax + 1):
        for combo in itertools.combinations(range(len(dims)), k):
            t = 1
            for i in combo:
                t *= n[i]
            tot += t
    return tot


def cmat(vals):
    """18 doubles (re,im row-major) -> 3x3 list of complex"""
    return [[complex(vals[2 * (3 * i + j)], vals[2 * (3 * i + j) + 1]) for j in range(3)] for i in range(3)]


def jarlskog(V):
    return (V[0][0] * V[1][1] * V[0][1].conjugate() * V[1][0].conjugate()).imag


def sm_inputs(ckm=1):
    """SM input values as the harness' SM object reports them (masses, v, CKM)"""
    c = case("M", [125.0, 400.0, 420.0, 440.0, 0.999, 0.0, 0.0, 3.0, 40000.0], ckm=ckm)
    r, = run_cases([c], "S")
    if r.exc:
        raise InfraError("sm_inputs: reference point threw %r" % (r.exc,))
    S = r.S
    return {"mw": S[SM_MW], "mz": S[SM_MZ], "mu": S[SM_MU], "md": S[SM_MD], "ml": S[SM_ML],
            "v": S[SM_V], "mh": S[SM_MH], "ckm": cmat(S[SM_CKM])}


def pi_from_aligned(zeta, Delta, masses, tb, v):
    """Pi_f = cos(beta) (sqrt(2) M_f (zeta_f + tan(beta))/v + Delta_f), row-major 9-list"""
    cb = 1.0 / math.sqrt(1.0 + tb * tb)
    D = Delta if Delta is not None else [0.0] * 9
    if isinstance(D, str):
        D = MATS[D] or [0.0] * 9
    out = []
    for i in range(3):
        for j in range(3):
            x = D[3 * i + j]
            if i == j:
                x = math.sqrt(2.0) * masses[i] * (zeta + tb) / v + x
            out.append(cb * x)
    return out
