"""Registry of harness programs: ((name, variant, sources), kwargs) for build.harness."""
ALL = [
    (("fx", "cov", ["fx.cpp"]), {}),
]
