#!/opt/veriftools/pyvenv/bin/python
"""Regenerates /verif/MANIFEST.json from the table below (single source of truth)."""
import json
import os

VERIF = os.path.dirname(os.path.dirname(os.path.abspath(__file__)))

import importlib
import sys
sys.path.insert(0, os.path.join(VERIF, "lib"))
sys.path.insert(0, VERIF)


# checks that have been run end-to-end on the unchanged tree by the integrator and are claimed
INTEGRATED = {"C01", "C13", "C14", "C02", "C11", "C17", "C08", "C09", "C10", "C03", "C04", "C05", "C06", "C07", "C12", "C15", "C16", "C18", "C19", "C20"}


def collect():
    """every checks/cNN.py that defines META = dict(level, technique, text, note, design_ref) is registered"""
    out = {}
    for fn in sorted(os.listdir(os.path.join(VERIF, "checks"))):
        if not (fn.startswith("c") and fn.endswith(".py") and fn[1:-3].isdigit()):
            continue
        mod = importlib.import_module("checks." + fn[:-3])
        meta = getattr(mod, "META", None)
        if meta and ("C" + fn[1:-3]) in INTEGRATED:
            out["C" + fn[1:-3]] = (meta["level"], meta["technique"], meta["text"], meta["note"], meta["design_ref"])
    return out


CHECKS = collect()

NOT_YET = {}


def main():
    props = [json.loads(l) for l in open(os.path.join(VERIF, "properties.jsonl"))]
    checks = []
    na = []
    for p in props:
        pid = p["id"]
        if pid in CHECKS:
            level, tech, text, note, ref = CHECKS[pid]
            checks.append({
                "property_id": pid,
                "quick_cmd": "bin/vcheck %s --tier quick" % pid,
                "thorough_cmd": "bin/vcheck %s --tier thorough" % pid,
                "evidence_file": "/verif/evidence/%s.json" % pid,
                "replay_cmd_template": "bin/vcheck %s --replay {path}" % pid,
                "engine": "vcheck",
                "level_claimed": {"category": level, "text": text, "design_ref": "DESIGN.md section " + ref},
                "level_note": note,
                "technique": tech,
            })
        else:
            na.append({"property_id": pid,
                       "reason": NOT_YET.get(pid, "check designed (DESIGN.md section 3/%s) but not built/registered yet; model checking applies, nothing is claimed until the check has run end-to-end on the unchanged tree" % pid)})
    m = {
        "version": 1,
        "setup_cmd": "bin/setup",
        "hooks": {
            "guard": "GM2CALC_VERIF",
            "enable": "no source hooks exist; all instrumentation is by compiler flags (-fsanitize-coverage=trace-pc-guard, ASan/UBSan, TSan), link-time interposition and -fno-access-control in /verif/lib/build.py; -DGM2CALC_VERIF is passed to every verification build anyway",
            "baseline_off_cmd": "bin/baseline",
            "source_commits": [],
            "add_only": True,
        },
        "engines": [
            {"name": "vcheck", "path": "bin/vcheck", "serves_properties": sorted(CHECKS),
             "kind_free_text": "bounded exhaustive exploration of the implementation (regime graphs via coverage signatures, deviation-bounded lattices, operation-sequence BFS, preemption-bounded scheduler) against reference models"},
        ],
        "checks": checks,
        "not_applicable": na,
        "notes": "All checks rebuild the needed build variants of /repo's working tree incrementally (lib/build.py) before exploring. Exit 0 held / 1 VIOLATION / 2 infrastructure error. known_findings.json lists recorded genuine defects.",
    }
    with open(os.path.join(VERIF, "MANIFEST.json"), "w") as fh:
        json.dump(m, fh, indent=1)
        fh.write("\n")


if __name__ == "__main__":
    main()
