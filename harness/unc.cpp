// unc: evaluator for the uncertainty estimates (C18).  Python (checks/c18.py) builds the model lattices
// and holds the oracle; this program builds each model and evaluates a_mu, the ingredients of the documented
// formulas and EVERY uncertainty entry point that exists in the sources:
//   public C++  (include/gm2calc/gm2_uncertainty.hpp)      model-only
//   helper C++  (src/gm2_uncertainty_helpers.hpp)           precomputed a_mu values
//   public C    (include/gm2calc/gm2_uncertainty.h)         model-only
//   helper C    (src/gm2_uncertainty_helpers.h)             precomputed a_mu values (used by the Mathematica interface)
// Every value is reported as  F:<function name>|<model>|<number of double arguments>:<variant>=<hex double>
//   variant v: model-only;  p: precomputed arguments = the model's own a_1L, a_2L;  x: arbitrary arguments x1, x2.
// checks/c18.py greps the four headers at run time and refuses to run if a declared function is not reported here.
//
// stdin:
//   base <idx> <path>                     load a GM2Calc-format input file as base point <idx>
//   mssm <n> then n lines:  <idx> <tb|nan> <f_mu> <f_M1> <f_M2> <fA> <x1> <x2>
//        model = base[idx] with tan(beta) replaced (unless nan), Mu, M1, M2 multiplied by the factors and
//        Ae(2,2) = Ae(2,2)_base + fA * Mu * tan(beta)
//        -> M <OK|FORCED|EXC class what> a1L=.. a2L=.. cha=.. sferm=.. F:...
//   thdm <n> then n lines: <type> <tb> <mh> <mH> <mA> <mHp> <sba> <l6> <l7> <m122> <zu> <zd> <zl> <running> <x1> <x2>
//        -> T <OK|EXC ...> a1L=.. a2L=.. mH=.. mA=.. mHp=.. mm=.. aem=.. F:...
//   text <slha|gm2calc|thdm> <x1> <x2> <nbytes>\n<nbytes of input file content>
//        the content is read the way gm2calc.x reads it (GM2CalcConfig force-output / running couplings honoured)
//        -> M ... | T ... as above
//   END <n> closes every command
#include "gm2calc/MSSMNoFV_onshell.hpp"
#include "gm2calc/THDM.hpp"
#include "gm2calc/SM.hpp"
#include "gm2calc/gm2_1loop.hpp"
#include "gm2calc/gm2_2loop.hpp"
#include "gm2calc/gm2_uncertainty.hpp"
#include "gm2calc/gm2_uncertainty.h"
#include "gm2calc/gm2_error.hpp"
#include "gm2_uncertainty_helpers.hpp"
#include "gm2_uncertainty_helpers.h"
#include "gm2_config_options.hpp"
#include "gm2_slha_io.hpp"
#include <cmath>
#include <cstdio>
#include <cstdlib>
#include <iostream>
#include <map>
#include <sstream>
#include <string>
#include <vector>

namespace g = gm2calc;

static double rd() { std::string s; if (!(std::cin >> s)) std::exit(3); return std::strtod(s.c_str(), nullptr); }
static std::string clean(std::string s) { for (auto& c : s) if (c == '\n' || c == '\r') c = ' '; if (s.size() > 160) s.resize(160); return s; }

struct Quiet {   // the library prints warnings to std::cerr
   std::ostringstream os; std::streambuf* old;
   Quiet() : old(std::cerr.rdbuf(os.rdbuf())) {}
   ~Quiet() { std::cerr.rdbuf(old); }
};

static std::map<int, g::GM2_slha_io> bases;

#define PF(NAME, MODEL, N, VAR, EXPR) std::printf(" F:%s|%s|%d:%s=%a", NAME, MODEL, N, VAR, (double)(EXPR))

static void eval_mssm(const g::MSSMNoFV_onshell& m, const char* status, double x1, double x2) {
   const double a1 = g::calculate_amu_1loop(m), a2 = g::calculate_amu_2loop(m);
   const ::MSSMNoFV_onshell* c = reinterpret_cast<const ::MSSMNoFV_onshell*>(&m);
   const char* M = "MSSMNoFV_onshell";
   std::printf("M %s a1L=%a a2L=%a cha=%a sferm=%a", status, a1, a2, g::amu2LaCha(m), g::amu2LaSferm(m));
   // public C++
   PF("calculate_uncertainty_amu_0loop", M, 0, "v", g::calculate_uncertainty_amu_0loop(m));
   PF("calculate_uncertainty_amu_1loop", M, 0, "v", g::calculate_uncertainty_amu_1loop(m));
   PF("calculate_uncertainty_amu_2loop", M, 0, "v", g::calculate_uncertainty_amu_2loop(m));
   // helper C++
   PF("calculate_uncertainty_amu_0loop", M, 1, "p", g::calculate_uncertainty_amu_0loop(m, a1));
   PF("calculate_uncertainty_amu_0loop", M, 1, "x", g::calculate_uncertainty_amu_0loop(m, x1));
   PF("calculate_uncertainty_amu_1loop", M, 1, "p", g::calculate_uncertainty_amu_1loop(m, a2));
   PF("calculate_uncertainty_amu_1loop", M, 1, "x", g::calculate_uncertainty_amu_1loop(m, x2));
   // public C
   PF("gm2calc_mssmnofv_calculate_uncertainty_amu_0loop", M, 0, "v", gm2calc_mssmnofv_calculate_uncertainty_amu_0loop(c));
   PF("gm2calc_mssmnofv_calculate_uncertainty_amu_1loop", M, 0, "v", gm2calc_mssmnofv_calculate_uncertainty_amu_1loop(c));
   PF("gm2calc_mssmnofv_calculate_uncertainty_amu_2loop", M, 0, "v", gm2calc_mssmnofv_calculate_uncertainty_amu_2loop(c));
   // helper C
   PF("gm2calc_mssmnofv_calculate_uncertainty_amu_0loop_amu1L", M, 1, "p", gm2calc_mssmnofv_calculate_uncertainty_amu_0loop_amu1L(c, a1));
   PF("gm2calc_mssmnofv_calculate_uncertainty_amu_0loop_amu1L", M, 1, "x", gm2calc_mssmnofv_calculate_uncertainty_amu_0loop_amu1L(c, x1));
   PF("gm2calc_mssmnofv_calculate_uncertainty_amu_1loop_amu2L", M, 1, "p", gm2calc_mssmnofv_calculate_uncertainty_amu_1loop_amu2L(c, a2));
   PF("gm2calc_mssmnofv_calculate_uncertainty_amu_1loop_amu2L", M, 1, "x", gm2calc_mssmnofv_calculate_uncertainty_amu_1loop_amu2L(c, x2));
   std::printf("\n");
}

static void eval_thdm(const g::THDM& m, double x1, double x2) {
   const double a1 = g::calculate_amu_1loop(m), a2 = g::calculate_amu_2loop(m);
   const ::gm2calc_THDM* c = reinterpret_cast<const ::gm2calc_THDM*>(&m);
   const char* M = "THDM";
   std::printf("T OK a1L=%a a2L=%a mH=%a mA=%a mHp=%a mm=%a aem=%a", a1, a2, m.get_Mhh(1), m.get_MAh(1), m.get_MHm(1), m.get_MFe(1), m.get_alpha_em());
   PF("calculate_uncertainty_amu_0loop", M, 0, "v", g::calculate_uncertainty_amu_0loop(m));
   PF("calculate_uncertainty_amu_1loop", M, 0, "v", g::calculate_uncertainty_amu_1loop(m));
   PF("calculate_uncertainty_amu_2loop", M, 0, "v", g::calculate_uncertainty_amu_2loop(m));
   PF("calculate_uncertainty_amu_0loop", M, 2, "p", g::calculate_uncertainty_amu_0loop(m, a1, a2));
   PF("calculate_uncertainty_amu_1loop", M, 2, "p", g::calculate_uncertainty_amu_1loop(m, a1, a2));
   PF("calculate_uncertainty_amu_2loop", M, 2, "p", g::calculate_uncertainty_amu_2loop(m, a1, a2));
   PF("calculate_uncertainty_amu_0loop", M, 2, "x", g::calculate_uncertainty_amu_0loop(m, x1, x2));
   PF("calculate_uncertainty_amu_1loop", M, 2, "x", g::calculate_uncertainty_amu_1loop(m, x1, x2));
   PF("calculate_uncertainty_amu_2loop", M, 2, "x", g::calculate_uncertainty_amu_2loop(m, x1, x2));
   PF("gm2calc_thdm_calculate_uncertainty_amu_0loop", M, 0, "v", gm2calc_thdm_calculate_uncertainty_amu_0loop(c));
   PF("gm2calc_thdm_calculate_uncertainty_amu_1loop", M, 0, "v", gm2calc_thdm_calculate_uncertainty_amu_1loop(c));
   PF("gm2calc_thdm_calculate_uncertainty_amu_2loop", M, 0, "v", gm2calc_thdm_calculate_uncertainty_amu_2loop(c));
   PF("gm2calc_thdm_calculate_uncertainty_amu_0loop_amu1L_amu2L", M, 2, "p", gm2calc_thdm_calculate_uncertainty_amu_0loop_amu1L_amu2L(c, a1, a2));
   PF("gm2calc_thdm_calculate_uncertainty_amu_1loop_amu1L_amu2L", M, 2, "p", gm2calc_thdm_calculate_uncertainty_amu_1loop_amu1L_amu2L(c, a1, a2));
   PF("gm2calc_thdm_calculate_uncertainty_amu_2loop_amu1L_amu2L", M, 2, "p", gm2calc_thdm_calculate_uncertainty_amu_2loop_amu1L_amu2L(c, a1, a2));
   PF("gm2calc_thdm_calculate_uncertainty_amu_0loop_amu1L_amu2L", M, 2, "x", gm2calc_thdm_calculate_uncertainty_amu_0loop_amu1L_amu2L(c, x1, x2));
   PF("gm2calc_thdm_calculate_uncertainty_amu_1loop_amu1L_amu2L", M, 2, "x", gm2calc_thdm_calculate_uncertainty_amu_1loop_amu1L_amu2L(c, x1, x2));
   PF("gm2calc_thdm_calculate_uncertainty_amu_2loop_amu1L_amu2L", M, 2, "x", gm2calc_thdm_calculate_uncertainty_amu_2loop_amu1L_amu2L(c, x1, x2));
   std::printf("\n");
}

template <class F> static void guarded(const char* tag, F f) {
   try { f(); }
   catch (const g::EInvalidInput& e) { std::printf("%s EXC EInvalidInput %s\n", tag, clean(e.what()).c_str()); }
   catch (const g::EPhysicalProblem& e) { std::printf("%s EXC EPhysicalProblem %s\n", tag, clean(e.what()).c_str()); }
   catch (const g::Error& e) { std::printf("%s EXC Error %s\n", tag, clean(e.what()).c_str()); }
   catch (const std::exception& e) { std::printf("%s EXC std::exception %s\n", tag, clean(e.what()).c_str()); }
}

static void do_mssm() {
   int idx = (int)rd(); double tb = rd(), fmu = rd(), f1 = rd(), f2 = rd(), fA = rd(), x1 = rd(), x2 = rd();
   auto it = bases.find(idx);
   if (it == bases.end()) { std::printf("M EXC harness unknown-base\n"); return; }
   for (int forced = 0; forced < 2; forced++) {
      try {
         Quiet q;
         g::MSSMNoFV_onshell m;
         m.do_force_output(forced);
         it->second.fill_gm2calc(m);
         if (!std::isnan(tb)) m.set_TB(tb);
         m.set_Mu(m.get_Mu() * fmu); m.set_MassB(m.get_MassB() * f1); m.set_MassWB(m.get_MassWB() * f2);
         m.set_Ae(1, 1, m.get_Ae(1, 1) + fA * m.get_Mu() * m.get_TB());
         m.calculate_masses();
         eval_mssm(m, forced ? "FORCED" : "OK", x1, x2);
         return;
      } catch (const g::Error& e) {
         if (forced) { std::printf("M EXC Error %s\n", clean(e.what()).c_str()); return; }
      } catch (const std::exception& e) {
         if (forced) { std::printf("M EXC std::exception %s\n", clean(e.what()).c_str()); return; }
      }
   }
}

static void do_thdm() {
   int type = (int)rd();
   g::thdm::Mass_basis b;
   b.tan_beta = rd(); b.mh = rd(); b.mH = rd(); b.mA = rd(); b.mHp = rd(); b.sin_beta_minus_alpha = rd();
   b.lambda_6 = rd(); b.lambda_7 = rd(); b.m122 = rd(); b.zeta_u = rd(); b.zeta_d = rd(); b.zeta_l = rd();
   int running = (int)rd(); double x1 = rd(), x2 = rd();
   guarded("T", [&] {
      Quiet q;
      b.yukawa_type = g::thdm::int_to_cpp_yukawa_type(type);
      g::SM sm; g::thdm::Config cfg; cfg.running_couplings = running;
      g::THDM m(b, sm, cfg);
      eval_thdm(m, x1, x2);
   });
}

// the setup sequence of src/gm2calc.cpp
static void do_text() {
   std::string kind; std::cin >> kind;
   double x1 = rd(), x2 = rd(); long nb; std::cin >> nb; std::cin.get();
   std::string content((size_t)nb, '\0');
   std::cin.read(&content[0], nb);
   const char* tag = kind == "thdm" ? "T" : "M";
   guarded(tag, [&] {
      Quiet q;
      g::GM2_slha_io io; std::istringstream is(content); io.read_from_stream(is);
      g::Config_options opt; io.fill(opt);
      if (kind == "thdm") {
         g::SM sm; g::thdm::Mass_basis mb; g::thdm::Gauge_basis gb;
         io.fill(sm); io.fill(mb); io.fill(gb);
         g::thdm::Config cfg; cfg.force_output = opt.force_output; cfg.running_couplings = opt.running_couplings;
         const bool mass = mb.mh != 0 || mb.mH != 0 || mb.mA != 0 || mb.mHp != 0 || mb.sin_beta_minus_alpha != 0;
         const bool gauge = gb.lambda.head<5>().cwiseAbs().maxCoeff() != 0;
         if (mass && !gauge) { g::THDM m(mb, sm, cfg); eval_thdm(m, x1, x2); }
         else if (!mass && gauge) { g::THDM m(gb, sm, cfg); eval_thdm(m, x1, x2); }
         else throw g::EInvalidInput("Cannot distinguish between mass and gauge basis.");
      } else {
         g::MSSMNoFV_onshell m;
         m.do_force_output(opt.force_output);
         if (kind == "slha") { io.fill_slha(m); m.convert_to_onshell(); }
         else { io.fill_gm2calc(m); m.calculate_masses(); }
         eval_mssm(m, m.get_problems().have_problem() ? "PROBLEM" : "OK", x1, x2);
      }
   });
}

int main() {
   std::string cmd;
   while (std::cin >> cmd) {
      long n = 0;
      if (cmd == "base") {
         int idx; std::string path; std::cin >> idx >> path;
         try { Quiet q; g::GM2_slha_io io; io.read_from_file(path); bases[idx] = io; std::printf("B OK %d\n", idx); }
         catch (const std::exception& e) { std::printf("B EXC %s\n", clean(e.what()).c_str()); }
         n = 1;
      } else if (cmd == "mssm") {
         std::cin >> n; for (long k = 0; k < n; k++) do_mssm();
      } else if (cmd == "thdm") {
         std::cin >> n; for (long k = 0; k < n; k++) do_thdm();
      } else if (cmd == "text") {
         do_text(); n = 1;
      } else { std::printf("ERR cmd %s\n", cmd.c_str()); return 2; }
      std::printf("END %ld\n", n);
      std::fflush(stdout);
   }
   return 0;
}
