// unc: evaluator for the uncertainty estimates (C18).  Python (checks/c18.py) builds the model lattices
// and holds the oracle; this program builds each model, evaluates a_mu, the three uncertainty estimates
// through every overload and the ingredients of the documented formulas.  Doubles as C99 hex floats.
//
// stdin:
//   base <idx> <path>                     load a GM2Calc-format input file as base point <idx>
//   mssm <n> then n lines:  <idx> <tb|nan> <f_mu> <f_M1> <f_M2> <fA> <x1> <x2>
//        model = base[idx] with tan(beta) replaced (unless nan), Mu, M1, M2 multiplied by the factors and
//        Ae(2,2) = Ae(2,2)_base + fA * Mu * tan(beta)   (fA = 1 removes the smuon mixing term at tree level)
//        -> M <OK|FORCED|EXC class what> a1L a2L d0 d1 d2 d0(a1L) d1(a2L) d0(x1) d1(x2) amu2LaCha amu2LaSferm
//   thdm <n> then n lines: <type> <tb> <mh> <mH> <mA> <mHp> <sba> <l6> <l7> <m122> <zu> <zd> <zl> <running> <x1> <x2>
//        -> T <OK|EXC ...> a1L a2L d0 d1 d2 d0(a1L,a2L) d1(a1L,a2L) d2(a1L,a2L) d0(x1,x2) d1(x1,x2) d2(x1,x2) mH mA mHp m_mu alpha_em
//   END <n> closes every command
#include "gm2calc/MSSMNoFV_onshell.hpp"
#include "gm2calc/THDM.hpp"
#include "gm2calc/SM.hpp"
#include "gm2calc/gm2_1loop.hpp"
#include "gm2calc/gm2_2loop.hpp"
#include "gm2calc/gm2_uncertainty.hpp"
#include "gm2calc/gm2_error.hpp"
#include "gm2_uncertainty_helpers.hpp"
#include "gm2_slha_io.hpp"
#include <cmath>
#include <cstdio>
#include <cstdlib>
#include <iostream>
#include <map>
#include <sstream>
#include <string>

using namespace gm2calc;

static double rd() { std::string s; if (!(std::cin >> s)) std::exit(3); return std::strtod(s.c_str(), nullptr); }
static std::string clean(std::string s) { for (auto& c : s) if (c == '\n' || c == '\r') c = ' '; if (s.size() > 160) s.resize(160); return s; }

struct Quiet {   // the library prints warnings to std::cerr
   std::ostringstream os; std::streambuf* old;
   Quiet() : old(std::cerr.rdbuf(os.rdbuf())) {}
   ~Quiet() { std::cerr.rdbuf(old); }
};

static std::map<int, GM2_slha_io> bases;

static void eval_mssm(const MSSMNoFV_onshell& m, const char* status, double x1, double x2) {
   const double a1 = calculate_amu_1loop(m), a2 = calculate_amu_2loop(m);
   const double d0 = calculate_uncertainty_amu_0loop(m), d1 = calculate_uncertainty_amu_1loop(m), d2 = calculate_uncertainty_amu_2loop(m);
   const double d0p = calculate_uncertainty_amu_0loop(m, a1), d1p = calculate_uncertainty_amu_1loop(m, a2);
   const double d0x = calculate_uncertainty_amu_0loop(m, x1), d1x = calculate_uncertainty_amu_1loop(m, x2);
   std::printf("M %s %a %a %a %a %a %a %a %a %a %a %a\n", status, a1, a2, d0, d1, d2, d0p, d1p, d0x, d1x, amu2LaCha(m), amu2LaSferm(m));
}

static void do_mssm() {
   int idx = (int)rd(); double tb = rd(), fmu = rd(), f1 = rd(), f2 = rd(), fA = rd(), x1 = rd(), x2 = rd();
   auto it = bases.find(idx);
   if (it == bases.end()) { std::printf("M EXC harness unknown-base\n"); return; }
   for (int forced = 0; forced < 2; forced++) {
      try {
         Quiet q;
         MSSMNoFV_onshell m;
         m.do_force_output(forced);
         it->second.fill_gm2calc(m);
         if (!std::isnan(tb)) m.set_TB(tb);
         m.set_Mu(m.get_Mu() * fmu); m.set_MassB(m.get_MassB() * f1); m.set_MassWB(m.get_MassWB() * f2);
         m.set_Ae(1, 1, m.get_Ae(1, 1) + fA * m.get_Mu() * m.get_TB());
         m.calculate_masses();
         eval_mssm(m, forced ? "FORCED" : "OK", x1, x2);
         return;
      } catch (const Error& e) {
         if (forced) { std::printf("M EXC Error %s\n", clean(e.what()).c_str()); return; }
      } catch (const std::exception& e) {
         if (forced) { std::printf("M EXC std::exception %s\n", clean(e.what()).c_str()); return; }
      }
   }
}

static void do_thdm() {
   int type = (int)rd();
   thdm::Mass_basis b;
   b.tan_beta = rd(); b.mh = rd(); b.mH = rd(); b.mA = rd(); b.mHp = rd(); b.sin_beta_minus_alpha = rd();
   b.lambda_6 = rd(); b.lambda_7 = rd(); b.m122 = rd(); b.zeta_u = rd(); b.zeta_d = rd(); b.zeta_l = rd();
   int running = (int)rd(); double x1 = rd(), x2 = rd();
   try {
      Quiet q;
      b.yukawa_type = thdm::int_to_cpp_yukawa_type(type);
      SM sm; thdm::Config cfg; cfg.running_couplings = running;
      THDM m(b, sm, cfg);
      const double a1 = calculate_amu_1loop(m), a2 = calculate_amu_2loop(m);
      const double d0 = calculate_uncertainty_amu_0loop(m), d1 = calculate_uncertainty_amu_1loop(m), d2 = calculate_uncertainty_amu_2loop(m);
      const double d0p = calculate_uncertainty_amu_0loop(m, a1, a2), d1p = calculate_uncertainty_amu_1loop(m, a1, a2), d2p = calculate_uncertainty_amu_2loop(m, a1, a2);
      const double d0x = calculate_uncertainty_amu_0loop(m, x1, x2), d1x = calculate_uncertainty_amu_1loop(m, x1, x2), d2x = calculate_uncertainty_amu_2loop(m, x1, x2);
      std::printf("T OK %a %a %a %a %a %a %a %a %a %a %a %a %a %a %a %a\n", a1, a2, d0, d1, d2, d0p, d1p, d2p, d0x, d1x, d2x,
                  m.get_Mhh(1), m.get_MAh(1), m.get_MHm(1), m.get_MFe(1), m.get_alpha_em());
   } catch (const EInvalidInput& e) { std::printf("T EXC EInvalidInput %s\n", clean(e.what()).c_str()); }
   catch (const EPhysicalProblem& e) { std::printf("T EXC EPhysicalProblem %s\n", clean(e.what()).c_str()); }
   catch (const Error& e) { std::printf("T EXC Error %s\n", clean(e.what()).c_str()); }
   catch (const std::exception& e) { std::printf("T EXC std::exception %s\n", clean(e.what()).c_str()); }
}

int main() {
   std::string cmd;
   while (std::cin >> cmd) {
      long n = 0;
      if (cmd == "base") {
         int idx; std::string path; std::cin >> idx >> path;
         try { Quiet q; GM2_slha_io io; io.read_from_file(path); bases[idx] = io; std::printf("B OK %d\n", idx); }
         catch (const std::exception& e) { std::printf("B EXC %s\n", clean(e.what()).c_str()); }
         n = 1;
      } else if (cmd == "mssm") {
         std::cin >> n; for (long k = 0; k < n; k++) do_mssm();
      } else if (cmd == "thdm") {
         std::cin >> n; for (long k = 0; k < n; k++) do_thdm();
      } else { std::printf("ERR cmd %s\n", cmd.c_str()); return 2; }
      std::printf("END %ld\n", n);
      std::fflush(stdout);
   }
   return 0;
}
