// Harness for gm2calc::THDM (properties C08, C09, C10).
//
// Protocol: one case per stdin line, one result line per case on stdout.
//
//   <id> <basis> <ytype> <run> <ckm> <mhsm> <sm> p1 .. p9 zu zd zl Du Dd Dl Pu Pd Pl <ops>
//
//   basis  M : p = mh mH mA mHp sin(beta-alpha) lambda6 lambda7 tan(beta) m12^2
//          G : p = lambda1 .. lambda7 tan(beta) m12^2
//   ytype  1..6 (I, II, X, Y, aligned, general)
//   run    thdm::Config as bits: 1 = running_couplings, 2 = force_output  (0..3)
//   ckm    0 unit | 1 SM default | 2 complex Wolfenstein(0.2257,0.814,0.135,0.349)
//   mhsm   '-' (SM default) | 'auto' (construct once, SM::set_mh(model.get_Mhh(0)),
//          construct again) | hex float
//   sm     '-' (gm2calc::SM defaults) | comma separated key=hexfloat overrides of the SM input:
//          mw mz aem (alpha_em(MZ)) ae0 (alpha_em(0)) as (alpha_s(MZ)) mu0 mu1 mu2 md0 md1 md2 ml0 ml1 ml2
//   matrices: '0' or nine comma separated hex floats (row major)
//   'accessors' prints the get_* accessors (name/arity) this harness reads; block X reads every public accessor
//   through its other overloads (array / matrix getters, element getters, derived getters); block P parses print().
//   ops    <blocks>[@tb1[,tb2..]]: after construction model.set_tan_beta(tb1), set_tan_beta(tb2), .. are applied
//          (the object state is part of the alphabet), then the blocks are printed; blocks = subset of S (spectrum/getters), A (a_mu), T (individual terms of a_mu,
//          used only as the scale "sum of |terms|" of tolerances), Y (12 Yukawa getters)
//
//   result: R <id> OK [S 96 v..] [A 4 v..] [T 17 v..] [Y 216 v..]
//           R <id> EXC <class> <what>
//   all doubles as C99 hex floats.  Last line: END <ncases> <nok> <nexc>.
//   'hello' prints the layout version.  Nothing is random; nothing is cached.

#include "gm2calc/THDM.hpp"
#include "gm2calc/SM.hpp"
#include "gm2calc/gm2_1loop.hpp"
#include "gm2calc/gm2_2loop.hpp"
#include "gm2calc/gm2_error.hpp"
#include "THDM/gm2_1loop_helpers.hpp"
#include "THDM/gm2_2loop_helpers.hpp"

#include <cmath>
#include <complex>
#include <cstdio>
#include <cstdlib>
#include <cstring>
#include <iostream>
#include <sstream>
#include <string>
#include <vector>

using namespace gm2calc;
typedef Eigen::Matrix<double, 3, 3> M3;
typedef Eigen::Matrix<std::complex<double>, 3, 3> C3;

namespace {

struct Bad { std::string what; };

double hx(const std::string& s)
{
   char* end = nullptr;
   const double v = std::strtod(s.c_str(), &end);
   if (end == s.c_str() || *end != '\0') { throw Bad{"bad number '" + s + "'"}; }
   return v;
}

M3 mat(const std::string& s)
{
   M3 m = M3::Zero();
   if (s == "0") { return m; }
   std::stringstream ss(s);
   std::string tok;
   int k = 0;
   while (std::getline(ss, tok, ',')) {
      if (k >= 9) { throw Bad{"matrix with more than 9 entries"}; }
      m(k / 3, k % 3) = hx(tok);
      ++k;
   }
   if (k != 9) { throw Bad{"matrix with " + std::to_string(k) + " entries"}; }
   return m;
}

void out(std::string& o, double v)
{
   char buf[64];
   std::snprintf(buf, sizeof buf, " %a", v);
   o += buf;
}

void out(std::string& o, const C3& m)
{
   for (int i = 0; i < 3; ++i) {
      for (int j = 0; j < 3; ++j) { out(o, m(i, j).real()); out(o, m(i, j).imag()); }
   }
}

std::string clean(const char* s)
{
   std::string r(s);
   for (auto& c : r) { if (c == '\n' || c == '\r') { c = ';'; } else if (c == ' ') { c = '_'; } }
   return r;
}

struct Case {
   std::string id, ops, mhsm, smspec;
   std::vector<double> post;   ///< arguments of the set_tan_beta calls applied after construction
   char basis{'M'};
   int ytype{2}, run{1}, ckm{1};
   double p[9]{};
   double z[3]{};
   M3 D[3], P[3];
};

SM make_sm(int ckm, const std::string& spec)
{
   SM sm;
   if (spec != "-") {
      std::stringstream ss(spec);
      std::string kv;
      while (std::getline(ss, kv, ',')) {
         const auto eq = kv.find('=');
         if (eq == std::string::npos) { throw Bad{"bad SM override '" + kv + "'"}; }
         const std::string k = kv.substr(0, eq);
         const double v = hx(kv.substr(eq + 1));
         if (k == "mw") { sm.set_mw(v); }
         else if (k == "mz") { sm.set_mz(v); }
         else if (k == "aem") { sm.set_alpha_em_mz(v); }
         else if (k == "ae0") { sm.set_alpha_em_0(v); }
         else if (k == "as") { sm.set_alpha_s_mz(v); }
         else if (k.size() == 3 && k[0] == 'm' && (k[1] == 'u' || k[1] == 'd' || k[1] == 'l') && k[2] >= '0' && k[2] <= '2') {
            const int i = k[2] - '0';
            if (k[1] == 'u') { sm.set_mu(i, v); } else if (k[1] == 'd') { sm.set_md(i, v); } else { sm.set_ml(i, v); }
         } else { throw Bad{"unknown SM override key '" + k + "'"}; }
      }
   }
   if (ckm == 0) {
      sm.set_ckm(C3::Identity());
   } else if (ckm == 2) {
      sm.set_ckm_from_wolfenstein(0.2257, 0.814, 0.135, 0.349);
   } else if (ckm != 1) {
      throw Bad{"bad ckm selector"};
   }
   return sm;
}

THDM build(const Case& c, const SM& sm)
{
   thdm::Config cfg;
   cfg.running_couplings = (c.run & 1) != 0;
   cfg.force_output = (c.run & 2) != 0;
   if (c.basis == 'M') {
      thdm::Mass_basis b;
      b.yukawa_type = thdm::int_to_cpp_yukawa_type(c.ytype);
      b.mh = c.p[0]; b.mH = c.p[1]; b.mA = c.p[2]; b.mHp = c.p[3];
      b.sin_beta_minus_alpha = c.p[4];
      b.lambda_6 = c.p[5]; b.lambda_7 = c.p[6];
      b.tan_beta = c.p[7]; b.m122 = c.p[8];
      b.zeta_u = c.z[0]; b.zeta_d = c.z[1]; b.zeta_l = c.z[2];
      b.Delta_u = c.D[0]; b.Delta_d = c.D[1]; b.Delta_l = c.D[2];
      b.Pi_u = c.P[0]; b.Pi_d = c.P[1]; b.Pi_l = c.P[2];
      return THDM(b, sm, cfg);
   }
   thdm::Gauge_basis b;
   b.yukawa_type = thdm::int_to_cpp_yukawa_type(c.ytype);
   for (int i = 0; i < 7; ++i) { b.lambda(i) = c.p[i]; }
   b.tan_beta = c.p[7]; b.m122 = c.p[8];
   b.zeta_u = c.z[0]; b.zeta_d = c.z[1]; b.zeta_l = c.z[2];
   b.Delta_u = c.D[0]; b.Delta_d = c.D[1]; b.Delta_l = c.D[2];
   b.Pi_u = c.P[0]; b.Pi_d = c.P[1]; b.Pi_l = c.P[2];
   return THDM(b, sm, cfg);
}

void block_S(std::string& o, const THDM& m)
{
   const SM& sm = m.get_sm();
   o += " S 96";
   out(o, m.get_Mhh(0)); out(o, m.get_Mhh(1));                 // 0,1
   out(o, m.get_MAh(0)); out(o, m.get_MAh(1));                 // 2,3
   out(o, m.get_MHm(0)); out(o, m.get_MHm(1));                 // 4,5
   out(o, m.get_sin_beta_minus_alpha());                       // 6
   out(o, m.get_cos_beta_minus_alpha());                       // 7
   out(o, m.get_tan_beta());                                   // 8
   out(o, m.get_lambda1()); out(o, m.get_lambda2()); out(o, m.get_lambda3());
   out(o, m.get_lambda4()); out(o, m.get_lambda5()); out(o, m.get_lambda6());
   out(o, m.get_lambda7());                                    // 9..15
   out(o, m.get_m122());                                       // 16
   out(o, m.get_MVWm()); out(o, m.get_MVZ());                  // 17,18
   for (int i = 0; i < 3; ++i) { out(o, m.get_MFu(i)); }       // 19..21
   for (int i = 0; i < 3; ++i) { out(o, m.get_MFd(i)); }       // 22..24
   for (int i = 0; i < 3; ++i) { out(o, m.get_MFe(i)); }       // 25..27
   for (int i = 0; i < 3; ++i) { out(o, m.get_MFv(i)); }       // 28..30
   out(o, m.get_alpha_h()); out(o, m.get_beta()); out(o, m.get_v()); // 31..33
   out(o, m.get_ZA()(0, 0)); out(o, m.get_ZA()(0, 1));         // 34,35
   out(o, m.get_ZP()(0, 0)); out(o, m.get_ZP()(0, 1));         // 36,37
   // quark mixing reconstructed from the reported mixing matrices:
   // mass matrix = Vf^T diag(MFf) Uf, charged current ~ conj(Vu) Vd^T
   const C3 vrec = m.get_Vu().conjugate() * m.get_Vd().transpose();
   out(o, vrec);                                               // 38..55
   // SM input the model was built with
   out(o, sm.get_mw()); out(o, sm.get_mz());                   // 56,57
   for (int i = 0; i < 3; ++i) { out(o, sm.get_mu(i)); }       // 58..60
   for (int i = 0; i < 3; ++i) { out(o, sm.get_md(i)); }       // 61..63
   for (int i = 0; i < 3; ++i) { out(o, sm.get_ml(i)); }       // 64..66
   out(o, sm.get_ckm());                                       // 67..84
   out(o, sm.get_v()); out(o, sm.get_mh());                    // 85,86
   out(o, m.get_zeta_u()); out(o, m.get_zeta_d()); out(o, m.get_zeta_l()); // 87..89
   out(o, m.get_MVG()); out(o, m.get_MVP());                   // 90,91
   out(o, sm.get_alpha_em_mz()); out(o, sm.get_alpha_s_mz());  // 92,93
   out(o, m.get_alpha_em());                                   // 94
   out(o, m.get_problems().have_problem() ? 1.0 : 0.0);        // 95 (only reachable with force_output)
}

void block_A(std::string& o, const THDM& m)
{
   o += " A 4";
   out(o, calculate_amu_1loop(m));
   out(o, calculate_amu_2loop(m));
   out(o, calculate_amu_2loop_fermionic(m));
   out(o, calculate_amu_2loop_bosonic(m));
}

// individual terms; only their absolute sum is used (tolerance scale)
void block_T(std::string& o, const THDM& model)
{
   const C3 zero = C3::Zero();
   thdm::THDM_1L_parameters p1;
   p1.alpha_em = model.get_alpha_em();
   p1.mm = model.get_MFe(1);
   p1.mw = model.get_MVWm();
   p1.mz = model.get_MVZ();
   p1.mhSM = model.get_sm().get_mh();
   p1.mA = model.get_MAh(1);
   p1.mHp = model.get_MHm(1);
   p1.ml = model.get_MFe();
   p1.mv = model.get_MFv();
   p1.mh = model.get_Mhh();
   const double sm1 = thdm::amu1L(p1);   // all Yukawas zero: minus the SM term
   const C3 ylh = model.get_ylh(), ylH = model.get_ylH(), ylA = model.get_ylA(), ylHp = model.get_ylHp();
   auto q = p1; q.ylh = ylh;   const double t1h = thdm::amu1L(q) - sm1;
   q = p1; q.ylH = ylH;        const double t1H = thdm::amu1L(q) - sm1;
   q = p1; q.ylA = ylA;        const double t1A = thdm::amu1L(q) - sm1;
   q = p1; q.ylHp = ylHp;      const double t1P = thdm::amu1L(q) - sm1;

   thdm::THDM_F_parameters pf;
   pf.alpha_em = model.get_alpha_em();
   pf.mm = model.get_MFe(1);
   pf.mw = model.get_MVWm();
   pf.mz = model.get_MVZ();
   pf.mhSM = model.get_sm().get_mh();
   pf.mA = model.get_MAh(1);
   pf.mHp = model.get_MHm(1);
   pf.mh = model.get_Mhh();
   pf.ml = model.get_MFe();
   pf.mu = model.get_MFu();
   pf.md = model.get_MFd();
   pf.vckm = model.get_sm().get_ckm();
   const double smf = thdm::amu2L_F(pf);
   auto f = pf; f.yuh = model.get_yuh(); f.ydh = model.get_ydh(); f.ylh = ylh;
   const double tfh = thdm::amu2L_F(f) - smf;
   f = pf; f.yuH = model.get_yuH(); f.ydH = model.get_ydH(); f.ylH = ylH;
   const double tfH = thdm::amu2L_F(f) - smf;
   f = pf; f.yuA = model.get_yuA(); f.ydA = model.get_ydA(); f.ylA = ylA;
   const double tfA = thdm::amu2L_F(f) - smf;
   f = pf; f.yuHp = model.get_yuHp(); f.ydHp = model.get_ydHp(); f.ylHp = ylHp;
   const double tfP = thdm::amu2L_F(f) - smf;

   thdm::THDM_B_parameters pb;
   pb.alpha_em = model.get_alpha_em();
   pb.mm = model.get_MFe(1);
   pb.mw = model.get_MVWm();
   pb.mz = model.get_MVZ();
   pb.mhSM = model.get_sm().get_mh();
   pb.mA = model.get_MAh(1);
   pb.mHp = model.get_MHm(1);
   pb.mh = model.get_Mhh();
   pb.tb = model.get_tan_beta();
   pb.zetal = model.get_zeta_l();
   pb.cos_beta_minus_alpha = model.get_cos_beta_minus_alpha();
   pb.lambda5 = model.get_LambdaFive();
   pb.lambda67 = model.get_LambdaSixSeven();

   // Eq.(52) of arxiv:1607.06292 is linear in zeta_l, Lambda_5, Lambda_67 and cos(beta-alpha):
   //   a000 + a0z0 sc zl + a500 L5 + a5z0 (sc L5 + L67) zl + (...) cba ; the pieces cancel in the decoupling limit
   auto b = pb; b.zetal = 0; b.lambda5 = 0; b.lambda67 = 0; b.cos_beta_minus_alpha = 0;
   const double y0 = thdm::amu2L_B_Yuk(b);
   b.zetal = pb.zetal;
   const double y1 = thdm::amu2L_B_Yuk(b) - y0;
   b.zetal = 0; b.lambda5 = pb.lambda5;
   const double y2 = thdm::amu2L_B_Yuk(b) - y0;
   b.zetal = pb.zetal; b.lambda67 = pb.lambda67;
   const double ycba0 = thdm::amu2L_B_Yuk(b);
   const double y3 = ycba0 - y0 - y1 - y2;
   const double y4 = thdm::amu2L_B_Yuk(pb) - ycba0;

   o += " T 17";
   out(o, t1h); out(o, t1H); out(o, t1A); out(o, t1P); out(o, sm1);
   out(o, tfh); out(o, tfH); out(o, tfA); out(o, tfP); out(o, smf);
   out(o, thdm::amu2L_B_EWadd(pb)); out(o, thdm::amu2L_B_nonYuk(pb));
   out(o, y0); out(o, y1); out(o, y2); out(o, y3); out(o, y4);
}

void block_Y(std::string& o, const THDM& m)
{
   o += " Y 216";
   out(o, m.get_yuh()); out(o, m.get_yuH()); out(o, m.get_yuA()); out(o, m.get_yuHp());
   out(o, m.get_ydh()); out(o, m.get_ydH()); out(o, m.get_ydA()); out(o, m.get_ydHp());
   out(o, m.get_ylh()); out(o, m.get_ylH()); out(o, m.get_ylA()); out(o, m.get_ylHp());
}

// ---- X: every public accessor through all of its overloads ---------------------------------
// (the S block reads the indexed / scalar getters; here: array and matrix getters, element getters,
//  derived getters); block P parses print().  Keep ACCESSORS below in sync: the driver compares it with the
//  get_* declarations of the public headers and refuses to run when one is not read.
const char* const ACCESSORS[] = {
   // THDM
   "get_zeta_u/0", "get_zeta_d/0", "get_zeta_l/0", "get_sm/0",
   "get_yuh/0", "get_yuH/0", "get_yuA/0", "get_yuHp/0", "get_ydh/0", "get_ydH/0", "get_ydA/0", "get_ydHp/0",
   "get_ylh/0", "get_ylH/0", "get_ylA/0", "get_ylHp/0",
   // THDM_mass_eigenstates
   "get_problems/0", "get_MVG/0", "get_MVP/0", "get_MVWm/0", "get_MVZ/0",
   "get_Mhh/0", "get_Mhh/1", "get_MAh/0", "get_MAh/1", "get_MHm/0", "get_MHm/1",
   "get_MFu/0", "get_MFu/1", "get_MFd/0", "get_MFd/1", "get_MFv/0", "get_MFv/1", "get_MFe/0", "get_MFe/1",
   "get_ZH/0", "get_ZH/2", "get_ZA/0", "get_ZA/2", "get_ZP/0", "get_ZP/2",
   "get_Vd/0", "get_Vd/2", "get_Ud/0", "get_Ud/2", "get_Vu/0", "get_Vu/2", "get_Uu/0", "get_Uu/2",
   "get_Ve/0", "get_Ve/2", "get_Ue/0", "get_Ue/2",
   "get_ewsb_eq_hh_1/0", "get_ewsb_eq_hh_2/0",
   "get_sin_beta/0", "get_cos_beta/0", "get_tan_beta/0", "get_beta/0", "get_alpha_h/0",
   "get_sin_beta_minus_alpha/0", "get_cos_beta_minus_alpha/0", "get_alpha_em/0", "get_eta/0",
   "get_LambdaFive/0", "get_LambdaSixSeven/0", "get_v/0", "get_v_sqr/0",
   // THDM_parameters
   "get_m122/0", "get_m112/0", "get_m222/0", "get_v1/0", "get_v2/0", "get_g1/0", "get_g2/0", "get_g3/0",
   "get_lambda1/0", "get_lambda2/0", "get_lambda3/0", "get_lambda4/0", "get_lambda5/0", "get_lambda6/0", "get_lambda7/0",
   "get_Gamma_u/0", "get_Gamma_u/2", "get_Pi_u/0", "get_Pi_u/2", "get_Gamma_d/0", "get_Gamma_d/2",
   "get_Gamma_l/0", "get_Gamma_l/2", "get_Pi_d/0", "get_Pi_d/2", "get_Pi_l/0", "get_Pi_l/2",
};

bool same_bits(double a, double b) { return std::memcmp(&a, &b, sizeof a) == 0; }

template <class M, class F>
double mismatches_r(const M& m, F elem, int n)
{
   int bad = 0;
   for (int i = 0; i < n; ++i) { for (int k = 0; k < n; ++k) { if (!same_bits(m(i, k), elem(i, k))) { ++bad; } } }
   return bad;
}

template <class M, class F>
double mismatches_c(const M& m, F elem, int n)
{
   int bad = 0;
   for (int i = 0; i < n; ++i) {
      for (int k = 0; k < n; ++k) {
         const std::complex<double> e = elem(i, k);
         if (!same_bits(m(i, k).real(), e.real()) || !same_bits(m(i, k).imag(), e.imag())) { ++bad; }
      }
   }
   return bad;
}

/// n numbers that follow `label` in the printed text (NaN when the label is missing)
int grab(const std::string& text, const std::string& label, int n, std::string& o)
{
   const auto p = text.find(label);
   int missing = 0;
   const char* q = p == std::string::npos ? nullptr : text.c_str() + p + label.size();
   for (int i = 0; i < n; ++i) {
      double v = std::nan("");
      if (q) {
         while (*q == ' ' || *q == ',' || *q == '{') { ++q; }
         char* end = nullptr;
         v = std::strtod(q, &end);
         if (end == q) { q = nullptr; v = std::nan(""); ++missing; } else { q = end; }
      } else {
         ++missing;
      }
      out(o, v);
   }
   return missing;
}

void block_X(std::string& o, const THDM& m)
{
   const THDM_mass_eigenstates& e = (const THDM_mass_eigenstates&)m;   // private base: a C-style cast may convert to it
   o += " X 48";
   for (int i = 0; i < 2; ++i) { out(o, e.get_Mhh()(i)); }     // 0,1   array getters
   for (int i = 0; i < 2; ++i) { out(o, e.get_MAh()(i)); }     // 2,3
   for (int i = 0; i < 2; ++i) { out(o, e.get_MHm()(i)); }     // 4,5
   for (int i = 0; i < 3; ++i) { out(o, e.get_MFu()(i)); }     // 6..8
   for (int i = 0; i < 3; ++i) { out(o, e.get_MFd()(i)); }     // 9..11
   for (int i = 0; i < 3; ++i) { out(o, e.get_MFe()(i)); }     // 12..14
   for (int i = 0; i < 3; ++i) { out(o, e.get_MFv()(i)); }     // 15..17
   out(o, e.get_v_sqr()); out(o, e.get_sin_beta()); out(o, e.get_cos_beta()); out(o, e.get_eta());   // 18..21
   out(o, e.get_LambdaFive()); out(o, e.get_LambdaSixSeven());                                        // 22,23
   out(o, e.get_v1()); out(o, e.get_v2()); out(o, e.get_g1()); out(o, e.get_g2()); out(o, e.get_g3()); // 24..28
   out(o, e.get_m112()); out(o, e.get_m222()); out(o, e.get_ewsb_eq_hh_1()); out(o, e.get_ewsb_eq_hh_2()); // 29..32
   // matrix getter against element getter, bitwise (number of differing elements)      33..47
   out(o, mismatches_r(e.get_ZH(), [&](int i, int k) { return e.get_ZH(i, k); }, 2));
   out(o, mismatches_r(e.get_ZA(), [&](int i, int k) { return e.get_ZA(i, k); }, 2));
   out(o, mismatches_r(e.get_ZP(), [&](int i, int k) { return e.get_ZP(i, k); }, 2));
   out(o, mismatches_c(e.get_Vd(), [&](int i, int k) { return e.get_Vd(i, k); }, 3));
   out(o, mismatches_c(e.get_Ud(), [&](int i, int k) { return e.get_Ud(i, k); }, 3));
   out(o, mismatches_c(e.get_Vu(), [&](int i, int k) { return e.get_Vu(i, k); }, 3));
   out(o, mismatches_c(e.get_Uu(), [&](int i, int k) { return e.get_Uu(i, k); }, 3));
   out(o, mismatches_c(e.get_Ve(), [&](int i, int k) { return e.get_Ve(i, k); }, 3));
   out(o, mismatches_c(e.get_Ue(), [&](int i, int k) { return e.get_Ue(i, k); }, 3));
   out(o, mismatches_c(e.get_Gamma_u(), [&](int i, int k) { return e.get_Gamma_u(i, k); }, 3));
   out(o, mismatches_c(e.get_Gamma_d(), [&](int i, int k) { return e.get_Gamma_d(i, k); }, 3));
   out(o, mismatches_c(e.get_Gamma_l(), [&](int i, int k) { return e.get_Gamma_l(i, k); }, 3));
   out(o, mismatches_c(e.get_Pi_u(), [&](int i, int k) { return e.get_Pi_u(i, k); }, 3));
   out(o, mismatches_c(e.get_Pi_d(), [&](int i, int k) { return e.get_Pi_d(i, k); }, 3));
   out(o, mismatches_c(e.get_Pi_l(), [&](int i, int k) { return e.get_Pi_l(i, k); }, 3));
}

// ---- P: print(): the numbers as printed (expensive: requested for a subset of the cases) ---------
void block_P(std::string& o, const THDM& m)
{
   o += " P 46";                                      // 0..44 values, 45 = labels not found
   std::ostringstream os;
   m.print(os);
   const std::string t = os.str();
   int miss = 0;
   miss += grab(t, "\nMhh = ", 2, o); miss += grab(t, "\nMAh = ", 2, o); miss += grab(t, "\nMHm = ", 2, o);
   miss += grab(t, "\nMFu = ", 3, o); miss += grab(t, "\nMFd = ", 3, o); miss += grab(t, "\nMFv = ", 3, o); miss += grab(t, "\nMFe = ", 3, o);
   miss += grab(t, "\nMVWm = ", 1, o); miss += grab(t, "\nMVZ = ", 1, o); miss += grab(t, "\nv = ", 1, o);
   miss += grab(t, "\nalpha_h = ", 1, o); miss += grab(t, "\nbeta = ", 1, o);
   miss += grab(t, "\nsin(beta - alpha_h) = ", 1, o); miss += grab(t, "\ncos(beta - alpha_h) = ", 1, o);
   miss += grab(t, "\neta = ", 1, o); miss += grab(t, "\ntan(beta) = ", 1, o);
   miss += grab(t, "\nzeta_u = ", 1, o); miss += grab(t, "\nzeta_d = ", 1, o); miss += grab(t, "\nzeta_l = ", 1, o);
   for (int i = 1; i <= 7; ++i) { miss += grab(t, "\nlambda" + std::to_string(i) + " = ", 1, o); }
   miss += grab(t, "\nm122 = ", 1, o); miss += grab(t, "\nm112 = ", 1, o); miss += grab(t, "\nm222 = ", 1, o);
   miss += grab(t, "\nv1 = ", 1, o); miss += grab(t, "\nv2 = ", 1, o);
   miss += grab(t, "\ng1 = ", 1, o); miss += grab(t, "\ng2 = ", 1, o); miss += grab(t, "\ng3 = ", 1, o);
   out(o, miss);
}

void evaluate(const Case& c, std::string& o)
{
   SM sm = make_sm(c.ckm, c.smspec);
   if (c.mhsm == "auto") {
      const THDM first = build(c, sm);
      sm.set_mh(first.get_Mhh(0));
   } else if (c.mhsm != "-") {
      sm.set_mh(hx(c.mhsm));
   }
   THDM m = build(c, sm);
   // optional post-construction operation sequence: THDM's only public mutator, set_tan_beta(tb1)[, (tb2) ...]
   for (double tb : c.post) { m.set_tan_beta(tb); }
   for (char op : c.ops) {
      switch (op) {
      case 'S': block_S(o, m); break;
      case 'A': block_A(o, m); break;
      case 'T': block_T(o, m); break;
      case 'Y': block_Y(o, m); break;
      case 'X': block_X(o, m); break;
      case 'P': block_P(o, m); break;
      default: throw Bad{std::string("unknown op ") + op};
      }
   }
}

} // anonymous namespace

int main()
{
   std::ios::sync_with_stdio(false);
   std::cerr.rdbuf(nullptr);   // the library prints "Warning: ... ignored" to std::cerr
   std::string line;
   long n = 0, nok = 0, nexc = 0;
   std::string o;
   while (std::getline(std::cin, line)) {
      if (line.empty()) { continue; }
      if (line == "accessors") {
         for (const char* a : ACCESSORS) { std::cout << "ACC " << a << '\n'; }
         continue;
      }
      if (line == "hello") { std::cout << "THDM-HARNESS 7 S96 A4 T17 Y216 X48 P46\n"; continue; }
      std::vector<std::string> tk;
      {
         std::stringstream ss(line);
         std::string t;
         while (ss >> t) { tk.push_back(t); }
      }
      if (tk.size() != 7 + 9 + 3 + 6 + 1) {
         std::cout << "ERR bad token count " << tk.size() << " in: " << line << '\n';
         return 3;
      }
      ++n;
      o.clear();
      Case c;
      try {
         c.id = tk[0];
         c.basis = tk[1].at(0);
         if (c.basis != 'M' && c.basis != 'G') { throw Bad{"bad basis"}; }
         c.ytype = std::atoi(tk[2].c_str());
         c.run = std::atoi(tk[3].c_str());
         c.ckm = std::atoi(tk[4].c_str());
         c.mhsm = tk[5];
         c.smspec = tk[6];
         for (int i = 0; i < 9; ++i) { c.p[i] = hx(tk[7 + i]); }
         for (int i = 0; i < 3; ++i) { c.z[i] = hx(tk[16 + i]); }
         for (int i = 0; i < 3; ++i) { c.D[i] = mat(tk[19 + i]); }
         for (int i = 0; i < 3; ++i) { c.P[i] = mat(tk[22 + i]); }
         c.ops = tk[25];
         const auto at = c.ops.find('@');
         if (at != std::string::npos) {
            std::stringstream ps(c.ops.substr(at + 1));
            std::string t;
            while (std::getline(ps, t, ',')) { c.post.push_back(hx(t)); }
            c.ops = c.ops.substr(0, at);
         }
      } catch (const Bad& b) {
         std::cout << "ERR " << b.what << " in: " << line << '\n';
         return 3;
      } catch (const std::exception& e) {
         std::cout << "ERR " << e.what() << " in: " << line << '\n';
         return 3;
      }
      try {
         evaluate(c, o);
         ++nok;
         std::cout << "R " << c.id << " OK" << o << '\n';
      } catch (const Bad& b) {
         std::cout << "ERR " << b.what << " in: " << line << '\n';
         return 3;
      } catch (const EInvalidInput& e) {
         ++nexc; std::cout << "R " << c.id << " EXC EInvalidInput " << clean(e.what()) << '\n';
      } catch (const EPhysicalProblem& e) {
         ++nexc; std::cout << "R " << c.id << " EXC EPhysicalProblem " << clean(e.what()) << '\n';
      } catch (const ESetupError& e) {
         ++nexc; std::cout << "R " << c.id << " EXC ESetupError " << clean(e.what()) << '\n';
      } catch (const Error& e) {
         ++nexc; std::cout << "R " << c.id << " EXC Error " << clean(e.what()) << '\n';
      } catch (const std::exception& e) {
         ++nexc; std::cout << "R " << c.id << " EXC std::exception " << clean(e.what()) << '\n';
      }
   }
   std::cout << "END " << n << ' ' << nok << ' ' << nexc << '\n';
   return 0;
}
