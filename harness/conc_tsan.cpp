// Free-running ThreadSanitizer pass of C19: the same op bodies as conc.cpp, real concurrency,
// no scheduler (a serialising scheduler's hand-offs would be happens-before edges that blind TSan).
// Usage: conc_tsan <repo> pairs <reps> <opA> <pA> <opB> <pB> [...]     (one PAIR marker per pair on stderr)
//        conc_tsan <repo> many <nthreads> <reps>
//        conc_tsan <repo> canary
#include "conc_ops.hpp"
#include <atomic>
#include <cstdio>
#include <cstdlib>
#include <functional>
#include <pthread.h>
namespace ops { MSSMNoFV_onshell* shared_mssm[2]; MSSMNoFV_onshell* shared_edge[2]; THDM* shared_thdm[2]; std::string slha_text[5]; }
double canary_race(double); double canary_memo(double);
struct Task { std::function<void(ops::Res&)> fn; ops::Res res; };
static std::atomic<int> gate{0}; static int gate_n = 0;
static void* tramp(void* p) { Task* t = (Task*)p; gate.fetch_add(1); while (gate.load() < gate_n) {} t->fn(t->res); return nullptr; }
static void run_conc(std::vector<Task>& ts) {
   gate = 0; gate_n = (int)ts.size(); std::vector<pthread_t> th(ts.size());
   for (size_t i = 0; i < ts.size(); i++) pthread_create(&th[i], nullptr, tramp, &ts[i]);
   for (size_t i = 0; i < ts.size(); i++) pthread_join(th[i], nullptr);
}
int main(int argc, char** argv) {
   if (argc < 3) return 2;
   std::string repo = argv[1], cmd = argv[2];
   ops::init_shared(repo);
   int mism = 0;
   if (cmd == "canary") {
      for (int rep = 0; rep < 20; rep++) { std::vector<Task> ts(2); ts[0].fn = [](ops::Res& r) { r.v.push_back(canary_race(1.0)); }; ts[1].fn = [](ops::Res& r) { r.v.push_back(canary_race(2.0)); }; run_conc(ts); }
      return 0;
   }
   if (cmd == "pairs") {
      int reps = std::atoi(argv[3]);
      for (int a = 4; a + 3 < argc; a += 4) {
         int oa = std::atoi(argv[a]), pa = std::atoi(argv[a + 1]), ob = std::atoi(argv[a + 2]), pb = std::atoi(argv[a + 3]);
         std::fprintf(stderr, "PAIR %d %d %d %d\n", oa, pa, ob, pb);
         ops::Res ra, rb; ops::OPS[oa].fn(pa, ra); ops::OPS[ob].fn(pb, rb);
         for (int rep = 0; rep < reps; rep++) {
            std::vector<Task> ts(2); ts[0].fn = [oa, pa](ops::Res& r) { ops::OPS[oa].fn(pa, r); }; ts[1].fn = [ob, pb](ops::Res& r) { ops::OPS[ob].fn(pb, r); };
            run_conc(ts);
            if (!ts[0].res.same(ra)) { mism++; std::printf("MISMATCH pair %d %d %d %d thread 0: %s\n", oa, pa, ob, pb, ts[0].res.diff(ra).c_str()); }
            if (!ts[1].res.same(rb)) { mism++; std::printf("MISMATCH pair %d %d %d %d thread 1: %s\n", oa, pa, ob, pb, ts[1].res.diff(rb).c_str()); }
         }
      }
      std::printf("DONE mismatches=%d\n", mism); return 0;
   }
   if (cmd == "many") {
      int n = std::atoi(argv[3]), reps = std::atoi(argv[4]);
      std::vector<ops::Res> ref(ops::NOPS * 2); for (int o = 0; o < ops::NOPS; o++) for (int p = 0; p < 2; p++) ops::OPS[o].fn(p, ref[o * 2 + p]);
      for (int rep = 0; rep < reps; rep++) {
         std::vector<Task> ts(n);
         for (int i = 0; i < n; i++) { int k = (i + rep * 5) % (ops::NOPS * 2); ts[i].fn = [k](ops::Res& r) { ops::OPS[k / 2].fn(k % 2, r); }; }
         std::fprintf(stderr, "MANY %d rep %d\n", n, rep);
         run_conc(ts);
         for (int i = 0; i < n; i++) { int k = (i + rep * 5) % (ops::NOPS * 2); if (!ts[i].res.same(ref[k])) { mism++; std::printf("MISMATCH many n=%d rep=%d thread %d op %d[%d]: %s\n", n, rep, i, k / 2, k % 2, ts[i].res.diff(ref[k]).c_str()); } }
      }
      std::printf("DONE mismatches=%d\n", mism); return 0;
   }
   return 2;
}
