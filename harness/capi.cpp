// capi: C17 - the C interface as a faithful, exception-tight mirror of the C++ interface.
// Every call sequence is executed in a forked child (ASan build) on a C handle and, step by
// step, on a C++ mirror object; after every step ALL const entry points (getters, a_mu,
// contributions, uncertainties, problem flags, string getters with several buffer lengths)
// are called on both and compared bit for bit.
//   capi seq    : stdin lines "<id> op|op|..." , op = "fid i k xhex n len it" (fid<0: macro ops)
//   capi pairs  : exhaustive setter -> matching getter check (fresh and prepared model)
//   capi thdm   : stdin lines describing THDM constructor cases
//   capi list   : prints the generated function table
#include "gm2calc/MSSMNoFV_onshell.h"
#include "gm2calc/MSSMNoFV_onshell.hpp"
#include "gm2calc/THDM.h"
#include "gm2calc/THDM.hpp"
#include "gm2calc/SM.h"
#include "gm2calc/gm2_1loop.h"
#include "gm2calc/gm2_1loop.hpp"
#include "gm2calc/gm2_2loop.h"
#include "gm2calc/gm2_2loop.hpp"
#include "gm2calc/gm2_uncertainty.h"
#include "gm2calc/gm2_uncertainty.hpp"
#include "gm2calc/gm2_error.h"
#include "gm2calc/gm2_error.hpp"
#include <climits>
#include <cmath>
#include <complex>
#include <cstdio>
#include <cstdlib>
#include <cstring>
#include <functional>
#include <iostream>
#include <limits>
#include <sstream>
#include <string>
#include <sys/wait.h>
#include <unistd.h>
#include <fcntl.h>
#include <vector>

struct Args { unsigned i = 0, k = 0; double x = 0; int n = 0; unsigned len = 0; unsigned it = 0; };
struct Obs { std::vector<double> v; std::string str; int code = -1; };
struct FnInfo { int id; const char* name; const char* sig; int d1; int d2; const char* pair; };

template <class F> static double nan_on_throw(F f) { try { return f(); } catch (...) { return std::numeric_limits<double>::quiet_NaN(); } }
template <class F> static int code_of(F f) {
   try { f(); return (int)gm2calc_NoError; }
   catch (const gm2calc::EInvalidInput&) { return (int)gm2calc_InvalidInput; }
   catch (const gm2calc::EPhysicalProblem&) { return (int)gm2calc_PhysicalProblem; }
   catch (...) { return (int)gm2calc_UnknownError; }
}
// string getter: buffer of `len` bytes inside a canary frame; records content and whether the frame was touched
static void strget(Obs& o, const std::function<void(char*, unsigned)>& f, unsigned len) {
   std::vector<char> buf(len + 64, (char)0x5A);
   f(buf.data() + 32, len);
   bool touched = false;
   for (size_t j = 0; j < 32; j++) if (buf[j] != (char)0x5A || buf[32 + len + j] != (char)0x5A) touched = true;
   if (touched) o.str += "<OUT-OF-BOUNDS-WRITE>";
   if (len > 0) { bool nul = false; for (unsigned j = 0; j < len; j++) if (buf[32 + j] == 0) { nul = true; break; }
      if (!nul) o.str += "<NOT-TERMINATED>"; else o.str += std::string(buf.data() + 32); }
   o.str += "|";
}
static void strref(Obs& o, const std::string& s, unsigned len) { if (len > 0) o.str += s.substr(0, len - 1); o.str += "|"; }

#include "capi_gen.inc"

static bool same_double(double a, double b) { return std::memcmp(&a, &b, 8) == 0 || (std::isnan(a) && std::isnan(b)); }
static uint64_t fnv(const void* p, size_t n, uint64_t h = 1469598103934665603ull) { const unsigned char* c = (const unsigned char*)p; for (size_t i = 0; i < n; i++) { h ^= c[i]; h *= 1099511628211ull; } return h; }

static const unsigned LENS[] = {0, 1, 2, 8, 64, 4096};
static std::string escaped;   // name of a C function that let an exception escape

// call one C function guarded: an exception crossing the extern "C" boundary is an observation
static void guarded_c(int f, MSSMNoFV_onshell* h, const Args& a, Obs& o) {
   try { call_c(f, h, a, o); } catch (...) { if (escaped.empty()) escaped = FNS[f].name; o.code = -99; }
}

// all const entry points on both sides; returns description of first mismatch (empty = equal)
static std::string observe(MSSMNoFV_onshell* h, gm2calc::MSSMNoFV_onshell& M, uint64_t* hash) {
   std::string bad; uint64_t hs = 1469598103934665603ull;
   for (int f = 0; f < NFNS; f++) {
      const std::string sig = FNS[f].sig;
      bool is_const = sig.rfind("double:H", 0) == 0 && sig != "double:H,D";
      bool is_flag = sig == "int:H", is_str = sig == "void:H,PC,U";
      if (!is_const && !is_flag && !is_str) continue;
      int n1 = FNS[f].d1 ? FNS[f].d1 : 1, n2 = FNS[f].d2 ? FNS[f].d2 : 1;
      if ((sig == "double:H,U" && !FNS[f].d1) || ((sig == "double:H,U,U" || sig == "double:H,U,U,PD") && !FNS[f].d2)) { if (bad.empty()) bad = std::string("no dimension known for ") + FNS[f].name; continue; }
      for (int i = 0; i < n1; i++) for (int k = 0; k < n2; k++) {
         // string getters: fixed buffer lengths plus the lengths around the actual message length
         // (exact fit, one short, one long), taken from the mirror
         std::vector<unsigned> lens(1, 0u);
         if (is_str) {
            lens.assign(LENS, LENS + sizeof LENS / sizeof LENS[0]);
            Args a0; a0.len = 1u << 20; Obs om; call_cxx(f, M, a0, om);
            unsigned L = om.str.empty() ? 0 : (unsigned)om.str.size() - 1;   // strref appends '|'
            for (int dl = -2; dl <= 2; dl++) if ((int)L + dl >= 0) lens.push_back(L + dl);
         }
         int nl = (int)lens.size();
         for (int l = 0; l < nl; l++) {
            Args a; a.i = i; a.k = k; a.len = lens[l];
            Obs oc, ox; guarded_c(f, h, a, oc); call_cxx(f, M, a, ox);
            bool eq = oc.v.size() == ox.v.size() && oc.str == ox.str;
            if (eq) for (size_t j = 0; j < oc.v.size(); j++) if (!same_double(oc.v[j], ox.v[j])) eq = false;
            if (!eq && bad.empty()) { char b[256]; std::snprintf(b, sizeof b, "%s(%d,%d,len=%u): C=%a '%s' C++=%a '%s'", FNS[f].name, i, k, a.len, oc.v.empty() ? 0. : oc.v[0], oc.str.substr(0, 40).c_str(), ox.v.empty() ? 0. : ox.v[0], ox.str.substr(0, 40).c_str()); bad = b; }
            for (double d : ox.v) { if (std::isnan(d)) d = std::numeric_limits<double>::quiet_NaN(); hs = fnv(&d, 8, hs); }
            hs = fnv(ox.str.data(), ox.str.size(), hs);
         }
      }
      if (is_str) { Args a; a.len = 16; try { /* NULL buffer must be harmless */ if (std::string(FNS[f].name) == "get_problems") gm2calc_mssmnofv_get_problems(h, nullptr, 16); else gm2calc_mssmnofv_get_warnings(h, nullptr, 16); } catch (...) { if (escaped.empty()) escaped = FNS[f].name; } }
   }
   // the value-taking uncertainty overloads
   for (int f = 0; f < NFNS; f++) if (std::string(FNS[f].sig) == "double:H,D") for (double x : {0.0, 1e-9, -3e-9}) {
      Args a; a.x = x; Obs oc, ox; guarded_c(f, h, a, oc); call_cxx(f, M, a, ox);
      if ((oc.v.size() != ox.v.size() || (oc.v.size() && !same_double(oc.v[0], ox.v[0]))) && bad.empty()) bad = std::string(FNS[f].name) + " differs";
   }
   if (hash) *hash = hs;
   return bad;
}

static int fid_of(const char* name) { for (int f = 0; f < NFNS; f++) if (!std::strcmp(FNS[f].name, name)) return f; return -1; }
static void both(MSSMNoFV_onshell* h, gm2calc::MSSMNoFV_onshell& M, const char* name, double x, unsigned i = 0, unsigned k = 0) {
   int f = fid_of(name); if (f < 0) { std::fprintf(stderr, "macro: unknown %s\n", name); _exit(9); }
   Args a; a.i = i; a.k = k; a.x = x; Obs oc, ox; guarded_c(f, h, a, oc); call_cxx(f, M, a, ox);
}
static void macro_sm(MSSMNoFV_onshell* h, gm2calc::MSSMNoFV_onshell& M) {
   both(h, M, "set_alpha_MZ", 0.0077552); both(h, M, "set_alpha_thompson", 0.00729735); both(h, M, "set_g3", std::sqrt(4 * 3.141592653589793 * 0.1184));
   both(h, M, "set_MT_pole", 173.34); both(h, M, "set_MB_running", 4.18); both(h, M, "set_MM_pole", 0.1056583715); both(h, M, "set_ML_pole", 1.777);
   both(h, M, "set_MW_pole", 80.385); both(h, M, "set_MZ_pole", 91.1876);
}
static void macro_gm2calc(MSSMNoFV_onshell* h, gm2calc::MSSMNoFV_onshell& M) {
   macro_sm(h, M);
   both(h, M, "set_TB", 10); both(h, M, "set_Ae", 0, 1, 1); both(h, M, "set_Mu", 350); both(h, M, "set_MassB", 150); both(h, M, "set_MassWB", 300); both(h, M, "set_MassG", 1000);
   for (unsigned g = 0; g < 3; g++) { both(h, M, "set_mq2", 250000, g, g); both(h, M, "set_ml2", 250000, g, g); both(h, M, "set_md2", 250000, g, g); both(h, M, "set_mu2", 250000, g, g); both(h, M, "set_me2", 250000, g, g); }
   both(h, M, "set_Au", 0, 2, 2); both(h, M, "set_Ad", 0, 2, 2); both(h, M, "set_Ae", 0, 2, 2); both(h, M, "set_MAh_pole", 1500); both(h, M, "set_scale", 454.7);
}
static void macro_slha(MSSMNoFV_onshell* h, gm2calc::MSSMNoFV_onshell& M) {
   macro_sm(h, M);
   both(h, M, "set_MSvmL_pole", 5.18860573e+02); both(h, M, "set_MSm_pole", 5.05095249e+02, 0); both(h, M, "set_MSm_pole", 5.25187016e+02, 1);
   both(h, M, "set_MChi_pole", 2.01611468e+02, 0); both(h, M, "set_MChi_pole", 4.10040273e+02, 1); both(h, M, "set_MChi_pole", -5.16529941e+02, 2); both(h, M, "set_MChi_pole", 5.45628749e+02, 3);
   both(h, M, "set_MCha_pole", 4.09989890e+02, 0); both(h, M, "set_MCha_pole", 5.46057190e+02, 1); both(h, M, "set_MAh_pole", 1.5e+03);
   both(h, M, "set_TB", 40); both(h, M, "set_Mu", 500); both(h, M, "set_MassB", 200); both(h, M, "set_MassWB", 400); both(h, M, "set_MassG", 2000);
   for (unsigned g = 0; g < 3; g++) { both(h, M, "set_mq2", 4.9e7, g, g); both(h, M, "set_md2", 4.9e7, g, g); both(h, M, "set_mu2", 4.9e7, g, g); both(h, M, "set_ml2", 250000, g, g); both(h, M, "set_me2", 250000, g, g); }
   both(h, M, "set_Au", 0, 2, 2); both(h, M, "set_Ad", 0, 2, 2); both(h, M, "set_Ae", 0, 1, 1); both(h, M, "set_Ae", 0, 2, 2); both(h, M, "set_scale", 1000);
}

// SLHA-type point whose Mu/M1/M2 iteration converges slowly (near-degenerate higgsino and wino, pole masses 1 % off
// the tree-level spectrum): needs between 100 and 1000 iterations at precision 1e-8
static void macro_slha_slow(MSSMNoFV_onshell* h, gm2calc::MSSMNoFV_onshell& M) {
   macro_sm(h, M);
   both(h, M, "set_MSvmL_pole", 495.907995); both(h, M, "set_MSm_pole", 452.004415, 0); both(h, M, "set_MSm_pole", 502.262175, 1);
   both(h, M, "set_MChi_pole", 300.044614, 0); both(h, M, "set_MChi_pole", 555.847586, 1); both(h, M, "set_MChi_pole", 608.98212, 2); both(h, M, "set_MChi_pole", 682.28992, 3);
   both(h, M, "set_MCha_pole", 554.598133, 0); both(h, M, "set_MCha_pole", 681.884601, 1); both(h, M, "set_MAh_pole", 1.5e+03);
   both(h, M, "set_TB", 10); both(h, M, "set_Mu", 600); both(h, M, "set_MassB", 300); both(h, M, "set_MassWB", 620); both(h, M, "set_MassG", 2000);
   for (unsigned g = 0; g < 3; g++) { both(h, M, "set_mq2", 4e6, g, g); both(h, M, "set_md2", 4e6, g, g); both(h, M, "set_mu2", 4e6, g, g); both(h, M, "set_ml2", 250000, g, g); both(h, M, "set_me2", 202500, g, g); }
   both(h, M, "set_Au", 0, 2, 2); both(h, M, "set_Ad", 0, 2, 2); both(h, M, "set_Ae", 0, 1, 1); both(h, M, "set_Ae", 0, 2, 2); both(h, M, "set_scale", 1000);
}

// executes one sequence in THIS process; result string "STATUS hash detail"
static std::string run_sequence(const std::string& seq) {
   MSSMNoFV_onshell* h = gm2calc_mssmnofv_new();
   gm2calc::MSSMNoFV_onshell M;
   gm2calc_mssmnofv_set_verbose_output(h, 0);
   std::string status = "OK", detail; uint64_t hash = 0;
   std::istringstream ss(seq); std::string tok; int step = 0;
   auto check = [&](const char* when) {
      std::string bad = observe(h, M, &hash);
      std::string bad2 = observe(h, M, nullptr);    // const calls must not change what const calls return
      if (status == "OK" && !escaped.empty()) { status = "ESCAPE"; detail = "exception escaped from gm2calc_mssmnofv_" + escaped + " " + when; }
      if (status == "OK" && (!bad.empty() || !bad2.empty())) { status = "MISMATCH"; detail = (bad.empty() ? bad2 : bad) + " " + when; }
   };
   check("on fresh handle");
   while (std::getline(ss, tok, '|')) {
      step++;
      int f; Args a; char xs[64] = "0";
      if (std::sscanf(tok.c_str(), "%d %u %u %63s %d %u %u", &f, &a.i, &a.k, xs, &a.n, &a.len, &a.it) < 1) continue;
      a.x = std::strtod(xs, nullptr);
      if (f == -1) macro_gm2calc(h, M);
      else if (f == -2) macro_slha(h, M);
      else if (f == -4) macro_slha_slow(h, M);
      else if (f == -5 || f == -6) {
         // a model left behind by a REFUSED calculation: -5 tachyonic stau (problem flag stays set), -6 negative
         // soft mass without tachyon; error codes / exception classes of whatever follows must still correspond
         macro_gm2calc(h, M);
         if (f == -5) both(h, M, "set_ml2", -1e6, 2, 2); else both(h, M, "set_me2", -100, 0, 0);
         int fc = fid_of("calculate_masses"); Args a0; Obs oc, ox; guarded_c(fc, h, a0, oc); call_cxx(fc, M, a0, ox);
         if (status == "OK" && oc.code != ox.code && oc.code != -99) { status = "MISMATCH"; char b[160]; std::snprintf(b, sizeof b, "calculate_masses in failed-state macro %d: C error code %d, C++ exception class maps to %d", f, oc.code, ox.code); detail = b; }
      }
      else if (f == -3) { try { gm2calc_mssmnofv_free(nullptr); gm2calc_thdm_free(nullptr); } catch (...) { escaped = "free(NULL)"; } }
      else if (f >= 0 && f < NFNS) {
         Obs oc, ox; guarded_c(f, h, a, oc); call_cxx(f, M, a, ox);
         if (status == "OK" && oc.code != ox.code && oc.code != -99) { status = "MISMATCH"; char b[160]; std::snprintf(b, sizeof b, "%s: C error code %d, C++ exception class maps to %d (step %d)", FNS[f].name, oc.code, ox.code, step); detail = b; }
      }
      char w[48]; std::snprintf(w, sizeof w, "after step %d", step); check(w);
   }
   gm2calc_mssmnofv_free(h);
   char b[64]; std::snprintf(b, sizeof b, "%016llx", (unsigned long long)hash);
   return status + " " + b + " " + detail;
}

// fork, run fn() in the child, collect its single result line; abnormal death becomes "CRASH ..."
static std::string in_child(const std::function<std::string()>& fn) {
   int pd[2], pe[2]; if (pipe(pd) || pipe(pe)) return "INFRA pipe";
   std::fflush(stdout); std::fflush(stderr);
   pid_t pid = fork();
   if (pid == 0) {
      close(pd[0]); close(pe[0]); dup2(pe[1], 2);
      std::string r = fn(); r += "\n"; ssize_t w = write(pd[1], r.data(), r.size()); (void)w; _exit(0);
   }
   close(pd[1]); close(pe[1]);
   std::string out, err; char buf[4096]; ssize_t n;
   while ((n = read(pd[0], buf, sizeof buf)) > 0) out.append(buf, n);
   while ((n = read(pe[0], buf, sizeof buf)) > 0) { if (err.size() < 20000) err.append(buf, n); }
   close(pd[0]); close(pe[0]);
   int st = 0; waitpid(pid, &st, 0);
   if (WIFEXITED(st) && WEXITSTATUS(st) == 0 && !out.empty()) { if (out.back() == '\n') out.pop_back(); return out; }
   std::string why;
   size_t p = err.find("ERROR: AddressSanitizer"); if (p == std::string::npos) p = err.find("runtime error"); if (p == std::string::npos) p = err.find("terminate called");
   why = p == std::string::npos ? err.substr(0, 200) : err.substr(p, 300);
   for (auto& c : why) if (c == '\n') c = ' ';
   char b[64]; std::snprintf(b, sizeof b, "CRASH 0 %s=%d ", WIFSIGNALED(st) ? "signal" : "exit", WIFSIGNALED(st) ? WTERMSIG(st) : WEXITSTATUS(st));
   return std::string(b) + why;
}

// ---------------------------------------------------------------- THDM cases
// valid Yukawa types are passed by their NAMED enumerators on both sides (the C and the C++ names of one
// type must denote the same model); out-of-range values are raw integers
static void set_c_type(gm2calc_THDM_yukawa_type* field, int t) {
   switch (t) { case 1: *field = gm2calc_THDM_type_1; return; case 2: *field = gm2calc_THDM_type_2; return; case 3: *field = gm2calc_THDM_type_X; return;
                case 4: *field = gm2calc_THDM_type_Y; return; case 5: *field = gm2calc_THDM_aligned; return; case 6: *field = gm2calc_THDM_general; return; }
   std::memcpy(field, &t, sizeof t);      // what a C caller can do: any int in the member
}
static gm2calc::thdm::Yukawa_type x_named(int t) {
   using gm2calc::thdm::Yukawa_type;
   switch (t) { case 1: return Yukawa_type::type_1; case 2: return Yukawa_type::type_2; case 3: return Yukawa_type::type_X;
                case 4: return Yukawa_type::type_Y; case 5: return Yukawa_type::aligned; default: return Yukawa_type::general; }
}
static void fill_mass(gm2calc_THDM_mass_basis& b, int p, int ytype) {
   std::memset(&b, 0, sizeof b);
   set_c_type(&b.yukawa_type, ytype);
   b.mh = 125; b.mH = p ? 330 : 400; b.mA = p ? 290 : 420; b.mHp = p ? 350 : 440; b.sin_beta_minus_alpha = p ? 0.9 : 0.995;
   b.lambda_6 = p ? -0.1 : 0.2; b.lambda_7 = 0.1; b.tan_beta = p ? 20 : 3; b.m122 = p ? 5000 : 40000;
   b.zeta_u = 0.3; b.zeta_d = -1.5; b.zeta_l = 25; b.Delta_l[0][1] = 0.01; b.Pi_l[1][1] = p ? 0.02 : 0;
   if (p == 2) { b.mh = 500; }            // mh > mH: invalid input
   if (p == 3) { b.tan_beta = -1; }
   // boundary values of the validated inputs (the C layer must draw every line exactly where the C++ layer does)
   const double E = 2.220446049250313e-16;
   switch (p) {
      case 10: b.sin_beta_minus_alpha = std::nextafter(1.0, 2.0); break;
      case 11: b.sin_beta_minus_alpha = 1 + 8 * E; break;
      case 12: b.sin_beta_minus_alpha = 1 + 16 * E; break;
      case 13: b.sin_beta_minus_alpha = -std::nextafter(1.0, 2.0); break;
      case 14: b.sin_beta_minus_alpha = 1.0; break;
      case 15: b.sin_beta_minus_alpha = std::nextafter(1.0, 0.0); break;
      case 16: b.tan_beta = 4.9406564584124654e-324; break;
      case 17: b.tan_beta = -0.0; break;
      case 18: b.mh = std::nextafter(b.mH, 1e9); break;
      case 19: b.mh = b.mH; break;
      case 20: b.mA = -0.0; break;
      case 21: b.mHp = 4.9406564584124654e-324; break;
      case 22: b.mh = -0.0; break;
      case 23: b.mA = -4.9406564584124654e-324; break;
      case 24: b.sin_beta_minus_alpha = -1.0; break;
      default: break;
   }
}
static void fill_gauge(gm2calc_THDM_gauge_basis& b, int p, int ytype) {
   std::memset(&b, 0, sizeof b);
   set_c_type(&b.yukawa_type, ytype);
   const double l[7] = {0.7, 0.6, 0.5, 0.4, 0.3, 0.2, 0.1};
   for (int i = 0; i < 7; i++) b.lambda[i] = (p == 2 ? -3 * l[i] : l[i]);     // p==2: tachyonic
   b.tan_beta = p == 3 ? 0 : 3; b.m122 = p ? 1000 : 40000; b.zeta_u = 0.1; b.zeta_l = -2; b.Pi_u[2][2] = p ? 0.1 : 0;
   if (p == 16) b.tan_beta = 4.9406564584124654e-324;
   if (p == 17) b.tan_beta = -0.0;
}
template <class CB, class XB> static void copy_common(const CB& c, XB& x) {
   x.tan_beta = c.tan_beta; x.m122 = c.m122; x.zeta_u = c.zeta_u; x.zeta_d = c.zeta_d; x.zeta_l = c.zeta_l;
   for (int i = 0; i < 3; i++) for (int k = 0; k < 3; k++) { x.Delta_u(i, k) = c.Delta_u[i][k]; x.Delta_d(i, k) = c.Delta_d[i][k]; x.Delta_l(i, k) = c.Delta_l[i][k]; x.Pi_u(i, k) = c.Pi_u[i][k]; x.Pi_d(i, k) = c.Pi_d[i][k]; x.Pi_l(i, k) = c.Pi_l[i][k]; }
}
static std::string run_thdm(const std::string& line) {
   int gauge = 0, ytype = 2, smnull = 0, cfgnull = 0, bnull = 0, outnull = 0, p = 0, force = 0, running = 1, smvar = 0;
   std::sscanf(line.c_str(), "%d %d %d %d %d %d %d %d %d %d", &gauge, &ytype, &smnull, &cfgnull, &bnull, &outnull, &p, &force, &running, &smvar);
   gm2calc_SM csm; gm2calc_sm_set_to_default(&csm); if (smvar) { csm.mh = 130; csm.mu[2] = 170; csm.ckm_imag[0][2] = 0.003; }
   gm2calc_THDM_config ccfg; gm2calc_thdm_config_set_to_default(&ccfg); ccfg.force_output = force; ccfg.running_couplings = running;
   gm2calc_THDM_mass_basis cm; gm2calc_THDM_gauge_basis cg; fill_mass(cm, p, ytype); fill_gauge(cg, p, ytype);
   gm2calc_THDM* h = (gm2calc_THDM*)0x1; gm2calc_error code;
   std::string status = "OK", detail;
   try {
      code = gauge ? gm2calc_thdm_new_with_gauge_basis(outnull ? nullptr : &h, bnull ? nullptr : &cg, smnull ? nullptr : &csm, cfgnull ? nullptr : &ccfg)
                   : gm2calc_thdm_new_with_mass_basis(outnull ? nullptr : &h, bnull ? nullptr : &cm, smnull ? nullptr : &csm, cfgnull ? nullptr : &ccfg);
   } catch (...) { return "ESCAPE 0 exception escaped from gm2calc_thdm_new_with_" + std::string(gauge ? "gauge" : "mass") + "_basis"; }
   if (outnull) return std::string(code == gm2calc_NoError ? "MISMATCH 0 NULL out-pointer accepted with NoError" : "OK 1 ");
   // mirror
   gm2calc::SM xsm; if (!smnull) { xsm.set_alpha_em_0(csm.alpha_em_0); xsm.set_alpha_em_mz(csm.alpha_em_mz); xsm.set_alpha_s_mz(csm.alpha_s_mz); xsm.set_mh(csm.mh); xsm.set_mw(csm.mw); xsm.set_mz(csm.mz);
      for (int i = 0; i < 3; i++) { xsm.set_mu(i, csm.mu[i]); xsm.set_md(i, csm.md[i]); xsm.set_mv(i, csm.mv[i]); xsm.set_ml(i, csm.ml[i]); }
      Eigen::Matrix<std::complex<double>,3,3> ckm; for (int i = 0; i < 3; i++) for (int k = 0; k < 3; k++) ckm(i, k) = std::complex<double>(csm.ckm_real[i][k], csm.ckm_imag[i][k]); xsm.set_ckm(ckm); }
   gm2calc::thdm::Config xcfg; if (!cfgnull) { xcfg.force_output = force != 0; xcfg.running_couplings = running != 0; }
   const bool valid_type = ytype >= 1 && ytype <= 6;
   gm2calc::THDM* X = nullptr; int xcode;
   if (!valid_type && !bnull) xcode = -2;   // an out-of-range enum value has no C++ counterpart: any refusal code is accepted, NoError is not
   else xcode = code_of([&] {
      if (gauge) { gm2calc::thdm::Gauge_basis b; if (!bnull) { b.yukawa_type = x_named(ytype); for (int i = 0; i < 7; i++) b.lambda(i) = cg.lambda[i]; copy_common(cg, b); } X = new gm2calc::THDM(b, xsm, xcfg); }
      else { gm2calc::thdm::Mass_basis b; if (!bnull) { b.yukawa_type = x_named(ytype); b.mh = cm.mh; b.mH = cm.mH; b.mA = cm.mA; b.mHp = cm.mHp; b.sin_beta_minus_alpha = cm.sin_beta_minus_alpha; b.lambda_6 = cm.lambda_6; b.lambda_7 = cm.lambda_7; copy_common(cm, b); } X = new gm2calc::THDM(b, xsm, xcfg); } });
   char b[256];
   if (xcode == -2) { if (code == gm2calc_NoError) { status = "MISMATCH"; std::snprintf(b, sizeof b, "yukawa_type %d outside 1..6 accepted with NoError", ytype); detail = b; } if (code != gm2calc_NoError && h != nullptr) { status = "MISMATCH"; detail = "error code without NULL handle"; } }
   else if ((int)code != xcode) { status = "MISMATCH"; std::snprintf(b, sizeof b, "constructor: C error code %d (%s), C++ exception class maps to %d", (int)code, gm2calc_error_str(code), xcode); detail = b; }
   else if (code != gm2calc_NoError && h != nullptr) { status = "MISMATCH"; detail = "error code without NULL handle"; }
   uint64_t hs = 1469598103934665603ull;
   if (status == "OK" && code == gm2calc_NoError && X) {
      typedef double (*CF)(const gm2calc_THDM*); typedef double (*XF)(const gm2calc::THDM&);
      struct { const char* n; CF c; XF x; } fs[] = {
         {"calculate_amu_1loop", gm2calc_thdm_calculate_amu_1loop, gm2calc::calculate_amu_1loop}, {"calculate_amu_2loop", gm2calc_thdm_calculate_amu_2loop, gm2calc::calculate_amu_2loop},
         {"calculate_amu_2loop_fermionic", gm2calc_thdm_calculate_amu_2loop_fermionic, gm2calc::calculate_amu_2loop_fermionic}, {"calculate_amu_2loop_bosonic", gm2calc_thdm_calculate_amu_2loop_bosonic, gm2calc::calculate_amu_2loop_bosonic},
         {"calculate_uncertainty_amu_0loop", gm2calc_thdm_calculate_uncertainty_amu_0loop, gm2calc::calculate_uncertainty_amu_0loop}, {"calculate_uncertainty_amu_1loop", gm2calc_thdm_calculate_uncertainty_amu_1loop, gm2calc::calculate_uncertainty_amu_1loop},
         {"calculate_uncertainty_amu_2loop", gm2calc_thdm_calculate_uncertainty_amu_2loop, gm2calc::calculate_uncertainty_amu_2loop}};
      for (auto& f : fs) {
         double c; try { c = f.c(h); } catch (...) { status = "ESCAPE"; detail = std::string("exception escaped from gm2calc_thdm_") + f.n; break; }
         double x = nan_on_throw([&] { return f.x(*X); });
         if (!same_double(c, x)) { status = "MISMATCH"; std::snprintf(b, sizeof b, "gm2calc_thdm_%s = %a, C++ = %a", f.n, c, x); detail = b; break; }
         hs = fnv(&x, 8, hs);
      }
   }
   if (code == gm2calc_NoError) gm2calc_thdm_free(h);
   delete X;
   std::snprintf(b, sizeof b, "%016llx", (unsigned long long)(hs ^ (uint64_t)code));
   return status + " " + b + " " + detail;
}

// ---------------------------------------------------------------- setter -> getter pairs
static std::string run_pairs(int prepared) {
   MSSMNoFV_onshell* h = gm2calc_mssmnofv_new(); gm2calc::MSSMNoFV_onshell M; gm2calc_mssmnofv_set_verbose_output(h, 0);
   if (prepared) { macro_gm2calc(h, M); gm2calc_mssmnofv_calculate_masses(h); }
   const double vals[] = {1, -2.5, 0, 1e-300, 1e300, std::numeric_limits<double>::quiet_NaN(), std::numeric_limits<double>::infinity(), -std::numeric_limits<double>::infinity()};
   long n = 0, bad = 0; std::string first;
   for (int f = 0; f < NFNS; f++) {
      std::string nm = FNS[f].name, sig = FNS[f].sig;
      if (nm.rfind("set_", 0) != 0 || !FNS[f].pair[0]) continue;
      int g = fid_of(FNS[f].pair); if (g < 0) continue;      // setter without a getter of the same quantity
      int n1 = FNS[f].d1 ? FNS[f].d1 : 1, n2 = FNS[f].d2 ? FNS[f].d2 : 1;
      for (int i = 0; i < n1; i++) for (int k = 0; k < n2; k++) for (double x : vals) {
         Args a; a.i = i; a.k = k; a.x = x; Obs o1, o2; guarded_c(f, h, a, o1); guarded_c(g, h, a, o2); n++;
         if (!escaped.empty()) return "ESCAPE 0 exception escaped from gm2calc_mssmnofv_" + escaped;
         // tan(beta) is stored as (vd, vu): the getter re-forms the ratio, exact to a few ulp for finite positive input
         bool ok = !o2.v.empty() && same_double(o2.v[0], x);
         if (!ok && nm == "set_TB" && !o2.v.empty()) ok = !(std::isfinite(x) && x != 0 && std::fabs(x) < 1e100 && std::fabs(x) > 1e-100) || std::fabs(o2.v[0] - x) <= 4 * 2.220446049250313e-16 * std::fabs(x);
         if (!ok) { bad++; if (first.find(nm) == std::string::npos) { char b[200]; std::snprintf(b, sizeof b, "%s(%d,%d,%a) then %s -> %a", nm.c_str(), i, k, x, FNS[g].name, o2.v.empty() ? 0. : o2.v[0]); first += b; first += "; "; } }
      }
   }
   gm2calc_mssmnofv_free(h);
   char b[128]; std::snprintf(b, sizeof b, "%s %ld pairs=%ld bad=%ld ", bad ? "MISMATCH" : "OK", n, n, bad);
   return std::string(b) + first;
}

// ---------------------------------------------------------------- C entry points that take no model handle
// int_to_c_yukawa_type(i): 1..6 map to the enumerators in the documented order (same as thdm::int_to_cpp_yukawa_type),
// any other integer must neither let an exception escape nor terminate the process;
// gm2calc_error_str(code): a printable string for every int, never NULL;
// the *_set_to_default functions reproduce the default-constructed C++ objects.
static std::string run_helper(const std::string& rest) {
   char what[32]; long v = 0; std::sscanf(rest.c_str(), "%31s %ld", what, &v); std::string w = what; char b[256];
   if (w == "yuk") {
      gm2calc_THDM_yukawa_type t;
      try { t = int_to_c_yukawa_type((int)v); } catch (...) { return "ESCAPE 0 exception escaped from int_to_c_yukawa_type"; }
      int ti; std::memcpy(&ti, &t, sizeof ti);
      if (v >= 1 && v <= 6) {
         const gm2calc_THDM_yukawa_type want[] = {gm2calc_THDM_type_1, gm2calc_THDM_type_2, gm2calc_THDM_type_X, gm2calc_THDM_type_Y, gm2calc_THDM_aligned, gm2calc_THDM_general};
         int xi = -1; try { xi = (int)gm2calc::thdm::int_to_cpp_yukawa_type((int)v); } catch (...) { return "MISMATCH 0 int_to_cpp_yukawa_type throws for a valid type"; }
         int wi; std::memcpy(&wi, &want[v - 1], sizeof wi);
         if (ti != wi) { std::snprintf(b, sizeof b, "MISMATCH 0 int_to_c_yukawa_type(%ld) = %d, documented enumerator has value %d", v, ti, wi); return b; }
         if (xi != (int)x_named((int)v)) { std::snprintf(b, sizeof b, "MISMATCH 0 int_to_cpp_yukawa_type(%ld) is not the named enumerator", v); return b; }
      }
      std::snprintf(b, sizeof b, "OK %d ", ti); return b;
   }
   if (w == "errstr") {
      const char* sp = nullptr; gm2calc_error e; int iv = (int)v; std::memcpy(&e, &iv, sizeof iv);
      try { sp = gm2calc_error_str(e); } catch (...) { return "ESCAPE 0 exception escaped from gm2calc_error_str"; }
      if (!sp) return "MISMATCH 0 gm2calc_error_str returned NULL";
      size_t n = strnlen(sp, 4096); if (n == 0 || n >= 4096) return "MISMATCH 0 gm2calc_error_str returned an empty or unterminated string";
      for (size_t i = 0; i < n; i++) if ((unsigned char)sp[i] < 32 || (unsigned char)sp[i] > 126) return "MISMATCH 0 gm2calc_error_str returned unprintable text";
      std::snprintf(b, sizeof b, "OK %zu ", n); return b;
   }
   if (w == "defaults") {
      gm2calc_SM csm; std::memset(&csm, 0xAB, sizeof csm); gm2calc_THDM_config cc; std::memset(&cc, 0xAB, sizeof cc);
      try { gm2calc_sm_set_to_default(&csm); gm2calc_thdm_config_set_to_default(&cc); } catch (...) { return "ESCAPE 0 exception escaped from a set_to_default function"; }
      gm2calc::SM x; gm2calc::thdm::Config xc;
      bool ok = same_double(csm.alpha_em_0, x.get_alpha_em_0()) && same_double(csm.alpha_em_mz, x.get_alpha_em_mz()) && same_double(csm.alpha_s_mz, x.get_alpha_s_mz())
         && same_double(csm.mh, x.get_mh()) && same_double(csm.mw, x.get_mw()) && same_double(csm.mz, x.get_mz());
      for (int i = 0; i < 3; i++) { ok = ok && same_double(csm.mu[i], x.get_mu(i)) && same_double(csm.md[i], x.get_md(i)) && same_double(csm.mv[i], x.get_mv(i)) && same_double(csm.ml[i], x.get_ml(i));
         for (int k = 0; k < 3; k++) ok = ok && same_double(csm.ckm_real[i][k], x.get_ckm()(i, k).real()) && same_double(csm.ckm_imag[i][k], x.get_ckm()(i, k).imag()); }
      if (!ok) return "MISMATCH 0 gm2calc_sm_set_to_default differs from the default-constructed gm2calc::SM";
      if ((cc.force_output != 0) != xc.force_output || (cc.running_couplings != 0) != xc.running_couplings) return "MISMATCH 0 gm2calc_thdm_config_set_to_default differs from the default-constructed thdm::Config";
      return "OK 1 ";
   }
   if (w == "print") {
      // print_mssmnofv(h) on a fresh (v = 0), a prepared and a refused model: must return
      MSSMNoFV_onshell* h = gm2calc_mssmnofv_new(); gm2calc::MSSMNoFV_onshell M; gm2calc_mssmnofv_set_verbose_output(h, v == 3 ? 1 : 0);
      if (v >= 1) macro_gm2calc(h, M);
      if (v == 1 || v == 3) gm2calc_mssmnofv_calculate_masses(h);
      if (v == 2) { gm2calc_mssmnofv_set_TB(h, 0.0); gm2calc_mssmnofv_calculate_masses(h); }
      try { print_mssmnofv(h); } catch (...) { gm2calc_mssmnofv_free(h); return "ESCAPE 0 exception escaped from print_mssmnofv"; }
      gm2calc_mssmnofv_free(h);
      return "OK 1 ";
   }
   return "MISMATCH 0 unknown helper case";
}

int main(int argc, char** argv) {
   std::string cmd = argc > 1 ? argv[1] : "";
   if (cmd == "list") { for (int f = 0; f < NFNS; f++) std::printf("FN %d %s %s %d %d %s\n", f, FNS[f].name, FNS[f].sig, FNS[f].d1, FNS[f].d2, FNS[f].pair); return 0; }
   if (cmd == "pairs") { for (int p = 0; p < 2; p++) std::printf("P %d %s\n", p, in_child([p] { return run_pairs(p); }).c_str()); return 0; }
   // batch mode: one forked child executes the remaining cases one after the other and streams a result
   // line per case; if it dies, the case without a result is re-run alone (to capture the reason) and a new
   // child continues after it.  A non-zero exit after the last case (LeakSanitizer report) triggers an
   // individual re-run of the whole batch.
   std::vector<std::pair<std::string, std::string>> cases; std::string line;
   while (std::getline(std::cin, line)) { size_t sp = line.find(' '); if (sp == std::string::npos) continue; cases.push_back({line.substr(0, sp), line.substr(sp + 1)}); }
   auto one = [&](const std::string& rest) { escaped.clear(); return cmd == "thdm" ? run_thdm(rest) : cmd == "helper" ? run_helper(rest) : run_sequence(rest); };
   size_t pos = 0;
   while (pos < cases.size()) {
      int pd[2]; if (pipe(pd)) return 2;
      std::fflush(stdout);
      pid_t pid = fork();
      if (pid == 0) {
         close(pd[0]); int dn = open("/dev/null", O_WRONLY); dup2(dn, 2);
         for (size_t c = pos; c < cases.size(); c++) { std::string r = "R " + cases[c].first + " " + one(cases[c].second) + "\n"; ssize_t w = write(pd[1], r.data(), r.size()); (void)w; }
         _exit(0);
      }
      close(pd[1]);
      std::string out; char buf[65536]; ssize_t n;
      while ((n = read(pd[0], buf, sizeof buf)) > 0) out.append(buf, n);
      close(pd[0]);
      int st = 0; waitpid(pid, &st, 0);
      size_t got = 0; size_t lastnl = out.rfind('\n');
      std::string complete = lastnl == std::string::npos ? "" : out.substr(0, lastnl + 1);
      for (char ch : complete) if (ch == '\n') got++;
      bool clean = WIFEXITED(st) && WEXITSTATUS(st) == 0;
      if (clean || got < cases.size() - pos) {
         std::fputs(complete.c_str(), stdout);
         pos += got;
         if (!clean && pos < cases.size()) {   // the case at `pos` killed the child
            std::string rest = cases[pos].second;
            std::printf("R %s %s\n", cases[pos].first.c_str(), in_child([&] { return one(rest); }).c_str());
            pos++;
         }
      } else {
         // all cases answered but the child reported something at exit (leak): attribute by individual runs
         for (size_t c = pos; c < cases.size(); c++) { std::string rest = cases[c].second; std::printf("R %s %s\n", cases[c].first.c_str(), in_child([&] { return one(rest); }).c_str()); }
         pos = cases.size();
      }
   }
   std::fflush(stdout);
   return 0;
}
