// cli_api - library-side mirror of gm2calc.x for C15 (consistency of reports)
// and the C++ / C entry points for C16 (rejection of unphysical input).
//
//   cli_api c15     stdin: one line "<slha|gm2calc|thdm> <path>" per case
//                   stdout: one line "F <n> ..." per case, doubles as hex floats
//   cli_api c16     stdin: one line "<entry> <force> key=value ..." per case
//                   entry in {cpp_slha, cpp_gm2, c_slha, c_gm2,
//                             cpp_mass, cpp_gauge, c_mass, c_gauge}
//                   stdout: one line "C <n> ..." per case; the library's stderr
//                   of each case is captured and reported (escaped)
//
// c15 reads the *same file* as the program through gm2calc::GM2_slha_io the way
// src/gm2calc.cpp does (defaults per input type, fill(config), fill_slha +
// convert_to_onshell / fill_gm2calc + calculate_masses / THDM from the basis
// selected by the same rule) and calls the public API.  Nothing is enumerated
// here; Python builds the cases.

#include "gm2calc/gm2_1loop.hpp"
#include "gm2calc/gm2_2loop.hpp"
#include "gm2calc/gm2_error.hpp"
#include "gm2calc/gm2_uncertainty.hpp"
#include "gm2calc/MSSMNoFV_onshell.hpp"
#include "gm2calc/THDM.hpp"
#include "gm2calc/SM.hpp"

#include "gm2calc/gm2_1loop.h"
#include "gm2calc/gm2_2loop.h"
#include "gm2calc/gm2_uncertainty.h"
#include "gm2calc/MSSMNoFV_onshell.h"
#include "gm2calc/THDM.h"
#include "gm2calc/SM.h"

#include "MSSMNoFV/gm2_1loop_helpers.hpp"
#include "MSSMNoFV/gm2_2loop_helpers.hpp"
#include "gm2_config_options.hpp"
#include "gm2_slha_io.hpp"

#include <cmath>
#include <cstdio>
#include <cstdlib>
#include <cstring>
#include <functional>
#include <iostream>
#include <map>
#include <memory>
#include <sstream>
#include <string>
#include <typeinfo>
#include <unistd.h>
#include <fcntl.h>
#include <sys/mman.h>

namespace {

using Mssm = gm2calc::MSSMNoFV_onshell;

std::string hexd(double x)
{
   char buf[64];
   if (std::isnan(x)) return std::signbit(x) ? "-nan" : "nan";
   if (std::isinf(x)) return x < 0 ? "-inf" : "inf";
   std::snprintf(buf, sizeof(buf), "%a", x);
   return buf;
}

std::string esc(const std::string& s)
{
   std::string r;
   for (unsigned char c : s) {
      if (c == '\n') r += "\\n";
      else if (c == '\\') r += "\\\\";
      else if (c == ' ') r += "\\s";
      else if (c < 32 || c > 126) { char b[8]; std::snprintf(b, sizeof(b), "\\x%02x", c); r += b; }
      else r += static_cast<char>(c);
   }
   return r.empty() ? std::string("-") : r;
}

const char* exc_class(const std::exception& e)
{
   if (dynamic_cast<const gm2calc::EInvalidInput*>(&e))    return "EInvalidInput";
   if (dynamic_cast<const gm2calc::EPhysicalProblem*>(&e)) return "EPhysicalProblem";
   if (dynamic_cast<const gm2calc::ESetupError*>(&e))      return "ESetupError";
   if (dynamic_cast<const gm2calc::EReadError*>(&e))       return "EReadError";
   if (dynamic_cast<const gm2calc::Error*>(&e))            return "Error";
   return "std::exception";
}

/// evaluates f, returns hex double or "EXC:<class>"
std::string ev(const std::function<double()>& f)
{
   try {
      return hexd(f());
   } catch (const std::exception& e) {
      return std::string("EXC:") + exc_class(e);
   } catch (...) {
      return "EXC:unknown";
   }
}

// ---------------------------------------------------------------- c15 ----

void c15_mssm(std::ostream& out, const gm2calc::GM2_slha_io& io,
              const gm2calc::Config_options& cfg, bool slha)
{
   using namespace gm2calc;
   Mssm model;
   model.do_force_output(cfg.force_output);
   model.set_verbose_output(cfg.verbose_output);
   if (slha) {
      io.fill_slha(model);
      model.convert_to_onshell();
   } else {
      io.fill_gm2calc(model);
      model.calculate_masses();
   }
   out << " setup=OK problem=" << (model.get_problems().have_problem() ? 1 : 0)
       << " warning=" << (model.get_problems().have_warning() ? 1 : 0)
       << " problems=" << esc(model.get_problems().get_problems())
       << " warnings=" << esc(model.get_problems().get_warnings());

   // the number selected by the configuration (public API only)
   out << " val=" << ev([&] {
      double r = 0.0;
      if (cfg.tanb_resummation) {
         if (cfg.loop_order > 0) r += calculate_amu_1loop(model);
         if (cfg.loop_order > 1) r += calculate_amu_2loop(model);
      } else {
         if (cfg.loop_order > 0) r += calculate_amu_1loop_non_tan_beta_resummed(model);
         if (cfg.loop_order > 1) r += calculate_amu_2loop_non_tan_beta_resummed(model);
      }
      return r; });
   out << " unc=" << ev([&] {
      switch (cfg.loop_order) {
      case 0: return calculate_uncertainty_amu_0loop(model);
      case 1: return calculate_uncertainty_amu_1loop(model);
      default: return calculate_uncertainty_amu_2loop(model);
      } });

   // components (public API)
   out << " a1l=" << ev([&] { return calculate_amu_1loop(model); })
       << " a2l=" << ev([&] { return calculate_amu_2loop(model); })
       << " chi0=" << ev([&] { return amu1LChi0(model); })
       << " chipm=" << ev([&] { return amu1LChipm(model); })
       << " ph_chi0=" << ev([&] { return amu2LChi0Photonic(model); })
       << " ph_chipm=" << ev([&] { return amu2LChipmPhotonic(model); })
       << " fsf=" << ev([&] { return amu2LFSfapprox(model); })
       << " a_sf=" << ev([&] { return amu2LaSferm(model); })
       << " a_cha=" << ev([&] { return amu2LaCha(model); })
       << " unc0=" << ev([&] { return calculate_uncertainty_amu_0loop(model); })
       << " unc1=" << ev([&] { return calculate_uncertainty_amu_1loop(model); })
       << " unc2=" << ev([&] { return calculate_uncertainty_amu_2loop(model); });

   // without resummation: the program first tries with exceptions enabled
   // and repeats with force-output if that throws
   {
      int nonres_err = 0;
      std::string s1, s2;
      try {
         Mssm m(model);
         m.do_force_output(false);
         const double a = calculate_amu_1loop_non_tan_beta_resummed(m);
         const double b = calculate_amu_2loop_non_tan_beta_resummed(m);
         s1 = hexd(a); s2 = hexd(b);
      } catch (const gm2calc::Error&) {
         nonres_err = 1;
         Mssm m(model);
         m.do_force_output(true);
         s1 = ev([&] { return calculate_amu_1loop_non_tan_beta_resummed(m); });
         s2 = ev([&] { return calculate_amu_2loop_non_tan_beta_resummed(m); });
      }
      out << " a1l_nr=" << s1 << " a2l_nr=" << s2 << " nonres_err=" << nonres_err;
   }

   // sub-parts printed only in the detailed report (library helper functions)
   out << " tbc=" << ev([&] { return tan_beta_cor(model); })
       << " ap1_whnu=" << ev([&] { return amu1LWHnu(model) * tan_beta_cor(model); })
       << " ap1_whmul=" << ev([&] { return amu1LWHmuL(model) * tan_beta_cor(model); })
       << " ap1_bhmul=" << ev([&] { return amu1LBHmuL(model) * tan_beta_cor(model); })
       << " ap1_bhmur=" << ev([&] { return amu1LBHmuR(model) * tan_beta_cor(model); })
       << " ap1_bmulmur=" << ev([&] { return amu1LBmuLmuR(model) * tan_beta_cor(model); })
       << " ap1_sum=" << ev([&] { return amu1Lapprox(model); })
       << " ap2_whnu=" << ev([&] { return amu2LWHnu(model) * tan_beta_cor(model); })
       << " ap2_whmul=" << ev([&] { return amu2LWHmuL(model) * tan_beta_cor(model); })
       << " ap2_bhmul=" << ev([&] { return amu2LBHmuL(model) * tan_beta_cor(model); })
       << " ap2_bhmur=" << ev([&] { return amu2LBHmuR(model) * tan_beta_cor(model); })
       << " ap2_bmulmur=" << ev([&] { return amu2LBmuLmuR(model) * tan_beta_cor(model); });
}

gm2calc::THDM make_thdm(const gm2calc::GM2_slha_io& io, const gm2calc::Config_options& cfg)
{
   gm2calc::SM sm;
   gm2calc::thdm::Mass_basis mb;
   gm2calc::thdm::Gauge_basis gb;
   io.fill(sm);
   io.fill(mb);
   io.fill(gb);
   gm2calc::thdm::Config tc;
   tc.force_output = cfg.force_output;
   tc.running_couplings = cfg.running_couplings;
   const bool mass_given = mb.mh != 0 || mb.mH != 0 || mb.mA != 0 || mb.mHp != 0 ||
                           mb.sin_beta_minus_alpha != 0;
   const bool gauge_given = gb.lambda.head<5>().cwiseAbs().maxCoeff() != 0;
   if (mass_given && !gauge_given) return gm2calc::THDM(mb, sm, tc);
   if (!mass_given && gauge_given) return gm2calc::THDM(gb, sm, tc);
   throw gm2calc::EInvalidInput("Cannot distinguish between mass and gauge basis.");
}

void c15_thdm(std::ostream& out, const gm2calc::GM2_slha_io& io,
              const gm2calc::Config_options& cfg)
{
   using namespace gm2calc;
   const THDM model = make_thdm(io, cfg);
   out << " setup=OK problem=0 warning=0 problems=- warnings=-";
   out << " val=" << ev([&] {
      double r = 0.0;
      if (cfg.loop_order > 0) r += calculate_amu_1loop(model);
      if (cfg.loop_order > 1) r += calculate_amu_2loop(model);
      return r; });
   out << " unc=" << ev([&] {
      switch (cfg.loop_order) {
      case 0: return calculate_uncertainty_amu_0loop(model);
      case 1: return calculate_uncertainty_amu_1loop(model);
      default: return calculate_uncertainty_amu_2loop(model);
      } });
   out << " a1l=" << ev([&] { return calculate_amu_1loop(model); })
       << " a2l=" << ev([&] { return calculate_amu_2loop(model); })
       << " a2l_B=" << ev([&] { return calculate_amu_2loop_bosonic(model); })
       << " a2l_F=" << ev([&] { return calculate_amu_2loop_fermionic(model); })
       << " unc0=" << ev([&] { return calculate_uncertainty_amu_0loop(model); })
       << " unc1=" << ev([&] { return calculate_uncertainty_amu_1loop(model); })
       << " unc2=" << ev([&] { return calculate_uncertainty_amu_2loop(model); });
}

int run_c15()
{
   std::string line;
   long n = 0;
   while (std::getline(std::cin, line)) {
      if (line.empty()) continue;
      std::istringstream is(line);
      std::string type, path;
      is >> type;
      std::getline(is, path);
      path.erase(0, path.find_first_not_of(' '));
      std::ostringstream out;
      out << "F " << n << " type=" << type;
      gm2calc::Config_options cfg;
      try {
         // defaults of the program per input type
         if (type == "gm2calc") cfg.output_format = gm2calc::Config_options::Detailed;
         else cfg.output_format = gm2calc::Config_options::GM2Calc;
         gm2calc::GM2_slha_io io;
         io.read_from_file(path);
         io.fill(cfg);
         out << " cfg=" << static_cast<unsigned>(cfg.output_format) << ',' << cfg.loop_order << ','
             << cfg.tanb_resummation << ',' << cfg.force_output << ',' << cfg.verbose_output << ','
             << cfg.calculate_uncertainty << ',' << cfg.running_couplings;
         if (type == "slha") c15_mssm(out, io, cfg, true);
         else if (type == "gm2calc") c15_mssm(out, io, cfg, false);
         else if (type == "thdm") c15_thdm(out, io, cfg);
         else out << " setup=BADTYPE";
      } catch (const std::exception& e) {
         out << " setup=EXC:" << exc_class(e) << " what=" << esc(e.what());
      } catch (...) {
         out << " setup=EXC:unknown what=-";
      }
      std::cout << out.str() << '\n';
      ++n;
   }
   std::cout << "END " << n << std::endl;
   return 0;
}

// ---------------------------------------------------------------- c16 ----

using Par = std::map<std::string, double>;

double P(const Par& p, const std::string& k, double dflt = 0.0)
{
   const auto it = p.find(k);
   return it == p.end() ? dflt : it->second;
}

bool has(const Par& p, const std::string& k) { return p.find(k) != p.end(); }

const double PI = 3.141592653589793;

/// C++ interface, MSSM; order of calls as in examples/example-slha.cpp and
/// examples/example-gm2calc.cpp (SM parameters first, then tan(beta), ...)
void cpp_mssm(std::ostream& out, const Par& p, bool force, bool slha)
{
   using namespace gm2calc;
   Mssm model;
   model.do_force_output(force);
   std::string setup = "OK";
   try {
      model.set_alpha_MZ(P(p, "alpha_MZ"));
      model.set_alpha_thompson(P(p, "alpha_0"));
      model.set_g3(std::sqrt(4 * PI * P(p, "alpha_s")));
      model.get_physical().MFt = P(p, "MT");
      model.get_physical().MFb = P(p, "MB");
      model.get_physical().MFm = P(p, "MM");
      model.get_physical().MFtau = P(p, "ML");
      model.get_physical().MVWm = P(p, "MW");
      model.get_physical().MVZ = P(p, "MZ");
      if (slha) {
         model.get_physical().MSvmL = P(p, "MSvmL");
         model.get_physical().MSm(0) = P(p, "MSm_1");
         model.get_physical().MSm(1) = P(p, "MSm_2");
         for (int i = 0; i < 4; i++) model.get_physical().MChi(i) = P(p, "MChi_" + std::to_string(i + 1));
         for (int i = 0; i < 2; i++) model.get_physical().MCha(i) = P(p, "MCha_" + std::to_string(i + 1));
         model.get_physical().MAh(1) = P(p, "MA");
      }
      model.set_TB(P(p, "TB"));
      model.set_Mu(P(p, "Mu"));
      model.set_MassB(P(p, "M1"));
      model.set_MassWB(P(p, "M2"));
      model.set_MassG(P(p, "M3"));
      for (int i = 0; i < 3; i++) {
         const std::string s = std::to_string(i + 1);
         model.set_mq2(i, i, P(p, "mq2_" + s));
         model.set_ml2(i, i, P(p, "ml2_" + s));
         model.set_md2(i, i, P(p, "md2_" + s));
         model.set_mu2(i, i, P(p, "mu2_" + s));
         model.set_me2(i, i, P(p, "me2_" + s));
      }
      model.set_Au(2, 2, P(p, "Au_3"));
      model.set_Ad(2, 2, P(p, "Ad_3"));
      model.set_Ae(1, 1, P(p, "Ae_2"));
      model.set_Ae(2, 2, P(p, "Ae_3"));
      if (!slha) model.set_MA0(P(p, "MA"));
      model.set_scale(P(p, "scale"));
      if (slha) model.convert_to_onshell();
      else model.calculate_masses();
   } catch (const std::exception& e) {
      setup = std::string("EXC:") + exc_class(e) + " what=" + esc(e.what());
   } catch (...) {
      setup = "EXC:unknown";
   }
   out << " setup=" << setup;
   if (setup == "OK") {
      // nonres=1: the functions without tan(beta) resummation (they rebuild the spectrum with tree-level Yukawas)
      std::string amu_what = "-";
      const auto evw = [&amu_what](const std::function<double()>& f) -> std::string {
         try {
            return hexd(f());
         } catch (const std::exception& e) {
            amu_what = e.what();
            return std::string("EXC:") + exc_class(e);
         } catch (...) {
            return "EXC:unknown";
         }
      };
      if (P(p, "nonres") != 0) {
         out << " amu=" << evw([&] { return calculate_amu_1loop_non_tan_beta_resummed(model)
                                            + calculate_amu_2loop_non_tan_beta_resummed(model); });
      } else {
         out << " amu=" << evw([&] { return calculate_amu_1loop(model) + calculate_amu_2loop(model); });
      }
      out << " amuwhat=" << esc(amu_what);
      out << " unc=" << ev([&] { return calculate_uncertainty_amu_2loop(model); });
   } else {
      out << " amu=NA unc=NA";
   }
   out << " problem=" << (model.get_problems().have_problem() ? 1 : 0)
       << " warning=" << (model.get_problems().have_warning() ? 1 : 0)
       << " problems=" << esc(model.get_problems().get_problems() + model.get_problems().get_warnings())
       << " mcha0=" << hexd(model.get_MCha(0));
}

/// C interface, MSSM (include/gm2calc/MSSMNoFV_onshell.h); it has no force-output setter
void c_mssm(std::ostream& out, const Par& p, bool slha)
{
   MSSMNoFV_onshell* m = gm2calc_mssmnofv_new();
   gm2calc_mssmnofv_set_alpha_MZ(m, P(p, "alpha_MZ"));
   gm2calc_mssmnofv_set_alpha_thompson(m, P(p, "alpha_0"));
   gm2calc_mssmnofv_set_g3(m, std::sqrt(4 * PI * P(p, "alpha_s")));
   gm2calc_mssmnofv_set_MT_pole(m, P(p, "MT"));
   gm2calc_mssmnofv_set_MB_running(m, P(p, "MB"));
   gm2calc_mssmnofv_set_MM_pole(m, P(p, "MM"));
   gm2calc_mssmnofv_set_ML_pole(m, P(p, "ML"));
   gm2calc_mssmnofv_set_MW_pole(m, P(p, "MW"));
   gm2calc_mssmnofv_set_MZ_pole(m, P(p, "MZ"));
   if (slha) {
      gm2calc_mssmnofv_set_MSvmL_pole(m, P(p, "MSvmL"));
      gm2calc_mssmnofv_set_MSm_pole(m, 0, P(p, "MSm_1"));
      gm2calc_mssmnofv_set_MSm_pole(m, 1, P(p, "MSm_2"));
      for (unsigned i = 0; i < 4; i++) gm2calc_mssmnofv_set_MChi_pole(m, i, P(p, "MChi_" + std::to_string(i + 1)));
      for (unsigned i = 0; i < 2; i++) gm2calc_mssmnofv_set_MCha_pole(m, i, P(p, "MCha_" + std::to_string(i + 1)));
      gm2calc_mssmnofv_set_MAh_pole(m, P(p, "MA"));
   }
   gm2calc_mssmnofv_set_TB(m, P(p, "TB"));
   gm2calc_mssmnofv_set_Mu(m, P(p, "Mu"));
   gm2calc_mssmnofv_set_MassB(m, P(p, "M1"));
   gm2calc_mssmnofv_set_MassWB(m, P(p, "M2"));
   gm2calc_mssmnofv_set_MassG(m, P(p, "M3"));
   for (unsigned i = 0; i < 3; i++) {
      const std::string s = std::to_string(i + 1);
      gm2calc_mssmnofv_set_mq2(m, i, i, P(p, "mq2_" + s));
      gm2calc_mssmnofv_set_ml2(m, i, i, P(p, "ml2_" + s));
      gm2calc_mssmnofv_set_md2(m, i, i, P(p, "md2_" + s));
      gm2calc_mssmnofv_set_mu2(m, i, i, P(p, "mu2_" + s));
      gm2calc_mssmnofv_set_me2(m, i, i, P(p, "me2_" + s));
   }
   gm2calc_mssmnofv_set_Au(m, 2, 2, P(p, "Au_3"));
   gm2calc_mssmnofv_set_Ad(m, 2, 2, P(p, "Ad_3"));
   gm2calc_mssmnofv_set_Ae(m, 1, 1, P(p, "Ae_2"));
   gm2calc_mssmnofv_set_Ae(m, 2, 2, P(p, "Ae_3"));
   if (!slha) gm2calc_mssmnofv_set_MAh_pole(m, P(p, "MA"));
   gm2calc_mssmnofv_set_scale(m, P(p, "scale"));
   const gm2calc_error err = slha ? gm2calc_mssmnofv_convert_to_onshell(m)
                                  : gm2calc_mssmnofv_calculate_masses(m);
   out << " setup=" << (err == gm2calc_NoError ? "OK" : "ERR") << " code=" << static_cast<int>(err)
       << " codestr=" << esc(gm2calc_error_str(err));
   if (err == gm2calc_NoError) {
      if (P(p, "nonres") != 0) {
         out << " amu=" << hexd(gm2calc_mssmnofv_calculate_amu_1loop_non_tan_beta_resummed(m)
                                + gm2calc_mssmnofv_calculate_amu_2loop_non_tan_beta_resummed(m));
      } else {
         out << " amu=" << hexd(gm2calc_mssmnofv_calculate_amu_1loop(m) + gm2calc_mssmnofv_calculate_amu_2loop(m));
      }
      out << " unc=" << hexd(gm2calc_mssmnofv_calculate_uncertainty_amu_2loop(m));
   } else {
      out << " amu=NA unc=NA";
   }
   char buf[1000];
   std::string pr;
   if (gm2calc_mssmnofv_have_problem(m)) { gm2calc_mssmnofv_get_problems(m, buf, sizeof(buf)); pr += buf; }
   if (gm2calc_mssmnofv_have_warning(m)) { gm2calc_mssmnofv_get_warnings(m, buf, sizeof(buf)); pr += buf; }
   out << " problem=" << (gm2calc_mssmnofv_have_problem(m) ? 1 : 0)
       << " warning=" << (gm2calc_mssmnofv_have_warning(m) ? 1 : 0)
       << " problems=" << esc(pr);
   gm2calc_mssmnofv_free(m);
}

void fill_mat(Eigen::Matrix<double,3,3>& m, const Par& p, const std::string& name)
{
   for (int i = 0; i < 3; i++)
      for (int k = 0; k < 3; k++)
         m(i, k) = P(p, name + "_" + std::to_string(i + 1) + std::to_string(k + 1));
}

gm2calc::SM make_sm(const Par& p)
{
   gm2calc::SM sm;
   if (has(p, "alpha_em_mz_inv")) sm.set_alpha_em_mz(1.0 / P(p, "alpha_em_mz_inv"));
   if (has(p, "alpha_s")) sm.set_alpha_s_mz(P(p, "alpha_s"));
   if (has(p, "MZ")) sm.set_mz(P(p, "MZ"));
   if (has(p, "MW")) sm.set_mw(P(p, "MW"));
   if (has(p, "mhSM")) sm.set_mh(P(p, "mhSM"));
   if (has(p, "MT")) sm.set_mu(2, P(p, "MT"));
   if (has(p, "MC")) sm.set_mu(1, P(p, "MC"));
   if (has(p, "MB")) sm.set_md(2, P(p, "MB"));
   if (has(p, "ML")) sm.set_ml(2, P(p, "ML"));
   if (has(p, "MM")) sm.set_ml(1, P(p, "MM"));
   return sm;
}

void cpp_thdm(std::ostream& out, const Par& p, bool force, bool mass)
{
   using namespace gm2calc;
   std::string setup = "OK", amu = "NA", unc = "NA";
   try {
      const SM sm = make_sm(p);
      thdm::Config cfg;
      cfg.force_output = force;
      cfg.running_couplings = P(p, "running", 1) != 0;
      // the documented conversion from the integer of the input tables
      const thdm::Yukawa_type yt = P(p, "yukawa_cast", 0) != 0
         ? static_cast<thdm::Yukawa_type>(static_cast<int>(P(p, "yukawa_type", 2)))
         : thdm::int_to_cpp_yukawa_type(static_cast<int>(P(p, "yukawa_type", 2)));
      std::unique_ptr<THDM> model;
      if (mass) {
         thdm::Mass_basis b;
         b.yukawa_type = yt;
         b.mh = P(p, "mh"); b.mH = P(p, "mH"); b.mA = P(p, "mA"); b.mHp = P(p, "mHp");
         b.sin_beta_minus_alpha = P(p, "sba");
         b.lambda_6 = P(p, "lambda_6"); b.lambda_7 = P(p, "lambda_7");
         b.tan_beta = P(p, "tan_beta"); b.m122 = P(p, "m122");
         b.zeta_u = P(p, "zeta_u"); b.zeta_d = P(p, "zeta_d"); b.zeta_l = P(p, "zeta_l");
         fill_mat(b.Delta_u, p, "Delta_u"); fill_mat(b.Delta_d, p, "Delta_d"); fill_mat(b.Delta_l, p, "Delta_l");
         fill_mat(b.Pi_u, p, "Pi_u"); fill_mat(b.Pi_d, p, "Pi_d"); fill_mat(b.Pi_l, p, "Pi_l");
         model.reset(new THDM(b, sm, cfg));
      } else {
         thdm::Gauge_basis b;
         b.yukawa_type = yt;
         for (int i = 0; i < 7; i++) b.lambda(i) = P(p, "lambda_" + std::to_string(i + 1));
         b.tan_beta = P(p, "tan_beta"); b.m122 = P(p, "m122");
         b.zeta_u = P(p, "zeta_u"); b.zeta_d = P(p, "zeta_d"); b.zeta_l = P(p, "zeta_l");
         fill_mat(b.Delta_u, p, "Delta_u"); fill_mat(b.Delta_d, p, "Delta_d"); fill_mat(b.Delta_l, p, "Delta_l");
         fill_mat(b.Pi_u, p, "Pi_u"); fill_mat(b.Pi_d, p, "Pi_d"); fill_mat(b.Pi_l, p, "Pi_l");
         model.reset(new THDM(b, sm, cfg));
      }
      amu = ev([&] { return calculate_amu_1loop(*model) + calculate_amu_2loop(*model); });
      unc = ev([&] { return calculate_uncertainty_amu_2loop(*model); });
   } catch (const std::exception& e) {
      setup = std::string("EXC:") + exc_class(e) + " what=" + esc(e.what());
   } catch (...) {
      setup = "EXC:unknown";
   }
   out << " setup=" << setup << " amu=" << amu << " unc=" << unc << " problem=0 warning=0 problems=-";
}

void fill_cmat(double (&m)[3][3], const Par& p, const std::string& name)
{
   for (int i = 0; i < 3; i++)
      for (int k = 0; k < 3; k++)
         m[i][k] = P(p, name + "_" + std::to_string(i + 1) + std::to_string(k + 1));
}

void c_thdm(std::ostream& out, const Par& p, bool force, bool mass)
{
   gm2calc_SM sm;
   gm2calc_sm_set_to_default(&sm);
   if (has(p, "alpha_em_mz_inv")) sm.alpha_em_mz = 1.0 / P(p, "alpha_em_mz_inv");
   if (has(p, "alpha_s")) sm.alpha_s_mz = P(p, "alpha_s");
   if (has(p, "MZ")) sm.mz = P(p, "MZ");
   if (has(p, "MW")) sm.mw = P(p, "MW");
   if (has(p, "mhSM")) sm.mh = P(p, "mhSM");
   if (has(p, "MT")) sm.mu[2] = P(p, "MT");
   if (has(p, "MC")) sm.mu[1] = P(p, "MC");
   if (has(p, "MB")) sm.md[2] = P(p, "MB");
   if (has(p, "ML")) sm.ml[2] = P(p, "ML");
   if (has(p, "MM")) sm.ml[1] = P(p, "MM");
   gm2calc_THDM_config cfg;
   gm2calc_thdm_config_set_to_default(&cfg);
   cfg.force_output = force ? 1 : 0;
   cfg.running_couplings = P(p, "running", 1) != 0 ? 1 : 0;
   const int yti = static_cast<int>(P(p, "yukawa_type", 2));
   const gm2calc_THDM_yukawa_type yt = P(p, "yukawa_cast", 0) != 0
      ? static_cast<gm2calc_THDM_yukawa_type>(yti) : int_to_c_yukawa_type(yti);
   gm2calc_THDM* model = nullptr;
   gm2calc_error err;
   if (mass) {
      gm2calc_THDM_mass_basis b;
      std::memset(&b, 0, sizeof(b));
      b.yukawa_type = yt;
      b.mh = P(p, "mh"); b.mH = P(p, "mH"); b.mA = P(p, "mA"); b.mHp = P(p, "mHp");
      b.sin_beta_minus_alpha = P(p, "sba");
      b.lambda_6 = P(p, "lambda_6"); b.lambda_7 = P(p, "lambda_7");
      b.tan_beta = P(p, "tan_beta"); b.m122 = P(p, "m122");
      b.zeta_u = P(p, "zeta_u"); b.zeta_d = P(p, "zeta_d"); b.zeta_l = P(p, "zeta_l");
      fill_cmat(b.Delta_u, p, "Delta_u"); fill_cmat(b.Delta_d, p, "Delta_d"); fill_cmat(b.Delta_l, p, "Delta_l");
      fill_cmat(b.Pi_u, p, "Pi_u"); fill_cmat(b.Pi_d, p, "Pi_d"); fill_cmat(b.Pi_l, p, "Pi_l");
      err = gm2calc_thdm_new_with_mass_basis(&model, &b, &sm, &cfg);
   } else {
      gm2calc_THDM_gauge_basis b;
      std::memset(&b, 0, sizeof(b));
      b.yukawa_type = yt;
      for (int i = 0; i < 7; i++) b.lambda[i] = P(p, "lambda_" + std::to_string(i + 1));
      b.tan_beta = P(p, "tan_beta"); b.m122 = P(p, "m122");
      b.zeta_u = P(p, "zeta_u"); b.zeta_d = P(p, "zeta_d"); b.zeta_l = P(p, "zeta_l");
      fill_cmat(b.Delta_u, p, "Delta_u"); fill_cmat(b.Delta_d, p, "Delta_d"); fill_cmat(b.Delta_l, p, "Delta_l");
      fill_cmat(b.Pi_u, p, "Pi_u"); fill_cmat(b.Pi_d, p, "Pi_d"); fill_cmat(b.Pi_l, p, "Pi_l");
      err = gm2calc_thdm_new_with_gauge_basis(&model, &b, &sm, &cfg);
   }
   out << " setup=" << (err == gm2calc_NoError ? "OK" : "ERR") << " code=" << static_cast<int>(err)
       << " codestr=" << esc(gm2calc_error_str(err)) << " modelnull=" << (model == nullptr ? 1 : 0);
   if (err == gm2calc_NoError && model != nullptr) {
      out << " amu=" << hexd(gm2calc_thdm_calculate_amu_1loop(model) + gm2calc_thdm_calculate_amu_2loop(model))
          << " unc=" << hexd(gm2calc_thdm_calculate_uncertainty_amu_2loop(model));
   } else {
      out << " amu=NA unc=NA";
   }
   out << " problem=0 warning=0 problems=-";
   gm2calc_thdm_free(model);
}

/// run f with fd 2 redirected into an anonymous file; returns what was written
std::string capture_stderr(const std::function<void()>& f)
{
   std::cerr.flush();
   std::fflush(stderr);
   const int saved = dup(2);
   const int mfd = memfd_create("c16err", 0);
   if (saved < 0 || mfd < 0) { std::perror("capture"); std::exit(3); }
   dup2(mfd, 2);
   f();
   std::cerr.flush();
   std::fflush(stderr);
   dup2(saved, 2);
   close(saved);
   std::string s;
   const off_t len = lseek(mfd, 0, SEEK_END);
   lseek(mfd, 0, SEEK_SET);
   if (len > 0) {
      s.resize(static_cast<size_t>(len > 4000 ? 4000 : len));
      const ssize_t r = read(mfd, &s[0], s.size());
      s.resize(r > 0 ? static_cast<size_t>(r) : 0);
   }
   close(mfd);
   return s;
}

int run_c16()
{
   std::string line;
   long n = 0;
   while (std::getline(std::cin, line)) {
      if (line.empty()) continue;
      std::istringstream is(line);
      std::string entry, tok;
      int force = 0;
      is >> entry >> force;
      Par p;
      while (is >> tok) {
         const auto eq = tok.find('=');
         if (eq == std::string::npos) continue;
         p[tok.substr(0, eq)] = std::strtod(tok.c_str() + eq + 1, nullptr);
      }
      std::ostringstream out;
      out << "C " << n << " entry=" << entry << " force=" << force;
      const std::string err = capture_stderr([&] {
         try {
            if (entry == "cpp_slha") cpp_mssm(out, p, force != 0, true);
            else if (entry == "cpp_gm2") cpp_mssm(out, p, force != 0, false);
            else if (entry == "c_slha") c_mssm(out, p, true);
            else if (entry == "c_gm2") c_mssm(out, p, false);
            else if (entry == "cpp_mass") cpp_thdm(out, p, force != 0, true);
            else if (entry == "cpp_gauge") cpp_thdm(out, p, force != 0, false);
            else if (entry == "c_mass") c_thdm(out, p, force != 0, true);
            else if (entry == "c_gauge") c_thdm(out, p, force != 0, false);
            else out << " setup=BADENTRY";
         } catch (const std::exception& e) {
            // an exception leaving a C interface function or an unexpected one
            out << " ESCAPED=" << exc_class(e) << " what=" << esc(e.what());
         } catch (...) {
            out << " ESCAPED=unknown";
         }
      });
      out << " stderr=" << esc(err);
      std::cout << out.str() << '\n';
      ++n;
   }
   std::cout << "END " << n << std::endl;
   return 0;
}

} // anonymous namespace

int main(int argc, char* argv[])
{
   const std::string mode = argc > 1 ? argv[1] : "";
   if (mode == "c15") return run_c15();
   if (mode == "c16") return run_c16();
   std::fprintf(stderr, "usage: cli_api c15|c16 < cases\n");
   return 2;
}
