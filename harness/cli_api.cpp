// cli_api - library-side mirror of gm2calc.x for C15 (consistency of reports)
// and the C++ / C entry points for C16 (rejection of unphysical input).
//
//   cli_api c15     stdin: one line "<slha|gm2calc|thdm> <path>" per case
//                   stdout: one line "F <n> ..." per case, doubles as hex floats
//   cli_api c16     stdin: one line "<entry> <force> key=value ..." per case
//                   entry in {cpp_slha, cpp_gm2, c_slha, c_gm2,
//                             cpp_mass, cpp_gauge, c_mass, c_gauge}
//                   stdout: one line "C <n> ..." per case; the library's stderr
//                   of each case is captured and reported (escaped)
//
// c15 reads the *same file* as the program through gm2calc::GM2_slha_io the way
// src/gm2calc.cpp does (defaults per input type, fill(config), fill_slha +
// convert_to_onshell / fill_gm2calc + calculate_masses / THDM from the basis
// selected by the same rule) and calls the public API.  Nothing is enumerated
// here; Python builds the cases.

#include "gm2calc/gm2_1loop.hpp"
#include "gm2calc/gm2_2loop.hpp"
#include "gm2calc/gm2_error.hpp"
#include "gm2calc/gm2_uncertainty.hpp"
#include "gm2calc/MSSMNoFV_onshell.hpp"
#include "gm2calc/THDM.hpp"
#include "gm2calc/SM.hpp"

#include "gm2calc/gm2_1loop.h"
#include "gm2calc/gm2_2loop.h"
#include "gm2calc/gm2_uncertainty.h"
#include "gm2calc/MSSMNoFV_onshell.h"
#include "gm2calc/THDM.h"
#include "gm2calc/SM.h"

#include "MSSMNoFV/gm2_1loop_helpers.hpp"
#include "MSSMNoFV/gm2_2loop_helpers.hpp"
#include "THDM/gm2_2loop_helpers.hpp"
#include "gm2_config_options.hpp"
#include "gm2_slha_io.hpp"

#include <cmath>
#include <cstdio>
#include <cstdlib>
#include <cstring>
#include <functional>
#include <iostream>
#include <map>
#include <memory>
#include <sstream>
#include <string>
#include <typeinfo>
#include <vector>
#include <unistd.h>
#include <fcntl.h>
#include <sys/mman.h>

namespace {

using Mssm = gm2calc::MSSMNoFV_onshell;

std::string hexd(double x)
{
   char buf[64];
   if (std::isnan(x)) return std::signbit(x) ? "-nan" : "nan";
   if (std::isinf(x)) return x < 0 ? "-inf" : "inf";
   std::snprintf(buf, sizeof(buf), "%a", x);
   return buf;
}

std::string esc(const std::string& s)
{
   std::string r;
   for (unsigned char c : s) {
      if (c == '\n') r += "\\n";
      else if (c == '\\') r += "\\\\";
      else if (c == ' ') r += "\\s";
      else if (c < 32 || c > 126) { char b[8]; std::snprintf(b, sizeof(b), "\\x%02x", c); r += b; }
      else r += static_cast<char>(c);
   }
   return r.empty() ? std::string("-") : r;
}

const char* exc_class(const std::exception& e)
{
   if (dynamic_cast<const gm2calc::EInvalidInput*>(&e))    return "EInvalidInput";
   if (dynamic_cast<const gm2calc::EPhysicalProblem*>(&e)) return "EPhysicalProblem";
   if (dynamic_cast<const gm2calc::ESetupError*>(&e))      return "ESetupError";
   if (dynamic_cast<const gm2calc::EReadError*>(&e))       return "EReadError";
   if (dynamic_cast<const gm2calc::Error*>(&e))            return "Error";
   return "std::exception";
}

/// evaluates f, returns hex double or "EXC:<class>"
std::string ev(const std::function<double()>& f)
{
   try {
      return hexd(f());
   } catch (const std::exception& e) {
      return std::string("EXC:") + exc_class(e);
   } catch (...) {
      return "EXC:unknown";
   }
}

// ---------------------------------------------------------------- c15 ----

/// public part functions on a copy converted to tree-level Yukawa couplings (the model on which the
/// totals "without tan(beta) resummation" are documented to be the sum of their parts)
void nr_parts(std::ostream& out, const Mssm& with_force_setting)
{
   using namespace gm2calc;
   Mssm nr(with_force_setting);
   nr.convert_to_non_tan_beta_resummed();
   out << " nr_chi0=" << hexd(amu1LChi0(nr)) << " nr_chipm=" << hexd(amu1LChipm(nr))
       << " nr_fsf=" << hexd(amu2LFSfapprox_non_tan_beta_resummed(nr))
       << " nr_ph_chi0=" << hexd(amu2LChi0Photonic(nr)) << " nr_ph_chipm=" << hexd(amu2LChipmPhotonic(nr))
       << " nr_a_sf=" << hexd(amu2LaSferm(nr)) << " nr_a_cha=" << hexd(amu2LaCha(nr));
}

void c15_mssm(std::ostream& out, const gm2calc::GM2_slha_io& io,
              const gm2calc::Config_options& cfg, bool slha)
{
   using namespace gm2calc;
   Mssm model;
   model.do_force_output(cfg.force_output);
   model.set_verbose_output(cfg.verbose_output);
   if (slha) {
      io.fill_slha(model);
      model.convert_to_onshell();
   } else {
      io.fill_gm2calc(model);
      model.calculate_masses();
   }
   // the same with the documented defaults of convert_to_onshell() spelled out (MSSMNoFV_onshell.hpp:
   // precision = 1e-8, max_iterations = 1000): a change of the library default itself must show
   std::string val_explicit = "NA";
   if (slha) {
      val_explicit = ev([&] {
         Mssm m2;
         m2.do_force_output(cfg.force_output);
         m2.set_verbose_output(cfg.verbose_output);
         io.fill_slha(m2);
         m2.convert_to_onshell(1e-8, 1000);
         return calculate_amu_1loop(m2) + calculate_amu_2loop(m2); });
   }
   out << " setup=OK problem=" << (model.get_problems().have_problem() ? 1 : 0)
       << " warning=" << (model.get_problems().have_warning() ? 1 : 0)
       << " problems=" << esc(model.get_problems().get_problems())
       << " warnings=" << esc(model.get_problems().get_warnings());

   // the number selected by the configuration (public API only)
   out << " val=" << ev([&] {
      double r = 0.0;
      if (cfg.tanb_resummation) {
         if (cfg.loop_order > 0) r += calculate_amu_1loop(model);
         if (cfg.loop_order > 1) r += calculate_amu_2loop(model);
      } else {
         if (cfg.loop_order > 0) r += calculate_amu_1loop_non_tan_beta_resummed(model);
         if (cfg.loop_order > 1) r += calculate_amu_2loop_non_tan_beta_resummed(model);
      }
      return r; });
   out << " unc=" << ev([&] {
      switch (cfg.loop_order) {
      case 0: return calculate_uncertainty_amu_0loop(model);
      case 1: return calculate_uncertainty_amu_1loop(model);
      default: return calculate_uncertainty_amu_2loop(model);
      } });

   // components (public API)
   out << " a1l=" << ev([&] { return calculate_amu_1loop(model); })
       << " a2l=" << ev([&] { return calculate_amu_2loop(model); })
       << " chi0=" << ev([&] { return amu1LChi0(model); })
       << " chipm=" << ev([&] { return amu1LChipm(model); })
       << " ph_chi0=" << ev([&] { return amu2LChi0Photonic(model); })
       << " ph_chipm=" << ev([&] { return amu2LChipmPhotonic(model); })
       << " fsf=" << ev([&] { return amu2LFSfapprox(model); })
       << " a_sf=" << ev([&] { return amu2LaSferm(model); })
       << " a_cha=" << ev([&] { return amu2LaCha(model); })
       << " unc0=" << ev([&] { return calculate_uncertainty_amu_0loop(model); })
       << " unc1=" << ev([&] { return calculate_uncertainty_amu_1loop(model); })
       << " unc2=" << ev([&] { return calculate_uncertainty_amu_2loop(model); })
       << " a12_explicit_defaults=" << val_explicit;

   // without resummation: the program first tries with exceptions enabled
   // and repeats with force-output if that throws
   {
      int nonres_err = 0;
      std::string s1, s2;
      std::ostringstream parts;
      try {
         Mssm m(model);
         m.do_force_output(false);
         const double a = calculate_amu_1loop_non_tan_beta_resummed(m);
         const double b = calculate_amu_2loop_non_tan_beta_resummed(m);
         s1 = hexd(a); s2 = hexd(b);
         nr_parts(parts, m);
      } catch (const gm2calc::Error&) {
         nonres_err = 1;
         Mssm m(model);
         m.do_force_output(true);
         s1 = ev([&] { return calculate_amu_1loop_non_tan_beta_resummed(m); });
         s2 = ev([&] { return calculate_amu_2loop_non_tan_beta_resummed(m); });
         parts.str("");
         try { nr_parts(parts, m); } catch (...) { parts.str(""); }
      }
      out << " a1l_nr=" << s1 << " a2l_nr=" << s2 << " nonres_err=" << nonres_err << parts.str();
   }

   // sub-parts printed only in the detailed report (library helper functions)
   out << " tbc=" << ev([&] { return tan_beta_cor(model); })
       << " ap1_whnu=" << ev([&] { return amu1LWHnu(model) * tan_beta_cor(model); })
       << " ap1_whmul=" << ev([&] { return amu1LWHmuL(model) * tan_beta_cor(model); })
       << " ap1_bhmul=" << ev([&] { return amu1LBHmuL(model) * tan_beta_cor(model); })
       << " ap1_bhmur=" << ev([&] { return amu1LBHmuR(model) * tan_beta_cor(model); })
       << " ap1_bmulmur=" << ev([&] { return amu1LBmuLmuR(model) * tan_beta_cor(model); })
       << " ap1_sum=" << ev([&] { return amu1Lapprox(model); })
       << " ap2_whnu=" << ev([&] { return amu2LWHnu(model) * tan_beta_cor(model); })
       << " ap2_whmul=" << ev([&] { return amu2LWHmuL(model) * tan_beta_cor(model); })
       << " ap2_bhmul=" << ev([&] { return amu2LBHmuL(model) * tan_beta_cor(model); })
       << " ap2_bhmur=" << ev([&] { return amu2LBHmuR(model) * tan_beta_cor(model); })
       << " ap2_bmulmur=" << ev([&] { return amu2LBmuLmuR(model) * tan_beta_cor(model); });
}

gm2calc::THDM make_thdm(const gm2calc::GM2_slha_io& io, const gm2calc::Config_options& cfg)
{
   gm2calc::SM sm;
   gm2calc::thdm::Mass_basis mb;
   gm2calc::thdm::Gauge_basis gb;
   io.fill(sm);
   io.fill(mb);
   io.fill(gb);
   gm2calc::thdm::Config tc;
   tc.force_output = cfg.force_output;
   tc.running_couplings = cfg.running_couplings;
   const bool mass_given = mb.mh != 0 || mb.mH != 0 || mb.mA != 0 || mb.mHp != 0 ||
                           mb.sin_beta_minus_alpha != 0;
   const bool gauge_given = gb.lambda.head<5>().cwiseAbs().maxCoeff() != 0;
   if (mass_given && !gauge_given) return gm2calc::THDM(mb, sm, tc);
   if (!mass_given && gauge_given) return gm2calc::THDM(gb, sm, tc);
   throw gm2calc::EInvalidInput("Cannot distinguish between mass and gauge basis.");
}

void c15_thdm(std::ostream& out, const gm2calc::GM2_slha_io& io,
              const gm2calc::Config_options& cfg)
{
   using namespace gm2calc;
   const THDM model = make_thdm(io, cfg);
   out << " setup=OK problem=0 warning=0 problems=- warnings=-";
   out << " val=" << ev([&] {
      double r = 0.0;
      if (cfg.loop_order > 0) r += calculate_amu_1loop(model);
      if (cfg.loop_order > 1) r += calculate_amu_2loop(model);
      return r; });
   out << " unc=" << ev([&] {
      switch (cfg.loop_order) {
      case 0: return calculate_uncertainty_amu_0loop(model);
      case 1: return calculate_uncertainty_amu_1loop(model);
      default: return calculate_uncertainty_amu_2loop(model);
      } });
   out << " a1l=" << ev([&] { return calculate_amu_1loop(model); })
       << " a2l=" << ev([&] { return calculate_amu_2loop(model); })
       << " a2l_B=" << ev([&] { return calculate_amu_2loop_bosonic(model); })
       << " a2l_F=" << ev([&] { return calculate_amu_2loop_fermionic(model); })
       << " unc0=" << ev([&] { return calculate_uncertainty_amu_0loop(model); })
       << " unc1=" << ev([&] { return calculate_uncertainty_amu_1loop(model); })
       << " unc2=" << ev([&] { return calculate_uncertainty_amu_2loop(model); });
   // sub-parts of the bosonic and fermionic 2-loop totals (src/THDM/gm2_2loop_helpers.hpp), parameters
   // taken from the model as calculate_amu_2loop_bosonic / _fermionic do
   try {
      thdm::THDM_B_parameters b;
      b.alpha_em = model.get_alpha_em(); b.mm = model.get_MFe(1); b.mw = model.get_MVWm(); b.mz = model.get_MVZ();
      b.mhSM = model.get_sm().get_mh(); b.mA = model.get_MAh(1); b.mHp = model.get_MHm(1); b.mh = model.get_Mhh();
      b.tb = model.get_tan_beta(); b.zetal = model.get_zeta_l(); b.cos_beta_minus_alpha = model.get_cos_beta_minus_alpha();
      b.lambda5 = model.get_LambdaFive(); b.lambda67 = model.get_LambdaSixSeven();
      thdm::THDM_F_parameters f;
      f.alpha_em = model.get_alpha_em(); f.mm = model.get_MFe(1); f.mw = model.get_MVWm(); f.mz = model.get_MVZ();
      f.mhSM = model.get_sm().get_mh(); f.mA = model.get_MAh(1); f.mHp = model.get_MHm(1); f.mh = model.get_Mhh();
      f.ml = model.get_MFe(); f.mu = model.get_MFu(); f.md = model.get_MFd();
      f.yuh = model.get_yuh(); f.yuH = model.get_yuH(); f.yuA = model.get_yuA(); f.yuHp = model.get_yuHp();
      f.ydh = model.get_ydh(); f.ydH = model.get_ydH(); f.ydA = model.get_ydA(); f.ydHp = model.get_ydHp();
      f.ylh = model.get_ylh(); f.ylH = model.get_ylH(); f.ylA = model.get_ylA(); f.ylHp = model.get_ylHp();
      f.vckm = model.get_sm().get_ckm();
      out << " B_EWadd=" << hexd(thdm::amu2L_B_EWadd(b)) << " B_nonYuk=" << hexd(thdm::amu2L_B_nonYuk(b))
          << " B_Yuk=" << hexd(thdm::amu2L_B_Yuk(b)) << " F_charged=" << hexd(thdm::amu2L_F_charged(f))
          << " F_neutral=" << hexd(thdm::amu2L_F_neutral(f));
   } catch (...) {
   }
}

/// c15iter: how the result of convert_to_onshell(1e-8, n) depends on n, for the scan of convergence regimes
int run_c15iter()
{
   static const unsigned LADDER[] = {25, 50, 75, 100, 150, 200, 300, 400, 500, 600, 700, 800, 900, 1000, 1500, 2000, 4000};
   std::string path;
   long n = 0;
   while (std::getline(std::cin, path)) {
      if (path.empty()) continue;
      std::ostringstream out;
      out << "I " << n;
      try {
         gm2calc::GM2_slha_io io;
         io.read_from_file(path);
         for (unsigned it : LADDER) {
            Mssm m;
            io.fill_slha(m);
            std::string st = "OK";
            try {
               m.convert_to_onshell(1e-8, it);
            } catch (const std::exception& e) {
               st = std::string("EXC:") + exc_class(e);
            }
            out << " n" << it << "=" << st << "," << hexd(m.get_Mu()) << "," << hexd(m.get_MassB()) << "," << hexd(m.get_MassWB())
                << "," << hexd(m.get_me2(1, 1)) << "," << (m.get_problems().no_Mu_MassB_MassWB_convergence() ? 1 : 0)
                << "," << (m.get_problems().no_me2_convergence() ? 1 : 0);
         }
      } catch (const std::exception& e) {
         out << " setup=EXC:" << exc_class(e);
      }
      std::cout << out.str() << '\n';
      ++n;
   }
   std::cout << "END " << n << std::endl;
   return 0;
}

int run_c15()
{
   std::string line;
   long n = 0;
   while (std::getline(std::cin, line)) {
      if (line.empty()) continue;
      std::istringstream is(line);
      std::string type, path;
      is >> type;
      std::getline(is, path);
      path.erase(0, path.find_first_not_of(' '));
      std::ostringstream out;
      out << "F " << n << " type=" << type;
      gm2calc::Config_options cfg;
      try {
         // defaults of the program per input type
         if (type == "gm2calc") cfg.output_format = gm2calc::Config_options::Detailed;
         else cfg.output_format = gm2calc::Config_options::GM2Calc;
         gm2calc::GM2_slha_io io;
         io.read_from_file(path);
         io.fill(cfg);
         out << " cfg=" << static_cast<unsigned>(cfg.output_format) << ',' << cfg.loop_order << ','
             << cfg.tanb_resummation << ',' << cfg.force_output << ',' << cfg.verbose_output << ','
             << cfg.calculate_uncertainty << ',' << cfg.running_couplings;
         if (type == "slha") c15_mssm(out, io, cfg, true);
         else if (type == "gm2calc") c15_mssm(out, io, cfg, false);
         else if (type == "thdm") c15_thdm(out, io, cfg);
         else out << " setup=BADTYPE";
      } catch (const std::exception& e) {
         out << " setup=EXC:" << exc_class(e) << " what=" << esc(e.what());
      } catch (...) {
         out << " setup=EXC:unknown what=-";
      }
      std::cout << out.str() << '\n';
      ++n;
   }
   std::cout << "END " << n << std::endl;
   return 0;
}

// ---------------------------------------------------------------- c16 ----

using Par = std::map<std::string, double>;

double P(const Par& p, const std::string& k, double dflt = 0.0)
{
   const auto it = p.find(k);
   return it == p.end() ? dflt : it->second;
}

bool has(const Par& p, const std::string& k) { return p.find(k) != p.end(); }

const double PI = 3.141592653589793;

// ---- MSSM through the setter interface -------------------------------------------------------
// The ORDER of the setter calls is part of the API alphabet (set_TB() uses the W and Z masses known at
// the time of the call).  order = 0 canonical (as examples/example-slha.cpp / example-gm2calc.cpp: SM
//   parameters, [pole masses,] tan(beta), model parameters, scale), 1 SM parameters last, 2 tan(beta)
//   last, 3 reversed canonical,
//   4 the valid point "b.<name>" is set up and evaluated, then the values that differ are set on the SAME
//     object and it is evaluated again,
//   5 the defective point is set up and evaluated (refused), then the valid point "b.<name>" is set up
//     completely on the same object (canonical order) and evaluated again.

const char* const SM_NAMES[] = {"alpha_MZ", "alpha_0", "alpha_s", "MT", "MB", "MM", "ML", "MW", "MZ"};

std::vector<std::string> canonical_names(bool slha)
{
   std::vector<std::string> n(std::begin(SM_NAMES), std::end(SM_NAMES));
   if (slha) {
      for (const char* k : {"MSvmL", "MSm_1", "MSm_2", "MChi_1", "MChi_2", "MChi_3", "MChi_4", "MCha_1", "MCha_2", "MA"}) n.push_back(k);
   }
   for (const char* k : {"TB", "Mu", "M1", "M2", "M3"}) n.push_back(k);
   for (int i = 1; i <= 3; i++) {
      for (const char* k : {"mq2_", "ml2_", "md2_", "mu2_", "me2_"}) n.push_back(std::string(k) + std::to_string(i));
   }
   for (const char* k : {"Au_3", "Ad_3", "Ae_2", "Ae_3"}) n.push_back(k);
   if (!slha) n.push_back("MA");
   n.push_back("scale");
   return n;
}

std::vector<std::string> ordered_names(bool slha, int order)
{
   const auto c = canonical_names(slha);
   const auto is_sm = [](const std::string& k) {
      for (const char* s : SM_NAMES) if (k == s) return true;
      return false;
   };
   std::vector<std::string> n;
   switch (order) {
   case 1:
      for (const auto& k : c) if (!is_sm(k)) n.push_back(k);
      for (const auto& k : c) if (is_sm(k)) n.push_back(k);
      return n;
   case 2:
      for (const auto& k : c) if (k != "TB") n.push_back(k);
      n.push_back("TB");
      return n;
   case 3:
      return std::vector<std::string>(c.rbegin(), c.rend());
   default:
      return c;
   }
}

int idx_of(const std::string& n) { return n[n.size() - 1] - '1'; }

void set_cpp(Mssm& m, const std::string& n, double v)
{
   if (n == "alpha_MZ") m.set_alpha_MZ(v);
   else if (n == "alpha_0") m.set_alpha_thompson(v);
   else if (n == "alpha_s") m.set_g3(std::sqrt(4 * PI * v));
   else if (n == "MT") m.get_physical().MFt = v;
   else if (n == "MB") m.get_physical().MFb = v;
   else if (n == "MM") m.get_physical().MFm = v;
   else if (n == "ML") m.get_physical().MFtau = v;
   else if (n == "MW") m.get_physical().MVWm = v;
   else if (n == "MZ") m.get_physical().MVZ = v;
   else if (n == "MSvmL") m.get_physical().MSvmL = v;
   else if (n.compare(0, 4, "MSm_") == 0) m.get_physical().MSm(idx_of(n)) = v;
   else if (n.compare(0, 5, "MChi_") == 0) m.get_physical().MChi(idx_of(n)) = v;
   else if (n.compare(0, 5, "MCha_") == 0) m.get_physical().MCha(idx_of(n)) = v;
   else if (n == "MA") m.set_MA0(v);                 // = get_physical().MAh(1)
   else if (n == "TB") m.set_TB(v);
   else if (n == "Mu") m.set_Mu(v);
   else if (n == "M1") m.set_MassB(v);
   else if (n == "M2") m.set_MassWB(v);
   else if (n == "M3") m.set_MassG(v);
   else if (n.compare(0, 4, "mq2_") == 0) m.set_mq2(idx_of(n), idx_of(n), v);
   else if (n.compare(0, 4, "ml2_") == 0) m.set_ml2(idx_of(n), idx_of(n), v);
   else if (n.compare(0, 4, "md2_") == 0) m.set_md2(idx_of(n), idx_of(n), v);
   else if (n.compare(0, 4, "mu2_") == 0) m.set_mu2(idx_of(n), idx_of(n), v);
   else if (n.compare(0, 4, "me2_") == 0) m.set_me2(idx_of(n), idx_of(n), v);
   else if (n == "Au_3") m.set_Au(2, 2, v);
   else if (n == "Ad_3") m.set_Ad(2, 2, v);
   else if (n == "Ae_2") m.set_Ae(1, 1, v);
   else if (n == "Ae_3") m.set_Ae(2, 2, v);
   else if (n == "scale") m.set_scale(v);
   else throw std::logic_error("cli_api: unknown setter " + n);
}

void set_c(MSSMNoFV_onshell* m, const std::string& n, double v)
{
   const unsigned i = static_cast<unsigned>(idx_of(n));
   if (n == "alpha_MZ") gm2calc_mssmnofv_set_alpha_MZ(m, v);
   else if (n == "alpha_0") gm2calc_mssmnofv_set_alpha_thompson(m, v);
   else if (n == "alpha_s") gm2calc_mssmnofv_set_g3(m, std::sqrt(4 * PI * v));
   else if (n == "MT") gm2calc_mssmnofv_set_MT_pole(m, v);
   else if (n == "MB") gm2calc_mssmnofv_set_MB_running(m, v);
   else if (n == "MM") gm2calc_mssmnofv_set_MM_pole(m, v);
   else if (n == "ML") gm2calc_mssmnofv_set_ML_pole(m, v);
   else if (n == "MW") gm2calc_mssmnofv_set_MW_pole(m, v);
   else if (n == "MZ") gm2calc_mssmnofv_set_MZ_pole(m, v);
   else if (n == "MSvmL") gm2calc_mssmnofv_set_MSvmL_pole(m, v);
   else if (n.compare(0, 4, "MSm_") == 0) gm2calc_mssmnofv_set_MSm_pole(m, i, v);
   else if (n.compare(0, 5, "MChi_") == 0) gm2calc_mssmnofv_set_MChi_pole(m, i, v);
   else if (n.compare(0, 5, "MCha_") == 0) gm2calc_mssmnofv_set_MCha_pole(m, i, v);
   else if (n == "MA") gm2calc_mssmnofv_set_MAh_pole(m, v);
   else if (n == "TB") gm2calc_mssmnofv_set_TB(m, v);
   else if (n == "Mu") gm2calc_mssmnofv_set_Mu(m, v);
   else if (n == "M1") gm2calc_mssmnofv_set_MassB(m, v);
   else if (n == "M2") gm2calc_mssmnofv_set_MassWB(m, v);
   else if (n == "M3") gm2calc_mssmnofv_set_MassG(m, v);
   else if (n.compare(0, 4, "mq2_") == 0) gm2calc_mssmnofv_set_mq2(m, i, i, v);
   else if (n.compare(0, 4, "ml2_") == 0) gm2calc_mssmnofv_set_ml2(m, i, i, v);
   else if (n.compare(0, 4, "md2_") == 0) gm2calc_mssmnofv_set_md2(m, i, i, v);
   else if (n.compare(0, 4, "mu2_") == 0) gm2calc_mssmnofv_set_mu2(m, i, i, v);
   else if (n.compare(0, 4, "me2_") == 0) gm2calc_mssmnofv_set_me2(m, i, i, v);
   else if (n == "Au_3") gm2calc_mssmnofv_set_Au(m, 2, 2, v);
   else if (n == "Ad_3") gm2calc_mssmnofv_set_Ad(m, 2, 2, v);
   else if (n == "Ae_2") gm2calc_mssmnofv_set_Ae(m, 1, 1, v);
   else if (n == "Ae_3") gm2calc_mssmnofv_set_Ae(m, 2, 2, v);
   else if (n == "scale") gm2calc_mssmnofv_set_scale(m, v);
   else throw std::logic_error("cli_api: unknown setter " + n);
}

bool same_double(double a, double b) { return std::memcmp(&a, &b, sizeof(double)) == 0; }

/// names whose value differs between the point and the valid base point "b.<name>"
std::vector<std::string> changed_names(const Par& p, bool slha)
{
   std::vector<std::string> n;
   for (const auto& k : canonical_names(slha)) {
      if (!same_double(P(p, k), P(p, "b." + k))) n.push_back(k);
   }
   return n;
}

/// C++: conversion / spectrum + a_mu on the object as it is; prints "<pre>setup= <pre>amu= ..."
void eval_cpp(std::ostream& out, Mssm& model, const Par& p, bool slha, const std::string& pre)
{
   using namespace gm2calc;
   std::string setup = "OK";
   try {
      if (slha) model.convert_to_onshell();
      else model.calculate_masses();
   } catch (const std::exception& e) {
      setup = std::string("EXC:") + exc_class(e) + " " + pre + "what=" + esc(e.what());
   } catch (...) {
      setup = "EXC:unknown";
   }
   out << " " << pre << "setup=" << setup;
   if (setup == "OK") {
      std::string amu_what = "-";
      const auto evw = [&amu_what](const std::function<double()>& f) -> std::string {
         try {
            return hexd(f());
         } catch (const std::exception& e) {
            amu_what = e.what();
            return std::string("EXC:") + exc_class(e);
         } catch (...) {
            return "EXC:unknown";
         }
      };
      // nonres=1: the functions without tan(beta) resummation (they rebuild the spectrum with tree-level Yukawas)
      if (P(p, "nonres") != 0) {
         out << " " << pre << "amu=" << evw([&] { return calculate_amu_1loop_non_tan_beta_resummed(model)
                                                          + calculate_amu_2loop_non_tan_beta_resummed(model); });
      } else {
         out << " " << pre << "amu=" << evw([&] { return calculate_amu_1loop(model) + calculate_amu_2loop(model); });
      }
      out << " " << pre << "amuwhat=" << esc(amu_what);
      out << " " << pre << "unc=" << ev([&] { return calculate_uncertainty_amu_2loop(model); });
   } else {
      out << " " << pre << "amu=NA " << pre << "unc=NA";
   }
   out << " " << pre << "problem=" << (model.get_problems().have_problem() ? 1 : 0)
       << " " << pre << "warning=" << (model.get_problems().have_warning() ? 1 : 0)
       << " " << pre << "problems=" << esc(model.get_problems().get_problems() + model.get_problems().get_warnings());
}

/// C++ interface, MSSM
void cpp_mssm(std::ostream& out, const Par& p, bool force, bool slha)
{
   Mssm model;
   model.do_force_output(force);
   const int order = static_cast<int>(P(p, "order"));
   out << " order=" << order;
   if (order == 4 || order == 5) {
      const std::string first = order == 4 ? "b." : "", second = order == 4 ? "" : "b.";
      for (const auto& k : canonical_names(slha)) set_cpp(model, k, P(p, first + k));
      eval_cpp(out, model, p, slha, "pre_");
      if (order == 4) {
         for (const auto& k : changed_names(p, slha)) set_cpp(model, k, P(p, k));
      } else {
         // repair = the valid point is set up again completely (set_TB() must be repeated after MW, MZ)
         for (const auto& k : canonical_names(slha)) set_cpp(model, k, P(p, second + k));
      }
   } else {
      for (const auto& k : ordered_names(slha, order)) set_cpp(model, k, P(p, k));
   }
   eval_cpp(out, model, p, slha, "");
   out << " mcha0=" << hexd(model.get_MCha(0));
}

void eval_c(std::ostream& out, MSSMNoFV_onshell* m, const Par& p, bool slha, const std::string& pre)
{
   const gm2calc_error err = slha ? gm2calc_mssmnofv_convert_to_onshell(m)
                                  : gm2calc_mssmnofv_calculate_masses(m);
   out << " " << pre << "setup=" << (err == gm2calc_NoError ? "OK" : "ERR") << " " << pre << "code=" << static_cast<int>(err)
       << " " << pre << "codestr=" << esc(gm2calc_error_str(err));
   if (err == gm2calc_NoError) {
      if (P(p, "nonres") != 0) {
         out << " " << pre << "amu=" << hexd(gm2calc_mssmnofv_calculate_amu_1loop_non_tan_beta_resummed(m)
                                              + gm2calc_mssmnofv_calculate_amu_2loop_non_tan_beta_resummed(m));
      } else {
         out << " " << pre << "amu=" << hexd(gm2calc_mssmnofv_calculate_amu_1loop(m) + gm2calc_mssmnofv_calculate_amu_2loop(m));
      }
      out << " " << pre << "unc=" << hexd(gm2calc_mssmnofv_calculate_uncertainty_amu_2loop(m));
   } else {
      out << " " << pre << "amu=NA " << pre << "unc=NA";
   }
   char buf[1000];
   std::string pr;
   if (gm2calc_mssmnofv_have_problem(m)) { gm2calc_mssmnofv_get_problems(m, buf, sizeof(buf)); pr += buf; }
   if (gm2calc_mssmnofv_have_warning(m)) { gm2calc_mssmnofv_get_warnings(m, buf, sizeof(buf)); pr += buf; }
   out << " " << pre << "problem=" << (gm2calc_mssmnofv_have_problem(m) ? 1 : 0)
       << " " << pre << "warning=" << (gm2calc_mssmnofv_have_warning(m) ? 1 : 0)
       << " " << pre << "problems=" << esc(pr);
}

/// C interface, MSSM (include/gm2calc/MSSMNoFV_onshell.h); it has no force-output setter
void c_mssm(std::ostream& out, const Par& p, bool slha)
{
   MSSMNoFV_onshell* m = gm2calc_mssmnofv_new();
   const int order = static_cast<int>(P(p, "order"));
   out << " order=" << order;
   if (order == 4 || order == 5) {
      const std::string first = order == 4 ? "b." : "", second = order == 4 ? "" : "b.";
      for (const auto& k : canonical_names(slha)) set_c(m, k, P(p, first + k));
      eval_c(out, m, p, slha, "pre_");
      if (order == 4) {
         for (const auto& k : changed_names(p, slha)) set_c(m, k, P(p, k));
      } else {
         for (const auto& k : canonical_names(slha)) set_c(m, k, P(p, second + k));
      }
   } else {
      for (const auto& k : ordered_names(slha, order)) set_c(m, k, P(p, k));
   }
   eval_c(out, m, p, slha, "");
   gm2calc_mssmnofv_free(m);
}

void fill_mat(Eigen::Matrix<double,3,3>& m, const Par& p, const std::string& name)
{
   for (int i = 0; i < 3; i++)
      for (int k = 0; k < 3; k++)
         m(i, k) = P(p, name + "_" + std::to_string(i + 1) + std::to_string(k + 1));
}

gm2calc::SM make_sm(const Par& p)
{
   gm2calc::SM sm;
   if (has(p, "alpha_em_mz_inv")) sm.set_alpha_em_mz(1.0 / P(p, "alpha_em_mz_inv"));
   if (has(p, "alpha_s")) sm.set_alpha_s_mz(P(p, "alpha_s"));
   if (has(p, "MZ")) sm.set_mz(P(p, "MZ"));
   if (has(p, "MW")) sm.set_mw(P(p, "MW"));
   if (has(p, "mhSM")) sm.set_mh(P(p, "mhSM"));
   if (has(p, "MT")) sm.set_mu(2, P(p, "MT"));
   if (has(p, "MC")) sm.set_mu(1, P(p, "MC"));
   if (has(p, "MB")) sm.set_md(2, P(p, "MB"));
   if (has(p, "ML")) sm.set_ml(2, P(p, "ML"));
   if (has(p, "MM")) sm.set_ml(1, P(p, "MM"));
   return sm;
}

void cpp_thdm(std::ostream& out, const Par& p, bool force, bool mass)
{
   using namespace gm2calc;
   std::string setup = "OK", amu = "NA", unc = "NA";
   try {
      const SM sm = make_sm(p);
      thdm::Config cfg;
      cfg.force_output = force;
      cfg.running_couplings = P(p, "running", 1) != 0;
      // the documented conversion from the integer of the input tables
      const thdm::Yukawa_type yt = P(p, "yukawa_cast", 0) != 0
         ? static_cast<thdm::Yukawa_type>(static_cast<int>(P(p, "yukawa_type", 2)))
         : thdm::int_to_cpp_yukawa_type(static_cast<int>(P(p, "yukawa_type", 2)));
      std::unique_ptr<THDM> model;
      if (mass) {
         thdm::Mass_basis b;
         b.yukawa_type = yt;
         b.mh = P(p, "mh"); b.mH = P(p, "mH"); b.mA = P(p, "mA"); b.mHp = P(p, "mHp");
         b.sin_beta_minus_alpha = P(p, "sba");
         b.lambda_6 = P(p, "lambda_6"); b.lambda_7 = P(p, "lambda_7");
         b.tan_beta = P(p, "tan_beta"); b.m122 = P(p, "m122");
         b.zeta_u = P(p, "zeta_u"); b.zeta_d = P(p, "zeta_d"); b.zeta_l = P(p, "zeta_l");
         fill_mat(b.Delta_u, p, "Delta_u"); fill_mat(b.Delta_d, p, "Delta_d"); fill_mat(b.Delta_l, p, "Delta_l");
         fill_mat(b.Pi_u, p, "Pi_u"); fill_mat(b.Pi_d, p, "Pi_d"); fill_mat(b.Pi_l, p, "Pi_l");
         model.reset(new THDM(b, sm, cfg));
      } else {
         thdm::Gauge_basis b;
         b.yukawa_type = yt;
         for (int i = 0; i < 7; i++) b.lambda(i) = P(p, "lambda_" + std::to_string(i + 1));
         b.tan_beta = P(p, "tan_beta"); b.m122 = P(p, "m122");
         b.zeta_u = P(p, "zeta_u"); b.zeta_d = P(p, "zeta_d"); b.zeta_l = P(p, "zeta_l");
         fill_mat(b.Delta_u, p, "Delta_u"); fill_mat(b.Delta_d, p, "Delta_d"); fill_mat(b.Delta_l, p, "Delta_l");
         fill_mat(b.Pi_u, p, "Pi_u"); fill_mat(b.Pi_d, p, "Pi_d"); fill_mat(b.Pi_l, p, "Pi_l");
         model.reset(new THDM(b, sm, cfg));
      }
      amu = ev([&] { return calculate_amu_1loop(*model) + calculate_amu_2loop(*model); });
      unc = ev([&] { return calculate_uncertainty_amu_2loop(*model); });
   } catch (const std::exception& e) {
      setup = std::string("EXC:") + exc_class(e) + " what=" + esc(e.what());
   } catch (...) {
      setup = "EXC:unknown";
   }
   out << " setup=" << setup << " amu=" << amu << " unc=" << unc << " problem=0 warning=0 problems=-";
}

void fill_cmat(double (&m)[3][3], const Par& p, const std::string& name)
{
   for (int i = 0; i < 3; i++)
      for (int k = 0; k < 3; k++)
         m[i][k] = P(p, name + "_" + std::to_string(i + 1) + std::to_string(k + 1));
}

void c_thdm(std::ostream& out, const Par& p, bool force, bool mass)
{
   gm2calc_SM sm;
   gm2calc_sm_set_to_default(&sm);
   if (has(p, "alpha_em_mz_inv")) sm.alpha_em_mz = 1.0 / P(p, "alpha_em_mz_inv");
   if (has(p, "alpha_s")) sm.alpha_s_mz = P(p, "alpha_s");
   if (has(p, "MZ")) sm.mz = P(p, "MZ");
   if (has(p, "MW")) sm.mw = P(p, "MW");
   if (has(p, "mhSM")) sm.mh = P(p, "mhSM");
   if (has(p, "MT")) sm.mu[2] = P(p, "MT");
   if (has(p, "MC")) sm.mu[1] = P(p, "MC");
   if (has(p, "MB")) sm.md[2] = P(p, "MB");
   if (has(p, "ML")) sm.ml[2] = P(p, "ML");
   if (has(p, "MM")) sm.ml[1] = P(p, "MM");
   gm2calc_THDM_config cfg;
   gm2calc_thdm_config_set_to_default(&cfg);
   cfg.force_output = force ? 1 : 0;
   cfg.running_couplings = P(p, "running", 1) != 0 ? 1 : 0;
   const int yti = static_cast<int>(P(p, "yukawa_type", 2));
   const gm2calc_THDM_yukawa_type yt = P(p, "yukawa_cast", 0) != 0
      ? static_cast<gm2calc_THDM_yukawa_type>(yti) : int_to_c_yukawa_type(yti);
   gm2calc_THDM* model = nullptr;
   gm2calc_error err;
   if (mass) {
      gm2calc_THDM_mass_basis b;
      std::memset(&b, 0, sizeof(b));
      b.yukawa_type = yt;
      b.mh = P(p, "mh"); b.mH = P(p, "mH"); b.mA = P(p, "mA"); b.mHp = P(p, "mHp");
      b.sin_beta_minus_alpha = P(p, "sba");
      b.lambda_6 = P(p, "lambda_6"); b.lambda_7 = P(p, "lambda_7");
      b.tan_beta = P(p, "tan_beta"); b.m122 = P(p, "m122");
      b.zeta_u = P(p, "zeta_u"); b.zeta_d = P(p, "zeta_d"); b.zeta_l = P(p, "zeta_l");
      fill_cmat(b.Delta_u, p, "Delta_u"); fill_cmat(b.Delta_d, p, "Delta_d"); fill_cmat(b.Delta_l, p, "Delta_l");
      fill_cmat(b.Pi_u, p, "Pi_u"); fill_cmat(b.Pi_d, p, "Pi_d"); fill_cmat(b.Pi_l, p, "Pi_l");
      err = gm2calc_thdm_new_with_mass_basis(&model, &b, &sm, &cfg);
   } else {
      gm2calc_THDM_gauge_basis b;
      std::memset(&b, 0, sizeof(b));
      b.yukawa_type = yt;
      for (int i = 0; i < 7; i++) b.lambda[i] = P(p, "lambda_" + std::to_string(i + 1));
      b.tan_beta = P(p, "tan_beta"); b.m122 = P(p, "m122");
      b.zeta_u = P(p, "zeta_u"); b.zeta_d = P(p, "zeta_d"); b.zeta_l = P(p, "zeta_l");
      fill_cmat(b.Delta_u, p, "Delta_u"); fill_cmat(b.Delta_d, p, "Delta_d"); fill_cmat(b.Delta_l, p, "Delta_l");
      fill_cmat(b.Pi_u, p, "Pi_u"); fill_cmat(b.Pi_d, p, "Pi_d"); fill_cmat(b.Pi_l, p, "Pi_l");
      err = gm2calc_thdm_new_with_gauge_basis(&model, &b, &sm, &cfg);
   }
   out << " setup=" << (err == gm2calc_NoError ? "OK" : "ERR") << " code=" << static_cast<int>(err)
       << " codestr=" << esc(gm2calc_error_str(err)) << " modelnull=" << (model == nullptr ? 1 : 0);
   if (err == gm2calc_NoError && model != nullptr) {
      out << " amu=" << hexd(gm2calc_thdm_calculate_amu_1loop(model) + gm2calc_thdm_calculate_amu_2loop(model))
          << " unc=" << hexd(gm2calc_thdm_calculate_uncertainty_amu_2loop(model));
   } else {
      out << " amu=NA unc=NA";
   }
   out << " problem=0 warning=0 problems=-";
   gm2calc_thdm_free(model);
}

/// run f with fd 2 redirected into an anonymous file; returns what was written
std::string capture_stderr(const std::function<void()>& f)
{
   std::cerr.flush();
   std::fflush(stderr);
   const int saved = dup(2);
   const int mfd = memfd_create("c16err", 0);
   if (saved < 0 || mfd < 0) { std::perror("capture"); std::exit(3); }
   dup2(mfd, 2);
   f();
   std::cerr.flush();
   std::fflush(stderr);
   dup2(saved, 2);
   close(saved);
   std::string s;
   const off_t len = lseek(mfd, 0, SEEK_END);
   lseek(mfd, 0, SEEK_SET);
   if (len > 0) {
      s.resize(static_cast<size_t>(len > 4000 ? 4000 : len));
      const ssize_t r = read(mfd, &s[0], s.size());
      s.resize(r > 0 ? static_cast<size_t>(r) : 0);
   }
   close(mfd);
   return s;
}

int run_c16()
{
   std::string line;
   long n = 0;
   while (std::getline(std::cin, line)) {
      if (line.empty()) continue;
      std::istringstream is(line);
      std::string entry, tok;
      int force = 0;
      is >> entry >> force;
      Par p;
      while (is >> tok) {
         const auto eq = tok.find('=');
         if (eq == std::string::npos) continue;
         p[tok.substr(0, eq)] = std::strtod(tok.c_str() + eq + 1, nullptr);
      }
      std::ostringstream out;
      out << "C " << n << " entry=" << entry << " force=" << force;
      const std::string err = capture_stderr([&] {
         try {
            if (entry == "cpp_slha") cpp_mssm(out, p, force != 0, true);
            else if (entry == "cpp_gm2") cpp_mssm(out, p, force != 0, false);
            else if (entry == "c_slha") c_mssm(out, p, true);
            else if (entry == "c_gm2") c_mssm(out, p, false);
            else if (entry == "cpp_mass") cpp_thdm(out, p, force != 0, true);
            else if (entry == "cpp_gauge") cpp_thdm(out, p, force != 0, false);
            else if (entry == "c_mass") c_thdm(out, p, force != 0, true);
            else if (entry == "c_gauge") c_thdm(out, p, force != 0, false);
            else out << " setup=BADENTRY";
         } catch (const std::exception& e) {
            // an exception leaving a C interface function or an unexpected one
            out << " ESCAPED=" << exc_class(e) << " what=" << esc(e.what());
         } catch (...) {
            out << " ESCAPED=unknown";
         }
      });
      out << " stderr=" << esc(err);
      std::cout << out.str() << '\n';
      ++n;
   }
   std::cout << "END " << n << std::endl;
   return 0;
}

} // anonymous namespace

int main(int argc, char* argv[])
{
   const std::string mode = argc > 1 ? argv[1] : "";
   if (mode == "c15") return run_c15();
   if (mode == "c15iter") return run_c15iter();
   if (mode == "c16") return run_c16();
   std::fprintf(stderr, "usage: cli_api c15|c16 < cases\n");
   return 2;
}
