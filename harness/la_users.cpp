// la_users: the users of the decompositions (C12).  Every stored (mass, mixing) pair must reconstruct ITS OWN mass
// matrix in the documented convention:
//   THDM_mass_eigenstates, general complex non-symmetric Gamma_f, Pi_f (f = d, u, l) set through the public setters:
//       m_f = V_f^T diag(M_f) U_f            (fs_svd users; a swapped U/V reproduces m^T)
//   MSSMNoFV_onshell_mass_eigenstates after calculate_DRbar_masses():
//       chargino  m = UM^T diag(MCha) UP,  neutralino  m = ZN^T diag(MChi) ZN,
//       sfermions 2x2:  Z m Z^T = diag(+-M^2)   (stored masses are sqrt|w|)
// stdin:  thdm <shard> <nshards>  |  mssm <n> then n lines <path> <s_mu> <s_M1> <s_M2> <tb|nan>
// stdout: UFAIL <group> <kind> <value> <case>  (first 6 per group+kind) ; UGRP <group> n=<cases> fails=<n> rec=<worst> uni=<worst> ; END <n>
#include "gm2calc/THDM_mass_eigenstates.hpp"
#include "gm2calc/MSSMNoFV_onshell.hpp"
#include "gm2calc/gm2_error.hpp"
#include "gm2_slha_io.hpp"
#include <cmath>
#include <complex>
#include <cstdio>
#include <cstdlib>
#include <iostream>
#include <map>
#include <sstream>
#include <string>
#include <vector>

typedef long double LD;
typedef std::complex<LD> CL;
typedef std::complex<double> cd;
namespace g = gm2calc;

struct Grp { long n = 0, nfail = 0; double rec = 0, uni = 0; std::map<std::string, long> fk; };
static std::map<std::string, Grp> grps;
static std::string cur_case;
static void fail(const std::string& gname, const char* kind, double v) {
   Grp& G = grps[gname]; G.nfail++;
   if (++G.fk[kind] <= 6) std::printf("UFAIL %s %s %.6e %s\n", gname.c_str(), kind, v, cur_case.c_str());
}
template <class D> static std::vector<CL> flat(const Eigen::MatrixBase<D>& m) {
   std::vector<CL> x; for (int i = 0; i < m.rows(); i++) for (int j = 0; j < m.cols(); j++) { cd z = m(i, j); x.push_back(CL(z.real(), z.imag())); } return x;
}
static LD unit_err(const std::vector<CL>& u, int n) {
   LD e = 0;
   for (int i = 0; i < n; i++) for (int j = 0; j < n; j++) { CL x = 0; for (int k = 0; k < n; k++) x += u[i * n + k] * std::conj(u[j * n + k]); if (i == j) x -= (LD)1; e += std::norm(x); }
   return std::sqrt(e);
}
// m == A^T diag(s) B   (Haber-Kane; B == A for the Takagi users)
template <class DM, class DS, class DA, class DB>
static void chk_hk(const std::string& gname, const Eigen::MatrixBase<DM>& m, const Eigen::ArrayBase<DS>& s, const Eigen::MatrixBase<DA>& A, const Eigen::MatrixBase<DB>& B) {
   const int n = (int)m.rows();
   Grp& G = grps[gname]; G.n++;
   std::vector<CL> M = flat(m), a = flat(A), b = flat(B);
   LD e = 0, nm = 0;
   for (int i = 0; i < n; i++) for (int j = 0; j < n; j++) {
      CL x = 0; for (int k = 0; k < n; k++) x += a[k * n + i] * (LD)s(k) * b[k * n + j];
      e += std::norm(M[i * n + j] - x); nm += std::norm(M[i * n + j]);
   }
   e = std::sqrt(e); nm = std::sqrt(nm);
   double rel = nm > 0 ? (double)(e / nm) : (double)e;
   if (!(e <= (LD)1e-12 * nm)) fail(gname, "reconstruction", rel); else if (rel > G.rec) G.rec = rel;
   double ue = std::max((double)unit_err(a, n), (double)unit_err(b, n));
   if (!(ue <= 1e-12)) fail(gname, "unitarity", ue); else if (ue > G.uni) G.uni = ue;
   for (int k = 0; k < n; k++) { if (!(s(k) >= 0)) fail(gname, "mass-negative", s(k)); if (k + 1 < n && !(s(k) <= s(k + 1))) fail(gname, "order", s(k)); }
}
// Z m Z^+ == diag(w), |w_i| == M_i^2
template <class DM, class DS, class DZ>
static void chk_herm(const std::string& gname, const Eigen::MatrixBase<DM>& m, const Eigen::ArrayBase<DS>& mass, const Eigen::MatrixBase<DZ>& Z) {
   const int n = (int)m.rows();
   Grp& G = grps[gname]; G.n++;
   std::vector<CL> M = flat(m), z = flat(Z);
   LD nm = 0; for (auto& x : M) nm += std::norm(x); nm = std::sqrt(nm);
   LD e = 0;
   for (int i = 0; i < n; i++) for (int j = 0; j < n; j++) {
      CL x = 0; for (int k = 0; k < n; k++) for (int l = 0; l < n; l++) x += z[i * n + k] * M[k * n + l] * std::conj(z[j * n + l]);
      if (i == j) { LD d = std::abs(std::abs(x) - (LD)mass(i) * (LD)mass(i)); e += d * d; } else e += std::norm(x);
   }
   e = std::sqrt(e);
   double rel = nm > 0 ? (double)(e / nm) : (double)e;
   if (!(e <= (LD)1e-12 * nm)) fail(gname, "reconstruction", rel); else if (rel > G.rec) G.rec = rel;
   double ue = (double)unit_err(z, n);
   if (!(ue <= 1e-12)) fail(gname, "unitarity", ue); else if (ue > G.uni) G.uni = ue;
}

static void run_thdm(long sh, long nsh) {
   const cd I(0, 1), al[3] = {cd(0), cd(1), I};
   Eigen::Matrix<cd, 3, 3> P0; P0 << cd(0.3, 0.1), cd(0, 2), cd(0), cd(0.5), cd(0, -0.2), cd(1, 1), cd(0), cd(0.01), cd(3);
   long total = 19683;
   for (long code = sh; code < total; code += nsh) {
      long c = code; Eigen::Matrix<cd, 3, 3> Ga;
      for (int i = 0; i < 3; i++) for (int j = 0; j < 3; j++) { Ga(i, j) = al[c % 3]; c /= 3; }
      int k = (int)(code % 3);
      Eigen::Matrix<cd, 3, 3> Pi; Pi.setZero();
      if (k == 1) Pi = P0; else if (k == 2) Pi = I * P0.transpose();
      char b[64]; std::snprintf(b, sizeof b, "thdm-code=%ld", code); cur_case = b;
      g::THDM_mass_eigenstates me;
      me.set_v1(1.3 * 100); me.set_v2(0.7 * 100);
      me.set_Gamma_d(Ga); me.set_Pi_d(Pi);
      me.set_Gamma_u((I * Ga.transpose() + Pi).eval()); me.set_Pi_u((0.5 * Pi.adjoint()).eval());
      me.set_Gamma_l(Ga.conjugate().eval()); me.set_Pi_l((Pi * I).eval());
      me.calculate_MFd(); me.calculate_MFu(); me.calculate_MFe();
      chk_hk("THDM_mass_eigenstates:Fd", me.get_mass_matrix_Fd(), me.get_MFd(), me.get_Vd(), me.get_Ud());
      chk_hk("THDM_mass_eigenstates:Fu", me.get_mass_matrix_Fu(), me.get_MFu(), me.get_Vu(), me.get_Uu());
      chk_hk("THDM_mass_eigenstates:Fe", me.get_mass_matrix_Fe(), me.get_MFe(), me.get_Ve(), me.get_Ue());
   }
}

static void run_mssm_one(const std::string& path, double smu, double s1, double s2, double tb) {
   std::ostringstream os; std::streambuf* old = std::cerr.rdbuf(os.rdbuf());
   try {
      g::GM2_slha_io io; io.read_from_file(path);
      g::MSSMNoFV_onshell m; m.do_force_output(true);
      io.fill_gm2calc(m);
      if (!std::isnan(tb)) m.set_TB(tb);
      m.set_Mu(m.get_Mu() * smu); m.set_MassB(m.get_MassB() * s1); m.set_MassWB(m.get_MassWB() * s2);
      m.calculate_DRbar_masses();
      chk_hk("MSSMNoFV:Cha", m.get_mass_matrix_Cha(), m.MCha, m.UM, m.UP);
      chk_hk("MSSMNoFV:Chi", m.get_mass_matrix_Chi(), m.MChi, m.ZN, m.ZN);
      chk_herm("MSSMNoFV:Sd", m.get_mass_matrix_Sd(), m.MSd, m.ZD); chk_herm("MSSMNoFV:Su", m.get_mass_matrix_Su(), m.MSu, m.ZU);
      chk_herm("MSSMNoFV:Se", m.get_mass_matrix_Se(), m.MSe, m.ZE); chk_herm("MSSMNoFV:Sm", m.get_mass_matrix_Sm(), m.MSm, m.ZM);
      chk_herm("MSSMNoFV:Stau", m.get_mass_matrix_Stau(), m.MStau, m.ZTau); chk_herm("MSSMNoFV:Ss", m.get_mass_matrix_Ss(), m.MSs, m.ZS);
      chk_herm("MSSMNoFV:Sc", m.get_mass_matrix_Sc(), m.MSc, m.ZC); chk_herm("MSSMNoFV:Sb", m.get_mass_matrix_Sb(), m.MSb, m.ZB);
      chk_herm("MSSMNoFV:St", m.get_mass_matrix_St(), m.MSt, m.ZT);
      // (the Higgs sector is not set up by calculate_DRbar_masses() alone for GM2Calc-type input: soft Higgs parameters are
      //  undefined there and the mass matrices are NaN; it is covered through move_goldstone_to in la.cpp and by C04)
   } catch (const std::exception& e) { grps["MSSMNoFV:rejected"].n++; }
   std::cerr.rdbuf(old);
}

int main() {
   std::string cmd;
   while (std::cin >> cmd) {
      long n = 0;
      if (cmd == "thdm") { long sh, nsh; std::cin >> sh >> nsh; run_thdm(sh, nsh); n = 1; }
      else if (cmd == "mssm") {
         std::cin >> n;
         for (long k = 0; k < n; k++) {
            std::string path, s0, s1, s2, tb; std::cin >> path >> s0 >> s1 >> s2 >> tb;
            cur_case = "mssm:" + path + ":signs=" + s0 + "," + s1 + "," + s2 + ":tb=" + tb;
            run_mssm_one(path, std::atof(s0.c_str()), std::atof(s1.c_str()), std::atof(s2.c_str()), std::strtod(tb.c_str(), nullptr));
         }
      } else { std::printf("ERR cmd %s\n", cmd.c_str()); return 2; }
      for (auto& e : grps) std::printf("UGRP %s n=%ld fails=%ld rec=%.3e uni=%.3e\n", e.first.c_str(), e.second.n, e.second.nfail, e.second.rec, e.second.uni);
      grps.clear();
      std::printf("END %ld\n", n); std::fflush(stdout);
   }
   return 0;
}
