// mssm: harness for the MSSM model class (C04 tree-level spectrum, C06 sign flip, C07 decoupling).
// Protocol (stdin, whitespace separated tokens, doubles as C99 hex floats, one result line per case):
//
//   names                      -> "NAMES_T <name:len> ..." and "NAMES_O <name:len> ..." (column layout)
//   tree <n> then n x 45 doubles (Lagrangian parameters, order of struct TP below)
//        per case:  T <sig> <values...> | <get_problems() string> | GX <n_mismatch> [<what> ...]
//        The model is MSSMNoFV_onshell_mass_eigenstates, calculate_DRbar_masses() is called on a
//        fresh object; all values come from the public getters.  GX: for every pair of generations
//        the parameters of the two generations are exchanged, the spectrum is recomputed and
//        compared *bitwise* with the exchanged spectrum of the original point (and everything
//        generation-independent with the original values).
//   tsig <n> then n x 45 doubles : only "S <sig>" per case (branch-path signature of calculate_DRbar_masses, cov build)
//   os <n> then n x 35 doubles (on-shell input, order of struct OP below)
//        per case:  O OK <values...>        (values: with resummation, then on the model converted
//                                            with convert_to_non_tan_beta_resummed())
//                   O EXC <class> <what>     calculate_masses() or an evaluation threw
//                   O PROBLEM <string>       (only if force were set; not used)
//   osf <nfam> <nk> <mode> then nfam x (1 + nk) x 35 doubles: re-used objects, see do_osf(); same O lines
//   spec <n> then n x 40 doubles: public spectrum entry points of MSSMNoFV_onshell, see do_spec(); T / X lines
//   select <n> <i_1..i_n>: subsequent `os` lines print only these columns of the NAMES_O layout (n = 0: all)
//   END <ncases>
#include "covsig.hpp"
#include "gm2calc/MSSMNoFV_onshell.hpp"
#include "gm2calc/gm2_1loop.hpp"
#include "gm2calc/gm2_2loop.hpp"
#include "gm2calc/gm2_uncertainty.hpp"
#include "gm2calc/gm2_error.hpp"
#include "MSSMNoFV/gm2_1loop_helpers.hpp"
#include "MSSMNoFV/gm2_2loop_helpers.hpp"
#include <cinttypes>
#include <cmath>
#include <complex>
#include <cstdio>
#include <cstdlib>
#include <cstring>
#include <iostream>
#include <string>
#include <typeinfo>
#include <vector>
#include <unistd.h>
#include <fcntl.h>

using namespace gm2calc;
typedef MSSMNoFV_onshell_mass_eigenstates ME;

static double rd() {
   std::string s; if (!(std::cin >> s)) { std::printf("ERR eof\n"); std::exit(2); }
   if (s == "nan") return std::nan(""); if (s == "inf") return INFINITY; if (s == "-inf") return -INFINITY;
   return std::strtod(s.c_str(), nullptr);
}

// ---------------------------------------------------------------- output collector
struct Out {
   std::vector<std::pair<std::string,int>> names;   // filled on the first call only
   std::vector<double> v;
   bool record_names = false;
   void put(const char* n, double x) { if (record_names) names.push_back({n, 1}); v.push_back(x); }
   void put(const char* n, std::complex<double> x) { if (record_names) names.push_back({n, 2}); v.push_back(x.real()); v.push_back(x.imag()); }
   template <class D> void putm(const char* n, const Eigen::DenseBase<D>& m) {    // row-major
      int cnt = 0;
      for (int i = 0; i < m.rows(); i++) for (int k = 0; k < m.cols(); k++) { add(m(i, k)); cnt += width(m(i, k)); }
      if (record_names) names.push_back({n, cnt});
   }
   void add(double x) { v.push_back(x); }
   void add(std::complex<double> x) { v.push_back(x.real()); v.push_back(x.imag()); }
   static int width(double) { return 1; }
   static int width(std::complex<double>) { return 2; }
   void print_names(const char* tag) const {
      std::printf("%s", tag);
      for (auto& p : names) std::printf(" %s:%d", p.first.c_str(), p.second);
      std::printf("\n");
   }
   void print_values() const { for (double x : v) std::printf(" %a", x); }
   void print_selected(const std::vector<int>& sel) const {
      if (sel.empty()) { print_values(); return; }
      for (int i : sel) std::printf(" %a", v.at(i));
   }
};

// ---------------------------------------------------------------- tree-level spectrum (C04)
struct TP {   // 45 numbers
   double g1, g2, g3, vd, vu, Mu, BMu, M1, M2, M3, mHd2, mHu2;
   double mq2[3], ml2[3], mu2[3], md2[3], me2[3];
   double Yu[3], Yd[3], Ye[3], TYu[3], TYd[3], TYe[3];
};
static const int NTP = 45;

static void set_tree(ME& m, const TP& p) {
   m.set_g1(p.g1); m.set_g2(p.g2); m.set_g3(p.g3); m.set_vd(p.vd); m.set_vu(p.vu);
   m.set_Mu(p.Mu); m.set_BMu(p.BMu); m.set_MassB(p.M1); m.set_MassWB(p.M2); m.set_MassG(p.M3);
   m.set_mHd2(p.mHd2); m.set_mHu2(p.mHu2);
   for (int i = 0; i < 3; i++) {
      m.set_mq2(i, i, p.mq2[i]); m.set_ml2(i, i, p.ml2[i]); m.set_mu2(i, i, p.mu2[i]);
      m.set_md2(i, i, p.md2[i]); m.set_me2(i, i, p.me2[i]);
      m.set_Yu(i, i, p.Yu[i]); m.set_Yd(i, i, p.Yd[i]); m.set_Ye(i, i, p.Ye[i]);
      m.set_TYu(i, i, p.TYu[i]); m.set_TYd(i, i, p.TYd[i]); m.set_TYe(i, i, p.TYe[i]);
   }
}

static void dump_tree(const ME& m, Out& o) {
   // parameters read back (calculate_DRbar_masses() must leave them untouched, incl. mHd2/mHu2)
   o.put("g1", m.get_g1()); o.put("g2", m.get_g2()); o.put("g3", m.get_g3());
   o.put("vd", m.get_vd()); o.put("vu", m.get_vu()); o.put("Mu", m.get_Mu()); o.put("BMu", m.get_BMu());
   o.put("M1", m.get_MassB()); o.put("M2", m.get_MassWB()); o.put("M3", m.get_MassG());
   o.put("mHd2", m.get_mHd2()); o.put("mHu2", m.get_mHu2());
   o.putm("mq2", m.get_mq2().diagonal()); o.putm("ml2", m.get_ml2().diagonal()); o.putm("mu2", m.get_mu2().diagonal());
   o.putm("md2", m.get_md2().diagonal()); o.putm("me2", m.get_me2().diagonal());
   o.putm("Yu", m.get_Yu().diagonal()); o.putm("Yd", m.get_Yd().diagonal()); o.putm("Ye", m.get_Ye().diagonal());
   o.putm("TYu", m.get_TYu().diagonal()); o.putm("TYd", m.get_TYd().diagonal()); o.putm("TYe", m.get_TYe().diagonal());
   // masses
   o.put("MVG", m.get_MVG()); o.put("MGlu", m.get_MGlu()); o.put("MVP", m.get_MVP());
   o.put("MVZ", m.get_MVZ()); o.put("MVWm", m.get_MVWm());
   o.put("MFd", m.get_MFd()); o.put("MFs", m.get_MFs()); o.put("MFb", m.get_MFb());
   o.put("MFu", m.get_MFu()); o.put("MFc", m.get_MFc()); o.put("MFt", m.get_MFt());
   o.put("MFve", m.get_MFve()); o.put("MFvm", m.get_MFvm()); o.put("MFvt", m.get_MFvt());
   o.put("MFe", m.get_MFe()); o.put("MFm", m.get_MFm()); o.put("MFtau", m.get_MFtau());
   o.put("MSveL", m.get_MSveL()); o.put("MSvmL", m.get_MSvmL()); o.put("MSvtL", m.get_MSvtL());
   o.putm("MSd", m.get_MSd()); o.putm("MSu", m.get_MSu()); o.putm("MSe", m.get_MSe());
   o.putm("MSm", m.get_MSm()); o.putm("MStau", m.get_MStau()); o.putm("MSs", m.get_MSs());
   o.putm("MSc", m.get_MSc()); o.putm("MSb", m.get_MSb()); o.putm("MSt", m.get_MSt());
   o.putm("Mhh", m.get_Mhh()); o.putm("MAh", m.get_MAh()); o.putm("MHpm", m.get_MHpm());
   o.putm("MChi", m.get_MChi()); o.putm("MCha", m.get_MCha());
   o.putm("MChargedHiggs", m.get_MChargedHiggs()); o.putm("MPseudoscalarHiggs", m.get_MPseudoscalarHiggs());
   // mixing matrices (row major)
   o.putm("ZD", m.get_ZD()); o.putm("ZU", m.get_ZU()); o.putm("ZE", m.get_ZE()); o.putm("ZM", m.get_ZM());
   o.putm("ZTau", m.get_ZTau()); o.putm("ZS", m.get_ZS()); o.putm("ZC", m.get_ZC()); o.putm("ZB", m.get_ZB());
   o.putm("ZT", m.get_ZT()); o.putm("ZH", m.get_ZH()); o.putm("ZA", m.get_ZA()); o.putm("ZP", m.get_ZP());
   o.putm("ZN", m.get_ZN()); o.putm("UM", m.get_UM()); o.putm("UP", m.get_UP());
   o.put("PhaseGlu", m.get_PhaseGlu());
}

template <class T> static bool same(const T& a, const T& b) { return std::memcmp(&a, &b, sizeof(T)) == 0; }
template <class A> static bool samev(const A& a, const A& b) { return std::memcmp(a.data(), b.data(), sizeof(typename A::Scalar) * a.size()) == 0; }

// generation exchange i<->j of all generation-indexed parameters
static TP swap_gen(TP p, int i, int j) {
   double* arrs[] = {p.mq2, p.ml2, p.mu2, p.md2, p.me2, p.Yu, p.Yd, p.Ye, p.TYu, p.TYd, p.TYe};
   for (double* a : arrs) std::swap(a[i], a[j]);
   return p;
}

struct GenSpec {   // spectrum of one generation, by value
   double MFu, MFd, MFe, MSv; Eigen::Array<double,2,1> MSu, MSd, MSe; Eigen::Matrix<double,2,2> ZU, ZD, ZE;
};
static GenSpec gens(const ME& m, int g) {
   GenSpec s;
   if (g == 0) { s = GenSpec{m.get_MFu(), m.get_MFd(), m.get_MFe(), m.get_MSveL(), m.get_MSu(), m.get_MSd(), m.get_MSe(), m.get_ZU(), m.get_ZD(), m.get_ZE()}; }
   if (g == 1) { s = GenSpec{m.get_MFc(), m.get_MFs(), m.get_MFm(), m.get_MSvmL(), m.get_MSc(), m.get_MSs(), m.get_MSm(), m.get_ZC(), m.get_ZS(), m.get_ZM()}; }
   if (g == 2) { s = GenSpec{m.get_MFt(), m.get_MFb(), m.get_MFtau(), m.get_MSvtL(), m.get_MSt(), m.get_MSb(), m.get_MStau(), m.get_ZT(), m.get_ZB(), m.get_ZTau()}; }
   return s;
}
static int cmp_gen(const GenSpec& a, const GenSpec& b, const char* tag, std::string& what) {
   int n = 0;
#define CG(f, cmp) if (!cmp(a.f, b.f)) { n++; what += std::string(" ") + tag + ":" #f; }
   CG(MFu, same) CG(MFd, same) CG(MFe, same) CG(MSv, same)
   CG(MSu, samev) CG(MSd, samev) CG(MSe, samev) CG(ZU, samev) CG(ZD, samev) CG(ZE, samev)
#undef CG
   return n;
}
static int cmp_common(const ME& a, const ME& b, const char* tag, std::string& what) {
   int n = 0;
#define CC(g, cmp) if (!cmp(a.g(), b.g())) { n++; what += std::string(" ") + tag + ":" #g; }
   CC(get_MVZ, same) CC(get_MVWm, same) CC(get_MGlu, same) CC(get_Mhh, samev) CC(get_MAh, samev) CC(get_MHpm, samev)
   CC(get_MChi, samev) CC(get_MCha, samev) CC(get_ZH, samev) CC(get_ZA, samev) CC(get_ZP, samev)
   CC(get_ZN, samev) CC(get_UM, samev) CC(get_UP, samev)
#undef CC
   return n;
}

static void do_tree(long n) {
   Out names_probe;
   for (long c = 0; c < n; c++) {
      TP p; double* raw = reinterpret_cast<double*>(&p);
      for (int i = 0; i < NTP; i++) raw[i] = rd();
      ME m; set_tree(m, p);
      covsig::reset();
      m.calculate_DRbar_masses();
      uint64_t sig = covsig::hash();
      Out o; dump_tree(m, o);
      std::printf("T %016" PRIx64, sig); o.print_values();
      std::printf(" | %s |", m.get_problems().get_problems().c_str());
      // generation exchange
      int nm = 0; std::string what;
      static const int pairs[3][2] = {{0, 1}, {0, 2}, {1, 2}};
      for (auto& pr : pairs) {
         int i = pr[0], j = pr[1], k = 3 - i - j;
         ME s; set_tree(s, swap_gen(p, i, j)); s.calculate_DRbar_masses();
         char tag[8]; std::snprintf(tag, sizeof tag, "%d%d", i, j);
         nm += cmp_gen(gens(s, i), gens(m, j), tag, what);
         nm += cmp_gen(gens(s, j), gens(m, i), tag, what);
         nm += cmp_gen(gens(s, k), gens(m, k), tag, what);
         nm += cmp_common(s, m, tag, what);
      }
      std::printf(" GX %d%s\n", nm, what.c_str());
   }
}

static void do_tsig(long n) {
   for (long c = 0; c < n; c++) {
      TP p; double* raw = reinterpret_cast<double*>(&p);
      for (int i = 0; i < NTP; i++) raw[i] = rd();
      ME m; set_tree(m, p);
      covsig::reset();
      m.calculate_DRbar_masses();
      std::printf("S %016" PRIx64 "\n", covsig::hash());
   }
}

// ---------------------------------------------------------------- on-shell points (C06, C07)
struct OP {   // 35 numbers
   double tb, Mu, M1, M2, M3, MA, Q;
   double ml2[3], me2[3], mq2[3], mu2[3], md2[3];
   double Ae[3], Ad[3], Au[3];
   double force;     // != 0: force output (problems do not throw)
   double spare[3];
};
static const int NOP = 35;

// SM input of input/example.gm2 (fixed for all on-shell points), light fermion masses set so that the
// first two generations are not trivial
// SM input sets: 0 = input/example.gm2 (the values every earlier check uses); 1..3: alpha(MZ), alpha(0),
// alpha_s, MW, MZ, mt, mb, mtau, mmu (and the light fermion masses) all changed
struct SMSet { double aMZ, a0, as, MW, MZ, mt, mb, mtau, mmu, me, md, mu, ms, mc; };
static const SMSet SMSETS[4] = {
   {0.00775531, 0.00729735, 0.1184, 80.385, 91.1876, 173.34, 4.18, 1.777, 0.1056583715, 0.000510998928, 4.76052706e-03, 2.40534062e-03, 1.04230487e-01, 1.27183378e+00},
   {0.00780000, 0.00730500, 0.1170, 80.200, 91.0000, 172.50, 4.25, 1.780, 0.1057000000, 0.000511500000, 4.70000000e-03, 2.30000000e-03, 1.00000000e-01, 1.28000000e+00},
   {0.00765000, 0.00729000, 0.1200, 79.000, 92.5000, 175.00, 4.10, 1.750, 0.1050000000, 0.000510000000, 4.90000000e-03, 2.50000000e-03, 1.10000000e-01, 1.25000000e+00},
   {0.00790000, 0.00731000, 0.1150, 81.000, 90.0000, 170.00, 4.30, 1.800, 0.1060000000, 0.000512000000, 4.60000000e-03, 2.20000000e-03, 0.95000000e-01, 1.30000000e+00}};

static void set_sm(MSSMNoFV_onshell& m, int set, bool reversed = false) {
   const double Pi = 3.141592653589793;
   const SMSet& q = SMSETS[set & 3];
   if (!reversed) {
      m.set_alpha_MZ(q.aMZ);
      m.set_alpha_thompson(q.a0);
      m.set_g3(std::sqrt(4 * Pi * q.as));
      m.get_physical().MFt = q.mt;
      m.get_physical().MFb = q.mb;
      m.get_physical().MFm = q.mmu;
      m.get_physical().MFtau = q.mtau;
      m.get_physical().MVWm = q.MW;
      m.get_physical().MVZ = q.MZ;
      m.get_physical().MFe = q.me;
      m.get_physical().MFd = q.md;
      m.get_physical().MFu = q.mu;
      m.get_physical().MFs = q.ms;
      m.get_physical().MFc = q.mc;
   } else {
      m.get_physical().MFc = q.mc;
      m.get_physical().MFs = q.ms;
      m.get_physical().MFu = q.mu;
      m.get_physical().MFd = q.md;
      m.get_physical().MFe = q.me;
      m.get_physical().MVZ = q.MZ;
      m.get_physical().MVWm = q.MW;
      m.get_physical().MFtau = q.mtau;
      m.get_physical().MFm = q.mmu;
      m.get_physical().MFb = q.mb;
      m.get_physical().MFt = q.mt;
      m.set_g3(std::sqrt(4 * Pi * q.as));
      m.set_alpha_thompson(q.a0);
      m.set_alpha_MZ(q.aMZ);
   }
}

static void set_susy(MSSMNoFV_onshell& m, const OP& p, bool reversed = false) {
   if (!reversed) {
      m.set_Mu(p.Mu); m.set_MassB(p.M1); m.set_MassWB(p.M2); m.set_MassG(p.M3);
      m.set_MA0(p.MA); m.set_scale(p.Q);
      for (int i = 0; i < 3; i++) {
         m.set_ml2(i, i, p.ml2[i]); m.set_me2(i, i, p.me2[i]); m.set_mq2(i, i, p.mq2[i]);
         m.set_mu2(i, i, p.mu2[i]); m.set_md2(i, i, p.md2[i]);
         m.set_Ae(i, i, p.Ae[i]); m.set_Ad(i, i, p.Ad[i]); m.set_Au(i, i, p.Au[i]);
      }
   } else {
      for (int i = 2; i >= 0; i--) {
         m.set_Au(i, i, p.Au[i]); m.set_Ad(i, i, p.Ad[i]); m.set_Ae(i, i, p.Ae[i]);
         m.set_md2(i, i, p.md2[i]); m.set_mu2(i, i, p.mu2[i]); m.set_mq2(i, i, p.mq2[i]);
         m.set_me2(i, i, p.me2[i]); m.set_ml2(i, i, p.ml2[i]);
      }
      m.set_scale(p.Q); m.set_MA0(p.MA);
      m.set_MassG(p.M3); m.set_MassWB(p.M2); m.set_MassB(p.M1); m.set_Mu(p.Mu);
   }
}

// ORDER of the setter calls (p.spare[1]) and SM input set (p.spare[2]):
//   0 canonical: SM inputs, tan(beta), SUSY parameters          1 tan(beta) first, then SM inputs, SUSY parameters
//   2 SUSY parameters, tan(beta), SM inputs last of all         3 reversed canonical (every setter in reverse order)
//   4 canonical with another SM set, then the SM inputs overwritten with the wanted set (tan(beta) not set again)
static void setup_os(MSSMNoFV_onshell& m, const OP& p) {
   const int order = int(p.spare[1]), sm = int(p.spare[2]) & 3;
   switch (order) {
   case 1: m.set_TB(p.tb); set_sm(m, sm); set_susy(m, p); break;
   case 2: set_susy(m, p); m.set_TB(p.tb); set_sm(m, sm); break;
   case 3: set_susy(m, p, true); m.set_TB(p.tb); set_sm(m, sm, true); break;
   case 4: set_sm(m, (sm + 1) & 3); m.set_TB(p.tb); set_susy(m, p); set_sm(m, sm); break;
   default: set_sm(m, sm); m.set_TB(p.tb); set_susy(m, p); break;
   }
   m.do_force_output(p.force != 0);
}

// every function of gm2_1loop.hpp, gm2_2loop.hpp, gm2_uncertainty.hpp (MSSM) and of the helper headers,
// plus masses; `full`: include the functions that internally convert to the non-resummed model
static void dump_os(const MSSMNoFV_onshell& m, Out& o, bool full) {
   if (full) {
      o.put("amu1L", calculate_amu_1loop(m));
      o.put("amu1L_nonres", calculate_amu_1loop_non_tan_beta_resummed(m));
      o.put("amu2L", calculate_amu_2loop(m));
      o.put("amu2L_nonres", calculate_amu_2loop_non_tan_beta_resummed(m));
      o.put("unc0L", calculate_uncertainty_amu_0loop(m));
      o.put("unc1L", calculate_uncertainty_amu_1loop(m));
      o.put("unc2L", calculate_uncertainty_amu_2loop(m));
   }
   o.put("amu1LChi0", amu1LChi0(m)); o.put("amu1LChipm", amu1LChipm(m));
   o.put("amu2LFSfapprox", amu2LFSfapprox(m));
   o.put("amu2LFSfapprox_nonres", amu2LFSfapprox_non_tan_beta_resummed(m));
   o.put("amu2LChipmPhotonic", amu2LChipmPhotonic(m)); o.put("amu2LChi0Photonic", amu2LChi0Photonic(m));
   o.put("amu2LaSferm", amu2LaSferm(m)); o.put("amu2LaCha", amu2LaCha(m));
   // 1-loop helpers
   o.put("amu1Lapprox", amu1Lapprox(m)); o.put("amu1Lapprox_nonres", amu1Lapprox_non_tan_beta_resummed(m));
   o.put("amu1LWHnu", amu1LWHnu(m)); o.put("amu1LWHmuL", amu1LWHmuL(m)); o.put("amu1LBHmuL", amu1LBHmuL(m));
   o.put("amu1LBHmuR", amu1LBHmuR(m)); o.put("amu1LBmuLmuR", amu1LBmuLmuR(m));
   o.put("delta_mu", delta_mu_correction(m)); o.put("delta_tau", delta_tau_correction(m));
   o.put("delta_bottom", delta_bottom_correction(m)); o.put("tan_beta_cor", tan_beta_cor(m));
   o.putm("AAC", AAC(m)); o.putm("AAN", AAN(m)); o.putm("BBC", BBC(m)); o.putm("BBN", BBN(m));
   o.putm("x_im", x_im(m)); o.putm("x_k", x_k(m));
   // 2-loop helpers
   o.put("amu2LWHnu", amu2LWHnu(m)); o.put("amu2LWHmuL", amu2LWHmuL(m)); o.put("amu2LBHmuL", amu2LBHmuL(m));
   o.put("amu2LBHmuR", amu2LBHmuR(m)); o.put("amu2LBmuLmuR", amu2LBmuLmuR(m));
   o.put("log_scale", log_scale(m)); o.put("delta_g1", delta_g1(m)); o.put("delta_g2", delta_g2(m));
   o.put("delta_yuk_higgsino", delta_yuk_higgsino(m)); o.put("delta_yuk_bino_higgsino", delta_yuk_bino_higgsino(m));
   o.put("delta_yuk_wino_higgsino", delta_yuk_wino_higgsino(m)); o.put("delta_tan_beta", delta_tan_beta(m));
   o.put("tan_alpha", tan_alpha(m));
   o.putm("lambda_mu_cha", lambda_mu_cha(m)); o.putm("lambda_stop", lambda_stop(m));
   o.putm("lambda_sbot", lambda_sbot(m)); o.putm("lambda_stau", lambda_stau(m));
   // masses (DR-bar getters and the pole-mass struct), resummed Yukawas
   o.put("MGlu", m.get_MGlu()); o.put("MVZ", m.get_MVZ()); o.put("MVWm", m.get_MVWm());
   o.put("MFd", m.get_MFd()); o.put("MFs", m.get_MFs()); o.put("MFb", m.get_MFb());
   o.put("MFu", m.get_MFu()); o.put("MFc", m.get_MFc()); o.put("MFt", m.get_MFt());
   o.put("MFe", m.get_MFe()); o.put("MFm", m.get_MFm()); o.put("MFtau", m.get_MFtau());
   o.put("MSveL", m.get_MSveL()); o.put("MSvmL", m.get_MSvmL()); o.put("MSvtL", m.get_MSvtL());
   o.putm("MSd", m.get_MSd()); o.putm("MSu", m.get_MSu()); o.putm("MSe", m.get_MSe());
   o.putm("MSm", m.get_MSm()); o.putm("MStau", m.get_MStau()); o.putm("MSs", m.get_MSs());
   o.putm("MSc", m.get_MSc()); o.putm("MSb", m.get_MSb()); o.putm("MSt", m.get_MSt());
   o.putm("Mhh", m.get_Mhh()); o.putm("MAh", m.get_MAh()); o.putm("MHpm", m.get_MHpm());
   o.putm("MChi", m.get_MChi()); o.putm("MCha", m.get_MCha());
   const auto& ph = m.get_physical();
   o.putm("pole_MChi", ph.MChi); o.putm("pole_MCha", ph.MCha); o.putm("pole_MSm", ph.MSm);
   o.put("pole_MSvmL", ph.MSvmL); o.putm("pole_MStau", ph.MStau); o.putm("pole_MSb", ph.MSb);
   o.putm("pole_MSt", ph.MSt); o.putm("pole_Mhh", ph.Mhh); o.putm("pole_MAh", ph.MAh);
   o.putm("Ye", m.get_Ye().diagonal()); o.putm("Yd", m.get_Yd().diagonal()); o.putm("Yu", m.get_Yu().diagonal());
   o.put("MB_DRbar_MZ", m.get_MB()); o.put("BMu", m.get_BMu());
   o.put("par_Mu", m.get_Mu()); o.put("par_TB", m.get_TB());      // inputs as stored (par_Mu changes sign under the flip: not compared)
   // sfermion left-right mixing |Z(0,1)| (coverage statistics of the scaled families; basis dependent at degeneracy: not compared)
   o.put("mix_Sm", std::abs(m.get_ZM(0, 1))); o.put("mix_Stau", std::abs(m.get_ZTau(0, 1)));
   o.put("mix_Sb", std::abs(m.get_ZB(0, 1))); o.put("mix_St", std::abs(m.get_ZT(0, 1)));
}

// spectrum + every quantity on a model whose inputs have been set (fresh or reused object)
static void os_eval_model(MSSMNoFV_onshell& m, Out& o) {
   covsig::reset();
   m.calculate_masses();
   o.put("sig_lo", double(covsig::hash() & 0xffffffffull));   // branch path of the spectrum calculation (cov build)
   dump_os(m, o, true);
   // the same sub-contributions on the model without tan(beta) resummation
   MSSMNoFV_onshell t(m); t.convert_to_non_tan_beta_resummed();
   Out o2; o2.record_names = o.record_names; dump_os(t, o2, false);
   for (auto& nm : o2.names) o.names.push_back({"nr." + nm.first, nm.second});
   o.v.insert(o.v.end(), o2.v.begin(), o2.v.end());
   o.put("problem", m.get_problems().have_problem() ? 1.0 : 0.0);
   o.put("warning", m.get_problems().have_warning() ? 1.0 : 0.0);
}

static void os_eval(const OP& p, Out& o) {
   MSSMNoFV_onshell m; setup_os(m, p);
   os_eval_model(m, o);
}

// only the dimensionful SUSY inputs and the renormalisation scale, through the public setters
// (what a user does who re-uses an evaluated model for another parameter point)
static void apply_susy(MSSMNoFV_onshell& m, const OP& p) {
   m.set_Mu(p.Mu); m.set_MassB(p.M1); m.set_MassWB(p.M2); m.set_MassG(p.M3);
   m.set_MA0(p.MA); m.set_scale(p.Q);
   for (int i = 0; i < 3; i++) {
      m.set_ml2(i, i, p.ml2[i]); m.set_me2(i, i, p.me2[i]); m.set_mq2(i, i, p.mq2[i]);
      m.set_mu2(i, i, p.mu2[i]); m.set_md2(i, i, p.md2[i]);
      m.set_Ae(i, i, p.Ae[i]); m.set_Ad(i, i, p.Ad[i]); m.set_Au(i, i, p.Au[i]);
   }
}

static std::vector<int> g_select;     // `select`: indices of the O columns to print (empty = all)

static std::string oneline(std::string s) { for (char& c : s) if (c == '\n' || c == '\r') c = ' '; return s; }

static void do_os(long n) {
   for (long c = 0; c < n; c++) {
      OP p; double* raw = reinterpret_cast<double*>(&p);
      for (int i = 0; i < NOP; i++) raw[i] = rd();
      try {
         Out o; os_eval(p, o);
         std::printf("O OK"); o.print_selected(g_select); std::printf("\n");
      } catch (const EInvalidInput& e) { std::printf("O EXC EInvalidInput %s\n", oneline(e.what()).c_str());
      } catch (const EPhysicalProblem& e) { std::printf("O EXC EPhysicalProblem %s\n", oneline(e.what()).c_str());
      } catch (const Error& e) { std::printf("O EXC Error %s\n", oneline(e.what()).c_str());
      } catch (const std::exception& e) { std::printf("O EXC std::exception %s\n", oneline(e.what()).c_str()); }
   }
}

template <class F> static void guarded(F f) {
   try {
      Out o; f(o);
      std::printf("O OK"); o.print_selected(g_select); std::printf("\n");
   } catch (const EInvalidInput& e) { std::printf("O EXC EInvalidInput %s\n", oneline(e.what()).c_str());
   } catch (const EPhysicalProblem& e) { std::printf("O EXC EPhysicalProblem %s\n", oneline(e.what()).c_str());
   } catch (const Error& e) { std::printf("O EXC Error %s\n", oneline(e.what()).c_str());
   } catch (const std::exception& e) { std::printf("O EXC std::exception %s\n", oneline(e.what()).c_str()); }
}

// osf <nfam> <nk> <mode>: per family one base point followed by nk target points (same SM input and
// tan(beta)).  The base model is built, calculate_masses() is called and every quantity is evaluated on it.
// mode & 1: the *same object* is then moved through the targets one after the other (apply_susy +
//           calculate_masses(), a chain with history): nk lines;
// mode & 2: for every target a *copy of the evaluated base model* is moved to it: nk lines.
// If the base point throws, all lines of the family are EXC lines.
static void do_osf(long nfam, long nk, int mode) {
   for (long c = 0; c < nfam; c++) {
      std::vector<OP> ps(nk + 1);
      for (auto& p : ps) { double* raw = reinterpret_cast<double*>(&p); for (int i = 0; i < NOP; i++) raw[i] = rd(); }
      MSSMNoFV_onshell base; bool ok = true; std::string why;
      try { setup_os(base, ps[0]); Out o; os_eval_model(base, o); }
      catch (const EPhysicalProblem& e) { ok = false; why = std::string("EPhysicalProblem ") + oneline(e.what()); }
      catch (const EInvalidInput& e) { ok = false; why = std::string("EInvalidInput ") + oneline(e.what()); }
      catch (const std::exception& e) { ok = false; why = std::string("std::exception ") + oneline(e.what()); }
      const int nvar = ((mode & 1) ? 1 : 0) + ((mode & 2) ? 1 : 0);
      if (!ok) { for (long k = 0; k < nk * nvar; k++) std::printf("O EXC base:%s\n", why.c_str()); continue; }
      const MSSMNoFV_onshell evaluated(base);
      if (mode & 1) {
         for (long k = 1; k <= nk; k++) guarded([&](Out& o) { apply_susy(base, ps[k]); os_eval_model(base, o); });
      }
      if (mode & 2) {
         for (long k = 1; k <= nk; k++) guarded([&](Out& o) { MSSMNoFV_onshell m(evaluated); apply_susy(m, ps[k]); os_eval_model(m, o); });
      }
   }
}

// ---------------------------------------------------------------- public spectrum entry points (C04)
// spec <n> then n x 40 doubles: OP (35; spare[0] = mode) + initial values (ml2(1,1), me2(1,1), Mu, M1, M2;
// nan = keep the on-shell value).
//   mode 0 (GM2Calc-type): setup + calculate_masses()
//   mode 1 (SLHA-type): a GM2Calc-type model of the same point is evaluated first and its pole masses
//          (MSvmL, MSm, MChi, MCha; MA0) are given to a new model whose DR-bar input is the same point with
//          the entries the conversion overwrites set to the initial values; convert_to_onshell(1e-8, 1000).
// force_output is always set.  Per case three lines in the format of `tree` (final Lagrangian parameters, the
// DR-bar spectrum and get_problems() AFTER the call, all from the public getters):
//   run 1: fresh object, run 2: another fresh object, run 4 (printed third): the entry point called once more on
//   the object of run 2 without setting anything, run 3 (printed last): the object of run 1 with all inputs set
//   again and the entry point called a second time.   Set-up order and SM set: spare[1], spare[2] (see setup_os).      "X <what>" replaces a line if an exception escapes.
static const int NSP = NOP + 5;

static void setup_entry(MSSMNoFV_onshell& m, const OP& p, const double* init, const MSSMNoFV_onshell_physical* pole) {
   setup_os(m, p);
   m.do_force_output(true);
   if (pole) {
      m.get_physical().MSvmL = pole->MSvmL; m.get_physical().MSm = pole->MSm;
      m.get_physical().MChi = pole->MChi; m.get_physical().MCha = pole->MCha;
      if (!std::isnan(init[0])) m.set_ml2(1, 1, init[0]);
      if (!std::isnan(init[1])) m.set_me2(1, 1, init[1]);
      if (!std::isnan(init[2])) m.set_Mu(init[2]);
      if (!std::isnan(init[3])) m.set_MassB(init[3]);
      if (!std::isnan(init[4])) m.set_MassWB(init[4]);
   }
}

static void emit_entry(MSSMNoFV_onshell& m, bool slha) {
   try {
      if (slha) m.convert_to_onshell(1e-8, 1000); else m.calculate_masses();
      Out o; dump_tree(m, o);
      std::printf("T %016" PRIx64, uint64_t(0)); o.print_values();
      std::printf(" | %s | GX 0 %s\n", m.get_problems().get_problems().c_str(), m.get_problems().have_warning() ? "W" : "-");
   } catch (const std::exception& e) { std::printf("X %s\n", oneline(e.what()).c_str()); }
}

static void do_spec(long n) {
   for (long c = 0; c < n; c++) {
      double raw[NSP]; for (int i = 0; i < NSP; i++) raw[i] = rd();
      OP p; std::memcpy(&p, raw, sizeof p);
      const double* init = raw + NOP;
      const bool slha = p.spare[0] != 0;
      MSSMNoFV_onshell_physical pole; bool have_pole = false;
      if (slha) {
         try { MSSMNoFV_onshell g; OP pc = p; pc.spare[1] = 0; setup_os(g, pc); g.do_force_output(true); g.calculate_masses(); pole = g.get_physical(); have_pole = true; }
         catch (const std::exception& e) { for (int k = 0; k < 4; k++) std::printf("X generating point: %s\n", oneline(e.what()).c_str()); continue; }
      }
      const MSSMNoFV_onshell_physical* pp = have_pole ? &pole : nullptr;
      MSSMNoFV_onshell m1; setup_entry(m1, p, init, pp); emit_entry(m1, slha);
      MSSMNoFV_onshell m2; setup_entry(m2, p, init, pp); emit_entry(m2, slha);
      emit_entry(m2, slha);                                   // run 4: the entry point once more, nothing set again
      setup_entry(m1, p, init, pp); emit_entry(m1, slha);     // run 3: all inputs set again on the evaluated object
   }
}

static void do_names() {
   {  // tree layout
      TP p; std::memset(&p, 0, sizeof p); p.g1 = 0.46; p.g2 = 0.65; p.vd = 24; p.vu = 240; p.Mu = 300; p.BMu = 1e4; p.M1 = 100; p.M2 = 200; p.M3 = 1000;
      for (int i = 0; i < 3; i++) { p.mq2[i] = p.ml2[i] = p.mu2[i] = p.md2[i] = p.me2[i] = 1e6; }
      ME m; set_tree(m, p); m.calculate_DRbar_masses();
      Out o; o.record_names = true; dump_tree(m, o); o.print_names("NAMES_T");
   }
   {  // on-shell layout
      OP p; std::memset(&p, 0, sizeof p); p.tb = 10; p.Mu = 350; p.M1 = 150; p.M2 = 300; p.M3 = 1000; p.MA = 1500; p.Q = 454.7;
      for (int i = 0; i < 3; i++) { p.mq2[i] = p.ml2[i] = p.mu2[i] = p.md2[i] = p.me2[i] = 250000; }
      Out o; o.record_names = true; os_eval(p, o); o.print_names("NAMES_O");
   }
}

int main() {
   static_assert(sizeof(TP) == NTP * sizeof(double), "TP layout");
   static_assert(sizeof(OP) == NOP * sizeof(double), "OP layout");
   int dn = open("/dev/null", O_WRONLY); dup2(dn, 2);     // library WARNING()s go to stderr
   std::string cmd;
   while (std::cin >> cmd) {
      long n = 0;
      if (cmd == "names") { do_names(); }
      else if (cmd == "tree") { std::cin >> n; do_tree(n); }
      else if (cmd == "tsig") { std::cin >> n; do_tsig(n); }
      else if (cmd == "os") { std::cin >> n; do_os(n); }
      else if (cmd == "select") { std::cin >> n; g_select.assign(n, 0); for (auto& i : g_select) std::cin >> i; n = 0; }
      else if (cmd == "spec") { std::cin >> n; do_spec(n); }
      else if (cmd == "osf") { long nk; int mode; std::cin >> n >> nk >> mode; do_osf(n, nk, mode); }
      else { std::printf("ERR cmd %s\n", cmd.c_str()); return 2; }
      std::printf("END %ld\n", n); std::fflush(stdout);
   }
   return 0;
}
