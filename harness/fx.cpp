// fx: regime-graph explorer for the loop / special functions (C01, C02).
// Protocol (stdin, whitespace separated tokens, doubles as C99 hex floats):
//   pts  <fn> <n> <args of point 1> ... <args of point n>
//   line <fn> <W> <base[nargs]> <coef[nargs]> <n> <t_1..t_n>
//        arg_i(t) = coef_i == 0 ? base_i : coef_i * t ; seeds t sorted ascending by the harness;
//        neighbouring seeds with different path signature are bisected on the integer
//        representation of t down to adjacent doubles; +-W ulp on both sides evaluated.
//   list
//   consts                      prints "C <NAME> <value>" for the SM masses of gm2_constants.hpp (C02)
//   xfset <fn> <deg> <nt> { <perm[nargs]> <k> } * nt          (C02: symmetry / homogeneity relations)
//        registers transforms for <fn>: args'_i = args[perm_i] * k, expected f(args') = k^deg * f(args).
//        Every P line of that function is then followed by " X <m> {<idx> <value>}*m": the transforms
//        whose value, scaled back by k^-deg, is not bitwise equal to the base value (k = 1 or a power
//        of two: exact rescaling; other k: always listed, the driver judges the difference).
//        Transform evaluations are not recorded in the path signature.
// Output per evaluation:  P <tag> <t> <args...> <outs...> <sig>     tag: S seed, B boundary, N neighbour
//   boundaries:           BD <t_lo> <t_hi> <sig_lo> <sig_hi>
//   caps:                 CAP <what>
//   END
#include "covsig.hpp"
#include "gm2_ffunctions.hpp"
#include "gm2_dilog.hpp"
#include "gm2_constants.hpp"
#include <algorithm>
#include <cinttypes>
#include <cmath>
#include <complex>
#include <cstdio>
#include <cstdlib>
#include <iostream>
#include <map>
#include <string>
#include <vector>
#include <unistd.h>
#include <fcntl.h>

using namespace gm2calc;

struct Fn { int nargs; int nouts; void (*f)(const double*, double*); };
#define F1ARG(NAME) {#NAME, {1, 1, [](const double* a, double* o) { o[0] = NAME(a[0]); }}}
#define F2ARG(NAME) {#NAME, {2, 1, [](const double* a, double* o) { o[0] = NAME(a[0], a[1]); }}}
#define F3ARG(NAME) {#NAME, {3, 1, [](const double* a, double* o) { o[0] = NAME(a[0], a[1], a[2]); }}}
#define F4ARG(NAME) {#NAME, {4, 1, [](const double* a, double* o) { o[0] = NAME(a[0], a[1], a[2], a[3]); }}}
#define F6ARG(NAME) {#NAME, {6, 1, [](const double* a, double* o) { o[0] = NAME(a[0], a[1], a[2], a[3], a[4], a[5]); }}}

static std::map<std::string, Fn> reg = {
   F1ARG(F1C), F1ARG(F2C), F1ARG(F3C), F1ARG(F4C), F1ARG(F1N), F1ARG(F2N), F1ARG(F3N), F1ARG(F4N),
   F1ARG(G3), F1ARG(G4), F1ARG(f_PS), F1ARG(f_S), F1ARG(f_sferm), F1ARG(f_CSl),
   F1ARG(F1), F1ARG(F1t), F1ARG(F2), F1ARG(F3),
   {"dilog", {1, 1, [](const double* a, double* o) { o[0] = dilog(a[0]); }}},
   F1ARG(clausen_2),
   {"dilogc", {2, 2, [](const double* a, double* o) {
       std::complex<double> r = dilog(std::complex<double>(a[0], a[1])); o[0] = r.real(); o[1] = r.imag(); }}},
   F2ARG(Fa), F2ARG(Fb), F2ARG(FPZ), F2ARG(FSZ), F2ARG(FCWl),
   F3ARG(Iabc), F3ARG(Phi), F3ARG(lambda_2),
   F4ARG(f_CSd), F4ARG(f_CSu), F6ARG(FCWu), F6ARG(FCWd),
};

static int64_t ord(double x) { int64_t i; std::memcpy(&i, &x, 8); return i < 0 ? INT64_MIN - i : i; }
static double fromord(int64_t i) { if (i < 0) i = INT64_MIN - i; double x; std::memcpy(&x, &i, 8); return x; }
static double rd() { std::string s; if (!(std::cin >> s)) std::exit(3); return std::strtod(s.c_str(), nullptr); }

struct Line { const Fn* fn; std::vector<double> base, coef; };
static unsigned long nevals = 0;

// ---- C02: registered argument transforms (permutation + common scale factor) per function
struct Xf { int perm[6]; double k; bool pow2; int e2; };
struct XfSet { int deg = 0; std::vector<Xf> t; };
static std::map<const Fn*, XfSet> xfs;
static bool same(double a, double b) { return (std::isnan(a) && std::isnan(b)) || (a == b && std::signbit(a) == std::signbit(b)) || (a == 0 && b == 0); }
static void emit_xf(const Fn& fn, const double* a, const double* o) {
   auto it = xfs.find(&fn); if (it == xfs.end()) return;
   const XfSet& S = it->second;
   std::vector<std::pair<int,double>> bad;
   covsig::recording = false;
   for (size_t j = 0; j < S.t.size(); j++) {
      const Xf& x = S.t[j];
      double b[6], v[2];
      for (int i = 0; i < fn.nargs; i++) b[i] = a[x.perm[i]] * x.k;
      fn.f(b, v); nevals++;
      if (x.k == 1.0) { if (!same(v[0], o[0])) bad.push_back({(int)j, v[0]}); }
      else if (x.pow2) { if (!same(std::ldexp(v[0], -S.deg * x.e2), o[0])) bad.push_back({(int)j, v[0]}); }
      else bad.push_back({(int)j, v[0]});
   }
   covsig::recording = true;
   std::printf(" X %zu", bad.size());
   for (auto& p : bad) std::printf(" %d %a", p.first, p.second);
}

static uint64_t evalpt(const Fn& fn, const double* a, double* o) {
   covsig::reset(); fn.f(a, o); nevals++; return covsig::hash();
}
static void emit(char tag, double t, const Fn& fn, const double* a, const double* o, uint64_t s) {
   std::printf("P %c %a", tag, t);
   for (int i = 0; i < fn.nargs; i++) std::printf(" %a", a[i]);
   for (int i = 0; i < fn.nouts; i++) std::printf(" %a", o[i]);
   std::printf(" %016" PRIx64, s);
   emit_xf(fn, a, o);
   std::printf("\n");
}
static uint64_t evalline(const Line& L, double t, char tag, bool print) {
   double a[6], o[2];
   for (int i = 0; i < L.fn->nargs; i++) a[i] = L.coef[i] == 0 ? L.base[i] : L.coef[i] * t;
   uint64_t s = evalpt(*L.fn, a, o);
   if (print) emit(tag, t, *L.fn, a, o, s);
   return s;
}
struct Bd { double a, b; uint64_t sa, sb; };
static void refine(const Line& L, double a, uint64_t sa, double b, uint64_t sb, std::vector<Bd>& bd, bool& capped) {
   if (sa == sb) return;
   int64_t ia = ord(a), ib = ord(b);
   if (ib - ia <= 1) { bd.push_back({a, b, sa, sb}); return; }
   if (bd.size() >= 64) { capped = true; return; }
   int64_t im = ia + (ib - ia) / 2;
   double m = fromord(im);
   uint64_t sm = evalline(L, m, 'M', false);
   refine(L, a, sa, m, sm, bd, capped);
   refine(L, m, sm, b, sb, bd, capped);
}

int main() {
   // library ERROR() messages for negative arguments go to stderr: silence them
   int dn = open("/dev/null", O_WRONLY); dup2(dn, 2);
   std::string cmd;
   while (std::cin >> cmd) {
      if (cmd == "list") {
         for (auto& e : reg) std::printf("FN %s %d %d\n", e.first.c_str(), e.second.nargs, e.second.nouts);
      } else if (cmd == "consts") {
         std::printf("C MU %a\nC MC %a\nC MT %a\nC MD %a\nC MS %a\nC MB %a\nC ME %a\nC MM %a\nC ML %a\nC MW %a\nC MZ %a\n",
                     MU, MC, MT, MD, MS, MBMB, ME, MM, ML, MW, MZ);
      } else if (cmd == "xfset") {
         std::string name; int deg, nt; std::cin >> name >> deg >> nt;
         auto it = reg.find(name); if (it == reg.end()) { std::printf("ERR unknown %s\n", name.c_str()); return 2; }
         XfSet S; S.deg = deg;
         for (int j = 0; j < nt; j++) {
            Xf x; for (int i = 0; i < it->second.nargs; i++) { std::cin >> x.perm[i]; if (x.perm[i] < 0 || x.perm[i] >= it->second.nargs) { std::printf("ERR perm\n"); return 2; } }
            x.k = rd(); int e; double m = std::frexp(x.k, &e); x.pow2 = (m == 0.5); x.e2 = e - 1;
            S.t.push_back(x);
         }
         xfs[&it->second] = S;
      } else if (cmd == "pts") {
         std::string name; long n; std::cin >> name >> n;
         auto it = reg.find(name); if (it == reg.end()) { std::printf("ERR unknown %s\n", name.c_str()); return 2; }
         const Fn& fn = it->second;
         for (long k = 0; k < n; k++) {
            double a[6], o[2]; for (int i = 0; i < fn.nargs; i++) a[i] = rd();
            uint64_t s = evalpt(fn, a, o); emit('S', a[0], fn, a, o, s);
         }
      } else if (cmd == "line") {
         std::string name; int W; std::cin >> name >> W;
         auto it = reg.find(name); if (it == reg.end()) { std::printf("ERR unknown %s\n", name.c_str()); return 2; }
         Line L; L.fn = &it->second;
         for (int i = 0; i < L.fn->nargs; i++) L.base.push_back(rd());
         for (int i = 0; i < L.fn->nargs; i++) L.coef.push_back(rd());
         long n; std::cin >> n; std::vector<double> ts(n); for (auto& t : ts) t = rd();
         std::sort(ts.begin(), ts.end()); ts.erase(std::unique(ts.begin(), ts.end()), ts.end());
         std::vector<uint64_t> sg; for (double t : ts) sg.push_back(evalline(L, t, 'S', true));
         std::vector<Bd> bd; bool capped = false;
         for (size_t i = 0; i + 1 < ts.size(); i++) refine(L, ts[i], sg[i], ts[i + 1], sg[i + 1], bd, capped);
         if (capped) std::printf("CAP boundaries>64\n");
         for (auto& b : bd) {
            std::printf("BD %a %a %016" PRIx64 " %016" PRIx64 "\n", b.a, b.b, b.sa, b.sb);
            int64_t ia = ord(b.a), ib = ord(b.b);
            for (int64_t k = ia - W; k <= ib + W; k++) {
               double t = fromord(k);
               evalline(L, t, (k == ia || k == ib) ? 'B' : 'N', true);
            }
         }
      } else { std::printf("ERR cmd %s\n", cmd.c_str()); return 2; }
      std::printf("END %lu\n", nevals); std::fflush(stdout);
   }
   return 0;
}
