// Operation alphabet shared by the scheduler harness (conc.cpp, cov build) and the
// free-running ThreadSanitizer harness (conc_tsan.cpp).  Each op is a pure function
// of (parameter set) returning a bit-comparable result record.
#pragma once
#include "gm2calc/MSSMNoFV_onshell.hpp"
#include "gm2calc/THDM.hpp"
#include "gm2calc/SM.hpp"
#include "gm2calc/gm2_1loop.hpp"
#include "gm2calc/gm2_2loop.hpp"
#include "gm2calc/gm2_uncertainty.hpp"
#include "gm2calc/gm2_error.hpp"
#include "MSSMNoFV/gm2_1loop_helpers.hpp"
#include "MSSMNoFV/gm2_2loop_helpers.hpp"
#include "gm2_slha_io.hpp"
#include "gm2_config_options.hpp"
#include "gm2_ffunctions.hpp"
#include "gm2_dilog.hpp"
#include "gm2_mf.hpp"
#include <cmath>
#include <cstring>
#include <functional>
#include <sstream>
#include <string>
#include <vector>

namespace ops {
using namespace gm2calc;

struct Res {
   std::vector<double> v;
   std::string txt;
   std::string exc;
   std::string argchg;   // set by an op when an evaluation changed the (const) model it was given; never equal to a reference
   bool same(const Res& o) const {
      return argchg.empty() && o.argchg.empty() && v.size() == o.v.size() && (v.empty() || std::memcmp(v.data(), o.v.data(), v.size()*sizeof(double)) == 0)
         && txt == o.txt && exc == o.exc;
   }
   std::string diff(const Res& o) const {
      std::ostringstream s;
      if (!argchg.empty() || !o.argchg.empty()) s << "ARGUMENT CHANGED: " << argchg << o.argchg << " ";
      if (exc != o.exc) s << "exception '" << exc << "' vs '" << o.exc << "' ";
      if (v.size() != o.v.size()) s << "size " << v.size() << " vs " << o.v.size();
      else for (size_t i = 0; i < v.size(); i++) if (std::memcmp(&v[i], &o.v[i], 8)) { char b[96]; std::snprintf(b, sizeof b, "v[%zu]: %a vs %a", i, v[i], o.v[i]); s << b; break; }
      if (txt != o.txt) s << " text differs";
      return s.str();
   }
};

inline void push(Res& r, double x) { r.v.push_back(x); }
template <class D> inline void pushm(Res& r, const Eigen::DenseBase<D>& m) {
   for (Eigen::Index i = 0; i < m.rows(); i++) for (Eigen::Index j = 0; j < m.cols(); j++) {
      std::complex<double> z(m(i, j)); r.v.push_back(z.real()); r.v.push_back(z.imag()); }
}

// parameter set 1 also differs in the SM inputs: state frozen at the first call of the process
// (function-local statics initialised from model-dependent values) must show up as history dependence
inline void mssm_sm(MSSMNoFV_onshell& model, int p = 0) {
   const double Pi = 3.141592653589793;
   model.set_alpha_MZ(p ? 0.00781 : 0.0077552);
   model.set_alpha_thompson(p ? 0.0072992 : 0.00729735);
   model.set_g3(std::sqrt(4 * Pi * (p ? 0.1175 : 0.1184)));
   model.get_physical().MFt = p ? 172.5 : 173.34;
   model.get_physical().MFb = p ? 4.2 : 4.18;
   model.get_physical().MFm = p ? 0.10566 : 0.1056583715;
   model.get_physical().MFtau = p ? 1.77686 : 1.777;
   model.get_physical().MVWm = p ? 80.4335 : 80.385;
   model.get_physical().MVZ = p ? 91.19 : 91.1876;
}

inline MSSMNoFV_onshell mssm_gm2calc(int p) {
   MSSMNoFV_onshell model;
   const Eigen::Matrix<double,3,3> U = Eigen::Matrix<double,3,3>::Identity();
   mssm_sm(model, p);
   model.set_TB(p ? 40 : 10);
   model.set_Ae(1, 1, p ? -300 : 0);
   model.set_Mu(p ? -420 : 350);
   model.set_MassB(p ? 210 : 150);
   model.set_MassWB(p ? -390 : 300);
   model.set_MassG(1000);
   model.set_mq2((p ? 900. * 900 : 500. * 500) * U);
   model.set_ml2((p ? 380. * 380 : 500. * 500) * U);
   model.set_md2((p ? 950. * 950 : 500. * 500) * U);
   model.set_mu2((p ? 870. * 870 : 500. * 500) * U);
   model.set_me2((p ? 260. * 260 : 500. * 500) * U);
   model.set_Au(2, 2, p ? -800 : 0);
   model.set_Ad(2, 2, p ? -1200 : 0);
   model.set_Ae(2, 2, p ? -250 : 0);
   // off-diagonal trilinears: accepted by the setters and documented as having no effect (no flavour violation);
   // they multiply whatever stands in the off-diagonal entries of internal 3x3 temporaries
   if (p) { model.set_Ae(0, 1, 35); model.set_Ae(1, 2, -60); model.set_Ae(2, 0, 15); model.set_Au(0, 2, 120); model.set_Au(2, 1, -80); model.set_Ad(1, 0, 45); model.set_Ad(1, 2, -30); }
   model.set_MA0(p ? 700 : 1500);
   model.set_scale(p ? 866 : 454.7);
   model.calculate_masses();
   return model;
}

inline MSSMNoFV_onshell mssm_slha(int p) {
   MSSMNoFV_onshell model;
   const Eigen::Matrix<double,3,3> U = Eigen::Matrix<double,3,3>::Identity();
   mssm_sm(model, p);
   const double s = p ? 1.02 : 1.0;
   model.get_physical().MSvmL = 5.18860573e+02 * s;
   model.get_physical().MSm(0) = 5.05095249e+02 * s;
   model.get_physical().MSm(1) = 5.25187016e+02 * s;
   model.get_physical().MChi(0) = 2.01611468e+02 * s;
   model.get_physical().MChi(1) = 4.10040273e+02 * s;
   model.get_physical().MChi(2) = -5.16529941e+02 * s;
   model.get_physical().MChi(3) = 5.45628749e+02 * s;
   model.get_physical().MCha(0) = 4.09989890e+02 * s;
   model.get_physical().MCha(1) = 5.46057190e+02 * s;
   model.get_physical().MAh(1) = 1.5e+03;
   model.set_TB(p ? 30 : 40);
   model.set_Mu(500 * s); model.set_MassB(200 * s); model.set_MassWB(400 * s); model.set_MassG(2000);
   model.set_mq2(7000. * 7000 * U); model.set_md2(7000. * 7000 * U); model.set_mu2(7000. * 7000 * U);
   model.set_ml2(500. * 500 * s * s * U); model.set_me2(500. * 500 * s * s * U);
   model.set_Au(2, 2, 0); model.set_Ad(2, 2, 0); model.set_Ae(1, 1, 0); model.set_Ae(2, 2, 0);
   model.set_scale(1000);
   model.convert_to_onshell();
   return model;
}

inline thdm::Mass_basis thdm_basis(int p) {
   thdm::Mass_basis b;
   b.yukawa_type = p ? thdm::Yukawa_type::aligned : thdm::Yukawa_type::type_2;
   b.mh = 125; b.mH = p ? 330 : 400; b.mA = p ? 290 : 420; b.mHp = p ? 350 : 440;
   b.sin_beta_minus_alpha = p ? 0.9 : 0.995; b.tan_beta = p ? 20 : 3;
   b.m122 = p ? 5000 : 40000; b.lambda_6 = p ? -0.1 : 0.2; b.lambda_7 = 0.1;
   if (p) { b.zeta_u = 0.3; b.zeta_d = -1.5; b.zeta_l = 25;
      b.Delta_l << 0, 0.01, 0, 0.02, 0, 0.03, 0, 0.01, 0; }
   return b;
}
inline THDM thdm_build(int p) {
   SM sm;
   if (p) { sm.set_ckm_from_wolfenstein(0.2257, 0.814, 0.135, 0.349); sm.set_mw(80.4335); sm.set_mz(91.19); sm.set_mh(130.0);
            sm.set_alpha_em_mz(1 / 128.9); sm.set_alpha_s_mz(0.1175); sm.set_mu(2, 172.5); sm.set_md(2, 4.2); sm.set_ml(1, 0.10566); sm.set_ml(2, 1.77686); }
   return THDM(thdm_basis(p), sm);
}

inline void eval_mssm(const MSSMNoFV_onshell& m, Res& r) {
   push(r, calculate_amu_1loop(m)); push(r, calculate_amu_1loop_non_tan_beta_resummed(m));
   push(r, amu1LChi0(m)); push(r, amu1LChipm(m));
   push(r, calculate_amu_2loop(m)); push(r, calculate_amu_2loop_non_tan_beta_resummed(m));
   push(r, amu2LFSfapprox(m)); push(r, amu2LFSfapprox_non_tan_beta_resummed(m));
   push(r, amu2LChipmPhotonic(m)); push(r, amu2LChi0Photonic(m)); push(r, amu2LaSferm(m)); push(r, amu2LaCha(m));
   push(r, calculate_uncertainty_amu_0loop(m)); push(r, calculate_uncertainty_amu_1loop(m)); push(r, calculate_uncertainty_amu_2loop(m));
   push(r, amu1Lapprox(m)); push(r, amu1LWHnu(m)); push(r, amu1LWHmuL(m)); push(r, amu1LBHmuL(m)); push(r, amu1LBHmuR(m)); push(r, amu1LBmuLmuR(m));
   push(r, tan_beta_cor(m)); push(r, delta_mu_correction(m)); push(r, delta_tau_correction(m)); push(r, delta_bottom_correction(m));
   pushm(r, AAC(m)); pushm(r, AAN(m)); pushm(r, BBC(m)); pushm(r, BBN(m)); pushm(r, x_im(m)); pushm(r, x_k(m));
   push(r, amu2LWHnu(m)); push(r, amu2LBmuLmuR(m)); push(r, delta_g1(m)); push(r, delta_yuk_higgsino(m)); push(r, delta_tan_beta(m)); push(r, tan_alpha(m));
   pushm(r, lambda_mu_cha(m)); pushm(r, lambda_stop(m)); pushm(r, lambda_sbot(m)); pushm(r, lambda_stau(m));
}
inline void eval_thdm(const THDM& m, Res& r) {
   push(r, calculate_amu_1loop(m)); push(r, calculate_amu_2loop(m));
   push(r, calculate_amu_2loop_fermionic(m)); push(r, calculate_amu_2loop_bosonic(m));
   push(r, calculate_uncertainty_amu_0loop(m)); push(r, calculate_uncertainty_amu_1loop(m)); push(r, calculate_uncertainty_amu_2loop(m));
   pushm(r, m.get_ylh()); pushm(r, m.get_yuHp()); pushm(r, m.get_ydA());
}
template <class M> inline std::string text(const M& m) { std::ostringstream s; s << m; return s.str(); }
// everything observable of a model, including what hangs off it on the heap (problem / warning lists): the byte image of
// an object does not change when an evaluation writes through a pointer member that a copy shares with its source
inline std::string deep(const MSSMNoFV_onshell& m) {
   return text(m) + "|P" + (m.get_problems().have_problem() ? "1:" : "0:") + m.get_problems().get_problems()
      + "|W" + (m.get_problems().have_warning() ? "1:" : "0:") + m.get_problems().get_warnings();
}
inline std::string deep(const THDM& m) { return text(m); }
// runs f(m, r) and records in r.argchg if the model given to it is observably different afterwards (also when f throws)
template <class M, class F> inline void preserving(const M& m, Res& r, const char* what, F f) {
   const std::string d0 = deep(m);
   struct G { const M& m; const std::string& d0; Res& r; const char* what;
      ~G() { try { if (deep(m) != d0) r.argchg += std::string(what) + " changed its const model argument; "; } catch (...) { r.argchg += "deep() threw; "; } } } g{m, d0, r, what};
   f(m, r);
}
inline void eval_mssm_p(const MSSMNoFV_onshell& m, Res& r) { preserving(m, r, "eval_mssm", [](const MSSMNoFV_onshell& x, Res& y) { eval_mssm(x, y); }); }
inline void eval_thdm_p(const THDM& m, Res& r) { preserving(m, r, "eval_thdm", [](const THDM& x, Res& y) { eval_thdm(x, y); }); }

// shared const models for the read-only ops (constructed by the harness before any thread starts)
extern MSSMNoFV_onshell* shared_mssm[2];
extern MSSMNoFV_onshell* shared_edge[2];   // see O12
extern THDM* shared_thdm[2];
extern std::string slha_text[5];

typedef void (*OpFn)(int, Res&);
struct Op { const char* name; OpFn fn; bool uses_shared; };

#define GUARDED(body) try { body } catch (const gm2calc::Error& e) { r.exc = e.what(); } catch (const std::exception& e) { r.exc = std::string("std:") + e.what(); }

inline void O1(int p, Res& r) { GUARDED( MSSMNoFV_onshell m = mssm_gm2calc(p); eval_mssm_p(m, r); r.txt = text(m); ) }
inline void O2(int p, Res& r) { GUARDED( THDM m = thdm_build(p); eval_thdm_p(m, r); r.txt = text(m); ) }
inline void O3(int p, Res& r) { GUARDED( MSSMNoFV_onshell m = mssm_slha(p); eval_mssm_p(m, r); r.txt = text(m) + m.get_problems().get_warnings() + m.get_problems().get_problems(); ) }
inline void O4(int p, Res& r) { GUARDED( eval_mssm_p(*shared_mssm[p], r); MSSMNoFV_onshell c(*shared_mssm[p]); Res rc; eval_mssm_p(c, rc); r.argchg += rc.argchg; r.v.insert(r.v.end(), rc.v.begin(), rc.v.end()); ) }
inline void O5(int p, Res& r) { GUARDED( eval_thdm_p(*shared_thdm[p], r); THDM c(*shared_thdm[p]); Res rc; eval_thdm_p(c, rc); r.argchg += rc.argchg; r.v.insert(r.v.end(), rc.v.begin(), rc.v.end()); ) }
inline void O6(int p, Res& r) {
   const double a = p ? 0.37 : 2.4, b = p ? 1.9 : 0.61, c = p ? 5.5 : 0.052;
   push(r, Phi(a, b, c)); push(r, Phi(c, c, a)); push(r, Iabc(a, b, c)); push(r, Iabc(a, a, c)); push(r, f_PS(a)); push(r, f_PS(c)); push(r, f_S(b));
   push(r, f_sferm(a)); push(r, f_CSl(b)); push(r, F1C(a)); push(r, F3C(b)); push(r, F4N(c)); push(r, Fa(a, b)); push(r, Fb(a, 1.0000001 * a));
   push(r, dilog(a)); push(r, dilog(-b)); std::complex<double> z = dilog(std::complex<double>(a, b)); push(r, z.real()); push(r, z.imag()); push(r, clausen_2(c));
   push(r, FPZ(a, b)); push(r, FSZ(a, c)); push(r, FCWl(b, c)); push(r, f_CSd(a, b, 2./3, -1./3)); push(r, f_CSu(a, b, 2./3, -1./3));
   push(r, calculate_mt_SM6_MSbar(173.34, 0.1184, 91.1876, p ? 250. : 1000.)); push(r, calculate_mb_SM6_MSbar(4.18, 173.34, 0.1184, 91.1876, p ? 300. : 90.));
   push(r, calculate_mtau_SM6_MSbar(1.777, 1/127.9, p ? 500. : 100.)); push(r, calculate_mb_SM5_DRbar(4.18, 0.1184, p ? 60. : 91.1876));
}
inline void O7(int p, Res& r) {
   GUARDED(
      // p = 0: example.slha; p = 1: the same file with every block scale moved to Q = 2000 and a different mu;
      // both followed by the GM2Calc-format example
      { GM2_slha_io io; std::istringstream is(slha_text[p ? 2 : 0]); io.read_from_stream(is);
        Config_options cfg; io.fill(cfg);
        MSSMNoFV_onshell m; io.fill_slha(m); m.convert_to_onshell(); push(r, calculate_amu_1loop(m)); push(r, calculate_amu_2loop(m)); push(r, m.get_scale()); r.txt = text(m);
        push(r, cfg.loop_order); push(r, cfg.output_format); }
      { GM2_slha_io io; std::istringstream is(slha_text[1]); io.read_from_stream(is);
        Config_options cfg; io.fill(cfg);
        MSSMNoFV_onshell m; io.fill_gm2calc(m); m.calculate_masses(); push(r, calculate_amu_1loop(m)); push(r, calculate_amu_2loop(m)); r.txt += text(m);
        push(r, cfg.loop_order); push(r, cfg.output_format); }
   )
}

// O8: THDM through the SLHA reader (mass basis file / gauge basis file), as the command-line program does
inline void O8(int p, Res& r) {
   GUARDED(
      GM2_slha_io io; std::istringstream is(slha_text[p ? 4 : 3]); io.read_from_stream(is);
      Config_options cfg; cfg.running_couplings = true; io.fill(cfg);
      SM sm; thdm::Mass_basis mb; thdm::Gauge_basis gb; io.fill(sm); io.fill(mb); io.fill(gb);
      thdm::Config tc; tc.force_output = cfg.force_output; tc.running_couplings = cfg.running_couplings;
      const bool mass = mb.mh != 0 || mb.mH != 0 || mb.mA != 0 || mb.mHp != 0 || mb.sin_beta_minus_alpha != 0;
      THDM m = mass ? THDM(mb, sm, tc) : THDM(gb, sm, tc);
      eval_thdm(m, r); r.txt = text(m);
   )
}
// O9: MSSM without tan(beta) resummation (convert_to_non_tan_beta_resummed on a copy of the shared model)
inline void O9(int p, Res& r) {
   GUARDED(
      MSSMNoFV_onshell m(*shared_mssm[p]); m.convert_to_non_tan_beta_resummed();
      push(r, calculate_amu_1loop_non_tan_beta_resummed(*shared_mssm[p])); push(r, calculate_amu_2loop_non_tan_beta_resummed(*shared_mssm[p]));
      eval_mssm_p(m, r); r.txt = text(m);
   )
}

// O10: "sparse" THDM points: every optional input at its zero/default value (lambda_6 = lambda_7 = 0, no zeta/Delta/Pi,
// p = 0: type I, exact alignment sin(beta-alpha) = 1; p = 1: type X, m12^2 = 0, other SM inputs).  After a "dense" point
// (O2/O5/O8) nothing of the earlier point may survive in an entry that the sparse point leaves at zero.
inline void O10(int p, Res& r) {
   GUARDED(
      thdm::Mass_basis b;
      b.yukawa_type = p ? thdm::Yukawa_type::type_X : thdm::Yukawa_type::type_1;
      b.mh = 125; b.mH = p ? 280 : 350; b.mA = p ? 310 : 300; b.mHp = p ? 330 : 360;
      b.sin_beta_minus_alpha = p ? 0.98 : 1.0; b.tan_beta = p ? 15 : 2;
      b.m122 = p ? 0 : 300. * 300 * 2 / 5; b.lambda_6 = 0; b.lambda_7 = 0;
      SM sm;
      if (p) { sm.set_mw(80.4335); sm.set_mz(91.19); sm.set_mh(130.0); sm.set_alpha_em_mz(1 / 128.9); sm.set_mu(2, 172.5); sm.set_ml(2, 1.77686); }
      THDM m(b, sm); eval_thdm(m, r); r.txt = text(m);
      THDM c(m); Res rc; eval_thdm(c, rc); r.v.insert(r.v.end(), rc.v.begin(), rc.v.end());
   )
}

// O11: error paths and non-finite producers.  The outcome of a refused point (exception text), of a point kept
// alive by force-output (values + warning/problem texts) and of evaluations that legitimately produce NaN/inf
// must not depend on what the process / thread computed before, and must leave nothing behind (warn-once flags,
// sticky floating-point status, half-updated statics) that changes a later evaluation.
//   p = 0: negative soft mass^2 (no tachyon) WITH force-output; then MSSM 2-loop at tan(beta) = 1 (non-finite)
//   p = 1: the same negative soft mass^2 WITHOUT force-output (must be refused); a tachyonic THDM gauge-basis
//          point with and without force-output; THDM 2-loop with a massless up quark in the SM input
inline void sub(Res& r, const char* tag, const std::function<void()>& f) {
   try { f(); r.txt += std::string(tag) + ":ok;"; }
   catch (const gm2calc::Error& e) { r.txt += std::string(tag) + ":EXC " + e.what() + ";"; }
   catch (const std::exception& e) { r.txt += std::string(tag) + ":STD " + e.what() + ";"; }
}
inline MSSMNoFV_onshell mssm_negsoft(bool force) {
   MSSMNoFV_onshell model; const Eigen::Matrix<double,3,3> U = Eigen::Matrix<double,3,3>::Identity();
   mssm_sm(model, 0); model.do_force_output(force);
   model.set_TB(10); model.set_Ae(1, 1, 0); model.set_Mu(350); model.set_MassB(150); model.set_MassWB(300); model.set_MassG(1000);
   model.set_mq2(500. * 500 * U); model.set_ml2(500. * 500 * U); model.set_md2(500. * 500 * U); model.set_mu2(500. * 500 * U);
   Eigen::Matrix<double,3,3> me2 = 500. * 500 * U; me2(0, 0) = -100.0; model.set_me2(me2);
   model.set_Au(2, 2, 0); model.set_Ad(2, 2, 0); model.set_Ae(2, 2, 0); model.set_MA0(1500); model.set_scale(454.7);
   model.calculate_masses();
   return model;
}
inline void O11(int p, Res& r) {
   if (p == 0) {
      // first, so that they see whatever earlier operations left behind
      sub(r, "thdm-alphas-low", [&] { SM sm; sm.set_alpha_s_mz(0.04); THDM m(thdm_basis(1), sm); push(r, calculate_amu_2loop(m)); push(r, calculate_amu_2loop_fermionic(m)); push(r, calculate_uncertainty_amu_2loop(m)); });
      sub(r, "mssm-alphas-low", [&] { MSSMNoFV_onshell m = mssm_gm2calc(0); m.set_g3(std::sqrt(4 * 3.141592653589793 * 0.04)); m.calculate_masses(); push(r, calculate_amu_2loop(m)); push(r, calculate_amu_1loop(m)); });
      sub(r, "negsoft-force", [&] { MSSMNoFV_onshell m = mssm_negsoft(true); push(r, calculate_amu_1loop(m)); push(r, calculate_amu_2loop(m));
                                   push(r, calculate_amu_1loop_non_tan_beta_resummed(m)); r.txt += m.get_problems().get_warnings() + "|" + m.get_problems().get_problems() + "|"; });
      sub(r, "mssm-tb1", [&] { MSSMNoFV_onshell m; const Eigen::Matrix<double,3,3> U = Eigen::Matrix<double,3,3>::Identity(); mssm_sm(m, 0); m.do_force_output(true);
                              m.set_TB(1); m.set_Mu(350); m.set_MassB(150); m.set_MassWB(300); m.set_MassG(1000); m.set_mq2(500. * 500 * U); m.set_ml2(500. * 500 * U);
                              m.set_md2(500. * 500 * U); m.set_mu2(500. * 500 * U); m.set_me2(500. * 500 * U); m.set_MA0(1500); m.set_scale(454.7); m.calculate_masses();
                              push(r, calculate_amu_1loop(m)); push(r, calculate_amu_2loop(m)); push(r, calculate_uncertainty_amu_2loop(m)); });
   } else {
      // alpha_s(MZ) outside the range in which Lambda_QCD can be bracketed: documented fallback path of the running masses
      sub(r, "thdm-alphas-high", [&] { SM sm; sm.set_alpha_s_mz(0.35); THDM m(thdm_basis(0), sm); push(r, calculate_amu_2loop(m)); push(r, calculate_amu_2loop_fermionic(m)); push(r, calculate_uncertainty_amu_2loop(m)); });
      sub(r, "negsoft-noforce", [&] { MSSMNoFV_onshell m = mssm_negsoft(false); push(r, calculate_amu_1loop(m)); push(r, calculate_amu_2loop(m)); push(r, calculate_amu_1loop_non_tan_beta_resummed(m)); });
      for (int force = 0; force < 2; force++)
         sub(r, force ? "thdm-tachyon-force" : "thdm-tachyon", [&] { thdm::Gauge_basis b; b.yukawa_type = thdm::Yukawa_type::type_2;
            b.lambda << 0.7, 0.6, 0.5, 0.4, 0.3, 0.0, 0.0; b.tan_beta = 3; b.m122 = -40000;
            thdm::Config c; c.force_output = force != 0; THDM m(b, SM(), c); push(r, calculate_amu_1loop(m)); push(r, calculate_amu_2loop(m)); push(r, m.get_Mhh(0)); push(r, m.get_MAh(1)); });
      sub(r, "thdm-massless-up", [&] { SM sm; sm.set_mu(0, 0.0); thdm::Config c; c.force_output = true; THDM m(thdm_basis(0), sm, c); push(r, calculate_amu_2loop(m)); push(r, calculate_amu_2loop_fermionic(m)); });
   }
}

// O12: MSSM points whose tan(beta)-resummed spectrum is healthy while the spectrum computed WITHOUT resummation (tree-level
// Yukawa couplings) has a stau tachyon (3.5 % window in mu tan(beta)): the *_non_tan_beta_resummed functions work on an
// internal copy of their const argument and flag the tachyon there.  Nothing of that may reach the caller's model (its
// problem list included), a copy of it, or a later call; p = 0 without, p = 1 with force-output.  Shared model: read-only use.
inline MSSMNoFV_onshell mssm_edge(int p) {
   MSSMNoFV_onshell m; const Eigen::Matrix<double,3,3> U = Eigen::Matrix<double,3,3>::Identity();
   mssm_sm(m, 0); m.do_force_output(p != 0);
   m.set_TB(10); m.set_Ae(1, 1, 0); m.set_Mu(p ? 5312.5 : 5250); m.set_MassB(150); m.set_MassWB(300); m.set_MassG(1000);
   m.set_mq2(500. * 500 * U); m.set_ml2(300. * 300 * U); m.set_md2(500. * 500 * U); m.set_mu2(500. * 500 * U); m.set_me2(300. * 300 * U);
   m.set_Au(2, 2, 0); m.set_Ad(2, 2, 0); m.set_Ae(2, 2, 0); m.set_MA0(1500); m.set_scale(454.7);
   m.calculate_masses();
   return m;
}
inline void edge_calls(const MSSMNoFV_onshell& m, Res& r, const char* tag) {
   const std::string t(tag);
   preserving(m, r, "non-resummed evaluation", [&](const MSSMNoFV_onshell& x, Res& y) {
      sub(y, (t + "1Lnr").c_str(), [&] { push(y, calculate_amu_1loop_non_tan_beta_resummed(x)); });
      sub(y, (t + "2Lnr").c_str(), [&] { push(y, calculate_amu_2loop_non_tan_beta_resummed(x)); });
      sub(y, (t + "fsfnr").c_str(), [&] { push(y, amu2LFSfapprox_non_tan_beta_resummed(x)); });
      sub(y, (t + "1L").c_str(), [&] { push(y, calculate_amu_1loop(x)); push(y, calculate_amu_2loop(x)); push(y, calculate_uncertainty_amu_2loop(x)); });
      sub(y, (t + "1Lnr-again").c_str(), [&] { push(y, calculate_amu_1loop_non_tan_beta_resummed(x)); });
   });
   r.txt += deep(m).substr(deep(m).find("|P"));
}
inline void O12(int p, Res& r) {
   GUARDED(
      edge_calls(*shared_edge[p], r, "shared-");
      MSSMNoFV_onshell c(*shared_edge[p]); edge_calls(c, r, "copy-");
      if (deep(c) != deep(*shared_edge[p])) r.argchg += "copy of the shared model differs from it after evaluation; ";
      MSSMNoFV_onshell f = mssm_edge(p); edge_calls(f, r, "fresh-");
      if (deep(f) != deep(*shared_edge[p])) r.argchg += "freshly built model differs from the shared one after evaluation; ";
   )
}

static const Op OPS[] = {
   {"O1_mssm_gm2calc_build_eval", O1, false},
   {"O2_thdm_build_eval", O2, false},
   {"O3_mssm_slha_convert_eval", O3, false},
   {"O4_shared_mssm_readonly", O4, true},
   {"O5_shared_thdm_readonly", O5, true},
   {"O6_loopfunction_batch", O6, false},
   {"O7_slha_parse_fill", O7, false},
   {"O8_thdm_slha_parse_build_eval", O8, false},
   {"O9_mssm_non_resummed_copy", O9, true},
   {"O10_thdm_sparse_build_eval", O10, false},
   {"O11_error_paths_nonfinite", O11, false},
   {"O12_nonresummed_tachyon_window_shared", O12, true},
};
static const int NOPS = sizeof(OPS) / sizeof(OPS[0]);

inline std::string slurp(const std::string& path) { std::string s; FILE* f = std::fopen(path.c_str(), "rb"); if (!f) return s; char b[4096]; size_t n; while ((n = std::fread(b, 1, sizeof b, f)) > 0) s.append(b, n); std::fclose(f); return s; }
inline void init_shared(const std::string& repo) {
   slha_text[0] = slurp(repo + "/input/example.slha");
   slha_text[1] = slurp(repo + "/input/example.gm2");
   slha_text[3] = slurp(repo + "/input/example.thdm");
   slha_text[4] = slurp(repo + "/test/test_points/thdm_gauge-basis.in");
   slha_text[2] = slha_text[0];
   for (size_t pos = 0; (pos = slha_text[2].find("Q= 1.00000000e+03", pos)) != std::string::npos; pos += 5) slha_text[2].replace(pos, 17, "Q= 2.00000000e+03");
   { size_t pos = slha_text[2].find("4.89499929e+02"); if (pos != std::string::npos) slha_text[2].replace(pos, 14, "4.70000000e+02"); }
   for (int p = 0; p < 2; p++) { shared_mssm[p] = new MSSMNoFV_onshell(mssm_gm2calc(p)); shared_thdm[p] = new THDM(thdm_build(p)); shared_edge[p] = new MSSMNoFV_onshell(mssm_edge(p)); }
}
} // namespace ops
