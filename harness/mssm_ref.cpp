// mssm_ref: evaluation harness for C03 (one-loop a_mu vs independent evaluation, MSSM + THDM)
// and C05 (DR-bar -> on-shell conversion round trip).  Public API only (plus get_physical()).
//
// Protocol: one command per stdin line, whitespace separated tokens, doubles as C99 hex floats
// (decimal accepted as well), one or more result lines per command, `END <n>` at eof.
//
//   M <tb> <mu> <M1> <M2> <mL> <mR> <Amu> [<alpha(MZ)> <alpha(0)> <MW> <MZ> <m_mu> <mt> <mb(mb)> <mtau>]
//        on-shell MSSM point built like examples/example-gm2calc.cpp (other inputs fixed below);
//        optional SM block, a token `d` keeps the example's value
//        -> M OK <g1 g2 vd vu Mu M1 M2 ml2 me2 Ye TYe Ae MM | amu1LChi0 amu1LChipm amu1L |
//                 MChi[4] MCha[2] MSm[2] MSvmL>                (g1 GUT normalised)
//                 then ` NTR OK <calculate_amu_1loop_non_tan_beta_resummed | the 13 Lagrangian parameters of a copy after
//                 convert_to_non_tan_beta_resummed() | amu1LChi0(copy) amu1LChipm(copy)>`  or ` NTR EXC <class> <what>`
//           M EXC <class> <what>          library threw
//   MR ... / MC ...   same arguments and output as M, but evaluated on the process-wide persistent model object that
//        is moved from point to point through the public setters (MR) resp. on a copy of that object (MC)
//           M PROB <problems/warnings>    have_problem() or have_warning() after calculate_masses()
//
//   T <basis 0=mass|1=gauge> <type 1..6> <17 reals> <Delta_l 9 row-major> <Pi_l 9 row-major>
//     [<m_e> <m_mu> <m_tau> <MW> <MZ> <alpha_em(MZ)> <mhSM>]     optional SM block, `d` keeps the default
//        mass basis reals : mh mH mA mHp sba l6 l7 tb m122 zeta_u zeta_d zeta_l + 5 ignored
//        gauge basis reals: l1..l7 tb m122 zeta_u zeta_d zeta_l + 5 ignored
//        -> T OK <alpha_em mw mz mhSM v | MFe[3] MFv[3] | Mhh[2] MA MHp |
//                 ylh ylH ylA ylHp (each 9 x (re im), row-major) | amu1L>
//           T EXC <class> <what>
//
//   C <tb> <mu> <M1> <M2> <mL> <mR> <Amu> <modes> <nprec> <prec..> <npert> <pert..> [<cstep> <coff>]
//        generating on-shell point -> calculate_masses() -> pole spectrum copied into fresh
//        SLHA-type models (examples/example-slha.cpp); modes bit0: without NMIX/SMUMIX, bit1: with,
//        bit2: with, and the left-like smuon pole mass moved by 1% away from the right-like one;
//        bit3: as bit0, but model built, converted (gm2calc_mssmnofv_convert_to_onshell_params(h, prec, 1000)) and read
//        back exclusively through the C interface, bit4: the same with the default entry point
//        gm2calc_mssmnofv_convert_to_onshell(h) (reported with prec = 1e-8); bits 3,4 only for pert % cstep == coff;
//        pert = base-3 number, digits (mu, M1, M2, ml2(1,1), me2(1,1)) in {0:-5%, 1:0, 2:+5%}
//        -> G OK <Mu M1 M2 ml2 me2 | MCha[2] MChi[4] |ZN(i,0)|^2[4] MSvmL MSm[2] USm[4] amu amuscale>
//           G EXC .. | G PROB ..          (then no R lines)
//           R <mode> <prec> <pert> OK <flags> <Mu M1 M2 ml2 me2 | MCha[2] MChi[4] |ZN(i,0)|^2[4]
//                 MSvmL MSm[2] USm[4] amu amuscale | achieved precision Mu/M1/M2 fit, me2 fit |
//                 g1 g2 vd vu Ye(2,2) TYe(2,2) | y_prefit> <path>
//             amu = 1L + 2L total, amuscale = |chi0| + |chi+-| + |2L|;  y_prefit = resummed muon Yukawa of the
//             converted parameter set with me2(2,2) reset to its initial guess (what convert_me2() worked with)
//             flags: bit0 have_warning, bit1 no_Mu_MassB_MassWB_convergence, bit2 no_me2_convergence,
//                    bit3 have_problem
//             path : letters from the library's verbose log: r root finder entered, n "no improvement"
//                    exit, N NaN seen, d "did not converge" message, - none
//           R <mode> <prec> <pert> EXC <class> <what>
#include "gm2calc/MSSMNoFV_onshell.hpp"
#include "gm2calc/MSSMNoFV_onshell.h"      // C interface (C05: conversions through the C entry points)
#include "gm2calc/gm2_1loop.h"
#include "gm2calc/gm2_2loop.h"
#include "gm2calc/THDM.hpp"
#include "gm2calc/SM.hpp"
#include "gm2calc/gm2_1loop.hpp"
#include "gm2calc/gm2_2loop.hpp"
#include "gm2calc/gm2_error.hpp"

#include <cmath>
#include <complex>
#include <cstdio>
#include <cstdlib>
#include <algorithm>
#include <functional>
#include <iostream>
#include <limits>
#include <memory>
#include <sstream>
#include <string>
#include <typeinfo>
#include <vector>

using namespace gm2calc;

// the C header declares an opaque global `MSSMNoFV_onshell`; the C++ class is called Model in this file and the
// C handle is always written ::MSSMNoFV_onshell
typedef gm2calc::MSSMNoFV_onshell Model;

static std::ostringstream captured;   // std::cerr of the library ends up here

static std::string oneline(std::string s) {
   for (auto& c : s) if (c == '\n' || c == '\r' || c == '\t') c = ' ';
   if (s.size() > 300) s.resize(300);
   return s;
}
static const char* errclass(const std::exception& e) {
   if (dynamic_cast<const EInvalidInput*>(&e)) return "EInvalidInput";
   if (dynamic_cast<const EPhysicalProblem*>(&e)) return "EPhysicalProblem";
   if (dynamic_cast<const ESetupError*>(&e)) return "ESetupError";
   if (dynamic_cast<const Error*>(&e)) return "Error";
   return "std::exception";
}
static void pd(double x) { std::printf(" %a", x); }

// ---------------------------------------------------------------- MSSM

// SM inputs of an MSSM point: alpha(MZ), alpha(0), MW, MZ, m_mu, mt, mb(mb), mtau  (defaults: example-gm2calc.cpp)
struct SMIn { double v[8] = {0.0077552, 0.00729735, 80.385, 91.1876, 0.1056583715, 173.34, 4.18, 1.777}; };

static void sm_inputs(Model& m, const SMIn& s = SMIn()) {
   const double Pi = 3.141592653589793;
   m.set_alpha_MZ(s.v[0]);
   m.set_alpha_thompson(s.v[1]);
   m.set_g3(std::sqrt(4 * Pi * 0.1184));
   m.get_physical().MFt = s.v[5];
   m.get_physical().MFb = s.v[6];
   m.get_physical().MFm = s.v[4];
   m.get_physical().MFtau = s.v[7];
   m.get_physical().MVWm = s.v[2];
   m.get_physical().MVZ = s.v[3];
}

// optional trailing block of n tokens, each a number or `d` (keep default); returns false on a malformed block
static bool read_optional(std::istringstream& in, double* v, int n) {
   std::string t;
   for (int i = 0; i < n; i++) {
      if (!(in >> t)) return i == 0;          // absent block is fine
      if (t != "d") v[i] = std::strtod(t.c_str(), nullptr);
   }
   return true;
}

struct MP { double tb, mu, M1, M2, mL, mR, Amu; SMIn sm; };

// everything that is not scanned; first/third generation sleptons are kept heavy so that the
// selectron/stau sectors never decide whether a point is accepted
static void other_inputs(Model& m, const MP& p) {
   const Eigen::Matrix<double,3,3> I = Eigen::Matrix<double,3,3>::Identity();
   m.set_TB(p.tb);
   m.set_Ae(1, 1, p.Amu);
   m.set_MassG(1000);
   m.set_mq2(5000. * 5000. * I);
   m.set_md2(5000. * 5000. * I);
   m.set_mu2(5000. * 5000. * I);
   m.set_Au(2, 2, 0);
   m.set_Ad(2, 2, 0);
   m.set_Ae(2, 2, 0);
   m.set_MA0(1500);
   m.set_scale(454.7);
}
static void soft_inputs(Model& m, double mu, double M1, double M2, double ml2, double me2) {
   const Eigen::Matrix<double,3,3> I = Eigen::Matrix<double,3,3>::Identity();
   m.set_Mu(mu);
   m.set_MassB(M1);
   m.set_MassWB(M2);
   m.set_ml2(3000. * 3000. * I);
   m.set_me2(3000. * 3000. * I);
   m.set_ml2(1, 1, ml2);
   m.set_me2(1, 1, me2);
}

struct Guess { double mu, M1, M2, ml2, me2; };

// ---- set-up with a prescribed ORDER of the setter calls -------------------------------------------------------
// Everything a user sets, as a list of single setter calls in the canonical order
//   SM inputs | pole masses (conversions only) | tan(beta) | other DR-bar inputs | mu, M1, M2, slepton soft masses
// order 0 canonical; 1 tan(beta) first, then SM inputs, then the rest; 2 SM inputs last of all; 3 canonical reversed
// call by call; 4 as GM2_slha_io::fill_slha() does (SMINPUTS, MASS, scale, HMIX, A, MSOFT, GM2CalcInput alphas last);
// 5 'changed afterwards': canonical set-up with SM input set A, then the SM inputs overwritten with the final set.
struct PoleSpec { bool use{false}; double snu{0}, sm[2]{0, 0}, chi[4]{0, 0, 0, 0}, cha[2]{0, 0}; int mixing{0}; const Model* g{nullptr}; };

static void ordered_setup(Model& m, const MP& p, const SMIn& smA, const Guess& gs, const PoleSpec& ps, int order) {
   typedef std::function<void()> F;
   const Eigen::Matrix<double,3,3> I = Eigen::Matrix<double,3,3>::Identity();
   const double Pi = 3.141592653589793;
   auto sm_steps = [&m, Pi](const SMIn& s, std::vector<F>& alphas, std::vector<F>& rest) {
      alphas.push_back([&m, s] { m.set_alpha_MZ(s.v[0]); });
      alphas.push_back([&m, s] { m.set_alpha_thompson(s.v[1]); });
      rest.push_back([&m, Pi] { m.set_g3(std::sqrt(4 * Pi * 0.1184)); });
      rest.push_back([&m, s] { m.get_physical().MFt = s.v[5]; });
      rest.push_back([&m, s] { m.get_physical().MFb = s.v[6]; });
      rest.push_back([&m, s] { m.get_physical().MFm = s.v[4]; });
      rest.push_back([&m, s] { m.get_physical().MFtau = s.v[7]; });
      rest.push_back([&m, s] { m.get_physical().MVWm = s.v[2]; });
      rest.push_back([&m, s] { m.get_physical().MVZ = s.v[3]; });
   };
   std::vector<F> alphas, smrest, pole, tb, scale, hmix_mu, a_terms, other, soft;
   sm_steps(p.sm, alphas, smrest);
   if (ps.use) {
      pole.push_back([&m, &ps] { m.get_physical().MSvmL = ps.snu; });
      pole.push_back([&m, &ps] { m.get_physical().MSm(0) = ps.sm[0]; m.get_physical().MSm(1) = ps.sm[1]; });
      pole.push_back([&m, &ps] { for (int i = 0; i < 4; i++) m.get_physical().MChi(i) = ps.chi[i]; });
      pole.push_back([&m, &ps] { m.get_physical().MCha(0) = ps.cha[0]; m.get_physical().MCha(1) = ps.cha[1]; });
      if (ps.mixing) {
         pole.push_back([&m, &ps] { m.get_physical().ZN = ps.g->get_ZN(); });
         pole.push_back([&m, &ps] { m.get_physical().ZM = ps.g->get_USm(); });
      }
   }
   pole.push_back([&m] { m.set_MA0(1500); });
   tb.push_back([&m, &p] { m.set_TB(p.tb); });
   scale.push_back([&m] { m.set_scale(454.7); });
   hmix_mu.push_back([&m, &gs] { m.set_Mu(gs.mu); });
   a_terms.push_back([&m, &p] { m.set_Ae(1, 1, p.Amu); });
   a_terms.push_back([&m] { m.set_Au(2, 2, 0); });
   a_terms.push_back([&m] { m.set_Ad(2, 2, 0); });
   a_terms.push_back([&m] { m.set_Ae(2, 2, 0); });
   other.push_back([&m] { m.set_MassG(1000); });
   other.push_back([&m, I] { m.set_mq2(5000. * 5000. * I); });
   other.push_back([&m, I] { m.set_md2(5000. * 5000. * I); });
   other.push_back([&m, I] { m.set_mu2(5000. * 5000. * I); });
   soft.push_back([&m, &gs] { m.set_MassB(gs.M1); });
   soft.push_back([&m, &gs] { m.set_MassWB(gs.M2); });
   soft.push_back([&m, &gs, I] { m.set_ml2(3000. * 3000. * I); m.set_ml2(1, 1, gs.ml2); });
   soft.push_back([&m, &gs, I] { m.set_me2(3000. * 3000. * I); m.set_me2(1, 1, gs.me2); });

   std::vector<F> seq;
   auto add = [&seq](const std::vector<F>& v) { seq.insert(seq.end(), v.begin(), v.end()); };
   auto canonical = [&] { add(alphas); add(smrest); add(pole); add(tb); add(a_terms); add(other); add(scale); add(hmix_mu); add(soft); };
   switch (order) {
   case 0: canonical(); break;
   case 1: add(tb); add(alphas); add(smrest); add(pole); add(a_terms); add(other); add(scale); add(hmix_mu); add(soft); break;
   case 2: add(pole); add(tb); add(a_terms); add(other); add(scale); add(hmix_mu); add(soft); add(alphas); add(smrest); break;
   case 3: canonical(); std::reverse(seq.begin(), seq.end()); break;
   case 4: add(smrest); add(pole); add(scale); add(hmix_mu); add(tb); add(a_terms); add(soft); add(other); add(alphas); break;
   case 5: {
      std::vector<F> aA, rA;
      sm_steps(smA, aA, rA);
      add(aA); add(rA); add(pole); add(tb); add(a_terms); add(other); add(scale); add(hmix_mu); add(soft);
      add(alphas); add(smrest);
      break;
   }
   default: throw ESetupError("unknown set-up order");
   }
   for (const auto& f : seq) f();
}

static bool read_mp(std::istringstream& in, MP& p) {
   std::string t[7];
   for (auto& s : t) if (!(in >> s)) return false;
   double* d[7] = {&p.tb, &p.mu, &p.M1, &p.M2, &p.mL, &p.mR, &p.Amu};
   for (int i = 0; i < 7; i++) *d[i] = std::strtod(t[i].c_str(), nullptr);
   return true;
}

// returns 0 ok, 1 exception, 2 problem/warning; prints the status tokens after `tag`
static int make_onshell(Model& m, const MP& p, const char* tag) {
   try {
      sm_inputs(m, p.sm);
      other_inputs(m, p);
      soft_inputs(m, p.mu, p.M1, p.M2, p.mL * p.mL, p.mR * p.mR);
      m.calculate_masses();
   } catch (const std::exception& e) {
      std::printf("%s EXC %s %s\n", tag, errclass(e), oneline(e.what()).c_str());
      return 1;
   }
   if (m.get_problems().have_problem() || m.get_problems().have_warning()) {
      std::printf("%s PROB %s %s\n", tag, oneline(m.get_problems().get_problems()).c_str(),
                  oneline(m.get_problems().get_warnings()).c_str());
      return 2;
   }
   return 0;
}

static void lagrangian(const Model& m) {
   pd(m.get_g1()); pd(m.get_g2()); pd(m.get_vd()); pd(m.get_vu()); pd(m.get_Mu());
   pd(m.get_MassB()); pd(m.get_MassWB()); pd(m.get_ml2(1, 1)); pd(m.get_me2(1, 1));
   pd(m.get_Ye(1, 1)); pd(m.get_TYe(1, 1)); pd(m.get_Ae(1, 1)); pd(m.get_MM());
}

// mode 0: fresh object per point; 1: one persistent object per process is moved to the point through the public
// setters + calculate_masses() (the pattern of examples/example-gm2scan.cpp); 2: a copy of the persistent, already
// evaluated object is moved to the point (the persistent object itself stays where it is)
// evaluates the one-loop results on m and prints ` OK ... NTR ...` (no newline) or ` EXC ...`
static void evaluate_M(const Model& m) {
   double a0, ac, a1;
   try {
      a0 = amu1LChi0(m);
      ac = amu1LChipm(m);
      a1 = calculate_amu_1loop(m);
   } catch (const std::exception& e) {
      std::printf(" EXC %s %s", errclass(e), oneline(e.what()).c_str());
      return;
   }
   std::printf(" OK");
   lagrangian(m);
   pd(a0); pd(ac); pd(a1);
   for (int i = 0; i < 4; i++) pd(m.get_MChi()(i));
   for (int i = 0; i < 2; i++) pd(m.get_MCha()(i));
   for (int i = 0; i < 2; i++) pd(m.get_MSm()(i));
   pd(m.get_MSvmL());
   // one-loop result without tan(beta) resummation + the Lagrangian parameters of a copy converted with the
   // public convert_to_non_tan_beta_resummed() and the two contributions evaluated on that copy
   try {
      const double antr = calculate_amu_1loop_non_tan_beta_resummed(m);
      Model c(m);
      c.convert_to_non_tan_beta_resummed();
      const double c0 = amu1LChi0(c), cc = amu1LChipm(c);
      std::printf(" NTR OK");
      pd(antr);
      lagrangian(c);
      pd(c0); pd(cc);
   } catch (const std::exception& e) {
      std::printf(" NTR EXC %s %s", errclass(e), oneline(e.what()).c_str());
   }
}

static void cmd_M(std::istringstream& in, int mode) {
   static Model chain;
   MP p;
   if (!read_mp(in, p) || !read_optional(in, p.sm.v, 8)) { std::printf("ERR bad M command\n"); return; }
   Model fresh;
   Model copy(chain);
   Model& m = mode == 0 ? fresh : mode == 1 ? chain : copy;
   if (make_onshell(m, p, "M")) return;
   std::printf("M");
   evaluate_M(m);
   std::printf("\n");
}

// MO <order 0..5> <tb mu M1 M2 mL mR Amu> <8 SM inputs (final set)> [<8 SM inputs set A, order 5>]
//   on-shell point set up with the given ORDER of setter calls (ordered_setup), calculate_masses(), result as for M;
//   then calculate_masses() once more on the same object and the result again:  M <...> AGAIN <...>
static void cmd_MO(std::istringstream& in) {
   int order;
   MP p;
   SMIn smA;
   if (!(in >> order) || !read_mp(in, p) || !read_optional(in, p.sm.v, 8) || !read_optional(in, smA.v, 8)) {
      std::printf("ERR bad MO command\n");
      return;
   }
   Model m;
   const Guess gs{p.mu, p.M1, p.M2, p.mL * p.mL, p.mR * p.mR};
   try {
      ordered_setup(m, p, smA, gs, PoleSpec(), order);
      m.calculate_masses();
   } catch (const std::exception& e) {
      std::printf("M EXC %s %s\n", errclass(e), oneline(e.what()).c_str());
      return;
   }
   if (m.get_problems().have_problem() || m.get_problems().have_warning()) {
      std::printf("M PROB %s\n", oneline(m.get_problems().get_problems()).c_str());
      return;
   }
   std::printf("M");
   evaluate_M(m);
   std::printf(" AGAIN");
   try {
      m.calculate_masses();
      evaluate_M(m);
   } catch (const std::exception& e) {
      std::printf(" EXC %s %s", errclass(e), oneline(e.what()).c_str());
   }
   std::printf("\n");
}

// ---------------------------------------------------------------- THDM

static void pm(const Eigen::Matrix<std::complex<double>,3,3>& y) {
   for (int i = 0; i < 3; i++) for (int j = 0; j < 3; j++) { pd(y(i, j).real()); pd(y(i, j).imag()); }
}

static void cmd_T(std::istringstream& in) {
   int basis, type;
   if (!(in >> basis >> type)) { std::printf("ERR bad T command\n"); return; }
   double r[17], D[9], P[9];
   std::string s;
   for (auto& v : r) { if (!(in >> s)) { std::printf("ERR bad T command\n"); return; } v = std::strtod(s.c_str(), nullptr); }
   for (auto& v : D) { if (!(in >> s)) { std::printf("ERR bad T command\n"); return; } v = std::strtod(s.c_str(), nullptr); }
   for (auto& v : P) { if (!(in >> s)) { std::printf("ERR bad T command\n"); return; } v = std::strtod(s.c_str(), nullptr); }
   Eigen::Matrix<double,3,3> Dl, Pl;
   for (int i = 0; i < 3; i++) for (int j = 0; j < 3; j++) { Dl(i, j) = D[3 * i + j]; Pl(i, j) = P[3 * i + j]; }

   SM sm;                                   // as in examples/example-thdm.cpp
   sm.set_alpha_em_mz(1.0 / 128.94579);
   sm.set_mu(2, 173.34);
   sm.set_mu(1, 1.28);
   sm.set_md(2, 4.18);
   sm.set_ml(2, 1.77684);
   // optional SM block: m_e m_mu m_tau MW MZ alpha_em(MZ) mhSM
   double smv[7] = {sm.get_ml(0), sm.get_ml(1), sm.get_ml(2), sm.get_mw(), sm.get_mz(), sm.get_alpha_em_mz(), sm.get_mh()};
   if (!read_optional(in, smv, 7)) { std::printf("ERR bad T command\n"); return; }
   sm.set_ml(0, smv[0]); sm.set_ml(1, smv[1]); sm.set_ml(2, smv[2]);
   sm.set_mw(smv[3]); sm.set_mz(smv[4]); sm.set_alpha_em_mz(smv[5]); sm.set_mh(smv[6]);
   thdm::Config cfg;
   cfg.force_output = false;
   cfg.running_couplings = true;
   try {
      const thdm::Yukawa_type yt = thdm::int_to_cpp_yukawa_type(type);
      std::unique_ptr<THDM> model;
      if (basis == 0) {
         thdm::Mass_basis b;
         b.yukawa_type = yt;
         b.mh = r[0]; b.mH = r[1]; b.mA = r[2]; b.mHp = r[3]; b.sin_beta_minus_alpha = r[4];
         b.lambda_6 = r[5]; b.lambda_7 = r[6]; b.tan_beta = r[7]; b.m122 = r[8];
         b.zeta_u = r[9]; b.zeta_d = r[10]; b.zeta_l = r[11];
         b.Delta_l = Dl; b.Pi_l = Pl;
         model.reset(new THDM(b, sm, cfg));
      } else {
         thdm::Gauge_basis b;
         b.yukawa_type = yt;
         for (int i = 0; i < 7; i++) b.lambda(i) = r[i];
         b.tan_beta = r[7]; b.m122 = r[8];
         b.zeta_u = r[9]; b.zeta_d = r[10]; b.zeta_l = r[11];
         b.Delta_l = Dl; b.Pi_l = Pl;
         model.reset(new THDM(b, sm, cfg));
      }
      const THDM& m = *model;
      const double a = calculate_amu_1loop(m);
      std::printf("T OK");
      pd(m.get_alpha_em()); pd(m.get_MVWm()); pd(m.get_MVZ()); pd(m.get_sm().get_mh()); pd(m.get_v());
      for (int i = 0; i < 3; i++) pd(m.get_MFe(i));
      for (int i = 0; i < 3; i++) pd(m.get_MFv(i));
      pd(m.get_Mhh(0)); pd(m.get_Mhh(1)); pd(m.get_MAh(1)); pd(m.get_MHm(1));
      pm(m.get_ylh()); pm(m.get_ylH()); pm(m.get_ylA()); pm(m.get_ylHp());
      pd(a);
      std::printf("\n");
   } catch (const std::exception& e) {
      std::printf("T EXC %s %s\n", errclass(e), oneline(e.what()).c_str());
   }
}

// ---------------------------------------------------------------- conversion round trip

// total a_mu (1L + 2L, as in the examples) and the scale sum |chi0| + |chi+-| + |2L| against which a
// difference of two totals is to be judged (the total can cancel)
static void amu_total(const Model& m, double& tot, double& scale) {
   const double a0 = amu1LChi0(m), ac = amu1LChipm(m), a2 = calculate_amu_2loop(m);
   tot = calculate_amu_1loop(m) + a2;
   scale = std::abs(a0) + std::abs(ac) + std::abs(a2);
}

static void spectrum(const Model& m) {
   pd(m.get_Mu()); pd(m.get_MassB()); pd(m.get_MassWB()); pd(m.get_ml2(1, 1)); pd(m.get_me2(1, 1));
   for (int i = 0; i < 2; i++) pd(m.get_MCha()(i));
   for (int i = 0; i < 4; i++) pd(m.get_MChi()(i));
   for (int i = 0; i < 4; i++) pd(std::norm(m.get_ZN()(i, 0)));
   pd(m.get_MSvmL());
   for (int i = 0; i < 2; i++) pd(m.get_MSm()(i));
   for (int i = 0; i < 2; i++) for (int j = 0; j < 2; j++) pd(m.get_USm()(i, j));
}

static const double fac[3] = {0.95, 1.0, 1.05};

static Guess guess_for(const Model& g, int pert) {
   int dgt[5], q = pert;
   for (int i = 0; i < 5; i++) { dgt[i] = q % 3; q /= 3; }
   return {g.get_Mu() * fac[dgt[0]], g.get_MassB() * fac[dgt[1]], g.get_MassWB() * fac[dgt[2]],
           g.get_ml2(1, 1) * fac[dgt[3]], g.get_me2(1, 1) * fac[dgt[4]]};
}

struct Handle {                      // C handle with guaranteed free
   ::MSSMNoFV_onshell* h{nullptr};
   ~Handle() { if (h) gm2calc_mssmnofv_free(h); }
};

// what a user of the C++ interface sets before a conversion (examples/example-slha.cpp).
// pole: bit0 chargino + neutralino pole masses given, bit1 sneutrino + smuon pole masses given (absent = set to 0, the
// documented "use the tree-level masses" fallback); mixing: 0 pole mixing matrices not supplied (fields not touched),
// 1 supplied, 2 supplied and the left-like smuon pole mass moved 1% away from the right-like one
static void cpp_setup(Model& m, const Model& g, const MP& p, const Guess& gs, int pole, int mixing) {
   sm_inputs(m);
   // pole masses, as GM2_slha_io::fill_slha() leaves them (Haber-Kane: positive masses)
   if (pole & 2) {
      m.get_physical().MSvmL = g.get_MSvmL();
      m.get_physical().MSm = g.get_MSm();
   } else {
      m.get_physical().MSvmL = 0;
      m.get_physical().MSm.setZero();
   }
   if (pole & 1) {
      m.get_physical().MChi = g.get_MChi();
      m.get_physical().MCha = g.get_MCha();
   } else {
      m.get_physical().MChi.setZero();
      m.get_physical().MCha.setZero();
   }
   m.get_physical().MAh(1) = 1500;
   if (mixing >= 1) {
      m.get_physical().ZN = g.get_ZN();
      m.get_physical().ZM = g.get_USm();
   }
   if (mixing == 2) {
      // a spectrum that is not a tree-level one: move the mostly left-handed smuon pole mass 1% away
      // from the right-handed one (the scheme does not use it; the mass ordering is preserved)
      const int l = std::abs(g.get_USm()(0, 0)) >= std::abs(g.get_USm()(1, 0)) ? 0 : 1;
      m.get_physical().MSm(l) *= (l == 1 ? 1.01 : 0.99);
   }
   // DR-bar parameters / initial guesses
   other_inputs(m, p);
   soft_inputs(m, gs.mu, gs.M1, gs.M2, gs.ml2, gs.me2);
}

// the same through the C interface (no setter for the pole mixing matrices exists)
static void c_setup(::MSSMNoFV_onshell* h, const Model& g, const MP& p, const Guess& gs, int pole) {
   const SMIn sm;
   gm2calc_mssmnofv_set_alpha_MZ(h, sm.v[0]);
   gm2calc_mssmnofv_set_alpha_thompson(h, sm.v[1]);
   gm2calc_mssmnofv_set_g3(h, std::sqrt(4 * 3.141592653589793 * 0.1184));
   gm2calc_mssmnofv_set_MT_pole(h, sm.v[5]);
   gm2calc_mssmnofv_set_MB_running(h, sm.v[6]);
   gm2calc_mssmnofv_set_MM_pole(h, sm.v[4]);
   gm2calc_mssmnofv_set_ML_pole(h, sm.v[7]);
   gm2calc_mssmnofv_set_MW_pole(h, sm.v[2]);
   gm2calc_mssmnofv_set_MZ_pole(h, sm.v[3]);
   gm2calc_mssmnofv_set_MSvmL_pole(h, (pole & 2) ? g.get_MSvmL() : 0.0);
   for (unsigned i = 0; i < 2; i++) gm2calc_mssmnofv_set_MSm_pole(h, i, (pole & 2) ? g.get_MSm()(i) : 0.0);
   for (unsigned i = 0; i < 4; i++) gm2calc_mssmnofv_set_MChi_pole(h, i, (pole & 1) ? g.get_MChi()(i) : 0.0);
   for (unsigned i = 0; i < 2; i++) gm2calc_mssmnofv_set_MCha_pole(h, i, (pole & 1) ? g.get_MCha()(i) : 0.0);
   gm2calc_mssmnofv_set_MAh_pole(h, 1500);
   gm2calc_mssmnofv_set_TB(h, p.tb);
   gm2calc_mssmnofv_set_Ae(h, 1, 1, p.Amu);
   gm2calc_mssmnofv_set_MassG(h, 1000);
   for (unsigned i = 0; i < 3; i++) {
      gm2calc_mssmnofv_set_mq2(h, i, i, 5000. * 5000.);
      gm2calc_mssmnofv_set_md2(h, i, i, 5000. * 5000.);
      gm2calc_mssmnofv_set_mu2(h, i, i, 5000. * 5000.);
      gm2calc_mssmnofv_set_ml2(h, i, i, 3000. * 3000.);
      gm2calc_mssmnofv_set_me2(h, i, i, 3000. * 3000.);
   }
   gm2calc_mssmnofv_set_Au(h, 2, 2, 0);
   gm2calc_mssmnofv_set_Ad(h, 2, 2, 0);
   gm2calc_mssmnofv_set_Ae(h, 2, 2, 0);
   gm2calc_mssmnofv_set_scale(h, 454.7);
   gm2calc_mssmnofv_set_Mu(h, gs.mu);
   gm2calc_mssmnofv_set_MassB(h, gs.M1);
   gm2calc_mssmnofv_set_MassWB(h, gs.M2);
   gm2calc_mssmnofv_set_ml2(h, 1, 1, gs.ml2);
   gm2calc_mssmnofv_set_me2(h, 1, 1, gs.me2);
}

// result columns of a converted model + newline; h != nullptr: everything the oracle decides on comes through the
// C getters, the C++ view m of the same object only supplies the auxiliary columns
static void report(Model& m, ::MSSMNoFV_onshell* h, double gme2) {
   double a, as;
   amu_total(m, a, as);
   // muon Yukawa the me2 fit was performed with: resummed from (fitted mu, M1, M2, ml2; me2 = initial guess)
   double y_prefit = std::numeric_limits<double>::quiet_NaN();
   try {
      Model c(m);
      c.set_me2(1, 1, gme2);
      c.calculate_masses();
      y_prefit = c.get_Ye(1, 1);
   } catch (const std::exception&) {}
   const auto& pr = m.get_problems();
   int flags = (pr.no_Mu_MassB_MassWB_convergence() ? 2 : 0) | (pr.no_me2_convergence() ? 4 : 0);
   if (!h) {
      flags |= (pr.have_warning() ? 1 : 0) | (pr.have_problem() ? 8 : 0);
      std::printf(" OK %d", flags);
      spectrum(m); pd(a); pd(as);
   } else {
      flags |= (gm2calc_mssmnofv_have_warning(h) ? 1 : 0) | (gm2calc_mssmnofv_have_problem(h) ? 8 : 0);
      std::printf(" OK %d", flags);
      pd(gm2calc_mssmnofv_get_Mu(h)); pd(gm2calc_mssmnofv_get_MassB(h)); pd(gm2calc_mssmnofv_get_MassWB(h));
      pd(gm2calc_mssmnofv_get_ml2(h, 1, 1)); pd(gm2calc_mssmnofv_get_me2(h, 1, 1));
      for (unsigned i = 0; i < 2; i++) pd(gm2calc_mssmnofv_get_MCha(h, i));
      for (unsigned i = 0; i < 4; i++) pd(gm2calc_mssmnofv_get_MChi(h, i));
      for (unsigned i = 0; i < 4; i++) {
         double im = 0;
         const double re = gm2calc_mssmnofv_get_ZN(h, i, 0, &im);
         pd(std::norm(std::complex<double>(re, im)));
      }
      pd(gm2calc_mssmnofv_get_MSvmL(h));
      for (unsigned i = 0; i < 2; i++) pd(gm2calc_mssmnofv_get_MSm(h, i));
      for (unsigned i = 0; i < 2; i++) for (unsigned j = 0; j < 2; j++) pd(gm2calc_mssmnofv_get_USm(h, i, j));
      pd(gm2calc_mssmnofv_calculate_amu_1loop(h) + gm2calc_mssmnofv_calculate_amu_2loop(h));
      pd(as);
   }
   pd(pr.get_Mu_MassB_MassWB_convergence_problem().precision);
   pd(pr.get_me2_convergence_problem().precision);
   pd(m.get_g1()); pd(m.get_g2()); pd(m.get_vd()); pd(m.get_vu()); pd(m.get_Ye(1, 1)); pd(m.get_TYe(1, 1));
   pd(y_prefit);
   const std::string log = captured.str();
   std::string path;
   if (log.find("with root finder") != std::string::npos) path += 'r';
   if (log.find("No improvement") != std::string::npos) path += 'n';
   if (log.find("NaN") != std::string::npos) path += 'N';
   if (log.find("did not converge") != std::string::npos) path += 'd';
   if (path.empty()) path = "-";
   std::printf(" %s\n", path.c_str());
   if (std::getenv("MSSM_REF_SHOWLOG")) {      // debugging aid: the library's verbose log
      std::istringstream ls(log);
      std::string l;
      while (std::getline(ls, l)) std::printf("L %s\n", l.c_str());
   }
}

// one conversion through the C++ interface on object m; prints the result columns (or ` EXC ...`) + newline
static void convert_cpp(Model& m, const Model& g, const MP& p, const Guess& gs, int pole, int mixing, double prec) {
   captured.str("");
   try {
      cpp_setup(m, g, p, gs, pole, mixing);
      m.set_verbose_output(true);
      m.convert_to_onshell(prec, 1000);
      m.set_verbose_output(false);
      report(m, nullptr, gs.me2);
   } catch (const std::exception& e) {
      m.set_verbose_output(false);
      std::printf(" EXC %s %s\n", errclass(e), oneline(e.what()).c_str());
   }
}

// one conversion through the C interface on handle h; entry 0: ..._params(h, prec, 1000), 1: default entry point
static void convert_c(::MSSMNoFV_onshell* h, const Model& g, const MP& p, const Guess& gs, int pole, double prec, int entry) {
   captured.str("");
   try {
      c_setup(h, g, p, gs, pole);
      gm2calc_mssmnofv_set_verbose_output(h, 1);
      const gm2calc_error err = entry == 0 ? gm2calc_mssmnofv_convert_to_onshell_params(h, prec, 1000)
                                           : gm2calc_mssmnofv_convert_to_onshell(h);
      gm2calc_mssmnofv_set_verbose_output(h, 0);
      if (err != gm2calc_NoError) {
         std::printf(" EXC gm2calc_error %d\n", static_cast<int>(err));
         return;
      }
      report(*reinterpret_cast<Model*>(h), h, gs.me2);
   } catch (const std::exception& e) {
      std::printf(" EXC %s %s\n", errclass(e), oneline(e.what()).c_str());
   }
}

static bool generating(Model& g, const MP& p, const char* tag) {
   if (make_onshell(g, p, tag)) return false;
   double ag, ags;
   try { amu_total(g, ag, ags); }
   catch (const std::exception& e) { std::printf("%s EXC %s %s\n", tag, errclass(e), oneline(e.what()).c_str()); return false; }
   std::printf("%s OK", tag);
   spectrum(g); pd(ag); pd(ags);
   std::printf("\n");
   return true;
}

static void cmd_C(std::istringstream& in) {
   MP p;
   int modes, nprec, npert;
   if (!read_mp(in, p) || !(in >> modes >> nprec)) { std::printf("ERR bad C command\n"); return; }
   std::vector<double> precs(nprec);
   std::string s;
   for (auto& v : precs) { in >> s; v = std::strtod(s.c_str(), nullptr); }
   if (!(in >> npert)) { std::printf("ERR bad C command\n"); return; }
   std::vector<int> perts(npert);
   for (auto& v : perts) in >> v;
   if (!in) { std::printf("ERR bad C command\n"); return; }
   int cstep = 0, coff = 0;                 // C-interface modes: only perturbations with pert % cstep == coff
   if (!(in >> cstep >> coff)) { cstep = 0; coff = 0; }

   Model g;
   if (!generating(g, p, "G")) return;

   for (int mode = 0; mode < 5; mode++) {
      if (!(modes >> mode & 1)) continue;
      const bool capi = mode >= 3;
      for (std::size_t ip = 0; ip < precs.size(); ip++) for (int pert : perts) {
         double prec = precs[ip];
         if (capi && (cstep <= 0 || pert % cstep != coff)) continue;
         if (mode == 4) {               // default entry point: documented defaults precision 1e-8, 1000 iterations
            if (ip != 0) continue;
            prec = 1e-8;
         }
         const Guess gs = guess_for(g, pert);
         std::printf("R %d %a %d", mode, prec, pert);
         if (!capi) {
            Model m;
            convert_cpp(m, g, p, gs, 3, mode, prec);
         } else {
            // the same case as mode 0, built and converted exclusively through the C interface
            Handle H;
            H.h = gm2calc_mssmnofv_new();
            convert_c(H.h, g, p, gs, 3, prec, mode == 3 ? 0 : 1);
         }
      }
   }
}

static PoleSpec poles_of(const Model& g, int mixing) {
   PoleSpec ps;
   ps.use = true;
   ps.snu = g.get_MSvmL();
   for (int i = 0; i < 2; i++) { ps.sm[i] = g.get_MSm()(i); ps.cha[i] = g.get_MCha()(i); }
   for (int i = 0; i < 4; i++) ps.chi[i] = g.get_MChi()(i);
   ps.mixing = mixing;
   ps.g = &g;
   return ps;
}

// one conversion on object m after ordered_setup(); me2_before: the value the me2 fit starts from (for y_prefit)
static void convert_ordered(Model& m, const MP& p, const SMIn& smA, const Guess& gs, const PoleSpec& ps, int order, double prec) {
   captured.str("");
   try {
      ordered_setup(m, p, smA, gs, ps, order);
      m.set_verbose_output(true);
      m.convert_to_onshell(prec, 1000);
      m.set_verbose_output(false);
      report(m, nullptr, gs.me2);
   } catch (const std::exception& e) {
      m.set_verbose_output(false);
      std::printf(" EXC %s %s\n", errclass(e), oneline(e.what()).c_str());
   }
}

// CO <tb mu M1 M2 mL mR Amu> <8 SM inputs, `d` = example value> <nprec> <prec..> <npert> <pert..>
//   order-of-setter-calls family: generating point with the given SM inputs (G line), then for order 0..5 (see
//   ordered_setup; set A of order 5 = the example's SM inputs), every precision and perturbation
//     R <10+order> <prec> <pert> ...   conversion of a fresh object set up in that order (pole masses, no mixing matrices)
//     R <20+order> <prec> <pert> ...   convert_to_onshell(prec, 1000) called once more on the same object
static void cmd_CO(std::istringstream& in) {
   MP p;
   int nprec, npert;
   if (!read_mp(in, p) || !read_optional(in, p.sm.v, 8) || !(in >> nprec)) { std::printf("ERR bad CO command\n"); return; }
   std::vector<double> precs(nprec);
   std::string s;
   for (auto& v : precs) { in >> s; v = std::strtod(s.c_str(), nullptr); }
   if (!(in >> npert)) { std::printf("ERR bad CO command\n"); return; }
   std::vector<int> perts(npert);
   for (auto& v : perts) in >> v;
   if (!in) { std::printf("ERR bad CO command\n"); return; }
   Model g;
   if (!generating(g, p, "G")) return;
   const PoleSpec ps = poles_of(g, 0);
   for (int order = 0; order < 6; order++) for (double prec : precs) for (int pert : perts) {
      const Guess gs = guess_for(g, pert);
      Model m;
      std::printf("R %d %a %d", 10 + order, prec, pert);
      convert_ordered(m, p, SMIn(), gs, ps, order, prec);
      std::printf("R %d %a %d", 20 + order, prec, pert);
      captured.str("");
      try {
         const double me2_before = m.get_me2(1, 1);
         m.set_verbose_output(true);
         m.convert_to_onshell(prec, 1000);
         m.set_verbose_output(false);
         report(m, nullptr, me2_before);
      } catch (const std::exception& e) {
         m.set_verbose_output(false);
         std::printf(" EXC %s %s\n", errclass(e), oneline(e.what()).c_str());
      }
   }
}

// CX <tb mu M1 M2 mL mR Amu> <prec> <pert> <mixing 0|1> <MCha0 MCha1 MChi0..3 MSvmL MSm0 MSm1>   (`d` = generating value)
//   conversion of a fresh object whose pole masses are given explicitly (spectra that no parameter point produces):
//     G ...   generating point,   R 30 <prec> <pert> ...
static void cmd_CX(std::istringstream& in) {
   MP p;
   std::string s;
   int pert, mixing;
   if (!read_mp(in, p) || !(in >> s >> pert >> mixing)) { std::printf("ERR bad CX command\n"); return; }
   const double prec = std::strtod(s.c_str(), nullptr);
   Model g;
   if (!generating(g, p, "G")) return;
   PoleSpec ps = poles_of(g, mixing);
   double v[9] = {ps.cha[0], ps.cha[1], ps.chi[0], ps.chi[1], ps.chi[2], ps.chi[3], ps.snu, ps.sm[0], ps.sm[1]};
   if (!read_optional(in, v, 9)) { std::printf("ERR bad CX command\n"); return; }
   ps.cha[0] = v[0]; ps.cha[1] = v[1];
   for (int i = 0; i < 4; i++) ps.chi[i] = v[2 + i];
   ps.snu = v[6]; ps.sm[0] = v[7]; ps.sm[1] = v[8];
   const Guess gs = guess_for(g, pert);
   Model m;
   std::printf("R 30 %a %d", prec, pert);
   convert_ordered(m, p, SMIn(), gs, ps, 0, prec);
}

// Q <api 0=C++|1=C> <prec> <nsteps> { <tb mu M1 M2 mL mR Amu> <pole 0..3> <mixing 0|1> <pert> } x nsteps
//   object re-use: ONE model object (C++ object resp. C handle) goes through nsteps conversions; before each one every
//   input a user has a setter for is set again (cpp_setup / c_setup); per step k
//     QG <k> OK <generating spectrum>      (or EXC/PROB: the step is skipped, the object is not touched)
//     QR <k> <result columns as in R lines>   conversion on the re-used object
//     QF <k> <result columns>                 the same inputs on a fresh object
static void cmd_Q(std::istringstream& in) {
   int api, n;
   std::string s;
   if (!(in >> api >> s >> n) || n < 1 || n > 8) { std::printf("ERR bad Q command\n"); return; }
   const double prec = std::strtod(s.c_str(), nullptr);
   struct Step { MP p; int pole, mixing, pert; };
   std::vector<Step> steps(n);
   for (auto& st : steps)
      if (!read_mp(in, st.p) || !(in >> st.pole >> st.mixing >> st.pert) || (api == 1 && st.mixing != 0)) {
         std::printf("ERR bad Q command\n");
         return;
      }
   Model reused;
   Handle H;
   if (api == 1) H.h = gm2calc_mssmnofv_new();
   bool user_mixing = false;     // the user's own pole mixing matrices are still in the object
   for (int k = 0; k < n; k++) {
      const Step& st = steps[k];
      Model g;
      char tag[16];
      std::snprintf(tag, sizeof tag, "QG %d", k);
      if (!generating(g, st.p, tag)) continue;
      const Guess gs = guess_for(g, st.pert);
      if (api == 0) {
         // a user who supplied NMIX/SMUMIX for an earlier point and has none for this one removes his own matrices;
         // matrices the library itself stored in the physical struct are not his to reset (no C setter exists at all)
         if (st.mixing == 0 && user_mixing) {
            reused.get_physical().ZN.setZero();
            reused.get_physical().ZM.setZero();
            user_mixing = false;
         }
         if (st.mixing != 0) user_mixing = true;
      }
      std::printf("QR %d", k);
      if (api == 0) convert_cpp(reused, g, st.p, gs, st.pole, st.mixing, prec);
      else convert_c(H.h, g, st.p, gs, st.pole, prec, 0);
      std::printf("QF %d", k);
      if (api == 0) { Model f; convert_cpp(f, g, st.p, gs, st.pole, st.mixing, prec); }
      else { Handle F; F.h = gm2calc_mssmnofv_new(); convert_c(F.h, g, st.p, gs, st.pole, prec, 0); }
   }
}

int main() {
   std::streambuf* old = std::cerr.rdbuf(captured.rdbuf());
   std::string line;
   unsigned long n = 0;
   while (std::getline(std::cin, line)) {
      if (line.empty()) continue;
      std::istringstream in(line);
      std::string c;
      in >> c;
      captured.str("");
      if (c == "M") cmd_M(in, 0);
      else if (c == "MR") cmd_M(in, 1);
      else if (c == "MC") cmd_M(in, 2);
      else if (c == "MO") cmd_MO(in);
      else if (c == "T") cmd_T(in);
      else if (c == "C") cmd_C(in);
      else if (c == "Q") cmd_Q(in);
      else if (c == "CO") cmd_CO(in);
      else if (c == "CX") cmd_CX(in);
      else std::printf("ERR unknown command %s\n", oneline(c).c_str());
      n++;
   }
   std::printf("END %lu\n", n);
   std::cerr.rdbuf(old);
   return 0;
}
