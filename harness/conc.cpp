// conc: C19 explorer on the real library (cov build: libgm2calc.so with trace-pc-guard).
//   * serialising scheduler: real pthreads, futex hand-off, scheduling points = every
//     basic-block edge of library code (sancov callback) + interposed lock / static-guard waits
//   * iterative context bounding: default schedule, every 1-preemption schedule at every
//     point, 2-preemption schedules at visible points (static segment / shared model changed)
//   * history pass: explicit-state BFS over the byte image of the library's writable static
//     segment (restored with memcpy), every op from every state, results vs. initial state
// Usage:  conc <repo> history <depth>
//         conc <repo> sched <bound> <mode 0=full|1=reduced> <opA> <pA> <opB> <pB> [opC pC]
//         conc <repo> canary
//         conc <repo> replay <opA> <pA> <opB> <pB> <start> <k1> <t1> [<k2> <t2>]
//         conc <repo> info
#include "covsig.hpp"
#include "conc_ops.hpp"
#include <atomic>
#include <cfenv>
#include <cinttypes>
#include <cxxabi.h>
#include <cstdio>
#include <cstdlib>
#include <dlfcn.h>
#include <functional>
#include <link.h>
#include <linux/futex.h>
#include <map>
#include <pthread.h>
#include <set>
#include <sys/syscall.h>
#include <unistd.h>

namespace ops {
MSSMNoFV_onshell* shared_mssm[2]; MSSMNoFV_onshell* shared_edge[2]; THDM* shared_thdm[2]; std::string slha_text[5];
}
struct CanaryState { double scratch; int init; double memo; };
extern CanaryState canary_state;
double canary_race(double); double canary_memo(double);

// ---------------------------------------------------------------- monitored memory
struct Region { char* p; size_t n; };
static std::vector<Region> regions;         // library statics (+ canary state)
static uint32_t *guard_lo = nullptr, *guard_hi = nullptr;
static size_t tls_bytes = 0;

static void add_minus(char* lo, char* hi, std::vector<std::pair<char*, char*>> cuts) {
   std::sort(cuts.begin(), cuts.end());
   for (auto& c : cuts) { if (c.second <= lo || c.first >= hi) continue; if (c.first > lo) regions.push_back({lo, (size_t)(c.first - lo)}); lo = std::max(lo, c.second); }
   if (hi > lo) regions.push_back({lo, (size_t)(hi - lo)});
}
static int phdr_cb(struct dl_phdr_info* info, size_t, void*) {
   if (!info->dlpi_name || !std::strstr(info->dlpi_name, "libgm2calc")) return 0;
   std::vector<std::pair<char*, char*>> cuts;
   // RELRO pages are read-only after relocation (-z now): not state
   for (int i = 0; i < info->dlpi_phnum; i++) { const ElfW(Phdr)& ph = info->dlpi_phdr[i];
      if (ph.p_type == PT_GNU_RELRO) { char* a = (char*)(info->dlpi_addr + ph.p_vaddr); char* b = a + ph.p_memsz; b = (char*)(((uintptr_t)b + 4095) & ~(uintptr_t)4095); cuts.push_back({a, b}); } }
   for (int i = 0; i < info->dlpi_phnum; i++) {
      const ElfW(Phdr)& ph = info->dlpi_phdr[i];
      if (ph.p_type != PT_LOAD || !(ph.p_flags & PF_W)) continue;
      char* lo = (char*)(info->dlpi_addr + ph.p_vaddr); char* hi = lo + ph.p_memsz;
      // cut the coverage guard array (written by the instrumentation itself) out of the segment
      auto c2 = cuts;
      for (int k = 0; k < covsig::n_ranges; k++) { char* a = (char*)covsig::ranges[k].lo; char* b = (char*)covsig::ranges[k].hi; if (a >= lo && b <= hi) { c2.push_back({a, b}); guard_lo = covsig::ranges[k].lo; guard_hi = covsig::ranges[k].hi; } }
      add_minus(lo, hi, c2);
   }
   // thread-local storage of the library (block of the calling = main thread, where the history pass runs):
   // a `static thread_local` object keeps state between calls just as a plain static does
   if (info->dlpi_tls_data) for (int i = 0; i < info->dlpi_phnum; i++) { const ElfW(Phdr)& ph = info->dlpi_phdr[i];
      if (ph.p_type == PT_TLS && ph.p_memsz) { regions.push_back({(char*)info->dlpi_tls_data, (size_t)ph.p_memsz}); tls_bytes += ph.p_memsz; } }
   return 0;
}
static void find_regions() {
   regions.clear();
   dl_iterate_phdr(phdr_cb, nullptr);
   regions.push_back({(char*)&canary_state, sizeof canary_state});
}
typedef std::vector<char> Image;
// the image ends with the floating-point environment of the calling thread (rounding mode and the STICKY status
// flags): code that consults fetestexcept() without clearing first makes a result depend on earlier evaluations
static Image snap() { Image im; for (auto& r : regions) im.insert(im.end(), r.p, r.p + r.n);
   fenv_t fe; std::memset(&fe, 0, sizeof fe); fegetenv(&fe); int ex = fetestexcept(FE_ALL_EXCEPT), rm = fegetround();
   im.insert(im.end(), (char*)&ex, (char*)&ex + sizeof ex); im.insert(im.end(), (char*)&rm, (char*)&rm + sizeof rm); return im; }
static void restore(const Image& im) { size_t o = 0; for (auto& r : regions) { std::memcpy(r.p, im.data() + o, r.n); o += r.n; }
   int ex, rm; std::memcpy(&ex, im.data() + o, sizeof ex); std::memcpy(&rm, im.data() + o + sizeof ex, sizeof rm);
   feclearexcept(FE_ALL_EXCEPT); if (ex) feraiseexcept(ex); fesetround(rm); }
static uint64_t fnv(const char* p, size_t n, uint64_t h = 1469598103934665603ull) { for (size_t i = 0; i < n; i++) { h ^= (unsigned char)p[i]; h *= 1099511628211ull; } return h; }
static uint64_t hash_regions() { uint64_t h = 1469598103934665603ull; for (auto& r : regions) h = fnv(r.p, r.n, h); return h; }
static Image shared_bytes() {
   Image im;
   for (int p = 0; p < 2; p++) {
      im.insert(im.end(), (char*)ops::shared_mssm[p], (char*)ops::shared_mssm[p] + sizeof(gm2calc::MSSMNoFV_onshell));
      im.insert(im.end(), (char*)ops::shared_thdm[p], (char*)ops::shared_thdm[p] + sizeof(gm2calc::THDM));
   }
   for (int p = 0; p < 2; p++) im.insert(im.end(), (char*)ops::shared_edge[p], (char*)ops::shared_edge[p] + sizeof(gm2calc::MSSMNoFV_onshell));
   return im;
}
static uint64_t hash_shared() {
   uint64_t h = 1469598103934665603ull;
   for (int p = 0; p < 2; p++) { h = fnv((const char*)ops::shared_mssm[p], sizeof(gm2calc::MSSMNoFV_onshell), h); h = fnv((const char*)ops::shared_thdm[p], sizeof(gm2calc::THDM), h); }
   for (int p = 0; p < 2; p++) h = fnv((const char*)ops::shared_edge[p], sizeof(gm2calc::MSSMNoFV_onshell), h);
   return h;
}
static std::string shared_text() { return ops::deep(*ops::shared_mssm[0]) + ops::deep(*ops::shared_mssm[1]) + ops::deep(*ops::shared_thdm[0]) + ops::deep(*ops::shared_thdm[1]) + ops::deep(*ops::shared_edge[0]) + ops::deep(*ops::shared_edge[1]); }

// ---------------------------------------------------------------- scheduler
static const int MAXT = 3;
struct Th { std::atomic<int> go{0}; bool done = false; long steps = 0; };
static Th th[MAXT]; static int nth = 0; static thread_local int me = -1; static bool active = false;
static std::vector<std::pair<long, int>> plan; static size_t planpos = 0; static long gstep = 0;
static std::atomic<int> main_go{0};
static int order[MAXT] = {0, 1, 2};
static bool track = false; static uint64_t last_hash = 0, last_shash = 0;
static std::vector<char> vis;        // per global step (track mode): 1 if shared state changed since previous point
static std::vector<char> owner;
static bool deadlock = false;

static void fwait(std::atomic<int>& a) { while (a.load(std::memory_order_acquire) == 0) syscall(SYS_futex, (int*)&a, FUTEX_WAIT, 0, nullptr, nullptr, 0); a.store(0, std::memory_order_relaxed); }
static void fwake(std::atomic<int>& a) { a.store(1, std::memory_order_release); syscall(SYS_futex, (int*)&a, FUTEX_WAKE, 1, nullptr, nullptr, 0); }
static int next_runnable(int except) { for (int k = 0; k < nth; k++) { int j = order[k]; if (j != except && !th[j].done) return j; } return -1; }
static void switch_to(int j) { int self = me; fwake(th[j].go); fwait(th[self].go); }
static void sched_point(bool lock_op) {
   if (!active || me < 0) return;
   th[me].steps++; long s = gstep++;
   if (track) {
      uint64_t h = hash_regions(), sh = hash_shared();
      vis.push_back((h != last_hash || sh != last_shash || lock_op) ? 1 : 0); owner.push_back((char)me);
      last_hash = h; last_shash = sh;
   }
   if (planpos < plan.size() && plan[planpos].first == s) {
      int j = plan[planpos].second; planpos++;
      if (j != me && j < nth && !th[j].done) switch_to(j);
   }
}
static void hook(uint32_t) { sched_point(false); }
// a thread that cannot proceed (lock or static guard held by a preempted thread) hands off
static void yield_blocked() {
   if (!active || me < 0) { sched_yield(); return; }
   int j = next_runnable(me);
   if (j < 0) { deadlock = true; std::printf("DEADLOCK thread %d blocked with no runnable thread\n", me); std::fflush(stdout); _exit(3); }
   switch_to(j);
}
static std::function<void()> body[MAXT];
static void* trampoline(void* p) {
   int i = (int)(intptr_t)p; me = i; fwait(th[i].go); body[i](); th[i].done = true;
   int j = next_runnable(i); if (j >= 0) fwake(th[j].go); else fwake(main_go); return nullptr;
}
static long run_threads(int n, int start, const std::vector<std::pair<long, int>>& pl) {
   nth = n; plan = pl; planpos = 0; gstep = 0; pthread_t t[MAXT];
   for (int i = 0; i < n; i++) { th[i].done = false; th[i].steps = 0; th[i].go = 0; }
   main_go = 0; active = true;
   for (int i = 0; i < n; i++) pthread_create(&t[i], nullptr, trampoline, (void*)(intptr_t)i);
   fwake(th[start].go); fwait(main_go);
   for (int i = 0; i < n; i++) pthread_join(t[i], nullptr);
   active = false; return gstep;
}

// yield-aware interposition: locks and function-local static guards
extern "C" int pthread_mutex_lock(pthread_mutex_t* m) {
   static int (*real_try)(pthread_mutex_t*) = (int (*)(pthread_mutex_t*))dlsym(RTLD_NEXT, "pthread_mutex_trylock");
   static int (*real_lock)(pthread_mutex_t*) = (int (*)(pthread_mutex_t*))dlsym(RTLD_NEXT, "pthread_mutex_lock");
   if (!active || me < 0) return real_lock(m);
   sched_point(true);
   for (;;) { int rc = real_try(m); if (rc != EBUSY) return rc; yield_blocked(); }
}
extern "C" int __cxa_guard_acquire(__cxxabiv1::__guard* g) { char* p = (char*)g; for (;;) { if (p[0]) return 0; if (!p[1]) { p[1] = 1; return 1; } yield_blocked(); } }
extern "C" void __cxa_guard_release(__cxxabiv1::__guard* g) noexcept { char* p = (char*)g; p[0] = 1; p[1] = 0; }
extern "C" void __cxa_guard_abort(__cxxabiv1::__guard* g) noexcept { ((char*)g)[1] = 0; }

// ---------------------------------------------------------------- ops incl. canaries
struct AnyOp { std::string name; std::function<void(int, ops::Res&)> fn; };
static std::vector<AnyOp> all_ops;
static void init_ops() {
   for (int i = 0; i < ops::NOPS; i++) all_ops.push_back({ops::OPS[i].name, ops::OPS[i].fn});
   all_ops.push_back({"CANARY_race", [](int p, ops::Res& r) { r.v.push_back(canary_race(p ? 2.0 : 1.0)); }});
   all_ops.push_back({"CANARY_memo", [](int p, ops::Res& r) { r.v.push_back(canary_memo(p ? 3.0 : 2.0)); }});
}
static Image initial; static Image shared0; static std::string shared_text0;

static ops::Res run_alone(int op, int p) { restore(initial); ops::Res r; all_ops[op].fn(p, r); return r; }

static std::string plan_str(int start, const std::vector<std::pair<long, int>>& pl) {
   std::string s = "start=" + std::to_string(start); for (auto& e : pl) s += " preempt@" + std::to_string(e.first) + "->T" + std::to_string(e.second); return s;
}

struct Exec { ops::Res r[MAXT]; bool shared_changed; long steps; };
static Exec execute(int n, const int* op, const int* ps, int start, const std::vector<std::pair<long, int>>& pl) {
   Exec e; restore(initial);
   for (int i = 0; i < n; i++) { int o = op[i], p = ps[i]; ops::Res* rp = &e.r[i]; body[i] = [o, p, rp] { all_ops[o].fn(p, *rp); }; }
   e.steps = run_threads(n, start, pl);
   Image sb = shared_bytes(); e.shared_changed = (sb != shared0);
   if (e.shared_changed) { size_t o = 0; for (int p = 0; p < 2; p++) { std::memcpy((char*)ops::shared_mssm[p], shared0.data() + o, sizeof(gm2calc::MSSMNoFV_onshell)); o += sizeof(gm2calc::MSSMNoFV_onshell); std::memcpy((char*)ops::shared_thdm[p], shared0.data() + o, sizeof(gm2calc::THDM)); o += sizeof(gm2calc::THDM); }
      for (int p = 0; p < 2; p++) { std::memcpy((char*)ops::shared_edge[p], shared0.data() + o, sizeof(gm2calc::MSSMNoFV_onshell)); o += sizeof(gm2calc::MSSMNoFV_onshell); } }
   return e;
}

static long n_sched = 0, n_fail = 0;
static std::set<std::string> outcomes;
static bool check_exec(int n, const int* op, const int* ps, const ops::Res* ref, int start, const std::vector<std::pair<long, int>>& pl) {
   Exec e = execute(n, op, ps, start, pl); n_sched++;
   std::string why; std::string oc;
   for (int i = 0; i < n; i++) { if (!e.r[i].same(ref[i])) why += " T" + std::to_string(i) + "(" + all_ops[op[i]].name + "): " + e.r[i].diff(ref[i]) + ";"; oc += std::to_string(fnv((const char*)e.r[i].v.data(), e.r[i].v.size() * 8)) + ","; }
   if (e.shared_changed) why += " shared model bytes changed;";
   outcomes.insert(oc);
   if (why.empty()) return true;
   // replay the same schedule: observation must be identical, otherwise the harness is not deterministic
   Exec e2 = execute(n, op, ps, start, pl);
   for (int i = 0; i < n; i++) if (!e2.r[i].same(e.r[i])) { std::printf("REPLAY-DIVERGED %s\n", plan_str(start, pl).c_str()); std::fflush(stdout); _exit(2); }
   n_fail++;
   if (n_fail <= 5) std::printf("FAIL %s |%s\n", plan_str(start, pl).c_str(), why.c_str());
   return false;
}

// mode 2 = visible-only: preemptions only at visible points (+- 1) of the first thread
// mode 0 = full: one preemption at EVERY scheduling point of the first thread (no reduction argument needed)
// mode 1 = reduced: if no other thread ever writes monitored memory (profiled in every start order), two
//          preemption points of the first thread between which it does not write monitored memory are
//          equivalent (the other threads read the same state and write nothing it could read); one
//          representative per interval + every visible point and its predecessor are explored.
static int explore(int n, const int* op, const int* ps, int bound, int mode, bool quiet = false) {
   ops::Res ref[MAXT];
   for (int i = 0; i < n; i++) ref[i] = run_alone(op[i], ps[i]);
   n_sched = n_fail = 0; outcomes.clear();
   long nvis_total = 0, steps_total = 0, points_explored = 0;
   int perm[MAXT] = {0, 1, 2}; std::vector<std::vector<int>> perms;
   std::sort(perm, perm + n); do { perms.push_back(std::vector<int>(perm, perm + n)); } while (std::next_permutation(perm, perm + n));
   // pre-pass: which threads write monitored memory at all (any start order)?
   bool writes[MAXT] = {false, false, false};
   std::vector<std::vector<char>> pv(perms.size()), po(perms.size());
   for (size_t pi = 0; pi < perms.size(); pi++) {
      auto& pm = perms[pi]; for (int i = 0; i < n; i++) order[i] = pm[i];
      restore(initial); last_hash = hash_regions(); last_shash = hash_shared();
      track = true; vis.clear(); owner.clear(); execute(n, op, ps, pm[0], {}); track = false;
      pv[pi] = vis; po[pi] = owner;
      for (size_t s = 0; s < vis.size(); s++) if (vis[s]) writes[(int)owner[s]] = true;
   }
   for (size_t pi = 0; pi < perms.size(); pi++) {
      auto& pm = perms[pi]; for (int i = 0; i < n; i++) order[i] = pm[i];
      int start = pm[0];
      std::vector<char>& v = pv[pi]; std::vector<char>& ow = po[pi];
      check_exec(n, op, ps, ref, start, {});   // the default schedule itself
      long total = (long)v.size();
      long n0 = 0; for (long s = 0; s < total && ow[s] == start; s++) n0++;   // points of the first thread
      steps_total += n0; for (long s = 0; s < n0; s++) nvis_total += v[s];
      bool others_write = false; for (int t = 1; t < n; t++) others_write = others_write || writes[pm[t]];
      std::vector<long> ks;
      if (mode == 0 || (mode == 1 && others_write)) { for (long k = 0; k < n0; k++) ks.push_back(k); }
      else { for (long k = 0; k < n0; k++) if (k == 0 || v[k] || (k + 1 < n0 && v[k + 1]) || v[k - 1]) ks.push_back(k); if (n0 > 1) ks.push_back(n0 - 1); }
      points_explored += (long)ks.size();
      // bound 1: preempt the first thread at the selected points, switch to each other thread
      for (long k : ks) { if (n_fail >= 3) break; for (int t = 1; t < n; t++) check_exec(n, op, ps, ref, start, {{k, pm[t]}}); }
      if (bound >= 2 && n == 2) {
         // bound 2 at visible points: first preemption at a visible point of the first thread (or its
         // predecessor), second preemption at the visible points of the second thread
         std::vector<long> va; for (long k = 0; k < n0; k++) if (v[k] || (k + 1 < n0 && v[k + 1])) va.push_back(k);
         for (long k1 : va) {
            if (n_fail >= 3) break;
            restore(initial); last_hash = hash_regions(); last_shash = hash_shared();
            track = true; vis.clear(); owner.clear(); execute(n, op, ps, start, {{k1, pm[1]}}); track = false;
            std::vector<char> v2 = vis, o2 = owner;
            for (long s = k1; s < (long)v2.size() && o2[s] == pm[1]; s++)
               if (v2[s] || (s + 1 < (long)v2.size() && v2[s + 1])) check_exec(n, op, ps, ref, start, {{k1, pm[1]}, {s, start}});
         }
      }
   }
   if (!quiet) {
      std::printf("EXPLORED threads=%d bound=%d mode=%s ops=", n, bound, mode ? "reduced" : "full");
      for (int i = 0; i < n; i++) std::printf("%s[%d]%s", all_ops[op[i]].name.c_str(), ps[i], i + 1 < n ? "," : "");
      std::printf(" points=%ld explored_points=%ld visible_points=%ld writers=%d%d%d schedules=%ld outcomes=%zu failures=%ld\n", steps_total, points_explored, nvis_total, writes[0], writes[1], writes[2], n_sched, outcomes.size(), n_fail);
   }
   return (int)n_fail;
}

// ---------------------------------------------------------------- history BFS
static int history(int depth) {
   const int NP = 2; int nops = (int)all_ops.size();
   std::vector<std::vector<ops::Res>> ref(nops, std::vector<ops::Res>(NP));
   for (int o = 0; o < nops; o++) for (int p = 0; p < NP; p++) ref[o][p] = run_alone(o, p);
   std::map<uint64_t, Image> states; std::vector<std::pair<uint64_t, int>> frontier; std::map<uint64_t, std::string> how;
   uint64_t h0 = fnv(initial.data(), initial.size()); states[h0] = initial; frontier.push_back({h0, 0}); how[h0] = "";
   long transitions = 0, fails = 0, canary_fails = 0, real_states = 1; bool capped = false;
   for (size_t qi = 0; qi < frontier.size(); qi++) {
      uint64_t h = frontier[qi].first; int d = frontier[qi].second;
      for (int o = 0; o < nops; o++) for (int p = 0; p < NP; p++) {
         const Image& img = states[h]; restore(img);
         ops::Res r; all_ops[o].fn(p, r); transitions++;
         bool is_canary = all_ops[o].name.rfind("CANARY", 0) == 0;
         bool ok = r.same(ref[o][p]);
         Image sb = shared_bytes(); bool sh_ok = (sb == shared0) && (shared_text() == shared_text0);
         if (!ok || !sh_ok) {
            if (is_canary) canary_fails++;
            else { fails++; if (fails <= 5) std::printf("HFAIL after [%s] op %s[%d]: %s%s\n", how[h].c_str(), all_ops[o].name.c_str(), p, ok ? "" : r.diff(ref[o][p]).c_str(), sh_ok ? "" : " shared model changed"); }
         }
         Image ni = snap(); uint64_t nh = fnv(ni.data(), ni.size());
         if (!states.count(nh)) {
            if (states.size() >= 4000) { capped = true; continue; }
            states[nh] = ni; how[nh] = how[h] + (how[h].empty() ? "" : " ") + all_ops[o].name + "[" + std::to_string(p) + "]";
            bool via_canary = how[nh].find("CANARY") != std::string::npos; if (!via_canary) real_states++;
            if (d + 1 < depth) frontier.push_back({nh, d + 1});
         }
      }
   }
   std::printf("HISTORY depth=%d states=%zu library_states=%ld transitions=%ld failures=%ld canary_failures=%ld capped=%d segment_bytes=%zu\n",
               depth, states.size(), real_states, transitions, fails, canary_fails, capped ? 1 : 0, initial.size());
   for (auto& s : how) if (!s.second.empty() && s.second.find("CANARY") == std::string::npos) std::printf("LIBSTATE via %s\n", s.second.c_str());
   return (int)fails;
}

int main(int argc, char** argv) {
   if (argc < 3) { std::fprintf(stderr, "usage\n"); return 2; }
   std::string repo = argv[1], cmd = argv[2];
   covsig::recording = false;
   // pristine image of the static segment, taken before ANY library call: constructing the shared models
   // below already runs one-time initialisation of function-local statics; the image is put back afterwards
   // so that "initial" really is the state of a fresh process (a static frozen at its first use must show
   // up as history dependence, also when the shared models were built from parameter set 0)
   find_regions();
   Image pristine = snap();
   ops::init_shared(repo); init_ops();
   restore(pristine);
   // warm-up: one sequential pass over all library ops so that lazy one-time initialisation
   // (iostream locale facets etc. outside the library) does not show up as thread interaction
   // CONC_WARM=1: run every library op once first, so that one-time initialisation of function-local
   // statics has happened ("warm" image); the cold image is explored separately.
   if (std::getenv("CONC_WARM") && std::atoi(std::getenv("CONC_WARM"))) {
      for (size_t o = 0; o < all_ops.size(); o++) if (all_ops[o].name.rfind("CANARY", 0) != 0) for (int p = 0; p < 2; p++) { ops::Res r; all_ops[o].fn(p, r); }
   }
   initial = snap(); shared0 = shared_bytes(); shared_text0 = shared_text();
   covsig::hook = hook;
   if (cmd == "info") {
      size_t tot = 0; for (auto& r : regions) tot += r.n;
      std::printf("INFO guards=%u guard_array=%zu regions=%zu monitored_bytes=%zu tls_bytes=%zu ops=%zu\n", covsig::n_guards, (size_t)((char*)guard_hi - (char*)guard_lo), regions.size(), tot, tls_bytes, all_ops.size());
      for (size_t i = 0; i < all_ops.size(); i++) std::printf("OP %zu %s\n", i, all_ops[i].name.c_str());
      return 0;
   }
   if (cmd == "history") { int f = history(std::atoi(argv[3])); std::fflush(stdout); _exit(f ? 1 : 0); }   // no static/thread_local destructors on restored images
   if (cmd == "canary") {
      int op[2], ps[2] = {0, 1}; for (size_t i = 0; i < all_ops.size(); i++) if (all_ops[i].name == "CANARY_race") op[0] = op[1] = (int)i;
      int f = explore(2, op, ps, 2, 1);
      std::printf("CANARY %s\n", f > 0 ? "detected" : "MISSED"); return f > 0 ? 0 : 2;
   }
   if (cmd == "sched") {
      // sched <bound> <mode> <opA> <pA> <opB> <pB> [<opC> <pC>]
      int bound = std::atoi(argv[3]), mode = std::atoi(argv[4]);
      int n = (argc - 5) / 2; int op[MAXT], ps[MAXT];
      for (int i = 0; i < n; i++) { op[i] = std::atoi(argv[5 + 2 * i]); ps[i] = std::atoi(argv[6 + 2 * i]); }
      return explore(n, op, ps, bound, mode) ? 1 : 0;
   }
   if (cmd == "replay") {
      int op[2] = {std::atoi(argv[3]), std::atoi(argv[5])}, ps[2] = {std::atoi(argv[4]), std::atoi(argv[6])}; int start = std::atoi(argv[7]);
      std::vector<std::pair<long, int>> pl; for (int a = 8; a + 1 < argc; a += 2) pl.push_back({std::atol(argv[a]), std::atoi(argv[a + 1])});
      ops::Res ref[2] = {run_alone(op[0], ps[0]), run_alone(op[1], ps[1])}; order[0] = start; order[1] = 1 - start;
      bool ok = check_exec(2, op, ps, ref, start, pl); std::printf("REPLAY %s\n", ok ? "ok" : "fails"); return ok ? 0 : 1;
   }
   return 2;
}
