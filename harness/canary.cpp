// Deliberately impure functions, instrumented like the library.  Every run of the
// C19 machinery must find their bad schedule / history / race; otherwise the run is
// reported as an infrastructure error (keeps "nothing found" from being vacuous).
#include <cmath>
struct CanaryState { double scratch; int init; double memo; };
CanaryState canary_state = {0, 0, 0};   // externally visible on purpose (TSan must see it)

double canary_race(double x)
{
   canary_state.scratch = x;             // static scratch buffer: write ...
   double s = 0;
   for (int i = 0; i < 4; i++) {
      if (s >= 0) { s += std::sqrt(canary_state.scratch + i); }   // ... read back later
   }
   return s;
}

double canary_memo(double x)
{
   if (!canary_state.init) {             // unkeyed memoisation: history dependent
      canary_state.memo = x * x + 1;
      canary_state.init = 1;
   }
   return canary_state.memo;
}
