// cli_mirror: fills the model objects exactly the way gm2calc.x does (GM2_slha_io::fill,
// fill_slha / fill_gm2calc / fill(SM, Mass_basis, Gauge_basis)) and dumps EVERY parameter that
// the reader can set, without running any conversion or calculation afterwards (C13).
//
// Protocol (stdin):   F <fmt> <nbytes>\n<nbytes bytes of file content>      fmt: slha | gm2calc | thdm
//                     R <fmt> <nbytes>\n<bytes>     same, but through ONE GM2_slha_io object that lives as long as the
//                                                   process and is re-used for every R case via read_from_file()
//                                                   (the API's way to re-use an object: it clears the old content)
//                     D <fmt> 0                      no file at all: dump of the default-constructed objects (what a parameter is
//                                                   when no key sets it), same names as for F
// Any number of cases per process: every F case uses a fresh GM2_slha_io, every case fresh model objects, so the
// dump of a file must not depend on what the process read before (the driver compares with one-file processes).
// Output per case:    BEGIN <fmt>
//                     <name> <C99 hex float>          one line per parameter
//                     EXC <stage> <class> <what>      if a fill stage threw (the stage's dump is omitted)
//                     END
// Nothing is enumerated here; the driver sends the files.
#include "gm2_slha_io.hpp"
#include "gm2_config_options.hpp"
#include "gm2calc/MSSMNoFV_onshell.hpp"
#include "gm2calc/SM.hpp"
#include "gm2calc/THDM.hpp"
#include "gm2calc/gm2_error.hpp"

#include <cstdio>
#include <cstdlib>
#include <cstring>
#include <iostream>
#include <sstream>
#include <string>
#include <typeinfo>
#include <unistd.h>

using namespace gm2calc;

static void P(const std::string& n, double v) { std::printf("%s %a\n", n.c_str(), v); }

template <class M>
static void PM(const std::string& n, const M& m)
{
   for (int i = 0; i < m.rows(); ++i) {
      for (int k = 0; k < m.cols(); ++k) {
         if (m.cols() == 1) {
            P(n + std::to_string(i), m(i, k));
         } else {
            P(n + std::to_string(i) + std::to_string(k), m(i, k));
         }
      }
   }
}

template <class M>
static void PC(const std::string& n, const M& m)
{
   for (int i = 0; i < m.rows(); ++i) {
      for (int k = 0; k < m.cols(); ++k) {
         P(n + std::to_string(i) + std::to_string(k) + ".re", m(i, k).real());
         P(n + std::to_string(i) + std::to_string(k) + ".im", m(i, k).imag());
      }
   }
}

static const char* cls(const std::exception& e)
{
   if (dynamic_cast<const EReadError*>(&e)) return "EReadError";
   if (dynamic_cast<const EInvalidInput*>(&e)) return "EInvalidInput";
   if (dynamic_cast<const ESetupError*>(&e)) return "ESetupError";
   if (dynamic_cast<const EPhysicalProblem*>(&e)) return "EPhysicalProblem";
   if (dynamic_cast<const Error*>(&e)) return "Error";
   return "std::exception";
}

static void exc(const char* stage, const std::exception& e)
{
   std::string w = e.what();
   for (auto& c : w) if (c == '\n') c = ' ';
   std::printf("EXC %s %s %s\n", stage, cls(e), w.c_str());
}

static void dump_config(const Config_options& c)
{
   P("cfg.output_format", static_cast<double>(static_cast<unsigned>(c.output_format)));
   P("cfg.loop_order", c.loop_order);
   P("cfg.tanb_resummation", c.tanb_resummation);
   P("cfg.force_output", c.force_output);
   P("cfg.verbose_output", c.verbose_output);
   P("cfg.calculate_uncertainty", c.calculate_uncertainty);
   P("cfg.running_couplings", c.running_couplings);
}

static void dump_mssm(MSSMNoFV_onshell& m)
{
   P("scale", m.get_scale());
   P("g1", m.get_g1()); P("g2", m.get_g2()); P("g3", m.get_g3());
   P("vd", m.get_vd()); P("vu", m.get_vu());
   P("TB", m.get_vd() != 0 ? m.get_vu() / m.get_vd() : std::nan(""));
   P("Mu", m.get_Mu()); P("BMu", m.get_BMu());
   P("MassB", m.get_MassB()); P("MassWB", m.get_MassWB()); P("MassG", m.get_MassG());
   P("mHd2", m.get_mHd2()); P("mHu2", m.get_mHu2());
   PM("Yd", m.get_Yd()); PM("Ye", m.get_Ye()); PM("Yu", m.get_Yu());
   PM("TYd", m.get_TYd()); PM("TYe", m.get_TYe()); PM("TYu", m.get_TYu());
   PM("mq2_", m.get_mq2()); PM("ml2_", m.get_ml2()); PM("md2_", m.get_md2());
   PM("mu2_", m.get_mu2()); PM("me2_", m.get_me2());
   PM("Ae", m.Ae); PM("Au", m.Au); PM("Ad", m.Ad);
   P("EL", m.EL); P("EL0", m.EL0); P("mb_DRbar_MZ", m.mb_DRbar_MZ);
   const MSSMNoFV_onshell_physical& p = m.get_physical();
   P("MVG", p.MVG); P("MGlu", p.MGlu); P("MVP", p.MVP); P("MVZ", p.MVZ); P("MVWm", p.MVWm);
   P("MFd", p.MFd); P("MFs", p.MFs); P("MFb", p.MFb); P("MFu", p.MFu); P("MFc", p.MFc); P("MFt", p.MFt);
   P("MFve", p.MFve); P("MFvm", p.MFvm); P("MFvt", p.MFvt); P("MFe", p.MFe); P("MFm", p.MFm); P("MFtau", p.MFtau);
   P("MSveL", p.MSveL); P("MSvmL", p.MSvmL); P("MSvtL", p.MSvtL);
   PM("MSd", p.MSd); PM("MSu", p.MSu); PM("MSe", p.MSe); PM("MSm", p.MSm); PM("MStau", p.MStau);
   PM("MSs", p.MSs); PM("MSc", p.MSc); PM("MSb", p.MSb); PM("MSt", p.MSt);
   PM("Mhh", p.Mhh); PM("MAh", p.MAh); PM("MHpm", p.MHpm); PM("MChi", p.MChi); PM("MCha", p.MCha);
   PM("ZD", p.ZD); PM("ZU", p.ZU); PM("ZE", p.ZE); PM("ZM", p.ZM); PM("ZTau", p.ZTau);
   PM("ZS", p.ZS); PM("ZC", p.ZC); PM("ZB", p.ZB); PM("ZT", p.ZT); PM("ZH", p.ZH); PM("ZA", p.ZA); PM("ZP", p.ZP);
   PC("ZN", p.ZN); PC("UM", p.UM); PC("UP", p.UP);
}

static void dump_sm(const SM& s)
{
   P("sm.alpha_em_0", s.alpha_em_0); P("sm.alpha_em_mz", s.alpha_em_mz); P("sm.alpha_s_mz", s.alpha_s_mz);
   P("sm.mh", s.mh); P("sm.mw", s.mw); P("sm.mz", s.mz);
   PM("sm.mu", s.mu); PM("sm.md", s.md); PM("sm.mv", s.mv); PM("sm.ml", s.ml);
   PC("sm.ckm", s.ckm);
}

template <class B>
static void dump_basis_common(const std::string& n, const B& b)
{
   P(n + "yukawa_type", static_cast<double>(static_cast<int>(b.yukawa_type)));
   P(n + "tan_beta", b.tan_beta); P(n + "m122", b.m122);
   P(n + "zeta_u", b.zeta_u); P(n + "zeta_d", b.zeta_d); P(n + "zeta_l", b.zeta_l);
   PM(n + "Delta_u", b.Delta_u); PM(n + "Delta_d", b.Delta_d); PM(n + "Delta_l", b.Delta_l);
   PM(n + "Pi_u", b.Pi_u); PM(n + "Pi_d", b.Pi_d); PM(n + "Pi_l", b.Pi_l);
}

static void do_case(const std::string& fmt, const std::string& content, bool reuse)
{
   static GM2_slha_io shared;       // R cases: one reader object for the whole process
   GM2_slha_io fresh;               // F cases: a new reader object per file
   GM2_slha_io& io = reuse ? shared : fresh;
   std::printf("BEGIN %s\n", fmt.c_str());
   try {
      if (reuse) {
         char path[] = "/var/tmp/cli_mirror_XXXXXX";
         const int fd = mkstemp(path);
         if (fd < 0) { std::printf("EXC read std::exception mkstemp-failed\nEND\n"); return; }
         size_t off = 0;
         while (off < content.size()) {
            const ssize_t w = write(fd, content.data() + off, content.size() - off);
            if (w <= 0) break;
            off += static_cast<size_t>(w);
         }
         close(fd);
         try { io.read_from_file(path); } catch (...) { unlink(path); throw; }
         unlink(path);
      } else {
         std::istringstream is(content);
         io.read_from_stream(is);
      }
   } catch (const std::exception& e) {
      exc("read", e);
      std::printf("END\n");
      return;
   }
   {
      // the defaults the program chooses before reading the block (gm2calc.cpp set_to_default)
      Config_options c;
      c.output_format = fmt == "gm2calc" ? Config_options::Detailed : Config_options::GM2Calc;
      try { io.fill(c); dump_config(c); } catch (const std::exception& e) { exc("config", e); }
   }
   if (fmt == "slha" || fmt == "gm2calc") {
      MSSMNoFV_onshell m;
      try {
         if (fmt == "slha") io.fill_slha(m); else io.fill_gm2calc(m);
         dump_mssm(m);
      } catch (const std::exception& e) { exc("model", e); }
   } else if (fmt == "thdm") {
      { SM sm; try { io.fill(sm); dump_sm(sm); } catch (const std::exception& e) { exc("sm", e); } }
      { thdm::Mass_basis b;
        try {
           io.fill(b);
           P("mb.mh", b.mh); P("mb.mH", b.mH); P("mb.mA", b.mA); P("mb.mHp", b.mHp);
           P("mb.sin_beta_minus_alpha", b.sin_beta_minus_alpha);
           P("mb.lambda_6", b.lambda_6); P("mb.lambda_7", b.lambda_7);
           dump_basis_common("mb.", b);
        } catch (const std::exception& e) { exc("mass_basis", e); } }
      { thdm::Gauge_basis b;
        try {
           io.fill(b);
           PM("gb.lambda", b.lambda);
           dump_basis_common("gb.", b);
        } catch (const std::exception& e) { exc("gauge_basis", e); } }
   } else {
      std::printf("EXC proto Error unknown-format\n");
   }
   std::printf("END\n");
}

static void dump_bases(const thdm::Mass_basis& b, const thdm::Gauge_basis& g)
{
   P("mb.mh", b.mh); P("mb.mH", b.mH); P("mb.mA", b.mA); P("mb.mHp", b.mHp);
   P("mb.sin_beta_minus_alpha", b.sin_beta_minus_alpha);
   P("mb.lambda_6", b.lambda_6); P("mb.lambda_7", b.lambda_7);
   dump_basis_common("mb.", b);
   PM("gb.lambda", g.lambda);
   dump_basis_common("gb.", g);
}

static void do_default(const std::string& fmt)
{
   std::printf("BEGIN %s\n", fmt.c_str());
   Config_options c;
   c.output_format = fmt == "gm2calc" ? Config_options::Detailed : Config_options::GM2Calc;
   dump_config(c);
   if (fmt == "thdm") {
      SM sm; dump_sm(sm);
      thdm::Mass_basis b; thdm::Gauge_basis g; dump_bases(b, g);
   } else {
      MSSMNoFV_onshell m; dump_mssm(m);
   }
   std::printf("END\n");
}

int main()
{
   std::string line;
   unsigned long ncases = 0;
   while (std::getline(std::cin, line)) {
      if (line.empty()) continue;
      std::istringstream ls(line);
      std::string cmd, fmt;
      size_t n = 0;
      ls >> cmd >> fmt >> n;
      if (cmd == "D") { do_default(fmt); ++ncases; continue; }
      if (cmd != "F" && cmd != "R") { std::printf("PROTO-ERROR %s\n", line.c_str()); return 3; }
      std::string content(n, '\0');
      std::cin.read(&content[0], static_cast<std::streamsize>(n));
      if (static_cast<size_t>(std::cin.gcount()) != n) { std::printf("PROTO-ERROR short read\n"); return 3; }
      do_case(fmt, content, cmd == "R");
      ++ncases;
   }
   std::printf("DONE %lu\n", ncases);
   std::fflush(stdout);
   return 0;
}
