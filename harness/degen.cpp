// degen: C11 path explorer.  Evaluates all a_mu contributions and uncertainties of a THDM
// (mass basis) or MSSM (GM2Calc-type, on-shell input) point and reports the branch-path
// signature of the whole evaluation.
//   T <id> mh mH mA mHp sba l6 l7 tb m122 ytype mhSM running   -> R <id> OK n v.. | S sig   or  R <id> EXC what
//   M <id> tb mu M1 M2 M3 MA mL1 mL2 mL3 mE1 mE2 mE3 mQ1 mQ2 mQ3 mU1 mU2 mU3 mD1 mD2 mD3 Amu Atau At Ab Q
//   LT <id> <W> <index of moving THDM parameter> <12 params> <n> t1..tn   : line refinement along one parameter
//   LM <id> <W> <index of moving MSSM parameter> <26 params> <n> t1..tn
// THDM values: 1L 2L 2LF 2LB unc0 unc1 unc2 | masses mh mH mA mHp mW mZ mhSM mt mb mtau mmu
// MSSM values: 1L 2L 2LFSf 2LphotChipm 2LphotChi0 2LaSferm 2LaCha unc0 unc1 unc2 1Lchi0 1Lchipm |
//              masses MChi(4) MCha(2) MSm(2) MSvm MSt(2) MSb(2) MStau(2) Mhh(2) MAh MHpm MZ MW Q problems(0/1)
#include "covsig.hpp"
#include "gm2calc/MSSMNoFV_onshell.hpp"
#include "gm2calc/THDM.hpp"
#include "gm2calc/SM.hpp"
#include "gm2calc/gm2_1loop.hpp"
#include "gm2calc/gm2_2loop.hpp"
#include "gm2calc/gm2_uncertainty.hpp"
#include "gm2calc/gm2_error.hpp"
#include <algorithm>
#include <cinttypes>
#include <cmath>
#include <cstdio>
#include <cstdlib>
#include <cstring>
#include <fcntl.h>
#include <iostream>
#include <string>
#include <unistd.h>
#include <vector>
using namespace gm2calc;

static double rd() { std::string s; if (!(std::cin >> s)) std::exit(3); return std::strtod(s.c_str(), nullptr); }
static int64_t ord(double x) { int64_t i; std::memcpy(&i, &x, 8); return i < 0 ? INT64_MIN - i : i; }
static double fromord(int64_t i) { if (i < 0) i = INT64_MIN - i; double x; std::memcpy(&x, &i, 8); return x; }

struct Out { bool ok = true; std::string exc; std::vector<double> v; uint64_t sig = 0; };

static Out eval_thdm(const double* p) {
   Out o; covsig::reset();
   try {
      thdm::Mass_basis b; b.mh = p[0]; b.mH = p[1]; b.mA = p[2]; b.mHp = p[3]; b.sin_beta_minus_alpha = p[4]; b.lambda_6 = p[5]; b.lambda_7 = p[6];
      b.tan_beta = p[7]; b.m122 = p[8]; b.yukawa_type = thdm::int_to_cpp_yukawa_type((int)p[9]);
      if ((int)p[9] == 5) { b.zeta_u = 0.3; b.zeta_d = -1.2; b.zeta_l = 20; }
      SM sm; sm.set_mh(p[10]); thdm::Config cfg; cfg.running_couplings = p[11] != 0;
      THDM m(b, sm, cfg);
      o.v = {calculate_amu_1loop(m), calculate_amu_2loop(m), calculate_amu_2loop_fermionic(m), calculate_amu_2loop_bosonic(m),
             calculate_uncertainty_amu_0loop(m), calculate_uncertainty_amu_1loop(m), calculate_uncertainty_amu_2loop(m),
             m.get_Mhh(0), m.get_Mhh(1), m.get_MAh(1), m.get_MHm(1), sm.get_mw(), sm.get_mz(), sm.get_mh(), sm.get_mu(2), sm.get_md(2), sm.get_ml(2), sm.get_ml(1)};
   } catch (const gm2calc::Error& e) { o.ok = false; o.exc = e.what(); } catch (const std::exception& e) { o.ok = false; o.exc = std::string("std::") + e.what(); }
   o.sig = covsig::hash(); return o;
}
static Out eval_mssm(const double* p) {
   Out o; covsig::reset();
   try {
      MSSMNoFV_onshell m; const double Pi = 3.141592653589793;
      m.set_alpha_MZ(0.0077552); m.set_alpha_thompson(0.00729735); m.set_g3(std::sqrt(4 * Pi * 0.1184));
      m.get_physical().MFt = 173.34; m.get_physical().MFb = 4.18; m.get_physical().MFm = 0.1056583715; m.get_physical().MFtau = 1.777;
      m.get_physical().MVWm = 80.385; m.get_physical().MVZ = 91.1876;
      m.set_TB(p[0]); m.set_Mu(p[1]); m.set_MassB(p[2]); m.set_MassWB(p[3]); m.set_MassG(p[4]); m.set_MA0(p[5]);
      for (int g = 0; g < 3; g++) { m.set_ml2(g, g, p[6 + g] * p[6 + g]); m.set_me2(g, g, p[9 + g] * p[9 + g]); m.set_mq2(g, g, p[12 + g] * p[12 + g]); m.set_mu2(g, g, p[15 + g] * p[15 + g]); m.set_md2(g, g, p[18 + g] * p[18 + g]); }
      m.set_Ae(1, 1, p[21]); m.set_Ae(2, 2, p[22]); m.set_Au(2, 2, p[23]); m.set_Ad(2, 2, p[24]); m.set_scale(p[25]);
      m.calculate_masses();
      o.v = {calculate_amu_1loop(m), calculate_amu_2loop(m), amu2LFSfapprox(m), amu2LChipmPhotonic(m), amu2LChi0Photonic(m), amu2LaSferm(m), amu2LaCha(m),
             calculate_uncertainty_amu_0loop(m), calculate_uncertainty_amu_1loop(m), calculate_uncertainty_amu_2loop(m), amu1LChi0(m), amu1LChipm(m)};
      for (int i = 0; i < 4; i++) o.v.push_back(std::abs(m.get_MChi(i)));
      for (int i = 0; i < 2; i++) o.v.push_back(m.get_MCha(i));
      for (int i = 0; i < 2; i++) o.v.push_back(m.get_MSm(i));
      o.v.push_back(m.get_MSvmL());
      for (int i = 0; i < 2; i++) o.v.push_back(m.get_MSt(i));
      for (int i = 0; i < 2; i++) o.v.push_back(m.get_MSb(i));
      for (int i = 0; i < 2; i++) o.v.push_back(m.get_MStau(i));
      for (int i = 0; i < 2; i++) o.v.push_back(m.get_Mhh(i));
      o.v.push_back(m.get_MAh(1)); o.v.push_back(m.get_MHpm(1)); o.v.push_back(m.get_MZ()); o.v.push_back(m.get_MW()); o.v.push_back(m.get_scale());
      o.v.push_back(m.get_problems().have_problem() || m.get_problems().have_warning() ? 1 : 0);
   } catch (const gm2calc::Error& e) { o.ok = false; o.exc = e.what(); } catch (const std::exception& e) { o.ok = false; o.exc = std::string("std::") + e.what(); }
   o.sig = covsig::hash(); return o;
}
static void print(const char* tag, const std::string& id, double t, const Out& o) {
   std::printf("%s %s %a ", tag, id.c_str(), t);
   if (!o.ok) { std::string w = o.exc; for (auto& c : w) if (c == '\n') c = ' '; std::printf("EXC %s", w.c_str()); }
   else { std::printf("OK %zu", o.v.size()); for (double d : o.v) std::printf(" %a", d); }
   std::printf(" | %016" PRIx64 "\n", o.sig);
}
struct Line { bool thdm; int idx; std::vector<double> p; };
static Out evalline(const Line& L, double t) { std::vector<double> p = L.p; p[L.idx] = t; return L.thdm ? eval_thdm(p.data()) : eval_mssm(p.data()); }
struct Bd { double a, b; };
static void refine(const Line& L, double a, uint64_t sa, double b, uint64_t sb, std::vector<Bd>& bd, bool& capped) {
   if (sa == sb) return; int64_t ia = ord(a), ib = ord(b);
   if (ib - ia <= 1) { bd.push_back({a, b}); return; }
   if (bd.size() >= 48) { capped = true; return; }
   double m = fromord(ia + (ib - ia) / 2); uint64_t sm = evalline(L, m).sig;
   refine(L, a, sa, m, sm, bd, capped); refine(L, m, sm, b, sb, bd, capped);
}
int main() {
   int dn = open("/dev/null", O_WRONLY); dup2(dn, 2);
   std::string cmd;
   while (std::cin >> cmd) {
      std::string id; std::cin >> id;
      if (cmd == "T") { double p[12]; for (auto& x : p) x = rd(); print("R", id, 0, eval_thdm(p)); }
      else if (cmd == "M") { double p[26]; for (auto& x : p) x = rd(); print("R", id, 0, eval_mssm(p)); }
      else if (cmd == "LT" || cmd == "LM") {
         Line L; L.thdm = cmd == "LT"; int W; std::cin >> W >> L.idx; int np = L.thdm ? 12 : 26; L.p.resize(np); for (auto& x : L.p) x = rd();
         long n; std::cin >> n; std::vector<double> ts(n); for (auto& t : ts) t = rd(); std::sort(ts.begin(), ts.end());
         std::vector<uint64_t> sg; for (double t : ts) { Out o = evalline(L, t); sg.push_back(o.sig); print("P", id, t, o); }
         std::vector<Bd> bd; bool capped = false;
         for (size_t i = 0; i + 1 < ts.size(); i++) refine(L, ts[i], sg[i], ts[i + 1], sg[i + 1], bd, capped);
         if (capped) std::printf("CAP %s\n", id.c_str());
         for (auto& b : bd) { std::printf("BD %s %a %a\n", id.c_str(), b.a, b.b);
            int64_t ia = ord(b.a), ib = ord(b.b); for (int64_t k = ia - W; k <= ib + W; k++) { double t = fromord(k); print("N", id, t, evalline(L, t)); } }
         std::printf("END %s\n", id.c_str());
      }
   }
   std::fflush(stdout); return 0;
}
