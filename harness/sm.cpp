// sm: evaluator for the SM layer (C20): CKM construction, EW relations, running masses,
// THDM running-mass bypass.  Python (checks/c20.py) builds every lattice and holds the oracle;
// this program only evaluates and reports, doubles as C99 hex floats.
//
// stdin commands (all numbers hex or decimal doubles):
//   wolf <n> (<lambda> <A> <rhobar> <etabar>)*n     -> W OK <18 doubles: Re,Im row-major> | W EXC <class> <what>
//   ang  <n> (<t12> <t13> <t23> <delta>)*n           -> A OK <18 doubles>                  | A EXC ...
//   ew   <n> (<mw> <mz> <alpha_mz> <alpha_0> <alpha_s>)*n -> E cw sw e_mz e_0 g2 gY g3 v
//   mt   <mt_pole> <as_mz> <mz> <n> <Q>*n            -> R <value> <nwarn> [| warning text]
//   mb6  <mb_mb> <mt_pole> <as_mz> <mz> <n> <Q>*n    -> R ...
//   mtau <mtau> <alpha_em> <n> <Q>*n                 -> R ...
//   mb5  <mb_mb> <n> (<alpha_s(Q)> <Q>)*n            -> R ...
//   thdm <type> <tb> <mh> <mH> <mA> <mHp> <sba> <l6> <l7> <m122> <zu> <zd> <zl> <as_mz> <nscales> <scale>*n
//        -> T OK | T EXC ... ; TS (pole masses) ; TH Mhh0 Mhh1 MAh1 MHm1 ; TM <on> <scale> 9 masses ;
//           TE <scale> mt mb mtau (library running functions called directly) ;
//           TY <on> <getter> 18 doubles ; TO <on> <getter> 18 doubles (same formula fed with the masses that must enter)
//   every command ends with: END <n results>
#include "gm2calc/SM.hpp"
#include "gm2calc/THDM.hpp"
#include "gm2calc/gm2_error.hpp"
#include "gm2_mf.hpp"
#include <cmath>
#include <complex>
#include <cstdio>
#include <cstdlib>
#include <iostream>
#include <sstream>
#include <string>
#include <vector>

using namespace gm2calc;
typedef Eigen::Matrix<std::complex<double>, 3, 3> M3c;
typedef Eigen::Matrix<double, 3, 3> M3;

static double rd() { std::string s; if (!(std::cin >> s)) std::exit(3); return std::strtod(s.c_str(), nullptr); }
static long rl() { long n; if (!(std::cin >> n)) std::exit(3); return n; }
static std::string clean(std::string s) { for (auto& c : s) if (c == '\n' || c == '\r') c = ' '; return s; }

static void print_m(const M3c& V) {
   for (int i = 0; i < 3; i++) for (int j = 0; j < 3; j++) std::printf(" %a %a", V(i, j).real(), V(i, j).imag());
}
template <class F> static void guarded(const char* tag, F f) {
   try { f(); }
   catch (const EInvalidInput& e) { std::printf("%s EXC EInvalidInput %s\n", tag, clean(e.what()).c_str()); }
   catch (const EPhysicalProblem& e) { std::printf("%s EXC EPhysicalProblem %s\n", tag, clean(e.what()).c_str()); }
   catch (const Error& e) { std::printf("%s EXC Error %s\n", tag, clean(e.what()).c_str()); }
   catch (const std::exception& e) { std::printf("%s EXC std::exception %s\n", tag, clean(e.what()).c_str()); }
   catch (...) { std::printf("%s EXC unknown -\n", tag); }
}
// run f with std::cerr captured
template <class F> static double captured(F f, std::string& err) {
   std::ostringstream os; std::streambuf* old = std::cerr.rdbuf(os.rdbuf());
   double r;
   try { r = f(); } catch (...) { std::cerr.rdbuf(old); throw; }
   std::cerr.rdbuf(old); err = os.str();
   return r;
}
template <class F> static void running(F f) {
   std::string err;
   try {
      double r = captured(f, err);
      int nw = 0; for (size_t p = 0; (p = err.find("Warning:", p)) != std::string::npos; p++) nw++;
      std::printf("R %a %d | %s\n", r, nw, clean(err).c_str());
   } catch (const std::exception& e) { std::printf("R EXC %s\n", clean(e.what()).c_str()); }
   catch (...) { std::printf("R EXC unknown\n"); }
}

int main() {
   std::string cmd;
   const double s2 = 1.4142135623730950, is2 = 0.70710678118654752;
   while (std::cin >> cmd) {
      long nres = 0;
      if (cmd == "wolf" || cmd == "ang") {
         long n = rl();
         const char* tag = cmd == "wolf" ? "W" : "A";
         for (long k = 0; k < n; k++) {
            double a = rd(), b = rd(), c = rd(), d = rd();
            guarded(tag, [&] {
               SM sm;
               if (cmd == "wolf") sm.set_ckm_from_wolfenstein(a, b, c, d); else sm.set_ckm_from_angles(a, b, c, d);
               std::printf("%s OK", tag); print_m(sm.get_ckm()); std::printf("\n");
            });
            nres++;
         }
      } else if (cmd == "ew") {
         long n = rl();
         for (long k = 0; k < n; k++) {
            double mw = rd(), mz = rd(), a = rd(), a0 = rd(), as = rd();
            SM sm; sm.set_mw(mw); sm.set_mz(mz); sm.set_alpha_em_mz(a); sm.set_alpha_em_0(a0); sm.set_alpha_s_mz(as);
            std::printf("E %a %a %a %a %a %a %a %a\n", sm.get_cw(), sm.get_sw(), sm.get_e_mz(), sm.get_e_0(), sm.get_g2(), sm.get_gY(), sm.get_g3(), sm.get_v());
            nres++;
         }
      } else if (cmd == "mt") {
         double mt = rd(), as = rd(), mz = rd(); long n = rl();
         for (long k = 0; k < n; k++) { double Q = rd(); running([&] { return calculate_mt_SM6_MSbar(mt, as, mz, Q); }); nres++; }
      } else if (cmd == "mb6") {
         double mb = rd(), mt = rd(), as = rd(), mz = rd(); long n = rl();
         for (long k = 0; k < n; k++) { double Q = rd(); running([&] { return calculate_mb_SM6_MSbar(mb, mt, as, mz, Q); }); nres++; }
      } else if (cmd == "mtau") {
         double ml = rd(), a = rd(); long n = rl();
         for (long k = 0; k < n; k++) { double Q = rd(); running([&] { return calculate_mtau_SM6_MSbar(ml, a, Q); }); nres++; }
      } else if (cmd == "mb5") {
         double mb = rd(); long n = rl();
         for (long k = 0; k < n; k++) { double as = rd(), Q = rd(); running([&] { return calculate_mb_SM5_DRbar(mb, as, Q); }); nres++; }
      } else if (cmd == "thdm") {
         int type = (int)rd();
         thdm::Mass_basis b;
         b.yukawa_type = thdm::int_to_cpp_yukawa_type(type);
         b.tan_beta = rd(); b.mh = rd(); b.mH = rd(); b.mA = rd(); b.mHp = rd(); b.sin_beta_minus_alpha = rd();
         b.lambda_6 = rd(); b.lambda_7 = rd(); b.m122 = rd(); b.zeta_u = rd(); b.zeta_d = rd(); b.zeta_l = rd();
         double as = rd(); long ns = rl(); std::vector<double> scales(ns); for (auto& s : scales) s = rd();
         SM sm; sm.set_alpha_s_mz(as);
         std::string err;
         guarded("T", [&] {
            std::ostringstream os; std::streambuf* old = std::cerr.rdbuf(os.rdbuf());
            try {
               for (int on = 0; on < 2; on++) {
                  thdm::Config cfg; cfg.running_couplings = on;
                  THDM m(b, sm, cfg);
                  if (on == 0) {
                     std::printf("T OK\n");
                     std::printf("TS"); for (int i = 0; i < 3; i++) std::printf(" %a", sm.get_mu(i)); for (int i = 0; i < 3; i++) std::printf(" %a", sm.get_md(i));
                     for (int i = 0; i < 3; i++) std::printf(" %a", sm.get_ml(i)); std::printf("\n");
                     std::printf("TH %a %a %a %a\n", m.get_Mhh(0), m.get_Mhh(1), m.get_MAh(1), m.get_MHm(1));
                  }
                  std::vector<double> sc = scales; sc.push_back(m.get_Mhh(0)); sc.push_back(m.get_Mhh(1)); sc.push_back(m.get_MAh(1)); sc.push_back(m.get_MHm(1));
                  for (double s : sc) {
                     Eigen::Matrix<double, 3, 1> mu = m.get_mu(s), md = m.get_md(s), ml = m.get_ml(s);
                     std::printf("TM %d %a", on, s); for (int i = 0; i < 3; i++) std::printf(" %a", mu(i)); for (int i = 0; i < 3; i++) std::printf(" %a", md(i));
                     for (int i = 0; i < 3; i++) std::printf(" %a", ml(i)); std::printf("\n");
                     if (on == 1)
                        std::printf("TE %a %a %a %a\n", s, calculate_mt_SM6_MSbar(sm.get_mu(2), sm.get_alpha_s_mz(), sm.get_mz(), s),
                                    calculate_mb_SM6_MSbar(sm.get_md(2), sm.get_mu(2), sm.get_alpha_s_mz(), sm.get_mz(), s),
                                    calculate_mtau_SM6_MSbar(sm.get_ml(2), sm.get_alpha_em_mz(), s));
                  }
                  // masses that must enter each getter: pole masses when running is off, m(Q = mass of the Higgs boson) when on
                  const double cba = m.get_cos_beta_minus_alpha(), sba = m.get_sin_beta_minus_alpha(), v = m.get_v();
                  const double Qs[4] = {m.get_Mhh(0), m.get_Mhh(1), m.get_MAh(1), m.get_MHm(1)};
                  const char* hn[4] = {"h", "H", "A", "Hp"};
                  const M3c yu[4] = {m.get_yuh(), m.get_yuH(), m.get_yuA(), m.get_yuHp()};
                  const M3c yd[4] = {m.get_ydh(), m.get_ydH(), m.get_ydA(), m.get_ydHp()};
                  const M3c yl[4] = {m.get_ylh(), m.get_ylH(), m.get_ylA(), m.get_ylHp()};
                  for (int h = 0; h < 4; h++) {
                     Eigen::Matrix<double, 3, 1> vu = sm.get_mu(), vd = sm.get_md(), vl = sm.get_ml();
                     if (on && Qs[h] > 0) {
                        vu(2) = calculate_mt_SM6_MSbar(sm.get_mu(2), sm.get_alpha_s_mz(), sm.get_mz(), Qs[h]);
                        vd(2) = calculate_mb_SM6_MSbar(sm.get_md(2), sm.get_mu(2), sm.get_alpha_s_mz(), sm.get_mz(), Qs[h]);
                        vl(2) = calculate_mtau_SM6_MSbar(sm.get_ml(2), sm.get_alpha_em_mz(), Qs[h]);
                     }
                     const M3 mu = vu.asDiagonal(), md = vd.asDiagonal(), ml = vl.asDiagonal();
                     const M3c ru = m.get_rho_u(mu), rdn = m.get_rho_d(md), rl_ = m.get_rho_l(ml);
                     M3c ou, od, ol;
                     switch (h) {
                     case 0: ou = sba * mu / v + cba * ru * is2; od = sba * md / v + cba * rdn * is2; ol = sba * ml / v + cba * rl_ * is2; break;
                     case 1: ou = cba * mu / v - sba * ru * is2; od = cba * md / v - sba * rdn * is2; ol = cba * ml / v - sba * rl_ * is2; break;
                     case 2: ou = ru * is2; od = -rdn * is2; ol = -rl_ * is2; break;
                     default: ou = -ru.adjoint() * sm.get_ckm(); od = sm.get_ckm() * rdn; ol = rl_; break;
                     }
                     std::printf("TY %d yu%s", on, hn[h]); print_m(yu[h]); std::printf("\n"); std::printf("TO %d yu%s", on, hn[h]); print_m(ou); std::printf("\n");
                     std::printf("TY %d yd%s", on, hn[h]); print_m(yd[h]); std::printf("\n"); std::printf("TO %d yd%s", on, hn[h]); print_m(od); std::printf("\n");
                     std::printf("TY %d yl%s", on, hn[h]); print_m(yl[h]); std::printf("\n"); std::printf("TO %d yl%s", on, hn[h]); print_m(ol); std::printf("\n");
                  }
               }
            } catch (...) { std::cerr.rdbuf(old); throw; }
            std::cerr.rdbuf(old);
         });
         (void)s2;
         nres++;
      } else { std::printf("ERR cmd %s\n", cmd.c_str()); return 2; }
      std::printf("END %ld\n", nres);
      std::fflush(stdout);
   }
   return 0;
}
