// la: small-scope exhaustive exploration of the matrix decompositions (C12).
//
// The harness enumerates complete products of tiny entry alphabets (and constructed
// exactly-degenerate matrices), calls every layer/overload of the decomposition
// routines of gm2_linalg.hpp on each matrix and evaluates the oracle itself, in
// complex long double with plain loops (never with the routines under test):
//   reconstruction in the documented convention, unitarity of every factor,
//   s >= 0, documented ordering, overload agreement, error bounds finite >= 0 and
//   attached to the right singular value / eigenvalue (LAPACK users' guide formula).
//
// Protocol (stdin):
//   sets                                   -> SET <name> <count> lines
//   run <set> <scale> <shard> <nshards>    -> enumerate codes with code % nshards == shard
//   one <set> <scale> <code>               -> single case, verbose (replay)
//   (append the word "fresh" to run/one to compare the model instantiations with a pristine process, see below)
//
// Purity: the routines must be pure functions of their arguments.  After the canonical sequence
// full(B), vals(B), vals_e(B), full_e(B), full_errbds(B) every routine is called again in other orders, with a
// different matrix A = reverse(B) in between:  full(A),vals(B),full(B) | vals(A),full(B) | full(B),vals(B),vals(B) |
// full(A),full(B) | vals_e(A),full_errbds(B) | full_errbds(A),vals_e(B),full_e(B);  every result must be bitwise
// identical to the canonical one (which is checked against the contract).  With "fresh", the full and the
// values-only result of the instantiations the models use are additionally compared bitwise with the same call
// made as the very first library call of a pristine process (forked from a zygote that never called the library).
// Output:
//   FAIL <set> <code> <scale> <group> <kind> <value> M <r> <c> <re im ...>   (first 6 per group+kind)
//   GRP <set> <group> n=<cases> fails=<n> rec=<worst> uni=<worst> val=<worst> cls=<k>:<n>,...
//   FK <set> <group> <kind> <count>
//   END <set> <ncodes>
#include "gm2_linalg.hpp"
#include "gm2_eigen_utils.hpp"
#include <unistd.h>
#include <sys/wait.h>
#include <set>
#include <cinttypes>
#include <complex>
#include <cstdio>
#include <cstdlib>
#include <cstring>
#include <iostream>
#include <map>
#include <string>
#include <type_traits>
#include <vector>

typedef long double LD;
typedef std::complex<LD> CL;
typedef std::complex<double> cd;

// ---------------------------------------------------------------- plain matrices
struct Mat {
   int r = 0, c = 0;
   CL a[16];
   Mat() {}
   Mat(int r_, int c_) : r(r_), c(c_) { for (auto& x : a) x = 0; }
   CL& operator()(int i, int j) { return a[i * c + j]; }
   const CL& operator()(int i, int j) const { return a[i * c + j]; }
};
template <class D> static Mat toMat(const Eigen::MatrixBase<D>& m) {
   Mat x((int)m.rows(), (int)m.cols());
   for (int i = 0; i < x.r; i++) for (int j = 0; j < x.c; j++) { cd z = m(i, j); x(i, j) = CL(z.real(), z.imag()); }
   return x;
}
static Mat tr(const Mat& m) { Mat x(m.c, m.r); for (int i = 0; i < m.r; i++) for (int j = 0; j < m.c; j++) x(j, i) = m(i, j); return x; }
static Mat adj(const Mat& m) { Mat x(m.c, m.r); for (int i = 0; i < m.r; i++) for (int j = 0; j < m.c; j++) x(j, i) = std::conj(m(i, j)); return x; }
static LD fro(const Mat& m) { LD s = 0; for (int i = 0; i < m.r * m.c; i++) s += std::norm(m.a[i]); return std::sqrt(s); }
static bool finite_m(const Mat& m) { for (int i = 0; i < m.r * m.c; i++) if (!std::isfinite((double)m.a[i].real()) || !std::isfinite((double)m.a[i].imag())) return false; return true; }
// || m - A sigma B ||_F with sigma = diag(s) (rows(A) x cols(A)->K->rows(B))
static LD recon_err(const Mat& m, const Mat& A, const std::vector<double>& s, const Mat& B) {
   LD e = 0;
   for (int i = 0; i < m.r; i++) for (int j = 0; j < m.c; j++) {
      CL x = 0;
      for (size_t k = 0; k < s.size(); k++) x += A(i, (int)k) * (LD)s[k] * B((int)k, j);
      e += std::norm(m(i, j) - x);
   }
   return std::sqrt(e);
}
static LD unit_err(const Mat& u) {
   LD e = 0;
   for (int i = 0; i < u.r; i++) for (int j = 0; j < u.r; j++) {
      CL x = 0;
      for (int k = 0; k < u.c; k++) x += u(i, k) * std::conj(u(j, k));
      if (i == j) x -= (LD)1;
      e += std::norm(x);
   }
   return std::sqrt(e);
}

// ---------------------------------------------------------------- bookkeeping
struct Grp {
   long n = 0, nfail = 0, seq = 0, fresh = 0, known = 0;
   double rec = 0, uni = 0, val = 0, ebr = 0;
   std::map<std::string, long> cls, fk;
};
static std::map<std::string, Grp> grps;
static std::string cur_set;
static long cur_code = 0;
static double cur_scale = 1;
static bool verbose = false;

static void print_mat(const Mat& m) {
   std::printf("M %d %d", m.r, m.c);
   for (int i = 0; i < m.r * m.c; i++) std::printf(" %a %a", (double)m.a[i].real(), (double)m.a[i].imag());
}
static void fail(const std::string& g, const char* kind, double value, const Mat& m) {
   Grp& G = grps[g];
   G.nfail++;
   long k = ++G.fk[kind];
   if (k <= 6 || verbose) {
      std::printf("FAIL %s %ld %a %s %s %.6e ", cur_set.c_str(), cur_code, cur_scale, g.c_str(), kind, value);
      print_mat(m);
      std::printf("\n");
   }
}

enum Conv { SVD_LAPACK, SVD_HK, SYM_U, SYM_HK, HERM_Z, HERM_SARAH };
enum Order { DESC, ASC, ABSASC, NONE };

struct Tol { double rec, uni; };
static const Tol TIGHT = {1e-12, 1e-12};
// (DESIGN 3/C12 had a second class 1e-7 / 1e-8 for Eigen's closed-form 3x3 solver; since /repo ef70766 no instantiation
//  uses it, every path is held to the Jacobi/QR tolerance and a re-introduced computeDirect for N == 3 fails here)

static std::string classify(const std::vector<double>& s, bool anyneg) {
   double mx = 0; for (double x : s) mx = std::max(mx, std::abs(x));
   int rank = 0, ndist = 0;
   std::vector<double> a; for (double x : s) a.push_back(std::abs(x));
   std::sort(a.begin(), a.end());
   for (size_t i = 0; i < a.size(); i++) {
      if (mx > 0 && a[i] > 1e-13 * mx) rank++;
      if (i == 0 || a[i] - a[i - 1] > 1e-12 * mx) ndist++;
   }
   char b[32]; std::snprintf(b, sizeof b, "r%dd%d%s", rank, ndist, anyneg ? "n" : "");
   return b;
}

static void chk_values(const std::string& g, const Mat& m, const std::vector<double>& s, Order ord, bool nonneg) {
   for (size_t i = 0; i < s.size(); i++) {
      if (!std::isfinite(s[i])) { fail(g, "value-nonfinite", s[i], m); return; }
      if (nonneg && !(s[i] >= 0)) fail(g, "value-negative", s[i], m);
   }
   for (size_t i = 0; i + 1 < s.size(); i++) {
      bool ok = true;
      if (ord == DESC) ok = s[i] >= s[i + 1];
      if (ord == ASC) ok = s[i] <= s[i + 1];
      if (ord == ABSASC) ok = std::abs(s[i]) <= std::abs(s[i + 1]);
      if (!ok) { fail(g, "order", s[i] - s[i + 1], m); break; }
   }
}

// full check of one decomposition result
static void chk_factors(const std::string& g, const Mat& m, const std::vector<double>& s, const Mat& U, const Mat* V,
                        Conv conv, Order ord, Tol tol, bool real_input = false) {
   Grp& G = grps[g];
   G.n++;
   const LD nm = fro(m);
   bool nonneg = !(conv == HERM_Z || conv == HERM_SARAH);
   chk_values(g, m, s, ord, nonneg);
   if (!finite_m(U) || (V && !finite_m(*V))) { fail(g, "factor-nonfinite", 0, m); return; }
   Mat A, B;
   switch (conv) {
   case SVD_LAPACK: A = U; B = *V; break;
   case SVD_HK: A = tr(U); B = *V; break;
   case SYM_U: A = U; B = tr(U); break;
   case SYM_HK: A = tr(U); B = U; break;
   case HERM_Z: A = U; B = adj(U); break;
   case HERM_SARAH: A = adj(U); B = U; break;
   }
   LD e = recon_err(m, A, s, B);
   double rel = nm > 0 ? (double)(e / nm) : (e > 0 ? 1e300 : 0.0);
   if (!(e <= (LD)tol.rec * nm)) fail(g, "reconstruction", rel, m);
   else if (rel > G.rec) G.rec = rel;
   double ue = (double)unit_err(U);
   if (V) ue = std::max(ue, (double)unit_err(*V));
   if (!(ue <= tol.uni)) fail(g, "unitarity", ue, m);
   else if (ue > G.uni) G.uni = ue;
   bool anyneg = false; for (double x : s) if (x < 0) anyneg = true;
   if ((conv == SYM_U || conv == SYM_HK) && real_input) {   // negative eigenvalue of a real symmetric input shows up as a phase i
      for (int k = 0; k < U.r; k++) for (int l = 0; l < U.r; l++) {
         CL z = conv == SYM_U ? U(l, k) : U(k, l);
         if (std::abs(z.imag()) > 0.5) anyneg = true;
      }
   }
   G.cls[classify(s, anyneg)]++;
   if (verbose) {
      std::printf("INFO %s rec=%.3e uni=%.3e s=", g.c_str(), rel, ue);
      for (double x : s) std::printf(" %.17g", x);
      std::printf("\n");
   }
}

static void chk_same_values(const std::string& g, const char* kind, const Mat& m, const std::vector<double>& a,
                            const std::vector<double>& b, double tolrel) {
   // values-only overloads may take another path through Eigen: agreement to the reconstruction tolerance
   const LD nm = fro(m);
   double d = 0; for (size_t i = 0; i < a.size(); i++) { double x = std::abs(a[i] - b[i]); if (!(x <= d)) d = x; }
   if (!(d <= tolrel * (double)nm)) fail(g, kind, nm > 0 ? d / (double)nm : d, m);
   else { Grp& G = grps[g]; double r = nm > 0 ? d / (double)nm : 0; if (r > G.val) G.val = r; }
}
template <class A, class B> static bool bit_equal(const A& a, const B& b) {
   return sizeof(typename A::Scalar) * a.size() == sizeof(typename B::Scalar) * b.size() &&
          std::memcmp(a.data(), b.data(), sizeof(typename A::Scalar) * a.size()) == 0;
}
static void chk_bound(const std::string& g, const char* kind, const Mat& m, double e) {
   if (!(std::isfinite(e) && e >= 0)) fail(g, kind, e, m);
}
// LAPACK users' guide node89/node96: vector bound_i = value_bound / max(gap_i, thresh)
static void chk_vec_bounds(const std::string& g, const char* kind, const Mat& m, const std::vector<double>& signed_vals,
                           double val_bound, const std::vector<double>& vb, int own_value_pos /* -1: none */) {
   const double eps = std::numeric_limits<double>::epsilon();
   double an = 0; for (double x : signed_vals) an = std::max(an, std::abs(x));
   double thresh = an == 0 ? eps : std::max(eps * an, std::numeric_limits<double>::min());
   for (size_t i = 0; i < vb.size(); i++) {
      if (!(std::isfinite(vb[i]) && vb[i] >= 0)) { fail(g, kind, vb[i], m); return; }
   }
   if (signed_vals.size() < 2) return;
   for (size_t i = 0; i < vb.size(); i++) {
      double gap = 1e308;
      for (size_t j = 0; j < signed_vals.size(); j++) if (j != i) gap = std::min(gap, std::abs(signed_vals[i] - signed_vals[j]));
      if ((int)i == own_value_pos) gap = std::min(gap, signed_vals[i]);
      double expect = val_bound / std::max(gap, thresh);
      if (!(std::abs(vb[i] - expect) <= 1e-9 * std::max(expect, vb[i]))) {
         std::string k2 = std::string(kind) + "-index";
         fail(g, k2.c_str(), vb[i] - expect, m);
         return;
      }
   }
}
template <class Arr> static std::vector<double> vec(const Arr& a) { std::vector<double> v; for (int i = 0; i < a.size(); i++) v.push_back(a(i)); return v; }

// ---------------------------------------------------------------- eigen/singular value error against the returned bound
// For the constructed sets the exact spectrum is known (up to the rounding of the matrix entries, <= eps*|m|).  The header
// documents s_errbd / w_errbd as the (approximate, LAPACK users' guide) error bound of the returned values: the error must
// stay within ERRBD_SLACK times that bound.
static int known_n = 0; static double known_d[4];
static bool known_abs_only = false;   // complex-basis U D U^T: only the singular values |d| are known
static const double ERRBD_SLACK = 100;
static void chk_known_values(const std::string& g, const Mat& m, std::vector<double> got, double errbd, bool use_abs) {
   if (known_n != (int)got.size()) return;
   std::vector<double> ex(known_d, known_d + known_n);
   if (use_abs || known_abs_only) { for (auto& x : ex) x = std::abs(x); for (auto& x : got) x = std::abs(x); }
   std::sort(ex.begin(), ex.end()); std::sort(got.begin(), got.end());
   double err = 0, mx = 0;
   for (size_t i = 0; i < ex.size(); i++) { double e = std::abs(got[i] - ex[i]); if (!(e <= err)) err = e; mx = std::max(mx, std::abs(ex[i])); }
   Grp& G = grps[g]; G.known++;
   // rounding of the constructed entries moves the true spectrum by up to ~eps*max|d|
   const double allowed = ERRBD_SLACK * std::max(errbd, 0.0) + 4 * std::numeric_limits<double>::epsilon() * mx;
   double ratio = errbd > 0 ? err / errbd : (err > 0 ? 1e300 : 0.0);
   if (!(err <= allowed)) {
      double rel = mx > 0 ? err / mx : err;
      fail(g, rel <= 1e-10 ? "value-error-exceeds-errbd:rel<=1e-10" : (rel <= 1e-7 ? "value-error-exceeds-errbd:rel<=1e-7" : "value-error-exceeds-errbd:rel>1e-7"), ratio, m);
   } else if (ratio > G.ebr && ratio < 1e299) G.ebr = ratio;
}

// ---------------------------------------------------------------- purity helpers
template <class MT> static MT other_matrix(const MT& m) {   // a different matrix of the same structure (symmetry is preserved)
   MT a = m.reverse();
   if (a == m) a(0, 0) += typename MT::Scalar(cur_scale != 0 ? cur_scale : 1.0);
   return a;
}
static double rel_rec(const Mat& m, const std::vector<double>& s, const Mat& U, const Mat* V, Conv conv) {
   if (!finite_m(U) || (V && !finite_m(*V))) return 1e300;
   Mat A, B;
   switch (conv) {
   case SVD_LAPACK: A = U; B = *V; break;
   case SVD_HK: A = tr(U); B = *V; break;
   case SYM_U: A = U; B = tr(U); break;
   case SYM_HK: A = tr(U); B = U; break;
   case HERM_Z: A = U; B = adj(U); break;
   case HERM_SARAH: A = adj(U); B = U; break;
   }
   LD nm = fro(m), e = recon_err(m, A, s, B);
   return nm > 0 ? (double)(e / nm) : (double)e;
}

// pristine-process reference.  The zygote is forked at program start, before any library call; for every request it
// forks a child in which the requested call is the first library call ever made, and the raw result bytes come back.
static int zy_req = -1, zy_rsp = -1;        // parent side
static bool fresh_enabled = false;
static bool fresh_child = false; static std::string fresh_group; static int fresh_ov = 0; static int fresh_out = -1;
static const std::set<std::string> FRESH_GROUPS = {"fs_svd_rc/r/2x2", "fs_svd/c/3x3", "fs_diagonalize_symmetric/r/4x4",
                                                    "fs_diagonalize_hermitian/r/2x2"};
static void wr_all(int fd, const void* p, size_t n) { const char* c = (const char*)p; while (n) { ssize_t k = write(fd, c, n); if (k <= 0) _exit(9); c += k; n -= k; } }
static bool rd_all(int fd, void* p, size_t n) { char* c = (char*)p; while (n) { ssize_t k = read(fd, c, n); if (k <= 0) return false; c += k; n -= k; } return true; }
struct Bytes { std::vector<unsigned char> b; template <class T> void add(const T& x) { const unsigned char* p = (const unsigned char*)x.data(); b.insert(b.end(), p, p + sizeof(typename T::Scalar) * x.size()); } };
[[noreturn]] static void fresh_reply(const Bytes& y) { uint32_t n = (uint32_t)y.b.size(); wr_all(fresh_out, &n, 4); wr_all(fresh_out, y.b.data(), n); _exit(0); }
static bool fresh_fetch(const std::string& g, int ov, std::vector<unsigned char>& out) {
   char line[256]; int k = std::snprintf(line, sizeof line, "%s %a %ld %s %d\n", cur_set.c_str(), cur_scale, cur_code, g.c_str(), ov);
   wr_all(zy_req, line, k);
   uint32_t n = 0; if (!rd_all(zy_rsp, &n, 4) || n > 4096) return false;
   out.resize(n); return n == 0 || rd_all(zy_rsp, out.data(), n);
}
static void fresh_compare(const std::string& g, int ov, const Bytes& mine, const Mat& mm) {
   std::vector<unsigned char> ref;
   if (!fresh_fetch(g, ov, ref) || ref.empty()) { std::printf("ERR fresh reference unavailable for %s\n", g.c_str()); std::fflush(stdout); _exit(2); }
   grps[g].fresh++;
   if (ref != mine.b) fail(g, ov == 0 ? "impure:differs-from-first-call-in-fresh-process:full" : "impure:differs-from-first-call-in-fresh-process:values-only", 0, mm);
}

// ---------------------------------------------------------------- layers under test
#define LAYER2(NAME, CALL, CONV, ORD) \
   struct NAME { template <class R, class S, int M, int N, class... A> static void f(const Eigen::Matrix<S, M, N>& m, A&... a) { CALL; } \
      static const char* name() { return #NAME; } static constexpr Conv conv = CONV; static constexpr Order ord = ORD; }
LAYER2(svd, (gm2calc::svd<R, S, M, N>(m, a...)), SVD_LAPACK, DESC);
LAYER2(reorder_svd, (gm2calc::reorder_svd<R, S, M, N>(m, a...)), SVD_LAPACK, ASC);
LAYER2(fs_svd, (gm2calc::fs_svd<R, S, M, N>(m, a...)), SVD_HK, ASC);
struct fs_svd_rc {   // real m, complex u, v (convenience overloads used by the MSSM).  They cast m to complex; there is no values-only
                     // convenience overload, so the values-only calls go to the same complex instantiation with the cast matrix
   template <class R, class S, int M, int N, class A1, class A2, class A3, class... A>
   static void f(const Eigen::Matrix<S, M, N>& m, A1& a1, A2& a2, A3& a3, A&... a) { gm2calc::fs_svd<R, M, N>(m, a1, a2, a3, a...); }
   template <class R, class S, int M, int N, class A1> static void f(const Eigen::Matrix<S, M, N>& m, A1& a1) { gm2calc::fs_svd<R, std::complex<R>, M, N>(m.template cast<std::complex<R> >().eval(), a1); }
   template <class R, class S, int M, int N, class A1, class A2> static void f(const Eigen::Matrix<S, M, N>& m, A1& a1, A2& a2) { gm2calc::fs_svd<R, std::complex<R>, M, N>(m.template cast<std::complex<R> >().eval(), a1, a2); }
   static const char* name() { return "fs_svd_rc"; } static constexpr Conv conv = SVD_HK; static constexpr Order ord = ASC; };
#define LAYER1(NAME, CALL, CONV, ORD) \
   struct NAME { template <class R, class S, int N, class... A> static void f(const Eigen::Matrix<S, N, N>& m, A&... a) { CALL; } \
      static const char* name() { return #NAME; } static constexpr Conv conv = CONV; static constexpr Order ord = ORD; }
LAYER1(diagonalize_symmetric_c, (gm2calc::diagonalize_symmetric<R, N>(m, a...)), SYM_U, DESC);   // complex input
LAYER1(diagonalize_symmetric_r, (gm2calc::diagonalize_symmetric<R, N>(m, a...)), SYM_U, NONE);   // real input: order unspecified
LAYER1(reorder_diagonalize_symmetric, (gm2calc::reorder_diagonalize_symmetric<R, S, N>(m, a...)), SYM_U, ASC);
LAYER1(fs_diagonalize_symmetric, (gm2calc::fs_diagonalize_symmetric<R, S, N>(m, a...)), SYM_HK, ASC);
LAYER1(diagonalize_hermitian, (gm2calc::diagonalize_hermitian<R, S, N>(m, a...)), HERM_Z, ASC);
LAYER1(fs_diagonalize_hermitian, (gm2calc::fs_diagonalize_hermitian<R, S, N>(m, a...)), HERM_SARAH, ABSASC);

template <class S> struct sname { static const char* n() { return "r"; } };
template <> struct sname<cd> { static const char* n() { return "c"; } };

// two-factor routines.  SU: scalar of u, v
template <class L, class S, class SU, int M, int N>
static void run2(const Eigen::Matrix<S, M, N>& m, Tol tol) {
   typedef double R;
   constexpr int K = MIN_(M, N);
   typedef Eigen::Array<R, K, 1> Arr; typedef Eigen::Matrix<SU, M, M> MU; typedef Eigen::Matrix<SU, N, N> MV;
   char gb[64]; std::snprintf(gb, sizeof gb, "%s/%s/%dx%d", L::name(), sname<S>::n(), M, N);
   const std::string g = gb;
   if (fresh_child) {
      if (g != fresh_group) return;
      Bytes y; Arr fs; MU fu; MV fv;
      if (fresh_ov == 0) { L::template f<R, S, M, N>(m, fs, fu, fv); y.add(fs); y.add(fu); y.add(fv); }
      else { L::template f<R, S, M, N>(m, fs); y.add(fs); }
      fresh_reply(y);
   }
   const Mat mm = toMat(m);
   Arr s, s1, s2, s3, s4, ue, ve; MU u, u3, u4; MV v, v3, v4; R e2 = -1, e3 = -1, e4 = -1;
   L::template f<R, S, M, N>(m, s, u, v);
   L::template f<R, S, M, N>(m, s1);
   L::template f<R, S, M, N>(m, s2, e2);
   L::template f<R, S, M, N>(m, s3, u3, v3, e3);
   L::template f<R, S, M, N>(m, s4, u4, v4, e4, ue, ve);
   Mat U = toMat(u), V = toMat(v);
   chk_factors(g, mm, vec(s), U, &V, L::conv, L::ord, tol);
   chk_values(g, mm, vec(s1), L::ord, true);
   chk_same_values(g, "values-only-overload", mm, vec(s), vec(s1), tol.rec);
   if (!bit_equal(s1, s2)) fail(g, "overload-mismatch:s,errbd", 0, mm);
   if (!(bit_equal(s, s3) && bit_equal(u, u3) && bit_equal(v, v3))) fail(g, "overload-mismatch:s,u,v,errbd", 0, mm);
   if (!(bit_equal(s, s4) && bit_equal(u, u4) && bit_equal(v, v4))) fail(g, "overload-mismatch:s,u,v,errbds", 0, mm);
   chk_bound(g, "s_errbd", mm, e2); chk_bound(g, "s_errbd", mm, e3); chk_bound(g, "s_errbd", mm, e4);
   if (!(e3 == e4)) fail(g, "overload-mismatch:s_errbd", e3 - e4, mm);
   // documented bound: eps * largest singular value
   double smax = 0; for (double x : vec(s)) smax = std::max(smax, x);
   if (!(std::abs(e4 - std::numeric_limits<double>::epsilon() * smax) <= 1e-9 * std::max(e4, 1e-300) || (e4 == 0 && smax == 0)))
      fail(g, "s_errbd-value", e4, mm);
   chk_known_values(g, mm, vec(s4), e4, true);
   int small_pos = L::ord == DESC ? K - 1 : 0;
   chk_vec_bounds(g, "u_errbd", mm, vec(s4), e4, vec(ue), M > N ? small_pos : -1);
   chk_vec_bounds(g, "v_errbd", mm, vec(s4), e4, vec(ve), M < N ? small_pos : -1);
   // ---- purity: other call orders must give bitwise the canonical results
   {
      const Eigen::Matrix<S, M, N> A = other_matrix(m);
      Arr ta, tb, tue, tve, aue, ave; MU xu, yu; MV xv, yv; R ea = -1, eb = -1;
      auto full_ok = [&](const char* kind) {
         grps[g].seq++;
         if (!(bit_equal(tb, s) && bit_equal(yu, u) && bit_equal(yv, v))) { Mat YU = toMat(yu), YV = toMat(yv); fail(g, kind, rel_rec(mm, vec(tb), YU, &YV, L::conv), mm); }
      };
      auto vals_ok = [&](const char* kind) { grps[g].seq++; if (!bit_equal(tb, s1)) fail(g, kind, 0, mm); };
      L::template f<R, S, M, N>(A, ta, xu, xv); L::template f<R, S, M, N>(m, tb); vals_ok("impure:full(A),vals(B)");
      L::template f<R, S, M, N>(m, tb, yu, yv); full_ok("impure:full(A),vals(B),full(B)");
      L::template f<R, S, M, N>(A, ta); L::template f<R, S, M, N>(m, tb, yu, yv); full_ok("impure:vals(A),full(B)");
      L::template f<R, S, M, N>(m, tb, yu, yv); full_ok("impure:full(B),full(B)");
      L::template f<R, S, M, N>(m, tb); vals_ok("impure:full(B),vals(B)");
      L::template f<R, S, M, N>(m, tb); vals_ok("impure:vals(B),vals(B)");
      L::template f<R, S, M, N>(A, ta, xu, xv); L::template f<R, S, M, N>(m, tb, yu, yv); full_ok("impure:full(A),full(B)");
      L::template f<R, S, M, N>(A, ta, ea); L::template f<R, S, M, N>(m, tb, yu, yv, eb, tue, tve);
      grps[g].seq++;
      if (!(bit_equal(tb, s4) && bit_equal(yu, u4) && bit_equal(yv, v4) && eb == e4 && bit_equal(tue, ue) && bit_equal(tve, ve))) {
         Mat YU = toMat(yu), YV = toMat(yv); fail(g, "impure:vals_e(A),full_errbds(B)", rel_rec(mm, vec(tb), YU, &YV, L::conv), mm); }
      L::template f<R, S, M, N>(A, ta, xu, xv, ea, aue, ave); L::template f<R, S, M, N>(m, tb, eb);
      grps[g].seq++; if (!(bit_equal(tb, s2) && eb == e2)) fail(g, "impure:full_errbds(A),vals_e(B)", 0, mm);
      L::template f<R, S, M, N>(m, tb, yu, yv, eb);
      grps[g].seq++;
      if (!(bit_equal(tb, s3) && bit_equal(yu, u3) && bit_equal(yv, v3) && eb == e3)) {
         Mat YU = toMat(yu), YV = toMat(yv); fail(g, "impure:full_errbds(A),vals_e(B),full_e(B)", rel_rec(mm, vec(tb), YU, &YV, L::conv), mm); }
   }
   if (fresh_enabled && FRESH_GROUPS.count(g)) {
      Bytes a; a.add(s); a.add(u); a.add(v); fresh_compare(g, 0, a, mm);
      Bytes b; b.add(s1); fresh_compare(g, 1, b, mm);
   }
}

// one-factor routines (Takagi, hermitian)
template <class L, class S, class SU, int N>
static void run1(const Eigen::Matrix<S, N, N>& m, Tol tol) {
   typedef double R;
   typedef Eigen::Array<R, N, 1> Arr; typedef Eigen::Matrix<SU, N, N> MU;
   char gb[64]; std::snprintf(gb, sizeof gb, "%s/%s/%dx%d", L::name(), sname<S>::n(), N, N);
   const std::string g = gb;
   if (fresh_child) {
      if (g != fresh_group) return;
      Bytes y; Arr fs; MU fu;
      if (fresh_ov == 0) { L::template f<R, S, N>(m, fs, fu); y.add(fs); y.add(fu); }
      else { L::template f<R, S, N>(m, fs); y.add(fs); }
      fresh_reply(y);
   }
   const Mat mm = toMat(m);
   Arr s, s1, s2, s3, s4, ue; MU u, u3, u4; R e2 = -1, e3 = -1, e4 = -1;
   L::template f<R, S, N>(m, s, u);
   L::template f<R, S, N>(m, s1);
   L::template f<R, S, N>(m, s2, e2);
   L::template f<R, S, N>(m, s3, u3, e3);
   L::template f<R, S, N>(m, s4, u4, e4, ue);
   Mat U = toMat(u);
   const bool herm = L::conv == HERM_Z || L::conv == HERM_SARAH;
   chk_factors(g, mm, vec(s), U, nullptr, L::conv, L::ord, tol, std::is_same<S, double>::value);
   if (L::ord != NONE) {
      chk_values(g, mm, vec(s1), L::ord, !herm);
      chk_same_values(g, "values-only-overload", mm, vec(s), vec(s1), tol.rec);
   } else {   // order unspecified: compare as multisets
      std::vector<double> a = vec(s), b = vec(s1); std::sort(a.begin(), a.end()); std::sort(b.begin(), b.end());
      chk_values(g, mm, b, NONE, true);
      chk_same_values(g, "values-only-overload", mm, a, b, tol.rec);
   }
   if (!bit_equal(s1, s2)) fail(g, "overload-mismatch:s,errbd", 0, mm);
   if (!(bit_equal(s, s3) && bit_equal(u, u3))) fail(g, "overload-mismatch:s,u,errbd", 0, mm);
   if (!(bit_equal(s, s4) && bit_equal(u, u4))) fail(g, "overload-mismatch:s,u,errbds", 0, mm);
   chk_bound(g, "s_errbd", mm, e2); chk_bound(g, "s_errbd", mm, e3); chk_bound(g, "s_errbd", mm, e4);
   if (!(e3 == e4)) fail(g, "overload-mismatch:s_errbd", e3 - e4, mm);
   double smax = 0; for (double x : vec(s)) smax = std::max(smax, std::abs(x));
   if (!(std::abs(e4 - std::numeric_limits<double>::epsilon() * smax) <= 1e-9 * std::max(e4, 1e-300) || (e4 == 0 && smax == 0)))
      fail(g, "s_errbd-value", e4, mm);
   chk_known_values(g, mm, vec(s4), e4, !herm);
   // values that define the gaps: signed eigenvalues for the eigen-solver based paths
   std::vector<double> sv = vec(s4);
   if ((L::conv == SYM_U || L::conv == SYM_HK) && std::is_same<S, double>::value) {
      Mat U4 = toMat(u4);
      for (int k = 0; k < N; k++) {
         LD im = 0, re = 0;
         for (int l = 0; l < N; l++) { CL z = L::conv == SYM_U ? U4(l, k) : U4(k, l); im = std::max(im, std::abs(z.imag())); re = std::max(re, std::abs(z.real())); }
         if (im > re) sv[k] = -sv[k];
      }
   }
   chk_vec_bounds(g, "u_errbd", mm, sv, e4, vec(ue), -1);
   // ---- purity: other call orders must give bitwise the canonical results
   {
      const Eigen::Matrix<S, N, N> A = other_matrix(m);
      Arr ta, tb, tue, aue; MU xu, yu; R ea = -1, eb = -1;
      auto full_ok = [&](const char* kind) {
         grps[g].seq++;
         if (!(bit_equal(tb, s) && bit_equal(yu, u))) { Mat YU = toMat(yu); fail(g, kind, rel_rec(mm, vec(tb), YU, nullptr, L::conv), mm); }
      };
      auto vals_ok = [&](const char* kind) { grps[g].seq++; if (!bit_equal(tb, s1)) fail(g, kind, 0, mm); };
      L::template f<R, S, N>(A, ta, xu); L::template f<R, S, N>(m, tb); vals_ok("impure:full(A),vals(B)");
      L::template f<R, S, N>(m, tb, yu); full_ok("impure:full(A),vals(B),full(B)");
      // complex symmetric input (matrix square root; not instantiated by the models): only the sequence above
      const bool heavy = std::is_same<S, cd>::value && (L::conv == SYM_U || L::conv == SYM_HK);
      if (!heavy) {
      L::template f<R, S, N>(A, ta); L::template f<R, S, N>(m, tb, yu); full_ok("impure:vals(A),full(B)");
      L::template f<R, S, N>(m, tb, yu); full_ok("impure:full(B),full(B)");
      L::template f<R, S, N>(m, tb); vals_ok("impure:full(B),vals(B)");
      L::template f<R, S, N>(m, tb); vals_ok("impure:vals(B),vals(B)");
      L::template f<R, S, N>(A, ta, xu); L::template f<R, S, N>(m, tb, yu); full_ok("impure:full(A),full(B)");
      L::template f<R, S, N>(A, ta, ea); L::template f<R, S, N>(m, tb, yu, eb, tue);
      grps[g].seq++;
      if (!(bit_equal(tb, s4) && bit_equal(yu, u4) && eb == e4 && bit_equal(tue, ue))) {
         Mat YU = toMat(yu); fail(g, "impure:vals_e(A),full_errbds(B)", rel_rec(mm, vec(tb), YU, nullptr, L::conv), mm); }
      L::template f<R, S, N>(A, ta, xu, ea, aue); L::template f<R, S, N>(m, tb, eb);
      grps[g].seq++; if (!(bit_equal(tb, s2) && eb == e2)) fail(g, "impure:full_errbds(A),vals_e(B)", 0, mm);
      L::template f<R, S, N>(m, tb, yu, eb);
      grps[g].seq++;
      if (!(bit_equal(tb, s3) && bit_equal(yu, u3) && eb == e3)) {
         Mat YU = toMat(yu); fail(g, "impure:full_errbds(A),vals_e(B),full_e(B)", rel_rec(mm, vec(tb), YU, nullptr, L::conv), mm); }
      }
   }
   if (fresh_enabled && FRESH_GROUPS.count(g)) {
      Bytes a; a.add(s); a.add(u); fresh_compare(g, 0, a, mm);
      Bytes b; b.add(s1); fresh_compare(g, 1, b, mm);
   }
}

// ---------------------------------------------------------------- families
template <int N> static Tol herm_tol_real() { return TIGHT; }
template <class S, int N> static void chk_move_goldstone(const Eigen::Matrix<S, N, N>& m);

template <int N> static void fam_svd_real(const Eigen::Matrix<double, N, N>& m) {
   run2<svd, double, double, N, N>(m, TIGHT);
   run2<reorder_svd, double, double, N, N>(m, TIGHT);
   run2<fs_svd, double, double, N, N>(m, TIGHT);
   run2<fs_svd_rc, double, cd, N, N>(m, TIGHT);
}
template <int M, int N> static void fam_svd_rect(const Eigen::Matrix<double, M, N>& m) {
   run2<svd, double, double, M, N>(m, TIGHT);
   run2<reorder_svd, double, double, M, N>(m, TIGHT);
   run2<fs_svd, double, double, M, N>(m, TIGHT);
   run2<fs_svd_rc, double, cd, M, N>(m, TIGHT);
}
template <int N> static void fam_svd_cplx(const Eigen::Matrix<cd, N, N>& m) {
   run2<svd, cd, cd, N, N>(m, TIGHT);
   run2<reorder_svd, cd, cd, N, N>(m, TIGHT);
   run2<fs_svd, cd, cd, N, N>(m, TIGHT);
}
template <int N> static void fam_sym_real(const Eigen::Matrix<double, N, N>& m) {
   run1<diagonalize_symmetric_r, double, cd, N>(m, herm_tol_real<N>());
   run1<reorder_diagonalize_symmetric, double, cd, N>(m, herm_tol_real<N>());
   run1<fs_diagonalize_symmetric, double, cd, N>(m, herm_tol_real<N>());
}
template <int N> static void fam_sym_cplx(const Eigen::Matrix<cd, N, N>& m) {
   run1<diagonalize_symmetric_c, cd, cd, N>(m, TIGHT);
   run1<reorder_diagonalize_symmetric, cd, cd, N>(m, TIGHT);
   run1<fs_diagonalize_symmetric, cd, cd, N>(m, TIGHT);
}
template <int N> static void fam_herm_real(const Eigen::Matrix<double, N, N>& m) {
   run1<diagonalize_hermitian, double, double, N>(m, herm_tol_real<N>());
   run1<fs_diagonalize_hermitian, double, double, N>(m, herm_tol_real<N>());
   chk_move_goldstone<double, N>(m);
}
template <int N> static void fam_herm_cplx(const Eigen::Matrix<cd, N, N>& m) {
   run1<diagonalize_hermitian, cd, cd, N>(m, TIGHT);     // complex: Eigen falls back to the QR solver
   run1<fs_diagonalize_hermitian, cd, cd, N>(m, TIGHT);
   chk_move_goldstone<cd, N>(m);
}

// move_goldstone_to on the result of fs_diagonalize_hermitian, N = 2..4, real and complex: the reference mass is every
// eigenvalue in turn (so the matching entry sits at every position, ties included) and 0; every target index.
// Oracle: m = z^+ diag(v) z still holds, z unitary, v the same multiset, v(idx) closest to the reference mass,
// relative order of the other entries preserved.
template <class S, int N> static void chk_move_goldstone(const Eigen::Matrix<S, N, N>& m) {
   if (fresh_child) return;
   char gb[64]; std::snprintf(gb, sizeof gb, "move_goldstone_to/%s/%dx%d", sname<S>::n(), N, N);
   const std::string g = gb;
   Grp& G = grps[g]; G.n++;
   const Mat mm = toMat(m); const LD nm = fro(mm);
   Eigen::Array<double, N, 1> w; Eigen::Matrix<S, N, N> z;
   gm2calc::fs_diagonalize_hermitian<double, S, N>(m, w, z);
   for (int p = 0; p <= N; p++) {
      const double mass = p < N ? w(p) : 0.0;
      int pos = 0; for (int i = 1; i < N; i++) if (std::abs(w(i) - mass) < std::abs(w(pos) - mass)) pos = i;   // first closest
      for (int idx = 0; idx < N; idx++) {
         Eigen::Array<double, N, 1> w2 = w; Eigen::Matrix<S, N, N> z2 = z;
         gm2calc::move_goldstone_to(idx, mass, w2, z2);
         char cls[32]; std::snprintf(cls, sizeof cls, "move%+d", idx - pos); G.cls[cls]++;
         for (int i = 0; i < N; i++) if (std::abs(w2(i) - mass) < std::abs(w2(idx) - mass)) { fail(g, "not-closest-at-idx", w2(idx), mm); break; }
         std::vector<double> rest, rest2;
         for (int i = 0; i < N; i++) { if (i != pos) rest.push_back(w(i)); if (i != idx) rest2.push_back(w2(i)); }
         if (!(w2(idx) == w(pos) && rest == rest2)) fail(g, "values-not-same-multiset-in-order", idx - pos, mm);
         Mat Z = toMat(z2);
         LD e = recon_err(mm, adj(Z), vec(w2), Z);
         if (!(e <= (LD)1e-12 * nm)) fail(g, "reconstruction", nm > 0 ? (double)(e / nm) : (double)e, mm);
         double ue = (double)unit_err(Z);
         if (!(ue <= 1e-12)) fail(g, "unitarity", ue, mm);
      }
   }
}

// gm2_eigen_utils.hpp: the helpers the models apply to decomposition results
static void chk_utils_2x2(const Eigen::Matrix2d& m) {
   if (fresh_child) return;
   const std::string g = "eigen_utils/r/2x2";
   Grp& G = grps[g]; G.n++;
   Mat mm = toMat(m);
   if (m(0, 1) == m(1, 0)) {
   Eigen::Array<double, 2, 1> w; Eigen::Matrix2d z;
   gm2calc::fs_diagonalize_hermitian<double, double, 2>(m, w, z);
   const double masses[] = {w(0), w(1), 0.0, 91.1876 * cur_scale};
   for (double mass : masses) for (int idx = 0; idx < 2; idx++) {
      Eigen::Array<double, 2, 1> w2 = w; Eigen::Matrix2d z2 = z;
      gm2calc::move_goldstone_to(idx, mass, w2, z2);
      if (!(std::abs(w2(idx) - mass) <= std::abs(w2(1 - idx) - mass))) fail(g, "move_goldstone_to:not-closest", w2(idx), mm);
      std::vector<double> s = {w2(0), w2(1)};
      Mat Z = toMat(z2);
      LD e = recon_err(mm, adj(Z), s, Z);
      if (!(e <= (LD)1e-12 * fro(mm))) fail(g, "move_goldstone_to:reconstruction", (double)e, mm);
      Eigen::Array<double, 1, 1> c; c(0) = mass;
      Eigen::Array<double, 1, 1> rest = gm2calc::remove_if_equal<double, 2, 1>(w2, c);
      // the element closest to `mass` is removed (ties: either); what remains is the other entry of w2
      bool ok = (rest(0) == w2(1 - idx) && std::abs(w2(idx) - mass) <= std::abs(rest(0) - mass)) ||
                (rest(0) == w2(idx) && std::abs(w2(1 - idx) - mass) <= std::abs(rest(0) - mass));
      if (!ok) fail(g, "remove_if_equal", rest(0), mm);
   }
   }
   Eigen::Matrix2d sy = m; gm2calc::symmetrize(sy);
   if (!(sy(1, 0) == m(0, 1) && sy(0, 1) == m(0, 1) && sy(0, 0) == m(0, 0) && sy(1, 1) == m(1, 1))) fail(g, "symmetrize", 0, mm);
   Eigen::Matrix2d nz = m; gm2calc::normalize_to_interval<2, 2>(nz);
   for (int i = 0; i < 2; i++) for (int j = 0; j < 2; j++) {
      double x = m(i, j), y = x < -1 ? -1 : (x > 1 ? 1 : x);
      if (!(nz(i, j) == y)) fail(g, "normalize_to_interval", nz(i, j), mm);
   }
   G.cls[m(0, 1) == m(1, 0) ? "sym" : "gen"]++;
}

// ---------------------------------------------------------------- alphabets and sets
static const double A9[] = {0, 1, -1, 2, -2, 1e-6, -1e-6, 1e6, -1e6};
static const double A7[] = {0, 1, -1, 1e6, -1e6, 1e-6, -1e-6};
static const double A3[] = {-1, 0, 1};
static const double A4[] = {-1, 0, 1, 2};
static const double AN[] = {0, 1, -1, 1e2, -1e2, 1e4, -1e4};
static const cd I1(0, 1);
static const cd C8[] = {cd(0), cd(1), cd(-1), I1, -I1, cd(1, 1), cd(1e6), cd(0, 1e-6)};
static const cd C3[] = {cd(0), cd(1), I1};
static const cd C5H[] = {cd(0), cd(1), I1, cd(1e6), cd(0, -1e-6)};
static const cd C4[] = {cd(0), cd(1), cd(-1), I1};
static const cd CO5[] = {cd(0), cd(1), I1, cd(-1), cd(0, 1e6)};
static const cd CO9[] = {cd(0), cd(1), cd(-1), I1, -I1, cd(1, 1), cd(1e6), cd(0, 1e6), cd(1e-6)};
static const double D4[] = {0, 1, -1, 1e6};
static const double D6[] = {0, 1, -1, 1e6, -1e6, 1e-6};

static long ipow(long b, int e) { long r = 1; while (e--) r *= b; return r; }
struct Dig { long c; int next(int base) { int d = (int)(c % base); c /= base; return d; } };

template <int N, class S, class T> static Eigen::Matrix<S, N, N> gen_full(long code, const T* al, int na, double sc) {
   Dig d{code}; Eigen::Matrix<S, N, N> m;
   for (int i = 0; i < N; i++) for (int j = 0; j < N; j++) m(i, j) = al[d.next(na)] * sc;
   return m;
}
template <int N, class S, class T> static Eigen::Matrix<S, N, N> gen_sym(long code, const T* al, int na, double sc) {
   Dig d{code}; Eigen::Matrix<S, N, N> m;
   for (int i = 0; i < N; i++) for (int j = i; j < N; j++) m(i, j) = m(j, i) = al[d.next(na)] * sc;
   return m;
}
template <int N> static Eigen::Matrix<cd, N, N> gen_herm(long code, const double* dal, int nd, const cd* oal, int no, double sc) {
   Dig d{code}; Eigen::Matrix<cd, N, N> m;
   for (int i = 0; i < N; i++) m(i, i) = dal[d.next(nd)] * sc;
   for (int i = 0; i < N; i++) for (int j = i + 1; j < N; j++) { cd z = oal[d.next(no)] * sc; m(i, j) = z; m(j, i) = std::conj(z); }
   return m;
}
// neutralino sparsity pattern: M1, M2, the four gaugino-higgsino entries, -mu
template <class S, class T> static Eigen::Matrix<S, 4, 4> gen_neut(long code, const T* al, int na, double sc) {
   Dig d{code}; Eigen::Matrix<S, 4, 4> m; m.setZero();
   m(0, 0) = al[d.next(na)] * sc; m(1, 1) = al[d.next(na)] * sc;
   const int pi_[5][2] = {{0, 2}, {0, 3}, {1, 2}, {1, 3}, {2, 3}};
   for (auto& p : pi_) { S x = al[d.next(na)] * sc; m(p[0], p[1]) = x; m(p[1], p[0]) = x; }
   return m;
}

// orthogonal / unitary bases with (Gaussian-)integer columns b_k, n_k = |b_k|^2:  Q = (b_k / sqrt(n_k))_k
struct Basis { int N; bool cplx; cd b[4][4]; };   // b[k][i]: component i of column k
static std::vector<Basis> bases(int N, bool with_complex) {
   std::vector<Basis> v;
   auto ident = [&]() { Basis B; B.N = N; B.cplx = false; for (int k = 0; k < 4; k++) for (int i = 0; i < 4; i++) B.b[k][i] = (k == i) ? 1.0 : 0.0; return B; };
   auto rot = [&](Basis& B, int p, int q, cd ph) { // columns p,q <- (e_p + ph e_q), (e_p - ph e_q)
      for (int i = 0; i < 4; i++) { B.b[p][i] = 0; B.b[q][i] = 0; }
      B.b[p][p] = 1; B.b[p][q] = ph; B.b[q][p] = 1; B.b[q][q] = -ph;
      if (ph.imag() != 0) B.cplx = true;
   };
   v.push_back(ident());
   for (int p = 0; p < N; p++) for (int q = p + 1; q < N; q++) { Basis B = ident(); rot(B, p, q, 1.0); v.push_back(B); }
   if (N == 4) {
      const int pr[3][4] = {{0, 1, 2, 3}, {0, 2, 1, 3}, {0, 3, 1, 2}};
      for (auto& p : pr) { Basis B = ident(); rot(B, p[0], p[1], 1.0); rot(B, p[2], p[3], 1.0); v.push_back(B); }
      Basis H = ident(); const int h[4][4] = {{1, 1, 1, 1}, {1, -1, 1, -1}, {1, 1, -1, -1}, {1, -1, -1, 1}};
      for (int k = 0; k < 4; k++) for (int i = 0; i < 4; i++) H.b[k][i] = h[k][i];
      v.push_back(H);
      if (with_complex) {
         Basis B = ident(); rot(B, 0, 1, I1); rot(B, 2, 3, I1); v.push_back(B);
         Basis Hc = H; Hc.cplx = true; for (int k = 0; k < 4; k++) { Hc.b[k][1] *= I1; Hc.b[k][3] *= I1; } v.push_back(Hc);
      }
   }
   if (N == 3) {   // tri-bimaximal: not exactly representable -> eigenvalues degenerate to ~1 ulp only
      Basis T = ident(); const int t[3][3] = {{1, 1, 1}, {1, -1, 0}, {1, 1, -2}};
      for (int k = 0; k < 3; k++) for (int i = 0; i < 3; i++) T.b[k][i] = t[k][i];
      v.push_back(T);
   }
   if (with_complex && N <= 3) { Basis B = ident(); rot(B, 0, 1, I1); v.push_back(B); }
   {  // a generic rotation with integer columns (not a plane rotation): (3,4),(4,-3) | (1,2,2),(2,1,-2),(2,-2,1) | quaternion (1,2,2,4)
      Basis Gn = ident();
      const int g2[2][2] = {{3, 4}, {4, -3}}, g3[3][3] = {{1, 2, 2}, {2, 1, -2}, {2, -2, 1}};
      const int g4[4][4] = {{1, 2, 2, 4}, {-2, 1, 4, -2}, {-2, -4, 1, 2}, {-4, 2, -2, 1}};
      for (int k = 0; k < N; k++) for (int i = 0; i < N; i++) Gn.b[k][i] = N == 2 ? g2[k][i] : (N == 3 ? g3[k][i] : g4[k][i]);
      v.push_back(Gn);
   }
   return v;
}
static const double DD[] = {-2, -1, 0, 1, 2, 1e6};
// M = sum_k d_k b_k b_k^{T | dagger} / n_k with row signs
template <int N> static Eigen::Matrix<cd, N, N> gen_qdq(const Basis& B, int signs, const double* d, bool conj2, double sc) {
   Eigen::Matrix<cd, N, N> m;
   for (int i = 0; i < N; i++) for (int j = 0; j < N; j++) {
      CL x = 0;
      for (int k = 0; k < N; k++) {
         LD nk = 0; for (int l = 0; l < N; l++) nk += std::norm(CL(B.b[k][l]));
         CL bi = CL(B.b[k][i]) * (LD)((signs >> i & 1) ? -1 : 1), bj = CL(B.b[k][j]) * (LD)((signs >> j & 1) ? -1 : 1);
         x += (LD)d[k] * bi * (conj2 ? std::conj(bj) : bj) / nk;
      }
      m(i, j) = cd((double)x.real(), (double)x.imag()) * sc;
   }
   return m;
}

template <int N> static bool is_real(const Eigen::Matrix<cd, N, N>& m) { for (int i = 0; i < N; i++) for (int j = 0; j < N; j++) if (m(i, j).imag() != 0) return false; return true; }

struct Known { Known(const double* d, int n, double sc, bool abs_only = false) { known_n = n; known_abs_only = abs_only; for (int k = 0; k < n; k++) known_d[k] = d[k] * sc; }
               ~Known() { known_n = 0; known_abs_only = false; } };
template <int N> static void deg_core(const Basis& B, int signs, const double* dv, int conj2, double sc) {
   if (!B.cplx && conj2) return;   // real basis: hermitian and symmetric constructions coincide
   Eigen::Matrix<cd, N, N> m = gen_qdq<N>(B, signs, dv, conj2, sc);
   // make the symmetry exact (the construction is exact for power-of-two n_k, ~1 ulp otherwise)
   for (int i = 0; i < N; i++) for (int j = 0; j < i; j++) m(i, j) = conj2 ? std::conj(m(j, i)) : m(j, i);
   if (conj2) for (int i = 0; i < N; i++) m(i, i) = m(i, i).real();
   Known kn(dv, N, sc, B.cplx && !conj2);
   if (is_real<N>(m)) {
      Eigen::Matrix<double, N, N> r = m.real();
      fam_herm_real<N>(r); fam_sym_real<N>(r); fam_sym_cplx<N>(m); fam_herm_cplx<N>(m);
   } else if (conj2) fam_herm_cplx<N>(m);
   else fam_sym_cplx<N>(m);
}
template <int N> static void degsvd_core(const Basis& BU, const Basis& BV, const double* dv, double sc) {
   Eigen::Matrix<cd, N, N> m;
   for (int i = 0; i < N; i++) for (int j = 0; j < N; j++) {
      CL x = 0;
      for (int k = 0; k < N; k++) {
         LD nu = 0, nv = 0; for (int l = 0; l < N; l++) { nu += std::norm(CL(BU.b[k][l])); nv += std::norm(CL(BV.b[k][l])); }
         x += (LD)dv[k] * CL(BU.b[k][i]) * std::conj(CL(BV.b[k][j])) / std::sqrt(nu * nv);
      }
      m(i, j) = cd((double)x.real(), (double)x.imag()) * sc;
   }
   Known kn(dv, N, sc);
   if (is_real<N>(m)) { Eigen::Matrix<double, N, N> r = m.real(); fam_svd_real<N>(r); }
   fam_svd_cplx<N>(m);
}
template <int N> static long deg_count() { return (long)bases(N, true).size() * (1L << (N - 1)) * ipow(6, N) * 2; }
template <int N> static void deg_run(long code, double sc) {
   static const std::vector<Basis> bs = bases(N, true);
   Dig d{code};
   int conj2 = d.next(2);
   const Basis& B = bs[d.next((int)bs.size())];
   int signs = d.next(1 << (N - 1));
   double dv[4]; for (int k = 0; k < N; k++) dv[k] = DD[d.next(6)];
   deg_core<N>(B, signs, dv, conj2, sc);
}
// general matrices with repeated singular values: m = U diag(d) V^T
template <int N> static long degsvd_count() { long nb = (long)bases(N, true).size(); return nb * nb * ipow(6, N); }
template <int N> static void degsvd_run(long code, double sc) {
   static const std::vector<Basis> bs = bases(N, true);
   Dig d{code};
   const Basis& BU = bs[d.next((int)bs.size())]; const Basis& BV = bs[d.next((int)bs.size())];
   double dv[4]; for (int k = 0; k < N; k++) dv[k] = DD[d.next(6)];
   degsvd_core<N>(BU, BV, dv, sc);
}
// hierarchical spectra: every N-tuple over {0,+-1e-6,+-1,+-1e6} (zero multiplets with lone eigenvalues of either sign, all sign
// patterns, spreads 1e6 and 1e12) and over {0,1,+-1e-8,+-1e8} (spread 1e8 and 1e16), in every basis (diagonal and rotated)
static const double SA[] = {0, 1, -1, 1e-6, -1e-6, 1e6, -1e6};
static const double SB[] = {0, 1, 1e-8, -1e-8, 1e8, -1e8};
template <int N> static long spr_nspec() { return ipow(7, N) + ipow(6, N); }
template <int N> static void spr_spec(long idx, double* dv) {
   if (idx < ipow(7, N)) { Dig d{idx}; for (int k = 0; k < N; k++) dv[k] = SA[d.next(7)]; }
   else { Dig d{idx - ipow(7, N)}; for (int k = 0; k < N; k++) dv[k] = SB[d.next(6)]; }
}
template <int N> static long spr_count() { return (long)bases(N, true).size() * spr_nspec<N>() * 2; }
template <int N> static void spr_run(long code, double sc) {
   static const std::vector<Basis> bs = bases(N, true);
   Dig d{code};
   int conj2 = d.next(2);
   const Basis& B = bs[d.next((int)bs.size())];
   double dv[4]; spr_spec<N>(d.c, dv);
   deg_core<N>(B, 0, dv, conj2, sc);
}
template <int N> static long sprsvd_count() { long nb = (long)bases(N, true).size(); return nb * nb * spr_nspec<N>(); }
template <int N> static void sprsvd_run(long code, double sc) {
   static const std::vector<Basis> bs = bases(N, true);
   Dig d{code};
   const Basis& BU = bs[d.next((int)bs.size())]; const Basis& BV = bs[d.next((int)bs.size())];
   double dv[4]; spr_spec<N>(d.c, dv);
   degsvd_core<N>(BU, BV, dv, sc);
}

// Yukawa-like 3x3: hierarchical diagonal times CKM-like rotation (fs_svd complex 3x3 as in the THDM)
static const double YUK[][3] = {{2.4e-3, 1.27, 173.34}, {4.76e-3, 0.104, 4.18}, {5.1e-4, 0.1057, 1.777}, {1, 1, 1}, {0, 1, 1}, {0, 0, 1}, {1, 1, 1e-12}};
static const double ANG[] = {0, 0.52359877559829887, 0.78539816339744831, 0.2274};
static long y3c_count() { return 7 * 4 * 4 * 4 * 2 * 2; }
static void y3c_run(long code, double sc) {
   Dig d{code};
   const double* y = YUK[d.next(7)];
   double t12 = ANG[d.next(4)], t13 = ANG[d.next(4)] * (1.0 / 64), t23 = ANG[d.next(4)] * 0.25, del = d.next(2) ? 1.2 : 0.0;
   int side = d.next(2);
   cd e = std::polar(1.0, del);
   double s12 = std::sin(t12), s13 = std::sin(t13), s23 = std::sin(t23), c12 = std::cos(t12), c13 = std::cos(t13), c23 = std::cos(t23);
   Eigen::Matrix<cd, 3, 3> V;
   V << c12 * c13, s12 * c13, s13 / e, -s12 * c23 - c12 * s23 * s13 * e, c12 * c23 - s12 * s23 * s13 * e, s23 * c13,
      s12 * s23 - c12 * c23 * s13 * e, -c12 * s23 - s12 * c23 * s13 * e, c23 * c13;
   Eigen::Matrix<cd, 3, 3> Y; Y.setZero(); for (int i = 0; i < 3; i++) Y(i, i) = y[i] * sc;
   Eigen::Matrix<cd, 3, 3> m = side ? (V.adjoint() * Y).eval() : (Y * V).eval();
   fam_svd_cplx<3>(m);
}

struct Set { const char* name; long count; void (*run)(long, double); };
#define NEL(a) ((int)(sizeof(a) / sizeof(a[0])))
static std::vector<Set> sets = {
   {"g2r", ipow(9, 4), [](long c, double sc) { auto m = gen_full<2, double>(c, A9, 9, sc); fam_svd_real<2>(m); fam_svd_cplx<2>(m.cast<cd>().eval()); chk_utils_2x2(m); }},
   {"s2r", ipow(9, 3), [](long c, double sc) { auto m = gen_sym<2, double>(c, A9, 9, sc); fam_herm_real<2>(m); fam_sym_real<2>(m);
                                               fam_sym_cplx<2>(m.cast<cd>().eval()); fam_herm_cplx<2>(m.cast<cd>().eval()); chk_utils_2x2(m); }},
   {"g2c", ipow(8, 4), [](long c, double sc) { fam_svd_cplx<2>(gen_full<2, cd>(c, C8, 8, sc)); }},
   {"s2c", ipow(8, 3), [](long c, double sc) { fam_sym_cplx<2>(gen_sym<2, cd>(c, C8, 8, sc)); }},
   {"h2c", 81 * 8, [](long c, double sc) { fam_herm_cplx<2>(gen_herm<2>(c, A9, 9, C8, 8, sc)); }},
   {"s3r5", ipow(5, 6), [](long c, double sc) { auto m = gen_sym<3, double>(c, A7, 5, sc); fam_herm_real<3>(m); fam_sym_real<3>(m);
                                                fam_sym_cplx<3>(m.cast<cd>().eval()); fam_herm_cplx<3>(m.cast<cd>().eval()); }},
   {"s3r7", ipow(7, 6), [](long c, double sc) { auto m = gen_sym<3, double>(c, A7, 7, sc); fam_herm_real<3>(m); fam_sym_real<3>(m);
                                                fam_sym_cplx<3>(m.cast<cd>().eval()); }},
   {"s3c", ipow(4, 6), [](long c, double sc) { fam_sym_cplx<3>(gen_sym<3, cd>(c, C4, 4, sc)); }},
   {"h3c5", 64 * 125, [](long c, double sc) { fam_herm_cplx<3>(gen_herm<3>(c, D4, 4, CO5, 5, sc)); }},
   {"h3c9", 216 * 729, [](long c, double sc) { fam_herm_cplx<3>(gen_herm<3>(c, D6, 6, CO9, 9, sc)); }},
   {"g3r", ipow(3, 9), [](long c, double sc) { fam_svd_real<3>(gen_full<3, double>(c, A3, 3, sc)); }},
   {"g3c3", ipow(3, 9), [](long c, double sc) { fam_svd_cplx<3>(gen_full<3, cd>(c, C3, 3, sc)); }},
   {"g3c4", ipow(4, 9), [](long c, double sc) { fam_svd_cplx<3>(gen_full<3, cd>(c, C4, 4, sc)); }},
   {"g3r5", ipow(5, 9), [](long c, double sc) { fam_svd_real<3>(gen_full<3, double>(c, A7, 5, sc)); }},
   {"g3c5", ipow(5, 9), [](long c, double sc) { fam_svd_cplx<3>(gen_full<3, cd>(c, C5H, 5, sc)); }},
   {"y3c", y3c_count(), y3c_run},
   {"s4r", ipow(3, 10), [](long c, double sc) { auto m = gen_sym<4, double>(c, A3, 3, sc); fam_sym_real<4>(m); fam_herm_real<4>(m); }},
   {"s4rc", ipow(3, 10), [](long c, double sc) { auto m = gen_sym<4, double>(c, A3, 3, sc); fam_sym_cplx<4>(m.cast<cd>().eval()); fam_herm_cplx<4>(m.cast<cd>().eval()); }},
   {"n4r5", ipow(5, 7), [](long c, double sc) { fam_sym_real<4>(gen_neut<double>(c, AN, 5, sc)); }},
   {"n4r7", ipow(7, 7), [](long c, double sc) { fam_sym_real<4>(gen_neut<double>(c, AN, 7, sc)); }},
   {"n4c", ipow(4, 7), [](long c, double sc) { fam_sym_cplx<4>(gen_neut<cd>(c, C4, 4, sc)); }},
   {"s4c", ipow(3, 10), [](long c, double sc) { fam_sym_cplx<4>(gen_sym<4, cd>(c, C3, 3, sc)); }},
   {"h4c", 81 * 729, [](long c, double sc) { fam_herm_cplx<4>(gen_herm<4>(c, A3, 3, C3, 3, sc)); }},
   {"x23", ipow(4, 6), [](long c, double sc) { Dig d{c}; Eigen::Matrix<double, 2, 3> m; for (int i = 0; i < 2; i++) for (int j = 0; j < 3; j++) m(i, j) = A4[d.next(4)] * sc; fam_svd_rect<2, 3>(m); }},
   {"x32", ipow(4, 6), [](long c, double sc) { Dig d{c}; Eigen::Matrix<double, 3, 2> m; for (int i = 0; i < 3; i++) for (int j = 0; j < 2; j++) m(i, j) = A4[d.next(4)] * sc; fam_svd_rect<3, 2>(m); }},
   {"deg2", deg_count<2>(), deg_run<2>}, {"deg3", deg_count<3>(), deg_run<3>}, {"deg4", deg_count<4>(), deg_run<4>},
   {"degsvd2", degsvd_count<2>(), degsvd_run<2>}, {"degsvd3", degsvd_count<3>(), degsvd_run<3>},
   {"spr2", spr_count<2>(), spr_run<2>}, {"spr3", spr_count<3>(), spr_run<3>}, {"spr4", spr_count<4>(), spr_run<4>},
   {"sprsvd2", sprsvd_count<2>(), sprsvd_run<2>}, {"sprsvd3", sprsvd_count<3>(), sprsvd_run<3>},
};

static void report(const std::string& set) {
   for (auto& e : grps) {
      const Grp& G = e.second;
      std::printf("GRP %s %s n=%ld fails=%ld rec=%.3e uni=%.3e val=%.3e seq=%ld fresh=%ld known=%ld ebr=%.3e cls=", set.c_str(), e.first.c_str(), G.n, G.nfail, G.rec, G.uni, G.val, G.seq, G.fresh, G.known, G.ebr);
      bool first = true;
      for (auto& c : G.cls) { std::printf("%s%s:%ld", first ? "" : ",", c.first.c_str(), c.second); first = false; }
      if (first) std::printf("-");
      std::printf("\n");
      for (auto& f : G.fk) std::printf("FK %s %s %s %ld\n", set.c_str(), e.first.c_str(), f.first.c_str(), f.second);
   }
   grps.clear();
}

static const Set* find_set(const std::string& name) { for (auto& s : sets) if (name == s.name) return &s; return nullptr; }

// zygote: never calls the library itself
static void zygote_loop(int req_r, int rsp_w) {
   FILE* in = fdopen(req_r, "r");
   char line[512];
   while (in && std::fgets(line, sizeof line, in)) {
      char set[64], grp[128]; double sc; long code; int ov;
      if (std::sscanf(line, "%63s %lf %ld %127s %d", set, &sc, &code, grp, &ov) != 5) { uint32_t z = 0; wr_all(rsp_w, &z, 4); continue; }
      pid_t pid = fork();
      if (pid == 0) {
         fresh_child = true; fresh_group = grp; fresh_ov = ov; fresh_out = rsp_w;
         cur_set = set; cur_scale = sc; cur_code = code;
         const Set* S = find_set(set);
         if (S) S->run(code, sc);
         uint32_t z = 0; wr_all(rsp_w, &z, 4); _exit(0);     // group not reached
      }
      if (pid < 0) { uint32_t z = 0; wr_all(rsp_w, &z, 4); continue; }
      int st; waitpid(pid, &st, 0);
   }
   _exit(0);
}
static void start_zygote() {
   int a[2], b[2];
   if (pipe(a) != 0 || pipe(b) != 0) { std::printf("ERR pipe\n"); std::exit(2); }
   pid_t pid = fork();
   if (pid < 0) { std::printf("ERR fork\n"); std::exit(2); }
   if (pid == 0) { close(a[1]); close(b[0]); close(0); zygote_loop(a[0], b[1]); }
   close(a[0]); close(b[1]); zy_req = a[1]; zy_rsp = b[0];
}

int main() {
   start_zygote();     // before anything else: the zygote's memory image has never seen a library call
   std::string cmd;
   while (std::cin >> cmd) {
      if (cmd == "sets") {
         for (auto& s : sets) std::printf("SET %s %ld\n", s.name, s.count);
      } else if (cmd == "run" || cmd == "one") {
         std::string name, sc; std::cin >> name >> sc;
         const Set* S = find_set(name);
         if (!S) { std::printf("ERR unknown set %s\n", name.c_str()); return 2; }
         cur_set = name; cur_scale = std::strtod(sc.c_str(), nullptr);
         long n = 0;
         if (cmd == "run") {
            long sh, nsh; std::string fr; std::cin >> sh >> nsh >> fr;
            fresh_enabled = fr == "fresh";
            verbose = false;
            for (long c = sh; c < S->count; c += nsh) { cur_code = c; S->run(c, cur_scale); n++; }
         } else {
            long c; std::string fr; std::cin >> c >> fr; fresh_enabled = fr == "fresh";
            verbose = true; cur_code = c; S->run(c, cur_scale); n = 1;
         }
         report(name);
         std::printf("END %s %ld\n", name.c_str(), n);
      } else { std::printf("ERR cmd %s\n", cmd.c_str()); return 2; }
      std::fflush(stdout);
   }
   return 0;
}
