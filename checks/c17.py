"""C17 - the C interface is a faithful, exception-tight mirror of the C++ interface.

Explicit-state BFS over C-API call sequences (harness/capi.cpp, ASan+UBSan build, one
forked child per sequence).  The op table is generated from include/gm2calc/*.h at run
time (lib/capigen.py).  A state is the canonical dump of ALL const entry points of the
mirror object (hash); sequences reaching the same state are merged.  After every step
every const entry point (getters, a_mu, contributions, uncertainties, flags, string
getters with buffer lengths 0,1,2,8,64,4096 inside a canary frame, NULL buffer) is
called on the C handle and on the C++ mirror and compared bit for bit."""
import os
import subprocess
from concurrent.futures import ThreadPoolExecutor

import build
import capigen
from core import InfraError

META = dict(
    level="model_checking",
    technique="explicit-state BFS over C-API call sequences with canonical state hashing, each transition executed on the real C handle (forked ASan child) and mirrored on a C++ object",
    text="All call sequences up to depth 2 (quick) / 3 (thorough; 4 on a reduced alphabet) over an alphabet of macro initialisations, representative setters x {1,-2.5,0,1e-300,1e300,NaN,+-inf}, spectrum/conversion calls and free(NULL); after every step all ~115 generated const entry points are compared bitwise between the C handle and a C++ mirror, no exception may cross an extern C function, string getters are checked inside a canary frame, the child must exit normally under ASan/UBSan. Plus exhaustive setter->getter pairs and the THDM constructor product (enum values incl. 0,7,-1,INT_MAX, NULL sm/config/basis/out pointer). The property's 40-call sequences are covered only up to the stated depth; state merging makes longer sequences redundant only where states coincide.",
    note="trusted: the harness' own dispatch generated from the C headers; mapping of irregular C names to C++ members taken from the header doc comments (lib/capigen.py OVERRIDE); ASan/UBSan instrumentation",
    design_ref="3/C17")
HARNESSES = []   # built in run(): needs the generated table


def prebuild():
    return _exe()


def _exe():
    gen = os.path.join(build.BUILD, "gen")
    capigen.generate(os.path.join(gen, "capi_gen.inc"))
    return build.harness("capi", "asan", ["capi.cpp"], extra=["-I" + gen])


ENV = dict(os.environ, UBSAN_OPTIONS="halt_on_error=1:exitcode=77", ASAN_OPTIONS="exitcode=78:detect_leaks=1")


def _run_lines(exe, mode, lines):
    p = subprocess.run([exe, mode], input="\n".join(lines) + "\n", stdout=subprocess.PIPE, stderr=subprocess.DEVNULL,
                       text=True, env=ENV, timeout=3000)
    out = {}
    for ln in p.stdout.split("\n"):
        if ln.startswith("R "):
            tk = ln.split(" ", 4)
            out[tk[1]] = (tk[2], tk[3] if len(tk) > 3 else "", tk[4] if len(tk) > 4 else "")
    return out


def _parallel(exe, mode, items):
    """items: list of (id, text) -> dict id -> (status, hash, detail)"""
    n = 16
    chunks = [items[i::n] for i in range(n)]
    res = {}
    with ThreadPoolExecutor(n) as ex:
        for r in ex.map(lambda ch: _run_lines(exe, mode, ["%s %s" % it for it in ch]) if ch else {}, chunks):
            res.update(r)
    if len(res) != len(items):
        raise InfraError("capi harness returned %d results for %d cases" % (len(res), len(items)))
    return res


def alphabet(fns, quick, reduced=False):
    """op tokens 'fid i k x n len it'"""
    fid = {f[1]: f[0] for f in fns}
    vals = ["1", "-2.5", "0", "1e-300", "1e300", "nan", "inf", "-inf"]
    if reduced:
        vals = ["0", "nan", "1e300"]
    setters = [("set_Mu", 0, 0), ("set_TB", 0, 0), ("set_MassB", 0, 0), ("set_MassWB", 0, 0), ("set_ml2", 1, 1), ("set_me2", 1, 1),
               ("set_MW_pole", 0, 0), ("set_MM_pole", 0, 0), ("set_MCha_pole", 0, 0), ("set_Ae", 1, 1), ("set_scale", 0, 0),
               ("set_MSm_pole", 1, 0), ("set_mq2", 2, 2)]
    if reduced:
        setters = setters[:7]
    ops = [("init_gm2calc", "-1"), ("init_slha", "-2"), ("free_null", "-3"), ("init_slha_slow_convergence", "-4"),
           ("init_refused_tachyon", "-5"), ("init_refused_negative_soft_mass", "-6")]
    for nm, i, k in setters:
        if nm in fid:
            for v in vals:
                ops.append(("%s(%d,%d)=%s" % (nm, i, k, v), "%d %d %d %s 0 0 0" % (fid[nm], i, k, v)))
    for nm in ("calculate_masses", "convert_to_onshell"):
        if nm in fid:
            ops.append((nm, "%d 0 0 0 0 0 0" % fid[nm]))
    if "convert_to_onshell_params" in fid:
        ops.append(("convert_to_onshell_params(1e-8,100)", "%d 0 0 1e-8 0 0 100" % fid["convert_to_onshell_params"]))
        ops.append(("convert_to_onshell_params(1e-14,1)", "%d 0 0 1e-14 0 0 1" % fid["convert_to_onshell_params"]))
    if "set_verbose_output" in fid and not reduced:
        ops.append(("set_verbose_output(1)", "%d 0 0 0 1 0 0" % fid["set_verbose_output"]))
    # every entry point of the headers that is not a const observer must be in the alphabet at least once
    covered = {o[0].split("(")[0] for o in ops}
    for f in fns:
        nm, sig = f[1], f[4]
        if nm.startswith("set_") and nm not in covered and not reduced:
            ops.append(("%s(0,0)=2.5" % nm, "%d 0 0 2.5 1 0 0" % f[0]))
    return ops


def key_of(status, detail):
    d = detail
    if status == "ESCAPE":
        return "escape:" + d.split("from ")[-1].split(" ")[0]
    if status == "CRASH":
        if "AddressSanitizer" in d:
            return "crash:asan:" + (d.split("AddressSanitizer: ")[1].split(" ")[0] if "AddressSanitizer: " in d else "?")
        if "runtime error" in d:
            return "crash:ubsan"
        if "terminate" in d:
            return "crash:terminate"
        return "crash:" + d.split(" ")[0]
    return "mismatch:" + d.split("(")[0].split(":")[0].split(" ")[0]


def run(ctx):
    exe = _exe()
    p = subprocess.run([exe, "list"], stdout=subprocess.PIPE, text=True)
    fns = []
    for ln in p.stdout.split("\n"):
        tk = ln.split()
        if tk and tk[0] == "FN":
            fns.append((int(tk[1]), tk[2], None, None, tk[3]))
    if len(fns) < 100:
        raise InfraError("generated C-API table has only %d entries" % len(fns))
    unhandled = [f[1] for f in fns if f[4] not in ("double:H", "double:H,U", "double:H,U,U", "double:H,U,U,PD", "double:H,D", "void:H,D", "void:H,U,D",
                                                    "void:H,U,U,D", "void:H,I", "gm2calc_error:H", "gm2calc_error:H,D,U", "int:H", "void:H,PC,U") and f[1] not in ("new", "free")]
    if unhandled:
        raise InfraError("C entry points with a signature the harness does not know: %s" % unhandled)
    ctx.note("c_entry_points", len(fns))

    # ---- (a) setter -> getter pairs ------------------------------------------------------
    p = subprocess.run([exe, "pairs"], stdout=subprocess.PIPE, stderr=subprocess.DEVNULL, text=True, env=ENV)
    npairs = 0
    for ln in p.stdout.split("\n"):
        if ln.startswith("P "):
            tk = ln.split(" ", 4)
            if tk[2] != "OK":
                ctx.fail("pairs:" + key_of(tk[2], tk[4] if len(tk) > 4 else ""), "setter/getter pairs on %s model: %s" % ("prepared" if tk[1] == "1" else "fresh", ln[4:300]),
                         {"kind": "pairs", "line": ln})
            else:
                npairs += int(tk[3])
    if npairs == 0 and not ctx.violations:
        raise InfraError("pairs pass produced nothing: " + p.stdout[:200])
    ctx.evals(npairs)
    ctx.nontrivial(("pairs", npairs))

    # ---- (b) BFS over call sequences ---------------------------------------------------------
    depth = 2 if ctx.quick else 3
    ops = alphabet(fns, ctx.quick)
    red = alphabet(fns, ctx.quick, reduced=True)
    states = {}          # hash -> sequence (list of op indices into the alphabet used)
    transitions = 0
    frontier = [()]      # sequences (tuples of (label, token))
    seen_hash = set()
    sample_done = 0
    for d in range(1, depth + 2):        # the last level uses the reduced alphabet (quick: level 3, thorough: level 4)
        alpha = ops if d <= depth else red
        if d > depth:
            # extension level on the reduced alphabet, only from states reached through the reduced alphabet
            redlabels = {o[0] for o in red}
            frontier = [s for s in frontier if all(o[0] in redlabels for o in s)]
        items, seqs = [], {}
        for si, s in enumerate(frontier):
            for oi, o in enumerate(alpha):
                sid = "%d_%d" % (si, oi)
                seq = s + (o,)
                seqs[sid] = seq
                items.append((sid, "|".join(t[1] for t in seq)))
        if ctx.out_of_time("bfs-depth-%d" % d):
            break
        res = _parallel(exe, "seq", items)
        transitions += len(items)
        newfront = []
        for sid in sorted(res, key=lambda x: tuple(int(v) for v in x.split("_"))):
            status, h, detail = res[sid]
            seq = seqs[sid]
            if status != "OK":
                ctx.fail(key_of(status, detail), "%s after sequence [%s]: %s" % (status, "; ".join(o[0] for o in seq), detail[:300]),
                         {"kind": "seq", "tokens": "|".join(t[1] for t in seq), "labels": [o[0] for o in seq]})
                continue
            if h not in seen_hash:
                seen_hash.add(h)
                states[h] = seq
                newfront.append(seq)
                ctx.nontrivial(h)
                if sample_done < 6 and d >= 2:
                    ctx.sample({"sequence": [o[0] for o in seq], "state": h})
                    sample_done += 1
        ctx.note("bfs_level_%d" % d, {"sequences": len(items), "new_states": len(newfront)})
        frontier = newfront
    ctx.evals(transitions)

    # ---- (c) THDM constructor product ------------------------------------------------------------
    cases = []
    ytypes = [0, 1, 2, 3, 4, 5, 6, 7, -1, 2147483647] if not ctx.quick else [0, 1, 2, 3, 4, 5, 6, 7, -1, 2147483647]
    for gauge in (0, 1):
        for yt in ytypes:
            for pset in (0, 1, 2, 3):
                for force in (0, 1):
                    for running in ((0, 1) if not ctx.quick else (1,)):
                        cases.append((gauge, yt, 0, 0, 0, 0, pset, force, running, pset % 2))
        # C flags are ints: every non-zero value (negative, > 1, high bits only) means "true", as in C
        for force, running in [(-1, 1), (2, 1), (0, -1), (0, 2), (0, 256), (1, -2147483648), (1073741824, 1)]:
            for yt in (2, 5):
                cases.append((gauge, yt, 0, 0, 0, 0, 0, force, running, 0))
        # boundary values of the validated inputs (psets 10..24, see fill_mass / fill_gauge in the harness)
        for pset in (range(10, 25) if gauge == 0 else (16, 17)):
            for yt in (2, 5):
                for force in (0, 1):
                    cases.append((gauge, yt, 0, 0, 0, 0, pset, force, 1, 0))
        for smnull, cfgnull, bnull, outnull in [(1, 0, 0, 0), (0, 1, 0, 0), (0, 0, 1, 0), (0, 0, 0, 1), (1, 1, 1, 0), (1, 1, 1, 1)]:
            for yt in (2, 0):
                cases.append((gauge, yt, smnull, cfgnull, bnull, outnull, 0, 0, 1, 0))
    items = [("t%d" % i, " ".join(str(v) for v in c)) for i, c in enumerate(cases)]
    res = _parallel(exe, "thdm", items)
    thdm_states = set()
    for (tid, txt), c in zip(items, cases):
        status, h, detail = res[tid]
        if status != "OK":
            what = "gauge" if c[0] else "mass"
            ctx.fail("thdm:%s:%s" % (what, key_of(status, detail)) + (":ytype-out-of-range" if not 1 <= c[1] <= 6 else ""),
                     "THDM %s-basis constructor case (ytype=%d smNULL=%d cfgNULL=%d basisNULL=%d outNULL=%d pset=%d force=%d running=%d): %s %s"
                     % (what, c[1], c[2], c[3], c[4], c[5], c[6], c[7], c[8], status, detail[:300]), {"kind": "thdm", "case": txt})
        else:
            thdm_states.add(h)
    for h in thdm_states:
        ctx.nontrivial(("thdm", h))
    ctx.evals(len(cases))
    ctx.sample({"thdm_case": "gauge ytype smNULL cfgNULL basisNULL outNULL pset force running smvar = " + items[5][1]})

    # ---- (d) C entry points without a model handle ---------------------------------------------------
    # every function declared in the public C headers must be driven by one of the passes: the generated MSSM
    # table (a, b), the THDM constructor product (c), or this pass
    import glob
    import re
    declared = set()
    for hdr in sorted(glob.glob(os.path.join(build.REPO, "include", "gm2calc", "*.h"))):
        txt = re.sub(r"/\*.*?\*/", "", open(hdr, encoding="latin-1").read(), flags=re.S)
        txt = re.sub(r"//[^\n]*", "", txt)
        declared.update(m.group(1) for m in re.finditer(r"\b(\w+)\s*\([^;{}()]*\)\s*;", txt) if m.group(1) not in ("defined", "__attribute__"))
    covered = {"gm2calc_mssmnofv_" + f[1] for f in fns} | {
        "gm2calc_thdm_new_with_gauge_basis", "gm2calc_thdm_new_with_mass_basis", "gm2calc_thdm_free",
        "gm2calc_thdm_calculate_amu_1loop", "gm2calc_thdm_calculate_amu_2loop", "gm2calc_thdm_calculate_amu_2loop_fermionic",
        "gm2calc_thdm_calculate_amu_2loop_bosonic", "gm2calc_thdm_calculate_uncertainty_amu_0loop",
        "gm2calc_thdm_calculate_uncertainty_amu_1loop", "gm2calc_thdm_calculate_uncertainty_amu_2loop",
        "int_to_c_yukawa_type", "gm2calc_error_str", "gm2calc_sm_set_to_default", "gm2calc_thdm_config_set_to_default", "print_mssmnofv"}
    missing = sorted(d for d in declared if d not in covered)
    if missing:
        raise InfraError("C functions declared in include/gm2calc/*.h that no pass of C17 drives: %s" % missing)
    ctx.note("c_functions_declared", len(declared))
    hitems = [("y%d" % i, "yuk %d" % v) for i, v in enumerate([1, 2, 3, 4, 5, 6, 0, 7, -1, 8, 100, 255, 256, 65536, -2147483648, 2147483647])]
    hitems += [("e%d" % i, "errstr %d" % v) for i, v in enumerate([0, 1, 2, 3])]      # the enumerators of gm2calc_error; other ints are not values of the type
    hitems += [("d0", "defaults 0")] + [("p%d" % v, "print %d" % v) for v in (0, 1, 2, 3)]
    hres = _parallel(exe, "helper", hitems)
    for tid, txt in hitems:
        status, h, detail = hres[tid]
        if status != "OK":
            ctx.fail("helper:%s:%s" % (txt.split()[0], key_of(status, detail)), "C helper case '%s': %s %s" % (txt, status, detail[:300]), {"kind": "helper", "case": txt})
        else:
            ctx.nontrivial(("helper", txt.split()[0], h))
    ctx.evals(len(hitems))
    ctx.assumptions += ["indices passed to indexed getters/setters stay in range (out-of-range indices are outside the property)",
                        "sequence depth bounded; longer histories are covered only through merged states"]
    return ctx.finish(
        "BFS over C-API call sequences: alphabet of %d ops (macros, setters x value alphabet, conversions, free(NULL)), depth %d (+1 level on a %d-op reduced alphabet); "
        "state = hash of all const entry points of the mirror; distinct = reachable states + THDM constructor outcomes" % (len(ops), depth, len(red)),
        {"states": len(states) + len(thdm_states), "transitions": transitions + len(cases), "traces_validated_against_impl": transitions + len(cases) + npairs,
         "mssm_states": len(states), "thdm_cases": len(cases), "setter_getter_pairs": npairs, "alphabet": len(ops), "depth": depth})


def replay(ctx, path):
    import json
    d = json.load(open(path))["data"]
    exe = _exe()
    if d.get("kind") == "seq":
        r = _run_lines(exe, "seq", ["x " + d["tokens"]])
    elif d.get("kind") == "thdm":
        r = _run_lines(exe, "thdm", ["x " + d["case"]])
    elif d.get("kind") == "helper":
        r = _run_lines(exe, "helper", ["x " + d["case"]])
    else:
        print("re-run bin/vcheck C17 for this case kind")
        return 0
    print(r)
    if r["x"][0] != "OK":
        print("VIOLATION property=C17 replay=%s" % path)
        return 1
    return 0
