"""C20 - SM layer: unitary CKM, consistent EW relations, well-behaved running masses.

Bounded exhaustive exploration with harness/sm.cpp as evaluator:
 * Wolfenstein alphabet^4 (9^4) plus 11 out-of-range values in every slot x alphabet^3, angle lattice;
 * EW relations on the (MW/MZ, MZ, alpha) lattice;
 * running masses on a log scale lattice in [1,1e6] GeV (+- ulp around mb, mt, mtau, MZ) x alpha_s(MZ) x mt x mb;
 * THDM mass getters / Yukawa getters with running couplings on and off x 6 Yukawa types x tan beta x spectra.
The oracle is written here (documented formulas, independent Lambda_QCD root)."""
import json
import math
import os
import struct
import subprocess

import numpy as np

import build
from core import InfraError, hexf, unhex

META = dict(
    level="exploration",
    technique="exhaustive input-lattice enumeration of the SM layer against decision rules and documented boundary formulas",
    text="All 6561 Wolfenstein inputs over a 9-value alphabet in [-1,1]^4, 11 out-of-range/non-finite values in each slot against all 729 in-range combinations of the other three, an angle lattice, a (MW/MZ, MZ, alpha) lattice for the electroweak relations, the four running-mass functions on a log scale lattice over [1,1e6] GeV with +-ulp neighbourhoods of the thresholds for all alpha_s(MZ) x mt x mb alphabet values, and the THDM mass/Yukawa getters with running on/off for all six Yukawa types. Exhaustive over these lattices; values between lattice points are not evaluated.",
    note="trusted: numpy/cmath double arithmetic, scipy brentq for the independent Lambda_QCD root, stderr capture through std::cerr rdbuf",
    design_ref="3/C20")

HARNESSES = [(("sm", "plain", ["sm.cpp"]), {})]

PI = math.pi
WOLF = [-1.0, -0.99, -0.2257, 0.0, 1e-9, 0.2257, 0.814, 0.99, 1.0]
NAN, INF = float("nan"), float("inf")
OUTSIDE = [math.nextafter(1.0, 2.0), -math.nextafter(1.0, 2.0), 1.0000001, -1.0000001, 2.0, -2.0, 1e300, -1e300, INF, -INF, NAN]
SLOT = ["lambda", "A", "rhobar", "etabar"]
CKM_DEF = (0.229206, 0.003960, 0.042223)
MZ0 = 91.1876


def _infra(ctx, msg):
    """lattice sanity guards: an infrastructure error unless failures were already recorded (then they are the story)"""
    if not getattr(ctx, "violations", None):
        raise InfraError(msg)
    print("  note: " + msg)


def _exe():
    return build.harness("sm", "plain", ["sm.cpp"])


def call(cmds, timeout=1200):
    p = subprocess.run([_exe()], input="\n".join(cmds) + "\n", stdout=subprocess.PIPE, stderr=subprocess.PIPE,
                       text=True, timeout=timeout)
    if p.returncode != 0:
        raise InfraError("sm harness exit %d: %s" % (p.returncode, p.stdout[-300:] + p.stderr[-300:]))
    blocks, cur = [], []
    for ln in p.stdout.split("\n"):
        if ln.startswith("END "):
            if int(ln.split()[1]) < 0:
                raise InfraError("sm harness: " + ln)
            blocks.append(cur); cur = []
        elif ln.startswith("ERR"):
            raise InfraError("sm harness: " + ln)
        elif ln:
            cur.append(ln)
    if len(blocks) != len(cmds):
        raise InfraError("sm harness: %d blocks for %d commands (%s)" % (len(blocks), len(cmds), p.stderr[-300:]))
    return blocks


def hx(*v):
    return " ".join(hexf(x) if not (isinstance(x, float) and math.isnan(x)) else "nan" for x in v)


def mat(tokens):
    v = [unhex(t) for t in tokens]
    return np.array([complex(v[2 * i], v[2 * i + 1]) for i in range(9)]).reshape(3, 3)


def unitarity_dev(V):
    if not np.all(np.isfinite(V.real)) or not np.all(np.isfinite(V.imag)):
        return INF
    I = np.eye(3)
    return max(np.abs(V @ V.conj().T - I).max(), np.abs(V.conj().T @ V - I).max())


def ulps(x, n):
    out, lo, hi = [x], x, x
    for _ in range(n):
        lo = math.nextafter(lo, -INF); hi = math.nextafter(hi, INF)
        out += [lo, hi]
    return out


# ---------------------------------------------------------------- oracle for the running masses
def alpha5(Q, L):
    """Eq.(9) hep-ph/0207126, nf = 5"""
    t = math.log((Q / L) ** 2)
    it = 1 / t
    lt = math.log(t)
    return 12 * PI / 23 * it * (1 + it * (-348. / 529 * lt + (348. / 529) ** 2 * it * ((lt - 0.5) ** 2 - 78073. / 242208)))


def Fb(a):
    x = a / PI
    return (23. / 6 * x) ** (12. / 23) * (1 + x * (3731. / 3174 + 1.500706 * x))


def conv_drbar(a):
    x = a / PI
    return 1 + x * (-1. / 3 - 29. / 72 * x)


def lambda_qcd(alpha, Q):
    """returns (Lambda, status): status 'root' | 'fallback' (not bracketed in [0.001,10]: documented 0.217) | 'undefined'
    (alpha_s(Q, Lambda) is not defined over the whole bracket, i.e. Q <= 10 GeV)"""
    from scipy.optimize import brentq

    def f(L):
        return alpha - alpha5(Q, L)
    try:
        flo, fhi = f(0.001), f(10.0)
    except (ValueError, ZeroDivisionError):
        return None, "undefined"
    if flo * fhi > 0:
        return 0.217, "fallback"
    return brentq(f, 0.001, 10.0, xtol=1e-15, rtol=1e-15), "root"


def mt_boundary(mt, as_mz, mz):
    a_mt = as_mz / (1 - 23 / (6 * PI) * as_mz * math.log(mz / mt))
    return mt / (1 + 4 / (3 * PI) * a_mt)


def wolf_v13(l, A, r, e):
    """|V13| of the Wolfenstein map; None when not finite"""
    try:
        rpe = complex(r, e)
        v = A * l ** 3 * rpe * math.sqrt(1 - A * A * l ** 4) / math.sqrt(1 - l * l) / (1 - A * A * l ** 4 * rpe)
        a = abs(v)
        return a if math.isfinite(a) else None
    except (ZeroDivisionError, ValueError, OverflowError):
        return None


# ---------------------------------------------------------------- parts
def part_ckm(ctx):
    W = WOLF if ctx.quick else sorted(WOLF + [-0.999999, -0.9, -0.5, 0.5, 0.9, 0.999999])
    NW3 = len(W) ** 3
    pts = [(a, b, c, d) for a in W for b in W for c in W for d in W]
    n_in = len(pts)
    for slot in range(4):
        for o in OUTSIDE:
            for a in W:
                for b in W:
                    for c in W:
                        p = [a, b, c]; p.insert(slot, o)
                        pts.append(tuple(p))
    (res,) = call(["wolf %d %s" % (len(pts), " ".join(hx(*p) for p in pts))])
    if len(res) != len(pts):
        raise InfraError("wolf: %d results for %d points" % (len(res), len(pts)))
    ctx.evals(len(pts))
    n_ok = n_thrown_in = n_thrown_out = 0
    worst = 0.0
    for i, (p, ln) in enumerate(zip(pts, res)):
        tk = ln.split()
        inside = i < n_in
        data = {"kind": "wolf", "p": [hx(x) for x in p]}
        ps = "(lambda,A,rhobar,etabar)=(%r,%r,%r,%r)" % p
        if tk[1] == "EXC":
            if tk[2] != "EInvalidInput":
                ctx.fail("wolfenstein:wrong-exception", "%s raised %s instead of EInvalidInput" % (ps, tk[2]), data)
                continue
            if inside:
                n_thrown_in += 1
                v13 = wolf_v13(*p)
                if v13 is None or v13 < 1 - 1e-9:
                    bad = [SLOT[k] for k in range(4) if abs(p[k]) == 1.0]
                    ctx.fail("wolfenstein:admissible-rejected" + (":" + "+".join(bad) + "=+-1" if bad else ""),
                             "%s lies in [-1,1]^4 and defines a CKM matrix (|V13| = %s) but was rejected: %s"
                             % (ps, v13, " ".join(tk[3:])), data)
                ctx.nontrivial(("wolf", "in-range:|V13|>1 rejected"))
            else:
                n_thrown_out += 1
                ctx.nontrivial(("wolf", "out-of-range rejected", SLOT[(i - n_in) // (len(OUTSIDE) * NW3)]))
            continue
        V = mat(tk[2:20])
        dev = unitarity_dev(V)
        if not inside:
            k = (i - n_in) // (len(OUTSIDE) * NW3)
            ctx.fail("wolfenstein:out-of-range-accepted:" + SLOT[k],
                     "%s has %s outside [-1,1] but was accepted (unitarity deviation %.3g)" % (ps, SLOT[k], dev), data)
            continue
        n_ok += 1
        if not dev <= 1e-14:
            ctx.fail("wolfenstein:not-unitary", "%s accepted but max|V V^+ - 1| = %.3g" % (ps, dev), data)
        else:
            worst = max(worst, dev)
        v13 = wolf_v13(*p)
        ctx.nontrivial(("wolf", "accepted", "V13 non-finite -> theta13=0" if v13 is None else ("V13=0" if v13 == 0 else "generic")))
    ctx.note("wolfenstein", dict(points=len(pts), in_range=n_in, accepted=n_ok, rejected_in_range=n_thrown_in,
                                 rejected_out_of_range=n_thrown_out, worst_unitarity_dev=worst))
    ctx.sample({"wolfenstein alphabet": W, "outside": [repr(o) for o in OUTSIDE]})
    if n_ok < 1000:
        _infra(ctx, "wolfenstein lattice degenerate: only %d accepted" % n_ok)
    # angles
    A1 = [0.0, PI / 6, PI / 4, PI / 2]
    ang = [(a, b, c, d) for a in A1 + [CKM_DEF[0]] for b in A1 + [CKM_DEF[1]] for c in A1 + [CKM_DEF[2]]
           for d in (0.0, 1.2, PI, -PI)]
    if not ctx.quick:
        ext = [-1.0, 3.0, 100.0, 1e-9]
        ang += [(a, b, c, d) for a in ext + A1 for b in ext + A1 for c in ext + A1 for d in (0.0, 1.2, -2.0, 1e3)
                if (a in ext or b in ext or c in ext)]
    (res,) = call(["ang %d %s" % (len(ang), " ".join(hx(*p) for p in ang))])
    ctx.evals(len(ang))
    wa = 0.0
    for p, ln in zip(ang, res):
        tk = ln.split()
        data = {"kind": "ang", "p": [hx(x) for x in p]}
        if tk[1] != "OK":
            ctx.fail("angles:exception", "angles %r raised %s" % (p, " ".join(tk[2:])), data); continue
        dev = unitarity_dev(mat(tk[2:20]))
        if not dev <= 1e-14:
            ctx.fail("angles:not-unitary", "angles (t12,t13,t23,delta)=%r give max|V V^+ - 1| = %.3g" % (p, dev), data)
        else:
            wa = max(wa, dev)
        ctx.nontrivial(("ang", sum(1 for x in p[:3] if x == 0), p[3] == 0))
    ctx.note("angles", dict(points=len(ang), worst_unitarity_dev=wa))


def part_ew(ctx):
    ratios = [0.1, 0.5, 0.88, 80.385 / 91.1876, 0.999999]
    mzs = [MZ0, 1.0, 1000.0]
    alphas = [1e-4, 1 / 137.035999084, 1 / 128.0, 0.1]
    if not ctx.quick:
        ratios += [1e-3, 0.3, 0.7, 0.99, 1 - 2.0 ** -30]
        alphas += [1e-3, 0.01, 0.05]
    pts = [(r * mz, mz, a, a0, 0.1184) for r in ratios for mz in mzs for a in alphas for a0 in (1 / 137.035999084,)]
    (res,) = call(["ew %d %s" % (len(pts), " ".join(hx(*p) for p in pts))])
    ctx.evals(len(pts))
    EPS = 2.0 ** -52
    worst = 0.0
    for p, ln in zip(pts, res):
        mw, mz, a, a0, as_ = p
        cw, sw, e, e0, g2, gY, g3, v = [unhex(t) for t in ln.split()[1:9]]
        data = {"kind": "ew", "p": [hx(x) for x in p]}
        ps = "MW=%r MZ=%r alpha=%r" % (mw, mz, a)

        def rel(x, y):
            return abs(x - y) / abs(y) if y else abs(x)
        checks = [("cw=MW/MZ", rel(cw, mw / mz), 1), ("sw^2+cw^2=1", abs(sw * sw + cw * cw - 1), 4),
                  ("e=sqrt(4 pi alpha)", rel(e, math.sqrt(4 * PI * a)), 2), ("e0=sqrt(4 pi alpha0)", rel(e0, math.sqrt(4 * PI * a0)), 2),
                  ("g3=sqrt(4 pi alpha_s)", rel(g3, math.sqrt(4 * PI * as_)), 2),
                  ("e=g2*sw", rel(g2 * sw, e), 4), ("e=gY*cw", rel(gY * cw, e), 4), ("v=2MW/g2", rel(v, 2 * mw / g2), 4)]
        for name, d, nulp in checks:
            if not (d <= nulp * EPS):
                ctx.fail("ew:" + name, "%s: relation %s violated by %.3g (allowed %d ulp)" % (ps, name, d, nulp), data)
            elif math.isfinite(d):
                worst = max(worst, d / EPS)
        if not all(math.isfinite(x) and x > 0 for x in (cw, sw, e, g2, gY, v)):
            ctx.fail("ew:nonfinite", "%s: non-finite or non-positive derived quantity %r" % (ps, (cw, sw, e, g2, gY, v)), data)
        ctx.nontrivial(("ew", mw / mz > 0.99, a))
    ctx.note("ew", dict(points=len(pts), worst_relation_deviation_ulp=worst))


def scale_lattice(K, specials):
    s = set(10.0 ** (j / K) for j in range(0, 6 * K + 1))
    s.update((1.0, 1e6))
    for x in specials:
        if 1.0 <= x <= 1e6:
            s.update(ulps(x, 2))
    return sorted(s)


def check_curve(ctx, fn, pars, Qs, vals, key_pars, data):
    """finite, > 0, strictly decreasing for separated points / non-increasing within 2 ulp for neighbours, and
    translation invariance m(aQ)/m(Q) independent of Q on the pure log lattice"""
    ok = True
    for Q, v in zip(Qs, vals):
        if not (math.isfinite(v) and v > 0):
            ctx.fail("%s:nonfinite:%s" % (fn, key_pars), "%s(%s, Q=%r) = %r is not finite and positive" % (fn, pars, Q, v),
                     dict(data, Q=hx(Q)))
            ok = False
            break
    if not ok:
        return False
    for (Q1, v1), (Q2, v2) in zip(zip(Qs, vals), zip(Qs[1:], vals[1:])):
        if Q2 > Q1 * (1 + 1e-6):
            if not v2 < v1:
                ctx.fail("%s:monotone" % fn, "%s(%s): m(Q=%r) = %r is not below m(Q=%r) = %r" % (fn, pars, Q2, v2, Q1, v1),
                         dict(data, Q=hx(Q1), Q2=hx(Q2)))
                return False
        elif not v2 <= v1 * (1 + 4 * 2.0 ** -52):
            ctx.fail("%s:monotone-ulp" % fn, "%s(%s): m(Q=%r) = %r exceeds m(Q=%r) = %r" % (fn, pars, Q2, v2, Q1, v1),
                     dict(data, Q=hx(Q1), Q2=hx(Q2)))
            return False
    return True


def check_translation(ctx, fn, pars, K, Qs, vals, data):
    """composition: running Q -> aQ must not depend on Q (autonomous RGE): ratios over equal log steps are equal"""
    byq = dict(zip(Qs, vals))
    lat = [10.0 ** (j / K) for j in range(0, 6 * K + 1)]
    worst = 0.0
    for step in (1, K, 2 * K):
        rs = [(byq[lat[j + step]] / byq[lat[j]], lat[j]) for j in range(0, len(lat) - step)]
        r0 = rs[len(rs) // 2][0]
        for r, q in rs:
            d = abs(r / r0 - 1)
            worst = max(worst, d)
            if not d <= 1e-13:
                where = "Q<boundary" if q < 100 else "Q>=100"
                ctx.fail("%s:composition" % fn,
                         "%s(%s): m(aQ)/m(Q) for a = 10^(%d/%d) is %r at Q=%r but %r at Q=%r (rel. diff %.3g): running Q1->Q2->Q3 "
                         "differs from Q1->Q3 [%s]" % (fn, pars, step, K, r, q, r0, rs[len(rs) // 2][1], d, where),
                         dict(data, Q=hx(q), step=step, K=K))
                return worst
    return worst


def part_running(ctx):
    K = 16 if ctx.quick else 64
    AS = [0.05, 0.08, 0.1184, 0.2, 0.3]
    MT = [100.0, 173.34, 300.0]
    MB = [2.0, 4.18, 6.0]
    MTAU = [1.777] if ctx.quick else [1.0, 1.777, 3.0]
    AEM = [1e-4, 1 / 137.035999084, 1 / 128.0, 0.1]
    if not ctx.quick:
        AS += [0.06, 0.1, 0.13, 0.16, 0.25, 0.29]
        MT += [120.0, 150.0, 200.0, 250.0]
        MB += [3.0, 5.0]
    stats = dict(curves=0, evaluations=0, fallback_cases=0, root_cases=0, worst_translation=0.0, worst_boundary=0.0)

    def wb(x):
        stats["worst_boundary"] = max(stats["worst_boundary"], x)

    # ---- mt
    cmds, meta = [], []
    for mt in MT:
        for a in AS:
            Qs = scale_lattice(K, [mt, MZ0, 4.18, 1.777])
            cmds.append("mt %s %d %s" % (hx(mt, a, MZ0), len(Qs), hx(*Qs)))
            meta.append((mt, a, Qs))
    for (mt, a, Qs), res in zip(meta, call(cmds)):
        vals, warns = parse_R(res)
        stats["curves"] += 1; stats["evaluations"] += len(Qs); ctx.evals(len(Qs))
        pars = "mt_pole=%r, alpha_s(MZ)=%r, MZ=%r" % (mt, a, MZ0)
        data = {"kind": "mt", "mt": hx(mt), "as": hx(a)}
        if any(warns):
            ctx.fail("mt_SM6:unexpected-warning", "mt(%s) printed %r" % (pars, [w for w in warns if w][0]), data)
        if not check_curve(ctx, "mt_SM6", pars, Qs, vals, "as=%g:mt=%g" % (a, mt), data):
            continue
        b = vals[Qs.index(mt)]
        ref = mt_boundary(mt, a, MZ0)
        wb(abs(b / ref - 1))
        if not abs(b - ref) <= 1e-14 * ref:
            ctx.fail("mt_SM6:boundary", "mt(%s, Q=mt_pole) = %r, documented boundary value mt_pole/(1 + 4 alpha_s(mt)/(3 pi)) = %r"
                     % (pars, b, ref), dict(data, Q=hx(mt)))
        stats["worst_translation"] = max(stats["worst_translation"], check_translation(ctx, "mt_SM6", pars, K, Qs, vals, data))
        ctx.nontrivial(("mt", a, mt))

    # ---- mtau
    cmds, meta = [], []
    for ml in MTAU:
        for a in AEM:
            Qs = scale_lattice(K, [ml, MZ0, 4.18, 173.34])
            cmds.append("mtau %s %d %s" % (hx(ml, a), len(Qs), hx(*Qs)))
            meta.append((ml, a, Qs))
    for (ml, a, Qs), res in zip(meta, call(cmds)):
        vals, warns = parse_R(res)
        stats["curves"] += 1; stats["evaluations"] += len(Qs); ctx.evals(len(Qs))
        pars = "mtau_pole=%r, alpha_em(MZ)=%r" % (ml, a)
        data = {"kind": "mtau", "mtau": hx(ml), "aem": hx(a)}
        if any(warns):
            ctx.fail("mtau_SM6:unexpected-warning", "mtau(%s) printed %r" % (pars, [w for w in warns if w][0]), data)
        if not check_curve(ctx, "mtau_SM6", pars, Qs, vals, "aem=%g" % a, data):
            continue
        b = vals[Qs.index(ml)]
        if b != ml:
            ctx.fail("mtau_SM6:boundary", "mtau(%s, Q=mtau_pole) = %r differs from the boundary value %r" % (pars, b, ml), dict(data, Q=hx(ml)))
        stats["worst_translation"] = max(stats["worst_translation"], check_translation(ctx, "mtau_SM6", pars, K, Qs, vals, data))
        ctx.nontrivial(("mtau", a, ml))

    # ---- mb SM6
    cmds, meta = [], []
    for mb in MB:
        for mt in MT:
            for a in AS:
                Qs = scale_lattice(K, [mt, mb, MZ0, 1.777])
                cmds.append("mb6 %s %d %s" % (hx(mb, mt, a, MZ0), len(Qs), hx(*Qs)))
                meta.append((mb, mt, a, Qs))
    for (mb, mt, a, Qs), res in zip(meta, call(cmds)):
        vals, warns = parse_R(res)
        stats["curves"] += 1; stats["evaluations"] += len(Qs); ctx.evals(len(Qs))
        pars = "mb(mb)=%r, mt_pole=%r, alpha_s(MZ)=%r, MZ=%r" % (mb, mt, a, MZ0)
        data = {"kind": "mb6", "mb": hx(mb), "mt": hx(mt), "as": hx(a)}
        L, st = lambda_qcd(a, MZ0)
        haswarn = [bool(w) and "ambda_QCD" in w for w in warns]
        if st == "fallback":
            stats["fallback_cases"] += 1
            if not all(haswarn):
                ctx.fail("mb_SM6:fallback-no-warning", "mb(%s): Lambda_QCD cannot be bracketed in [0.001,10] GeV but no warning was printed" % pars, data)
            ctx.nontrivial(("mb6", "fallback", a))
        else:
            stats["root_cases"] += 1
            if any(warns):
                ctx.fail("mb_SM6:unexpected-warning", "mb(%s) printed %r although Lambda_QCD = %r solves alpha_s(MZ)" % (pars, [w for w in warns if w][0], L), data)
            ctx.nontrivial(("mb6", "root", a))
        # the 5-flavour alpha_s of Eq.(9) must be defined at mb: t = log(mb^2/Lambda^2) > 0
        t_mb = math.log((mb / L) ** 2)
        kp = "Lambda_QCD>=mb" if t_mb <= 0 else "as=%g:mb=%g" % (a, mb)
        if not check_curve(ctx, "mb_SM6", pars + " [Lambda_QCD=%.4g, log(mb^2/Lambda^2)=%.3g]" % (L, t_mb), Qs, vals, kp, data):
            continue
        b = vals[Qs.index(mt)]
        try:
            ref = mb * Fb(alpha5(mt, L)) / Fb(alpha5(mb, L))
        except (ValueError, ZeroDivisionError):
            ref = NAN
        if math.isfinite(ref) and ref > 0:
            wb(abs(b / ref - 1))
            if not abs(b - ref) <= 1e-8 * ref:
                ctx.fail("mb_SM6:boundary" + (":fallback" if st == "fallback" else ""),
                         "mb(%s, Q=mt_pole) = %r, boundary value mb(mb) Fb(alpha_s(mt))/Fb(alpha_s(mb)) with Lambda_QCD = %r (%s) is %r"
                         % (pars, b, L, st, ref), dict(data, Q=hx(mt)))
        stats["worst_translation"] = max(stats["worst_translation"], check_translation(ctx, "mb_SM6", pars, K, Qs, vals, data))
        ctx.nontrivial(("mb6", a, mt, mb))

    # ---- mb SM5 DR-bar: alpha_s given at the destination scale; consistent alpha_s(Q) from the independent Lambda
    cmds, meta = [], []
    for mb in MB:
        for a in AS:
            L, st = lambda_qcd(a, MZ0)
            Qs = [q for q in scale_lattice(K, [mb, MZ0, 173.34]) if q > 1.5 * L]
            pairs = []
            for q in Qs:
                try:
                    aq = a if q == MZ0 else alpha5(q, L)
                except (ValueError, ZeroDivisionError):
                    aq = NAN
                if math.isfinite(aq) and 0 < aq < 1:
                    pairs.append((aq, q))
            cmds.append("mb5 %s %d %s" % (hx(mb), len(pairs), " ".join(hx(x, q) for x, q in pairs)))
            meta.append((mb, a, L, st, pairs))
    by_as = {}
    for (mb, a, L, st, pairs), res in zip(meta, call(cmds)):
        vals, warns = parse_R(res)
        stats["curves"] += 1; stats["evaluations"] += len(pairs); ctx.evals(len(pairs))
        pars = "mb(mb)=%r, alpha_s(MZ)=%r" % (mb, a)
        data = {"kind": "mb5", "mb": hx(mb), "as": hx(a)}
        good = []
        for (aq, q), v, w in zip(pairs, vals, warns):
            L2, st2 = lambda_qcd(aq, q)
            d2 = dict(data, Q=hx(q), aq=hx(aq))
            cls = "Q<=10" if st2 == "undefined" else ("Lambda_QCD>=mb" if L2 >= mb else st2)
            if st2 == "fallback" and not (w and "ambda_QCD" in w):
                ctx.fail("mb_SM5_DRbar:fallback-no-warning", "mb_DRbar(%s, alpha_s(Q)=%r, Q=%r): Lambda_QCD not bracketed but no warning" % (pars, aq, q), d2)
            if st2 == "root" and w:
                ctx.fail("mb_SM5_DRbar:unexpected-warning", "mb_DRbar(%s, alpha_s(Q)=%r, Q=%r) printed %r" % (pars, aq, q, w), d2)
            if not (math.isfinite(v) and v > 0):
                ctx.fail("mb_SM5_DRbar:nonfinite:%s" % cls,
                         "mb_DRbar(%s, alpha_s(Q)=%r, Q=%r) = %r is not finite and positive%s"
                         % (pars, aq, q, v, " (warning: %s)" % w if w else " and no warning was printed"), d2)
                continue
            ctx.nontrivial(("mb5", cls, a, mb))
            if st2 in ("root", "fallback"):
                try:
                    ref = mb * Fb(aq) / Fb(alpha5(mb, L2)) * conv_drbar(aq)
                except (ValueError, ZeroDivisionError):
                    ref = NAN
                if math.isfinite(ref) and ref > 0:
                    wb(abs(v / ref - 1))
                    if not abs(v - ref) <= 1e-8 * ref:
                        ctx.fail("mb_SM5_DRbar:value" + (":fallback" if st2 == "fallback" else ""),
                                 "mb_DRbar(%s, alpha_s(Q)=%r, Q=%r) = %r, Eqs.(5),(9),(11) with Lambda_QCD = %r (%s) give %r"
                                 % (pars, aq, q, v, L2, st2, ref), d2)
                if st2 == "root":
                    good.append((q, v))
        # boundary scale Q = mb(mb): mb_DRbar = mb(mb) * (MS-bar -> DR-bar factor)
        for (aq, q), v in zip(pairs, vals):
            if q == mb and math.isfinite(v) and lambda_qcd(aq, q)[1] == "root":
                ref = mb * conv_drbar(aq)
                if not abs(v - ref) <= 1e-8 * ref:
                    ctx.fail("mb_SM5_DRbar:boundary", "mb_DRbar(%s, Q=mb) = %r but mb(mb)*(1 - a/3 - 29 a^2/72) = %r" % (pars, v, ref),
                             dict(data, Q=hx(q), aq=hx(aq)))
        # monotone on the part where the root exists
        for (q1, v1), (q2, v2) in zip(good, good[1:]):
            if q2 > q1 * (1 + 1e-6) and not v2 < v1:
                ctx.fail("mb_SM5_DRbar:monotone", "mb_DRbar(%s): m(Q=%r) = %r is not below m(Q=%r) = %r" % (pars, q2, v2, q1, v1),
                         dict(data, Q=hx(q1)))
                break
        by_as.setdefault(a, []).append((mb, dict(good)))
    # composition for the 5-flavour running: m(Q2)/m(Q1) must not depend on where the running started (mb(mb))
    for a, lst in sorted(by_as.items()):
        mb0, ref = lst[len(lst) // 2]
        for mb, cur in lst:
            common = sorted(set(cur) & set(ref))
            for q1, q2 in zip(common, common[8:]):
                r1, r0 = cur[q2] / cur[q1], ref[q2] / ref[q1]
                # every call solves Lambda_QCD anew to 1e-10 absolute, which moves alpha_s(mb) by up to ~1e-8 relative
                if not abs(r1 / r0 - 1) <= 1e-8:
                    ctx.fail("mb_SM5_DRbar:composition", "alpha_s(MZ)=%r: m(%r)/m(%r) = %r starting from mb(mb)=%r but %r from mb(mb)=%r"
                             % (a, q2, q1, r1, mb, r0, mb0), {"kind": "mb5", "mb": hx(mb), "as": hx(a), "Q": hx(q1)})
                    break
    ctx.note("running", {k: (float("%.3g" % v) if isinstance(v, float) else v) for k, v in stats.items()})
    ctx.sample({"scale lattice": "10^(j/%d), j=0..%d, plus +-2 ulp around mb, mt, mtau, MZ" % (K, 6 * K), "alpha_s": AS, "mt": MT, "mb": MB})
    if stats["fallback_cases"] == 0 or stats["root_cases"] == 0:
        _infra(ctx, "running-mass lattice does not reach both the Lambda_QCD root and the fallback")


def parse_R(res):
    vals, warns = [], []
    for ln in res:
        tk = ln.split(" ", 4)
        if tk[1] == "EXC":
            vals.append(NAN); warns.append("exception " + ln); continue
        vals.append(unhex(tk[1]))
        warns.append(tk[4].strip() if len(tk) > 4 else "")
    return vals, warns


def part_thdm(ctx):
    types = [1, 2, 3, 4, 5, 6]
    tbs = [0.5, 3.0, 50.0]
    spectra = [(125.0, 400.0, 420.0, 440.0, 40000.0), (125.0, 130.0, 50.0, 90.0, 1000.0), (125.0, 1500.0, 1500.0, 1500.0, 700000.0)]
    sbas = [1.0, 0.995, 0.9]
    ass = [0.1184]
    if not ctx.quick:
        tbs += [1.0, 10.0]
        spectra += [(125.0, 200.0, 0.5, 0.8, 100.0), (10.0, 125.0, 300.0, 300.0, 3000.0)]
        sbas += [-0.995, 0.0]
        ass += [0.3]
    scales = [-1.0, 0.0, -0.0, 5e-324, 1.0, MZ0, 173.34, 1e3, 1e6]
    cmds, meta = [], []
    for ty in types:
        for tb in tbs:
            for sp in spectra:
                for sba in sbas:
                    for a in ass:
                        zu, zd, zl = (0.3, -0.2, 1.5) if ty == 5 else (0.0, 0.0, 0.0)
                        cmds.append("thdm %d %s %d %s" % (ty, hx(tb, sp[0], sp[1], sp[2], sp[3], sba, 0.0, 0.0, sp[4], zu, zd, zl, a),
                                                          len(scales), hx(*scales)))
                        meta.append(dict(type=ty, tb=tb, spectrum=sp, sba=sba, alpha_s=a, cmd=cmds[-1]))
    nok = nexc = 0
    worst = 0.0
    for m, res in zip(meta, call(cmds)):
        ctx.evals(1)
        desc = "THDM type %d tan(beta)=%g (mh,mH,mA,mHp,m12^2)=%r sin(b-a)=%g alpha_s=%g" % (m["type"], m["tb"], m["spectrum"], m["sba"], m["alpha_s"])
        data = {"kind": "thdm", "cmd": m["cmd"]}
        if not res or res[0].split()[1] != "OK":
            nexc += 1
            continue
        bad = [ln for ln in res if ln.startswith("T EXC")]
        if bad:
            nexc += 1
            continue
        nok += 1
        TS = [unhex(t) for t in [ln for ln in res if ln.startswith("TS")][0].split()[1:]]
        TE = {}
        for ln in res:
            tk = ln.split()
            if tk[0] == "TE":
                TE[tk[1]] = [unhex(t) for t in tk[2:5]]
        for ln in res:
            tk = ln.split()
            if tk[0] != "TM":
                continue
            on, s = int(tk[1]), unhex(tk[2])
            got = [unhex(t) for t in tk[3:12]]
            exp = list(TS)
            if on and s > 0:
                e = TE[tk[2]]
                exp[2], exp[5], exp[8] = e[0], e[1], e[2]
            for name, g, x in zip(["mu", "mc", "mt", "md", "ms", "mb", "me", "mm", "mtau"], got, exp):
                if struct.pack("d", g) != struct.pack("d", x):
                    ctx.fail("thdm:masses:running-%s:%s" % ("on" if on else "off", "scale>0" if s > 0 else "scale<=0"),
                             "%s, running couplings %s: %s(scale=%r) = %r but %s = %r"
                             % (desc, "enabled" if on else "disabled", name, s, g,
                                "the running mass" if (on and s > 0 and name in ("mt", "mb", "mtau")) else "the input mass", x), data)
            ctx.nontrivial(("thdm-masses", on, s > 0))
        TY, TO = {}, {}
        for ln in res:
            tk = ln.split()
            if tk[0] in ("TY", "TO"):
                (TY if tk[0] == "TY" else TO)[(int(tk[1]), tk[2])] = mat(tk[3:21])
        for (on, name), Y in sorted(TY.items()):
            O = TO[(on, name)]
            scale = max(np.abs(O).max(), 1e-300)
            d = np.abs(Y - O).max() / scale
            if not d <= 1e-14:
                ctx.fail("thdm:yukawa:running-%s" % ("on" if on else "off"),
                         "%s, running couplings %s: %s deviates by %.3g (relative to its largest entry) from the same expression fed with %s"
                         % (desc, "enabled" if on else "disabled", name, d,
                            "the running masses at the scale of the Higgs boson" if on else "the input (pole) masses"), data)
            else:
                worst = max(worst, d)
            if on:
                Yoff = TY[(0, name)]
                if abs(Yoff[2, 2]) > 0 and Y[2, 2] == Yoff[2, 2]:
                    ctx.fail("thdm:yukawa:running-has-no-effect", "%s: %s(3,3) = %r is the same with running couplings enabled and disabled"
                             % (desc, name, Y[2, 2]), data)
            ctx.nontrivial(("thdm-yukawa", m["type"], name, on))
    ctx.note("thdm", dict(models=len(meta), constructed=nok, rejected=nexc, worst_yukawa_dev=worst))
    if nok < len(meta) // 2:
        _infra(ctx, "THDM lattice: only %d of %d models could be constructed" % (nok, len(meta)))


def run(ctx):
    build.ensure("plain")
    part_ckm(ctx)
    part_ew(ctx)
    part_running(ctx)
    part_thdm(ctx)
    ctx.assumptions += [
        "in-range Wolfenstein input must be accepted when it defines a matrix: |V13| <= 1-1e-9 (or V13 not finite, where the code documents theta13 = 0); |V13| >= 1 may be rejected",
        "composition is tested as translation invariance of m(aQ)/m(Q) along the log lattice (the API has no start scale other than the boundary); for the 5-flavour mb as independence of the start value mb(mb)",
        "boundary values: mt(mt)=mt/(1+4 alpha_s(mt)/(3 pi)) with the 1-loop alpha_s(mt), mtau(mtau)=mtau, mb(mt)=mb(mb) Fb(alpha_s(mt))/Fb(alpha_s(mb)) (hep-ph/0207126 Eqs.5,9) with an independently solved Lambda_QCD, tolerance 1e-8 (root accuracy 1e-10)",
        "strict decrease is required between lattice points separated by more than 1e-6 relative; +-ulp neighbours may differ by 2 ulp in the wrong direction (pow is not guaranteed monotone)"]
    return ctx.finish(
        "complete products of the stated alphabets (Wolfenstein^4 + out-of-range slot x alphabet^3, angles, EW lattice, "
        "alpha_s x mt x mb x scale lattice, THDM type x tan beta x spectrum x sin(b-a)); distinct = outcome class per part")


def replay(ctx, path):
    d = json.load(open(path))
    key, data = d["key"], d["data"]

    class R:  # minimal recording ctx
        def __init__(self):
            self.f = []; self.quick = True

        def fail(self, k, what, data=None):
            self.f.append((k, what))

        def evals(self, n=1): pass
        def nontrivial(self, k): pass
        def note(self, k, v): pass
        def sample(self, s): pass
    r = R()
    r.quick = not os.path.basename(path).startswith("thorough")   # same lattice as the run that produced the case
    kind = data["kind"]
    if kind in ("wolf", "ang"):
        p = [unhex(x) for x in data["p"]]
        (res,) = call(["%s 1 %s" % (kind, hx(*p))])
        print("replay:", res[0][:200])
        tk = res[0].split()
        if kind == "wolf":
            inside = all(abs(x) <= 1 for x in p)
            if tk[1] == "EXC":
                v13 = wolf_v13(*p)
                still = (not inside and False) or (inside and (v13 is None or v13 < 1 - 1e-9)) or tk[2] != "EInvalidInput"
            else:
                still = (not inside) or not unitarity_dev(mat(tk[2:20])) <= 1e-14
        else:
            still = tk[1] != "OK" or not unitarity_dev(mat(tk[2:20])) <= 1e-14
    else:
        # re-run the part the case belongs to and look for the same key
        {"ew": part_ew, "mt": part_running, "mtau": part_running, "mb6": part_running, "mb5": part_running,
         "thdm": part_thdm}[kind](r)
        still = any(k == key for k, _ in r.f)
        for k, w in r.f:
            if k == key:
                print("replay:", w); break
    if still:
        print("VIOLATION property=C20 replay=%s" % path)
        return 1
    print("replay: holds now (%s)" % key)
    return 0
