"""C10 - THDM contributions vanish in the SM limit and decouple with the heavy scale.

(i)  sin(beta-alpha) = 1, running couplings off, m_h = m_hSM (SM::set_mh with the model's own
     light Higgs mass, second construction): one-loop and fermionic two-loop a_mu must not
     depend on the common value m_h in {60, 90, 125.09, 200, 500} GeV;
(ii) gauge basis with perturbative lambda_i, m12^2 = M^2 sin(beta) cos(beta), M on the ladder
     1, sqrt(10), 10, 10 sqrt(10) TeV, per component 1L, 2L-F, 2L-B.

How the decoupling clause is read.  The property statement says that every contribution 'tends
to zero at least like (v/M)^2 up to logarithms'; the quantifier turns that into the literal
per-step inequality |a(M sqrt10)| <= 0.45 |a(M)| for M >= 1 TeV.  The literal inequality
over-states the statement: a contribution that is a sum of pieces of opposite sign (H against A,
1/M^2 against 1/M^4 tan(beta) pieces) passes through zero at some M, so |a| is accidentally small
at one rung and the *next* ratio exceeds 0.45 although a ~ 1/M^2; and for tan(beta) = 50 the
expansion parameter tan(beta) v^2/M^2 is O(1) at 1 TeV, so the first step is not yet asymptotic.
Both are correct behaviour of GM2Calc, not defects, and must not be reported.  The decision is
therefore the crossing-robust consequence of the statement:
  * all values finite;
  * envelope: for every rung m >= 2, |a_m| <= max_{k<m} 0.45^(m-k) |a_k|  (some earlier rung bounds it; k runs
    over the main rungs and over three half-step rungs M_n 10^(1/4), k = n + 1/2, evaluated only as anchors,
    because a contribution with two zeros can be accidentally small at two main rungs);
  * a literal failure of step n >= 1 is accepted only if that envelope holds with k = 0..n;
  * a literal failure of the first step (1 -> 3.16 TeV) is accepted only if the contribution
    decouples literally from 3.16 TeV on (and then only rungs k >= 1 may serve as anchors).
Accepted literal failures are counted (literal_step_failures_at_zero_crossing,
literal_step_failures_first_rung) with one example each in the evidence, nothing else.
Genuine numerical defect kept as known finding (2LB only): the bosonic two-loop result is cancellation
noise at the top of the ladder.  The excuse does not depend on the code under test: a failing bosonic value
carries its magnitude class (|a| < 2e-15, 2e-14, 2e-13, 2e-12 - constants of this check), Yukawa type,
tan(beta) and rung in the key, and only the combinations the original shows are registered (findings); a
noisier implementation lands in an unregistered class or above 2e-12 and is a violation.  In addition to the
envelope the statement's own power law is checked on a finer ladder (half steps, M >= 10 TeV):
|a(M)| <= 100 (1 TeV/M)^2 x max(|a| M^2/TeV^2 at 1, 1.78, 3.16 TeV), so a noise floor that grows with M
cannot pass as a decaying signal.  (No absolute bound: the statement gives none, and the bosonic part is
legitimately 2.8e-12 at 10 TeV for tan(beta) = 50, lambda_7 = -2.)"""
import json
import math
import multiprocessing as mp
import os

import thdmrun as T

META = dict(
    level="exploration",
    technique="deviation-bounded exhaustive product lattice of model families (ladders in m_h resp. in the heavy scale M), relation between the members of each family",
    text="(i) every family of a lattice over heavy masses, tan(beta), lambda_6/7, m12^2, 6 Yukawa types, CKM, zeta_f/Delta_f/Pi_f (<= 2 / <= 3 deviations from 3 base points) is evaluated at sin(beta-alpha)=1 on the ladder m_h = m_hSM in {60,90,125.09,200,500}: 1L and 2L-F agree along the ladder to 1e-12 of the sum of |terms|. (ii) every family of lambda in {-2,-0.5,0,0.5,2}^7 (<= 1 / <= 2 deviations from 3 base points) x tan(beta) in {0.3,1,3,50} x 6 Yukawa types is evaluated on the ladder M = 1..31.6 TeV: each of 1L, 2L-F, 2L-B falls by at least 0.45 per factor sqrt(10) in M and stays below the envelope 0.45^n. Exhaustive within the lattice only.",
    note="trusted: the library's own split of a_mu into h/H/A/H+/SM pieces as tolerance scale in (i); the harness' second construction with SM::set_mh(model.get_Mhh(0))",
    design_ref="3/C10")

HARNESSES = [(("thdm", "plain", ["thdm.cpp"]), {})]

ZETAS = [-100.0, -1.0, 0.0, 1.0, 100.0]
MH_LADDER = [60.0, 90.0, 125.09, 200.0, 500.0]
DIMS_I = ["mH", "mA", "mHp", "tb", "l6", "l7", "m122", "yt", "ckm", "sm",
          "zu", "zd", "zl", "Du", "Dd", "Dl", "Pu", "Pd", "Pl"]
ALPHA_I = {
    "mH": [550.0, 800.0, 1e4], "mA": [10.0, 300.0, 1e4], "mHp": [10.0, 300.0, 1e4],
    "tb": [0.05, 0.5, 1.0, 3.0, 50.0, 200.0],
    "l6": [-3.0, 0.0, 0.2, 3.0], "l7": [-3.0, 0.0, 0.2, 3.0], "m122": [-1e4, 0.0, 4e4],
    "yt": [1, 2, 3, 4, 5, 6], "ckm": [0, 1, 2], "sm": ["default", "alt"],
    "zu": ZETAS, "zd": ZETAS, "zl": ZETAS,
    "Du": T.MAT_NAMES, "Dd": T.MAT_NAMES, "Dl": T.MAT_NAMES,
    "Pu": T.MAT_NAMES, "Pd": T.MAT_NAMES, "Pl": T.MAT_NAMES,
}
BASES_I = [
    dict(mH=800.0, mA=300.0, mHp=300.0, tb=3.0, l6=0.0, l7=0.0, m122=4e4, yt=2, ckm=1,
         zu=0.0, zd=0.0, zl=0.0, Du="0", Dd="0", Dl="0", Pu="0", Pd="0", Pl="0"),
    dict(mH=1e4, mA=1e4, mHp=300.0, tb=50.0, l6=0.2, l7=0.2, m122=0.0, yt=5, ckm=2,
         zu=1.0, zd=-1.0, zl=100.0, Du="dense", Dd="e12", Dl="m22", Pu="0", Pd="0", Pl="0"),
    dict(mH=550.0, mA=10.0, mHp=1e4, tb=0.5, l6=3.0, l7=-3.0, m122=-1e4, yt=6, ckm=2,
         zu=0.0, zd=0.0, zl=0.0, Du="0", Dd="0", Dl="0", Pu="dense", Pd="e12", Pl="m22"),
]

for _i, _b in enumerate(BASES_I):
    _b["sm"] = "alt" if _i == 1 else "default"
# SM input sets: gm2calc::SM defaults / complete alternate set (MW, MZ, alpha_em, alpha_s, nine fermion masses);
# m_hSM is always set to the model's own m_h by the second construction
SM_SETS = {"default": None, "alt": T.SM_ALT}

LAMS = [-2.0, -0.5, 0.0, 0.5, 2.0]
DIMS_L = ["l%d" % i for i in range(1, 8)]
ALPHA_L = {d: LAMS for d in DIMS_L}
BASES_L = [
    dict(l1=0.5, l2=0.5, l3=0.5, l4=0.5, l5=0.5, l6=0.0, l7=0.0),
    dict(l1=2.0, l2=2.0, l3=-0.5, l4=-0.5, l5=0.5, l6=0.5, l7=-0.5),
    dict(l1=0.5, l2=2.0, l3=2.0, l4=-2.0, l5=0.0, l6=-0.5, l7=0.5),
]
TB_II = [0.3, 1.0, 3.0, 50.0]
M_LADDER = [1000.0, 1000.0 * math.sqrt(10.0), 10000.0, 10000.0 * math.sqrt(10.0)]
# Yukawa sector per type for (ii): (zeta, Delta, Pi)
YUK_II = {
    1: ((0.0, 0.0, 0.0), ("0", "0", "0"), ("0", "0", "0")),
    2: ((0.0, 0.0, 0.0), ("m22", "0", "0"), ("0", "0", "0")),
    3: ((0.0, 0.0, 0.0), ("0", "0", "0"), ("0", "0", "0")),
    4: ((0.0, 0.0, 0.0), ("0", "e12", "m22"), ("0", "0", "0")),
    5: ((0.5, -2.0, 30.0), ("dense", "e12", "m22"), ("0", "0", "0")),
    6: ((0.0, 0.0, 0.0), ("0", "0", "0"), ("m22", "e12", "dense")),
}
RATIO = 0.45
COMP = ((0, "1L"), (2, "2LF"), (3, "2LB"))


def brief(c):
    return "%s p=%s type=%s run=%d ckm=%d mhSM=%s zeta=%s Delta=%s Pi=%s SM=%s" % (
        c["basis"], ["%g" % x for x in c["p"]], T.TYPES[c["ytype"]], c["run"], c["ckm"], c["mhsm"], c["z"], c["D"], c["P"],
        "alt" if c.get("sm") else "default")


def family_i(a):
    cs = []
    for mh in MH_LADDER:
        p = [mh, a["mH"], a["mA"], a["mHp"], 1.0, a["l6"], a["l7"], a["tb"], a["m122"]]
        cs.append(T.case("M", p, ytype=a["yt"], run=0, ckm=a["ckm"], mhsm="auto", sm=SM_SETS[a["sm"]], z=(a["zu"], a["zd"], a["zl"]),
                         D=(a["Du"], a["Dd"], a["Dl"]), P=(a["Pu"], a["Pd"], a["Pl"])))
    return cs


HALF = 10.0 ** 0.25
# the ladder of (ii) with half steps: positions 0, 0.5, .., 3 in units of sqrt(10)-steps above 1 TeV;
# even indices are the main rungs 1, sqrt(10), 10, 10 sqrt(10) TeV of the statement
LADDER7 = [M_LADDER[j // 2] * (HALF if j % 2 else 1.0) for j in range(7)]
# magnitude classes of the bosonic rounding-noise finding: fixed numbers, not measured from the code under test
SIZE_CLASSES = (2e-15, 2e-14, 2e-13, 2e-12)
POWER_C = 100.0        # generous constant of the (M0/M)^2 clause


def family_ii(lam, tb, yt, ckm, run, smset="default"):
    """7 rungs: main ladder + half steps (finer ladder: a noise floor that grows with M is not a decaying signal)"""
    z, D, P = YUK_II[yt]
    sbcb = tb / (1.0 + tb * tb)
    cs = []
    for M in LADDER7:
        p = [lam["l%d" % i] for i in range(1, 8)] + [tb, M * M * sbcb]
        cs.append(T.case("G", p, ytype=yt, run=run, ckm=ckm, mhsm="auto", sm=SM_SETS[smset], z=z, D=D, P=P))
    return cs


def check_i(cs, rs, out):
    st = out["stats"]
    ty = T.TYPES[cs[0]["ytype"]]
    cba = max(abs(r.S[T.CBA]) for r in rs)
    st["i:max|cba|"] = max(st.get("i:max|cba|", 0.0), cba)
    dmh = max(abs(r.S[T.MHH0] - r.S[T.SM_MH]) for r in rs)
    if dmh != 0.0:
        out["fails"].append(("i:setup", "SM Higgs mass differs from the model's m_h by %r" % dmh, cs))
    light = min(rs[0].S[T.MHM1], rs[0].S[T.MAH1]) < rs[0].S[T.SM_MU][2]
    # relative variation of the reported heavy masses along the ladder (they are reproduced from the
    # input only to the accuracy of C08, the H, A, H+ terms inherit it)
    dm = []
    for idx in (T.MHH1, T.MAH1, T.MHM1):
        ms = [r.S[idx] for r in rs]
        dm.append((max(ms) - min(ms)) / min(ms))
    v = rs[0].S[T.V]

    def rmax(r, names, masses):
        """max_i |rho_f(i,i)| v / (sqrt2 m_f,i) from the reported y_f^A = -+rho_f/sqrt2"""
        out_ = 0.0
        for nm, ms in zip(names, masses):
            k = T.YNAMES.index(nm)
            Y = r.Y[18 * k:18 * k + 18]
            for g in range(3):
                out_ = max(out_, math.hypot(Y[2 * (3 * g + g)], Y[2 * (3 * g + g) + 1]) * v / ms[g])
        return out_

    for (idx, name), sl in zip(COMP[:2], (slice(0, 5), slice(5, 10))):
        # (1) the mechanism: light-Higgs term + subtracted SM term cancel at every rung.  The reported
        # cos(beta-alpha) is only zero up to rounding (1e-16..3e-13): y_f^h = (m_f/v)(sba + cba rho_f v/(sqrt2 m_f)),
        # the h term inherits 2 cba (r_l + r_f) relative; this is added to the tolerance.
        inh_rel = []
        for r, c in zip(rs, cs):
            t = r.T[sl]
            cb_ = abs(r.S[T.CBA])
            rl = math.hypot(*r.Y[18 * 10 + 8:18 * 10 + 10]) * v / r.S[T.SM_ML][1]      # |ylA(1,1)| v / m_mu
            rf = rmax(r, ("yuA", "ydA", "ylA"), (r.S[T.SM_MU], r.S[T.SM_MD], r.S[T.SM_ML])) if name == "2LF" else rl
            inh = 4.0 * cb_ * (rl + rf) + 4.0 * cb_ * cb_ * (1.0 + rl * rf)
            inh_rel.append(inh)
            res, sc = abs(t[0] + t[4]), abs(t[0]) + abs(t[4])
            tol = (1e-12 + inh) * sc
            if not (res <= tol):
                out["fails"].append(("i:%s:cancellation:%s" % (name, ty),
                                     "%s: light-Higgs term %r and subtracted SM term %r do not cancel at m_h = m_hSM = %r, sin(beta-alpha)=1, cos = %.3g (residual %.3g > %.3g), type %s"
                                     % (name, t[0], t[4], r.S[T.MHH0], r.S[T.CBA], res, tol, ty), cs))
                break
            st["i:%s cancellation res/tol" % name] = max(st.get("i:%s cancellation res/tol" % name, 0.0), res / tol)
            st["i:%s cancellation res/(1e-12 sum)" % name] = max(st.get("i:%s cancellation res/(1e-12 sum)" % name, 0.0), res / (1e-12 * sc))
        # (2) the consequence: the result does not depend on the common mass
        vals = [r.A[idx] for r in rs]
        scale = max(sum(abs(x) for x in r.T[sl]) for r in rs)
        inherit = 4.0 * sum(max(abs(r.T[sl][1 + q]) for r in rs) * dm[q] for q in range(3))
        spread = max(vals) - min(vals)
        tol = 1e-12 * scale + inherit + 2.0 * max(i_ * abs(r.T[sl][0]) for i_, r in zip(inh_rel, rs))
        hterm = [r.T[sl][0] for r in rs]
        if max(hterm) - min(hterm) > 1e3 * tol:
            out["keys"].add(("i", name, cs[0]["ytype"], cs[0]["ckm"], (cs[0]["p"][7] > 1) - (cs[0]["p"][7] < 1)))
        if not (spread <= tol):
            key = "i:%s:%s" % (name, ty)
            if name == "2LF" and light and spread <= 1e-6 * scale:
                key = "i:2LF:light-scalar:noise<1e-6"
            out["fails"].append((key,
                                 "%s a_mu depends on the common Higgs mass m_h = m_hSM at sin(beta-alpha)=1: %s over m_h = %s (spread %.3g > %.3g = 1e-12 x sum|terms| + inherited from the reported heavy masses), type %s"
                                 % (name, ["%.17g" % v for v in vals], MH_LADDER, spread, tol, ty), cs))
        else:
            nm = "i:%s spread/tol%s" % (name, "(mA or mHp<mt)" if light and name == "2LF" else "")
            st[nm] = max(st.get(nm, 0.0), spread / tol if tol > 0 else 0.0)


def size_class(x):
    for c in SIZE_CLASSES:
        if x < c:
            return "|a|<%g" % c
    return None


def check_ii(cs, rs, out):
    st = out["stats"]
    ty = T.TYPES[cs[0]["ytype"]]
    tb = cs[0]["p"][7]
    desc = "lambda=%s tan(beta)=%g type %s" % (cs[0]["p"][:7], tb, ty)
    st["ii:max|cba| at 1 TeV"] = max(st.get("ii:max|cba| at 1 TeV", 0.0), abs(rs[0].S[T.CBA]))
    for idx, name in COMP:
        sg = [r.A[idx] for r in rs]                 # 7 rungs, position j/2
        a = [abs(x) for x in sg]
        if not all(x == x and x != float("inf") for x in a):
            out["fails"].append(("THDM.%s:nonfinite" % name, "%s not finite on the ladder: %r, %s" % (name, sg, desc), cs))
            continue
        pos = [j / 2.0 for j in range(7)]
        lad = "a_%s = %s at M = %s" % (name, ["%.4g" % x for x in sg], ["%.5g" % M for M in LADDER7])

        def E(j, kmin):
            """|a_j| <= 0.45^(pos_j - pos_k) |a_k| for some earlier rung k (main or half step) at position >= kmin"""
            return a[j] <= max(RATIO ** (pos[j] - pos[k]) * a[k] for k in range(j) if pos[k] >= kmin)

        def report(clause, j, msg):
            """a failure of the decision at rung j.  Bosonic values below 2e-12 carry their magnitude class,
            Yukawa type, tan(beta) and rung in the key: only the classes the original is known to show are registered
            as the rounding-noise finding; the class boundaries are constants of this check."""
            sc = size_class(a[j]) if name == "2LB" else None
            if sc:
                key = "THDM.2LB:%s:%s:type=%s:tb=%g:M=%.5g" % (clause, sc, ty, tb, LADDER7[j])
                out["noise"] += 1
            else:
                key = "THDM.%s:%s:M=%.5g" % (name, clause, LADDER7[j])
            out["fails"].append((key, msg + ": " + lad + ", " + desc, cs))

        literal_ok = True
        main = [0, 2, 4, 6]
        step_fail = [not (a[main[n + 1]] <= RATIO * a[main[n]]) for n in range(3)]

        def step_benign(n):
            """step n >= 1 holds literally or is bounded by an earlier rung (zero crossing)"""
            if name == "2LB" and size_class(a[main[n + 1]]):
                return True      # reported on its own under its magnitude class (finding only where registered)
            return not step_fail[n] or E(main[n + 1], 1.0)

        for n in range(3):
            jm, jn = main[n + 1], main[n]
            if not step_fail[n]:
                if a[jn] > 0 and a[jm] >= SIZE_CLASSES[-1]:
                    st["ii:max passing ratio %s n=%d" % (name, n)] = max(st.get("ii:max passing ratio %s n=%d" % (name, n), 0.0), a[jm] / a[jn])
                continue
            literal_ok = False
            msg = "|a_%s(M=%.5g)| > 0.45 |a_%s(M=%.5g)| (ratio %.3g)" % (name, LADDER7[jm], name, LADDER7[jn], a[jm] / a[jn] if a[jn] else float("inf"))
            if n == 0:
                # first step from 1 TeV: not yet asymptotic (tan(beta) v^2/M^2 = O(1), or a zero just below 1 TeV) is correct
                # behaviour provided the contribution decouples from the next rung on (later failures are reported on their own)
                if step_benign(1) and step_benign(2):
                    out["first_rung"] += 1
                    out["ex_first_rung"] = out["ex_first_rung"] or (msg + ": " + lad + ", " + desc)
                else:
                    report("step-ratio", jm, msg + " and no decoupling from 3.16 TeV on either")
            elif E(jm, 0.0):
                # |a| accidentally small at rung n (zero crossing): correct behaviour, an earlier rung bounds it
                out["zero_crossing"] += 1
                out["ex_zero_crossing"] = out["ex_zero_crossing"] or (msg + ": " + lad + ", " + desc)
            else:
                report("step-ratio", jm, msg + " and no earlier rung bounds it")
        # envelope with the best earlier anchor on the finer ladder, M >= 10 TeV (positions 2, 2.5, 3)
        kmin = 1.0 if step_fail[0] else 0.0
        for j in (4, 5, 6):
            if not E(j, kmin):
                literal_ok = False
                report("envelope", j, "|a_%s(M=%.5g)| exceeds 0.45^(n-k) |a_%s(M_k)| for every earlier rung k at position >= %g" % (name, LADDER7[j], name, kmin))
        # power law from the property itself: at least like (v/M)^2 - |a(M)| <= C (1 TeV/M)^2 x the value scaled to 1 TeV
        aref = max(a[k] * 10.0 ** pos[k] for k in (0, 1, 2))
        for j in (4, 5, 6):
            bound = POWER_C * 10.0 ** (-pos[j]) * aref
            if not (a[j] <= bound):
                literal_ok = False
                report("power-law", j, "|a_%s(M=%.5g)| = %.3g > %g x (1 TeV/M)^2 x %.3g (largest of |a| M^2 at 1..3.16 TeV)" % (name, LADDER7[j], a[j], POWER_C, aref))
            elif bound > 0 and a[j] >= SIZE_CLASSES[-1]:
                st["ii:max |a|/((1TeV/M)^2 aref) %s" % name] = max(st.get("ii:max |a|/((1TeV/M)^2 aref) %s" % name, 0.0), a[j] / (bound / POWER_C))
        if name == "2LB":
            for j in (4, 5, 6):
                st["ii:max |a_2LB| at M>=10TeV"] = max(st.get("ii:max |a_2LB| at M>=10TeV", 0.0), a[j])
        if literal_ok and a[0] > 0:
            out["keys"].add(("ii", name, cs[0]["ytype"], cs[0]["p"][7], sg[0] > 0))
        out["keys"].add(("ii-any", name, cs[0]["ytype"], cs[0]["p"][7]))


def eval_families(arg):
    """arg: (jobs, history); jobs: list of (part, [cases]).  returns dict"""
    jobs, history = arg if isinstance(arg, tuple) else (arg, False)
    jobs = [expand(jb) for jb in jobs]
    cases_i, cases_ii = [], []
    for part, cs in jobs:
        if part == "i":
            cases_i += cs
        else:
            cases_ii += cs
    res_i = T.run_cases(cases_i, "SATY") if cases_i else []
    res_ii = T.run_cases(cases_ii, "SA") if cases_ii else []
    out = dict(fam=0, thrown=0, massless=0, fails=[], keys=set(), evals=2 * (len(cases_i) + len(cases_ii)) * (2 if history else 1), stats={}, noise=0,
               first_rung=0, zero_crossing=0, ex_first_rung=None, ex_zero_crossing=None,
               smsets=len(set(bool(c_.get("sm")) for c_ in cases_i + cases_ii)))
    if history:
        for cases_, ops_, res_ in ((cases_i, "SATY", res_i), (cases_ii, "SA", res_ii)):
            if len(cases_) > 1:
                for i, what in T.history_mismatches(cases_, ops_, res_):
                    other = next((c_ for c_ in cases_ if c_.get("sm") != cases_[i].get("sm")), cases_[0 if i else -1])
                    out["fails"].append(("history-dependence", "result depends on what was constructed before in the same process: %s; %s" % (what, brief(cases_[i])),
                                         [other, cases_[i]]))
    ki = kii = 0
    for part, cs in jobs:
        if part == "i":
            rs = res_i[ki:ki + len(cs)]
            ki += len(cs)
        else:
            rs = res_ii[kii:kii + len(cs)]
            kii += len(cs)
        out["fam"] += 1
        if any(r.exc for r in rs):
            out["thrown"] += 1
            # only a tachyonic spectrum (EPhysicalProblem) legitimately removes a family; every lattice input is
            # inside the documented domain, any other exception class means valid input is refused
            bad = next(((c_, r_) for c_, r_ in zip(cs, rs) if r_.exc and r_.exc[0] != "EPhysicalProblem"), None)
            if bad:
                out["fails"].append(("%s:valid-input-refused:%s" % (part, bad[1].exc[0]),
                                     "input inside the documented domain is refused: %s %s; %s" % (bad[1].exc[0], bad[1].exc[1], brief(bad[0])), cs))
            continue
        if min(r.S[T.MHH0] for r in rs) <= 1e-4 * rs[0].S[T.SM_MZ]:
            out["massless"] += 1       # flat direction: massless h, a_mu (and the SM limit m_hSM = m_h) is not defined
            continue
        if part == "i":
            check_i(cs, rs, out)
        else:
            check_ii(cs, rs, out)
    return out


def expand(job):
    """compact job -> (part, [cases]); compact: ('i', values in DIMS_I order) / ('ii', lambda values, tb, type, ckm, run, SM set)"""
    if isinstance(job[1], list):
        return job
    if job[0] == "i":
        return ("i", family_i(dict(zip(DIMS_I, job[1]))))
    return ("ii", family_ii(dict(zip(DIMS_L, job[1])), job[2], job[3], job[4], job[5], job[6]))


def families_i(d):
    """compact jobs (expanded in the workers)"""
    seen = set()
    for b in BASES_I:
        for a, combo in T.devprod(DIMS_I, b, ALPHA_I, d):
            vals = tuple(a[k] for k in DIMS_I)
            if vals in seen:
                continue
            seen.add(vals)
            yield ("i", vals)


def families_ii(d, ckms, runs):
    seen = set()
    for b in BASES_L:
        for lam, combo in T.devprod(DIMS_L, b, ALPHA_L, d):
            vals = tuple(lam[k] for k in DIMS_L)
            if vals in seen:
                continue
            seen.add(vals)
            for tb in TB_II:
                for yt in (1, 2, 3, 4, 5, 6):
                    for ckm in ckms:
                        for run in runs:
                            for smset in (("default", "alt") if ckm == 1 else ("default",)):
                                yield ("ii", vals, tb, yt, ckm, run, smset)


def run(ctx):
    T.exe()
    if ctx.quick:
        jobs_i, jobs_ii = list(families_i(2)), list(families_ii(1, (1,), (0,)))
    else:
        jobs_i, jobs_ii = list(families_i(3)), list(families_ii(2, (1, 2), (0,)))
    tot = dict(fam_i=len(jobs_i), fam_ii=len(jobs_ii), thrown_i=0, thrown_ii=0, massless=0, evals=0, noise=0, first_rung=0, zero_crossing=0)
    examples = {}
    stats = {}
    min_sm = 2
    for part, cs in [expand(jb) for jb in jobs_i[:1] + jobs_ii[:1]]:
        ctx.sample("(%s) %s ... %s" % (part, brief(cs[0]), brief(cs[-1])))
    with mp.Pool(min(16, os.cpu_count() or 4)) as pool:
        for name, jobs in (("i", jobs_i), ("ii", jobs_ii)):
            # strided chunks: both SM input sets interleaved in every harness process; every 4th process
            # is repeated in reversed order and compared bitwise
            for o in pool.imap(eval_families, [(ch, q % 4 == 0) for q, ch in enumerate(T.strided_chunks(jobs, 60))]):
                min_sm = min(min_sm, o["smsets"])
                tot["thrown_" + name] += o["thrown"]
                tot["massless"] += o["massless"]
                tot["first_rung"] += o["first_rung"]
                tot["zero_crossing"] += o["zero_crossing"]
                for k in ("ex_first_rung", "ex_zero_crossing"):
                    if o[k] and k not in examples:
                        examples[k] = o[k]
                tot["evals"] += o["evals"]
                tot["noise"] += o["noise"]
                for k, v in o["stats"].items():
                    stats[k] = max(stats.get(k, 0.0), v)
                for key in sorted(o["keys"]):
                    ctx.nontrivial(key)
                for key, what, cs in o["fails"]:
                    ctx.fail(key, what, {"part": "h" if key == "history-dependence" else name, "cases": cs})
                if ctx.out_of_time(name):
                    break
    ctx.evals(tot["evals"])
    ctx.note("min_SM_input_sets_per_harness_process", min_sm)
    if min_sm < 2:
        ctx.cap("a harness process saw only one SM input set")
    ctx.add("literal_step_failures_at_zero_crossing", tot["zero_crossing"])
    ctx.add("literal_step_failures_first_rung", tot["first_rung"])
    if "ex_zero_crossing" in examples:
        ctx.sample("(ii) literal step failure at a zero crossing, envelope holds (benign): " + examples["ex_zero_crossing"])
    if "ex_first_rung" in examples:
        ctx.sample("(ii) literal step failure of the first rung, decouples from 3.16 TeV on (benign): " + examples["ex_first_rung"])
    print("[C10] (i) %d families x %d m_h values, rejected %d; (ii) %d families x %d rungs (+3 half steps), rejected (tachyon) %d = %.1f%%, skipped (massless h) %d; constructions %d"
          % (tot["fam_i"], len(MH_LADDER), tot["thrown_i"], tot["fam_ii"], len(M_LADDER), tot["thrown_ii"],
             100.0 * tot["thrown_ii"] / max(1, tot["fam_ii"]), tot["massless"], tot["evals"]))
    print("[C10] (ii) literal per-step failures that are correct behaviour (not reported): %d at a zero crossing, %d on the first rung; failures of bosonic values < 2e-12 (size-class keys, known finding where registered): %d"
          % (tot["zero_crossing"], tot["first_rung"], tot["noise"]))
    print("[C10] %s" % {k: float("%.3g" % v) for k, v in sorted(stats.items())})
    if tot["thrown_ii"] > 0.5 * tot["fam_ii"] or tot["thrown_i"] > 0.5 * tot["fam_i"]:
        ctx.cap("more than half of the families rejected by the constructor")
    ctx.assumptions += [
        "(i) 'identical' = spread along the m_h ladder <= 1e-12 x sum of |terms| (h, H, A, H+, SM pieces as split by the library)",
        "(ii) decision = finite + envelope |a_m| <= max_k 0.45^(m-k)|a_k| + literal decoupling from 3.16 TeV on when the first step fails; literal per-step failures at a zero crossing / on the first rung are counted, not reported",
        "(ii) the rounding-noise excuse of the bosonic part does not depend on the code under test: a failing 2LB value below 2e-12 carries its magnitude class (|a|<2e-15, <2e-14, <2e-13, <2e-12: constants of the check), Yukawa type, tan(beta) and rung in the key, and only the combinations the original shows are registered as known finding; values >= 2e-12, and |a| > 100 (1 TeV/M)^2 x (|a| M^2 at 1..3.16 TeV) are violations",
        "the SM input set (default / complete alternate set: MW, MZ, alpha_em, alpha_s, fermion masses) is a dimension of (i) and a factor of (ii); every harness process evaluates both sets interleaved, every 4th process is repeated in reversed order and compared bitwise",
        "a constructor exception other than EPhysicalProblem (tachyon) on a lattice point is a violation (valid input refused)",
        "SM Higgs mass is set to the model's own Mhh(0) by a second construction (harness option mhsm=auto)"]
    return ctx.finish(
        "(i) all assignments with <= %d deviating dimensions from 3 base points (heavy masses, tan(beta), lambda_6/7, m12^2, type, CKM, zeta/Delta/Pi, SM input set) x m_h ladder; "
        "(ii) lambda in {-2,-0.5,0,0.5,2}^7 with <= %d deviations from 3 base points x tan(beta) {0.3,1,3,50} x 6 types x 2 SM input sets (alternate set with the default CKM only) x M ladder {1,3.16,10,31.6} TeV; "
        "distinct = (part, component, type, tan(beta) class / value, sign of a_mu) of families that passed non-trivially"
        % ((2, 1) if ctx.quick else (3, 2)),
        {"families_i": tot["fam_i"], "families_ii": tot["fam_ii"], "rejected_i": tot["thrown_i"], "rejected_ii": tot["thrown_ii"],
         "skipped_massless_h": tot["massless"], "noise_step_failures_2LB": tot["noise"],
         "stats": {k: float("%.3g" % v) for k, v in sorted(stats.items())}})


def replay(ctx, path):
    T.exe()
    d = json.load(open(path))
    part, cs = d["data"]["part"], d["data"]["cases"]
    if part == "h":
        bad = T.history_mismatches(cs, "SA", T.run_cases(cs, "SA"))
        for i, what in bad:
            print("replay: [history-dependence] %s" % what)
        if bad:
            print("VIOLATION property=C10 replay=%s" % path)
            return 1
        print("replay: holds now")
        return 0
    o = eval_families([(part, cs)])
    import fnmatch
    fails = [f for f in o["fails"] if f[0] == d["key"] or not any(fnmatch.fnmatchcase(f[0], fd["key"]) for fd in ctx.findings)]
    hit = [f for f in fails if f[0] == d["key"]] or fails
    for key, what, _ in hit:
        print("replay: [%s] %s" % (key, what))
    if hit:
        print("VIOLATION property=C10 replay=%s" % path)
        return 1
    print("replay: holds now %s" % o["stats"])
    return 0
