"""C04 - the MSSM tree-level spectrum is the exact spectrum of the MSSM mass matrices.

Deviation-bounded lattice of Lagrangian parameters (45 dimensions, 134 alternates, all
assignments with <= d deviations from the base point); for each point
MSSMNoFV_onshell_mass_eigenstates::calculate_DRbar_masses() is run on a fresh object, every
mass vector / mixing matrix is read through the public getters and compared with mass
matrices written independently from the textbook expressions (oracle/mssm_tree.py)."""
import itertools
import math
import multiprocessing as mp
import os
import sys

import numpy as np

import build
import mssmrun
from core import hexf, unhex

sys.path.insert(0, os.path.join(os.path.dirname(os.path.dirname(os.path.abspath(__file__))), "oracle"))
import mssm_tree as T

np.set_printoptions(legacy="1.25")      # plain float repr in messages

META = dict(
    level="exploration",
    technique="deviation-bounded exhaustive lattice of Lagrangian parameters against independently written textbook mass matrices (numpy, failures confirmed in 50-digit mpmath)",
    text="All assignments with at most d (2 quick / 3 thorough) simultaneous deviations from a base point over 45 parameter dimensions (tan beta 0.5..200, both signs of mu/M1/M2/M3, soft masses squared of either sign per sector and generation, trilinears, Yukawas, gauge couplings, vev, m_A^2 incl. m_A<m_Z, m_A~m_Z(1+-1e-7) and negative values) are evaluated; for each, all 17 sectors are reconstructed from the reported masses and mixings and compared with the textbook matrix (1e-10 ||M||), unitarity (1e-12), ordering, Goldstone position/mass, Higgs sum rules, chargino/neutralino trace and determinant relations, tachyon list == monitored sectors with a negative reference eigenvalue, and bitwise generation exchange. In addition the two public spectrum entry points of MSSMNoFV_onshell are driven with force_output: calculate_masses() on GM2Calc-type points and convert_to_onshell() on SLHA-type points (pole masses of a GM2Calc-type point + DR-bar parameters), 4 base points x all assignments with <= d deviations over tan beta, negative/zero/small/huge soft masses of monitored and unmonitored sectors, large trilinears, large or negative mu, negative M1/M2 and - for the conversion - small, zero, negative or far-off INITIAL values of the entries it overwrites (ml2(1,1), me2(1,1), mu, M1, M2); each case is run on a fresh object, a second fresh object and on the re-used first object. After every call the whole oracle above is applied to the final DR-bar spectrum against the matrices rebuilt from the FINAL Lagrangian parameters (getters after the call), in particular reported tachyons == monitored sectors with a negative squared mass; two fresh runs must be bitwise identical, and the re-used object must give the same report whenever it reached the same solution without a convergence warning. Every 5th case of that lattice is additionally run with three other SM input sets in five orders of the setter calls (canonical; tan(beta) before the SM inputs; SM inputs last; every setter reversed; SM inputs overwritten after tan(beta)): the whole oracle applies to each, the calculate_masses() result must not depend on the order (1e-10 relative on all parameters and masses), and calling calculate_masses() once more on the same object must change nothing. Says nothing about parameter values off the lattice or more than d simultaneous deviations.",
    note="trusted: numpy eigvalsh / mpmath eigsy, the textbook formulas in oracle/mssm_tree.py (validated against the unchanged tree: agreement <= 1e-15 ||M|| on every lattice point)",
    design_ref="3/C04")

HARNESSES = [(("mssm", "plain", ["mssm.cpp"]), {}), (("mssm", "cov", ["mssm.cpp"]), {})]

EPS = 2.0 ** -52
TOL_REC = 1e-10
TOL_UNI = 1e-12
TOL_ID = 1e-9

# ------------------------------------------------------------------ lattice
FERM = {"u": 2.4e-3, "c": 1.27, "t": 173.34, "d": 4.76e-3, "s": 0.104, "b": 2.8,
        "e": 5.11e-4, "m": 0.1056583715, "l": 1.777}
SECT = ["mq2", "ml2", "mu2", "md2", "me2"]


def base_input():
    I = dict(tb=10.0, v=246.22, g1=0.4616, g2=0.6484, Mu=1000.0, M1=100.0, M2=1000.0, M3=1000.0,
             mA2=("abs", 300.0 ** 2), mHd2=0.0, mHu2=0.0)
    k = 0
    for s in SECT:
        for g in range(3):
            I["%s%d" % (s, g)] = 1e6 * (1 + 0.03 * k)     # generation- and sector-distinct base values
            k += 1
    for f in "uctdsbeml":
        I["A" + f] = 0.0
        I["Y" + f] = None           # from the fermion mass
    return I


def dimensions():
    """[(name, [alternates])]; name 'allsoft' sets all 15 soft masses squared to one value"""
    D = [("tb", [0.5, 1.0, 3.0, 30.0, 200.0])]
    for nm in ("Mu", "M1", "M2", "M3"):
        D.append((nm, None))        # filled below: the other three of {+-100, +-1000}
    D.append(("mA2", [("abs", 50.0 ** 2), ("abs", 3000.0 ** 2), ("relZ", 1 + 1e-7), ("relZ", 1 - 1e-7),
                      ("abs", -3000.0), ("abs", -1e5), ("abs", 0.0)]))
    D.append(("g1", [0.2308, 0.9232]))
    D.append(("g2", [0.3242, 1.2968]))
    D.append(("v", [123.0, 500.0]))
    for s in SECT:
        for g in range(3):
            D.append(("%s%d" % (s, g), [-1e5, 0.0, 1e4, 1e8]))
    D.append(("allsoft", [-1e5, 0.0, 1e4, 1e8]))
    for f in "uctdsbeml":
        D.append(("A" + f, [-3e3, 3e3]))
    for f in "uctdsbeml":
        D.append(("Y" + f, [0.0, 1.0]))
    D.append(("mHd2", [1e6, -1e6]))
    D.append(("mHu2", [1e6, -1e6]))
    b = base_input()
    out = []
    for nm, alts in D:
        if alts is None:
            alts = [x for x in (100.0, -100.0, 1000.0, -1000.0) if x != b[nm]]
        out.append((nm, alts))
    return out


def enumerate_inputs(dmax):
    b = base_input()
    D = dimensions()
    yield (), b
    for d in range(1, dmax + 1):
        for dims in itertools.combinations(range(len(D)), d):
            for choice in itertools.product(*[range(len(D[i][1])) for i in dims]):
                I = dict(b)
                dev = []
                for i, c in zip(dims, choice):
                    nm, alts = D[i]
                    if nm == "allsoft":
                        for s in SECT:
                            for g in range(3):
                                I["%s%d" % (s, g)] = alts[c]
                    else:
                        I[nm] = alts[c]
                    dev.append((nm, alts[c]))
                yield tuple(dev), I


PRODUCT_DIMS = ["tb", "Mu", "M1", "M2", "mA2", "allsoft"]


def enumerate_product(dmax):
    """full product over the core dimensions (all sign patterns of mu, M1, M2 x tan beta x m_A^2 x common
    soft mass); combinations with <= dmax deviations are already in the deviation lattice and skipped"""
    b = base_input()
    D = dict(dimensions())
    axes = [[None] + D[nm] for nm in PRODUCT_DIMS]
    for choice in itertools.product(*axes):
        dev = [(nm, c) for nm, c in zip(PRODUCT_DIMS, choice) if c is not None]
        if len(dev) <= dmax:
            continue
        I = dict(b)
        for nm, c in dev:
            if nm == "allsoft":
                for s in SECT:
                    for g in range(3):
                        I["%s%d" % (s, g)] = c
            else:
                I[nm] = c
        yield tuple(dev), I


def lattice_size(dmax):
    n = [len(a) for _, a in dimensions()]
    e = [1]
    for k in n:      # elementary symmetric polynomials
        e = [1] + [e[i] + k * e[i - 1] for i in range(1, len(e))] + [k * e[-1]]
    D = dict(dimensions())
    m = [len(D[nm]) for nm in PRODUCT_DIMS]
    f = [1]
    for k in m:
        f = [1] + [f[i] + k * f[i - 1] for i in range(1, len(f))] + [k * f[-1]]
    return sum(e[:dmax + 1]) + sum(f[dmax + 1:])


def to_params(I):
    """Lagrangian parameter set (what the harness sets through the public setters)"""
    tb, v = I["tb"], I["v"]
    rt = math.sqrt(1 + tb * tb)
    vd, vu = v / rt, v * tb / rt
    g1, g2 = I["g1"], I["g2"]
    mZ2 = 0.25 * (0.6 * g1 * g1 + g2 * g2) * (vd * vd + vu * vu)
    kind, val = I["mA2"]
    mA2 = val if kind == "abs" else val * mZ2
    p = dict(g1=g1, g2=g2, g3=1.2, vd=vd, vu=vu, Mu=I["Mu"], BMu=mA2 * vd * vu / (vd * vd + vu * vu),
             M1=I["M1"], M2=I["M2"], M3=I["M3"], mHd2=I["mHd2"], mHu2=I["mHu2"])
    for s in SECT:
        p[s] = [I["%s%d" % (s, g)] for g in range(3)]
    for nm, fs, vev in (("u", "uct", vu), ("d", "dsb", vd), ("e", "eml", vd)):
        ys = [I["Y" + f] if I["Y" + f] is not None else math.sqrt(2) * FERM[f] / vev for f in fs]
        p["Y" + nm] = ys
        p["TY" + nm] = [y * I["A" + f] for y, f in zip(ys, fs)]
    return p


# ------------------------------------------------------------------ vectorised checks
def _stack(m):
    """nested list of (N,) arrays / scalars -> (N, r, c)"""
    N = max(np.size(x) for row in m for x in row)
    return np.stack([np.stack([np.broadcast_to(np.asarray(x, dtype=float), (N,)) for x in row], axis=-1)
                     for row in m], axis=-2)


def _fro(M):
    return np.sqrt((np.abs(M) ** 2).sum(axis=(-1, -2)))


class Fails:
    def __init__(self):
        self.items = []       # (index, key, what, sector, kind)

    def add(self, mask, key, fmt, sector=None, kind=None):
        for i in np.nonzero(mask)[0]:
            self.items.append((int(i), key, fmt(int(i)), sector, kind))


def check_block(vals, probs, gx, lay):
    """all oracles on a block of N points; returns (Fails, stats dict, per-point class tuples)"""
    N = vals.shape[0]
    c = lambda n: vals[:, mssmrun.col(lay, n)]
    s = lambda n: vals[:, lay[n][0]]
    F = Fails()
    st = {}
    P = {k: s(k) for k in ("g1", "g2", "g3", "vd", "vu", "Mu", "BMu", "M1", "M2", "M3", "mHd2", "mHu2")}
    for k in ("mq2", "ml2", "mu2", "md2", "me2", "Yu", "Yd", "Ye", "TYu", "TYd", "TYe"):
        a = c(k)
        P[k] = [a[:, 0], a[:, 1], a[:, 2]]
    d = T.derived(P, np.sqrt)
    nonfinite = ~np.isfinite(vals).all(axis=1)
    F.add(nonfinite, "nonfinite", lambda i: "non-finite value among the reported masses/mixings")
    cls = [[] for _ in range(N)]          # outcome class per point
    neg_pred = {}                         # sector -> (negative mask, ambiguous mask)

    def recon_sym(name, M, m, Z, ordered_from=0):
        """real symmetric sector: M == Z^T diag(+-m^2) Z, Z orthogonal, ordering"""
        nM = _fro(M) + 1e-300
        ray = np.einsum("nij,njk,nik->ni", Z, M, Z)               # Rayleigh quotients of the rows
        lam = np.sign(ray) * m * m
        R = np.einsum("nji,nj,njk->nik", Z, lam, Z)
        err = np.abs(R - M).max(axis=(-1, -2)) / nM
        st["rec:" + name] = max(st.get("rec:" + name, 0.0), float(np.nanmax(err)))
        F.add(err > TOL_REC, name + ":reconstruct",
              lambda i: "%s: Z^T diag(m^2) Z differs from the textbook mass matrix by %.3e ||M|| (reported m=%r, reference matrix %r)"
              % (name, err[i], m[i].tolist(), M[i].tolist()), name, "rec")
        uni = np.abs(np.einsum("nij,nkj->nik", Z, Z) - np.eye(Z.shape[-1])).max(axis=(-1, -2))
        st["uni:" + name] = max(st.get("uni:" + name, 0.0), float(np.nanmax(uni)))
        F.add(uni > TOL_UNI, name + ":unitarity", lambda i: "%s: |Z Z^T - 1| = %.3e" % (name, uni[i]))
        F.add((m < 0).any(axis=1), name + ":negative-mass", lambda i: "%s: negative mass %r" % (name, m[i].tolist()))
        # the reported *masses* sqrt(|m^2|) are ascending (Goldstone at index 0 exempt)
        lo = m[:, ordered_from:]
        if lo.shape[1] > 1:
            bad = (np.diff(lo, axis=1) < 0).any(axis=1)
            F.add(bad, name + ":ordering", lambda i: "%s: masses not ascending: %r" % (name, m[i].tolist()))
        ev = np.linalg.eigvalsh(M)
        neg_pred[name] = (ev[:, 0] < -1e-12 * nM, np.abs(ev[:, 0]) <= 1e-12 * nM)
        return lam, ev

    # ---- sfermions
    for name in T.SFERMIONS:
        M = _stack(T.sfermion(P, d, name, np.sqrt))
        m = c("M" + name)
        Z = c(T.MIX[name]).reshape(N, 2, 2)
        recon_sym(name, M, m, Z)
    for name in T.SNEUTRINOS:
        ref = T.sneutrino(P, d, name)
        m = s("M" + name)
        scale = np.abs(P["ml2"][T.SNEUTRINOS[name]]) + np.abs(0.5 * d["c2b"] * d["mZ2"]) + 1e-300
        err = np.abs(m * m - np.abs(ref)) / scale
        st["rec:" + name] = max(st.get("rec:" + name, 0.0), float(np.nanmax(err)))
        F.add(err > TOL_REC, name + ":reconstruct",
              lambda i: "%s: m^2 = %r, textbook |m^2| = %r" % (name, m[i] ** 2, abs(ref[i])), name, "rec")
        F.add(m < 0, name + ":negative-mass", lambda i: "%s negative" % name)
        neg_pred[name] = (ref < -1e-12 * scale, np.abs(ref) <= 1e-12 * scale)

    # ---- Higgs sectors
    Mhh = _stack(T.higgs_even(P, d))
    lam_h, _ = recon_sym("hh", Mhh, c("Mhh"), c("ZH").reshape(N, 2, 2))
    MA = _stack(T.higgs_odd(P, d))
    lam_A, _ = recon_sym("Ah", MA, c("MAh"), c("ZA").reshape(N, 2, 2), ordered_from=1)
    MP = _stack(T.higgs_charged(P, d))
    lam_P, _ = recon_sym("Hpm", MP, c("MHpm"), c("ZP").reshape(N, 2, 2), ordered_from=1)
    mZ, mW = np.sqrt(d["mZ2"]), np.sqrt(d["mW2"])
    F.add(np.abs(s("MVZ") - mZ) > TOL_REC * mZ, "VZ:mass", lambda i: "MVZ = %r, textbook %r" % (s("MVZ")[i], mZ[i]))
    F.add(np.abs(s("MVWm") - mW) > TOL_REC * mW, "VWm:mass", lambda i: "MVWm = %r, textbook %r" % (s("MVWm")[i], mW[i]))
    amb_gold = np.zeros(N, dtype=bool)
    for name, gm, gref, Zn, Mref, gap in (("Ah", c("MAh")[:, 0], mZ, "ZA", MA, np.abs(d["mA2"] - d["mZ2"])),
                                           ("Hpm", c("MHpm")[:, 0], mW, "ZP", MP, np.abs(d["mA2"]))):
        # same accuracy as the reconstruction clause: |m_G^2 - m_V^2| <= 1e-10 ||M|| (for |mu|^2 >> ||M|| the
        # library's (mH^2 + mu^2) cancellation costs eps mu^2, e.g. 1.4e-10 m_Z at mu = 72 TeV)
        F.add(np.abs(gm * gm - gref * gref) > TOL_REC * np.maximum(_fro(Mref), gref * gref), name + ":goldstone-mass",
              lambda i: "%s: state at index 0 has mass %r, Goldstone mass must be %r" % (name, gm[i], gref[i]))
        Z = c(Zn).reshape(N, 2, 2)
        nM = _fro(Mref)
        # the Goldstone direction is (cos beta, -sin beta); its overlap with the physical direction must vanish
        ov = np.abs(Z[:, 0, 0] * d["sb"] + Z[:, 0, 1] * d["cb"])
        # eigenvectors of a nearly degenerate pair are defined up to (matrix rounding)/gap; the library forms
        # the diagonal as (mH^2 + mu^2) with mH^2 eliminated by the minimum conditions, so the matrix
        # rounding is eps (||M|| + mu^2).  Beyond 0.1 the position is undecidable (exact degeneracy).
        raw = 256 * EPS * (nM + P["Mu"] ** 2) / np.maximum(gap, 1e-300)
        ambiguous = raw > 0.1
        amb_gold |= ambiguous
        allowed = 1e-10 + np.where(ambiguous, 0.0, raw)
        bad = (~ambiguous) & (ov > allowed)
        F.add(bad, name + ":goldstone-position",
              lambda i: "%s: row 0 of %s = %r is not the Goldstone direction (cos b, -sin b) = (%r, %r): overlap with the physical state %.3e"
              % (name, Zn, Z[i, 0].tolist(), d["cb"][i], -d["sb"][i], ov[i]))
    st["goldstone_ambiguous(degenerate)"] = int(amb_gold.sum())
    # sum rules on signed squared masses
    sc = np.abs(lam_A[:, 1]) + d["mZ2"]
    e1 = np.abs(lam_P[:, 1] - (lam_A[:, 1] + s("MVWm") ** 2)) / sc
    F.add(e1 > TOL_ID, "identity:mHpm2=mA2+mW2",
          lambda i: "m_H+^2 = %r, m_A^2 + m_W^2 = %r" % (lam_P[i, 1], lam_A[i, 1] + s("MVWm")[i] ** 2))
    e2 = np.abs(lam_h.sum(axis=1) - (lam_A[:, 1] + s("MVZ") ** 2)) / sc
    F.add(e2 > TOL_ID, "identity:mh2+mH2=mA2+mZ2",
          lambda i: "m_h^2 + m_H^2 = %r, m_A^2 + m_Z^2 = %r" % (lam_h[i].sum(), lam_A[i, 1] + s("MVZ")[i] ** 2))
    st["id:higgs"] = float(max(np.nanmax(e1), np.nanmax(e2)))
    for nm, idx in (("MChargedHiggs", "MHpm"), ("MPseudoscalarHiggs", "MAh")):
        a, b = s(nm), c(idx)[:, 1]
        F.add(np.abs(a - b) > 1e-10 * np.maximum(np.abs(b), mW), nm + ":getter",
              lambda i: "get_%s() = %r but %s(1) = %r" % (nm, a[i], idx, b[i]))

    # ---- charginos  X = UM^T diag(m) UP
    X = _stack(T.chargino(P, d, np.sqrt))
    nX = _fro(X)

    def cplx(name, r, k):
        a = c(name).reshape(N, r, k, 2)
        return a[..., 0] + 1j * a[..., 1]
    UM, UP, mC = cplx("UM", 2, 2), cplx("UP", 2, 2), c("MCha")
    R = np.einsum("nji,nj,njk->nik", UM, mC, UP)
    err = np.abs(R - X).max(axis=(-1, -2)) / nX
    st["rec:Cha"] = float(np.nanmax(err))
    F.add(err > TOL_REC, "Cha:reconstruct",
          lambda i: "Cha: UM^T diag(m) UP differs from the textbook X by %.3e ||X|| (m=%r, X=%r)" % (err[i], mC[i].tolist(), X[i].tolist()), "Cha", "rec")
    for nm, U in (("UM", UM), ("UP", UP)):
        uni = np.abs(np.einsum("nij,nkj->nik", U, U.conj()) - np.eye(2)).max(axis=(-1, -2))
        st["uni:" + nm] = float(np.nanmax(uni))
        F.add(uni > TOL_UNI, "Cha:unitarity:" + nm, lambda i: "%s: |U U^+ - 1| = %.3e" % (nm, uni[i]))
    F.add((mC < 0).any(axis=1) | (mC[:, 0] > mC[:, 1]), "Cha:ordering", lambda i: "MCha = %r" % mC[i].tolist())
    tr = P["M2"] ** 2 + P["Mu"] ** 2 + 2 * d["mW2"]
    e = np.abs((mC ** 2).sum(axis=1) - tr) / tr
    F.add(e > TOL_ID, "Cha:trace", lambda i: "sum m_cha^2 = %r, M2^2 + mu^2 + 2 mW^2 = %r" % ((mC[i] ** 2).sum(), tr[i]))
    dt = P["M2"] * P["Mu"] - d["mW2"] * d["s2b"]
    dsc = np.abs(P["M2"] * P["Mu"]) + d["mW2"] * np.abs(d["s2b"])
    e_ = np.abs(mC.prod(axis=1) - np.abs(dt)) / dsc
    F.add(e_ > TOL_ID, "Cha:det", lambda i: "m_cha1 m_cha2 = %r, |M2 mu - mW^2 sin 2b| = %r" % (mC[i].prod(), abs(dt[i])))
    st["id:Cha"] = float(max(np.nanmax(e), np.nanmax(e_)))

    # ---- neutralinos  M = ZN^T diag(m) ZN
    Mn = _stack(T.neutralino(P, d, np.sqrt))
    nMn = _fro(Mn)
    ZN, mN = cplx("ZN", 4, 4), c("MChi")
    R = np.einsum("nji,nj,njk->nik", ZN, mN, ZN)
    err = np.abs(R - Mn).max(axis=(-1, -2)) / nMn
    st["rec:Chi"] = float(np.nanmax(err))
    F.add(err > TOL_REC, "Chi:reconstruct",
          lambda i: "Chi: ZN^T diag(m) ZN differs from the textbook neutralino matrix by %.3e ||M|| (m=%r)" % (err[i], mN[i].tolist()), "Chi", "rec")
    uni = np.abs(np.einsum("nij,nkj->nik", ZN, ZN.conj()) - np.eye(4)).max(axis=(-1, -2))
    st["uni:ZN"] = float(np.nanmax(uni))
    F.add(uni > TOL_UNI, "Chi:unitarity", lambda i: "ZN: |N N^+ - 1| = %.3e" % uni[i])
    F.add((mN < 0).any(axis=1) | (np.diff(mN, axis=1) < 0).any(axis=1), "Chi:ordering", lambda i: "MChi = %r" % mN[i].tolist())
    tr = P["M1"] ** 2 + P["M2"] ** 2 + 2 * P["Mu"] ** 2 + 2 * d["mZ2"]
    e = np.abs((mN ** 2).sum(axis=1) - tr) / tr
    F.add(e > TOL_ID, "Chi:trace", lambda i: "sum m_chi^2 = %r, M1^2+M2^2+2mu^2+2mZ^2 = %r" % ((mN[i] ** 2).sum(), tr[i]))
    dt = T.neutralino_det(P, d)
    dsc = sum(np.abs(t) for t in T.neutralino_det_terms(P, d)) + 1e-300
    e_ = np.abs(mN.prod(axis=1) - np.abs(dt)) / dsc
    F.add(e_ > TOL_ID, "Chi:det", lambda i: "prod m_chi = %r, |det M| = %r" % (mN[i].prod(), abs(dt[i])))
    st["id:Chi"] = float(max(np.nanmax(e), np.nanmax(e_)))

    # ---- fermions, gluino, massless vectors
    for nm, ref in T.fermion_masses(P, np.sqrt).items():
        a = s(nm)
        F.add(np.abs(a - np.abs(ref)) > TOL_REC * np.abs(ref), nm + ":mass", lambda i: "%s = %r, |y v/sqrt2| = %r" % (nm, a[i], abs(ref[i])))
    F.add(np.abs(s("MGlu") - np.abs(P["M3"])) > 0, "Glu:mass", lambda i: "MGlu = %r, |M3| = %r" % (s("MGlu")[i], abs(P["M3"][i])))
    ph = c("PhaseGlu")
    ph = ph[:, 0] + 1j * ph[:, 1]
    F.add(np.abs(ph * ph * s("MGlu") - P["M3"]) > 1e-12 * np.abs(P["M3"]), "Glu:phase",
          lambda i: "PhaseGlu^2 MGlu = %r, M3 = %r" % (ph[i] ** 2 * s("MGlu")[i], P["M3"][i]))
    for nm in ("MVG", "MVP", "MFve", "MFvm", "MFvt"):
        F.add(s(nm) != 0, nm + ":mass", lambda i: "%s = %r, must be 0" % (nm, s(nm)[i]))

    # ---- tachyon list == monitored sectors with a negative reference eigenvalue
    n_amb = 0
    for i in range(N):
        txt = probs[i]
        rep = set()
        if txt:
            body = txt[len("Problem:"):] if txt.startswith("Problem:") else txt
            for part in body.split(","):
                w = part.split()
                if len(w) == 2 and w[1] == "tachyon":
                    rep.add(w[0])
                elif w:
                    F.items.append((i, "problems:unparsed", "unexpected problem text %r" % txt, None, None))
        must = {n for n in T.MONITORED if neg_pred[n][0][i]}
        may = {n for n in T.MONITORED if neg_pred[n][1][i]}
        n_amb += bool(may)
        for n in sorted(must - rep):
            F.items.append((i, n + ":tachyon-not-reported",
                            "%s has a negative squared mass in the textbook matrix but get_problems() = %r" % (n, txt), n, "tach"))
        for n in sorted(rep - must - may):
            F.items.append((i, n + ":tachyon-spurious" if n in T.MONITORED else n + ":tachyon-unmonitored",
                            "%s reported as tachyon (%r) but no squared mass of that sector is negative" % (n, txt), n, "tach"))
        unmon_neg = sorted(n for n in neg_pred if n not in T.MONITORED and neg_pred[n][0][i])
        cls[i] = (",".join(sorted(rep)), ",".join(unmon_neg))
    st["tachyon_sign_ambiguous(|m2|<1e-12||M||)"] = n_amb

    # ---- parameters untouched by the calculation (checked by the caller against the input) ; generation exchange
    for i, (n, what) in enumerate(gx):
        if n:
            first = what.split()[0] if what else "?"
            F.items.append((i, "GX:" + first.split(":")[-1],
                            "generation exchange does not exchange the spectra bitwise: %d mismatches (%s)" % (n, what), None, None))
    return F, st, cls, d


def confirm_mp(p, sector, vals_row, lay):
    """re-evaluate a reconstruction failure with 50-digit arithmetic; True if it is a real failure"""
    import mpmath
    with mpmath.workdps(50):
        M = T.mp_matrix(p, sector)
        col = lambda n: [mpmath.mpf(float(x)) for x in vals_row[mssmrun.col(lay, n)]]
        if sector in T.SNEUTRINOS:
            m = col("M" + sector)[0]
            return abs(m * m - abs(M[0, 0])) > mpmath.mpf(TOL_REC) * (abs(M[0, 0]) + 1)
        n = M.rows
        nM = mpmath.sqrt(sum(abs(M[i, j]) ** 2 for i in range(n) for j in range(n)))
        if sector in ("Cha", "Chi"):
            def cm(name):
                a = col(name)
                return mpmath.matrix([[mpmath.mpc(a[2 * (i * n + j)], a[2 * (i * n + j) + 1]) for j in range(n)] for i in range(n)])
            m = col("MCha" if sector == "Cha" else "MChi")
            D = mpmath.diag(m)
            R = cm("UM").T * D * cm("UP") if sector == "Cha" else cm("ZN").T * D * cm("ZN")
        else:
            zn = {"hh": "ZH", "Ah": "ZA", "Hpm": "ZP"}.get(sector) or T.MIX[sector]
            a = col(zn)
            Z = mpmath.matrix([[a[i * n + j] for j in range(n)] for i in range(n)])
            m = col("M" + sector)
            lam = []
            for i in range(n):
                r = sum(Z[i, j] * M[j, k] * Z[i, k] for j in range(n) for k in range(n))
                lam.append(mpmath.sign(r) * m[i] ** 2)
            R = Z.T * mpmath.diag(lam) * Z
        err = max(abs(R[i, j] - M[i, j]) for i in range(n) for j in range(n))
        return err > mpmath.mpf(TOL_REC) * nM


def _worker(job):
    """one chunk of the lattice: run harness, check, return failures + statistics"""
    devs, params, want_sig = job
    lay = mssmrun.layout("plain")["T"]
    vals, _, probs, gx = mssmrun.run_tree(params, "plain")
    sigs = mssmrun.run_tsig(params, "cov") if want_sig else ["-"] * len(params)
    F, st, cls, d = check_block(vals, probs, gx, lay)
    fails = []
    # parameters must be handed back untouched (bitwise), in particular mHd2 / mHu2
    inp = np.array([mssmrun.flat_tree(p) for p in params])
    mod = np.nonzero((vals[:, :45] != inp).any(axis=1))[0]
    names45 = [k for k in mssmrun.TREE_ORDER[:12]] + [k + str(g) for k in mssmrun.TREE_ORDER[12:] for g in range(3)]
    for i in mod:
        j = int(np.nonzero(vals[i, :45] != inp[i])[0][0])
        F.items.append((int(i), "params-modified:" + names45[j],
                        "calculate_DRbar_masses() changed %s from %r to %r" % (names45[j], inp[i, j], vals[i, j]), None, None))
    dropped = 0
    for i, key, what, sector, kind in F.items:
        if kind == "rec" and not confirm_mp(params[i], sector, vals[i], lay):
            dropped += 1
            continue
        fails.append((devs[i], key, what, {k: ([hexf(x) for x in v] if isinstance(v, list) else hexf(v)) for k, v in params[i].items()}))
    keys = sorted({(sg,) + c for sg, c in zip(sigs, cls)})
    samples = []
    if devs and len(devs) > 3:
        k = len(devs) // 2
        samples.append({"deviations": [list(x) for x in devs[k]], "problems": probs[k], "sig": sigs[k],
                        "MAh": vals[k, mssmrun.col(lay, "MAh")].tolist(), "MChi": vals[k, mssmrun.col(lay, "MChi")].tolist()})
    st["double_only_alarms_dropped_by_mp"] = dropped
    st["n_tachyonic_points"] = sum(1 for c in cls if c[0])
    st["n_goldstone_swapped(mA<mZ)"] = int((d["mA2"] < d["mZ2"]).sum())
    return fails, st, keys, samples, len(params)


# ------------------------------------------------------------------ public spectrum entry points of MSSMNoFV_onshell
# calculate_masses() (GM2Calc-type input) and convert_to_onshell() (SLHA-type input: pole masses + DR-bar
# parameters).  After the call the reported tachyon set must be the set of monitored sectors with a negative
# squared mass in the textbook matrices built from the model's FINAL Lagrangian parameters; the full C04
# oracle (reconstruction, Goldstones, identities ...) is applied to the final spectrum as well.
ENTRY_BASES = ["example.gm2", "example-gm2calc.cpp", "P3", "BM3"]
ENTRY_SIGNS = (1.0,) * 8
NAN = float("nan")


def entry_dimensions(mode):
    D = [("tb", [1.5, 40.0]),
         ("ml2[1]", [-1e4, 0.0, 1e2, 1e8]), ("me2[1]", [-1e4, 0.0, 1e2, 1e8]),
         ("ml2[2]", [-1e4, 0.0]), ("me2[2]", [-1e4, 0.0]),
         ("mq2[2]", [-1e4, 0.0]), ("mu2[2]", [-1e4, 0.0]), ("md2[2]", [-1e4, 0.0]),
         ("ml2[0]", [-1e4]), ("mq2[0]", [-1e4]),                      # unmonitored sectors
         ("Au[2]", [1e4, -1e4]), ("Ad[2]", [1e5]), ("Ae[2]", [1e5]), ("Ae[1]", [3e6]),
         ("Mu*", [-1.0, 30.0]), ("M1*", [-1.0]), ("M2*", [-1.0])]
    if mode == 1:
        # initial values of the entries the conversion overwrites: small, zero, negative, far off
        D += [("init:ml2(1,1)", [("abs", 10.0), ("abs", 0.0), ("abs", -1e4), ("abs", 1e8)]),
              ("init:me2(1,1)", [("abs", 100.0), ("abs", 0.0), ("abs", -1e4), ("abs", 1e8)]),
              ("init:Mu", [("abs", 1.0), ("abs", 0.0), ("rel", -1.0), ("rel", 10.0)]),
              ("init:M1", [("abs", 1.0), ("rel", -1.0), ("abs", 1e4)]),
              ("init:M2", [("abs", 1.0), ("rel", -1.0), ("abs", 1e4)])]
    return D


INIT_IDX = {"init:ml2(1,1)": 0, "init:me2(1,1)": 1, "init:Mu": 2, "init:M1": 3, "init:M2": 4}


def entry_case(base, mode, dev, order=0, sm=0):
    p = mssmrun.os_point(base, 10.0, ENTRY_SIGNS, force=1.0)
    p = {k: (list(v) if isinstance(v, list) else v) for k, v in p.items()}
    p["order"], p["sm"] = order, sm
    init = [NAN] * 5
    for nm, val in dev:
        if nm == "tb":
            p["tb"] = val
        elif nm.endswith("*"):
            p[nm[:-1]] *= val
        elif nm.startswith("init:"):
            pass
        else:
            k, i = nm[:-3], int(nm[-2])
            p[k][i] = val
    true = [p["ml2"][1], p["me2"][1], p["Mu"], p["M1"], p["M2"]]
    for nm, val in dev:
        if nm.startswith("init:"):
            i = INIT_IDX[nm]
            init[i] = val[1] if val[0] == "abs" else val[1] * true[i]
    return p, mode, init


def enumerate_entry(dmax):
    for mode in (0, 1):
        D = entry_dimensions(mode)
        for base in ENTRY_BASES:
            yield base, mode, ()
            for d in range(1, dmax + 1):
                for dims in itertools.combinations(range(len(D)), d):
                    for choice in itertools.product(*[range(len(D[i][1])) for i in dims]):
                        yield base, mode, tuple((D[i][0], D[i][1][c]) for i, c in zip(dims, choice))


ORDERS = [0, 1, 2, 3, 4]        # order of the setter calls, see setup_os() in harness/mssm.cpp
ORDER_STRIDE = 5                # every 5th case of the entry lattice is run in all orders with a non-default SM input set


def enumerate_entry_orders(dmax):
    """groups of len(ORDERS) consecutive jobs: the same case in every set-up order, SM input set 1..3 cycling"""
    for i, (base, mode, dev) in enumerate(enumerate_entry(dmax)):
        if i % ORDER_STRIDE == 0:
            sm = 1 + (i // ORDER_STRIDE) % 3
            for o in ORDERS:
                yield base, mode, dev, o, sm


def _colnames(lay):
    out = [None] * lay["__n__"][0]
    for n, (off, ln) in lay.items():
        for c in range(off, off + ln):
            out[c] = n
    return out


def _differs(x, y, names):
    """first parameter / mass that differs by more than 1e-10 relative (+ 1e-9 GeV), or None.  Higgs and Goldstone
    masses: eigenvalues of matrices formed as (mH^2 + mu^2) with entries ~ m_A^2 + mu^2, defined to eps (m_A^2 + mu^2)
    in the squared mass only (tan(beta) = vu/vd differs by an ulp between set-up orders)"""
    tol = 1e-10 * np.maximum(np.abs(x), np.abs(y)) + 1e-9
    i = {n: names.index(n) for n in ("Mu", "BMu", "vd", "vu")}
    hs = abs(x[i["BMu"]]) * (x[i["vd"]] ** 2 + x[i["vu"]] ** 2) / abs(x[i["vd"]] * x[i["vu"]]) + x[i["Mu"]] ** 2
    for c, n in enumerate(names[:len(x)]):
        if n in ("Mhh", "MAh", "MHpm", "MChargedHiggs", "MPseudoscalarHiggs"):
            tol[c] += 128 * EPS * hs / max(abs(x[c]), abs(y[c]), 1e-300)
    bad = np.nonzero(~(np.abs(x - y) <= tol))[0]
    if len(bad) == 0:
        return None
    c = int(bad[0])
    return names[c], float(x[c]), float(y[c])


def _entry_worker(job):
    lay = mssmrun.layout("plain")["T"]
    names = _colnames(lay)
    ncmp = lay["ZD"][0]              # Lagrangian parameters and all masses (mixing matrices are covered by the reconstruction clause)
    job = [tuple(j) + (0, 0) if len(j) == 3 else tuple(j) for j in job]
    cases = [entry_case(*j) for j in job]
    vals, _, probs, gx = mssmrun.run_spec(cases, "plain")
    NR = 4
    tagname = ("calculate_masses", "convert_to_onshell")
    runname = ("fresh", "fresh-again", "second-call-without-setting", "reused-object")
    fails, st = [], {}
    ok = [i for i in range(len(probs)) if not probs[i].startswith("X:")]
    for i in range(len(probs)):
        if probs[i].startswith("X:"):
            fails.append((job[i // NR], "entry:%s:exception-escapes" % tagname[job[i // NR][1]],
                          "an exception escapes although force_output is set (%s run): %s" % (runname[i % NR], probs[i][3:])))
    keys = set()
    if ok:
        F, st, cls, d = check_block(vals[ok], [probs[i] for i in ok], [gx[i] for i in ok], lay)
        for i, key, what, sector, kind in F.items:
            gi = ok[i]
            j = job[gi // NR]
            fails.append((j, "entry:%s:%s" % (tagname[j[1]], key), "%s  {after %s(), %s run}" % (what, tagname[j[1]], runname[gi % NR])))
        for i, c in zip(ok, cls):
            keys.add((tagname[job[i // NR][1]], "order%d" % job[i // NR][3]) + tuple(c))
        st["entry_points_with_tachyon_report"] = sum(1 for c in cls if c[0])
    nwarn = ndiffsol = 0
    # the same input must give the same report: twice on fresh objects (and identical numbers), and on a re-used object
    for c in range(len(job)):
        a, b, s2, r = NR * c, NR * c + 1, NR * c + 2, NR * c + 3
        tn = tagname[job[c][1]]
        if probs[a] != probs[b] or vals[a].tobytes() != vals[b].tobytes():
            fails.append((job[c], "entry:%s:not-reproducible" % tn, "two fresh objects with the same input give %r / %r (numbers identical: %s)"
                          % (probs[a], probs[b], vals[a].tobytes() == vals[b].tobytes())))
        # calculate_masses() a second time on the same object, nothing set in between, must change nothing
        if job[c][1] == 0 and not probs[b].startswith("X:") and not probs[s2].startswith("X:"):
            df = _differs(vals[b, :ncmp], vals[s2, :ncmp], names)
            if df or probs[b] != probs[s2]:
                fails.append((job[c], "entry:%s:second-call-changes:%s" % (tn, df[0] if df else "report"),
                              "a second calculate_masses() on the same object changes %s" % (("%s from %r to %r" % df) if df else "the report from %r to %r" % (probs[b], probs[s2]))))
        warned = any(gx[i][1] == "W" for i in (a, r))
        nwarn += warned
        # a convergence warning means the final parameters are not determined by the input (the iteration stopped
        # somewhere that depends on where it started, incl. left-over Yukawas of the previous evaluation)
        # the report is a function of the FINAL parameters (checked on every run by the tachyon clause above).  The
        # conversion has several solutions (e.g. mu <-> M2 exchanged); a fresh object starts its iteration from
        # g1 = g2 = y = 0, a re-used one from the previous couplings, so with a far-off initial guess the two can
        # end on different solutions.  Equality of the reports is required when the same solution was reached.
        pa, pr = vals[a, :45], vals[r, :45]
        same_solution = bool(np.all(np.abs(pa - pr) <= 1e-6 * np.maximum(np.abs(pa), np.abs(pr)) + 1e-9))
        ndiffsol += (not warned) and (not same_solution)
        if probs[a] != probs[r] and not warned and same_solution:
            fails.append((job[c], "entry:%s:report-differs-on-reused-object" % tn,
                          "fresh object reports %r, the same input on the re-used object reports %r" % (probs[a], probs[r])))
    # order of the setter calls: the GM2Calc-type result must not depend on it (tan(beta) is stored as vu/vd, so
    # 1e-10 relative rather than bitwise)
    ref = {}
    for c, j in enumerate(job):
        if j[3] == 0:
            ref[(j[0], j[1], j[2], j[4])] = c
    nord = 0
    for c, j in enumerate(job):
        if j[3] == 0 or j[1] != 0 or (j[0], j[1], j[2], j[4]) not in ref:
            continue
        c0 = ref[(j[0], j[1], j[2], j[4])]
        if probs[NR * c].startswith("X:") or probs[NR * c0].startswith("X:"):
            continue
        nord += 1
        df = _differs(vals[NR * c0, :ncmp], vals[NR * c, :ncmp], names)
        if df or probs[NR * c] != probs[NR * c0]:
            fails.append((j, "entry:calculate_masses:order%d-dependent:%s" % (j[3], df[0] if df else "report"),
                          "set-up order %d gives %s than the canonical order" % (j[3], ("%s = %r instead of %r" % (df[0], df[2], df[1])) if df else "the report %r instead of %r" % (probs[NR * c], probs[NR * c0]))))
    st = {k: v for k, v in st.items() if not isinstance(v, float)}
    st["entry_cases_with_convergence_warning(reused-report not required)"] = nwarn
    st["entry_cases_where_reused_object_converged_to_a_different_solution(no warning)"] = ndiffsol
    st["entry_order_comparisons(order o vs canonical, calculate_masses)"] = nord
    return fails, st, sorted(keys), len(job), sum(1 for i in ok)


def run_entry(ctx, dmax):
    jobs, cur = [], []
    for j in enumerate_entry(dmax):
        cur.append(j)
        if len(cur) == 150:
            jobs.append(cur); cur = []
    if cur:
        jobs.append(cur)
    cur = []
    for j in enumerate_entry_orders(dmax):          # groups of len(ORDERS) stay in one chunk
        cur.append(j)
        if len(cur) == 30 * len(ORDERS):
            jobs.append(cur); cur = []
    if cur:
        jobs.append(cur)
    n, nrows, keys, stats = 0, 0, set(), {}
    with mp.Pool(min(16, os.cpu_count() or 4)) as pool:
        for fails, st, ks, cnt, rows in pool.imap(_entry_worker, jobs):
            n += cnt
            nrows += rows
            ctx.evals(4 * cnt)
            keys.update(ks)
            for k, v in st.items():
                stats[k] = stats.get(k, 0) + v
            for jb, key, what in fails:
                base, mode, dev = jb[:3]
                order, sm = (jb[3], jb[4]) if len(jb) > 3 else (0, 0)
                ctx.fail(key, "%s  [base %s, %s-type input, deviations %s, set-up order %d, SM input set %d]" % (what, base, ("GM2Calc", "SLHA")[mode], list(dev), order, sm),
                         {"entry": {"base": base, "mode": mode, "order": order, "sm": sm, "dev": [[nm, list(v) if isinstance(v, tuple) else v] for nm, v in dev]}})
            if ctx.out_of_time("entry-point lattice"):
                pool.terminate()
                break
    for k in sorted(keys):
        ctx.nontrivial(("entry",) + k)
    ctx.note("entry_point_cases(x4 runs each, incl. every %dth case in all %d set-up orders)" % (ORDER_STRIDE, len(ORDERS)), n)
    ctx.note("entry_point_runs_checked", nrows)
    ctx.note("entry_point_distinct_(entry,tachyon set,unmonitored negative)", len(keys))
    ctx.note("entry_point_counts", stats)


def run(ctx):
    build.ensure("plain")
    dmax = 2 if ctx.quick else 3
    want_sig = True
    mssmrun.exe("cov")        # branch-path signatures (non-triviality count only, never compared with a baseline)
    mssmrun.exe("plain")      # all verdicts come from the g++ -O2 build users get
    T.selftest()
    total = lattice_size(dmax)
    ctx.note("lattice_dimensions", len(dimensions()))
    ctx.note("lattice_alternates", sum(len(a) for _, a in dimensions()))
    ctx.note("lattice_points_expected", total)
    CH = 1500 if ctx.quick else 4000

    def jobs():
        devs, params = [], []
        for dev, I in itertools.chain(enumerate_inputs(dmax), enumerate_product(dmax)):
            devs.append(dev)
            params.append(to_params(I))
            if len(params) == CH:
                yield devs, params, want_sig
                devs, params = [], []
        if params:
            yield devs, params, want_sig

    stats, keys, n = {}, set(), 0
    stopped = False
    with mp.Pool(min(16, os.cpu_count() or 4)) as pool:
        for fails, st, ks, samples, cnt in pool.imap(_worker, jobs()):
            n += cnt
            ctx.evals(cnt)
            for k, v in st.items():
                if isinstance(v, float):
                    stats[k] = max(stats.get(k, 0.0), v)
                else:
                    stats[k] = stats.get(k, 0) + v
            keys.update(ks)
            for sm in samples:
                ctx.sample(sm)
            for dev, key, what, pdata in fails:
                ctx.fail(key, what + "  [deviations from base: %s]" % (list(dev),), {"params": pdata, "deviations": [list(x) for x in dev]})
            if ctx.out_of_time("lattice"):
                stopped = True
                pool.terminate()
                break
    run_entry(ctx, 2 if ctx.quick else 3)
    if not stopped and n != total:
        raise RuntimeError("enumerated %d points, lattice formula says %d" % (n, total))
    for k in sorted(keys):
        ctx.nontrivial(k)
    ctx.note("points", n)
    ctx.note("distinct_branch_path_signatures", len({k[0] for k in keys}))
    ctx.note("distinct_tachyon_sets", len({k[1] for k in keys}))
    worst = {k: float("%.3g" % v) for k, v in sorted(stats.items()) if isinstance(v, float)}
    counts = {k: v for k, v in sorted(stats.items()) if not isinstance(v, float)}
    ctx.assumptions += [
        "textbook (Martin / SLHA) tree-level mass matrices in R_xi=1 gauge are the reference; tan(beta), signs and soft masses only on the lattice",
        "a squared mass within 1e-12 ||M|| of zero may be reported as tachyon or not (sign is rounding noise)",
        "Goldstone position is not decided when m_A^2 equals m_Z^2 (resp. 0) to 1e-13 ||M|| (exactly degenerate eigenvalues)"]
    return ctx.finish(
        "all assignments with <= %d deviations from the base point over %d dimensions / %d alternates, plus the full product over (tan beta, mu, M1, M2, m_A^2, common soft mass); "
        "distinct = (branch-path signature of calculate_DRbar_masses, reported tachyon set, unmonitored negative sectors)"
        % (dmax, len(dimensions()), sum(len(a) for _, a in dimensions())),
        {"worst_residuals": worst, "counts": counts, "max_deviations": dmax})


def replay(ctx, path):
    import json
    d = json.load(open(path))
    if "entry" in d["data"]:
        e = d["data"]["entry"]
        dev = tuple((nm, tuple(v) if isinstance(v, list) else v) for nm, v in e["dev"])
        mssmrun.exe("plain")
        grp = [(e["base"], e["mode"], dev, o, e.get("sm", 0)) for o in sorted({0, e.get("order", 0)})]
        fails = _entry_worker(grp)[0]
        hit = [f for f in fails if f[1] == d["key"]] or fails
        for _, key, what in hit[:8]:
            print("replay: [%s] %s" % (key, what))
        if hit:
            print("VIOLATION property=C04 replay=%s" % path)
            return 1
        print("replay: holds now (entry-point oracles pass on the stored case)")
        return 0
    pd = d["data"]["params"]
    p = {k: ([unhex(x) for x in v] if isinstance(v, list) else unhex(v)) for k, v in pd.items()}
    mssmrun.exe("plain")
    fails, st, keys, _, _ = _worker(([tuple(map(tuple, d["data"].get("deviations", [])))], [p], False))
    hit = [f for f in fails if f[1] == d["key"]] or fails
    for dev, key, what, _ in hit:
        print("replay: [%s] %s" % (key, what))
    if hit:
        print("VIOLATION property=C04 replay=%s" % path)
        return 1
    print("replay: holds now (all C04 oracles pass on the stored point)")
    return 0
