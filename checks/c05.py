"""C05 - DR-bar -> on-shell conversion reproduces the input pole masses or warns.

Round trip: every generating on-shell point of a lattice (tan beta, all 8 sign patterns of (mu, M1, M2),
separated and near-degenerate gaugino/higgsino rows, both smuon orderings and mL = mR(1 +- 5%)) gets its pole
spectrum from calculate_masses(); the spectrum is copied into a fresh SLHA-type model the way
GM2_slha_io::fill_slha() / examples/example-slha.cpp do (physical MCha, MChi, MSvmL, MSm, with and without
the pole mixing matrices NMIX/SMUMIX) together with initial guesses for (mu, M1, M2, ml2(2,2), me2(2,2))
perturbed by {-5%, 0, +5%}^5, and convert_to_onshell(p, 1000) is run for p in {1e-10, 1e-8, 1e-6, 1e-4}.  A third
variant moves the left-like smuon pole mass by 1% (away from the right-like one) so that the input is no longer a
tree-level spectrum: the scheme does not use that mass, so all clauses must hold unchanged.  Every 5th perturbation
is additionally built, converted and read back exclusively through the C interface (MSSMNoFV_onshell.h: new, setters
incl. the *_pole setters, gm2calc_mssmnofv_convert_to_onshell_params(precision, 1000) for every precision goal and the
default entry point gm2calc_mssmnofv_convert_to_onshell, getters, have_warning, free): same oracle, and the result must
be bitwise the one of the C++ conversion of the same case.

Object re-use: all ordered pairs (thorough: and triples) of conversions on ONE model object (C++ object and C handle) over
an alphabet of 4 points (bino-like neutralino lightest / second / heaviest, either sign of M1, right-like smuon lighter /
heavier than the left-like) x what the user supplies (all pole masses; + pole mixing matrices; none = tree-level
fallback; only chargino/neutralino; only sneutrino/smuon).  Before every conversion all inputs a user has a setter for
are set again (a user's own NMIX/SMUMIX are removed when he has none for the new point; matrices the library stored are
not touched).  Per step: the clauses above for the sectors whose pole masses were given, and the differential clause:
the result equals that of a fresh object given the same inputs - bitwise, or (the first mass spectrum inside
convert_to_onshell() is computed from whatever gauge couplings the object holds, so the iteration can start elsewhere)
same warning status, parameters within 10 p and a_mu within 0.1 p/GeV of its scale.

Oracle (harness/mssm_ref.cpp only dumps getters, all decisions are taken here): unless have_warning()
 (i)   both chargino masses reproduce the generating ones within p,
 (ii)  the bino-like neutralino (largest |ZN(i,1)|^2, determined here from the dumped column) reproduces the
       generating point's bino-like mass within p  [without NMIX and with non-separated gaugino parameters only the
       self-consistent form: it equals *one* of the input neutralino pole masses within p],
 (iii) the muon-sneutrino mass is reproduced within p (+1e-13 relative rounding allowance),
 (iv)  the mostly right-handed smuon (largest |USm(i,2)|) reproduces the generating point's within p; a larger
       deviation is attributed to the known defect (Yukawa resummation redone after the fit) only if the fitted me2
       reproduces the target within p when the smuon matrix is rebuilt here with the pre-fit Yukawa; otherwise the
       wrong state / no state was fitted -> VIOLATION,
 (v)   on the well-conditioned subset the five parameters are recovered to 1e-4 relative and a_mu to 1e-5."""
import itertools
import json
import math
import multiprocessing as mp
import os
import subprocess

import build
from core import InfraError, hexf, unhex

META = dict(
    level="exploration",
    technique="exhaustive round-trip lattice: on-shell point -> pole spectrum -> SLHA-type model with all 3^5 perturbed "
              "initial guesses x 4 precision goals x with/without pole mixing matrices -> convert_to_onshell; masses that "
              "define the scheme compared with the generating point",
    text="For every generating point of a finite lattice (tan beta in {2,10,40,60}, all 8 sign patterns, separated and "
         "near-degenerate (mu,M1,M2) rows, smuon soft masses in {100,300,1000,3000} in both orderings and 5% apart) and every "
         "one of the 243 initial-guess perturbations (quick: fewer generating points and 3 precision goals), each conversion either reports a "
         "warning or reproduces both chargino masses, the bino-like neutralino, the muon sneutrino and the right-like smuon "
         "of the generating point within the requested precision; parameters and a_mu are recovered on the well-conditioned "
         "subset. Says nothing about SLHA spectra that do not stem from a tree-level on-shell point (true loop-corrected pole "
         "masses) nor about inputs off the lattice.",
    note="trusted: the generating spectrum from calculate_masses() (C04 checks it), hex-float transport; identification of "
         "bino-like / right-like states is redone in python from dumped mixing-matrix entries",
    design_ref="3/C05")

HARNESSES = [(("mssm_ref", "plain", ["mssm_ref.cpp"]), {})]

PRECS = [1e-10, 1e-8, 1e-6, 1e-4]
TBS = [2.0, 10.0, 40.0, 60.0]
SIGNS = list(itertools.product((1, -1), repeat=3))
# (|mu|, |M1|, |M2|, name): separated rows, M1 ~ M2, mu ~ M2 (10% apart: exact equality mu = M2 never converges and is
# always flagged, measured), all within 10-20%
GAUGINO = [(400.0, 150.0, 1200.0, "sep:M1<mu<M2"), (1200.0, 400.0, 150.0, "sep:M2<M1<mu"),
           (150.0, 1200.0, 400.0, "sep:mu<M2<M1"), (1200.0, 400.0, 400.0, "deg:M1=M2"),
           (1200.0, 400.0, 440.0, "near:M1~M2"), (440.0, 150.0, 400.0, "near:mu~M2"),
           (400.0, 440.0, 360.0, "near:all")]
# (mL, mR, name)
SLEPTON = [(300.0, 1000.0, "L<R"), (1000.0, 300.0, "R<L"), (100.0, 3000.0, "L<<R"), (3000.0, 100.0, "R<<L"),
           (300.0, 315.0, "L~R-"), (315.0, 300.0, "L~R+"), (1000.0, 1000.0, "L=R"), (100.0, 100.0, "L=R:light"),
           (3000.0, 2850.0, "L~R+:heavy")]
SMUON_CAP = 1e-3          # GeV; size classes of the known post-fit Yukawa update defect
REC_TOL, AMU_TOL = 1e-4, 1e-5

_EXE = None


def gen_points(quick):
    """list of (tb, mu, M1, M2, mL, mR, key)"""
    out = []
    if quick:
        gs = [GAUGINO[0], GAUGINO[4], GAUGINO[5]]
        ss = [SLEPTON[0], SLEPTON[1], SLEPTON[4], SLEPTON[5], SLEPTON[7]]
        combos = [(g, s) for g in gs for s in ss if g is gs[0] or s in ss[:2]]
        # rows in which the bino index changes during the iteration / the me2 fit fails and must be flagged
        combos += [(GAUGINO[3], SLEPTON[0]), (GAUGINO[6], SLEPTON[0]), (GAUGINO[1], SLEPTON[7])]
        tbs = [2.0, 10.0, 60.0]
        for tb in tbs:
            for sg in SIGNS:
                for (am, a1, a2, gn), (ml, mr, sn) in combos:
                    out.append((tb, sg[0] * am, sg[1] * a1, sg[2] * a2, ml, mr, (gn, sn)))
        return out
    for tb in TBS:
        for sg in SIGNS:
            for (am, a1, a2, gn), (ml, mr, sn) in itertools.product(GAUGINO, SLEPTON):
                # deviation-bounded: any gaugino row with the two standard smuon orderings, any smuon row with the
                # separated gaugino rows + the near-degenerate rows combined with the 5%-apart smuon rows
                if not (sn in ("L<R", "R<L") or gn.startswith("sep") or (gn.startswith("near") and sn.startswith("L~R"))):
                    continue
                out.append((tb, sg[0] * am, sg[1] * a1, sg[2] * a2, ml, mr, (gn, sn)))
    return out


CSTEP = 5          # C-interface variants: every 5th perturbation (offset rotates with the generating point)
MODE_NAME = ("without NMIX/SMUMIX", "with NMIX/SMUMIX", "with NMIX/SMUMIX (left-like smuon pole mass shifted 1%)",
             "through the C interface, gm2calc_mssmnofv_convert_to_onshell_params(precision, 1000), without NMIX/SMUMIX",
             "through the C interface, gm2calc_mssmnofv_convert_to_onshell() [defaults 1e-8, 1000], without NMIX/SMUMIX")
MODE_TAG = ("noNMIX", "NMIX", "NMIX+shiftedL", "C-api:params", "C-api:default")


def cmd_for(pt, modes, precs, perts, coff=0):
    tb, mu, M1, M2, ml, mr, _ = pt
    return "C %s %d %d %s %d %s %d %d" % (" ".join(hexf(v) for v in (tb, mu, M1, M2, ml, mr, 0.0)), modes, len(precs),
                                          " ".join(hexf(p) for p in precs), len(perts), " ".join(str(p) for p in perts),
                                          CSTEP, coff)


def parse_spec(tk):
    v = [unhex(t) for t in tk]
    return dict(par=v[0:5], cha=v[5:7], chi=v[7:11], zn0=v[11:15], snu=v[15], sm=v[16:18],
                usm=[v[18:20], v[20:22]], amu=v[22], amuscale=v[23]), v[24:]


def bino_index(s):
    return max(range(4), key=lambda i: (s["zn0"][i], -i))


def right_index(s):
    return max(range(2), key=lambda i: (abs(s["usm"][i][1]), -i))


def smuon_right_mass(par, lag, y):
    """mass of the mostly right-handed eigenstate of the tree-level smuon matrix for soft parameters par =
    (mu, M1, M2, ml2, me2), lag = (g1, g2, vd, vu, y_final, T_final) and muon Yukawa y (T scaled along);
    returns (mass, rounding allowance) or (None, 0)"""
    mu, _, _, ml2, me2 = par
    g1, g2, vd, vu, yfin, Tfin = lag
    if not (math.isfinite(y) and yfin != 0):
        return None, 0.0
    T = Tfin / yfin * y
    gp2 = 0.6 * g1 * g1
    D = vd * vd - vu * vu
    a = ml2 + 0.5 * y * y * vd * vd + (gp2 - g2 * g2) / 8 * D
    d = me2 + 0.5 * y * y * vd * vd - gp2 / 4 * D
    b = (vd * T - vu * y * mu) / math.sqrt(2)
    r = math.hypot((a - d) / 2, b)
    lam = [(a + d) / 2 - r, (a + d) / 2 + r]
    # eigenvector of lam: (b, lam - a); right-handed component dominates if |lam - a| > |b|
    i = 0 if abs(lam[0] - a) > abs(lam[1] - a) else 1
    if b == 0:
        i = 0 if d <= a else 1
    if lam[i] <= 0:
        return None, 0.0
    mass = math.sqrt(lam[i])
    return mass, 8 * 2.0 ** -53 * (abs(a) + abs(d)) / mass


def conditioning(g):
    mu, M1, M2, ml2, me2 = g["par"]
    a = sorted([abs(mu), abs(M1), abs(M2)])
    gaug_sep = min(a[1] / a[0], a[2] / a[1]) >= 1.2
    mL, mR = math.sqrt(ml2), math.sqrt(me2)
    smu_sep = abs(mL - mR) / max(mL, mR) > 0.10
    r = right_index(g)
    small_mix = abs(g["usm"][r][0]) < 0.3
    return gaug_sep, smu_sep and small_mix


ALL_CLAUSES = frozenset(("gaugino", "slepton", "recovery"))


def evaluate(pt, glines, only=ALL_CLAUSES):
    """glines: harness output lines of one C command.  Returns (stats Counter-like dict, fails list, keys set).
    only: clause groups to apply (chargino+bino / sneutrino+right smuon / parameter recovery)"""
    stats, fails, keys = {}, [], set()

    def add(k, n=1):
        stats[k] = stats.get(k, 0) + n

    tb, mu, M1, M2, mL, mR, (gn, sn) = pt
    sgn = "".join("+" if v > 0 else "-" for v in (mu, M1, M2))
    tk = glines[0].split()
    if tk[0] != "G":
        raise InfraError("unexpected harness line " + glines[0][:80])
    if tk[1] != "OK":
        add("gen_skipped:" + " ".join(tk[1:5]))
        return stats, fails, keys, {}
    g, _ = parse_spec(tk[2:])
    add("gen_ok")
    bg, rg = bino_index(g), right_index(g)
    gaug_ok, smu_ok = conditioning(g)
    wellcond = gaug_ok and smu_ok
    worst = {}
    cpp = {}
    for ln in glines[1:]:
        tk = ln.split()
        mode, prec, pert = int(tk[1]), unhex(tk[2]), int(tk[3])
        ptag = "p=%.0e" % prec
        add("conversions")
        if mode == 0:
            cpp[(tk[2], pert)] = tk[4:]
        elif mode >= 3:
            # the C entry points must give exactly what the C++ conversion of the same case gives
            add("c_api_conversions")
            ref = cpp.get((tk[2], pert))
            if ref is not None and ref != tk[4:]:
                k = next((i for i, (x, y) in enumerate(zip(ref, tk[4:])) if x != y), min(len(ref), len(tk) - 4))
                fails.append(("c-api-differs-from-c++:%s" % MODE_TAG[mode],
                              "result of the conversion through the C interface differs from the C++ conversion of the same case "
                              "(first differing column %d: C++ %s, C %s)" % (k, ref[k] if k < len(ref) else "-", tk[4 + k] if 4 + k < len(tk) else "-"),
                              mode, prec, pert))
            elif ref is not None:
                add("c_api_bitwise_equal_to_c++")
        if tk[4] != "OK":
            add("conv_exception:" + " ".join(tk[5:7]))
            keys.add(("exc", gn, sn, tk[5]))
            continue
        flags = int(tk[5])
        m, rest = parse_spec(tk[6:-1])
        path = tk[-1]
        add("path:" + path)
        if flags & 1:
            add("warned")
            add("warned:" + ("Mu/M1/M2" if flags & 2 else "") + ("+me2" if flags & 4 else "") + ":" + gn + ":" + sn)
            keys.add(("warn", mode, ptag, gn, sn, flags, path))
            continue
        if flags & 6:
            fails.append(("flag-inconsistent", "convergence flag set (%d) but have_warning() false" % flags,
                          mode, prec, pert))
            continue
        add("checked")
        data = (mode, prec, pert)
        bad = False
        bm, rm, dsm = bino_index(m), right_index(m), 0.0
        if "gaugino" in only:
            # (i) charginos
            dcha = max(abs(m["cha"][i] - g["cha"][i]) for i in range(2))
            worst["cha"] = max(worst.get("cha", 0.0), dcha / prec)
            if not dcha <= prec:
                fails.append(("chargino:%s:%s" % (gn, ptag), "chargino masses %r vs generating %r: |diff| %.3e > p=%g, no warning"
                              % (m["cha"], g["cha"], dcha, prec)) + data)
                bad = True
            # (ii) bino-like neutralino
            bm = bino_index(m)
            dbino = abs(m["chi"][bm] - g["chi"][bg])
            if mode in (1, 2) or gaug_ok:
                worst["bino"] = max(worst.get("bino", 0.0), dbino / prec)
                if not dbino <= prec:
                    fails.append(("bino:%s:%s:%s" % (MODE_TAG[mode], gn, ptag),
                                  "bino-like neutralino (index %d) mass %.12g vs generating bino-like (index %d) %.12g: |diff| %.3e > p=%g, no warning"
                                  % (bm, m["chi"][bm], bg, g["chi"][bg], dbino, prec)) + data)
                    bad = True
            else:
                dself = min(abs(m["chi"][bm] - x) for x in g["chi"])
                if dbino > prec:
                    add("bino_other_pole_mass_fitted(noNMIX,non-separated)")
                if not dself <= prec:
                    fails.append(("bino-selfconsistent:%s:%s" % (gn, ptag),
                                  "bino-like neutralino mass %.12g equals none of the input pole masses %r within p=%g, no warning"
                                  % (m["chi"][bm], g["chi"], prec)) + data)
                    bad = True
        if "slepton" in only:
            # (iii) sneutrino
            dsnu = abs(m["snu"] - g["snu"])
            worst["snu_rel"] = max(worst.get("snu_rel", 0.0), dsnu / g["snu"])
            if not dsnu <= prec + 1e-13 * g["snu"]:
                fails.append(("sneutrino:%s" % ptag, "muon sneutrino mass %.15g vs generating %.15g: |diff| %.3e > p=%g"
                              % (m["snu"], g["snu"], dsnu, prec)) + data)
                bad = True
            # (iv) right-like smuon
            rm = right_index(m)
            dsm = abs(m["sm"][rm] - g["sm"][rg])
            if dsm > prec:
                # was the fit itself achieved?  Rebuild the smuon mass matrix of the converted parameter set with the
                # muon Yukawa the me2 fit worked with (y_prefit) and look at its mostly right-handed eigenstate.
                mpre, round_ = smuon_right_mass(m["par"], rest[2:8], rest[8])
                fitted = mpre is not None and abs(mpre - g["sm"][rg]) <= prec + round_
                where = "(tb=%g mu=%g M1=%g M2=%g mL=%g mR=%g)" % (tb, mu, M1, M2, mL, mR)
                if fitted:
                    size = "dev<1e-3GeV" if dsm < SMUON_CAP else "dev>=1e-3GeV:strong-mixing"
                    add("smuonR_yukawa_update_%s:%s" % (size.split(":")[0], ptag))
                    if dsm > worst.get("smuR_yukawa_update_dev_GeV", 0.0):
                        worst["smuR_yukawa_update_dev_GeV"] = dsm
                        worst["@smuR_yukawa_update"] = "%s p=%g pert=%d mode=%d: right-like smuon %.10g vs %.10g" % (
                            where, prec, pert, mode, m["sm"][rm], g["sm"][rg])
                    worst["smuR_yukawa_update_dev/splitting"] = max(worst.get("smuR_yukawa_update_dev/splitting", 0.0),
                                                                    dsm / abs(g["sm"][1] - g["sm"][0]))
                    fails.append(("smuonR:post-fit-yukawa-update:" + size,
                                  "right-like smuon mass %.12g vs generating %.12g: |diff| %.3e GeV > p=%g, no warning; with the pre-fit "
                                  "muon Yukawa %.10g (final %.10g) the fitted me2 gives %.12g %s"
                                  % (m["sm"][rm], g["sm"][rg], dsm, prec, rest[8], rest[6], mpre, where)) + data)
                else:
                    # which input pole mass did the right-like state end up on?  (mode 2: left-like one was shifted)
                    other = g["sm"][1 - rg] * ((1.01 if 1 - rg == 1 else 0.99) if mode == 2 else 1.0)
                    how = "root-finder" if "r" in path else "fpi"
                    if mpre is not None and abs(mpre - other) <= prec + round_:
                        add("smuonR_on_left_like_pole_mass:%s:%s:mode%d" % (how, sn, mode))
                        fails.append(("smuonR:%s-matches-left-like-pole-mass:%s:%s" % (how, sn, ("shiftedL" if mode == 2 else "tree-level-spectrum")),
                                      "the fitted right-like smuon (index %d, |U_R| %.3f, mass %.10g) sits on the LEFT-like input pole mass %.10g "
                                      "instead of the right-like one %.10g (|diff| %.3e GeV), achieved precision reported as fine, no warning; "
                                      "input smuon pole masses %r, path '%s'"
                                      % (rm, abs(m["usm"][rm][1]), m["sm"][rm], other, g["sm"][rg], dsm,
                                         [other if i != rg else g["sm"][rg] for i in range(2)], path)) + data)
                    else:
                        fails.append(("smuonR:not-fitted:%s:%s" % (sn, ptag),
                                      "right-like smuon (index %d, |U_R| %.3f) mass %.10g vs generating right-like (index %d) %.10g: "
                                      "|diff| %.3e GeV > p=%g, no warning, and not explained by the post-fit Yukawa update (pre-fit Yukawa gives %r); "
                                      "smuon pole masses %r, fitted %r, path '%s'"
                                      % (rm, abs(m["usm"][rm][1]), m["sm"][rm], rg, g["sm"][rg], dsm, prec, mpre, g["sm"], m["sm"], path)) + data)
                    bad = True
            else:
                add("smuonR_within_p")
        if "recovery" in only:
            # (v) parameter recovery
            gp, mp_ = g["par"], m["par"]
            rel = [abs(mp_[i] / gp[i] - 1) for i in range(3)] + [abs(math.sqrt(abs(mp_[i]) / gp[i]) - 1) for i in (3, 4)]
            ra = abs(m["amu"] - g["amu"]) / g["amuscale"]
            rec = max(rel)
            worst["amu_dev_any_checked"] = max(worst.get("amu_dev_any_checked", 0.0), ra)
            if dsm > prec:
                worst["amu_dev_with_smuR_defect"] = max(worst.get("amu_dev_with_smuR_defect", 0.0), ra)
            if wellcond:
                add("wellcond_checked")
                worst["rec_par"] = max(worst.get("rec_par", 0.0), rec)
                worst["rec_amu"] = max(worst.get("rec_amu", 0.0), ra)
                if not (rec <= REC_TOL and ra <= AMU_TOL) and not bad:
                    fails.append(("recovery:%s:%s:%s" % (gn, sn, ptag),
                                  "well-conditioned point: parameters (mu,M1,M2,ml2,me2) %r vs generating %r (max rel %.3e, allowed %g); "
                                  "a_mu %.10e vs %.10e (diff %.3e of |chi0|+|chi+-|+|2L|, allowed %g)" % (mp_, gp, rec, REC_TOL, m["amu"], g["amu"], ra, AMU_TOL))
                                 + data)
            else:
                add("illcond:recovered" if (rec <= REC_TOL and ra <= AMU_TOL) else "illcond:not_recovered:%s:%s" % (gn, sn))
        keys.add(("ok", mode, ptag, gn, sn, sgn, tb, path, bm, rm, pert // 81))
    return stats, fails, keys, worst


# ---------------------------------------------------------------------------------------------------------------
# object re-use family: sequences of conversions on ONE model object (C++ object or C handle).  Alphabet of states =
# point x what the user supplies; the points differ in every discrete choice the conversion takes.
SEQ_POINTS = [
    ((10.0, 400.0, 150.0, 1200.0, 300.0, 1000.0), "bino-lightest:M1>0", "L<R"),
    ((40.0, 1200.0, 400.0, 150.0, 1000.0, 300.0), "bino-second:M1>0", "R<L"),
    ((10.0, 300.0, -1000.0, 500.0, 300.0, 1000.0), "bino-heaviest:M1<0", "L<R"),
    ((60.0, -400.0, -150.0, 1200.0, 1000.0, 300.0), "bino-lightest:M1<0", "R<L"),
]
# (pole, mixing): pole bit0 chargino+neutralino pole masses given, bit1 sneutrino+smuon pole masses given (absent =
# set to zero = documented tree-level fallback); mixing 1 = pole mixing matrices supplied (C++ only)
SEQ_SUPPLY = [(3, 0, "poles"), (3, 1, "poles+mixing"), (0, 0, "no-poles"), (1, 0, "gaugino-poles-only"),
              (2, 0, "slepton-poles-only")]
SEQ_PERTS = [121, 0]                  # exact initial guesses / all five 5% low
RU_PAR_TOL = 10.0                     # |delta parameter| <= RU_PAR_TOL * p (GeV) between re-used and fresh object (measured worst 1.3 p)
RU_AMU_TOL = 0.1                      # |delta a_mu| <= RU_AMU_TOL * p/GeV * (|chi0|+|chi+-|+|2L|)  (measured worst 1e-3)


def seq_states(api):
    return [(ip, isup) for ip in range(len(SEQ_POINTS)) for isup, s in enumerate(SEQ_SUPPLY) if api == 0 or s[1] == 0]


def seq_jobs(quick):
    """list of (api, prec, pert, tuple of states)"""
    jobs = []
    for api in (0, 1):
        st = seq_states(api)
        for prec in ([1e-8] if quick else [1e-8, 1e-4]):
            for pert in SEQ_PERTS:
                for seq in itertools.product(st, repeat=2):
                    jobs.append((api, prec, pert, seq))
                if not quick:
                    for seq in itertools.product(st, repeat=3):
                        jobs.append((api, prec, pert, seq))
    return jobs


def seq_cmd(job):
    api, prec, pert, seq = job
    parts = []
    for ip, isup in seq:
        p = SEQ_POINTS[ip][0]
        pole, mixing, _ = SEQ_SUPPLY[isup]
        parts.append("%s %d %d %d" % (" ".join(hexf(v) for v in p + (0.0,)), pole, mixing, pert))
    return "Q %d %s %d %s" % (api, hexf(prec), len(seq), " ".join(parts))


def state_name(st):
    return "%s/%s/%s" % (SEQ_POINTS[st[0]][1], SEQ_POINTS[st[0]][2], SEQ_SUPPLY[st[1]][2])


def evaluate_seq(job, lines):
    """lines: harness output of one Q command -> (stats, fails[(key, what)], keys, worst)"""
    api, prec, pert, seq = job
    stats, fails, keys, worst = {}, [], set(), {}

    def add(k, n=1):
        stats[k] = stats.get(k, 0) + n

    by = {}
    for ln in lines:
        tk = ln.split(None, 2)
        by[(tk[0], int(tk[1]))] = tk[2]
    apiname = ("C++", "C")[api]
    for k, st in enumerate(seq):
        gl = by.get(("QG", k))
        if gl is None or not gl.startswith("OK"):
            add("seq_step_skipped")
            continue
        pole, mixing, supname = SEQ_SUPPLY[st[1]]
        (tb, mu, M1, M2, mL, mR), gn, sn = SEQ_POINTS[st[0]]
        pt = (tb, mu, M1, M2, mL, mR, (gn, sn))
        only = set()
        if pole & 1:
            only.add("gaugino")
        if pole & 2:
            only.add("slepton")
        if pole == 3 and pert == 121:
            only.add("recovery")
        hist = " -> ".join(state_name(s) for s in seq[:k + 1])
        ctxt = "[%s interface, conversion %d of the sequence %s on one object, p=%g, guesses %s]" % (
            apiname, k + 1, hist, prec, pert_name(pert))
        res = {}
        prev_gaugino_fallback = any(not (SEQ_SUPPLY[s[1]][0] & 1) for s in seq[:k])
        # an earlier conversion on this object used the tree-level fallback for the neutralinos, which also stores that
        # point's mixing matrix as *pole* ZN; no later input resets it and it decides which pole mass fixes M1
        stale_zn = prev_gaugino_fallback and bool(pole & 1) and not mixing
        fresh_keys = set()
        for tag in ("QF", "QR"):
            body = by.get((tag, k))
            if body is None:
                raise InfraError("Q output incomplete: " + seq_cmd(job)[:120])
            res[tag] = body
            if only:
                rline = "R %d %s %d %s" % (1 if mixing else 0, hexf(prec), pert, body)
                st_, fl, ky, w = evaluate(pt, ["G " + gl, rline], frozenset(only))
                if tag == "QF":
                    fresh_keys = set(key for key, _w, _m, _p, _q in fl)
                    if st_.get("checked", 0) == 0 and st_.get("warned", 0):
                        add("seq_fresh_warned")
                    continue
                add("seq_conversions_checked", st_.get("checked", 0))
                add("seq_conversions_warned", st_.get("warned", 0))
                for key, what, _m, _p, _q in fl:
                    if stale_zn and key not in fresh_keys and key.split(":")[0] in ("bino", "bino-selfconsistent", "chargino"):
                        key = "reuse:%s:stale-pole-ZN-after-tree-level-fallback:%s" % (apiname, key.split(":")[0])
                    fails.append((key, "%s %s" % (what, ctxt)))
        add("seq_steps")
        r, f = res["QR"].split(), res["QF"].split()
        if r == f:
            add("seq_step_bitwise_equal_to_fresh")
            keys.add(("reuse", api, k, st, prev_gaugino_fallback, "bitwise"))
            continue
        # (b) differential: status, warning flag, and - both unwarned - parameters and a_mu within the precision
        what = None
        if r[0] != f[0]:
            what = "status %s on the re-used object, %s on a fresh one" % (" ".join(r[:3]), " ".join(f[:3]))
        elif r[0] == "OK":
            fr, ff = int(r[1]), int(f[1])
            if (fr & 1) != (ff & 1):
                what = "re-used object %s, fresh object %s" % tuple("warns (flags %d)" % x if x & 1 else "converts without warning" for x in (fr, ff))
            elif not fr & 1:
                pr, pf = [unhex(t) for t in r[2:7]], [unhex(t) for t in f[2:7]]
                ar, af, scale = unhex(r[24]), unhex(f[24]), unhex(f[25])
                d = [abs(pr[i] - pf[i]) for i in range(3)] + [abs(math.sqrt(abs(pr[i])) - math.sqrt(abs(pf[i]))) for i in (3, 4)]
                da = abs(ar - af) / scale
                if max(d) <= RU_PAR_TOL * prec and da <= RU_AMU_TOL * prec:
                    worst["reuse_par_diff/p"] = max(worst.get("reuse_par_diff/p", 0.0), max(d) / prec)
                    worst["reuse_amu_diff/(p*scale)"] = max(worst.get("reuse_amu_diff/(p*scale)", 0.0), da / prec)
                else:
                    what = ("converted parameters (mu,M1,M2,ml2,me2) %r on the re-used object, %r on a fresh one (max |diff| %.3e GeV, "
                            "allowed %g); a_mu %.10e vs %.10e" % (pr, pf, max(d), RU_PAR_TOL * prec, ar, af))
        if what is None:
            add("seq_step_equal_within_precision")
            keys.add(("reuse", api, k, st, prev_gaugino_fallback, "within-p"))
            continue
        # the one mechanism known on the unchanged tree: an earlier conversion on this object used the tree-level fallback
        # for the neutralinos, which also stores that point's mixing matrix as *pole* ZN; no later input resets it
        if not pole & 2:
            # this conversion itself falls back to tree-level slepton pole masses: on a fresh object they are taken from a
            # spectrum computed before gauge couplings / Yukawas are initialised, on a used object from an initialised one
            why = "slepton-tree-level-fallback-in-this-step"
        elif stale_zn:
            why = "stale-pole-ZN-after-tree-level-fallback"
        else:
            why = "after-" + "+".join(sorted(set(SEQ_SUPPLY[s[1]][2] for s in seq[:k])))
        key = "reuse:%s:differs-from-fresh:%s" % (apiname, why)
        fails.append((key, "%s %s" % (what, ctxt)))
    return stats, fails, keys, worst


def _work_seq(chunk):
    lines = [seq_cmd(j) for j in chunk]
    p = subprocess.run([_EXE], input="\n".join(lines) + "\n", stdout=subprocess.PIPE, stderr=subprocess.PIPE, text=True, timeout=1200)
    if p.returncode != 0:
        return ("infra", "harness exit %d on Q chunk starting %s: %s" % (p.returncode, lines[0][:120], p.stderr[-300:]))
    out = [l for l in p.stdout.split("\n") if l]
    if not out or not out[-1].startswith("END"):
        return ("infra", "harness output truncated on Q chunk")
    # split per command: a QG 0 line starts a new command
    groups, cur = [], None
    for l in out[:-1]:
        if l.startswith("ERR"):
            return ("infra", l)
        if l.startswith("QG 0 "):
            cur = []
            groups.append(cur)
        if cur is None:
            return ("infra", "unexpected Q output " + l[:80])
        if l[0] == "Q":
            cur.append(l)
    if len(groups) != len(chunk):
        return ("infra", "%d Q result groups for %d commands" % (len(groups), len(chunk)))
    res = []
    try:
        for job, g in zip(chunk, groups):
            res.append((job,) + evaluate_seq(job, g))
    except InfraError as e:
        return ("infra", str(e))
    return ("ok", res)


# ---------------------------------------------------------------------------------------------------------------
# order-of-setter-calls family (harness command CO) and second conversion on the same object
ORDER_NAME = ("canonical: SM inputs, pole masses, tan(beta), rest", "tan(beta) first, then SM inputs", "SM inputs last of all",
              "canonical reversed call by call", "as GM2_slha_io::fill_slha (HMIX before GM2CalcInput alphas)",
              "canonical with the example's SM inputs, then SM inputs overwritten")
ORD_SM = [(0.00781, 0.0073, 80.0, 91.5, 0.11, 170.0, 4.5, 1.8),
          (0.0076, 0.00729, 81.0, 90.5, 0.1, 175.0, 4.0, 1.7),
          (0.0079, 0.0073, 79.5, 92.0, 0.1056583715, 173.34, 4.18, 1.777)]


def ord_jobs(quick):
    pts = []
    rows = [(GAUGINO[0], SLEPTON[0]), (GAUGINO[1], SLEPTON[1]), (GAUGINO[4], SLEPTON[0])]
    for tb in ([10.0, 60.0] if quick else TBS):
        for sg in ((1, 1, 1), (-1, 1, -1)) if quick else SIGNS:
            for (am, a1, a2, gn), (ml, mr, sn) in rows:
                pts.append((tb, sg[0] * am, sg[1] * a1, sg[2] * a2, ml, mr, (gn, sn)))
    precs = [1e-8, 1e-4] if quick else PRECS
    perts = [0, 121, 242] if quick else [0, 121, 242, 5, 47, 200, 80]
    return [(pt, sm, precs, perts) for pt in pts for sm in ORD_SM]


def _cmp_results(r, f, prec, pars=(0, 1, 2, 3, 4), amu=True):
    """r, f: token lists `OK flags <columns>` / `EXC ..` of two conversions that should agree -> None or description"""
    if r == f:
        return None
    if r[0] != f[0]:
        return "status %s vs %s" % (" ".join(r[:3]), " ".join(f[:3]))
    if r[0] != "OK":
        return None
    fr, ff = int(r[1]), int(f[1])
    if (fr & 1) != (ff & 1):
        return "%s vs %s" % tuple("warning (flags %d)" % x if x & 1 else "no warning" for x in (fr, ff))
    if fr & 1:
        return None
    pr, pf = [unhex(t) for t in r[2:7]], [unhex(t) for t in f[2:7]]
    d = [abs(pr[i] - pf[i]) if i < 3 else abs(math.sqrt(abs(pr[i])) - math.sqrt(abs(pf[i]))) for i in pars]
    da = abs(unhex(r[24]) - unhex(f[24])) / unhex(f[25]) if amu else 0.0
    if max(d) <= RU_PAR_TOL * prec and da <= RU_AMU_TOL * prec:
        return None
    return ("parameters (mu,M1,M2,ml2,me2) %r vs %r (max |diff| %.3e GeV, allowed %g), a_mu %.10e vs %.10e"
            % (pr, pf, max(d), RU_PAR_TOL * prec, unhex(r[24]), unhex(f[24])))


def evaluate_ord(job, lines):
    pt, sm, precs, perts = job
    stats, fails, keys = {}, [], set()

    def add(k, n=1):
        stats[k] = stats.get(k, 0) + n

    if not lines[0].startswith("G OK"):
        add("ord_gen_skipped")
        return stats, fails, keys
    res = {}
    for ln in lines[1:]:
        tk = ln.split(None, 4)
        res[(int(tk[1]), tk[2], int(tk[3]))] = tk[4]
    for (mode, hp, pert), body in sorted(res.items()):
        prec = unhex(hp)
        order, second = mode % 10, mode >= 20
        ctxt = "[set-up order %d = %s%s; SM inputs (alpha(MZ),alpha(0),MW,MZ,m_mu,mt,mb,mtau)=%r; tb=%g mu=%g M1=%g M2=%g mL=%g mR=%g, p=%g, guesses %s]" % (
            order, ORDER_NAME[order], "; SECOND convert_to_onshell() on the same object" if second else "", sm,
            pt[0], pt[1], pt[2], pt[3], pt[4], pt[5], prec, pert_name(pert))
        st_, fl, ky, w = evaluate(pt, [lines[0], "R 0 %s %d %s" % (hp, pert, body)],
                                  frozenset(("gaugino", "slepton")) if second else ALL_CLAUSES)
        add("ord_conversions")
        add("ord_checked", st_.get("checked", 0))
        add("ord_warned", st_.get("warned", 0))
        for key, what, _m, _p, _q in fl:
            if not key.startswith("smuonR:post-fit-yukawa-update"):
                key = "setter-order:order%d%s:%s" % (order, ":second-conversion" if second else "", key)
            fails.append((key, "%s %s" % (what, ctxt)))
        keys.add(("order", order, second, pt[6], "p=%.0e" % prec, pert, st_.get("warned", 0)))
        # differential clauses
        if not second and order > 0:
            d = _cmp_results(body.split(), res[(10, hp, pert)].split(), prec)
            add("ord_equal_to_canonical" if d is None else "ord_differs")
            if body == res[(10, hp, pert)]:
                add("ord_bitwise_equal_to_canonical")
            if d is not None:
                fails.append(("setter-order:order%d:differs-from-canonical-order" % order, "%s %s" % (d, ctxt)))
        if second:
            # me2 and a_mu are left out: the registered post-fit Yukawa update makes a second me2 fit start from another Yukawa
            d = _cmp_results(body.split(), res[(10 + order, hp, pert)].split(), prec, pars=(0, 1, 2, 3), amu=False)
            add("ord_second_conversion_same" if d is None else "ord_second_differs")
            if d is not None:
                fails.append(("setter-order:order%d:second-conversion-changes-result" % order, "%s %s" % (d, ctxt)))
    return stats, fails, keys


def _run_lines(lines, timeout=1200):
    p = subprocess.run([_EXE], input="\n".join(lines) + "\n", stdout=subprocess.PIPE, stderr=subprocess.PIPE, text=True, timeout=timeout)
    if p.returncode != 0:
        raise InfraError("harness exit %d on %s: %s" % (p.returncode, lines[0][:120], p.stderr[-300:]))
    out = [l for l in p.stdout.split("\n") if l]
    if not out or not out[-1].startswith("END"):
        raise InfraError("harness output truncated on " + lines[0][:120])
    for l in out:
        if l.startswith("ERR"):
            raise InfraError(l + " <- " + lines[0][:200])
    return out[:-1]


def _split_G(out):
    groups = []
    for l in out:
        if l.startswith("G "):
            groups.append([l])
        elif groups:
            groups[-1].append(l)
    return groups


def _work_ord(job):
    pt, sm, precs, perts = job
    line = "CO %s %s %d %s %d %s" % (" ".join(hexf(v) for v in pt[:6] + (0.0,)), " ".join(hexf(v) for v in sm), len(precs),
                                     " ".join(hexf(p) for p in precs), len(perts), " ".join(str(p) for p in perts))
    try:
        out = _run_lines([line])
        return ("ok", job, line) + evaluate_ord(job, out)
    except InfraError as e:
        return ("infra", str(e))


# ---------------------------------------------------------------------------------------------------------------
# inconsistent-spectrum family (harness command CX): pole masses that no parameter point produces.  Oracle = the
# property's own disjunction: warning, or the given pole masses are reproduced within the precision.
def inc_points(quick):
    pts = []
    srows = [SLEPTON[0], SLEPTON[1], SLEPTON[4], SLEPTON[5], SLEPTON[7], SLEPTON[6]]
    am, a1, a2, gn = GAUGINO[0]
    for tb in ([10.0, 60.0] if quick else TBS):
        for smu in (1, -1):
            for ml, mr, sn in srows:
                pts.append((tb, smu * am, a1, a2, ml, mr, (gn, sn)))
    return pts


def inc_kinds(g):
    """(name, mixing, overrides {cha, chi, snu, sm}) for a generating spectrum g"""
    out = []
    m0, m1 = g["sm"]
    moves = [0.0, 0.001, -0.001, 0.01, -0.01, 0.05, -0.05]
    for fa in moves:
        for fb in moves:
            if fa == 0 and fb == 0:
                continue
            n0, n1 = m0 * (1 + fa), m1 * (1 + fb)
            if n0 < n1:                       # the ordering of the two pole masses is kept
                for mix in (0, 1):
                    out.append(("smuons:%+g%%,%+g%%" % (100 * fa, 100 * fb), mix, dict(sm=[n0, n1])))
    # minimal splitting the tree-level L-R mixing allows: m1^2 - m0^2 >= 2|b|, b = (m1^2 - m0^2) U00 U01 from the reported mixing
    b = abs((m1 * m1 - m0 * m0) * g["usm"][0][0] * g["usm"][0][1])
    dmin = 2 * b / (m0 + m1)
    mean = 0.5 * (m0 + m1)
    for f in (0.8, 0.5, 0.1):
        for mix in (0, 1):
            out.append(("smuons:squeezed-to-%g-of-minimal-splitting" % f, mix, dict(sm=[mean - f * dmin / 2, mean + f * dmin / 2])))
    for f in (0.9, 1.05, 1.2):
        for mix in (0, 1):
            out.append(("sneutrino:x%g" % f, mix, dict(snu=g["snu"] * f)))
    c0, c1 = g["cha"]
    for name, cha in (("charginos:degenerate", [(c0 + c1) / 2] * 2), ("charginos:swapped", [c1, c0]),
                      ("charginos:light+5%", [c0 * 1.05, c1]), ("charginos:heavy-5%", [c0, c1 * 0.95])):
        for mix in (0, 1):
            out.append((name, mix, dict(cha=cha)))
    bg = bino_index(g)
    for f in (0.95, 1.05):
        chi = list(g["chi"])
        chi[bg] *= f
        for mix in (0, 1):
            out.append(("bino:x%g" % f, mix, dict(chi=chi)))
    out.append(("neutralinos:reversed", 1, dict(chi=list(g["chi"])[::-1])))
    chi = list(g["chi"])
    chi[bg] = c0
    out.append(("bino:equal-to-light-chargino", 1, dict(chi=chi)))
    return out


def _work_inc(job):
    pt, precs, perts = job
    try:
        gl = _run_lines(["C %s 0 1 %s 0" % (" ".join(hexf(v) for v in pt[:6] + (0.0,)), hexf(1e-8))])[0]
        if not gl.startswith("G OK"):
            return ("ok", job, {"inc_gen_skipped": 1}, [], set())
        gtk = gl.split()
        g, _ = parse_spec(gtk[2:])
        kinds = inc_kinds(g)
        lines, meta = [], []
        for name, mix, ov in kinds:
            cha, chi = ov.get("cha", g["cha"]), ov.get("chi", g["chi"])
            snu, sm = ov.get("snu", g["snu"]), ov.get("sm", g["sm"])
            tgt = list(gtk)
            for i, v in zip((7, 8), sorted(cha)):
                tgt[i] = hexf(v)
            for i, v in zip((9, 10, 11, 12), chi):
                tgt[i] = hexf(v)
            tgt[17] = hexf(snu)
            tgt[18], tgt[19] = hexf(sm[0]), hexf(sm[1])
            for prec in precs:
                for pert in perts:
                    lines.append("CX %s %s %d %d %s" % (" ".join(hexf(v) for v in pt[:6] + (0.0,)), hexf(prec), pert, mix,
                                                        " ".join(hexf(v) for v in list(cha) + list(chi) + [snu] + list(sm))))
                    meta.append((name, mix, prec, pert, " ".join(tgt)))
        out = _split_G(_run_lines(lines))
        if len(out) != len(lines):
            raise InfraError("CX: %d groups for %d commands" % (len(out), len(lines)))
        stats, fails, keys = {}, [], set()
        for (name, mix, prec, pert, tgt), grp, line in zip(meta, out, lines):
            body = grp[1].split(None, 4)[4]
            st_, fl, ky, w = evaluate(pt, [tgt, "R %d %s %d %s" % (mix, hexf(prec), pert, body)], frozenset(("gaugino", "slepton")))
            stats["inc_conversions"] = stats.get("inc_conversions", 0) + 1
            for k in ("checked", "warned"):
                stats["inc_" + k] = stats.get("inc_" + k, 0) + st_.get(k, 0)
            cls = name.split(":")[0]
            stats["inc_%s:%s" % (cls, "warned" if st_.get("warned", 0) else "reproduced" if not fl else "known-or-violation")] = \
                stats.get("inc_%s:%s" % (cls, "warned" if st_.get("warned", 0) else "reproduced" if not fl else "known-or-violation"), 0) + 1
            keys.add(("inc", name, mix, pt[6][1], "p=%.0e" % prec, pert, bool(st_.get("warned", 0)), body.split()[-1]))
            for key, what, _m, _p, _q in fl:
                if not key.startswith("smuonR:post-fit-yukawa-update"):
                    key = "inconsistent-spectrum:%s:%s" % (name.split(":")[0] if name.startswith("smuons:+") or name.startswith("smuons:-") else name, key)
                fails.append((key, "%s [input pole spectrum '%s', %s NMIX/SMUMIX; tb=%g mu=%g M1=%g M2=%g mL=%g mR=%g, p=%g, guesses %s]"
                              % (what, name, "with" if mix else "without", pt[0], pt[1], pt[2], pt[3], pt[4], pt[5], prec, pert_name(pert)), line))
        return ("ok", job, stats, fails, keys)
    except InfraError as e:
        return ("infra", str(e))


def _work(job):
    pt, modes, precs, perts, coff = job
    line = cmd_for(pt, modes, precs, perts, coff)
    p = subprocess.run([_EXE], input=line + "\n", stdout=subprocess.PIPE, stderr=subprocess.PIPE, text=True, timeout=1200)
    if p.returncode != 0:
        return ("infra", "harness exit %d on %s: %s" % (p.returncode, line[:200], p.stderr[-300:]))
    out = [l for l in p.stdout.split("\n") if l]
    if not out or not out[-1].startswith("END"):
        return ("infra", "harness output truncated on " + line[:200])
    for l in out:
        if l.startswith("ERR"):
            return ("infra", l)
    try:
        st, fails, keys, worst = evaluate(pt, out[:-1])
    except InfraError as e:
        return ("infra", str(e))
    return ("ok", pt, st, fails, keys, worst)


def run(ctx):
    global _EXE
    _EXE = build.harness("mssm_ref", "plain", ["mssm_ref.cpp"])
    pts = gen_points(ctx.quick)
    precs = [1e-10, 1e-8, 1e-4] if ctx.quick else PRECS
    perts = list(range(243))
    jobs = [(pt, 31, precs, perts, n % CSTEP) for n, pt in enumerate(pts)]
    total, worst, worst_at = {}, {}, {}
    nfail = 0
    stop = False
    with mp.Pool(min(16, os.cpu_count() or 4)) as pool:
        for res in pool.imap(_work, jobs):
            if res[0] == "infra":
                raise InfraError(res[1])
            _, pt, st, fails, keys, w = res
            for k, v in st.items():
                total[k] = total.get(k, 0) + v
            for k, v in w.items():
                if k.startswith("@"):
                    continue
                if k == "smuR_yukawa_update_dev_GeV" and v > worst.get(k, 0.0):
                    worst_at["smuR_yukawa_update"] = w.get("@smuR_yukawa_update")
                worst[k] = max(worst.get(k, 0.0), v)
            for k in sorted(keys):
                ctx.nontrivial(k)
            for key, what, mode, prec, pert in fails:
                nfail += 1
                ctx.fail(key, "%s [tb=%g mu=%g M1=%g M2=%g mL=%g mR=%g, %s, p=%g, perturbation %s]"
                         % (what, pt[0], pt[1], pt[2], pt[3], pt[4], pt[5], MODE_NAME[mode], prec,
                            pert_name(pert)),
                         {"point": list(pt[:6]) + [list(pt[6])], "mode": mode, "prec": hexf(prec), "pert": pert})
            if ctx.out_of_time("conversions"):
                stop = True
                break
        if stop:
            pool.terminate()
    # ---- object re-use sequences
    sjobs = seq_jobs(ctx.quick)
    schunks = [sjobs[i:i + 40] for i in range(0, len(sjobs), 40)]
    if not stop:
        with mp.Pool(min(16, os.cpu_count() or 4)) as pool:
            for res in pool.imap(_work_seq, schunks):
                if res[0] == "infra":
                    raise InfraError(res[1])
                for job, st, fails, keys, w in res[1]:
                    for k, v in st.items():
                        total[k] = total.get(k, 0) + v
                    for k, v in w.items():
                        worst[k] = max(worst.get(k, 0.0), v)
                    for k in sorted(keys):
                        ctx.nontrivial(k)
                    for key, what in fails:
                        ctx.fail(key, what, {"seq": seq_cmd(job), "job": [job[0], hexf(job[1]), job[2], [list(s) for s in job[3]]]})
                if ctx.out_of_time("re-use sequences"):
                    break
    # ---- order of setter calls + second conversion; inconsistent pole spectra
    ojobs = ord_jobs(ctx.quick)
    ijobs = [(pt, [1e-8, 1e-4] if ctx.quick else PRECS, [121, 0]) for pt in inc_points(ctx.quick)]
    if not stop:
        with mp.Pool(min(16, os.cpu_count() or 4)) as pool:
            for res in pool.imap(_work_ord, ojobs):
                if res[0] == "infra":
                    raise InfraError(res[1])
                _, job, line, st, fails, keys = res
                for k, v in st.items():
                    total[k] = total.get(k, 0) + v
                for k in sorted(keys):
                    ctx.nontrivial(k)
                for key, what in fails:
                    ctx.fail(key, what, {"co": line, "cojob": [list(job[0][:6]) + [list(job[0][6])], list(job[1]), [hexf(p) for p in job[2]], job[3]]})
            for res in pool.imap(_work_inc, ijobs):
                if res[0] == "infra":
                    raise InfraError(res[1])
                _, job, st, fails, keys = res
                for k, v in st.items():
                    total[k] = total.get(k, 0) + v
                for k in sorted(keys):
                    ctx.nontrivial(k)
                for key, what, line in fails:
                    ctx.fail(key, what, {"cx": line, "cxpoint": list(job[0][:6]) + [list(job[0][6])]})
    print("[C05] setter order: %d (point, SM set) x 6 orders: %d conversions + %d second conversions; checked %d, warned %d; equal to canonical "
          "order %d (bitwise %d), second conversion unchanged %d"
          % (len(ojobs), total.get("ord_conversions", 0) // 2, total.get("ord_conversions", 0) // 2, total.get("ord_checked", 0),
             total.get("ord_warned", 0), total.get("ord_equal_to_canonical", 0), total.get("ord_bitwise_equal_to_canonical", 0),
             total.get("ord_second_conversion_same", 0)))
    print("[C05] inconsistent spectra: %d points, %d conversions: %d warned, %d checked; by class %s"
          % (len(ijobs), total.get("inc_conversions", 0), total.get("inc_warned", 0), total.get("inc_checked", 0),
             {k[4:]: v for k, v in sorted(total.items()) if k.startswith("inc_") and ":" in k}))
    print("[C05] object re-use: %d sequences (all ordered pairs%s over %d C++ / %d C states x guesses %s), %d conversions on a re-used "
          "object: %d bitwise equal to a fresh object, %d equal within the precision, clause oracle on %d (warned %d)"
          % (len(sjobs), "" if ctx.quick else " and triples", len(seq_states(0)), len(seq_states(1)), SEQ_PERTS, total.get("seq_steps", 0),
             total.get("seq_step_bitwise_equal_to_fresh", 0), total.get("seq_step_equal_within_precision", 0),
             total.get("seq_conversions_checked", 0), total.get("seq_conversions_warned", 0)))
    ctx.evals(total.get("checked", 0) + total.get("seq_steps", 0) + total.get("ord_conversions", 0) + total.get("inc_conversions", 0))
    conv, warned, checked = total.get("conversions", 0), total.get("warned", 0), total.get("checked", 0)
    print("[C05] generating points %d (ok %d), conversions %d: checked %d, warned %d, exceptions %d"
          % (len(pts), total.get("gen_ok", 0), conv, checked, warned,
             sum(v for k, v in total.items() if k.startswith("conv_exception"))))
    print("[C05] C interface: %d conversions (every %dth perturbation, both entry points), %d bitwise equal to the C++ conversion"
          % (total.get("c_api_conversions", 0), CSTEP, total.get("c_api_bitwise_equal_to_c++", 0)))
    print("[C05] paths %s" % {k[5:]: v for k, v in sorted(total.items()) if k.startswith("path:")})
    print("[C05] right-like smuon: within p %d, off by more than p but fitted with the pre-fit Yukawa %s"
          % (total.get("smuonR_within_p", 0), {k[21:]: v for k, v in sorted(total.items()) if k.startswith("smuonR_yukawa_update_")}))
    print("[C05] well-conditioned checked %d; ill-conditioned %s"
          % (total.get("wellcond_checked", 0), {k[8:]: v for k, v in sorted(total.items()) if k.startswith("illcond:")}))
    print("[C05] worst (deviation/p for cha, bino; relative else) %s" % {k: float("%.3g" % v) for k, v in sorted(worst.items())})
    print("[C05] largest unwarned right-like smuon deviation at %s" % worst_at.get("smuR_yukawa_update"))
    print("[C05] right-like smuon fitted to the left-like pole mass: %s"
          % {k[30:]: v for k, v in sorted(total.items()) if k.startswith("smuonR_on_left_like_pole_mass:")})
    wk = {k[7:]: v for k, v in sorted(total.items()) if k.startswith("warned:")}
    print("[C05] warned by class: %s" % wk)
    # non-vacuity guard; a run that already found violations reports those instead (a defect may be the very reason
    # why most conversions warn)
    if not stop and not ctx.violations and (total.get("gen_ok", 0) < 0.8 * len(pts) or checked < 0.5 * conv):
        raise InfraError("lattice mostly skipped: gen_ok %d/%d, checked %d/%d" % (total.get("gen_ok", 0), len(pts), checked, conv))
    ctx.sample({"first_point": dict(zip(("tb", "mu", "M1", "M2", "mL", "mR"), pts[0][:6])), "classes": list(pts[0][6])})
    ctx.sample({"last_point": dict(zip(("tb", "mu", "M1", "M2", "mL", "mR"), pts[-1][:6])), "classes": list(pts[-1][6])})
    ctx.sample({"perturbations": "base-3 digits (mu,M1,M2,ml2,me2) of %s" % (perts[:6] + ["..."])})
    ctx.assumptions += [
        "pole spectrum = tree-level spectrum of an on-shell point (so an exact solution exists); A_mu = 0, scale and all "
        "other inputs identical in generating and converted model",
        "well-conditioned := |mu|,|M1|,|M2| pairwise >= 20% apart, |mL-mR| > 10%, right-like smuon L-admixture < 0.3",
        "without NMIX and with non-separated gaugino parameters only the self-consistent bino clause is required"]
    return ctx.finish(
        "generating points: tan beta %s x 8 sign patterns x (gaugino row, smuon row) combinations; per point %d initial-guess "
        "perturbations x precisions %s x {without, with, with + left-like smuon pole mass shifted} pole mixing matrices + every 5th perturbation through both C entry points; distinct = (outcome, mode, precision, gaugino row, "
        "smuon row, sign pattern, tan beta, iteration path letters, bino index, right-smuon index, me2-guess digit)"
        % ([2, 10, 60] if ctx.quick else TBS, len(perts), precs),
        {"generating_points": len(pts), "conversions": conv, "checked_no_warning": checked, "warned": warned,
         "counters": {k: v for k, v in sorted(total.items())}, "worst": {k: float("%.3g" % v) for k, v in sorted(worst.items())}, "worst_at": worst_at})


def pert_name(p):
    d = []
    for i in range(5):
        d.append(("-5%", "0", "+5%")[p % 3])
        p //= 3
    return "(mu,M1,M2,ml2,me2)=(" + ",".join(d) + ")"


def replay(ctx, path):
    global _EXE
    _EXE = build.harness("mssm_ref", "plain", ["mssm_ref.cpp"])
    d = json.load(open(path))["data"]
    if "co" in d or "cx" in d:
        import fnmatch
        if "co" in d:
            j = d["cojob"]
            job = (tuple(j[0][:6]) + (tuple(j[0][6]),), tuple(j[1]), [unhex(p) for p in j[2]], j[3])
            res = _work_ord(job)
            fails = [(k, w) for k, w in res[5]] if res[0] == "ok" else None
        else:
            pt = tuple(d["cxpoint"][:6]) + (tuple(d["cxpoint"][6]),)
            res = _work_inc((pt, PRECS, [121, 0]))
            fails = [(k, w) for k, w, l in res[3] if l == d["cx"]] if res[0] == "ok" else None
        if fails is None:
            raise InfraError(res[1])
        for key, what in fails:
            if any(fnmatch.fnmatchcase(key, f["key"]) for f in ctx.findings):
                continue
            print("replay: %s: %s" % (key, what))
            print("VIOLATION property=C05 replay=%s" % path)
            return 1
        print("replay: holds now")
        return 0
    if "seq" in d:
        import fnmatch
        j = d["job"]
        job = (j[0], unhex(j[1]), j[2], tuple(tuple(s) for s in j[3]))
        res = _work_seq([job])
        if res[0] == "infra":
            raise InfraError(res[1])
        for key, what in res[1][0][2]:
            if any(fnmatch.fnmatchcase(key, f["key"]) for f in ctx.findings):
                print("replay: known finding %s: %s" % (key, what))
                continue
            print("replay: %s: %s" % (key, what))
            print("VIOLATION property=C05 replay=%s" % path)
            return 1
        print("replay: holds now (%s)" % res[1][0][1])
        return 0
    pt = tuple(d["point"][:6]) + (tuple(d["point"][6]),)
    # C-interface cases are compared with the C++ conversion of the same case: run mode 0 along
    res = _work((pt, (1 << d["mode"]) | (1 if d["mode"] >= 3 else 0), [unhex(d["prec"])], [d["pert"]], d["pert"] % CSTEP))
    if res[0] == "infra":
        raise InfraError(res[1])
    fails = res[3]
    findings = ctx.findings
    import fnmatch
    for key, what, mode, prec, pert in fails:
        if any(fnmatch.fnmatchcase(key, f["key"]) for f in findings):
            print("replay: known finding %s: %s" % (key, what))
            continue
        print("replay: %s: %s" % (key, what))
        print("VIOLATION property=C05 replay=%s" % path)
        return 1
    print("replay: holds now (%s)" % {k: v for k, v in res[2].items()})
    return 0
