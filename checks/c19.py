"""C19 - calculations are pure: deterministic, argument-preserving, thread-safe.

Three passes over one operation alphabet (harness/conc_ops.hpp):
  history  : explicit-state BFS over the byte image of the library's writable static
             segment; every op from every reachable state must give the bit-identical
             result it gives from the initial state; shared const models unchanged.
  schedule : real threads under a serialising scheduler whose scheduling points are the
             basic-block edges of the library (sancov callback); iterative context
             bounding (0, 1, 2 preemptions); results bit-identical to sequential.
  race     : the same op bodies free-running under ThreadSanitizer (separate build).
A canary (deliberately impure functions, instrumented the same way) must be caught by
all three passes in every run, otherwise the run is an infrastructure error."""
import itertools
import os
import re
import subprocess
from concurrent.futures import ThreadPoolExecutor

import build
from core import InfraError

META = dict(
    level="model_checking",
    technique="stateless model checking of the implementation: preemption-bounded serialising scheduler over sancov block edges + explicit-state BFS over static-segment images + free-running ThreadSanitizer pass",
    text="All op pairs (MSSM/THDM construction+evaluation, SLHA conversion, read-only evaluation of shared const models, loop-function batch, SLHA parsing) run on 2 (thorough: 3) real threads under a serialising scheduler: default schedule, every schedule with one preemption at every basic-block edge of library code (quick: reduced by the stated commutation argument when no thread writes monitored memory), two preemptions at visible points; every result must be bit-identical to the sequential one, shared models byte-identical, and every model handed to an evaluation observably unchanged afterwards (printed form plus problem/warning lists, also after an exception; op O12: points whose non-resummed spectrum alone is tachyonic, on a shared model, a copy and a fresh model). History BFS to depth 3/4 over static-segment states. Separate free-running TSan pass on every pair and on 2..16 threads. Bounded: 2-3 threads, <=2 preemptions, the op alphabet; weak-memory effects and heap reachable only through static pointers are left to TSan.",
    note="trusted: clang sancov/TSan instrumentation, the hand-written scheduler (checked every run by a canary and by replaying each failing schedule twice), the static-segment snapshot (dl_iterate_phdr, RELRO and guard array excluded)",
    design_ref="2.6, 3/C19")
HARNESSES = [(("conc", "cov", ["conc.cpp"]), dict(extra=["-rdynamic"], cov_sources=["canary.cpp"])),
             (("conc_tsan", "tsan", ["conc_tsan.cpp", "canary.cpp"]), {})]

NOPS = 12         # library ops O1..O12 (ids 0..11); the canaries follow
OPNAMES = ["O1_mssm_gm2calc_build_eval", "O2_thdm_build_eval", "O3_mssm_slha_convert_eval",
           "O4_shared_mssm_readonly", "O5_shared_thdm_readonly", "O6_loopfunction_batch", "O7_slha_parse_fill",
           "O8_thdm_slha_parse_build_eval", "O9_mssm_non_resummed_copy", "O10_thdm_sparse_build_eval", "O11_error_paths_nonfinite",
           "O12_nonresummed_tachyon_window_shared"]


def _run(cmd, env=None, timeout=3000):
    e = dict(os.environ)
    if env:
        e.update(env)
    p = subprocess.run(cmd, stdout=subprocess.PIPE, stderr=subprocess.PIPE, text=True, env=e, timeout=timeout)
    return p.returncode, p.stdout, p.stderr


def _tsan_fn(ln):
    fn = ln.split(" in ")[-1].strip() if " in " in ln else "?"
    fn = fn.replace("(anonymous namespace)::", "")
    return re.sub(r"\(.*", "", fn)


_deadline = [None]


def _sched_job(job):
    import time
    exe, repo, bound, mode, warm, tasks = job
    cmd = [exe, repo, "sched", str(bound), str(mode)] + [str(x) for t in tasks for x in t]
    left = _deadline[0] - time.time()
    if left < 2:
        return job, -9, "", "deadline"
    try:
        rc, out, err = _run(cmd, env={"CONC_WARM": "1" if warm else "0"}, timeout=left)
    except subprocess.TimeoutExpired:
        return job, -9, "", "deadline"
    return job, rc, out, err


def run(ctx):
    conc = build.harness(*HARNESSES[0][0], **HARNESSES[0][1])
    tsan = build.harness(*HARNESSES[1][0], **HARNESSES[1][1])
    repo = build.REPO
    tsan_env = {"TSAN_OPTIONS": "exitcode=66 halt_on_error=0 report_signal_unsafe=0"}

    # ---- canaries: the machinery must detect its own impure functions -----------------
    rc, out, _ = _run([conc, repo, "canary"])
    if rc != 0 or "CANARY detected" not in out:
        raise InfraError("scheduler canary not detected: " + out[-300:])
    rc, out, err = _run([tsan, repo, "canary"], env=tsan_env)
    if "WARNING: ThreadSanitizer: data race" not in err:
        raise InfraError("TSan canary race not reported")
    rc, out, _ = _run([conc, repo, "info"])
    m = re.search(r"guards=(\d+) guard_array=(\d+) regions=(\d+) monitored_bytes=(\d+)", out)
    if not m or int(m.group(4)) < 64:
        raise InfraError("static segment of libgm2calc.so not found: " + out[:200])
    ctx.note("library_guards", int(m.group(1)))
    ctx.note("monitored_static_bytes", int(m.group(4)))

    # ---- history pass ----------------------------------------------------------------------
    depth = 3 if ctx.quick else 4
    rc, out, _ = _run([conc, repo, "history", str(depth)])
    hm = re.search(r"HISTORY depth=(\d+) states=(\d+) library_states=(\d+) transitions=(\d+) failures=(\d+) canary_failures=(\d+) capped=(\d+)", out)
    if not hm:
        raise InfraError("history pass produced no summary: " + out[-300:])
    states, libstates, transitions, hfail, cfail, capped = (int(hm.group(i)) for i in (2, 3, 4, 5, 6, 7))
    if cfail == 0:
        raise InfraError("history canary (unkeyed memo) not detected")
    if capped:
        ctx.cap("history:states>4000")
    for ln in out.split("\n"):
        if ln.startswith("HFAIL"):
            mm = re.search(r"op (\S+?)\[(\d)\]", ln)
            ctx.fail("history:" + (mm.group(1) if mm else "?"), ln, {"kind": "history", "line": ln, "depth": depth})
        if ln.startswith("LIBSTATE"):
            ctx.nontrivial(("libstate", ln))
    ctx.evals(transitions)
    ctx.sample({"history": hm.group(0)})

    # ---- schedule pass ---------------------------------------------------------------------
    tasks = [(o, p) for o in range(NOPS) for p in (0, 1)]
    main_pairs = [((a, 0), (b, 1)) for a in range(NOPS) for b in range(a, NOPS)] + [((3, 0), (3, 0)), ((4, 0), (4, 0)), ((3, 1), (4, 1)), ((8, 0), (3, 0)), ((8, 1), (8, 1)), ((11, 0), (11, 0)), ((11, 1), (11, 1)), ((11, 0), (3, 0))]
    jobs = []
    if ctx.quick:
        for pr in main_pairs:
            jobs.append((conc, repo, 2, 1, True, pr))            # warm image, reduced, bound 2
        for b in range(NOPS):
            jobs.append((conc, repo, 2, 2, False, ((6, 0), (b, 1))))   # cold image: static initialisation, visible points
            jobs.append((conc, repo, 2, 2, False, ((7, 0), (b, 1))))
        jobs.append((conc, repo, 1, 0, False, ((5, 0), (5, 1))))    # full, every block edge
    else:
        for pr in main_pairs:
            jobs.append((conc, repo, 2, 0, True, pr))            # full: every block edge, warm image
        others = [pr for pr in itertools.combinations_with_replacement(tasks, 2) if pr not in main_pairs]
        for pr in others:
            jobs.append((conc, repo, 2, 1, True, pr))
        for b in range(NOPS):
            jobs.append((conc, repo, 2, 0, False, ((6, 0), (b, 1))))   # cold image, full
            jobs.append((conc, repo, 2, 0, False, ((7, 0), (b, 1))))
        for tr in [((5, 0), (5, 1), (1, 0)), ((3, 0), (3, 0), (0, 1)), ((4, 0), (4, 0), (1, 1)), ((6, 0), (6, 1), (2, 0)), ((0, 0), (1, 0), (5, 1))]:
            jobs.append((conc, repo, 1, 1, True, tr))            # three threads
    # longest first
    weight = {0: 13, 1: 31, 2: 56, 3: 20, 4: 47, 5: 1, 6: 60, 7: 35, 8: 25, 9: 40, 10: 45, 11: 30}
    jobs.sort(key=lambda j: -(1000 if j[3] == 0 else 1) * weight[j[5][0][0]])
    nsched = 0
    outcomes = set()
    done = 0
    # the schedule pass may use the budget up to 20 s before the global deadline
    _deadline[0] = ctx.deadline - 20
    with ThreadPoolExecutor(16) as ex:
        for job, rc, out, err in ex.map(_sched_job, jobs):
            done += 1
            if rc == -9:
                ctx.cap("deadline:sched:" + "+".join(OPNAMES[t[0]] for t in job[5]) + ":mode%d" % job[3])
                continue
            em = re.search(r"EXPLORED threads=(\d+) bound=(\d+) mode=(\w+) ops=(\S+) points=(\d+) explored_points=(\d+) visible_points=(\d+) writers=(\d+) schedules=(\d+) outcomes=(\d+) failures=(\d+)", out)
            if rc == 2 or "REPLAY-DIVERGED" in out:
                raise InfraError("schedule replay diverged: " + out[-400:])
            if rc == 3 or "DEADLOCK" in out:
                ctx.fail("sched:deadlock:" + "+".join(OPNAMES[t[0]] for t in job[5]), out.strip()[-300:],
                         {"kind": "sched", "tasks": job[5], "bound": job[2], "mode": job[3], "warm": job[4]})
                continue
            if not em:
                raise InfraError("schedule job produced no summary (rc=%d): %s %s" % (rc, out[-300:], err[-300:]))
            nsched += int(em.group(9))
            name = "+".join(OPNAMES[t[0]] for t in job[5])
            outcomes.add((em.group(4), em.group(10)))
            ctx.nontrivial(("sched", em.group(4), job[3], job[4]))
            if int(em.group(11)) > 0:
                fl = [l for l in out.split("\n") if l.startswith("FAIL")]
                ctx.fail("sched:" + name, "%d of %s schedules give a non-sequential result; first: %s" % (int(em.group(11)), em.group(9), fl[0] if fl else "?"),
                         {"kind": "sched", "tasks": job[5], "bound": job[2], "mode": job[3], "warm": job[4], "first": fl[0] if fl else None})
            if done <= 3:
                ctx.sample({"schedule_job": em.group(0)})
    ctx.evals(nsched)

    # ---- race pass (free-running ThreadSanitizer) ---------------------------------------
    reps = 3
    all_pairs = list(itertools.combinations_with_replacement(tasks, 2))
    chunks = [all_pairs[i::16] for i in range(16)]

    def tsan_job(ch):
        args = [tsan, repo, "pairs", str(reps)] + [str(x) for a, b in ch for x in (a + b)]
        return _run(args, env=tsan_env)

    nrace_runs = 0
    with ThreadPoolExecutor(16) as ex:
        for rc, out, err in ex.map(tsan_job, chunks):
            if "DONE" not in out:
                raise InfraError("tsan pass crashed: " + (out + err)[-400:])
            cur = None
            for ln in err.split("\n"):
                if ln.startswith("PAIR"):
                    cur = tuple(int(x) for x in ln.split()[1:])
                    nrace_runs += reps
                elif ln.startswith("SUMMARY: ThreadSanitizer"):
                    fn = _tsan_fn(ln)
                    ctx.fail("tsan:" + fn, "%s while running %s[%d] || %s[%d]" % (ln, OPNAMES[cur[0]], cur[1], OPNAMES[cur[2]], cur[3]),
                             {"kind": "tsan", "pair": cur, "summary": ln})
            for ln in out.split("\n"):
                if ln.startswith("MISMATCH"):
                    ctx.fail("concurrent-mismatch", ln, {"kind": "tsan-mismatch", "line": ln})
    for n in ([2, 16] if ctx.quick else [2, 3, 4, 8, 16]):
        rc, out, err = _run([tsan, repo, "many", str(n), "2" if ctx.quick else "6"], env=tsan_env)
        if "DONE" not in out:
            raise InfraError("tsan many-thread pass crashed: " + (out + err)[-400:])
        nrace_runs += 1
        for ln in err.split("\n"):
            if ln.startswith("SUMMARY: ThreadSanitizer"):
                fn = _tsan_fn(ln)
                ctx.fail("tsan:" + fn, "%s with %d threads" % (ln, n), {"kind": "tsan-many", "n": n, "summary": ln})
        for ln in out.split("\n"):
            if ln.startswith("MISMATCH"):
                ctx.fail("concurrent-mismatch", ln, {"kind": "tsan-mismatch", "line": ln})
    ctx.evals(nrace_runs)
    ctx.assumptions += [
        "inter-thread communication goes through library statics, the shared model objects or locks; heap memory reachable only through a static pointer is seen at the pointer store, the rest is left to the TSan pass",
        "scheduler granularity is the basic-block edge of library code; weak-memory reorderings are left to TSan's happens-before analysis",
        "2-3 threads and every op pair cover pairwise conflicts; 4..16 threads are only exercised free-running under TSan"]
    return ctx.finish(
        "history: BFS over static-segment images, every (op,param) from every state; schedule: per op pair all start orders x "
        "(default + one preemption at every explored point + two preemptions at visible points); race: every task pair x %d free runs under TSan; "
        "distinct = (op pair, mode, image) explored + library static states" % reps,
        {"states": states + len(outcomes), "transitions": transitions + nsched, "traces_validated_against_impl": transitions + nsched,
         "history_states": states, "history_library_states": libstates, "history_transitions": transitions, "history_depth": depth,
         "schedules": nsched, "schedule_jobs": len(jobs), "distinct_pair_outcomes": len(outcomes),
         "tsan_runs": nrace_runs, "preemption_bound": 2, "threads": "2 (scheduler), 3 (thorough), 2..16 (TSan)"})


def replay(ctx, path):
    import json
    d = json.load(open(path))["data"]
    conc = build.harness(*HARNESSES[0][0], **HARNESSES[0][1])
    if d.get("kind") == "sched" and d.get("first"):
        tasks = d["tasks"]
        m = re.findall(r"preempt@(\d+)->T(\d)", d["first"])
        st = re.search(r"start=(\d)", d["first"])
        cmd = [conc, build.REPO, "replay"] + [str(x) for t in tasks[:2] for x in t] + [st.group(1)] + [x for k, t in m for x in (k, t)]
        rc, out, _ = _run(cmd, env={"CONC_WARM": "1" if d.get("warm") else "0"})
        print(out)
        if rc != 0:
            print("VIOLATION property=C19 replay=%s" % path)
            return 1
        return 0
    print("replay of %s cases: re-run `bin/vcheck C19`" % d.get("kind"))
    return 0
