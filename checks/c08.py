"""C08 - a constructed THDM reproduces the inputs it was constructed from.

Deviation-bounded product lattice over the mass basis (and a second one over the gauge
basis for the "vice versa" clause); every accepted point is evaluated through the public
getters (harness/thdm.cpp) and pushed round the loop  mass basis -> gauge basis (from the
reported lambda_1..7) -> mass basis (from the reported masses/angle), comparing at each
step with what went in."""
import json
import math
import multiprocessing as mp
import os

import thdmrun as T
from core import hexf

META = dict(
    level="exploration",
    technique="deviation-bounded exhaustive product lattice over THDM mass-/gauge-basis input, getters compared with the input and round trip mass basis <-> gauge basis",
    text="Every point of a finite lattice (all assignments deviating in <= 2 (quick) / <= 3 (thorough) dimensions from 6 mass-basis and 3 gauge-basis base points; dimensions: SM input (MW, MZ, alpha_em, alpha_s, fermion masses, m_hSM; <= 2), Higgs masses incl. degenerate and inverted hierarchies, sin(beta-alpha) of both signs, tan(beta) 0.05..200, lambda_6/7, m12^2, 6 Yukawa types, 3 CKM matrices, zeta_f/Delta_f/Pi_f alphabets) is constructed; the reported masses, angle, tan(beta), lambda_6/7, m12^2, MW, MZ, Goldstone position, fermion masses and quark mixing are compared with the input, and the model is rebuilt in the other basis from what it reports. Exhaustive within the lattice; says nothing about inputs off the lattice.",
    note="trusted: the harness' use of the public getters, gm2calc::SM getters as the 'SM input', double arithmetic of the closed-form tolerance scales; quark mixing is read as conj(Vu) Vd^T (mass matrix = V^T diag(m) U) and compared through |V_ij| and the Jarlskog invariant",
    design_ref="3/C08")

HARNESSES = [(("thdm", "plain", ["thdm.cpp"]), {})]

TOL = 1e-10
ZETAS = [-100.0, -1.0, 0.0, 1.0, 100.0]
MVALS = [0.0, 10.0, 125.0, 126.0, 400.0, 1e4]      # incl. the boundary mh = 0 and all mh == mH
PAIRS = [(a, b) for a in MVALS for b in MVALS if a <= b]

DIMS_M0 = ["mm", "mA", "mHp", "sba", "tb", "l6", "l7", "m122", "yt", "ckm",
           "zu", "zd", "zl", "Du", "Dd", "Dl", "Pu", "Pd", "Pl"]
CFG_DIMS = ["run", "force"]         # thdm::Config: running_couplings, force_output
DIMS_M = DIMS_M0 + T.SM_DIMS + CFG_DIMS   # + SM input (MW, MZ, alpha_em(MZ), alpha_s, nine fermion masses, m_hSM) + configuration
ALPHA_M = {
    "mm": PAIRS, "mA": [10.0, 300.0, 1e4], "mHp": [10.0, 300.0, 1e4],
    "sba": [-1.0, -0.9, -0.3, 0.0, 0.3, 0.7, 0.995, 1.0],
    "tb": [0.05, 0.5, 1.0, 3.0, 50.0, 200.0],
    "l6": [-3.0, 0.0, 0.2, 3.0], "l7": [-3.0, 0.0, 0.2, 3.0],
    "m122": [-1e4, 0.0, 4e4],
    "yt": [1, 2, 3, 4, 5, 6], "ckm": [0, 1, 2],
    "zu": ZETAS, "zd": ZETAS, "zl": ZETAS,
    "Du": T.MAT_NAMES, "Dd": T.MAT_NAMES, "Dl": T.MAT_NAMES,
    "Pu": T.MAT_NAMES, "Pd": T.MAT_NAMES, "Pl": T.MAT_NAMES,
}
ALPHA_M.update(T.SM_ALPHA)
ALPHA_M.update({"run": [1, 0], "force": [0, 1]})
BASES_M = [
    dict(mm=(125.0, 400.0), mA=300.0, mHp=300.0, sba=0.995, tb=3.0, l6=0.0, l7=0.0, m122=4e4, yt=2, ckm=1,
         zu=0.0, zd=0.0, zl=0.0, Du="0", Dd="0", Dl="0", Pu="0", Pd="0", Pl="0"),
    dict(mm=(125.0, 126.0), mA=1e4, mHp=1e4, sba=0.3, tb=50.0, l6=0.2, l7=0.2, m122=0.0, yt=5, ckm=2,
         zu=1.0, zd=-1.0, zl=100.0, Du="dense", Dd="e12", Dl="m22", Pu="0", Pd="0", Pl="0"),
    dict(mm=(10.0, 1e4), mA=10.0, mHp=300.0, sba=-0.9, tb=0.5, l6=3.0, l7=-3.0, m122=-1e4, yt=6, ckm=2,
         zu=0.0, zd=0.0, zl=0.0, Du="0", Dd="0", Dl="0", Pu="dense", Pd="e12", Pl="m22"),
    dict(mm=(400.0, 400.0), mA=300.0, mHp=10.0, sba=0.7, tb=1.0, l6=-3.0, l7=0.2, m122=4e4, yt=4, ckm=0,
         zu=-100.0, zd=100.0, zl=-1.0, Du="e31", Dd="0", Dl="dense", Pu="m22", Pd="dense", Pl="0"),
    dict(mm=(126.0, 1e4), mA=1e4, mHp=10.0, sba=-0.3, tb=200.0, l6=0.2, l7=3.0, m122=-1e4, yt=3, ckm=1,
         zu=0.0, zd=1.0, zl=0.0, Du="m22", Dd="dense", Dl="e12", Pu="0", Pd="0", Pl="e31"),
    dict(mm=(10.0, 125.0), mA=300.0, mHp=1e4, sba=0.0, tb=0.05, l6=-3.0, l7=-3.0, m122=0.0, yt=1, ckm=2,
         zu=100.0, zd=0.0, zl=-100.0, Du="dense", Dd="dense", Dl="dense", Pu="dense", Pd="0", Pl="0"),
]

LAMS = [-2.0, -0.5, 0.0, 0.5, 2.0]
DIMS_G0 = ["l1", "l2", "l3", "l4", "l5", "l6", "l7", "tb", "m122", "yt", "ckm",
           "zu", "zd", "zl", "Du", "Dd", "Dl", "Pu", "Pd", "Pl"]
DIMS_G = DIMS_G0 + T.SM_DIMS + CFG_DIMS
ALPHA_G = dict(ALPHA_M)
ALPHA_G.update({"l%d" % i: LAMS for i in range(1, 8)})
ALPHA_G["m122"] = [-1e4, 0.0, 4e4, 1e6]
BASES_G = [
    dict(l1=0.5, l2=0.5, l3=2.0, l4=-0.5, l5=-0.5, l6=0.0, l7=0.0, tb=3.0, m122=4e4, yt=2, ckm=1,
         zu=0.0, zd=0.0, zl=0.0, Du="0", Dd="0", Dl="0", Pu="0", Pd="0", Pl="0"),
    dict(l1=2.0, l2=0.5, l3=0.5, l4=0.5, l5=-0.5, l6=0.5, l7=-0.5, tb=1.0, m122=1e6, yt=6, ckm=2,
         zu=1.0, zd=-1.0, zl=100.0, Du="dense", Dd="e12", Dl="m22", Pu="e31", Pd="dense", Pl="m22"),
    dict(l1=0.5, l2=2.0, l3=2.0, l4=-0.5, l5=0.0, l6=-0.5, l7=0.5, tb=0.5, m122=0.0, yt=5, ckm=0,
         zu=-1.0, zd=100.0, zl=0.0, Du="0", Dd="m22", Dl="e31", Pu="0", Pd="0", Pl="0"),
]


SM_ALT_BASE = dict(T.SM_ALT, mhsm=150.0)
for _i, _b in enumerate(BASES_M):
    _b.update(SM_ALT_BASE if _i in (1, 4) else T.SM_BASE)
    _b.update(run=0 if _i == 3 else 1, force=1 if _i == 2 else 0)
for _i, _b in enumerate(BASES_G):
    _b.update(SM_ALT_BASE if _i == 1 else T.SM_BASE)
    _b.update(run=0 if _i == 2 else 1, force=1 if _i == 1 else 0)


def to_case(a, basis):
    if basis == "M":
        p = [a["mm"][0], a["mm"][1], a["mA"], a["mHp"], a["sba"], a["l6"], a["l7"], a["tb"], a["m122"]]
    else:
        p = [a["l%d" % i] for i in range(1, 8)] + [a["tb"], a["m122"]]
    return T.case(basis, p, ytype=a["yt"], run=a.get("run", 1), force=a.get("force", 0), ckm=a["ckm"], z=(a["zu"], a["zd"], a["zl"]),
                  D=(a["Du"], a["Dd"], a["Dl"]), P=(a["Pu"], a["Pd"], a["Pl"]), sm=T.sm_from(a), mhsm=a.get("mhsm"))


def from_compact(item):
    basis, vals = item
    return to_case(dict(zip(DIMS_M if basis == "M" else DIMS_G, vals)), basis)


def with_basis(c, basis, p):
    d = dict(c)
    d["basis"] = basis
    d["p"] = [float(x) for x in p]
    return d


def matmax(m):
    if m is None:
        return 0.0
    if isinstance(m, str):
        m = T.MATS[m]
        if m is None:
            return 0.0
    return max(abs(x) for x in m)


def lam_tols(mh, mH, mA, mHp, tb, l6, l7, m122, v, cba):
    """tolerances for lambda_1..5 reconstructed from (masses, sin(beta-alpha)):
    1e-10 x sum of |terms| of the closed-form expressions, plus the error inherited from
    rounding the argument sin(beta-alpha) to a double (4 ulp): d(alpha) = d(sba)/cba, saturating
    at sqrt(2 ulp) (a double sine cannot resolve cos(beta-alpha) below 1.5e-8);
    |d lambda_{1,2,3}/d alpha| <= (mH^2-mh^2)/(v^2 {cb^2, sb^2, sb cb})"""
    sc = lam_scales(mh, mH, mA, mHp, tb, l6, l7, m122, v)
    cb2 = 1.0 / (1.0 + tb * tb)
    dang = min(4 * 2.0 ** -53 / max(abs(cba), 1e-300), 2 * math.sqrt(2.0 ** -53))
    gap = abs(mH * mH - mh * mh) / (v * v)
    inh = [gap * dang / cb2, gap * dang / (tb * tb * cb2), gap * dang / (tb * cb2), 0.0, 0.0]
    return [TOL * s + i for s, i in zip(sc, inh)]


def lam_scales(mh, mH, mA, mHp, tb, l6, l7, m122, v):
    """sum of |terms| of the closed-form expressions for lambda_1..5, every squared Higgs mass
    replaced by the largest one: the squared masses a model reports carry an absolute error
    proportional to m^2_max (that is the tolerance of the mass clause), the lambda_i inherit it"""
    cb2 = 1.0 / (1.0 + tb * tb)
    sb2 = tb * tb * cb2
    sbcb = tb * cb2
    v2 = v * v
    a67 = 0.5 * abs(l6) / tb + 0.5 * abs(l7) * tb
    mx = max(mh * mh, mH * mH, mA * mA, mHp * mHp)
    return [
        (2 * mx + abs(m122) * tb) / (v2 * cb2) + 0.5 * tb * (abs(l7) * tb * tb + 3 * abs(l6)),
        (2 * mx + abs(m122) / tb) / (v2 * sb2) + 0.5 / tb * (abs(l6) / (tb * tb) + 3 * abs(l7)),
        (2 * mx + 2 * mx * sbcb + abs(m122)) / (v2 * sbcb) + a67,
        (3 * mx * sbcb + abs(m122)) / (v2 * sbcb) + a67,
        (abs(m122) / sbcb + mx) / v2 + a67,
    ]


class Acc:
    """collects failures and worst error/tolerance ratios of one point"""

    def __init__(self):
        self.fails = []
        self.worst = {}

    def cmp(self, cls, key, err, tol, what):
        r = err / tol if tol > 0 else (0.0 if err == 0 else float("inf"))
        if not (r <= self.worst.get(cls, 0.0)):      # also catches NaN
            self.worst[cls] = r if r == r else float("inf")
        if not (err <= tol):
            self.fails.append((key, what % dict(err=err, tol=tol)))


def spectrum_scale(S):
    ms = [S[T.MHH0], S[T.MHH1], S[T.MAH1], S[T.MHM1], S[T.SM_MW], S[T.SM_MZ]]
    m2 = [m * m for m in ms]
    return max(m2), min(m2)


def check_common(acc, c, S, tag, m2max, m2min):
    """clauses that hold for every constructed model: MW, MZ, Goldstones, fermions, CKM, stored inputs"""
    ty = T.TYPES[c["ytype"]]
    R = m2max / m2min if m2min > 0 else float("inf")
    # the SM object the model carries is the SM input that was sent (exact)
    sent = dict(c.get("sm") or {})
    if c["mhsm"] not in ("-", "auto"):
        sent["mh"] = float.fromhex(c["mhsm"])
    echo = {"mw": S[T.SM_MW], "mz": S[T.SM_MZ], "aem": S[T.SM_AEM], "as": S[T.SM_AS], "mh": S[T.SM_MH]}
    for f_, sl_ in (("mu", T.SM_MU), ("md", T.SM_MD), ("ml", T.SM_ML)):
        for i_ in range(3):
            echo["%s%d" % (f_, i_)] = S[sl_][i_]
    for k_, v_ in sorted(sent.items()):
        if k_ in echo:
            acc.cmp("stored", "%s:sm-input:%s" % (tag, k_), abs(echo[k_] - v_), 0.0, "SM input %s sent %r, model.get_sm() has %r" % (k_, v_, echo[k_]))
    # gauge sector: alpha_em and v of the model are those of its SM input
    acc.cmp("MW,MZ", "%s:alpha_em" % tag, abs(S[T.ALPHA_EM] - S[T.SM_AEM]), 1e-13 * S[T.SM_AEM],
            "alpha_em of the model %r, SM input alpha_em(MZ) %r (err %%(err).3g > %%(tol).3g)" % (S[T.ALPHA_EM], S[T.SM_AEM]))
    acc.cmp("MW,MZ", "%s:v" % tag, abs(S[T.V] - S[T.SM_V]), 1e-13 * S[T.SM_V],
            "v of the model %r, SM::get_v() %r (err %%(err).3g > %%(tol).3g)" % (S[T.V], S[T.SM_V]))
    # vector bosons
    for nm, got, ref in (("MW", S[T.MW], S[T.SM_MW]), ("MZ", S[T.MZ], S[T.SM_MZ])):
        acc.cmp("MW,MZ", "%s:%s" % (tag, nm), abs(got - ref), 1e-13 * ref,
                nm + " reported %r, SM input %r (err %%(err).3g > %%(tol).3g)" % (got, ref))
    acc.cmp("MW,MZ", "%s:MVG,MVP" % tag, abs(S[T.MVG]) + abs(S[T.MVP]), 0.0, "photon/gluon mass not 0 (%(err)r)")
    # Goldstones at index 0 (Feynman gauge: masses MZ, MW; direction (cos beta, sin beta))
    tb = S[T.TB]
    cb = 1.0 / math.sqrt(1.0 + tb * tb)
    sb = tb * cb
    for nm, got, ref, z0, z1, other in (("MAh(0)", S[T.MAH0], S[T.MZ], S[T.ZA00], S[T.ZA01], S[T.MAH1]),
                                        ("MHm(0)", S[T.MHM0], S[T.MW], S[T.ZP00], S[T.ZP01], S[T.MHM1])):
        acc.cmp("goldstone", "%s:goldstone:%s" % (tag, nm), abs(got * got - ref * ref), TOL * m2max,
                nm + "^2 = %r but gauge boson mass^2 = %r (err %%(err).3g > %%(tol).3g)" % (got * got, ref * ref))
        gap = abs(other * other - ref * ref)
        if gap > 0:
            acc.cmp("goldstone", "%s:goldstone-direction:%s" % (tag, nm), abs(z0 * sb - z1 * cb),
                    TOL * max(1.0, m2max / gap),
                    "mixing row 0 of " + nm + " = (%r, %r) is not +-(cos beta, sin beta) = (%r, %r) (err %%(err).3g > %%(tol).3g)" % (z0, z1, cb, sb))
    # fermion masses
    for f, sl, ref_sl, k in (("u", T.MFU, T.SM_MU, 0), ("d", T.MFD, T.SM_MD, 1), ("e", T.MFE, T.SM_ML, 2)):
        got, ref = S[sl], S[ref_sl]
        scale = max(ref) + (S[T.V] * matmax(c["P"][k]) if c["ytype"] == 6 else 0.0)
        key = "%s:fermion-mass:%s:%s" % (tag, f, ty)
        for i in range(3):
            acc.cmp("fermion", key, abs(got[i] - ref[i]), TOL * ref[i] + 1e-13 * scale,
                    "MF%s(%d) = %r, SM input %r, type %s (err %%(err).3g > %%(tol).3g)" % (f, i, got[i], ref[i], ty))
    acc.cmp("fermion", "%s:fermion-mass:v" % tag, sum(abs(x) for x in S[T.MFV]), 0.0, "neutrino masses not 0")
    # quark mixing
    key = "%s:ckm:%s" % (tag, ty)
    Vr, Vi = T.cmat(S[T.VREC]), T.cmat(S[T.SM_CKM])
    err = max(abs(abs(Vr[i][j]) - abs(Vi[i][j])) for i in range(3) for j in range(3))
    acc.cmp("ckm", key, err, TOL, "|conj(Vu) Vd^T|_ij differs from |CKM_ij| of the input by %(err).3g > %(tol).3g, type " + ty)
    acc.cmp("ckm", key, abs(T.jarlskog(Vr) - T.jarlskog(Vi)), 1e-11,
            "Jarlskog invariant of conj(Vu) Vd^T = %r, input %r (err %%(err).3g > %%(tol).3g), type %s" % (T.jarlskog(Vr), T.jarlskog(Vi), ty))
    return R


def angle_tol(mh, mH, R):
    gap = mH * mH - mh * mh
    return TOL * R * max(1.0, (mH * mH + mh * mh) / gap) if gap > 0 else float("inf")


def cmp_angle(acc, tag, sba_in, S, mh, mH, R):
    if mh == mH:
        return
    tol = angle_tol(mh, mH, R)
    sba, cba = S[T.SBA], S[T.CBA]
    acc.cmp("angle", "%s:angle:cba<0" % tag, max(0.0, -cba), tol,
            "cos(beta-alpha) reported as %r < 0" % cba)
    err = abs(sba - sba_in)
    if abs(cba) < 1e-7:
        err = min(err, abs(-sba - sba_in))   # (s,c) ~ (-s,-c) at c = 0: h -> -h, H -> -H
    acc.cmp("angle", "%s:angle:sba" % tag, err, tol,
            "sin(beta-alpha): input %r reported as %r (cos %r), mh=%r mH=%r (err %%(err).3g > %%(tol).3g)" % (sba_in, sba, cba, mh, mH))


def cmp_masses(acc, tag, ref, S, m2max, what):
    """squared masses carry an absolute error proportional to m^2_max: |m_rep^2 - m^2| <= 2e-10 m^2_max,
    i.e. relative 1e-10 x m^2_max/m^2 on the mass itself (the statement's m^2_max/m^2_min for the lightest
    state, tighter for the heavier ones, and meaningful at the boundary m = 0)"""
    for nm, idx, r in (("mh", T.MHH0, ref[0]), ("mH", T.MHH1, ref[1]), ("mA", T.MAH1, ref[2]), ("mHp", T.MHM1, ref[3])):
        acc.cmp("mass", "%s:mass:%s" % (tag, nm), abs(S[idx] * S[idx] - r * r), 2 * TOL * m2max,
                nm + " " + what + " %r, reported %r (err on m^2 %%(err).3g > %%(tol).3g)" % (r, S[idx]))


def mass_input_from(S):
    return [S[T.MHH0], S[T.MHH1], S[T.MAH1], S[T.MHM1], S[T.SBA], S[T.LAM][5], S[T.LAM][6], S[T.TB], S[T.M122]]


def gauge_input_from(S):
    return list(S[T.LAM]) + [S[T.TB], S[T.M122]]


STALE = "state:set_tan_beta:stale-higgs-sector"


def state_items(d):
    """(case as constructed, [variants with a set_tan_beta sequence]) for all assignments with <= d deviations from the base points"""
    for basis, dims, alpha, bases in (("M", DIMS_M, ALPHA_M, BASES_M), ("G", DIMS_G, ALPHA_G, BASES_G)):
        seen = set()
        for b in bases:
            for a, combo in T.devprod(dims, b, alpha, d):
                vals = tuple(a[k] for k in dims)
                if vals in seen:
                    continue
                seen.add(vals)
                yield (basis, vals)


def evaluate_state(chunk):
    """object state: THDM::set_tan_beta is the only public mutator.  After set_tan_beta(tb') the object must report
    tan(beta) = tb', v, MW, MZ, alpha_em and the fermion masses of its SM input (the original only changes v1, v2), the
    Higgs masses and the stored lambda_6/7, m12^2 it was constructed with, nothing non-finite; set_tan_beta(construction
    value) and tb -> tb' -> tb must leave it bitwise as constructed.  What the original does NOT keep consistent (the
    Higgs sector is not re-solved: sin(beta-alpha) mixes the new beta with the old alpha_h, the reported lambda_i no
    longer reproduce the reported spectrum, the Goldstone row is the old (cos beta, sin beta)) is reported under its own key."""
    out = dict(n=0, evals=0, fails=[], worst={}, keys=set(), stale={}, skipped=0)
    fam = []
    for item in chunk:
        c0 = from_compact(item) if isinstance(item, tuple) else item
        tb = c0["p"][7]
        seqs = [(0.5 * tb,), (2.0 * tb,), (1.0 / tb,), (tb,), (0.5 * tb, tb)]
        fam.append([c0] + [dict(c0, post=list(s_)) for s_ in seqs])
    flat = [c for f in fam for c in f]
    res = T.run_cases(flat, "S")
    out["evals"] += len(flat)
    # rebuild in the gauge basis from what the mutated object reports
    reb, ridx = [], []
    k = 0
    for f in fam:
        rs = res[k:k + len(f)]
        for j in (1, 2, 3):
            if not rs[j].exc and not nonfinite(rs[j].S):
                ridx.append(k + j)
                reb.append(dict(with_basis(f[j], "G", gauge_input_from(rs[j].S)), post=[]))
        k += len(f)
    rres = dict(zip(ridx, T.run_cases(reb, "S"))) if reb else {}
    out["evals"] += len(reb)
    k = 0
    for f in fam:
        rs = res[k:k + len(f)]
        base_k = k
        k += len(f)
        c0, r0 = f[0], rs[0]
        if r0.exc:
            out["skipped"] += 1
            # a refusal at construction must not depend on a later call; every variant is refused as well
            for c, r in zip(f[1:], rs[1:]):
                if (r.exc or None) != r0.exc:
                    out["fails"].append(("%s:state:outcome" % c0["basis"], "constructed: %r, with set_tan_beta sequence: %r; %s" % (r0.exc, r.exc, brief(c)), {"case": c}))
            continue
        S0 = r0.S
        bs = c0["basis"]
        m2 = [x * x for x in (S0[T.MHH0], S0[T.MHH1], S0[T.MAH1], S0[T.MHM1], S0[T.SM_MW], S0[T.SM_MZ])]
        m2max, m2pos = max(m2), [x for x in m2 if x > 0]
        m2min = min(m2pos)
        for j, (c, r) in enumerate(zip(f[1:], rs[1:]), start=1):
            out["n"] += 1
            if r.exc:
                out["fails"].append(("%s:state:set_tan_beta:throws" % bs, "construction succeeds but the variant is refused: %r; %s" % (r.exc, brief(c)), {"case": c}))
                continue
            if j >= 4:
                # no-op / there-and-back: bitwise
                if r.raw["S"] != r0.raw["S"]:
                    idx = [q for q in range(len(S0)) if S0[q].hex() != r.S[q].hex()]
                    out["fails"].append(("%s:state:set_tan_beta:%s-not-bitwise" % (bs, "noop" if j == 4 else "there-and-back"),
                                         "object differs from the constructed one in %s: %r -> %r; %s"
                                         % ([FIELD.get(q, "S[%d]" % q) for q in idx[:5]], [S0[q] for q in idx[:3]], [r.S[q] for q in idx[:3]], brief(c)), {"case": c}))
                continue
            S = r.S
            nf = nonfinite(S)
            if nf:
                out["fails"].append(("%s:state:nonfinite:%s" % (bs, nf[0]), "after set_tan_beta the model reports non-finite %s; %s" % (", ".join(nf), brief(c)), {"case": c}))
                continue
            tbf = c["post"][-1]
            acc = Acc()
            tag = bs + ":state"
            acc.cmp("state", tag + ":tan_beta", abs(S[T.TB] - tbf), 1e-13 * tbf, "set_tan_beta(%r) but tan(beta) reported %r" % (tbf, S[T.TB]))
            # SM-derived quantities and Goldstone masses, fermions, CKM: as for a freshly constructed model;
            # the Goldstone *direction* refers to the stale mixing matrices and is classified below
            acc2 = Acc()
            check_common(acc2, c, S, tag, m2max, m2min)
            for key, what in acc2.fails:
                if "goldstone-direction" in key:
                    out["stale"]["goldstone-direction"] = out["stale"].get("goldstone-direction", 0) + 1      # observation only
                else:
                    acc.fails.append((key, what))
            for cls, v in acc2.worst.items():
                if cls != "goldstone":
                    acc.worst[cls] = max(acc.worst.get(cls, 0.0), v)
            # Higgs masses and stored parameters: those of the constructed object
            cmp_masses(acc, tag, (S0[T.MHH0], S0[T.MHH1], S0[T.MAH1], S0[T.MHM1]), S, m2max, "of the constructed object")
            for q in range(7):
                acc.cmp("stored", tag + ":lambda%d" % (q + 1), abs(S[T.LAM][q] - S0[T.LAM][q]), 0.0, "lambda_%d constructed %r, after set_tan_beta %r" % (q + 1, S0[T.LAM][q], S[T.LAM][q]))
            acc.cmp("stored", tag + ":m122", abs(S[T.M122] - S0[T.M122]), 0.0, "m12^2 constructed %r, after set_tan_beta %r" % (S0[T.M122], S[T.M122]))
            # --- what the original does not keep consistent -------------------------------------------------
            # set_tan_beta() only replaces v1, v2; the Higgs sector is not re-solved.  C08 speaks about a
            # CONSTRUCTED model and says nothing about the state after set_tan_beta(tb' != tb), so the three
            # inconsistencies below are counted and reported in the evidence (state_stale_higgs_sector_observations)
            # but are not violations of C08 (integrator's decision; DESIGN.md 7.1).
            mh, mH = S0[T.MHH0], S0[T.MHH1]
            if bs == "M" and c0["p"][0] != c0["p"][1]:
                Rr = m2max / m2min
                tol = angle_tol(c0["p"][0], c0["p"][1], Rr)
                err = abs(S[T.SBA] - c0["p"][4])
                if abs(S[T.CBA]) < 1e-7:
                    err = min(err, abs(-S[T.SBA] - c0["p"][4]))
                if not (err <= tol):
                    out["stale"]["sba"] = out["stale"].get("sba", 0) + 1      # observation only
            rr = rres.get(base_k + j)
            if rr is not None:
                bad = None
                if rr.exc:
                    bad = "gauge-basis model built from the reported lambda_1..7, tan(beta), m12^2 is refused: %s %s" % rr.exc
                else:
                    for nm, q in (("mh", T.MHH0), ("mH", T.MHH1), ("mA", T.MAH1), ("mHp", T.MHM1)):
                        if not (abs(rr.S[q] ** 2 - S[q] ** 2) <= 2 * TOL * max(m2max, rr.S[T.MHH1] ** 2, rr.S[T.MAH1] ** 2, rr.S[T.MHM1] ** 2)):
                            bad = "%s reported %r, but the reported lambda_1..7, tan(beta) = %r, m12^2 give %r" % (nm, S[q], S[T.TB], rr.S[q])
                            break
                if bad:
                    out["stale"]["rebuild"] = out["stale"].get("rebuild", 0) + 1      # observation only
            for cls, v in acc.worst.items():
                out["worst"]["state:" + cls] = max(out["worst"].get("state:" + cls, 0.0), v)
            seen_ = set()
            for key, what in acc.fails:
                if key not in seen_:
                    seen_.add(key)
                    out["fails"].append((key, what + "; " + brief(c), {"case": c}))
            out["keys"].add((bs, "state", c["ytype"], (tbf > c0["p"][7]) - (tbf < c0["p"][7]), c.get("force", 0)))
    return out


ULP = 2.0 ** -52
PRINT_MAP = ([("S", j) for j in (0, 1, 2, 3, 4, 5, 19, 20, 21, 22, 23, 24, 28, 29, 30, 25, 26, 27, 17, 18, 33, 31, 32, 6, 7)]
             + [("X", T.X_ETA), ("S", 8), ("S", 87), ("S", 88), ("S", 89)] + [("S", 9 + j) for j in range(7)]
             + [("S", 16), ("X", T.X_M112), ("X", T.X_M222), ("X", T.X_V1), ("X", T.X_V2), ("X", T.X_G1), ("X", T.X_G2), ("X", T.X_G3)])
PRINT_NAMES = (["Mhh(0)", "Mhh(1)", "MAh(0)", "MAh(1)", "MHm(0)", "MHm(1)"] + ["MFu(%d)" % i for i in range(3)] + ["MFd(%d)" % i for i in range(3)]
               + ["MFv(%d)" % i for i in range(3)] + ["MFe(%d)" % i for i in range(3)]
               + ["MVWm", "MVZ", "v", "alpha_h", "beta", "sin(beta-alpha_h)", "cos(beta-alpha_h)", "eta", "tan(beta)", "zeta_u", "zeta_d", "zeta_l"]
               + ["lambda%d" % i for i in range(1, 8)] + ["m122", "m112", "m222", "v1", "v2", "g1", "g2", "g3"])


def same(a, b):
    return a.hex() == b.hex() if (a == a or b == b) else True


def check_overloads(acc, c, S, X, tag, P=None):
    """every public accessor is an observation channel: array getter == indexed getter and matrix getter ==
    element getter bitwise, derived getters consistent with each other to a few ulp, print() shows the getter
    values to the printed digits.  Returns the S block as seen through the ARRAY getters if it differs (the
    caller runs the oracle on it as well)."""
    S_arr = None
    for nm, (sl, idxs) in sorted(T.X_ARR.items()):
        arr = X[sl]
        if not all(same(arr[i], S[j]) for i, j in enumerate(idxs)):
            acc.fails.append(("%s:accessor:get_%s():array!=indexed" % (tag, nm),
                              "get_%s() returns %r but get_%s(i) returns %r" % (nm, list(arr), nm, [S[j] for j in idxs])))
            S_arr = S_arr or list(S)
            for i, j in enumerate(idxs):
                S_arr[j] = arr[i]
    for q, nm in enumerate(T.X_OVL):
        if X[33 + q] != 0:
            acc.fails.append(("%s:accessor:get_%s(i,k)!=matrix" % (tag, nm), "get_%s(): %d element(s) differ from get_%s(i,k)" % (nm, int(X[33 + q]), nm)))
    v, vsq, tb, beta, ah = S[T.V], X[T.X_VSQR], S[T.TB], S[T.BETA], S[T.ALPHA_H]
    sb, cb, sba, cba = X[T.X_SINB], X[T.X_COSB], S[T.SBA], S[T.CBA]
    lam = S[T.LAM]
    cons = [
        ("v_sqr==v^2", abs(vsq - v * v), 4 * ULP * vsq),
        ("sin_beta^2+cos_beta^2==1", abs(sb * sb + cb * cb - 1.0), 4 * ULP),
        ("sba^2+cba^2==1", abs(sba * sba + cba * cba - 1.0), 4 * ULP),
        ("tan_beta==sin_beta/cos_beta", abs(tb - sb / cb), 4 * ULP * tb),
        ("beta==atan(tan_beta)", abs(beta - math.atan(tb)), 4 * ULP),
        ("eta==pi/2+alpha_h-beta", abs(X[T.X_ETA] - (math.pi / 2 + ah - beta)), 8 * ULP * (2 + abs(ah))),
        ("sba==sin(beta-alpha_h)", abs(sba - math.sin(beta - ah)), 8 * ULP),
        ("cba==cos(beta-alpha_h)", abs(cba - math.cos(beta - ah)), 8 * ULP),
        ("tan_beta==v2/v1", abs(tb - X[T.X_V2] / X[T.X_V1]), ULP * tb),
        ("v1==v cos_beta", abs(X[T.X_V1] - v * cb), 8 * ULP * v),
        ("v2==v sin_beta", abs(X[T.X_V2] - v * sb), 8 * ULP * v),
        ("LambdaFive==2 m122/(v^2 sb cb)", abs(X[T.X_L5] - 2 * S[T.M122] / (vsq * tb / (1 + tb * tb))), 1e-14 * abs(X[T.X_L5])),
        ("LambdaSixSeven==l6/sb^2-l7/cb^2", abs(X[T.X_L67] - (lam[5] / (sb * sb) - lam[6] / (cb * cb))), 1e-14 * (abs(lam[5]) / (sb * sb) + abs(lam[6]) / (cb * cb))),
        ("MVWm==g2 v/2", abs(S[T.MW] - 0.5 * X[T.X_G2] * v), 1e-13 * S[T.MW]),
    ]
    gy2 = 0.6 * X[T.X_G1] ** 2
    g22 = X[T.X_G2] ** 2
    cons.append(("alpha_em==e^2(g1,g2)/4pi", abs(S[T.ALPHA_EM] - gy2 * g22 / (gy2 + g22) / (4 * math.pi)), 1e-14 * S[T.ALPHA_EM]))
    m2max, _ = spectrum_scale(S)
    scale = v * (abs(X[T.X_M112]) + abs(X[T.X_M222]) + abs(S[T.M122]) * (tb + 1 / tb) + m2max)
    cons.append(("ewsb_eq_hh_1==0", abs(X[T.X_EW1]), TOL * scale))
    cons.append(("ewsb_eq_hh_2==0", abs(X[T.X_EW2]), TOL * scale))
    for nm, err, tol in cons:
        acc.cmp("accessors", "%s:accessor-consistency:%s" % (tag, nm), err, tol, nm + " violated (err %(err).3g > %(tol).3g)")
    if P is not None:
        if P[T.P_MISSING] != 0:
            acc.fails.append(("%s:print:labels" % tag, "%d expected quantities not found in the output of print()" % int(P[T.P_MISSING])))
        else:
            for q, ((blk, j), nm) in enumerate(zip(PRINT_MAP, PRINT_NAMES)):
                g = (S if blk == "S" else X)[j]
                p = P[q]
                ok = (p != p and g != g) or abs(p - g) <= 5.1e-6 * abs(g) + 1e-300
                if not ok:
                    acc.fails.append(("%s:print:%s" % (tag, nm), "print() shows %s = %r, the getter returns %r" % (nm, p, g)))
                    break
    return S_arr


def evaluate_compact(chunk):
    return evaluate_points([from_compact(it) for it in chunk])


FIELD = {0: "Mhh(0)", 1: "Mhh(1)", 2: "MAh(0)", 3: "MAh(1)", 4: "MHm(0)", 5: "MHm(1)", 6: "sin(beta-alpha)", 7: "cos(beta-alpha)",
         8: "tan_beta", 16: "m122", 17: "MVWm", 18: "MVZ", 31: "alpha_h", 32: "beta", 33: "v", 94: "alpha_em"}
for _j in range(7):
    FIELD[9 + _j] = "lambda%d" % (_j + 1)
for _j in range(3):
    FIELD[19 + _j], FIELD[22 + _j], FIELD[25 + _j], FIELD[28 + _j] = "MFu(%d)" % _j, "MFd(%d)" % _j, "MFe(%d)" % _j, "MFv(%d)" % _j
for _j in range(34, 38):
    FIELD[_j] = "ZA/ZP"
for _j in range(38, 56):
    FIELD[_j] = "quark-mixing"


def nonfinite(S):
    """names of reported quantities that are NaN or infinite"""
    return sorted(set(FIELD.get(j, "S[%d]" % j) for j in range(56) if not math.isfinite(S[j])) | (set() if math.isfinite(S[94]) else {"alpha_em"}))


def evaluate_points(cases, history=True):
    """cases: list of case dicts evaluated in ONE harness process per pass.  Runs the passes and the oracle.
    returns dict(n, thrown, fails, worst, keys, exc_classes)"""
    # X: every accessor through its other overloads and the derived getters; P: print() (every 8th case: it is slow)
    ops1 = ["SXP" if i % 8 == 0 else "SX" for i in range(len(cases))]
    r1 = T.run_cases(cases, ops1)
    hist = T.history_mismatches(cases, ops1, r1) if history and len(cases) > 1 else []
    alive = [i for i, r in enumerate(r1) if not r.exc]
    # pass 2: other basis from what the model reports
    c2 = []
    for i in alive:
        c, S = cases[i], r1[i].S
        c2.append(with_basis(c, "G", gauge_input_from(S)) if c["basis"] == "M" else with_basis(c, "M", mass_input_from(S)))
    r2 = T.run_cases(c2, "S") if c2 else []
    # pass 3 (mass-basis lattice only): back to the mass basis from what the gauge-basis model reports
    idx3 = [k for k, i in enumerate(alive) if cases[i]["basis"] == "M" and not r2[k].exc]
    c3 = [with_basis(cases[alive[k]], "M", mass_input_from(r2[k].S)) for k in idx3]
    r3 = dict(zip(idx3, T.run_cases(c3, "S"))) if c3 else {}

    out = dict(n=len(cases), thrown=0, illcond=0, massless_tachyon=0, forced_reruns=0, forced_problem=0, fails=[], worst={}, keys=set(), exc={},
               passes=len(cases) * (2 if history and len(cases) > 1 else 1) + len(c2) + len(c3), smsets=set())
    for i, what in hist:
        # replay data: the case plus a case of the same process with a different SM input (or simply another one)
        other = next((c for c in cases if c.get("sm") != cases[i].get("sm")), cases[0 if i else -1])
        out["fails"].append(("history-dependence", "result depends on what was constructed before in the same process: %s; %s" % (what, brief(cases[i])),
                             {"case": cases[i], "other": other}))
    for c in cases:
        out["smsets"].add(json.dumps(c.get("sm"), sort_keys=True) + c["mhsm"])
    pos2 = {i: k for k, i in enumerate(alive)}
    rerun = []
    for i, c in enumerate(cases):
        r = r1[i]
        forced = bool(c.get("force"))
        ftag = ":force" if forced else ""
        if r.exc and forced:
            # with force_output nothing inside the domain may be refused at all
            out["thrown"] += 1
            out["fails"].append(("%s:force:refused:%s" % (c["basis"], r.exc[0]),
                                 "refused although force_output is set: %s %s; %s" % (r.exc[0], r.exc[1], brief(c)), {"case": c}))
            continue
        if r.exc:
            out["thrown"] += 1
            cls = r.exc[0]
            if cls == "EPhysicalProblem":
                rerun.append(dict(c, force=1))     # must be constructible with force_output and then reproduce its input
            out["exc"][c["basis"] + ":" + cls] = out["exc"].get(c["basis"] + ":" + cls, 0) + 1
            # every lattice point is inside the documented domain (0 <= mh <= mH, mA, mH+ > 0, |sba| <= 1, tan(beta) > 0,
            # types 1..6): the only legitimate refusal is a tachyonic spectrum of a gauge-basis point, or the rounding
            # of the exactly massless state mh = 0 of a mass-basis point
            if cls == "EPhysicalProblem" and c["basis"] == "G":
                pass
            elif cls == "EPhysicalProblem" and c["basis"] == "M" and c["p"][0] == 0:
                out["massless_tachyon"] += 1
                # inside the documented domain (0 <= mh): reported under a narrow key of its own (known finding)
                out["fails"].append(("M:valid-input-refused:mh=0:hh-tachyon-by-rounding",
                                     "mass-basis input with mh = 0 is refused: %s %s; %s" % (cls, r.exc[1], brief(c)), {"case": c}))
            else:
                out["fails"].append(("%s:valid-input-refused:%s" % (c["basis"], cls),
                                     "input inside the documented domain is refused: %s %s; %s" % (cls, r.exc[1], brief(c)), {"case": c}))
            continue
        acc = Acc()
        S = r.S
        k = pos2[i]
        S2 = None if r2[k].exc else r2[k].S
        p = c["p"]
        # nothing a constructed model reports may be NaN/inf (with force_output: tachyonic m^2 are reported as sqrt|m^2|)
        bad = [(tg, nonfinite(Sx)) for tg, Sx in ((c["basis"], S), ("2nd", S2), ("3rd", r3[k].S if k in r3 and not r3[k].exc else None)) if Sx is not None]
        bad = [(tg, nf) for tg, nf in bad if nf]
        if bad:
            tg, nf = bad[0]
            out["fails"].append(("%s%s:nonfinite:%s" % (c["basis"], ftag, nf[0]),
                                 "model (%s construction) reports non-finite %s; %s" % (tg, ", ".join(nf), brief(c)), {"case": c}))
            continue
        if forced and S[T.PROBLEM] != 0:
            out["forced_problem"] += 1
        S_arr = check_overloads(acc, c, S, r.X, c["basis"], r.P)
        if S_arr is not None:
            # the oracle on what the ARRAY getters report
            m2a = [x * x for x in (S_arr[T.MHH0], S_arr[T.MHH1], S_arr[T.MAH1], S_arr[T.MHM1], S[T.SM_MW], S[T.SM_MZ])]
            m2pos = [x for x in m2a if x > 0] or [1.0]
            check_common(acc, c, S_arr, c["basis"] + "[array-getters]", max(m2a), min(m2pos))
            if c["basis"] == "M":
                cmp_masses(acc, "M[array-getters]", p[:4], S_arr, max(max(m2a), max(x * x for x in p[:4])), "input")
        if c["basis"] == "G" and forced and S[T.PROBLEM] != 0:
            # genuinely tachyonic gauge-basis point kept alive by force_output: the stored inputs, MW, MZ, Goldstones,
            # fermions and mixing must still be right; there is no mass-basis input that describes it (no round trip)
            m2max, m2min = spectrum_scale(S)
            if m2min > 0 and m2max / m2min <= 1e8:
                check_common(acc, c, S, "G:force:tachyonic", m2max, m2min)
            for j in range(7):
                acc.cmp("stored", "G:force:lambda%d" % (j + 1), abs(S[T.LAM][j] - p[j]), 0.0, "lambda_%d input %r reported %r" % (j + 1, p[j], S[T.LAM][j]))
            acc.cmp("stored", "G:force:tan_beta", abs(S[T.TB] - p[7]), 1e-13 * p[7], "tan(beta) input %r reported %r" % (p[7], S[T.TB]))
            acc.cmp("stored", "G:force:m122", abs(S[T.M122] - p[8]), 0.0, "m12^2 input %r reported %r" % (p[8], S[T.M122]))
            for cls_, v_ in acc.worst.items():
                out["worst"]["force-tachyonic:" + cls_] = max(out["worst"].get("force-tachyonic:" + cls_, 0.0), v_)
            seen_ = set()
            for key, what in acc.fails:
                if key not in seen_:
                    seen_.add(key)
                    out["fails"].append((key, what + "; " + brief(c), {"case": c}))
            out["keys"].add(("G", "force-tachyonic", c["ytype"], c["ckm"]))
            continue
        if c["basis"] == "M":
            mh, mH, mA, mHp, sba_in, l6, l7, tb, m122 = p
            m2 = [x * x for x in (mh, mH, mA, mHp, S[T.SM_MW], S[T.SM_MZ])]
            m2max, m2min = max(m2), min(x for x in m2 if x > 0)      # ratio over the massive states (mh = 0 is in the domain)
            massless = mh == 0
            R = check_common(acc, c, S, "M", m2max, m2min)
            cmp_masses(acc, "M", (mh, mH, mA, mHp), S, m2max, "input")
            cmp_angle(acc, "M", sba_in, S, mh, mH, R)
            acc.cmp("stored", "M:tan_beta", abs(S[T.TB] - tb), 1e-13 * tb, "tan(beta) input %r reported %r" % (tb, S[T.TB]))
            lam = S[T.LAM]
            acc.cmp("stored", "M:lambda6", abs(lam[5] - l6), 0.0, "lambda_6 input %r reported %r" % (l6, lam[5]))
            acc.cmp("stored", "M:lambda7", abs(lam[6] - l7), 0.0, "lambda_7 input %r reported %r" % (l7, lam[6]))
            acc.cmp("stored", "M:m122", abs(S[T.M122] - m122), 0.0, "m12^2 input %r reported %r" % (m122, S[T.M122]))
            # gauge basis from the reported lambda_1..7: same spectrum
            if S2 is None:
                if massless and not forced and r2[k].exc[0] == "EPhysicalProblem":
                    out["massless_tachyon"] += 1     # massless state: eigenvalue 0 -/+ rounding flagged as tachyon
                    if not forced:
                        rerun.append(dict(c, force=1))
                else:
                    acc.fails.append(("M->G:throws", "model rebuilt from its reported lambda_1..7 is rejected: %s %s" % r2[k].exc))
            else:
                check_common(acc, c, S2, "M->G", m2max, m2min)
                cmp_masses(acc, "M->G", (S[T.MHH0], S[T.MHH1], S[T.MAH1], S[T.MHM1]), S2, m2max, "of the mass-basis model")
                cmp_angle(acc, "M->G", S[T.SBA], S2, mh, mH, R)
                if k in r3:
                    if r3[k].exc:
                        if massless and not forced and r3[k].exc[0] == "EPhysicalProblem":
                            out["massless_tachyon"] += 1
                            if not forced:
                                rerun.append(dict(c, force=1))
                        else:
                            acc.fails.append(("M->G->M:throws", "mass-basis model rebuilt from the gauge-basis model is rejected: %s %s" % r3[k].exc))
                    else:
                        S3 = r3[k].S
                        sc = lam_tols(mh, mH, mA, mHp, tb, l6, l7, m122, S[T.V], S2[T.CBA])
                        for j in range(5):
                            acc.cmp("lambda", "M->G->M:lambda%d" % (j + 1), abs(S3[T.LAM][j] - S2[T.LAM][j]), sc[j],
                                    "lambda_%d of the gauge-basis model %r, after the trip through the mass basis %r (err %%(err).3g > %%(tol).3g)" % (j + 1, S2[T.LAM][j], S3[T.LAM][j]))
                        cmp_masses(acc, "M->G->M", (S2[T.MHH0], S2[T.MHH1], S2[T.MAH1], S2[T.MHM1]), S3, m2max, "of the gauge-basis model")
                        cmp_angle(acc, "M->G->M", S2[T.SBA], S3, mh, mH, R)
            degenerate = mh == mH
        else:
            lam_in, tb, m122 = p[:7], p[7], p[8]
            m2max, m2min = spectrum_scale(S)
            if not (m2min > 0 and m2max / m2min <= 1e8):
                # (nearly) massless state: every tolerance of the statement is unbounded there
                out["illcond"] += 1
                continue
            R = check_common(acc, c, S, "G", m2max, m2min)
            for j in range(7):
                acc.cmp("stored", "G:lambda%d" % (j + 1), abs(S[T.LAM][j] - lam_in[j]), 0.0, "lambda_%d input %r reported %r" % (j + 1, lam_in[j], S[T.LAM][j]))
            acc.cmp("stored", "G:tan_beta", abs(S[T.TB] - tb), 1e-13 * tb, "tan(beta) input %r reported %r" % (tb, S[T.TB]))
            acc.cmp("stored", "G:m122", abs(S[T.M122] - m122), 0.0, "m12^2 input %r reported %r" % (m122, S[T.M122]))
            mh, mH = S[T.MHH0], S[T.MHH1]
            acc.cmp("order", "G:order", max(0.0, mh - mH), 0.0, "Mhh(0) = %r > Mhh(1) = %r" % (mh, mH))
            acc.cmp("angle", "G:angle:cba<0", max(0.0, -S[T.CBA]), angle_tol(mh, mH, R) if mH > mh else 1.0,
                    "cos(beta-alpha) reported as %r < 0" % S[T.CBA])
            if S2 is None:
                acc.fails.append(("G->M:throws", "mass-basis model rebuilt from the reported spectrum is rejected: %s %s" % r2[k].exc))
            else:
                check_common(acc, c, S2, "G->M", m2max, m2min)
                cmp_masses(acc, "G->M", (S[T.MHH0], S[T.MHH1], S[T.MAH1], S[T.MHM1]), S2, m2max, "of the gauge-basis model")
                cmp_angle(acc, "G->M", S[T.SBA], S2, mh, mH, R)
                sc = lam_tols(mh, mH, S[T.MAH1], S[T.MHM1], tb, lam_in[5], lam_in[6], m122, S[T.V], S[T.CBA])
                for j in range(5):
                    acc.cmp("lambda", "G->M:lambda%d" % (j + 1), abs(S2[T.LAM][j] - lam_in[j]), sc[j],
                            "lambda_%d input %r, after the trip through the mass basis %r (err %%(err).3g > %%(tol).3g)" % (j + 1, lam_in[j], S2[T.LAM][j]))
            degenerate = mh == mH
        for cls, v in acc.worst.items():
            if v > out["worst"].get(cls, 0.0):
                out["worst"][cls] = v
        seen = set()
        for key, what in acc.fails:
            if forced:
                key = key.replace(":", ":force:", 1)
                what += " [force_output]"
            if key in seen:
                continue
            seen.add(key)
            out["fails"].append((key, what, {"case": c}))
        quad = int(math.floor(S[T.ALPHA_H] / (math.pi / 2)))
        sgn = (S[T.SBA] > 0) - (S[T.SBA] < 0)
        tbc = (S[T.TB] > 1) - (S[T.TB] < 1)
        out["keys"].add((c["basis"], c["ytype"], c["ckm"], sgn, tbc, quad, degenerate,
                         S[T.MAH1] < S[T.MHH0], S[T.MHM1] < S[T.MHH0], bool(c.get("sm")) or c["mhsm"] != "-",
                         c["run"], c.get("force", 0), S[T.PROBLEM] != 0))
    if rerun:
        # every point the default configuration refuses with a physical problem is constructed again with
        # force_output = true and must then reproduce its input (same oracle, same scaled tolerances)
        uniq, seen_r = [], set()
        for c in rerun:
            kk = json.dumps(c, sort_keys=True)
            if kk not in seen_r:
                seen_r.add(kk)
                uniq.append(c)
        o2 = evaluate_points(uniq, history=False)
        out["forced_reruns"] += len(uniq)
        out["forced_problem"] += o2["forced_problem"]
        out["passes"] += o2["passes"]
        out["illcond"] += 0
        out["fails"] += o2["fails"]
        out["keys"] |= o2["keys"]
        for cls, v in o2["worst"].items():
            nm = cls if cls.startswith("force-") else "forced-rerun:" + cls
            out["worst"][nm] = max(out["worst"].get(nm, 0.0), v)
    return out


def brief(c):
    return "%s p=%s type=%s ckm=%d zeta=%s Delta=%s Pi=%s SM=%s mhSM=%s" % (
        c["basis"], ["%g" % x for x in c["p"]], T.TYPES[c["ytype"]], c["ckm"], c["z"], c["D"], c["P"],
        c.get("sm") or "default", c["mhsm"]) + " running=%d force_output=%d" % (c["run"], c.get("force", 0)) + (
        " then set_tan_beta(%s)" % ", ".join("%g" % x for x in c["post"]) if c.get("post") else "")


# SM inputs cycled through the core product: default / complete alternate set / only MW, MZ changed
CORE_SM = [T.SM_BASE, SM_ALT_BASE, dict(T.SM_BASE, mw=78.5, mz=93.0)]


CORE_CFG = [(1, 0), (1, 1), (0, 0), (0, 1)]      # (running_couplings, force_output) cycled through the core product

# boundary families: evaluated for both values of force_output and of running_couplings
BND_MM = [(0.0, 0.0), (0.0, 125.0), (0.0, 1e4), (10.0, 10.0), (125.0, 125.0), (125.0, 126.0), (1e4, 1e4), (10.0, 1e4)]
BND_AP = [(10.0, 10.0), (300.0, 300.0), (1e4, 1e4), (10.0, 1e4), (1e4, 10.0)]


def boundary_product():
    b = BASES_M[0]
    for mm in BND_MM:
        for mA, mHp in BND_AP:
            for sba in (-1.0, 0.0, 0.3, 1.0):
                for tb in (0.05, 1.0, 200.0):
                    for m122 in (0.0, 4e4):
                        for l67 in ((0.0, 0.0), (3.0, -3.0)):
                            for run in (1, 0):
                                for force in (0, 1):
                                    a = dict(b)
                                    a.update(mm=mm, mA=mA, mHp=mHp, sba=sba, tb=tb, m122=m122, l6=l67[0], l7=l67[1], run=run, force=force)
                                    yield a


def core_product(full):
    """full product over the Higgs-sector dimensions of the mass basis (the part the mixing-angle
    extraction depends on); remaining dimensions as in base point 1, SM input cycling"""
    b = BASES_M[0]
    l67 = ALPHA_M["l6"] if full else [b["l6"]]
    n = 0
    for mm in ALPHA_M["mm"]:
        for mA in ALPHA_M["mA"]:
            for mHp in ALPHA_M["mHp"]:
                for sba in ALPHA_M["sba"]:
                    for tb in ALPHA_M["tb"]:
                        for m122 in ALPHA_M["m122"]:
                            for l6 in l67:
                                for l7 in l67:
                                    a = dict(b)
                                    a.update(mm=mm, mA=mA, mHp=mHp, sba=sba, tb=tb, m122=m122, l6=l6, l7=l7)
                                    a.update(CORE_SM[n % 3])
                                    a.update(run=CORE_CFG[n % 4][0], force=CORE_CFG[n % 4][1])
                                    n += 1
                                    yield a


def lattice(quick):
    """deterministic list of compact items (basis, values in DIMS order); duplicates removed.
    quick: <= 2 deviations over all dimensions (incl. the SM input);
    thorough: <= 3 deviations over the non-SM dimensions + <= 2 over all dimensions."""
    seen, items, sizes = set(), [], []

    def add(a, basis):
        it = (basis, tuple(a[d] for d in (DIMS_M if basis == "M" else DIMS_G)))
        h = hash(it)
        if h in seen:
            return
        seen.add(h)
        items.append(it)

    for a in core_product(not quick):
        add(a, "M")
    sizes.append(("M-core-product", len(items), len(items)))
    n0 = len(items)
    for a in boundary_product():
        add(a, "M")
    sizes.append(("M-boundary-families x force_output x running_couplings", len(items) - n0, len(items) - n0))
    plans = [("all", 2)] if quick else [("non-SM", 3), ("all", 2)]
    for basis, dims0, dims, alpha, bases in (("M", DIMS_M0, DIMS_M, ALPHA_M, BASES_M), ("G", DIMS_G0, DIMS_G, ALPHA_G, BASES_G)):
        for b in bases:
            for which, dmax in plans:
                n0 = len(items)
                dd = dims if which == "all" else dims0
                for a, combo in T.devprod(dd, b, alpha, dmax):
                    add(a, basis)
                sizes.append(("%s/%s/d<=%d" % (basis, which, dmax), T.devprod_size(dd, b, alpha, dmax), len(items) - n0))
    return items, sizes


def run(ctx):
    T.exe()
    dm = dg = 2 if ctx.quick else 3
    items, sizes = lattice(ctx.quick)
    ctx.note("lattice", [{"part": b, "enumerated": n, "new": m} for b, n, m in sizes])
    # strided chunks: every harness process sees all parts of the lattice, i.e. models with
    # different SM inputs in varying order; each chunk is also run in reversed order (bitwise equal)
    chunks = T.strided_chunks(items, 400)
    tot = dict(n=0, thrown=0, illcond=0, massless_tachyon=0, forced_reruns=0, forced_problem=0, passes=0)
    worst, exc = {}, {}
    min_smsets = None
    with mp.Pool(min(16, os.cpu_count() or 4)) as pool:
        for ch, o in zip(chunks, pool.imap(evaluate_compact, chunks)):
            min_smsets = len(o["smsets"]) if min_smsets is None else min(min_smsets, len(o["smsets"]))
            for k in ("n", "thrown", "illcond", "massless_tachyon", "forced_reruns", "forced_problem", "passes"):
                tot[k] += o[k]
            for k, v in o["worst"].items():
                worst[k] = max(worst.get(k, 0.0), v)
            for k, v in o["exc"].items():
                exc[k] = exc.get(k, 0) + v
            for key in sorted(o["keys"], key=repr):
                ctx.nontrivial(key)
            for key, what, data in o["fails"]:
                ctx.fail(key, what, data)
            if ctx.out_of_time("lattice"):
                break
        # object state (set_tan_beta sequences)
        sitems = list(state_items(1 if ctx.quick else 2))
        nstate, stale = 0, {}
        for o in pool.imap(evaluate_state, T.strided_chunks(sitems, 60)):
            nstate += o["n"]
            tot["passes"] += o["evals"]
            for k, v in o["worst"].items():
                worst[k] = max(worst.get(k, 0.0), v)
            for k, v in o["stale"].items():
                stale[k] = stale.get(k, 0) + v
            for key in sorted(o["keys"], key=repr):
                ctx.nontrivial(key)
            for key, what, data in o["fails"]:
                ctx.fail(key, what, data)
    ctx.note("state_variants_checked", nstate)
    ctx.note("state_stale_higgs_sector_observations", stale)
    print("[C08] object state: %d constructed points x 5 set_tan_beta sequences = %d variants; not re-solved Higgs sector observed (observation, outside the statement of C08): %s" % (len(sitems), nstate, stale))
    ctx.evals(tot["passes"])
    for it in items[:2] + items[len(items) // 2:len(items) // 2 + 2] + items[-2:]:
        ctx.sample(brief(from_compact(it)))
    ctx.note("min_distinct_SM_inputs_per_harness_process", min_smsets)
    print("[C08] %d harness processes per pass, each with >= %d distinct SM input sets, each run forward and reversed (bitwise compared)" % (len(chunks), min_smsets or 0))
    if (min_smsets or 0) < 2:
        ctx.cap("a harness process saw only one SM input set")
    surv = 1.0 - (tot["thrown"] + tot["illcond"]) / max(1, tot["n"])
    print("[C08] lattice points %d (constructions %d), rejected by the constructor %d (%s), ill-conditioned (massless state) %d, checked %.1f%%"
          % (tot["n"], tot["passes"], tot["thrown"], exc, tot["illcond"], 100 * surv))
    print("[C08] refusals: gauge-basis tachyons %d (legitimate); mass-basis mh = 0 flagged tachyonic by rounding (pass 1-3) %d; every other refusal is a violation"
          % (exc.get("G:EPhysicalProblem", 0), tot["massless_tachyon"]))
    ctx.note("mass_basis_mh=0_refused_as_tachyon_by_rounding", tot["massless_tachyon"])
    ctx.note("refused_points_rerun_with_force_output", tot["forced_reruns"])
    ctx.note("force_output_models_with_problem_flag", tot["forced_problem"])
    print("[C08] configuration: running_couplings and force_output are lattice dimensions; %d refused points re-run with force_output (must reproduce their input); %d force_output models carried a problem flag"
          % (tot["forced_reruns"], tot["forced_problem"]))
    print("[C08] worst error/tolerance per clause: %s" % {k: float("%.3g" % v) for k, v in sorted(worst.items())})
    if surv < 0.5:
        ctx.cap("less than half of the lattice accepted by the constructor")
    ctx.assumptions += [
        "tolerance on squared masses 2e-10 x m^2_max absolute (= 1e-10 x m^2_max/m^2 relative on the mass), m^2 over {mh,mH,mA,mH+,MW,MZ}; on the angle 1e-10 x m^2_max/m^2_min(>0) x (mH^2+mh^2)/(mH^2-mh^2)",
        "thdm::Config (running_couplings, force_output) is part of the alphabet: both are deviation dimensions, the core product cycles through all four settings, the boundary families (mh = 0, mh == mH, sin(beta-alpha) = +-1, degenerate and extreme masses, extreme tan(beta)) are run for all four; every point refused with EPhysicalProblem is constructed again with force_output and must reproduce its input; no reported value may be non-finite",
        "every public get_* accessor of THDM / THDM_mass_eigenstates / THDM_parameters (enumerated from the headers at run time; InfraError if the harness does not read one) is read through all overloads: array == indexed and matrix == element getter bitwise, derived getters (v_sqr, sin/cos/tan beta, beta, eta, sin/cos(beta-alpha), LambdaFive, LambdaSixSeven, v1, v2, g1, g2, EWSB equations) consistent to a few ulp, print() == getters to 6 digits (every 8th point); the oracle also runs on the array-getter values when they differ",
        "a constructor exception is accepted only as EPhysicalProblem on a gauge-basis point (tachyon) or on a mass-basis point with mh = 0 (rounding of the massless state); any other refusal of a lattice point is a violation",
        "angle clause skipped at exactly mh == mH; (sin,cos) ~ (-sin,-cos) identified when |cos(beta-alpha)| < 1e-7",
        "lambda_1..5 after the round trip compared with tolerance 1e-10 x sum of |terms| of the closed-form inversion",
        "SM input (MW, MZ, alpha_em(MZ), alpha_s, nine fermion masses, m_hSM) is a lattice dimension; the 'SM input' a model is compared with is what was sent (echo of model.get_sm() checked exactly)",
        "every harness process evaluates models with different SM inputs; the first pass of every process is repeated in reversed order and must agree bitwise",
        "fermion masses: 1e-10 relative + 1e-13 (m_max + v max|Pi_f| in the general model) absolute (cancellation v1 Gamma_f + v2 Pi_f)"]
    return ctx.finish(
        "full product mh<=mH x mA x mH+ x sin(beta-alpha) x tan(beta) x m12^2 (thorough: x lambda_6 x lambda_7; SM input cycling over 3 sets) + all assignments with <= %d (mass basis, 6 base points) / <= %d (gauge basis, 3 base points) deviating dimensions (SM-input dimensions: <= 2); "
        "each accepted point: mass basis -> gauge basis from reported lambda_i -> mass basis from reported spectrum (gauge lattice: gauge -> mass); "
        "distinct = (basis, Yukawa type, CKM, sign sin(beta-alpha), tan(beta) <,=,> 1, quadrant of alpha_h, mh==mH, mA<mh, mH+<mh, SM input non-default)" % (dm, dg),
        {"lattice_points": tot["n"], "constructions": tot["passes"], "rejected_by_constructor": tot["thrown"],
         "rejected_classes": exc, "mass_basis_mh0_rounding_tachyons": tot["massless_tachyon"], "skipped_massless_state": tot["illcond"], "fraction_checked": round(surv, 4),
         "worst_err_over_tol": {k: float("%.3g" % v) for k, v in sorted(worst.items())}})


def replay(ctx, path):
    T.exe()
    d = json.load(open(path))
    c = d["data"]["case"]
    cases = [d["data"]["other"], c] if d["data"].get("other") else [c]
    o = evaluate_state([dict(c, post=[])]) if c.get("post") else evaluate_points(cases)
    import fnmatch
    fails = [f for f in o["fails"] if f[0] == d["key"] or not any(fnmatch.fnmatchcase(f[0], fd["key"]) for fd in ctx.findings)]
    hit = [f for f in fails if f[0] == d["key"]] or fails
    for key, what, _ in hit:
        print("replay: [%s] %s" % (key, what))
    if hit:
        print("VIOLATION property=C08 replay=%s" % path)
        return 1
    print("replay: holds now (worst err/tol %s)" % o["worst"])
    return 0
