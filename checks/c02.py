"""C02 - multi-variable loop functions: definition, symmetry, homogeneity, degenerate limits.

Bounded exhaustive exploration of Fa, Fb, Iabc, Phi, lambda_2, FPZ, FSZ, FCWl, f_CSd, f_CSu,
FCWu, FCWd (DESIGN.md 3/C02):

* product log lattices with all pairwise (squared-mass) ratios in [1e-6,1e6], degenerate
  families (pairs / triples of arguments at x(1+d), arguments at 1(1+d) and 1/4(1+d),
  d in {0, +-1e-13 .. +-1e-1}), exact zeros, the lambda^2 = 0 curves, the physical quark /
  lepton mass combinations over a charged-Higgs mass lattice;
* one-parameter lines (axes through lattice points, diagonals x = r y, near-degenerate
  diagonals x = y(1+d), mass paths): neighbouring seeds with different sancov branch-path
  signature are bisected to adjacent doubles, all doubles within +-W ulp are evaluated;
* window edges: every located boundary on a near-degenerate line (offset <= 0.3 from another argument / 1 / 1/4)
  is probed by the oracle on both sides and at 0.5, 0.8, 0.99 of its offset, whatever the width of the window;
* overall scale: homogeneous functions are re-evaluated at 2^e, e = -120 .. 120 (only ratios are bounded);
* oracles: (i) mpmath transcription of the defining expressions (oracle/ff_ref.py),
  |impl - ref| <= tol |ref| + tol * scale(largest argument); (ii) exact documented values for
  zero arguments; (iii) permutation symmetry and (iv) homogeneity on EVERY evaluated point
  (evaluated inside the harness, `xfset`), (v) no jump across any located regime boundary.
"""
import math
import multiprocessing as mp
import os
import subprocess
import sys

import fxrun
import harvest
from core import InfraError, hexf, unhex

sys.path.insert(0, os.path.join(os.path.dirname(os.path.dirname(os.path.abspath(__file__))), "oracle"))

META = dict(
    level="model_checking",
    technique="regime-graph exploration of multi-argument functions: product lattices + degenerate families + "
              "branch-path-signature bisection along axis/diagonal lines, mpmath definition oracle, exact "
              "permutation/homogeneity relations on every evaluated point",
    text="Every function is evaluated on a finite cover of its domain (product log lattices with pairwise ratios in "
         "[1e-6,1e6], near-degenerate pairs/triples at relative offsets 1e-13..1e-1, arguments next to 1 and 1/4, "
         "exact zeros, lambda^2=0 curves, physical quark/lepton masses over a charged-Higgs lattice) and, along every "
         "axis line and diagonal, on all doubles within +-W ulp of every change of evaluation regime located by "
         "bisecting sancov signatures. Permutation symmetry (bitwise for the sorting functions), homogeneity under "
         "2^j (exact) and 3, 1e3, 1e-3 are checked on every evaluated point; the mpmath definition is compared on "
         "all lattice/degenerate/boundary points of a documented thinning. Exhaustive within lattice density K, "
         "offset set and ulp width W; says nothing about doubles strictly between lattice points inside one regime.",
    note="trusted: mpmath polylog/log/sqrt (>=30 digits, failures re-derived at +30 digits), the transcription of "
         "math/ffunctions.m in oracle/ff_ref.py (validated against the Davydychev-Tausk and Feynman-parameter "
         "integrals for Phi, the defining integral of Iabc, limits of the difference quotients), clang sancov "
         "(only used to locate boundaries)",
    design_ref="3/C02")

HARNESSES = [(("fx", "cov", ["fx.cpp"]), {})]

ANCHOR = ["src/gm2_ffunctions.cpp"]
TWO = ["Fa", "Fb", "FPZ", "FSZ", "FCWl"]
QUOT = {"FPZ", "FSZ", "FCWl", "FCWu", "FCWd"}        # difference quotients: gap (0,1e-3) belongs to C11
THREE = ["Iabc", "Phi", "lambda_2"]
CS = ["f_CSd", "f_CSu"]
FCW = ["FCWu", "FCWd"]
ALL = TWO + THREE + CS + FCW
TOL = {f: 1e-6 for f in ALL}
TOL["Fa"] = TOL["Fb"] = 1e-4
DEG = {"Iabc": -2, "Phi": 1, "lambda_2": 2}
SORTING = {"Fa", "Fb", "Iabc", "Phi", "FPZ", "FSZ", "FCWl"}     # implementation sorts its arguments: bitwise symmetry
GAP = 1e-3
D = [0.0] + [s * 10.0 ** -k for k in range(13, 0, -1) for s in (1.0, -1.0)]
D8 = [s * 10.0 ** (-k / 8.0) for k in range(8, 49) for s in (1.0, -1.0)]      # 8 offsets per decade, 1e-1 .. 1e-6
EOFF = [s * e for e in (1e-3, 1e-2, 1e-1) for s in (1.0, -1.0)]               # base points next to 1, 1/4, another argument
SCALES_E = [-120, -60, -52, -40, -20, 20, 40, 60, 120]                        # overall scales 2^e (exact rescaling)
CHEAP = {"Fa", "Fb", "Iabc", "lambda_2"}                                      # oracle cost < 0.3 ms
INSIDE = (0.5, 0.8, 0.99)                                                     # fractions of a boundary offset probed just inside it
DQ = [0.0] + [s * 10.0 ** -k for k in (13, 10, 7, 5, 3, 1) for s in (1.0, -1.0)]     # quick tier: offsets sent to the oracle
QU, QD = 2.0 / 3.0, -1.0 / 3.0
CHARGES = [(QU, QD), (1.0, 1.0), (0.0, -1.0)]
SQRT_EPS = math.sqrt(10 * 2.0 ** -52)               # Iabc: is_zero(max^2, 10 eps)
RELK = 1e-12                                         # tolerance of the rounded (non power-of-two) relations


# ------------------------------------------------------------------ domain, scales, classes

def nargs_sc(fn):
    """number of leading arguments that are (squared) mass ratios / masses"""
    return {"f_CSd": 2, "f_CSu": 2, "FCWu": 4, "FCWd": 4}.get(fn, 3 if fn in THREE else 2)


def scale(fn, a):
    """natural scale of the largest argument (absolute floor = tol * scale)"""
    m = max(abs(v) for v in a[:nargs_sc(fn)])
    if fn == "Phi":
        return m
    if fn == "lambda_2":
        return m * m
    if fn == "Iabc":
        return 1.0 / (m * m) if m > 0 else 0.0
    if fn in ("Fa", "Fb"):
        return 0.0        # positive, monotonic, no zero on the domain: the natural scale is the value itself
    return min(1.0, m)


def _ratio_ok(vals, lo=1e-6 * (1 - 1e-9), hi=1e6 * (1 + 1e-9)):
    mn, mx = min(vals), max(vals)
    return mn > 0 and lo <= mn / mx and mx / mn <= hi


def domain(fn, a):
    """'ok' : inside the quantifier's domain for the definition oracle; 'zero' : some argument exactly 0;
    'gap': difference quotient with 0 < |1 - x/y| < 1e-3 (C11); 'out': outside (ratios beyond 1e+-6)."""
    v = a[:nargs_sc(fn)]
    if any(not (x >= 0) or math.isinf(x) for x in v):
        return "out"
    if any(x == 0 for x in v):
        return "zero"
    if fn in THREE:
        w = [x * x for x in v] if fn == "Iabc" else list(v)
        return "ok" if _ratio_ok(w) else "out"
    if fn in FCW:
        xu, xd, yu, yd = v
        if not (xu == yu and xd == yd) and (abs(xu - yu) < GAP * max(xu, yu) or abs(xd - yd) < GAP * max(xd, yd)):
            return "gap"
        return "ok"
    if not (_ratio_ok(v) and all(1e-6 * (1 - 1e-9) <= x <= 1e6 * (1 + 1e-9) for x in v)):
        return "out"
    if fn in QUOT and v[0] != v[1] and abs(v[0] - v[1]) < GAP * max(v):
        return "gap"
    return "ok"


LARGE = {"f_CSd": 300.0, "f_CSu": 500.0, "FCWl": 150.0}
QDRT_EPS = (10 * 2.0 ** -52) ** 0.25            # luv(): switch to the small-u series l0v / lv0


def _phi_class(x, y, z):
    """classes of the two Phi defects found on the unchanged tree (see findings.d/C02.json):
    'small-u-series': min/max < (10 eps)^(1/4) and u/(1-v)^2 > 0.01  (l0v/lv0 expansion parameter not small);
    (f_CSd, f_CSu, FCWu, FCWd additionally) 'near-lambda0': |lambda^2(xu,xd,1)|/max^2 < 1e-6 outside the
    window of phi_over_y() (Phi/lambda^2 evaluated as a 0/0-like quotient)."""
    s = sorted((x, y, z))
    if s[0] <= 0:
        return None
    u, v = s[0] / s[2], s[1] / s[2]
    if u < QDRT_EPS * 1.0001 and v < 1 and u > 0.01 * (1 - v) ** 2:
        return "small-u-series"
    return None


def _near_lambda0(x, y, z):
    s = sorted((x, y, z))
    if s[0] <= 0:
        return False
    u, v = s[0] / s[2], s[1] / s[2]
    return abs((1 - u - v) ** 2 - 4 * u * v) < 1e-6


def _in_phi_over_y_window(xu, xd):
    """the two tests of phi_over_y() (gm2_ffunctions.cpp) for 'y == 0': inside, the limit formula is used"""
    if xd <= 0:
        return False
    s = math.sqrt(xd)
    ixd = 1 / xd                      # same operation order as the library: the edge is compared bit for bit
    return abs((xu - 1) * ixd + 2 / s - 1) < 1e-8 or abs((xu - 1) * ixd - 2 / s - 1) < 1e-8


def _cs_class(xu, xd):
    # phi_over_y()'s window is relative to xd: too narrow for small xd (0/0-like quotient right outside),
    # too wide for xd >~ 100 (the value on the curve is used up to 1e-8 xd away from it)
    if _near_lambda0(xd, xu, 1.0) and (not _in_phi_over_y_window(xu, xd) or max(xu, xd) >= 100.0):
        return "near-lambda0"
    return _phi_class(xd, xu, 1.0)


def acc_key(fn, a):
    """narrow failure class of an accuracy failure (known-finding patterns match these)"""
    if fn in ("Fa", "Fb"):
        x, y = a[:2]
        if x != y and abs(x - y) < 1.001e-5 * (1 + max(x, y)) and min(x, y) < 1e-3:
            return "%s:acc:near-equal-window,min<1e-3" % fn
    if fn in ("FPZ", "FSZ"):
        if any(0 < abs(v - 0.25) < 1e-6 for v in a[:2]):
            return "%s:acc:arg-within-1e-6-of-1/4" % fn
    if fn == "Iabc" and max(a[:3]) < SQRT_EPS:
        return "Iabc:acc:max<4.8e-8"
    if fn == "Phi":
        c = _phi_class(*a[:3])
        if c == "small-u-series":
            return "Phi:acc:" + c
    if fn in CS:
        c = _cs_class(a[0], a[1])
        if c:
            return "%s:acc:%s" % (fn, c)
    if fn in FCW:
        c = _cs_class(a[0], a[1]) or _cs_class(a[2], a[3])
        if c:
            return "%s:acc:%s" % (fn, c)
        if a[0] == a[2] and a[1] == a[3]:
            return "%s:acc:equal-scales" % fn
    if fn in LARGE and max(a[:2]) >= LARGE[fn]:
        return "%s:acc:max>=%g" % (fn, LARGE[fn])
    return "%s:acc" % fn


def zero_expect(fn, a):
    """documented value when an argument is exactly zero: None (nothing documented, not claimed),
    ('exact', v) or ('rel', mp-expression-name, tol).  Sources: explicit returns / comments in
    gm2_ffunctions.cpp, test_ffunctions.cpp 'limits -> 0', math/ffunctions.m."""
    z = [i for i, v in enumerate(a[:nargs_sc(fn)]) if v == 0]
    if not z:
        return None
    if fn in ("FPZ", "FSZ", "FCWl"):
        return ("exact", 0.0)
    if fn in ("Fa", "Fb"):
        return ("exact", 0.0) if len(z) == 2 else None
    if fn == "f_CSd":
        return ("exact", 0.0) if a[1] == 0 else None
    if fn == "Iabc":
        if len(z) >= 2:
            return ("exact", 0.0)
        return ("rel", "Iabc", 1e-14)
    if fn == "lambda_2":
        return ("rel", "lambda_2", 1e-14)
    return None


# ------------------------------------------------------------------ transforms (relations)

PERM3 = [(0, 2, 1), (1, 0, 2), (1, 2, 0), (2, 0, 1), (2, 1, 0)]


def transforms(fn, quick):
    """list of (perm, k) evaluated by the harness for every point of fn"""
    if fn in TWO:
        return [((1, 0), 1.0)]
    if fn in FCW:
        return [((2, 3, 0, 1, 4, 5), 1.0)]
    if fn in THREE:
        js = sorted(set(([-7, -1, 1, 7] if quick else [j for j in range(-20, 21) if j != 0]) + SCALES_E))
        t = [(p, 1.0) for p in PERM3]
        t += [((0, 1, 2), 2.0 ** j) for j in js]
        t += [((0, 1, 2), k) for k in (3.0, 1e3, 1e-3)]
        # combined permutation + scaling (every permutation at some extreme scale)
        t += [((2, 0, 1), 2.0 ** 9), ((1, 2, 0), 3.0), ((2, 0, 1), 2.0 ** -60), ((1, 0, 2), 2.0 ** 60),
              ((2, 1, 0), 2.0 ** -120), ((0, 2, 1), 2.0 ** 120), ((1, 2, 0), 2.0 ** -52)]
        return t
    return []


def xfset_text(fn, tr):
    return "xfset %s %d %d %s" % (fn, DEG.get(fn, 0), len(tr),
                                  " ".join(" ".join(str(i) for i in p) + " " + hexf(k) for p, k in tr))


def _ulp(x):
    return math.ulp(abs(x)) if math.isfinite(x) and x != 0 else 5e-324


def judge_relation(fn, a, base, p, k, v):
    """returns None if the relation f(perm(a)*k) = k^deg f(a) holds, else (kind, dev, allowed).
    Sorting functions: permutations bitwise; k = 2^j: rescaling is exact, <= 4 ulp; functions that do not
    sort (lambda_2, FCWu, FCWd): 1e-12 (|f| + scale); k in {3, 1e3, 1e-3}: the scaled arguments are rounded
    and may take another branch, the relation is implied (and enforced) only to 2 tol (|f| + scale)."""
    deg = DEG.get(fn, 0)
    m, e = math.frexp(k)
    pow2 = (m == 0.5)
    ident = all(i == j for i, j in enumerate(p))
    if k == 1.0:
        w = v
    elif pow2:
        w = math.ldexp(v, -deg * (e - 1))
    else:
        w = v / k ** deg
    if (math.isnan(w) and math.isnan(base)) or w == base:
        return None
    dev = abs(w - base) if (math.isfinite(w) and math.isfinite(base)) else math.inf
    kind = "perm" if k == 1.0 else ("hom2" if pow2 else "homk")
    if k == 1.0 or pow2:
        if fn in SORTING or ident:
            allowed = 0.0 if k == 1.0 else 4 * _ulp(base)
        else:
            if fn in FCW and domain(fn, a) == "gap":
                return None                    # asymmetric shift window |1 - xu/yu| < 1e-8 lies in C11's gap
            allowed = RELK * abs(base) + RELK * scale(fn, a)
    else:
        allowed = 2 * TOL[fn] * (abs(base) + scale(fn, a))
    return None if dev <= allowed else (kind, dev, allowed)


def rel_key(fn, kind, a, k, perm):
    if fn == "Iabc" and kind in ("hom2", "homk") and min(max(a), max(a) * k) < SQRT_EPS:
        return "Iabc:hom:max<4.8e-8"
    if fn == "lambda_2" and (a[perm[2]] == 0 or a[2] == 0):
        return "lambda_2:zero:z=0:" + kind
    return "%s:%s" % (fn, kind)


# ------------------------------------------------------------------ harness jobs (run in worker processes)

def _fh(s):
    try:
        return float.fromhex(s)
    except ValueError:
        return unhex(s)


def fx_job(job):
    """job = (exe, fn, na, setup_text, tr, cmds[(label, text)], W, keep_nd)
    Runs one harness process, parses it, judges the relations on every point, thins the +-W ulp
    neighbourhoods to ulp distances in keep_nd.  Returns a compact dict."""
    exe, fn, na, setup, tr, cmds, W, keep_nd, oset = job
    import tempfile
    import time
    tj0 = time.time()
    inp = (setup + "\n" if setup else "") + "\n".join(c[1] for c in cmds) + "\n"
    with tempfile.TemporaryFile("w+") as fin:
        fin.write(inp)
        fin.seek(0)
        del inp
        proc = subprocess.Popen([exe], stdin=fin, stdout=subprocess.PIPE, stderr=subprocess.DEVNULL, text=True, bufsize=1 << 20)
        try:
            res = _parse_fx(proc.stdout, fn, na, 1 if setup else 0, tr, cmds, W, keep_nd, oset)
        finally:
            proc.stdout.close()
            rc = proc.wait()
    if rc != 0:
        return {"error": "fx harness exit %d (%s)" % (rc, fn)}
    if "error" not in res:
        res["t"] = (time.time() - tj0, 0.0, len(cmds), cmds[0][0])
    return res


def _parse_fx(stream, fn, na, nsetup, tr, cmds, W, keep_nd, oset):
    import time
    tj1 = time.time()
    seeds = {}            # args -> (out, sig, label)   only points wanted by the oracle / zero arguments / physical points
    seen = set()
    domc = {}
    nonfin = []
    bds = []              # (label, ta, tb, sa, sb, [(nd, side, args, out, sig)])
    caps, relfails, sigs = [], [], set()
    npts = nrel = nmis = 0
    ci = -nsetup
    cur_bd, pos = None, 0
    for ln in stream:
        if len(ln) < 2:
            continue
        c0 = ln[0]
        if c0 == "P":
            tk = ln.split()
            args = tuple(_fh(v) for v in tk[3:3 + na])
            out = _fh(tk[3 + na])
            sig = tk[4 + na]
            npts += 1
            sigs.add(sig)
            # relations
            if tr:
                nrel += len(tr)
                nx = int(tk[6 + na])
                for j in range(nx):
                    idx = int(tk[7 + na + 2 * j]); v = _fh(tk[8 + na + 2 * j])
                    perm, k = tr[idx]
                    r = judge_relation(fn, args, out, perm, k, v)
                    if r is not None:
                        nmis += 1
                        if len(relfails) < 2000:
                            relfails.append((r[0], args, out, idx, v, r[1], r[2]))
            tag = tk[1]
            if tag == "S":
                h = hash(args)
                if h not in seen:
                    seen.add(h)
                    label = cmds[ci][0]
                    dm = domain(fn, args)
                    domc[dm] = domc.get(dm, 0) + 1
                    if dm == "ok" and not math.isfinite(out) and args not in oset and len(nonfin) < 500:
                        nonfin.append((args, out))
                    if args in oset or dm == "zero" or label == "phys":
                        seeds[args] = (out, sig, label)
                cur_bd = None
            else:
                if cur_bd is not None:
                    # neighbourhood is printed in order ia-W .. ib+W  (ib = ia+1)
                    nd = W - pos if pos < W else (0 if pos <= W + 1 else pos - (W + 1))
                    side = 0 if pos <= W else 1
                    if nd in keep_nd:
                        cur_bd[5].append((nd, side, args, out, sig))
                    pos += 1
        elif c0 == "B":
            tk = ln.split()
            cur_bd = (cmds[ci][0], _fh(tk[1]), _fh(tk[2]), tk[3], tk[4], [])
            bds.append(cur_bd)
            pos = 0
        elif c0 == "C" and ln.startswith("CAP"):
            caps.append(cmds[ci][0] + ":" + ln.split()[1])
        elif c0 == "E":
            if ln.startswith("ERR"):
                return {"error": "fx harness: " + ln}
            ci += 1
            cur_bd = None
    if ci != len(cmds):
        return {"error": "fx harness: %d results for %d commands (%s)" % (ci, len(cmds), fn)}
    return {"fn": fn, "seeds": seeds, "bds": bds, "caps": caps, "relfails": relfails, "sigs": sigs,
            "npts": npts, "nrel": nrel, "nmis": nmis, "domc": domc, "nonfin": nonfin}


# ------------------------------------------------------------------ oracle workers

def _mp_zero(fn, a):
    from mpmath import mpf, log
    v = [mpf(x) for x in a]
    if fn == "lambda_2":
        x, y, z = v
        return x * x + y * y + z * z - 2 * x * y - 2 * y * z - 2 * z * x
    nz = sorted(x * x for x in v if x != 0)
    b, c = nz
    if b == c:
        return 1 / b
    return log(b / c) / (b - c)


def oracle_chunk(chunk):
    """chunk: list of tasks (group, args, [(fn, out, extra)]).  Returns (fails, worst, n)
    fails: (fn, args, out, ref, err, allowed, kind)"""
    import mpmath
    from mpmath import mpf
    import ff_ref
    fails, worst, n = [], {}, 0

    def refs(group, args, extra):
        if group == "fCS":
            r = ff_ref.ref_multi("fCS", list(args) + [q for c in CHARGES for q in c], extra)
            out = {}
            for (d, u), (qu, qd) in zip(r, CHARGES):
                out[("f_CSd", qu, qd)] = d
                out[("f_CSu", qu, qd)] = u
            return out
        if group == "FCW":
            u, d = ff_ref.ref_multi("FCW", args, extra)
            return {"FCWu": u, "FCWd": d}
        if group == "zero":
            with ff_ref.prec(40 + extra):
                return {None: +_mp_zero(args[0], args[1:])}
        return {group: ff_ref.ref_multi(group, args, extra)}

    for group, args, items in chunk:
        try:
            rr = refs(group, args, 0)
            rr2 = None
            for fn, out, extra in items:
                n += 1
                if group == "fCS":
                    ref = rr[(fn, extra[0], extra[1])]
                    full = tuple(args) + tuple(extra)
                elif group == "zero":
                    ref = rr[None]; full = tuple(args[1:])
                elif isinstance(extra, tuple) and extra[0] == "k":
                    # tuple scaled by 2^e: the definition is homogeneous of degree DEG, 2^(deg e) is exact
                    ref = rr[fn] * mpf(2) ** (DEG[fn] * extra[1]); full = tuple(math.ldexp(x, extra[1]) for x in args)
                else:
                    ref = rr[fn]; full = tuple(args)
                if group == "zero":
                    tol, sc, kind = extra, scale(fn, full), "zero-limit"
                    allowed = tol * abs(ref) + tol * sc
                else:
                    tol, sc, kind = TOL[fn], scale(fn, full), "accuracy"
                    allowed = tol * abs(ref) + tol * sc
                if not math.isfinite(out):
                    fails.append((fn, full, out, float(ref), math.inf, float(allowed), "nonfinite" if kind == "accuracy" else kind))
                    continue
                err = abs(mpf(out) - ref)
                if err > allowed:
                    # confirm with 30 more digits before reporting (oracle precision check)
                    if rr2 is None:
                        rr2 = refs(group, args, 30)
                    ref2 = rr2[(fn, extra[0], extra[1])] if group == "fCS" else (rr2[None] if group == "zero" else rr2[fn])
                    if group not in ("fCS", "zero") and isinstance(extra, tuple) and extra[0] == "k":
                        ref2 = ref2 * mpf(2) ** (DEG[fn] * extra[1])
                    if abs(ref2 - ref) > mpf(10) ** -10 * (abs(ref2) + mpf(sc)):
                        fails.append((fn, full, out, "oracle precision: %s vs %s" % (mpmath.nstr(ref, 20), mpmath.nstr(ref2, 20)), 0.0, 0.0, "oracle"))
                        continue
                    ref = ref2
                    err = abs(mpf(out) - ref)
                    allowed = tol * abs(ref) + tol * sc
                    if err > allowed:
                        fails.append((fn, full, out, float(ref), float(err), float(allowed), kind))
                        continue
                if kind == "accuracy":
                    den = abs(ref) + mpf(sc)
                    rel = float(err / den) if den != 0 else float(err)
                    if rel > worst.get(fn, 0.0):
                        worst[fn] = rel
        except Exception as e:      # oracle failure is an infrastructure problem, reported loudly
            fails.append((group, tuple(args), 0.0, "oracle-exception:%r" % (e,), 0.0, 0.0, "oracle"))
    return fails, worst, n


# ------------------------------------------------------------------ command generators

def _u(seq):
    return sorted(set(seq))


def _cmd_pts(fn, label, pts):
    return (label, "pts %s %d %s" % (fn, len(pts), " ".join(hexf(v) for p in pts for v in p)))


def _cmd_line(fn, label, W, base, coef, ts):
    ts = _u(ts)
    return (label, "line %s %d %s %s %d %s" % (fn, W, " ".join(hexf(v) for v in base), " ".join(hexf(v) for v in coef),
                                                 len(ts), " ".join(hexf(v) for v in ts)))


def _line_args(base, coef, t):
    return tuple(b if c == 0 else c * t for b, c in zip(base, coef))


class Plan:
    """commands for one function + the set of argument tuples on which the definition oracle is wanted"""

    def __init__(self, fn, W):
        self.fn, self.W = fn, W
        self.cmds = []
        self.oset = set()
        self.scaled = {}          # scaled tuple -> (lattice tuple, e): tuple * 2^e, oracle = 2^(deg e) * definition(lattice tuple)
        self.nlines = 0

    def pts(self, label, pts, oracle=True):
        pts = list(dict.fromkeys(pts))
        if not pts:
            return
        self.cmds.append(_cmd_pts(self.fn, label, pts))
        if oracle:
            self.oset.update(pts)

    def line(self, label, base, coef, ts, ots=()):
        """ts: all seeds; ots: seeds on which the oracle is wanted"""
        ts = _u(list(ts) + list(ots))
        if len(ts) < 1:
            return
        # the harness caps a line command at 64 boundaries: long seed lists are split into overlapping segments
        seg = 96
        for i in range(0, max(1, len(ts) - 1), seg):
            self.cmds.append(_cmd_line(self.fn, label, self.W, base, coef, ts[i:i + seg + 1]))
        self.nlines += 1
        for t in ots:
            self.oset.add(_line_args(base, coef, t))


def lat(K, lo, hi):
    return harvest.loglattice(K, lo, hi)


def plan_two(fn, K, W, lits, quick):
    P = Plan(fn, W)
    L = lat(K, -6, 6)
    ok = lambda x, y: 1e-6 * (1 - 1e-9) <= x / y <= 1e6 * (1 + 1e-9)
    ind = lambda x: 1e-6 * (1 - 1e-9) <= x <= 1e6 * (1 + 1e-9)
    P.pts("lattice", [(x, y) for x in L for y in L if ok(x, y)])
    P.pts("zero", [(0.0, 0.0)] + [(0.0, v) for v in L] + [(v, 0.0) for v in L])
    cen = (1.0, 0.25)
    Do = DQ if quick else D
    for c in cen:
        P.pts("centre", [(c * (1 + d1), c * (1 + d2)) for d1 in D for d2 in D], oracle=False)
        P.oset.update((c * (1 + d1), c * (1 + d2)) for d1 in Do for d2 in Do)
    censeeds = [c * (1 + d) for c in cen for d in D]
    cso = [c * (1 + d) for c in cen for d in Do]
    litseeds = [w for v in lits for w in harvest.ulps(v, 1)]
    dec = set(lat(1, -6, 6))
    for v in L:
        lt = [t for t in L if ok(t, v)]
        pair = [v * (1 + d) for d in D if ind(v * (1 + d))]
        pairo = [v * (1 + d) for d in Do if ind(v * (1 + d))]
        extra = [t for t in censeeds + litseeds if ind(t) and ok(t, v)]
        ots = pairo + (extra if (v in dec and not quick) else [t for t in cso if ok(t, v)] if v in dec else [])
        P.line("axis0", (0.0, v), (1.0, 0.0), lt + extra + pair, ots)
        P.line("axis1", (v, 0.0), (0.0, 1.0), lt + extra + pair, pairo if not quick else ())
    # near-degenerate offset lines through base points NEXT TO 1, 1/4 and through the decade points: offsets on
    # 8 points per decade; the window edges of the y ~ x / x ~ 1 expansions are located between them by bisection
    for v in [c * (1 + e) for c in cen for e in EOFF] + sorted(dec):
        if not ind(v):
            continue
        off = [v * (1 + d) for d in D + D8 if ind(v * (1 + d))]
        offo = off if fn in CHEAP else [v * (1 + d) for d in Do if ind(v * (1 + d))]
        other = [t for t in L + censeeds if ind(t) and ok(t, v)]
        P.line("off0", (0.0, v), (1.0, 0.0), off + other, offo)
        P.line("off1", (v, 0.0), (0.0, 1.0), off + other, ())
    for d in D:
        ts = [t for t in L + censeeds + litseeds if ind(t) and ind(t * (1 + d))]
        ots = [t for t in L + cso if ind(t) and ind(t * (1 + d))] if d in Do else ()
        P.line("diag", (0.0, 0.0), (1.0, 1 + d), ts, ots)
        if d != 0:
            P.line("diag", (0.0, 0.0), (1 + d, 1.0), ts, ())
    for j in range(-6 * K, 6 * K + 1):
        if j == 0:
            continue
        r = 10.0 ** (j / K)
        ts = [t for t in L if ind(r * t)]
        P.line("rdiag", (0.0, 0.0), (1.0, r), ts, ())
    return P


def plan_cs(fn, K, W, lits, quick):
    P = Plan(fn, W)
    L = lat(K, -6, 6)
    ok = lambda x, y: 1e-6 * (1 - 1e-9) <= x / y <= 1e6 * (1 + 1e-9)
    ind = lambda x: 1e-6 * (1 - 1e-9) <= x <= 1e6 * (1 + 1e-9)
    ch = CHARGES[:2] if quick else CHARGES
    q = (QU, QD)
    for c in ch:
        P.pts("lattice", [(x, y) + c for x in L for y in L if ok(x, y)])
    P.pts("zero", [(0.0, 0.0) + q] + [(0.0, v) + q for v in L] + [(v, 0.0) + q for v in L])
    cen = (1.0, 0.25)
    Do = DQ if quick else D
    for c in cen:
        P.pts("centre", [(c * (1 + d1), c * (1 + d2)) + q for d1 in D for d2 in D], oracle=False)
        P.oset.update((c * (1 + d1), c * (1 + d2)) + q for d1 in Do for d2 in Do)
    censeeds = [c * (1 + d) for c in cen for d in D]
    cso = [c * (1 + d) for c in cen for d in Do]
    litseeds = [w for v in lits for w in harvest.ulps(v, 1)]
    dec = set(lat(1, -6, 6))
    half = set(L[::2])
    # lambda^2(xu, xd, 1) = 0  <=>  sqrt(xu) = |1 +- sqrt(xd)|  (phi_over_y switches to its limit formula)
    for v in L:
        s = math.sqrt(v)
        fc = lambda ds: [t for t in [(1 + sg * s) ** 2 * (1 + d) for sg in (1.0, -1.0) for d in ds if (1 + sg * s) != 0]
                         if ind(t) and ok(t, v)]
        curve, curveo = fc(D), fc(Do)
        lt = [t for t in L if ok(t, v)]
        pair = [v * (1 + d) for d in D if ind(v * (1 + d))]
        pairo = [v * (1 + d) for d in Do if ind(v * (1 + d))]
        extra = [t for t in censeeds + litseeds if ind(t) and ok(t, v)]
        cs = [t for t in cso if ok(t, v)] if v in dec else []
        ots = pairo + curveo + cs if (not quick or v in half) else ()
        P.line("axis_xu", (0.0, v) + q, (1.0, 0.0, 0.0, 0.0), lt + extra + curve + pair, ots)
        P.line("axis_xd", (v, 0.0) + q, (0.0, 1.0, 0.0, 0.0), lt + extra + curve + pair, ots)
    for v in [c * (1 + e) for c in cen for e in EOFF]:
        off = [v * (1 + d) for d in D + D8 if ind(v * (1 + d))]
        offo = [v * (1 + d) for d in Do if ind(v * (1 + d))]
        other = [t for t in L + censeeds if ind(t) and ok(t, v)]
        P.line("off_xu", (0.0, v) + q, (1.0, 0.0, 0.0, 0.0), off + other, offo)
        P.line("off_xd", (v, 0.0) + q, (0.0, 1.0, 0.0, 0.0), off + other, offo if not quick else ())
    for d in D:
        ts = [t for t in L + censeeds + litseeds if ind(t) and ind(t * (1 + d))]
        ots = [t for t in (L if quick else L + cso) if ind(t) and ind(t * (1 + d))] if d in Do else ()
        P.line("diag", (0.0, 0.0) + q, (1.0, 1 + d, 0.0, 0.0), ts, ots)
        if d != 0:
            P.line("diag", (0.0, 0.0) + q, (1 + d, 1.0, 0.0, 0.0), ts, ots)
    for j in range(-6 * K, 6 * K + 1):
        if j == 0:
            continue
        r = 10.0 ** (j / K)
        ts = [t for t in L if ind(r * t)]
        P.line("rdiag", (0.0, 0.0) + q, (1.0, r, 0.0, 0.0), ts, ())
    return P


def plan_three(fn, K, W, lits, quick):
    """arguments are squared masses (Phi, lambda_2) or masses (Iabc: a = sqrt(s)), s on L(K,1e-3,1e3)"""
    P = Plan(fn, W)
    root = (fn == "Iabc")
    g = (lambda s: math.sqrt(s)) if root else (lambda s: s)
    S = lat(K, -3, 3)
    L = [g(s) for s in S]
    n = len(L)
    Dx = D if not root else [0.0] + [d / 2 for d in D[1:]]      # Iabc: offsets of the squared masses ~ d
    Do_ = DQ if quick else D
    Dxo = set(Do_ if not root else [0.0] + [d / 2 for d in Do_[1:]])
    # full lattice: relations on all; definition oracle on one representative per permutation class
    allp = [(x, y, z) for x in L for y in L for z in L]
    P.pts("lattice", allp, oracle=False)
    reps = [(L[i], L[j], L[k]) for i in range(n) for j in range(i, n) for k in range(j, n)]
    P.oset.update(reps)
    # overall scales 2^e of (a stride-thinned set of) the lattice representatives: the property bounds only the ratios
    stride = (2 if fn in CHEAP else 16) if quick else (1 if fn in CHEAP else 8)
    for pnt in reps[::stride]:
        for e in SCALES_E:
            P.scaled[tuple(math.ldexp(x, e) for x in pnt)] = (pnt, e)
    P.pts("scaled", list(P.scaled), oracle=True)
    # zeros
    P.pts("zero", [(0.0, 0.0, 0.0)] + [(0.0, 0.0, z) for z in L] + [(0.0, y, z) for y in L for z in L]
          + [(x, y, 0.0) for x in L[::max(1, K // 2)] for y in L[::max(1, K // 2)]] + [(x, 0.0, z) for x in L[::K] for z in L[::K]]
          + [(0.0, y, y * (1 + d)) for y in L[::2] for d in Dx[1:]])      # zero argument + near-degenerate pair
    edge = {0, n - 1}
    mid = {0, n // 2, n - 1}
    # pairs: (x, x(1+d), z); oracle at the smallest / largest admissible overall scale of every ratio class z/x
    pp, po = [], []
    for i, x in enumerate(L):
        for k, z in enumerate(L):
            for d in Dx[1:]:
                p = (x, x * (1 + d), z)
                pp.append(p)
                if (i in edge or k in edge) and d in Dxo:
                    po.append(p)
    P.pts("pair", pp, oracle=False)
    P.oset.update(po)
    # triples: (x, x(1+d1), x(1+d2)); oracle at three overall scales
    tp, to = [], []
    for i, x in enumerate(L):
        for d1 in Dx:
            for d2 in Dx:
                p = (x, x * (1 + d1), x * (1 + d2))
                tp.append(p)
                if i in mid and d1 in Dxo and d2 in Dxo:
                    to.append(p)
    P.pts("triple", tp, oracle=False)
    P.oset.update(to)
    # arguments next to 1: (1+d1, 1+d2, z)
    op, oo = [], []
    for k, z in enumerate(L):
        for d1 in Dx:
            for d2 in Dx:
                p = (1 + d1, 1 + d2, z)
                op.append(p)
                if (k in mid or z == 1.0) and d1 in Dxo and d2 in Dxo:
                    oo.append(p)
    P.pts("one", op, oracle=False)
    P.oset.update(oo)
    # axis lines through the points of the base lattice (stride-thinned), along every axis
    st = 2 if quick else (K // 4 if K >= 8 else 1)
    B = L[::st]
    litseeds = [g(w) for v in lits for w in (v,) if 1e-3 <= v <= 1e3]
    one = [g(1 + d) for d in D]
    for a_ in B:
        for b_ in B:
            pair = [a_ * (1 + d) for d in Dx] + [b_ * (1 + d) for d in Dx]
            pairo = [a_ * (1 + d) for d in Dx if d in Dxo] + [b_ * (1 + d) for d in Dx if d in Dxo]
            # lambda^2 = 0: sqrt(t) = sqrt(a) +- sqrt(b) (squared-mass arguments)
            if root:
                fc = lambda ds: [abs(a_ + sg * b_) * (1 + d) for sg in (1.0, -1.0) for d in ds if a_ + sg * b_ != 0]
            else:
                fc = lambda ds: [(math.sqrt(a_) + sg * math.sqrt(b_)) ** 2 * (1 + d) for sg in (1.0, -1.0) for d in ds
                                 if math.sqrt(a_) + sg * math.sqrt(b_) != 0]
            curve, curveo = fc(Dx), fc([d for d in Dx if d in Dxo])
            lo, hi = max(a_, b_) * g(1e-6), min(a_, b_) * g(1e6)
            f = lambda ts: [t for t in ts if lo * (1 - 1e-9) <= t <= hi * (1 + 1e-9)]
            ts = f(L + pair + curve + one + litseeds)
            ots = f(pairo + curveo) if (a_ in L[::2 * st] and b_ in L[::2 * st]) else f(curve[:2])
            P.line("axis0", (0.0, a_, b_), (1.0, 0.0, 0.0), ts, ots)
            P.line("axis1", (a_, 0.0, b_), (0.0, 1.0, 0.0), ts, ())
            P.line("axis2", (a_, b_, 0.0), (0.0, 0.0, 1.0), ts, ())
    # offset lines (t, a, a(1+e)): two arguments already close to each other, the third one approaching them
    for a_ in L[::4 * st]:
        for e in EOFF:
            b_ = a_ * (1 + e)
            off = [c * (1 + d) for c in (a_, b_) for d in Dx + D8]
            offo = off if fn in CHEAP else [c * (1 + d) for c in (a_, b_) for d in Dx if d in Dxo]
            lo, hi = max(a_, b_) * g(1e-6), min(a_, b_) * g(1e6)
            f = lambda ts: [t for t in ts if lo * (1 - 1e-9) <= t <= hi * (1 + 1e-9)]
            P.line("off0", (0.0, a_, b_), (1.0, 0.0, 0.0), f(L + off), f(offo))
            P.line("off2", (a_, b_, 0.0), (0.0, 0.0, 1.0), f(L + off), ())
    # near-degenerate diagonals (t, t(1+d), z0) in the three position pairs
    for z0 in B:
        for d in Dx:
            lo, hi = z0 * g(1e-6), z0 * g(1e6)
            ts = [t for t in L + one if lo <= t <= hi and lo <= t * (1 + d) <= hi]
            P.line("diag01", (0.0, 0.0, z0), (1.0, 1 + d, 0.0), ts, ())
            P.line("diag02", (0.0, z0, 0.0), (1 + d, 0.0, 1.0), ts, ())
            P.line("diag12", (z0, 0.0, 0.0), (0.0, 1.0, 1 + d), ts, ())
    # lattice-ratio diagonals (t, r t, z0) (thorough only; by homogeneity equivalent to axis lines in z)
    if not quick:
        for z0 in L[::K]:
            for j in range(-6 * K, 6 * K + 1, 2):
                r = g(10.0 ** (j / K))
                lo, hi = z0 * g(1e-6), z0 * g(1e6)
                ts = [t for t in L if lo <= t <= hi and lo <= r * t <= hi and 1e-6 * (1 - 1e-9) <= (r * r if root else r) <= 1e6 * (1 + 1e-9)]
                P.line("rdiag", (0.0, 0.0, z0), (1.0, r, 0.0), ts, ())
    return P


def plan_phys(fn, consts, Km, W):
    """FCWu / FCWd: 9 quark pairs; FCWl: 3 leptons; SM masses of gm2_constants.hpp, charged-Higgs mass on
    L(Km, 50, 5000) GeV + {mW(1+d)}; argument conventions of src/THDM/gm2_2loop_F.cpp (fuHp/fdHp/flHp)."""
    P = Plan(fn, W)
    mw2 = consts["MW"] * consts["MW"]
    mh = [50.0 * 10.0 ** (j / Km) for j in range(0, 2 * Km + 1)]
    near = [consts["MW"] * (1 + d) for d in D if d != 0]
    if fn == "FCWl":
        for ml in (consts["ME"], consts["MM"], consts["ML"]):
            ml2 = ml * ml
            y = ml2 / mw2
            P.pts("phys", [(ml2 / (m * m), y) for m in mh + near] + [(y, y)])
            P.line("mHp", (0.0, y), (ml2, 0.0), [1.0 / (m * m) for m in mh + near], ())
        return P
    for mu in (consts["MU"], consts["MC"], consts["MT"]):
        for md in (consts["MD"], consts["MS"], consts["MB"]):
            mu2, md2 = mu * mu, md * md
            yu, yd = mu2 / mw2, md2 / mw2
            P.pts("phys", [(mu2 / (m * m), md2 / (m * m), yu, yd, QU, QD) for m in mh + near] + [(yu, yd, yu, yd, QU, QD)])
            P.line("mHp", (0.0, 0.0, yu, yd, QU, QD), (mu2, md2, 0.0, 0.0, 0.0, 0.0), [1.0 / (m * m) for m in mh + near], ())
    return P


# ------------------------------------------------------------------ main

def boundary_offset(fn, aa, ab):
    """aa, ab: the two adjacent argument tuples of a located regime boundary.  Returns None or
    (i, c, delta): along the line the varying argument i sits at c (1 + delta) with |delta| <= 0.3, c = a fixed
    argument of the line or one of the centres 1, 1/4 (dimensionless functions) - the attractor with smallest |delta|."""
    n = nargs_sc(fn)
    var = [i for i in range(n) if aa[i] != ab[i]]
    if not var or any(aa[i] <= 0 for i in var):
        return None
    cands = [aa[j] for j in range(n) if j not in var and aa[j] > 0]
    if fn not in THREE:
        cands += [1.0, 0.25]
    best = None
    for i in var:
        for c in cands:
            d = aa[i] / c - 1
            if d != 0 and abs(d) <= 0.3 and (best is None or abs(d) < abs(best[2])):
                best = (i, c, d)
    return best


def inside_points(fn, aa, ab, fracs):
    """points of the line at fractions of the boundary offset (f < 1: just inside the window)"""
    bo = boundary_offset(fn, aa, ab)
    if bo is None:
        return []
    i, c, d = bo
    n = nargs_sc(fn)
    var = [j for j in range(n) if aa[j] != ab[j]]
    out = []
    for f in fracs:
        sfac = c * (1 + f * d) / aa[i]
        out.append(tuple(aa[j] * sfac if j in var else aa[j] for j in range(len(aa))))
    return out


def get_consts(exe):
    p = subprocess.run([exe], input="consts\n", stdout=subprocess.PIPE, text=True, timeout=60)
    d = {}
    for ln in p.stdout.split("\n"):
        tk = ln.split()
        if len(tk) == 3 and tk[0] == "C":
            d[tk[1]] = unhex(tk[2])
    need = ["MU", "MC", "MT", "MD", "MS", "MB", "ME", "MM", "ML", "MW"]
    if any(k not in d for k in need):
        raise InfraError("fx harness did not report the SM constants")
    return d


def build_plans(quick, consts, lits):
    K2, K3, W, Km = (4, 4, 8, 32) if quick else (8, 8, 32, 128)
    short = [v for v in lits if float("%.1e" % v) == v]
    plans = []
    for fn in TWO:
        plans.append(plan_two(fn, K2, W, lits if not quick else short, quick))
    for fn in THREE:
        plans.append(plan_three(fn, K3, W, short, quick))
    for fn in CS:
        plans.append(plan_cs(fn, K2, W, lits if not quick else short, quick))
    phys = [plan_phys(fn, consts, Km, W) for fn in FCW + ["FCWl"]]
    return plans, phys, dict(K2=K2, K3=K3, W=W, Km=Km)


def run(ctx):
    import ff_ref
    exe = fxrun.exe("cov")
    nargs = fxrun.functions()
    for fn in ALL:
        if fn not in nargs:
            raise InfraError("fx harness does not register " + fn)
    bad = ff_ref.selftest_multi()
    if bad:
        raise InfraError("reference model self-test failed: %r" % (bad[:3],))
    consts = get_consts(exe)
    lits = sorted(set(harvest.literals(ANCHOR, 1e-6, 1e6)))
    ctx.note("harvested_literals", len(lits))
    quick = ctx.quick
    plans, phys, par = build_plans(quick, consts, lits)
    W = par["W"]
    keep_nd = frozenset([0, 1, 2, 4, 8, 16, 32])
    ORACLE_ND = frozenset([0, 1, W]) if quick else frozenset([0, 1, 2, 8, 32])
    M_BD = 2 if quick else 8          # boundary crossings per (function, signature pair) sent to the definition oracle
    # near-degenerate crossings (boundary offset |delta| <= 0.3 from another argument / 1 / 1/4) per signature pair:
    # all of them for the cheap references, a few (spread evenly) for the expensive ones
    m_nd = {"Phi": 3, "FPZ": 2, "FSZ": 2, "FCWl": 2, "f_CSd": 1, "f_CSu": 1}
    M_ND = {fn: (10 ** 9 if (fn in CHEAP or fn in FCW) else m_nd[fn] * (1 if quick else 4)) for fn in ALL}

    # merge the physical FCWl plan into the FCWl job list as its own job (same function, same transforms)
    jobs = []
    for P in plans + phys:
        tr = transforms(P.fn, quick)
        # split big plans into several harness processes
        nchunk = 1 if len(P.cmds) < 200 else min(8, len(P.cmds) // 150)
        size = (len(P.cmds) + nchunk - 1) // nchunk
        for i in range(0, len(P.cmds), size):
            jobs.append([exe, P.fn, nargs[P.fn][0], xfset_text(P.fn, tr) if tr else "", tr, P.cmds[i:i + size], W, keep_nd, None])
    oset = {}
    scaled = {fn: {} for fn in ALL}
    for P in plans + phys:
        oset.setdefault(P.fn, set()).update(P.oset)
        scaled[P.fn].update(P.scaled)
    for j in jobs:
        j[8] = frozenset(oset[j[1]])
    for P in plans + phys:
        P.cmds = None
    physfn = {}
    for P in phys:
        physfn[P.fn] = True

    verbose = bool(os.environ.get("C02_VERBOSE"))
    import time
    t0 = time.time()
    pool = mp.Pool(min(16, os.cpu_count() or 4))
    try:
        results = pool.map(fx_job, jobs, chunksize=1)
        njobs, jobs = len(jobs), None
        if verbose:
            print("[c02] harness phase %.1fs, %d jobs" % (time.time() - t0, njobs), file=sys.stderr)
            for r in results:
                print("[c02]   job %s: %.1fs, %d cmds (first %s), %d pts" % (r["fn"], r["t"][0], r["t"][2], r["t"][3], r["npts"]), file=sys.stderr)
        for r in results:
            if "error" in r:
                raise InfraError(r["error"])

        seeds = {fn: {} for fn in ALL}
        dom_counts = {}
        bds = {fn: [] for fn in ALL}
        sigs = {fn: set() for fn in ALL}
        npts = {fn: 0 for fn in ALL}
        nrel = nmis = 0
        def absorb(r):
            nonlocal nrel, nmis
            fn = r["fn"]
            for a, v in r["seeds"].items():
                seeds[fn].setdefault(a, v)
            for dm, c in r["domc"].items():
                dom_counts[(fn, dm)] = dom_counts.get((fn, dm), 0) + c
            for a, out in r["nonfin"]:
                ctx.fail(acc_key(fn, a).replace(":acc", ":nonfinite", 1), "%s%r = %r inside the domain" % (fn, a, out),
                         {"fn": fn, "args": [hexf(x) for x in a], "kind": "accuracy"})
            r["seeds"] = None
            bds[fn] += r["bds"]
            sigs[fn] |= r["sigs"]
            npts[fn] += r["npts"]
            nrel += r["nrel"]; nmis += r["nmis"]
            for c in r["caps"]:
                ctx.cap("%s:%s" % (fn, c))
            tr = transforms(fn, quick)
            for kind, a, out, idx, v, dev, allowed in r["relfails"]:
                perm, k = tr[idx]
                ctx.fail(rel_key(fn, kind, a, k, perm),
                         "%s%r = %r but %s(args permuted %r, scaled by %r) = %r  (deviation %.3e after rescaling, allowed %.3e) [%s]"
                         % (fn, a, out, fn, perm, k, v, dev, allowed, kind),
                         {"fn": fn, "args": [hexf(x) for x in a], "kind": kind, "tr": idx})
        for r in results:
            absorb(r)
        results = None

        # ---------------- boundaries: continuity + selection for the oracle
        tasks = {}          # (group, key) -> items

        origin = {}

        def add_task(fn, a, out, org="seed"):
            origin[(fn, org)] = origin.get((fn, org), 0) + 1
            dm = domain(fn, a)
            if dm == "zero":
                ze = zero_expect(fn, a)
                if ze is None:
                    undocumented.setdefault((fn, tuple(i for i, v in enumerate(a[:nargs_sc(fn)]) if v == 0)), set()).add(
                        "nan" if math.isnan(out) else ("inf" if math.isinf(out) else "finite"))
                    return "zero-unclaimed"
                if ze[0] == "exact":
                    counts["zero-exact"] = counts.get("zero-exact", 0) + 1
                    if not (out == ze[1]):
                        ctx.fail("%s:zero" % fn, "%s%r = %r, documented value at a zero argument is %r" % (fn, a, out, ze[1]),
                                 {"fn": fn, "args": [hexf(x) for x in a], "kind": "zero"})
                    return "zero"
                tasks.setdefault(("zero", (fn,) + tuple(a)), []).append((fn, out, ze[2]))
                return "zero"
            if dm != "ok":
                return dm
            if a in scaled[fn]:
                base, e = scaled[fn][a]
                tasks.setdefault((fn, base), []).append((fn, out, ("k", e)))
                return "ok"
            if fn in CS:
                tasks.setdefault(("fCS", a[:2]), []).append((fn, out, (a[2], a[3])))
            elif fn in FCW:
                tasks.setdefault(("FCW", a), []).append((fn, out, None))
            else:
                tasks.setdefault((fn, a), []).append((fn, out, None))
            return "ok"

        undocumented, counts = {}, {}
        maxjump = {}
        nbd = 0
        bd_sel = nd_sel = nnd_found = 0
        inside = {fn: set() for fn in ALL}
        for fn in ALL:
            isphys = fn in FCW
            # seeds
            for a in sorted(seeds[fn]):
                out, sig, label = seeds[fn][a]
                add_task(fn, a, out, label)
            seeds[fn] = {}
            # boundaries
            bykey = {}
            for b in bds[fn]:
                nbd += 1
                label, ta, tb, sa, sb, nb = b
                bykey.setdefault((sa, sb), []).append(b)
                pa = [x for x in nb if x[0] == 0 and x[1] == 0]
                pb = [x for x in nb if x[0] == 0 and x[1] == 1]
                if pa and pb:
                    (_, _, aa, ya, _), (_, _, ab, yb, _) = pa[0], pb[0]
                    if domain(fn, aa) == "ok" and domain(fn, ab) == "ok":
                        if math.isfinite(ya) and math.isfinite(yb):
                            allowed = 2 * (TOL[fn] * max(abs(ya), abs(yb)) + TOL[fn] * scale(fn, aa))
                            j = abs(ya - yb)
                            den = max(abs(ya), abs(yb)) + scale(fn, aa)
                            if den > 0:
                                maxjump[fn] = max(maxjump.get(fn, 0.0), j / den)
                            if j > allowed:
                                k1, k2 = acc_key(fn, aa), acc_key(fn, ab)
                                ctx.fail((k1 if k1 != fn + ":acc" else k2) + ":jump",
                                         "%s jumps by %.3e (allowed %.3e) between the adjacent points %r -> %r and %r -> %r of a regime boundary"
                                         % (fn, j, allowed, aa, ya, ab, yb),
                                         {"fn": fn, "args": [hexf(x) for x in aa], "args_b": [hexf(x) for x in ab], "kind": "jump"})
                        else:
                            ctx.fail(acc_key(fn, aa if not math.isfinite(ya) else ab).replace(":acc", ":nonfinite", 1), "%s non-finite next to a regime boundary: %r -> %r, %r -> %r" % (fn, aa, ya, ab, yb),
                                     {"fn": fn, "args": [hexf(x) for x in aa], "kind": "accuracy"})
            for key in sorted(bykey):
                lst = bykey[key]
                # prefer crossings that lie inside the oracle domain; spread the selection evenly over them
                good = [b for b in lst if any(domain(fn, x[2]) == "ok" for x in b[5] if x[0] == 0)]
                m = M_BD if not isphys else len(good)
                sel = good
                if len(good) > m:
                    step = len(good) / float(m)
                    sel = [good[int(i * step)] for i in range(m)]
                # near-degenerate crossings: window edges of series / closed-form switches
                nds = []
                for b in good:
                    p0 = [x for x in b[5] if x[0] == 0]
                    if len(p0) == 2 and boundary_offset(fn, p0[0][2], p0[1][2]) is not None:
                        nds.append(b)
                nnd_found += len(nds)
                if len(nds) > M_ND[fn]:
                    step = len(nds) / float(M_ND[fn])
                    nds = [nds[int(i * step)] for i in range(M_ND[fn])]
                done = set()
                for b in sel + nds:
                    if id(b) in done:
                        continue
                    done.add(id(b))
                    bd_sel += 1
                    for nd, side, a, out, sig in b[5]:
                        if nd in ORACLE_ND:
                            add_task(fn, a, out, "boundary")
                for b in nds:
                    nd_sel += 1
                    p0 = sorted((x for x in b[5] if x[0] == 0), key=lambda x: x[1])
                    for q in inside_points(fn, p0[0][2], p0[1][2], INSIDE + ((1.01,) if fn in CHEAP else ())):
                        if domain(fn, q) == "ok":
                            inside[fn].add(q)

        # ---------------- second harness pass: points just inside the located near-degenerate boundaries
        jobs2 = []
        for fn in ALL:
            pts2 = sorted(inside[fn])
            if pts2:
                tr = transforms(fn, quick)
                for i in range(0, len(pts2), 4000):
                    ch = pts2[i:i + 4000]
                    jobs2.append([exe, fn, nargs[fn][0], xfset_text(fn, tr) if tr else "", tr,
                                  [_cmd_pts(fn, "inside", ch)], W, keep_nd, frozenset(ch)])
        for r in pool.map(fx_job, jobs2, chunksize=1):
            if "error" in r:
                raise InfraError(r["error"])
            absorb(r)
        ninside = 0
        for fn in ALL:
            for a in sorted(seeds[fn] or ()):
                out, sig, label = seeds[fn][a]
                add_task(fn, a, out, "inside")
                ninside += 1
            seeds[fn] = None
        ctx.evals(sum(npts.values()))
        ctx.note("relation_evaluations", nrel)
        ctx.note("relation_mismatches_beyond_tolerance", nmis)
        ctx.note("boundaries_located", nbd)
        ctx.note("boundary_crossings_sent_to_oracle", bd_sel)
        ctx.note("near_degenerate_crossings_located", nnd_found)
        ctx.note("near_degenerate_crossings_probed_inside", nd_sel)
        ctx.note("inside_points", ninside)

        # ---------------- definition oracle
        tl = [(g, k, v) for (g, k), v in sorted(tasks.items(), key=lambda kv: (kv[0][0], tuple(map(repr, kv[0][1]))))]
        cost = {"Phi": 8, "FPZ": 8, "FSZ": 8, "FCWl": 6, "fCS": 12, "FCW": 30}
        # interleave expensive and cheap tasks so that chunks have similar cost
        tl.sort(key=lambda t: (-(cost.get(t[0], 1)),))
        chunks, cur, cc = [], [], 0
        for t in tl:
            cur.append(t); cc += cost.get(t[0], 1)
            if cc >= 400:
                chunks.append(cur); cur, cc = [], 0
        if cur:
            chunks.append(cur)
        if verbose:
            cnt = {}
            for g, k, v in tl:
                cnt[g] = cnt.get(g, 0) + 1
            print("[c02] oracle requests by origin: %r" % (sorted(origin.items()),), file=sys.stderr)
            print("[c02] signature pairs: %r" % ({fn: len(set((b[3], b[4]) for b in bds[fn])) for fn in ALL},), file=sys.stderr)
            print("[c02] judging phase done at %.1fs; oracle tasks %r in %d chunks" % (time.time() - t0, cnt, len(chunks)), file=sys.stderr)
        worst, nchk = {}, 0
        allfails = []
        stopped = False
        for fails, w, n in pool.imap_unordered(oracle_chunk, chunks):
            nchk += n
            for k, v in w.items():
                worst[k] = max(worst.get(k, 0.0), v)
            allfails += fails
            if not stopped and ctx.out_of_time("definition oracle"):
                stopped = True
                pool.terminate()
                break
    finally:
        pool.terminate()
        pool.join()
    if verbose:
        print("[c02] oracle phase done at %.1fs" % (time.time() - t0), file=sys.stderr)

    for fn, a, out, ref, err, allowed, kind in sorted(allfails, key=lambda f: (f[0], tuple(map(repr, f[1])))):
        if kind == "oracle":
            raise InfraError("oracle failed on %s%r: %s" % (fn, a, ref))
        if kind == "zero-limit":
            z = "".join("xyz"[i] if fn != "Iabc" else "abc"[i] for i, v in enumerate(a[:3]) if v == 0)
            key = "%s:zero:%s=0" % (fn, z)
        elif kind == "nonfinite":
            key = acc_key(fn, a).replace(":acc", ":nonfinite", 1)
        else:
            key = acc_key(fn, a)
        ctx.fail(key, "%s(%s) = %r, definition gives %r (|err| %.3e > allowed %.3e) [%s]"
                 % (fn, ", ".join(repr(x) for x in a), out, ref, err, allowed, kind),
                 {"fn": fn, "args": [hexf(x) for x in a], "kind": "zero" if kind == "zero-limit" else "accuracy"})

    states = set()
    for fn in ALL:
        for s in sigs[fn]:
            states.add((fn, s))
    for s in sorted(states):
        ctx.nontrivial(s)
    for fn in ("Phi", "FPZ", "f_CSd"):
        ex = [a for a in sorted(oset[fn])[:: max(1, len(oset[fn]) // 3)]][:3]
        ctx.sample({"fn": fn, "regimes": len(sigs[fn]), "example_oracle_points": ex})
    ctx.sample({"boundaries_first": [(fn, [(b[1], b[2]) for b in bds[fn][:2]]) for fn in ("Fa", "Iabc", "FSZ") if bds[fn]]})
    ctx.note("undocumented_zero_argument_behaviour (not claimed)",
             {"%s zero@%s" % (k[0], ",".join(map(str, k[1]))): sorted(v) for k, v in sorted(undocumented.items())})
    ctx.note("points_by_domain_class", {"%s:%s" % k: v for k, v in sorted(dom_counts.items())})
    ctx.assumptions += [
        "mpmath (pure python) polylog/log at >=30 digits (+5 digits per decade of degeneracy) is the definition oracle; every reported failure was re-derived with 30 more digits",
        "floor of the accuracy tolerance: tol * scale, scale = max(x,y,z) for Phi, max^2 for lambda_2, 1/max^2 for Iabc, min(1, largest argument) for the dimensionless Barr-Zee functions, none for Fa/Fb (positive, no zero on the domain: pure relative 1e-4)",
        "overall scales: the property bounds only the ratios; every evaluated point of Iabc/Phi/lambda_2 is re-evaluated at 2^e, e in {-120,-60,-52,-40,-20,20,40,60,120} (+ permuted), exact rescaling required (<= 4 ulp); the definition oracle at the scaled lattice tuples uses ref(2^e t) = 2^(deg e) ref(t), exact for the definition",
        "difference quotients FPZ, FSZ, FCWl, FCWu, FCWd with 0 < |1 - x/y| < 1e-3 are evaluated (relations, finiteness is C11's) but not compared with the definition",
        "zero arguments without a documented value (Phi, f_CSu, f_CSd(0,xd), one-zero Fa/Fb, FCWu/FCWd) are evaluated and reported in the evidence, not judged",
        "values strictly between lattice points inside one regime are not evaluated",
        "f_CSd/f_CSu lines use the physical charges (2/3,-1/3); lattice points also (1,1)%s" % ("" if quick else " and (0,-1)")]
    rule = ("2-arg functions: lattice L(%d/decade,[1e-6,1e6])^2 with x/y in [1e-6,1e6]; 3-arg: L(%d/decade,[1e-3,1e3])^3 in the squared masses; "
            "offsets d in {0,+-1e-13..+-1e-1} for pairs, triples, arguments at 1 and 1/4, lambda^2=0 curves; exact zeros; "
            "FCWu/FCWd/FCWl: 9 quark pairs / 3 leptons x mHp on L(%d/decade,[50,5000] GeV) + mW(1+d); every axis line / diagonal bisected on "
            "branch-path signatures, +-%d ulp neighbourhoods (ulp distances 0,1,2,4,.. kept). Relations (permutations, 2^j, 3, 1e3, 1e-3) on all "
            "evaluated points. Definition oracle thinned to: all 2-arg lattice points; one representative per permutation class of the 3-arg lattice; "
            "3-arg pair families at the extreme overall scales of every ratio class, triple/near-1 families at 3 scales; near-degenerate and "
            "lambda^2=0 seeds of the axis lines (3-arg: lines through every %s base point); offsets sent to the oracle: %s; "
            "%d crossings per (function, signature pair) of the located boundaries at ulp distances %s (all crossings enter the jump check). "
            "Near-degenerate lines: besides the axis lines, offset lines through base points c(1+e), c in {1, 1/4, another argument}, e = +-1e-3,1e-2,1e-1 "
            "and through the decade points, offset seeds 8 per decade in [1e-6,1e-1]; every located boundary whose offset from the nearest attractor "
            "(other argument, 1, 1/4) is <= 0.3 is a window edge: oracle at the kept ulp neighbours on both sides and at 0.5, 0.8, 0.99 of the boundary "
            "offset (second harness pass) - all such crossings for Fa, Fb, Iabc, lambda_2, FCWu/d, %s per signature pair for the expensive references. "
            "Lattice representatives (stride %s) at the overall scales 2^e, e in %s. distinct = (function, branch-path signature)"
            % (par["K2"], par["K3"], par["Km"], W, "4th" if quick else "2nd",
               "0,+-1e-13,-10,-7,-5,-3,-1" if quick else "all", M_BD, sorted(ORACLE_ND),
               "1-3" if quick else "4-12", "2 cheap / 16 Phi" if quick else "1 cheap / 8 Phi", SCALES_E))
    return ctx.finish(rule, {
        "states": len(states), "transitions": nbd, "traces_validated_against_impl": nchk,
        "points_evaluated_per_function": dict(sorted(npts.items())),
        "regimes_per_function": {fn: len(sigs[fn]) for fn in ALL},
        "oracle_checked_points": nchk, "oracle_tasks": len(tl),
        "worst_err_over_(|ref|+scale)_outside_known": {k: float("%.3g" % v) for k, v in sorted(worst.items())},
        "max_jump_over_(|f|+scale)_at_boundaries": {k: float("%.3g" % v) for k, v in sorted(maxjump.items())},
        "zero_exact_checked": counts.get("zero-exact", 0), "lines": sum(P.nlines for P in plans + phys),
        "K2": par["K2"], "K3": par["K3"], "W": W, "Km": par["Km"]})


def replay(ctx, path):
    import json
    d = json.load(open(path))["data"]
    exe = fxrun.exe("cov")
    nargs = fxrun.functions()
    fn = d["fn"]
    a = tuple(unhex(x) for x in d["args"])
    quick = True
    tr = transforms(fn, quick=False)
    cmds = [("replay", _cmd_pts(fn, "replay", [a])[1])]
    if d.get("args_b"):
        cmds.append(("replay", _cmd_pts(fn, "replay", [tuple(unhex(x) for x in d["args_b"])])[1]))
    pts_ = frozenset([a] + ([tuple(unhex(x) for x in d["args_b"])] if d.get("args_b") else []))
    r = fx_job((exe, fn, nargs[fn][0], xfset_text(fn, tr) if tr else "", tr, cmds, 0, frozenset([0]), pts_))
    if "error" in r:
        raise InfraError(r["error"])
    out = r["seeds"][a][0]
    bad = False
    for kind, aa, o, idx, v, dev, allowed in r["relfails"]:
        print("replay: relation %s fails: %s%r = %r, transform %r gives %r (dev %.3e > %.3e)" % (kind, fn, aa, o, tr[idx], v, dev, allowed))
        bad = True
    kind = d.get("kind")
    if kind == "jump":
        b = tuple(unhex(x) for x in d["args_b"])
        yb = r["seeds"][b][0]
        allowed = 2 * (TOL[fn] * max(abs(out), abs(yb)) + TOL[fn] * scale(fn, a))
        if not (abs(out - yb) <= allowed):
            print("replay: jump %r -> %r vs %r -> %r exceeds %.3e" % (a, out, b, yb, allowed))
            bad = True
    dm = domain(fn, a)
    task = None
    if dm == "zero":
        ze = zero_expect(fn, a)
        if ze and ze[0] == "exact" and out != ze[1]:
            print("replay: %s%r = %r, documented %r" % (fn, a, out, ze[1])); bad = True
        elif ze and ze[0] == "rel":
            task = ("zero", (fn,) + a, [(fn, out, ze[2])])
    elif dm == "ok":
        if fn in CS:
            task = ("fCS", a[:2], [(fn, out, (a[2], a[3]))])
        elif fn in FCW:
            task = ("FCW", a, [(fn, out, None)])
        else:
            task = (fn, a, [(fn, out, None)])
    if task:
        fails, _, _ = oracle_chunk([task])
        for f in fails:
            print("replay: %s%r -> %r ref %r err %.3e allowed %.3e [%s]" % (f[0], f[1], f[2], f[3], f[4], f[5], f[6]))
            bad = True
    if bad:
        print("VIOLATION property=C02 replay=%s" % path)
        return 1
    print("replay: holds now: %s%r -> %r" % (fn, a, out))
    return 0
