"""C15 - every reported number is consistent with every other report of the
same quantity.

For every input file (3 shipped examples, all shipped test points, lattice
points rendered to the three input formats) the full product of GM2CalcConfig
options (5 output formats x 3 loop orders x resummation x force x verbose x
uncertainty x running couplings = 480) is written into the file and run through
gm2calc.x; harness/cli_api.cpp reads the very same file through GM2_slha_io the
way the program's setup does and evaluates the public API.  Oracles:
 (1) every printed number is a correctly rounded rendering (at the number of
     digits the program prints) of the API value for the selected options;
 (2) minimal / NMSSMTools / SPheno / GM2Calc formats carry the same number in
     the documented entry; the uncertainty is where README documents it;
 (3) the detailed report is parsed generically: percentages vs. the reference
     named in the label text, sums vs. the parts printed above them, totals vs.
     sub-totals, every component vs. the API;
 (4) SLHA-type output minus the result entries echoes the input unchanged."""
import itertools
import math
import multiprocessing as mp
import os
import re
import shutil

import build
import clirun15 as C
from core import InfraError

META = dict(
    level="exploration",
    technique="exhaustive 480-combination configuration product per input; CLI output parsed in all five formats and compared with an in-process API mirror reading the same file",
    text="For each input (3 examples, every shipped test point, 12 (quick) or ~400 (thorough) lattice points in the three input formats) all 480 GM2CalcConfig combinations are run through gm2calc.x. Each printed number must be the correctly rounded rendering, at the printed number of digits, of what the public API returns for the same file and the selected loop order/resummation/running flags; the four machine-readable formats must agree and use the documented entries; in the detailed report every percentage must equal 100 x component / the reference named in its label, every sum line the sum of the printed parts, every total its sub-totals, every component the API value; SLHA output minus the result entries must be the input, line by line. Exhaustive over the option product; inputs are a finite list.",
    note="trusted: GM2_slha_io as reader of the input (used by both sides; its semantics are C13's subject), the harness' transcription of the setup sequence of gm2calc.cpp, glibc/Python decimal rendering",
    design_ref="3/C15")

HARNESSES = [(("cli_api", "plain", ["cli_api.cpp"]), {})]

COMBOS = list(itertools.product(range(5), range(3), (0, 1), (0, 1), (0, 1), (0, 1), (0, 1)))
assert len(COMBOS) == 480
REPO = build.REPO

# ----------------------------------------------------------------------------
# inputs
# ----------------------------------------------------------------------------
STALE = ("Block SPINFO\n     1   SomeSpectrumGenerator\n     2   9.9.9\n"
         "Block LOWEN   # low energy observables of another program\n"
         "     1     3.14000000E-04   # BR(b -> s gamma)\n"
         "     6     1.11111111E-09   # stale Delta(g-2)_muon/2\n"
         "Block SPhenoLowEnergy\n"
         "    20     2.22222222E-10   # something else\n"
         "    21     3.33333333E-09   # stale anomalous magnetic moment of muon\n"
         "    22     4.44444444E-15   # something else\n")


def test_point_table():
    """(path, type) of every point listed in the repo's own test driver, read at run time"""
    out = []
    sh = os.path.join(REPO, "test", "test_points.sh")
    for m in re.finditer(r"test_points/([\w.\-]+\.in),(\w+),(\d)", open(sh).read()):
        out.append((os.path.join(REPO, "test", "test_points", m.group(1)), m.group(2)))
    return out


def lattice(quick):
    """deterministic lattice points rendered to the three formats -> (name, type, text)"""
    out = []
    s = dict(C.slha_points())
    g = dict(C.gm2_points())
    m = dict(C.thdm_mass_points())
    q = dict(C.thdm_gauge_points())
    out.append(("lat:slha:S1+stale-result-blocks", "slha", C.render_slha(s["S1"], STALE)))
    out.append(("lat:slha:S2", "slha", C.render_slha(s["S2"])))
    out.append(("lat:slha:S3", "slha", C.render_slha(s["S3"])))
    p = dict(s["S2"]); p.update(TB=3.0, Mu=-250.0)
    out.append(("lat:slha:S2:tb3:mu-", "slha", C.render_slha(p)))
    out.append(("lat:gm2:G2", "gm2calc", C.render_gm2(g["G2"])))
    out.append(("lat:gm2:G3", "gm2calc", C.render_gm2(g["G3"], STALE)))
    p = dict(g["G2"]); p.update(TB=50.0, Mu=-350.0, msl_2=300.0, mse_2=800.0)
    out.append(("lat:gm2:G2:tb50:mu-", "gm2calc", C.render_gm2(p)))
    p = dict(g["G1"]); p.update(TB=2.0, M1=-211.722)
    out.append(("lat:gm2:G1:tb2:M1-", "gm2calc", C.render_gm2(p)))
    out.append(("lat:thdm:M2", "thdm", C.render_thdm(m["M2"], STALE)))
    out.append(("lat:thdm:M3", "thdm", C.render_thdm(m["M3"])))
    p = dict(m["M1"]); p.update(yukawa_type=6, sba=-0.9, Pi_l_22=0.05, Pi_l_23=0.01, Pi_u_33=0.3, Pi_d_33=-0.02)
    out.append(("lat:thdm:M1:general:sba-0.9", "thdm", C.render_thdm(p)))
    out.append(("lat:thdm:Q2", "thdm", C.render_thdm(q["Q2"])))
    if quick:
        return out
    # thorough: product lattices (points that turn out unphysical are refused consistently and counted)
    for tb in (2.0, 3.0, 10.0, 40.0, 60.0):
        for mu in (350.0, -350.0, 1200.0, -1200.0):
            for (m1, m2) in ((150.0, 300.0), (400.0, -200.0), (-900.0, 250.0)):
                for (sl, se) in ((500.0, 500.0), (250.0, 900.0), (1500.0, 300.0)):
                    p = dict(g["G2"]); p.update(TB=tb, Mu=mu, M1=m1, M2=m2, msl_2=sl, mse_2=se)
                    out.append(("lat:gm2:tb%g:mu%g:M1%g:M2%g:msl%g:mse%g" % (tb, mu, m1, m2, sl, se), "gm2calc", C.render_gm2(p)))
    for tb in (5.0, 40.0):
        for mu in (400.0, -400.0):
            for base in ("S2", "S3"):
                for m2 in (300.0, 900.0):
                    p = dict(s[base]); p.update(TB=tb, Mu=mu, M2=m2)
                    out.append(("lat:slha:%s:tb%g:mu%g:M2%g" % (base, tb, mu, m2), "slha", C.render_slha(p)))
    for yt in (1, 2, 3, 4, 5, 6):
        for tb in (1.5, 2.0, 20.0, 50.0):
            for sba in (1.0, 0.999, 0.9, -0.95):
                for (mH, mA, mHp) in ((400.0, 420.0, 440.0), (200.0, 60.0, 180.0)):
                    p = dict(m["M1"]); p.update(yukawa_type=yt, tan_beta=tb, sba=sba, mH=mH, mA=mA, mHp=mHp,
                                                m122=mH * mH * tb / (1 + tb * tb),
                                                zeta_u=0.2, zeta_d=-0.3, zeta_l=-10.0, Pi_l_22=0.02, Pi_u_33=0.1,
                                                Delta_l_22=0.001)
                    out.append(("lat:thdm:type%d:tb%g:sba%g:mH%g" % (yt, tb, sba, mH), "thdm", C.render_thdm(p)))
    for k in ("Q1", "Q2", "Q3"):
        for yt in (1, 2, 5, 6):
            p = dict(q[k]); p.update(yukawa_type=yt, zeta_l=5.0, Pi_l_22=0.01)
            out.append(("lat:thdm:%s:type%d" % (k, yt), "thdm", C.render_thdm(p)))
    return out


SPINFO_OLD = ("Block SPINFO\n     1   OtherGenerator\n     2   1.2.3\n     3   old warning of another program\n"
              "     4   old error of another program\n")


def stale_variants(base):
    """pre-existing result blocks appended to an input that does not have them: each result entry alone
    in its block / next to unrelated keys, all together, empty blocks, an SPINFO block with entries 1-4"""
    have = {nm for nm, _, _ in C.split_blocks(base) if nm}
    L = {"a": "Block LOWEN\n     6     1.11111111E-09   # stale\n",
         "o": "Block LOWEN\n     1     3.14000000E-04   # other\n     6     1.11111111E-09   # stale\n     7     9.00000000E-01   # other\n"}
    S = {"a": "Block SPhenoLowEnergy\n    21     3.33333333E-09   # stale\n",
         "o": "Block SPhenoLowEnergy\n    20     2.22222222E-10   # other\n    21     3.33333333E-09   # stale\n    22     4.44444444E-15   # other\n"}
    G0 = {"a": "Block GM2CalcOutput\n     0     5.55555555E-09   # stale\n",
          "o": "Block GM2CalcOutput\n     0     5.55555555E-09   # stale\n     7     1.00000000E+00   # other\n"}
    G1 = {"a": "Block GM2CalcOutput\n     1     6.66666666E-10   # stale\n",
          "o": "Block GM2CalcOutput\n     7     1.00000000E+00   # other\n     1     6.66666666E-10   # stale\n"}
    G01 = {"a": "Block GM2CalcOutput\n     0     5.55555555E-09   # stale\n     1     6.66666666E-10   # stale\n",
           "o": "Block GM2CalcOutput\n     0     5.55555555E-09   # stale\n     7     1.00000000E+00   # other\n     1     6.66666666E-10   # stale\n"}
    out = []
    okL, okS, okG, okI = "LOWEN" not in have, "SPHENOLOWENERGY" not in have, "GM2CALCOUTPUT" not in have, "SPINFO" not in have
    for f in ("a", "o"):
        if okL:
            out.append(("LOWEN6:" + f, L[f]))
        if okS:
            out.append(("SPheno21:" + f, S[f]))
        if okG:
            out.append(("GM2Calc0:" + f, G0[f]))
            out.append(("GM2Calc1:" + f, G1[f]))
        if okL and okS and okG:
            out.append(("all:" + f, L[f] + S[f] + G01[f]))
    if okL and okS and okG:
        out.append(("empty-blocks", "Block LOWEN\nBlock SPhenoLowEnergy\nBlock GM2CalcOutput\n"))
    if okI:
        out.append(("SPINFO1-4", SPINFO_OLD))
    return out


def stale_combos(name, quick):
    """5 formats x uncertainty x force; quick: one force setting per input (the writers do not depend on it):
    force-output on for the shipped test points (many of them need it), off for examples and lattice points"""
    forces = (0, 1) if not quick else ((1,) if name.startswith("tp:") else (0,))
    return [(f, 2, 1, force, 0, unc, 1) for f in range(5) for force in forces for unc in (0, 1)]


def inputs(quick):
    out = []
    for nm, typ in (("example.slha", "slha"), ("example.gm2", "gm2calc"), ("example.thdm", "thdm")):
        out.append(("ex:" + nm, typ, open(os.path.join(REPO, "input", nm), encoding="latin-1").read()))
    for path, typ in test_point_table():
        out.append(("tp:" + os.path.basename(path), typ, open(path, encoding="latin-1").read()))
    out += lattice(quick)
    out = [(nm, typ, text, None) for nm, typ, text in out]
    # every base input crossed with pre-existing result blocks x 5 formats x force x uncertainty
    for nm, typ, text, _ in list(out):
        base = C.strip_config(text)
        if not base.endswith("\n"):
            base += "\n"
        for tag, add in stale_variants(base):
            out.append(("%s|stale:%s" % (nm, tag), typ, base + add, stale_combos(nm, quick)))
    return out


# ----------------------------------------------------------------------------
# SLHA inputs from every convergence regime of convert_to_onshell()
# ----------------------------------------------------------------------------
LADDER = [25, 50, 75, 100, 150, 200, 300, 400, 500, 600, 700, 800, 900, 1000, 1500, 2000, 4000]   # as cli_api c15iter
BINS = [("~100", 75, 150), ("~300", 200, 400), ("~600", 500, 700), ("~900", 800, 1000)]
COMBOS_SLOW = [(f, l, r_, fo, 0, u, 1) for f in range(5) for l in range(3) for r_ in (0, 1) for fo in (0, 1) for u in (0, 1)]


def convergence_inputs(exe, root):
    """deterministic scan: candidates = example-like SLHA point (pole masses given) over a tan(beta) ladder and
    both signs of mu, and a family without chargino/neutralino pole masses (only the me2 iteration works) over
    tan(beta) x smuon pole-mass degeneracy.  cli_api c15iter converts each with max_iterations = n for a ladder of
    n; the iteration demand of a loop is the first n from which its output no longer changes.  One input per
    regime (~100, ~300, ~600, ~900 iterations, > 1000 = not converged with the default) and loop is selected."""
    s1 = dict(C.slha_points())["S1"]
    cands = []
    for tb in (2, 3, 4, 4.25, 4.5, 4.6, 4.7, 4.8, 4.9, 5, 5.25, 5.5, 6, 7, 8, 10, 12, 15, 20, 30, 50):
        for sgn in (1, -1):
            p = dict(s1); p["TB"] = float(tb); p["Mu"] = sgn * abs(p["Mu"]); p["MChi_3"] = -sgn * abs(p["MChi_3"])
            cands.append(("tb%g:mu%s" % (tb, "+" if sgn > 0 else "-"), p))
    for tb in (3, 5, 10, 20, 40, 60):
        for dlt in (0.0005, 0.001, 0.002, 0.005, 0.01, 0.02, 0.05, 0.1):
            p = dict(s1)
            for k in ("MChi_1", "MChi_2", "MChi_3", "MChi_4", "MCha_1", "MCha_2"):
                p[k] = 0.0
            p["TB"] = float(tb); p["MSm_1"] = p["MSm_2"] * (1 - dlt)
            cands.append(("nochipoles:tb%g:dMSm%g" % (tb, dlt), p))
    d = os.path.join(root, "scan")
    os.makedirs(d, exist_ok=True)
    paths = []
    for i, (nm, p) in enumerate(cands):
        pth = os.path.join(d, "s%03d.in" % i)
        with open(pth, "w") as fh:
            fh.write(C.render_slha(p))
        paths.append(pth)
    res, err = C.run_harness(exe, "c15iter", paths, "I")
    shutil.rmtree(d, ignore_errors=True)
    if res is None:
        raise InfraError("cli_api c15iter failed: %s" % err)
    info = []
    for (nm, p), r_ in zip(cands, res):
        if "setup" in r_ or any(r_["n%d" % n].split(",")[0] != "OK" for n in LADDER):
            continue
        rows = {n: r_["n%d" % n].split(",") for n in LADDER}
        fin = rows[LADDER[-1]]

        def demand(idx):
            for n in LADDER:
                if all(rows[n][i] == fin[i] for i in idx):
                    return n
        info.append(dict(name=nm, p=p, mu_n=demand((1, 2, 3)), me2_n=demand((4,)),
                         mu_flag=rows[1000][5] == "1", me2_flag=rows[1000][6] == "1"))
    chosen, missing = [], []
    for loop in ("mu", "me2"):
        pool = info if loop == "mu" else [x for x in info if x["mu_n"] <= LADDER[0] and not x["mu_flag"]]
        for tag, lo, hi in BINS:
            c = [x for x in pool if lo <= x[loop + "_n"] <= hi and not x[loop + "_flag"] and (loop == "me2" or not x["me2_flag"])]
            if c:
                chosen.append(("conv:%s-loop%s:%s" % (loop, tag, c[0]["name"]), c[0]))
            else:
                missing.append("%s-loop%s" % (loop, tag))
        c = [x for x in pool if x[loop + "_flag"]]
        c_slow = [x for x in c if x[loop + "_n"] > 1000]
        for tag, cc in ((">1000:stalled-or-unconverged", c), (">1000:still-changing", c_slow)):
            if cc:
                chosen.append(("conv:%s-loop%s:%s" % (loop, tag, cc[0]["name"]), cc[0]))
            else:
                missing.append("%s-loop%s" % (loop, tag))
    ins, seen = [], set()
    for nm, x in chosen:
        if x["name"] in seen:
            continue
        seen.add(x["name"])
        ins.append((nm, "slha", C.render_slha(x["p"]), COMBOS_SLOW))
    summary = dict(candidates=len(cands), usable=len(info), selected=[nm for nm, _, _, _ in ins], regimes_not_found=missing,
                   demand_histogram_mu_loop={str(n): sum(1 for x in info if x["mu_n"] == n) for n in LADDER if any(x["mu_n"] == n for x in info)},
                   demand_histogram_me2_loop={str(n): sum(1 for x in info if x["me2_n"] == n) for n in LADDER if any(x["me2_n"] == n for x in info)})
    return ins, summary


# ----------------------------------------------------------------------------
# totals reported by the API = sums of the public part functions (both resummation settings)
# ----------------------------------------------------------------------------
IDENT_MSSM = [
    ("1L", "a1l", ["chi0", "chipm"]),
    ("2L", "a2l", ["fsf", "ph_chipm", "ph_chi0", "a_sf", "a_cha"]),
    ("2L-fermion/sfermion", "fsf", ["ap2_whnu", "ap2_whmul", "ap2_bhmul", "ap2_bhmur", "ap2_bmulmur"]),
    ("1L-approximation", "ap1_sum", ["ap1_whnu", "ap1_whmul", "ap1_bhmul", "ap1_bhmur", "ap1_bmulmur"]),
    ("1L-non-resummed", "a1l_nr", ["nr_chi0", "nr_chipm"]),
    ("2L-non-resummed", "a2l_nr", ["nr_fsf", "nr_ph_chipm", "nr_ph_chi0", "nr_a_sf", "nr_a_cha"]),
]
IDENT_THDM = [
    ("2L", "a2l", ["a2l_B", "a2l_F"]),
    ("2L-bosonic", "a2l_B", ["B_EWadd", "B_nonYuk", "B_Yuk"]),
    ("2L-fermionic", "a2l_F", ["F_charged", "F_neutral"]),
]


def parts_sum(h, parts):
    vs = [C.hval(h.get(k)) for k in parts]
    if any(v is None for v in vs):
        return None, None
    tot = vs[0]
    for v in vs[1:]:
        tot = tot + v
    return tot, sum(abs(v) for v in vs)


def check_api_totals(typ, h, stats):
    """-> list of (key, what): every total of the API against the sum of its public parts (16 ulp of sum|parts|)"""
    fam = "THDM" if typ == "thdm" else "MSSM"
    out = []
    for tag, tk, parts in (IDENT_THDM if typ == "thdm" else IDENT_MSSM):
        tot = C.hval(h.get(tk))
        sm, mag = parts_sum(h, parts)
        if tot is None or sm is None or not (math.isfinite(tot) and math.isfinite(sm)):
            continue
        stats["api_totals_vs_parts"] = stats.get("api_totals_vs_parts", 0) + 1
        if abs(tot - sm) > 16 * 2.0 ** -52 * mag:
            out.append(("%s:api:total:%s" % (fam, tag), "API total %s = %r but the sum of its parts %s = %r (diff %.3e, %.1e of sum|parts|)"
                        % (tk, tot, "+".join(parts), sm, abs(tot - sm), abs(tot - sm) / mag if mag else 0.0)))
    if typ == "slha":
        e, a1, a2 = C.hval(h.get("a12_explicit_defaults")), C.hval(h.get("a1l")), C.hval(h.get("a2l"))
        if e is not None and a1 is not None and a2 is not None and math.isfinite(e) and math.isfinite(a1 + a2):
            stats["api_default_vs_explicit"] = stats.get("api_default_vs_explicit", 0) + 1
            if e != a1 + a2:
                out.append(("MSSM-slha:api:conversion-defaults", "convert_to_onshell() gives a_mu %r, convert_to_onshell(1e-8, 1000) "
                            "(the documented defaults spelled out) gives %r" % (a1 + a2, e)))
    return out


# ----------------------------------------------------------------------------
# detailed report: generic parser
# ----------------------------------------------------------------------------
PCT_RE = re.compile(r"\(\s*(-?[\d.]+|-?nan|-?inf)\s*%(?:\s+of\s+([^)]*))?\)")


def parse_detailed(text):
    """-> (items, errors).  item: dict(section, para, label, val, unc, pct, ref, idx, parts)"""
    items, section, para, cur = [], "", "", []
    lines = text.split("\n")
    for i, ln in enumerate(lines):
        st = ln.strip()
        if not st:
            para, cur = "", []
            continue
        if set(st) <= set("=-"):
            continue
        nums = list(C.SCI_RE.finditer(ln))
        if not nums:
            if st.endswith(":"):
                para, cur = st[:-1].strip(), []
            elif i > 0 and i + 1 < len(lines) and set(lines[i - 1].strip()) == {"="} and set(lines[i + 1].strip()) == {"="}:
                section, para, cur = st, "", []
            continue
        first = nums[0]
        label = ln[:first.start()].strip()
        label = re.sub(r"\s+", " ", label.rstrip("=:").strip())
        it = dict(section=section, para=para, label=label, val=first.group(0), unc=None, pct=None, ref=None,
                  idx=len(items), parts=None, line=ln)
        rest = ln[first.end():]
        m = re.match(r"\s*\+-\s*(" + C.SCI + ")", rest)
        if m:
            it["unc"] = m.group(1)
        pm = PCT_RE.search(rest)
        if pm:
            it["pct"], it["ref"] = pm.group(1), (pm.group(2) or "").strip()
        if label.lower() == "sum":
            it["parts"] = [c["idx"] for c in cur]
            cur = []          # a sum closes its group
        else:
            cur.append(it)
        items.append(it)
    return items


def resolve_ref(items, it):
    """the printed number a percentage is documented to be relative to, from the label text"""
    ref = it["ref"].lower()
    if ref == "full 1l + 2l result":
        # the headline: the one line that carries '+- uncertainty'
        c = [x for x in items if x["unc"] is not None]
        return c[0] if len(c) == 1 else None
    if ref == "2l result":
        # the total of the 2-loop section: the sum line this line is a part of
        c = [x for x in items if x["parts"] and it["idx"] in x["parts"] and "2-loop" in x["section"].lower()]
        return c[0] if len(c) == 1 else None
    return None


# (paragraph, label) -> harness key
MAP_MSSM = {
    ("full 1l with tan(beta) resummation", "chi^0"): "chi0",
    ("full 1l with tan(beta) resummation", "chi^+-"): "chipm",
    ("full 1l with tan(beta) resummation", "sum"): "a1l",
    ("full 1l without tan(beta) resummation", ""): "a1l_nr",
    ("1l approximation with tan(beta) resummation", "w-h-nu"): "ap1_whnu",
    ("1l approximation with tan(beta) resummation", "w-h-mul"): "ap1_whmul",
    ("1l approximation with tan(beta) resummation", "b-h-mul"): "ap1_bhmul",
    ("1l approximation with tan(beta) resummation", "b-h-mur"): "ap1_bhmur",
    ("1l approximation with tan(beta) resummation", "b-mul-mur"): "ap1_bmulmur",
    ("1l approximation with tan(beta) resummation", "sum"): "ap1_sum",
    ("2l best with tan(beta) resummation", ""): "a2l",
    ("2l best without tan(beta) resummation", ""): "a2l_nr",
    ("photonic with tan(beta) resummation", "chi^0"): "ph_chi0",
    ("photonic with tan(beta) resummation", "chi^+-"): "ph_chipm",
    ("photonic with tan(beta) resummation", "sum"): "+ph_chipm+ph_chi0",
    ("fermion/sfermion approximation with tan(beta) resummation", "w-h-nu"): "ap2_whnu",
    ("fermion/sfermion approximation with tan(beta) resummation", "w-h-mul"): "ap2_whmul",
    ("fermion/sfermion approximation with tan(beta) resummation", "b-h-mul"): "ap2_bhmul",
    ("fermion/sfermion approximation with tan(beta) resummation", "b-h-mur"): "ap2_bhmur",
    ("fermion/sfermion approximation with tan(beta) resummation", "b-mul-mur"): "ap2_bmulmur",
    ("fermion/sfermion approximation with tan(beta) resummation", "sum"): "fsf",
    ("2l(a) (1l insertions into 1l sm diagram) with tan(beta) resummation", "sfermion"): "a_sf",
    ("2l(a) (1l insertions into 1l sm diagram) with tan(beta) resummation", "cha^+-"): "a_cha",
    ("2l(a) (1l insertions into 1l sm diagram) with tan(beta) resummation", "sum"): "+a_sf+a_cha",
}
MAP_THDM = {("", "full 1l"): "a1l", ("", "bosonic 2l"): "a2l_B", ("", "fermionic 2l"): "a2l_F", ("", "sum"): "a2l"}
# totals that are documented to be the sum of sub-totals: key -> keys
TOTALS_MSSM = [("HEAD", ["a1l", "a2l"]), ("a2l", ["fsf", "+ph_chipm+ph_chi0", "+a_sf+a_cha"])]
TOTALS_THDM = [("HEAD", ["a1l", "a2l"])]


def api_of(h, key):
    """harness value for a map key ('+a+b' = sum in that order, as one double addition chain)"""
    if key.startswith("+"):
        vs = [C.hval(h.get(k)) for k in key[1:].split("+")]
        if any(v is None for v in vs):
            return None
        s = vs[0]
        for v in vs[1:]:
            s = s + v
        return s
    return C.hval(h.get(key))


def check_detailed(typ, out, h, fails, stats):
    """all checks on one detailed report; appends (key, what) to fails"""
    items = parse_detailed(out)
    mssm = typ != "thdm"
    fam = "MSSM" if mssm else "THDM"
    if not items:
        fails.append(("%s:detailed:unparsable" % fam, "no number found in the detailed report"))
        return
    bykey = {}
    table = MAP_MSSM if mssm else MAP_THDM
    head = [x for x in items if x["unc"] is not None]
    if len(head) != 1 or head[0]["idx"] != 0:
        # README: the uncertainty is written to the first line of the detailed output
        fails.append(("%s:detailed:headline" % fam, "the first number line does not carry 'value +- uncertainty': %r" % items[0]["line"]))
        return
    head = head[0]
    bykey["HEAD"] = head
    # (a) headline: value and uncertainty (README: uncertainty in the first line of the detailed output)
    a1, a2, u2 = C.hval(h.get("a1l")), C.hval(h.get("a2l")), C.hval(h.get("unc2"))
    if a1 is not None and a2 is not None and not C.agrees(head["val"], a1 + a2):
        fails.append(("%s:detailed:headline:value" % fam, "headline prints %s, API 1L+2L = %r" % (head["val"], a1 + a2)))
    if u2 is not None and not C.agrees(head["unc"], u2):
        fails.append(("%s:detailed:headline:uncertainty" % fam, "headline prints +- %s, API 2L uncertainty = %r" % (head["unc"], u2)))
    # (b) every component against the API
    for it in items[1:]:
        k = table.get((it["para"].lower(), it["label"].lower()))
        if k is None:
            if mssm and it["para"].lower() == "tan(beta) correction":
                bykey["TBCOR"] = it
            else:
                stats["detailed_unmapped_lines"] = stats.get("detailed_unmapped_lines", 0) + 1
            continue
        bykey[k] = it
        api = api_of(h, k)
        stats["detailed_numbers_vs_api"] = stats.get("detailed_numbers_vs_api", 0) + 1
        if api is not None and not C.agrees(it["val"], api):
            fails.append(("%s:detailed:value:%s/%s" % (fam, it["para"] or "-", it["label"] or "-"),
                          "detailed report prints %s for '%s / %s', API gives %r (%s)"
                          % (it["val"], it["para"], it["label"], api, k)))
    # (b') the totals "without tan(beta) resummation" against the sums of the part functions on the copy
    # converted to tree-level Yukawa couplings
    for k, parts in (("a1l_nr", ["nr_chi0", "nr_chipm"]), ("a2l_nr", ["nr_fsf", "nr_ph_chipm", "nr_ph_chi0", "nr_a_sf", "nr_a_cha"])):
        sm, mag = parts_sum(h, parts)
        if k in bykey and sm is not None and math.isfinite(sm) and math.isfinite(C.pnum(bykey[k]["val"])):
            stats["detailed_nonresummed_vs_parts"] = stats.get("detailed_nonresummed_vs_parts", 0) + 1
            if abs(C.pnum(bykey[k]["val"]) - sm) > C.half_ulp(bykey[k]["val"]) * (1 + 1e-6) + 16 * 2.0 ** -52 * mag:
                fails.append(("%s:detailed:non-resummed-total:%s" % (fam, k),
                              "'%s' prints %s, the parts on the non-resummed model sum to %r" % (bykey[k]["para"], bykey[k]["val"], sm)))
    # (c) sum lines = sum of the printed parts above them
    for it in items:
        if it["parts"]:
            ps = [items[j] for j in it["parts"]]
            vals = [C.pnum(p["val"]) for p in ps]
            tot = C.pnum(it["val"])
            stats["detailed_sum_lines"] = stats.get("detailed_sum_lines", 0) + 1
            if all(math.isfinite(v) for v in vals + [tot]):
                tol = sum(C.half_ulp(p["val"]) for p in ps) + C.half_ulp(it["val"]) + 8 * 2.0 ** -52 * sum(abs(v) for v in vals)
                if abs(sum(vals) - tot) > tol * (1 + 1e-6):
                    fails.append(("%s:detailed:sum:%s" % (fam, it["para"] or it["section"]),
                                  "sum line %s != sum of the %d printed parts %s = %.9e (|diff| %.2e > %.2e)"
                                  % (it["val"], len(ps), [p["val"] for p in ps], sum(vals), abs(sum(vals) - tot), tol)))
        elif it["label"].lower() == "sum":
            fails.append(("%s:detailed:sum-without-parts" % fam, "sum line without parts: %r" % it["line"]))
    # (d) totals = sub-totals (as printed)
    for tk, pks in (TOTALS_MSSM if mssm else TOTALS_THDM):
        if tk in bykey and all(p in bykey for p in pks):
            ps = [bykey[p] for p in pks]
            vals = [C.pnum(p["val"]) for p in ps]
            tot = C.pnum(bykey[tk]["val"])
            stats["detailed_totals"] = stats.get("detailed_totals", 0) + 1
            if all(math.isfinite(v) for v in vals + [tot]):
                tol = sum(C.half_ulp(p["val"]) for p in ps) + C.half_ulp(bykey[tk]["val"]) + 8 * 2.0 ** -52 * sum(abs(v) for v in vals)
                if abs(sum(vals) - tot) > tol * (1 + 1e-6):
                    fails.append(("%s:detailed:total:%s" % (fam, tk),
                                  "total %s (%s) != %s = %.9e" % (bykey[tk]["val"], tk, " + ".join(p["val"] for p in ps), sum(vals))))
    # (e) percentages: 100 * own number / reference named in the label
    for it in items:
        if it["pct"] is None:
            continue
        if it is bykey.get("TBCOR") and not it["ref"]:
            # label 'amu(1L) * (1 / (1 + Delta_mu) - 1) = X (p%)': p is the bracket in percent
            tbc, nr = C.hval(h.get("tbc")), C.hval(h.get("a1l_nr"))
            stats["detailed_percentages"] = stats.get("detailed_percentages", 0) + 1
            if tbc is not None and math.isfinite(tbc):
                if nr is not None and not C.agrees(it["val"], (tbc - 1.0) * nr):
                    fails.append(("MSSM:detailed:value:tan(beta) correction", "prints %s, API (1/(1+Delta_mu)-1)*amu1L(no resummation) = %r"
                                  % (it["val"], (tbc - 1.0) * nr)))
                p = C.pnum(it["pct"])
                if math.isfinite(p) and abs(p - 100.0 * (tbc - 1.0)) > 0.05 * (1 + 1e-9) + 1e-7:
                    fails.append(("MSSM:detailed:pct:tan(beta) correction", "prints %s%%, API 100*(1/(1+Delta_mu)-1) = %.4f"
                                  % (it["pct"], 100.0 * (tbc - 1.0))))
            continue
        ref = resolve_ref(items, it)
        if ref is None:
            stats["detailed_unresolved_refs"] = stats.get("detailed_unresolved_refs", 0) + 1
            continue
        stats["detailed_percentages"] = stats.get("detailed_percentages", 0) + 1
        n, rv, p = C.pnum(it["val"]), C.pnum(ref["val"]), C.pnum(it["pct"])
        if not (math.isfinite(n) and math.isfinite(rv) and rv != 0 and math.isfinite(p)):
            stats["detailed_pct_nonfinite"] = stats.get("detailed_pct_nonfinite", 0) + 1
            continue
        digits = len(it["pct"].split(".")[1]) if "." in it["pct"] else 0
        hp = 0.5 * 10.0 ** -digits
        exact = 100.0 * n / rv
        tol = hp * (1 + 1e-9) + 100.0 * (C.half_ulp(it["val"]) / abs(rv) + abs(n) * C.half_ulp(ref["val"]) / (rv * rv)) + 1e-9
        if abs(p - exact) > tol:
            fails.append(("%s:detailed:pct:%s/%s" % (fam, it["para"] or "-", it["label"] or "-"),
                          "'%s' prints %s%% of %s; 100 x %s / %s (%s) = %.4f"
                          % (it["line"].strip(), it["pct"], it["ref"], it["val"], ref["val"], ref["label"], exact)))
    return bykey


# ----------------------------------------------------------------------------
# SLHA-type output
# ----------------------------------------------------------------------------
RESULT_LOC = {2: ("LOWEN", "6"), 3: ("SPHENOLOWENERGY", "21"), 4: ("GM2CALCOUTPUT", "0")}


def spinfo_lines(text):
    return sorted((tk[0], " ".join(tk[1:])) for tk in C.block_entries(text, "SPINFO") if tk[0] in ("1", "2", "3", "4"))


def written_locations(fmt, unc, text_in, out):
    """(BLOCK, key) entries GM2Calc writes for this configuration; SPINFO 1-4 only if it reported something
    (i.e. the SPINFO 1-4 content of the output is not the input's)"""
    loc = {RESULT_LOC[fmt]}
    if unc:
        loc.add(("GM2CALCOUTPUT", "1"))
    if spinfo_lines(text_in) != spinfo_lines(out):
        loc |= {("SPINFO", k) for k in "1234"}
    return loc


def strip_results(text, loc):
    """line list with the entries at the written locations removed; headers of the result blocks that
    hold nothing else are removed as well"""
    names = {b for b, _ in loc}
    out = []
    for nm, hdr, body in C.split_blocks(text):
        keep = []
        for ln in body:
            tk = C.data_tokens(ln)
            if nm in names and tk and (nm, tk[0]) in loc:
                continue
            keep.append(ln.rstrip())
        if hdr is not None:
            if nm in names and not any(C.data_tokens(x) for x in keep) and not any(x.strip() for x in keep):
                continue
            out.append(hdr.rstrip())
        out += keep
    while out and out[-1] == "":
        out.pop()
    return out


def check_slha(fam, c, text_in, out, h, fails, stats, res):
    """strict reading of SLHA-type output: no key twice, result entries with first- and last-wins
    semantics, the rest of the input echoed exactly once and unchanged"""
    fmt, loop, resum, force, verbose, unc, run = c
    blk, key = RESULT_LOC[fmt]
    # (a) no block of the output carries a key more often than the input did
    cin, cout = C.key_counts(text_in), C.key_counts(out)
    for (b_, k_), n_ in sorted(cout.items()):
        if n_ > 1 and n_ > cin.get((b_, k_), 0):
            vals = C.entries_all(out, b_, k_[0]) if len(k_) == 1 else []
            fails.append(("%s:fmt%d:duplicate-entry:%s[%s]" % (fam, fmt, b_, ",".join(k_)),
                          "output block %s carries key %s %d times (input: %d)%s"
                          % (b_, ",".join(k_), n_, cin.get((b_, k_), 0), ": values %s" % vals if vals else "")))
    stats["slha_outputs_key_unique_checked"] = stats.get("slha_outputs_key_unique_checked", 0) + 1
    # (b) value / uncertainty: whatever a reader takes (first or last occurrence) must be the API number
    vs = C.entries_all(out, blk, key)
    val = C.hval(h.get("val"))
    if not vs:
        fails.append(("%s:fmt%d:value-missing" % (fam, fmt), "no %s[%s] in the output" % (blk, key)))
    else:
        res["amu"] = vs[-1]
        if C.ndigits(vs[-1]) != 9:
            stats["slha_digits_not_9"] = stats.get("slha_digits_not_9", 0) + 1
        for sem, v in (("first", vs[0]), ("last", vs[-1])):
            if val is not None and not C.agrees(v, val):
                fails.append(("%s:fmt%d:value:loop%d:resum%d" % (fam, fmt, loop, resum),
                              "%s[%s] (%s occurrence of %d) = %s, API for loop order %d / resummation %d gives %r"
                              % (blk, key, sem, len(vs), v, loop, resum, val)))
                break
    us = C.entries_all(out, "GM2CALCOUTPUT", "1")
    us_in = C.entries_all(text_in, "GM2CALCOUTPUT", "1")
    if unc:
        if not us:
            fails.append(("%s:fmt%d:uncertainty-missing" % (fam, fmt), "uncertainty requested but GM2CalcOutput[1] is absent"))
        else:
            res["unc"] = us[-1]
            uv = C.hval(h.get("unc"))
            for sem, u in (("first", us[0]), ("last", us[-1])):
                if uv is not None and not C.agrees(u, uv):
                    fails.append(("%s:fmt%d:uncertainty:loop%d" % (fam, fmt, loop),
                                  "GM2CalcOutput[1] (%s occurrence of %d) = %s, API uncertainty at loop order %d = %r"
                                  % (sem, len(us), u, loop, uv)))
                    break
    elif us != us_in:
        fails.append(("%s:fmt%d:uncertainty-unrequested" % (fam, fmt),
                      "GM2CalcOutput[1] = %s although uncertainty was not requested (input had %s)" % (us, us_in)))
    # (c) echo: everything but the written entries is the input, line by line, each line once
    loc = written_locations(fmt, unc, text_in, out)
    a, b = strip_results(text_in, loc), strip_results(out, loc)
    stats["echo_compared"] = stats.get("echo_compared", 0) + 1
    if a != b:
        d = next((i for i in range(min(len(a), len(b))) if a[i] != b[i]), min(len(a), len(b)))
        fails.append(("%s:fmt%d:echo" % (fam, fmt), "output minus result entries differs from the input at line %d: input %r, output %r"
                      % (d, a[d] if d < len(a) else None, b[d] if d < len(b) else None)))
    # each written location holds exactly one line
    for (b_, k_) in sorted(loc):
        if b_ != "SPINFO":
            n_ = len(C.entries_all(out, b_, k_))
            if n_ > 1:
                stats["written_entry_multiple"] = stats.get("written_entry_multiple", 0) + 1


# ----------------------------------------------------------------------------
# one input: all 480 combinations
# ----------------------------------------------------------------------------
def expected_refusal(typ, c, h):
    """does the API mirror throw where the program needs the number for this format?"""
    fmt, loop, resum, force, verbose, unc, run = c
    if h.get("setup", "").startswith("EXC"):
        return True
    exc = lambda k: h.get(k, "").startswith("EXC")
    if fmt == 0:
        return exc("unc") if unc else exc("val")
    if fmt == 1:
        ks = (["a1l", "a2l", "chi0", "chipm", "ph_chi0", "ph_chipm", "fsf", "a_sf", "a_cha", "unc2", "tbc",
               "a1l_nr", "a2l_nr"] if typ != "thdm" else ["a1l", "a2l", "a2l_B", "a2l_F", "unc2"])
        return any(exc(k) for k in ks)
    return exc("val") or (unc and exc("unc"))


def run_input(job):
    idx, name, typ, text, combos, cli, exe, root = job
    combos = combos or COMBOS
    d = os.path.join(root, "i%03d" % idx)
    os.makedirs(d, exist_ok=True)
    base = C.strip_config(text)
    fam = {"slha": "MSSM-slha", "gm2calc": "MSSM-gm2", "thdm": "THDM"}[typ]
    fails, stats, keys, results = [], {}, set(), {}
    paths, texts = [], []
    for n, c in enumerate(combos):
        t = base + C.config_block(c)
        pth = os.path.join(d, "c%03d.in" % n)
        with open(pth, "w", encoding="latin-1") as fh:
            fh.write(t)
        paths.append(pth); texts.append(t)
    hs, err = C.run_harness(exe, "c15", ["%s %s" % (typ, p) for p in paths], "F")
    if hs is None:
        return dict(name=name, infra="cli_api c15 failed on %s: %s" % (name, err))
    n_ref = n_ok = 0
    api_seen = set()
    for n, c in enumerate(combos):
        fmt, loop, resum, force, verbose, unc, run = c
        h = hs[n]
        for k_, w_ in check_api_totals(typ, h, stats):
            if k_ not in api_seen:
                api_seen.add(k_)
                fails.append((k_, "%s [%s, config fmt=%d loop=%d resum=%d force=%d verbose=%d unc=%d running=%d]"
                              % (w_, name, fmt, loop, resum, force, verbose, unc, run), c))
        want = "%d,%d,%d,%d,%d,%d,%d" % c
        if not h.get("setup", "").startswith("EXC") and h.get("cfg") != want:
            return dict(name=name, infra="harness read configuration %s, written %s (%s)" % (h.get("cfg"), want, name))
        rc, out, errtxt = C.run_cli(cli, typ, paths[n])
        def F(key, what):
            fails.append((key, "%s [%s, config fmt=%d loop=%d resum=%d force=%d verbose=%d unc=%d running=%d]"
                          % (what, name, fmt, loop, resum, force, verbose, unc, run), c))
        if rc not in (0, 1):
            F("%s:fmt%d:exit-status" % (fam, fmt), "program ended with status %r, stderr %r" % (rc, errtxt[-200:]))
            continue
        refuse = expected_refusal(typ, c, h)
        # did the program report a physics number?
        if fmt in (0, 1):
            has_out = bool(out.strip())
        else:
            blk, key = RESULT_LOC[fmt]
            # an error is reported through SPINFO[4]; an SPINFO[4] that was already in the input is an echo
            s4o, s4i = C.entries_all(out, "SPINFO", "4"), C.entries_all(texts[n], "SPINFO", "4")
            s4line = lambda t: [" ".join(tk) for tk in C.block_entries(t, "SPINFO") if tk[0] == "4"]
            has_out = C.entry(out, blk, key) is not None and (not s4o or s4line(out) == s4line(texts[n]))
        if refuse or not has_out:
            if refuse and not has_out and rc == 1:
                n_ref += 1
                keys.add((name, fam, "refused", fmt))
            else:
                F("%s:fmt%d:refusal-mismatch" % (fam, fmt),
                  "API mirror %s for this file but the program %s (exit %d)"
                  % ("throws (%s)" % (h.get("setup") if h.get("setup", "").startswith("EXC") else "calculation")
                     if refuse else "returns a value", "printed a result" if has_out else "printed no result", rc))
            continue
        n_ok += 1
        res = {}
        cf = []
        if typ != "thdm":
            # exit status and convergence warnings as the API object reports them
            want_rc = 1 if h.get("problem") == "1" else 0
            if rc != want_rc:
                cf.append(("%s:fmt%d:exit-status-vs-api" % (fam, fmt), "exit status %d, the API model has have_problem() = %s" % (rc, h.get("problem"))))
            wtxt = " ".join(C.unesc(h.get("warnings", "-")).split())
            shown = " ".join(errtxt.split()) + " | " + " | ".join(" ".join(tk[1:]) for tk in C.block_entries(out, "SPINFO") if tk[0] == "3")
            stats["warning_text_compared"] = stats.get("warning_text_compared", 0) + 1
            if h.get("warning") == "1":
                if wtxt not in " ".join(errtxt.split()):
                    cf.append(("%s:fmt%d:warning-text" % (fam, fmt), "API warning %r is not on stderr (%r)" % (wtxt, errtxt[-300:])))
                if fmt >= 2 and wtxt not in shown.split(" | ", 1)[1]:
                    cf.append(("%s:fmt%d:warning-text" % (fam, fmt), "API warning %r is not in SPINFO[3]" % wtxt))
            else:
                for phrase in ("conversion for Mu, M1, M2 failed", "conversion for me2 failed"):
                    if phrase in shown:
                        cf.append(("%s:fmt%d:warning-unexpected" % (fam, fmt), "program reports '%s' but the API model has no warning" % phrase))
        if fmt == 0:
            ls = [x for x in out.split("\n") if x.strip()]
            if len(ls) != 1 or not C.SCI_RE.fullmatch(ls[0].strip()):
                F("%s:fmt0:shape" % fam, "minimal output is not a single number: %r" % out[:200])
                continue
            tok = ls[0].strip()
            if C.ndigits(tok) != 9 and "nan" not in tok and "inf" not in tok:
                stats["minimal_digits_not_9"] = stats.get("minimal_digits_not_9", 0) + 1
            api = C.hval(h.get("unc" if unc else "val"))
            res["unc" if unc else "amu"] = tok
            if not C.agrees(tok, api):
                cf.append(("%s:fmt0:%s:loop%d:resum%d" % (fam, "uncertainty" if unc else "value", loop, resum),
                           "minimal output prints %s, API %s for loop order %d / resummation %d gives %r"
                           % (tok, "uncertainty" if unc else "value", loop, resum, api)))
        elif fmt == 1:
            bk = check_detailed(typ, out, h, cf, stats)
            if bk and "HEAD" in bk:
                res["detailed_head"] = bk["HEAD"]["val"]
                res["detailed_unc"] = bk["HEAD"]["unc"]
        else:
            check_slha(fam, c, texts[n], out, h, cf, stats, res)
        for k, w in cf:
            F(k, w)
        results[c] = res
        keys.add((name, fam, fmt, loop, resum, unc, "problem" if h.get("problem") == "1" else "ok",
                  "nan" if any("nan" in str(v) for v in res.values()) else "finite"))
    # cross-format: same quantity, same options -> same printed number
    for g in itertools.product(range(3), (0, 1), (0, 1), (0, 1)):
        loop, resum, force, run = g
        amus, uncs = {}, {}
        for fmt in (0, 2, 3, 4):
            for verbose in (0, 1):
                for unc in (0, 1):
                    r_ = results.get((fmt, loop, resum, force, verbose, unc, run))
                    if not r_:
                        continue
                    if "amu" in r_:
                        amus[(fmt, verbose, unc)] = r_["amu"]
                    if "unc" in r_:
                        uncs[(fmt, verbose, unc)] = r_["unc"]
        for what, dct in (("value", amus), ("uncertainty", uncs)):
            vals = {}
            for k, v in sorted(dct.items()):
                vals.setdefault(repr(C.pnum(v)), []).append(k)
            if len(vals) > 1:
                fails.append(("%s:cross-format:%s" % (fam, what),
                              "formats disagree on the %s at loop=%d resum=%d force=%d running=%d: %s [%s]"
                              % (what, loop, resum, force, run, {k: v[:3] for k, v in vals.items()}, name),
                              (0, loop, resum, force, 0, 0, run)))
            if dct:
                stats["cross_format_groups"] = stats.get("cross_format_groups", 0) + 1
        # the detailed headline is the 2-loop, resummed number of the other formats
        if loop == 2 and resum == 1:
            for verbose in (0, 1):
                for unc in (0, 1):
                    dd = results.get((1, loop, resum, force, verbose, unc, run))
                    ss = results.get((4, loop, resum, force, verbose, 1, run))
                    if dd and ss and "detailed_head" in dd and "amu" in ss:
                        if repr(C.pnum(dd["detailed_head"])) != repr(C.pnum(ss["amu"])) or \
                                (dd.get("detailed_unc") and "unc" in ss and repr(C.pnum(dd["detailed_unc"])) != repr(C.pnum(ss["unc"]))):
                            fails.append(("%s:cross-format:detailed-vs-GM2CalcOutput" % fam,
                                          "detailed headline %s +- %s, GM2CalcOutput %s +- %s [%s force=%d running=%d]"
                                          % (dd["detailed_head"], dd.get("detailed_unc"), ss["amu"], ss.get("unc"), name, force, run),
                                          (1, 2, 1, force, verbose, unc, run)))
    shutil.rmtree(d, ignore_errors=True)
    return dict(name=name, typ=typ, fails=fails, stats=stats, keys=sorted(keys, key=repr), refused=n_ref, checked=n_ok,
                ncombos=len(combos), infra=None)


def run_all(ctx, ins):
    build.ensure("plain")
    cli, exe = build.cli("plain"), C.harness_exe()
    root = C.scratch("c15")
    jobs = [(i, nm, typ, text, combos, cli, exe, root) for i, (nm, typ, text, combos) in enumerate(ins)]
    res = []
    try:
        with mp.Pool(min(16, os.cpu_count() or 4)) as pool:
            for r_ in pool.imap(run_input, jobs, chunksize=1):
                if r_.get("infra"):
                    raise InfraError(r_["infra"])
                res.append(r_)
                if ctx.out_of_time("inputs"):
                    pool.terminate()
                    break
    finally:
        shutil.rmtree(root, ignore_errors=True)
    return res


def run(ctx):
    ins = inputs(ctx.quick)
    build.ensure("plain")
    sroot = C.scratch("c15scan")
    try:
        conv, summary = convergence_inputs(C.harness_exe(), sroot)
    finally:
        shutil.rmtree(sroot, ignore_errors=True)
    ctx.note("convergence_regime_scan", summary)
    if not any(("mu-loop~600" in nm or "mu-loop~900" in nm) for nm, _, _, _ in conv):
        ctx.cap("no SLHA input needing 500-1000 Mu/M1/M2 iterations found by the scan")
    ins += conv
    res = run_all(ctx, ins)
    tot = {}
    never = []
    bytext = {nm: (typ, text) for nm, typ, text, _ in ins}
    for r_ in res:
        ctx.evals(r_["ncombos"])
        ctx.add("cases_checked_against_api", r_["checked"])
        ctx.add("cases_refused_consistently", r_["refused"])
        if r_["checked"] == 0:
            never.append(r_["name"])
        for k, v in r_["stats"].items():
            tot[k] = tot.get(k, 0) + v
        for k in r_["keys"]:
            ctx.nontrivial(tuple(k))
        for key, what, cmb in r_["fails"]:
            typ, text = bytext[r_["name"]]
            ctx.fail(key, what, {"name": r_["name"], "type": typ, "text": text, "combo": list(cmb), "key": key})
    for k, v in sorted(tot.items()):
        ctx.note(k, v)
    ctx.note("inputs", len(res))
    ctx.note("inputs_with_preexisting_result_blocks", sum(1 for r_ in res if "|stale:" in r_["name"]))
    ctx.note("runs_on_inputs_with_preexisting_result_blocks", sum(r_["ncombos"] for r_ in res if "|stale:" in r_["name"]))
    ctx.note("inputs_by_type", {t: sum(1 for r_ in res if r_["typ"] == t) for t in ("slha", "gm2calc", "thdm")})
    ctx.note("inputs_refused_under_all_combinations", sorted({n.split("|")[0] for n in never}))
    ctx.sample({"input": res[0]["name"], "combination": "fmt,loop,resum,force,verbose,unc,running", "first": list(COMBOS[0]), "last": list(COMBOS[-1])})
    ctx.sample({"per_input_checked/refused": [(r_["name"], r_["checked"], r_["refused"]) for r_ in res[:8]]})
    if tot.get("detailed_percentages", 0) == 0 or tot.get("detailed_sum_lines", 0) == 0 or tot.get("echo_compared", 0) == 0:
        raise InfraError("vacuous run: no percentage / sum line / echo was checked (%r)" % tot)
    ctx.assumptions += [
        "the harness reads the file with the same GM2_slha_io reader as the program (reader semantics are C13's subject)",
        "labels of the detailed report are mapped to API functions by a table; lines with unknown labels are only checked generically (counted in detailed_unmapped_lines)",
        "inputs that are refused under a configuration are checked for agreement of the refusal only",
        "convergence regimes of convert_to_onshell() are found by a scan through the library itself (iteration demand = first "
        "max_iterations from which the converted parameters no longer change); regimes the scan does not reach are listed in "
        "convergence_regime_scan.regimes_not_found"]
    return ctx.finish(
        "inputs = 3 examples + every point of test/test_points.sh + %d lattice points; per input the full product "
        "5 formats x 3 loop orders x resummation x force x verbose x uncertainty x running = 480, GM2CalcConfig block rewritten; "
        "plus every input x pre-existing result blocks (LOWEN[6], SPhenoLowEnergy[21], GM2CalcOutput[0], [1]: alone / next to other keys, "
        "all together, empty blocks, SPINFO 1-4) x 5 formats x uncertainty (x force in the thorough tier); "
        "distinct = (input id, input family, format, loop order, resummation, uncertainty flag, problem flag, finiteness)"
        % sum(1 for nm, _, _, c_ in ins if nm.startswith("lat:") and c_ is None),
        {"combinations_per_input": len(COMBOS)})


def replay(ctx, path):
    import json
    d = json.load(open(path))["data"]
    res = run_all(ctx, [(d["name"], d["type"], d["text"], None)])
    hits = [f for f in res[0]["fails"] if f[0] == d["key"]]
    if hits:
        print("replay: %s" % hits[0][1])
        print("VIOLATION property=C15 replay=%s" % path)
        return 1
    print("replay: holds now: %s, %d combinations checked, no failure with key %s" % (d["name"], res[0]["checked"], d["key"]))
    return 0
