"""C18 - uncertainty estimates are finite, non-negative and composed as documented.

Bounded exhaustive exploration of two model lattices with harness/unc.cpp as evaluator:
 * MSSM: base points (input/example.gm2, test_points/BM*, P*) x tan(beta) x all 8 sign patterns of (mu, M1, M2)
   x an A_mu scan in units of mu*tan(beta) (fA = 1 switches the tree-level smuon mixing off; the scan drives
   the 2L(a) and the 1L/2L terms through sign changes);
 * THDM: mass basis, 6 Yukawa types x tan(beta) x (mH, mA, mH+) with mA, mH+ down to 0.05 GeV so that
   log(m_NP/m_mu) changes sign (m_NP = m_mu exactly is a lattice point).
For every model with finite a_mu: estimates finite and >= 0, floor of the 2L estimate, the documented sums
(gm2_uncertainty.cpp doc comments), and all overloads taking precomputed a_mu values."""
import concurrent.futures as cf
import glob
import json
import math
import os
import struct
import subprocess

import build
from core import InfraError, hexf, unhex

META = dict(
    level="exploration",
    technique="exhaustive model-lattice enumeration (all sign patterns, A_mu and light-scalar scans), documented-composition oracle on every uncertainty overload",
    text="Every model of the MSSM lattice (11 base points x tan beta x 8 sign patterns of mu, M1, M2 x A_mu scan) and of the THDM lattice (6 Yukawa types x tan beta x heavy-Higgs masses from 0.05 GeV to 1 TeV, including m_NP = m_mu exactly, x sin(beta-alpha)) that yields a finite a_mu is checked: three estimates finite and >= 0, 2L estimate >= 2.3e-10 / 2e-12, delta_1L = |a_2L| + delta_2L, delta_0L = |a_1L| (MSSM) resp. |a_1L| + |a_2L| (THDM), delta_2L equal to the documented formula evaluated from the library's own ingredients, overloads with precomputed values bitwise equal to the computing ones and honouring other arguments. Exhaustive over the lattices only.",
    note="trusted: Python float arithmetic for the sums (2 ulp slack), libm log; the a_mu values themselves are not judged here (C03/C08/C11)",
    design_ref="3/C18")

HARNESSES = [(("unc", "plain", ["unc.cpp"]), {})]

REPO = build.REPO
X1M, X2M = -1.25e-9, -3.5e-10      # arbitrary arguments for the precomputed-value overloads (negative on purpose)
X1T, X2T = -3e-9, 2e-10
MM = 0.1056583715
ULP = 2.0 ** -52
NPROC = 16


def _infra(ctx, msg):
    """lattice sanity guards: an infrastructure error unless failures were already recorded (then they are the story)"""
    if not getattr(ctx, "violations", None):
        raise InfraError(msg)
    print("  note: " + msg)


def _exe():
    return build.harness("unc", "plain", ["unc.cpp"])


def bases():
    fs = [os.path.join(REPO, "input", "example.gm2")]
    fs += sorted(glob.glob(os.path.join(REPO, "test", "test_points", "BM*_2L_resummed.in")))
    fs += sorted(glob.glob(os.path.join(REPO, "test", "test_points", "P*_2L_resummed*.in")))
    return fs


def _run_chunk(args):
    exe, text = args
    p = subprocess.run([exe], input=text, stdout=subprocess.PIPE, stderr=subprocess.PIPE, text=True, timeout=3000)
    if p.returncode != 0:
        raise InfraError("unc harness exit %d: %s" % (p.returncode, p.stdout[-300:] + p.stderr[-300:]))
    return [ln for ln in p.stdout.split("\n") if ln[:2] in ("M ", "T ")], [ln for ln in p.stdout.split("\n") if ln.startswith(("B EXC", "ERR"))]


def evaluate(kind, lines, base_files=()):
    """lines: list of model spec strings; returns result lines in order"""
    exe = _exe()
    n = max(1, min(NPROC, len(lines) // 20))
    chunks = [lines[i::n] for i in range(n)]
    pre = "".join("base %d %s\n" % (i, f) for i, f in enumerate(base_files))
    tasks = [(exe, pre + "%s %d\n%s\n" % (kind, len(c), "\n".join(c))) for c in chunks]
    out = [None] * len(lines)
    with cf.ThreadPoolExecutor(n) as ex:
        for ci, (res, errs) in enumerate(ex.map(_run_chunk, tasks)):
            if errs:
                raise InfraError("unc harness: " + errs[0])
            if len(res) != len(chunks[ci]):
                raise InfraError("unc harness: %d results for %d models" % (len(res), len(chunks[ci])))
            for k, ln in enumerate(res):
                out[ci + k * n] = ln
    return out


def same(a, b):
    return struct.pack("d", a) == struct.pack("d", b)


def close(a, b, nulp=2):
    return a == b or abs(a - b) <= nulp * ULP * max(abs(a), abs(b))


def fin(*v):
    return all(math.isfinite(x) for x in v)


# ---------------------------------------------------------------- MSSM
def mssm_lattice(quick):
    tbs = [float("nan"), 2.0, 10.0, 50.0, 1000.0] if quick else [float("nan"), 1.0, 2.0, 5.0, 10.0, 30.0, 50.0, 100.0, 1000.0]
    fas = [0.0, 0.5, 0.9, 1.0, 1.1, -1.0, 2.0, -5.0, 20.0] if quick else [0.0, 0.25, -0.25, 0.5, -0.5, 0.9, 1.0, 1.1, -1.0, 2.0, -2.0, 5.0, -5.0, 20.0, -20.0]
    signs = [(a, b, c) for a in (1, -1) for b in (1, -1) for c in (1, -1)]
    return tbs, fas, signs


def judge_mssm(ctx, st, spec, bn, tb, sg, fa, ln):
    ctx.evals(1)
    tk = ln.split()
    if tk[1] == "EXC":
        st["rejected"] += 1
        return
    a1, a2, d0, d1, d2, d0p, d1p, d0x, d1x, cha, sf = [unhex(t) for t in tk[2:13]]
    if not fin(a1, a2):
        st["nonfinite_amu"] += 1
        return
    st["ok" if tk[1] == "OK" else "forced"] += 1
    st["a1L_neg"] += a1 < 0; st["a2L_neg"] += a2 < 0; st["cha_neg"] += cha < 0; st["sferm_neg"] += sf < 0
    st["a2L_exceeds_a1L"] += abs(a2) > abs(a1)
    desc = "MSSM %s tan(beta)=%s sign(mu,M1,M2)=%r A_mu=A_mu0%+g*mu*tb [a1L=%.4g a2L=%.4g 2LaCha=%.4g 2LaSferm=%.4g]" % (
        bn, "file" if math.isnan(tb) else "%g" % tb, sg, fa, a1, a2, cha, sf)
    data = {"model": "mssm", "spec": spec, "base": bn, "tb": repr(tb), "signs": list(sg), "fA": fa}
    cls = "sign(cha,sferm,a2L,a1L)=%d%d%d%d" % (cha < 0, sf < 0, a2 < 0, a1 < 0)
    ctx.nontrivial(("mssm", cls, tk[1]))
    for name, v in (("delta_0L", d0), ("delta_1L", d1), ("delta_2L", d2)):
        if not (math.isfinite(v) and v >= 0):
            ctx.fail("MSSM:%s:not-finite-nonnegative" % name, "%s: %s = %r" % (desc, name, v), data)
    if not fin(d0, d1, d2):
        return
    st["min_d2"] = min(st["min_d2"], d2); st["max_d2"] = max(st["max_d2"], d2)
    if not d2 >= 2.3e-10:
        ctx.fail("MSSM:delta_2L:below-floor", "%s: delta_2L = %r is below the documented floor 2.3e-10" % (desc, d2), data)
    ref2 = 2.3e-10 + 0.3 * (abs(cha) + abs(sf))
    if not close(d2, ref2):
        ctx.fail("MSSM:delta_2L:formula", "%s: delta_2L = %r, documented 2.3e-10 + 0.3 (|2L(a) cha| + |2L(a) sferm|) = %r" % (desc, d2, ref2), data)
    if not close(d1, abs(a2) + d2):
        ctx.fail("MSSM:delta_1L:sum", "%s: delta_1L = %r but |a_2L| + delta_2L = %r" % (desc, d1, abs(a2) + d2), data)
    if not same(d0, abs(a1)):
        ctx.fail("MSSM:delta_0L:sum", "%s: delta_0L = %r but |a_1L| = %r" % (desc, d0, abs(a1)), data)
    if not (same(d0p, d0) and same(d1p, d1)):
        ctx.fail("MSSM:overload:precomputed-differs", "%s: with precomputed a_mu delta_0L, delta_1L = %r, %r; computing overloads give %r, %r"
                 % (desc, d0p, d1p, d0, d1), data)
    if not same(d0x, abs(X1M)):
        ctx.fail("MSSM:overload:delta_0L-ignores-argument", "%s: calculate_uncertainty_amu_0loop(model, %r) = %r, expected %r" % (desc, X1M, d0x, abs(X1M)), data)
    if not close(d1x, abs(X2M) + d2):
        ctx.fail("MSSM:overload:delta_1L-ignores-argument", "%s: calculate_uncertainty_amu_1loop(model, %r) = %r, expected |x| + delta_2L = %r"
                 % (desc, X2M, d1x, abs(X2M) + d2), data)


def check_mssm(ctx):
    files = bases()
    if len(files) < 6:
        raise InfraError("base points missing: %r" % files)
    tbs, fas, signs = mssm_lattice(ctx.quick)
    specs, meta = [], []
    for bi, f in enumerate(files):
        for tb in tbs:
            for sg in signs:
                for fa in fas:
                    specs.append("%d %s %d %d %d %s %s %s" % (bi, "nan" if math.isnan(tb) else hexf(tb), sg[0], sg[1], sg[2], hexf(fa), hexf(X1M), hexf(X2M)))
                    meta.append((os.path.basename(f), tb, sg, fa))
    res = evaluate("mssm", specs, files)
    st = dict(models=len(specs), ok=0, forced=0, rejected=0, nonfinite_amu=0, a1L_neg=0, a2L_neg=0, cha_neg=0, sferm_neg=0,
              a2L_exceeds_a1L=0, min_d2=float("inf"), max_d2=0.0)
    for spec, (bn, tb, sg, fa), ln in zip(specs, meta, res):
        judge_mssm(ctx, st, spec, bn, tb, sg, fa, ln)
    ctx.note("mssm", st)
    ctx.sample({"mssm bases": [os.path.basename(f) for f in files], "tan_beta": [("file" if math.isnan(t) else t) for t in tbs], "fA": fas})
    checked = st["ok"] + st["forced"]
    if checked < 0.5 * len(specs):
        _infra(ctx, "MSSM lattice: only %d of %d models give a finite a_mu" % (checked, len(specs)))
    for k in ("a2L_neg", "cha_neg", "sferm_neg", "a1L_neg"):
        if st[k] == 0 or st[k] == checked:
            _infra(ctx, "MSSM lattice does not reach both signs of %s (%d of %d)" % (k, st[k], checked))


# ---------------------------------------------------------------- THDM
def thdm_lattice(quick):
    types = [1, 2, 3, 4, 5, 6]
    tbs = [0.5, 3.0, 50.0] if quick else [0.5, 1.0, 3.0, 10.0, 50.0]
    mHs = [125.0, 150.0, 1000.0] if quick else [125.0, 130.0, 150.0, 300.0, 1000.0]
    light = [0.05, 0.1, MM, 0.11, 1.0, 150.0, 1000.0] if quick else \
        [0.05, 0.1, math.nextafter(MM, 0), MM, math.nextafter(MM, 1), 0.11, 0.2, 1.0, 10.0, 80.0, 150.0, 500.0, 1000.0]
    sbas = [1.0, 0.995] if quick else [1.0, 0.995, 0.9, -0.995]
    runs = [1] if quick else [1, 0]
    return types, tbs, mHs, light, sbas, runs


def judge_thdm(ctx, st, spec, ty, tb, mH, mA, mHp, sba, rn, ln):
    ctx.evals(1)
    tk = ln.split()
    if tk[1] == "EXC":
        st["rejected"] += 1
        return
    a1, a2, d0, d1, d2, d0p, d1p, d2p, d0x, d1x, d2x, MH, MA, MHP, mm, aem = [unhex(t) for t in tk[2:18]]
    if not fin(a1, a2):
        st["nonfinite_amu"] += 1
        return
    st["checked"] += 1
    mNP = min(abs(MH), abs(MA), abs(MHP))
    rel = "below" if mNP < mm else ("equals" if mNP == mm else "above")
    st["mNP_%s_mmu" % rel] += 1
    st["a1L_neg"] += a1 < 0; st["a2L_neg"] += a2 < 0
    desc = "THDM type %d tan(beta)=%g mH=%g mA=%r mH+=%r sin(b-a)=%g running=%d [a1L=%.4g a2L=%.4g m_NP=%r m_mu=%r]" % (
        ty, tb, mH, mA, mHp, sba, rn, a1, a2, mNP, mm)
    data = {"model": "thdm", "spec": spec, "meta": [ty, tb, mH, mA, mHp, sba, rn]}
    ctx.nontrivial(("thdm", ty, rel, a1 < 0, a2 < 0))
    for name, v in (("delta_0L", d0), ("delta_1L", d1), ("delta_2L", d2)):
        if not (math.isfinite(v) and v >= 0):
            ctx.fail("THDM:%s:not-finite-nonnegative:mNP-%s-mmu" % (name, rel), "%s: %s = %r" % (desc, name, v), data)
    if not fin(d0, d1, d2):
        return
    st["min_d2"] = min(st["min_d2"], d2); st["max_d2"] = max(st["max_d2"], d2)
    if not d2 >= 2e-12:
        ctx.fail("THDM:delta_2L:below-floor:mNP-%s-mmu" % rel, "%s: delta_2L = %r is below the documented floor 2e-12" % (desc, d2), data)
    try:
        dal = -4 * aem / math.pi * math.log(abs(mNP / mm))
    except (ValueError, ZeroDivisionError):
        dal = float("nan")

    def f2(x1, x2):
        return 2e-12 + abs(x1 * dal) + abs(x2 * dal)
    if math.isfinite(dal):
        if not close(d2, f2(a1, a2), 4):
            ctx.fail("THDM:delta_2L:formula:mNP-%s-mmu" % rel,
                     "%s: delta_2L = %r, documented 2e-12 + (|a_1L| + |a_2L|) |4 alpha/pi log(m_NP/m_mu)| = %r" % (desc, d2, f2(a1, a2)), data)
        if not close(d2x, f2(X1T, X2T), 4):
            ctx.fail("THDM:overload:delta_2L-ignores-argument", "%s: calculate_uncertainty_amu_2loop(model, %r, %r) = %r, expected %r"
                     % (desc, X1T, X2T, d2x, f2(X1T, X2T)), data)
    if not close(d1, abs(a2) + d2):
        ctx.fail("THDM:delta_1L:sum", "%s: delta_1L = %r but |a_2L| + delta_2L = %r" % (desc, d1, abs(a2) + d2), data)
    if not close(d0, abs(a1) + abs(a2), 1):
        ctx.fail("THDM:delta_0L:sum", "%s: delta_0L = %r but |a_1L| + |a_2L| = %r" % (desc, d0, abs(a1) + abs(a2)), data)
    if not (same(d0p, d0) and same(d1p, d1) and same(d2p, d2)):
        ctx.fail("THDM:overload:precomputed-differs", "%s: with precomputed a_mu (delta_0L, delta_1L, delta_2L) = %r; computing overloads give %r"
                 % (desc, (d0p, d1p, d2p), (d0, d1, d2)), data)
    if not close(d0x, abs(X1T) + abs(X2T), 1):
        ctx.fail("THDM:overload:delta_0L-ignores-argument", "%s: calculate_uncertainty_amu_0loop(model, %r, %r) = %r, expected %r"
                 % (desc, X1T, X2T, d0x, abs(X1T) + abs(X2T)), data)
    if fin(d2x) and not close(d1x, abs(X2T) + d2x):
        ctx.fail("THDM:overload:delta_1L-ignores-argument", "%s: calculate_uncertainty_amu_1loop(model, %r, %r) = %r, expected |x2| + delta_2L(x1,x2) = %r"
                 % (desc, X1T, X2T, d1x, abs(X2T) + d2x), data)


def check_thdm(ctx):
    types, tbs, mHs, light, sbas, runs = thdm_lattice(ctx.quick)
    specs, meta = [], []
    for ty in types:
        zu, zd, zl = (0.3, -0.2, 1.5) if ty == 5 else (0.0, 0.0, 0.0)
        for tb in tbs:
            for mH in mHs:
                for mA in light:
                    for mHp in light:
                        for sba in sbas:
                            for rn in runs:
                                specs.append("%d %s %d %s %s" % (ty, " ".join(hexf(x) for x in (tb, 125.0, mH, mA, mHp, sba, 0.0, 0.0, 0.0, zu, zd, zl)),
                                                                 rn, hexf(X1T), hexf(X2T)))
                                meta.append((ty, tb, mH, mA, mHp, sba, rn))
    res = evaluate("thdm", specs)
    st = dict(models=len(specs), checked=0, rejected=0, nonfinite_amu=0, mNP_below_mmu=0, mNP_equals_mmu=0, mNP_above_mmu=0,
              a1L_neg=0, a2L_neg=0, min_d2=float("inf"), max_d2=0.0)
    for spec, (ty, tb, mH, mA, mHp, sba, rn), ln in zip(specs, meta, res):
        judge_thdm(ctx, st, spec, ty, tb, mH, mA, mHp, sba, rn, ln)
    ctx.note("thdm", st)
    ctx.sample({"thdm heavy masses (mA, mH+)": light, "mH": mHs, "tan_beta": tbs, "types": types})
    if st["checked"] < 0.5 * len(specs):
        _infra(ctx, "THDM lattice: only %d of %d models give a finite a_mu" % (st["checked"], len(specs)))
    for k in ("mNP_below_mmu", "mNP_above_mmu", "a1L_neg", "a2L_neg"):
        if st[k] == 0:
            _infra(ctx, "THDM lattice does not reach class %s" % k)


def run(ctx):
    build.ensure("plain")
    check_mssm(ctx)
    check_thdm(ctx)
    ctx.assumptions += [
        "documented compositions (doc comments of src/MSSMNoFV/gm2_uncertainty.cpp and src/THDM/gm2_uncertainty.cpp): MSSM delta_0L=|a_1L|, delta_1L=|a_2L|+delta_2L, delta_2L=2.3e-10+0.3(|2L(a)cha|+|2L(a)sferm|); THDM delta_0L=|a_1L|+|a_2L|, delta_1L=|a_2L|+delta_2L, delta_2L=2e-12+(|a_1L|+|a_2L|)|4 alpha/pi log(m_NP/m_mu)|, m_NP=min(mH,mA,mH+)",
        "models rejected with an exception (also under force-output) or with non-finite a_mu are outside the quantifier and only counted",
        "sums are compared with 2 ulp slack (4 ulp for the THDM formula), overload agreement bitwise"]
    return ctx.finish(
        "complete product base point x tan(beta) x sign pattern x A_mu factor (MSSM) and type x tan(beta) x mH x mA x mH+ x sin(b-a) "
        "(THDM); distinct = (model, sign pattern of the ingredients / relation of m_NP to m_mu)")


MSSM_ST = dict(models=0, ok=0, forced=0, rejected=0, nonfinite_amu=0, a1L_neg=0, a2L_neg=0, cha_neg=0, sferm_neg=0,
               a2L_exceeds_a1L=0, min_d2=float("inf"), max_d2=0.0)
THDM_ST = dict(models=0, checked=0, rejected=0, nonfinite_amu=0, mNP_below_mmu=0, mNP_equals_mmu=0, mNP_above_mmu=0,
               a1L_neg=0, a2L_neg=0, min_d2=float("inf"), max_d2=0.0)


def replay(ctx, path):
    d = json.load(open(path))
    key, data = d["key"], d["data"]

    class R:
        def __init__(self):
            self.f = []

        def fail(self, k, what, data=None):
            self.f.append((k, what))

        def evals(self, n=1): pass
        def nontrivial(self, k): pass
    r = R()
    if data["model"] == "mssm":
        (ln,) = evaluate("mssm", [data["spec"]], bases())
        print("replay:", ln[:160])
        judge_mssm(r, dict(MSSM_ST), data["spec"], data["base"], float(data["tb"]), tuple(data["signs"]), data["fA"], ln)
    else:
        (ln,) = evaluate("thdm", [data["spec"]])
        print("replay:", ln[:160])
        judge_thdm(r, dict(THDM_ST), data["spec"], *data["meta"], ln)
    for k, w in r.f:
        if k == key:
            print("replay:", w)
            print("VIOLATION property=C18 replay=%s" % path)
            return 1
    print("replay: holds now (%s)" % key)
    return 0
