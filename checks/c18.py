"""C18 - uncertainty estimates are finite, non-negative and composed as documented.

Bounded exhaustive exploration of two model lattices with harness/unc.cpp as evaluator:
 * MSSM: base points (input/example.gm2, test_points/BM*, P*) x tan(beta) x all 8 sign patterns of (mu, M1, M2)
   x an A_mu scan in units of mu*tan(beta) (fA = 1 switches the tree-level smuon mixing off; the scan drives
   the 2L(a) and the 1L/2L terms through sign changes);
 * THDM: mass basis, 6 Yukawa types x tan(beta) x (mH, mA, mH+) with mA, mH+ down to 0.05 GeV so that
   log(m_NP/m_mu) changes sign.
For every model with finite a_mu EVERY uncertainty entry point declared in the sources is evaluated - public C++,
public C, and the helper declarations (precomputed a_mu values) in C++ and C, for both models; the declarations are
grepped from the headers at run time and an entry point missing from the harness is an infrastructure error.
Oracle: estimates finite and >= 0, floor of the 2L estimate, the documented sums (gm2_uncertainty.cpp doc comments),
precomputed == computing, C == C++, arbitrary arguments honoured.

The program gm2calc.x is an entry point too: lattice points are rendered to input text in every input type (GM2Calc,
SLHA, THDM mass basis, THDM gauge basis) and run with GM2CalcConfig[5] = 1 through loop order {0,1,2} x 5 output
formats x resummation {0,1}; the printed uncertainty must equal the library value for the same text (to the printed
digits) and satisfy U0 = |a1L| (+ |a2L| in the THDM), U1 = |a2L| + U2, U2 >= floor with a1L, a2L taken from the
program's own loop-order 1 and 2 results."""
import concurrent.futures as cf
import glob
import json
import math
import multiprocessing as mp
import os
import re
import struct
import subprocess

import build
from core import InfraError, hexf, unhex

META = dict(
    level="exploration",
    technique="exhaustive model-lattice enumeration (all sign patterns, A_mu and light-scalar scans) x every declared uncertainty entry point (C++, C, helpers, command line x option product), documented-composition oracle",
    text="Every model of the MSSM lattice (11 base points x tan beta x 8 sign patterns of mu, M1, M2 x A_mu scan) and of the THDM lattice (6 Yukawa types x tan beta x heavy-Higgs masses from 0.05 GeV to 1 TeV x sin(beta-alpha)) that yields a finite a_mu is checked through all 10 (MSSM) / 12 (THDM) uncertainty functions declared in gm2_uncertainty.hpp/.h and gm2_uncertainty_helpers.hpp/.h (list taken from the headers at run time): finite and >= 0, 2L estimate >= 2.3e-10 / 2e-12, delta_1L = |a_2L| + delta_2L, delta_0L = |a_1L| (MSSM) resp. |a_1L| + |a_2L| (THDM), delta_2L equal to the documented formula, precomputed-value entry points bitwise equal to the computing ones and honouring other arguments, C equal to C++. A sub-lattice rendered to input text in all four input types is run through gm2calc.x with uncertainty output for loop order {0,1,2} x 5 output formats x resummation on/off: printed value == library value to the printed digits and the same sums from the program's own a_mu outputs. Exhaustive over the lattices only.",
    note="trusted: Python float arithmetic for the sums (2 ulp slack), libm log, GM2_slha_io as reader of the rendered text (both sides use it); the a_mu values themselves are not judged here (C03/C08/C11); C15 independently compares every printed number with the API over its own inputs",
    design_ref="3/C18")

HARNESSES = [(("unc", "plain", ["unc.cpp"]), {})]

REPO = build.REPO
X1M, X2M = -1.25e-9, -3.5e-10      # arbitrary arguments for the precomputed-value overloads (negative on purpose)
X1T, X2T = -3e-9, 2e-10
MM = 0.1056583715
ULP = 2.0 ** -52
NPROC = 16
FLOOR = {"MSSMNoFV_onshell": 2.3e-10, "THDM": 2e-12}


def _infra(ctx, msg):
    """lattice sanity guards: an infrastructure error unless failures were already recorded (then they are the story)"""
    if not getattr(ctx, "violations", None):
        raise InfraError(msg)
    print("  note: " + msg)


def _exe():
    return build.harness("unc", "plain", ["unc.cpp"])


def bases():
    fs = [os.path.join(REPO, "input", "example.gm2")]
    fs += sorted(glob.glob(os.path.join(REPO, "test", "test_points", "BM*_2L_resummed.in")))
    fs += sorted(glob.glob(os.path.join(REPO, "test", "test_points", "P*_2L_resummed*.in")))
    return fs


# ---------------------------------------------------------------- declared entry points
def declared_entry_points():
    """every function declared in an uncertainty header: key 'name|model|number of double arguments'"""
    files = sorted(set(glob.glob(os.path.join(REPO, "include", "gm2calc", "*uncertainty*.h*")) +
                       glob.glob(os.path.join(REPO, "src", "*uncertainty*.h*")) +
                       glob.glob(os.path.join(REPO, "src", "*", "*uncertainty*.h*"))))
    keys = {}
    for f in files:
        txt = open(f).read()
        txt = re.sub(r"/\*.*?\*/", " ", txt, flags=re.S)     # comments may name parameters: /* model */
        txt = re.sub(r"//[^\n]*", " ", txt)
        for m in re.finditer(r"\bdouble\s+(\w+)\s*\(([^)]*)\)\s*;", txt):
            name, params = m.group(1), m.group(2)
            if "uncertainty" not in name:
                continue
            model = "THDM" if "THDM" in params else ("MSSMNoFV_onshell" if "MSSMNoFV_onshell" in params else "?")
            keys["%s|%s|%d" % (name, model, len(re.findall(r"\bdouble\b", params)))] = os.path.relpath(f, REPO)
    return keys


def loop_of(key):
    m = re.search(r"amu_(\d)loop", key)
    return int(m.group(1)) if m else None


# ---------------------------------------------------------------- harness I/O
def _run_chunk(args):
    exe, text = args
    p = subprocess.run([exe], input=text, stdout=subprocess.PIPE, stderr=subprocess.PIPE, text=True, timeout=3000)
    if p.returncode != 0:
        raise InfraError("unc harness exit %d: %s" % (p.returncode, p.stdout[-300:] + p.stderr[-300:]))
    return [ln for ln in p.stdout.split("\n") if ln[:2] in ("M ", "T ")], [ln for ln in p.stdout.split("\n") if ln.startswith(("B EXC", "ERR"))]


def evaluate(kind, lines, base_files=()):
    """lines: list of model spec strings; returns result lines in order"""
    exe = _exe()
    n = max(1, min(NPROC, len(lines) // 20))
    chunks = [lines[i::n] for i in range(n)]
    pre = "".join("base %d %s\n" % (i, f) for i, f in enumerate(base_files))
    tasks = [(exe, pre + "%s %d\n%s\n" % (kind, len(c), "\n".join(c))) for c in chunks]
    out = [None] * len(lines)
    with cf.ThreadPoolExecutor(n) as ex:
        for ci, (res, errs) in enumerate(ex.map(_run_chunk, tasks)):
            if errs:
                raise InfraError("unc harness: " + errs[0])
            if len(res) != len(chunks[ci]):
                raise InfraError("unc harness: %d results for %d models" % (len(res), len(chunks[ci])))
            for k, ln in enumerate(res):
                out[ci + k * n] = ln
    return out


def parse_line(ln):
    """-> (status, scalars dict, F dict {(key, variant): value}) ; status 'EXC' for rejected models"""
    tk = ln.split()
    if len(tk) < 2 or tk[1] == "EXC":
        return "EXC", {"what": " ".join(tk[2:])}, {}
    sc, F = {}, {}
    for t in tk[2:]:
        if t.startswith("F:"):
            body, val = t[2:].rsplit("=", 1)
            key, var = body.rsplit(":", 1)
            F[(key, var)] = unhex(val)
        else:
            k, v = t.split("=", 1)
            sc[k] = unhex(v)
    return tk[1], sc, F


def same(a, b):
    return struct.pack("d", a) == struct.pack("d", b)


def close(a, b, nulp=2):
    return a == b or abs(a - b) <= nulp * ULP * max(abs(a), abs(b))


def fin(*v):
    return all(math.isfinite(x) for x in v)


DECLARED = None


def check_table(F, model):
    """every declared entry point of this model must have been evaluated by the harness, and nothing else"""
    global DECLARED
    if DECLARED is None:
        DECLARED = declared_entry_points()
        if len(DECLARED) < 20:
            raise InfraError("only %d uncertainty declarations found in the headers: %r" % (len(DECLARED), sorted(DECLARED)))
        bad = [k for k in DECLARED if "|?|" in k or loop_of(k) is None]
        if bad:
            raise InfraError("uncertainty declarations that cannot be classified (model / loop order): %r" % bad)
    have = set(k for k, _ in F)
    want = set(k for k in DECLARED if k.split("|")[1] == model)
    if want - have:
        raise InfraError("declared uncertainty entry point(s) not evaluated by harness/unc.cpp (add them to its table): %s"
                         % ", ".join("%s [%s]" % (k, DECLARED[k]) for k in sorted(want - have)))
    if have - want:
        raise InfraError("harness/unc.cpp evaluates entry point(s) that are not declared in the headers: %r" % sorted(have - want))


def lang(key):
    name, _, n = key.split("|")
    return ("C" if name.startswith("gm2calc_") else "C++") + (" helper" if n != "0" else "")


# ---------------------------------------------------------------- the oracle on one model
def judge_entry_points(ctx, fam, model, desc, data, sc, F, U2ref, x):
    """fam: key prefix; U2ref(a1, a2) documented 2L formula or None; x: the arbitrary arguments"""
    a1, a2 = sc["a1L"], sc["a2L"]
    floor = FLOOR[model]
    pub = {k: F[("calculate_uncertainty_amu_%dloop|%s|0" % (k, model), "v")] for k in (0, 1, 2)}
    ok = True
    for k in (0, 1, 2):
        v = pub[k]
        if not (math.isfinite(v) and v >= 0):
            ctx.fail("%s:delta_%dL:not-finite-nonnegative" % (fam, k), "%s: delta_%dL = %r" % (desc, k, v), data)
            ok = False
    if not ok:
        return None
    d0, d1, d2 = pub[0], pub[1], pub[2]
    if not d2 >= floor:
        ctx.fail("%s:delta_2L:below-floor" % fam, "%s: delta_2L = %r is below the documented floor %g" % (desc, d2, floor), data)

    def expect(k, arg1, arg2, u2):
        if model == "THDM":
            return (abs(arg1) + abs(arg2), abs(arg2) + u2, u2)[k]
        return (abs(arg1), abs(arg2) + u2, u2)[k]
    u2doc = U2ref(a1, a2) if U2ref else None
    if u2doc is not None and math.isfinite(u2doc) and not close(d2, u2doc, 4):
        ctx.fail("%s:delta_2L:formula" % fam, "%s: delta_2L = %r, documented formula gives %r" % (desc, d2, u2doc), data)
    if not close(d1, abs(a2) + d2):
        ctx.fail("%s:delta_1L:sum" % fam, "%s: delta_1L = %r but |a_2L| + delta_2L = %r" % (desc, d1, abs(a2) + d2), data)
    if not close(d0, expect(0, a1, a2, d2), 1):
        ctx.fail("%s:delta_0L:sum" % fam, "%s: delta_0L = %r but the documented sum of magnitudes = %r" % (desc, d0, expect(0, a1, a2, d2)), data)
    # every other entry point against the public C++ one
    for (key, var), v in sorted(F.items()):
        k = loop_of(key)
        name = key.split("|")[0]
        if var in ("v", "p"):
            if key.startswith("calculate_uncertainty_amu_") and var == "v":
                continue
            if not same(v, pub[k]):
                ctx.fail("%s:entry-point:%s:%s" % (fam, name, "differs-from-C++" if var == "v" else "precomputed-differs"),
                         "%s: %s [%s]%s = %r, calculate_uncertainty_amu_%dloop(model) = %r"
                         % (desc, name, lang(key), " with the model's own a_mu values" if var == "p" else "", v, k, pub[k]), data)
        else:
            # arbitrary arguments: the 2L estimate of the THDM depends on them
            if model == "THDM":
                u2x = F[("calculate_uncertainty_amu_2loop|THDM|2", "x")]
                ref2 = U2ref(x[0], x[1]) if U2ref else None
                if k == 2 and ref2 is not None and math.isfinite(ref2) and not close(v, ref2, 4):
                    ctx.fail("%s:entry-point:%s:ignores-argument" % (fam, name), "%s: %s(model, %r, %r) = %r, documented formula gives %r"
                             % (desc, name, x[0], x[1], v, ref2), data)
                    continue
                ex = expect(k, x[0], x[1], u2x) if k != 2 else None
            else:
                ex = expect(k, x[0], x[1], d2)
            if ex is not None and math.isfinite(ex) and not close(v, ex):
                ctx.fail("%s:entry-point:%s:ignores-argument" % (fam, name),
                         "%s: %s [%s] with arguments %r = %r, documented composition gives %r" % (desc, name, lang(key), x, v, ex), data)
    return d0, d1, d2


# ---------------------------------------------------------------- MSSM
def mssm_lattice(quick):
    tbs = [float("nan"), 2.0, 10.0, 50.0, 1000.0] if quick else [float("nan"), 1.0, 2.0, 5.0, 10.0, 30.0, 50.0, 100.0, 1000.0]
    fas = [0.0, 0.5, 0.9, 1.0, 1.1, -1.0, 2.0, -5.0, 20.0] if quick else [0.0, 0.25, -0.25, 0.5, -0.5, 0.9, 1.0, 1.1, -1.0, 2.0, -2.0, 5.0, -5.0, 20.0, -20.0]
    signs = [(a, b, c) for a in (1, -1) for b in (1, -1) for c in (1, -1)]
    return tbs, fas, signs


def new_mssm_st():
    return dict(models=0, ok=0, forced=0, rejected=0, nonfinite_amu=0, a1L_neg=0, a2L_neg=0, cha_neg=0, sferm_neg=0,
                a2L_exceeds_a1L=0, min_d2=float("inf"), max_d2=0.0, entry_point_values=0)


def judge_mssm(ctx, st, spec, bn, tb, sg, fa, ln):
    ctx.evals(1)
    status, sc, F = parse_line(ln)
    if status == "EXC":
        st["rejected"] += 1
        return
    check_table(F, "MSSMNoFV_onshell")
    a1, a2, cha, sf = sc["a1L"], sc["a2L"], sc["cha"], sc["sferm"]
    if not fin(a1, a2):
        st["nonfinite_amu"] += 1
        return
    st["ok" if status == "OK" else "forced"] += 1
    st["a1L_neg"] += a1 < 0; st["a2L_neg"] += a2 < 0; st["cha_neg"] += cha < 0; st["sferm_neg"] += sf < 0
    st["a2L_exceeds_a1L"] += abs(a2) > abs(a1)
    st["entry_point_values"] += len(F)
    desc = "MSSM %s tan(beta)=%s sign(mu,M1,M2)=%r A_mu=A_mu0%+g*mu*tb [a1L=%.4g a2L=%.4g 2LaCha=%.4g 2LaSferm=%.4g]" % (
        bn, "file" if math.isnan(tb) else "%g" % tb, sg, fa, a1, a2, cha, sf)
    data = {"model": "mssm", "spec": spec, "base": bn, "tb": repr(tb), "signs": list(sg), "fA": fa}
    ctx.nontrivial(("mssm", "sign(cha,sferm,a2L,a1L)=%d%d%d%d" % (cha < 0, sf < 0, a2 < 0, a1 < 0), status))
    r = judge_entry_points(ctx, "MSSM", "MSSMNoFV_onshell", desc, data, sc, F,
                           lambda x1, x2: 2.3e-10 + 0.3 * (abs(cha) + abs(sf)), (X1M, X2M))
    if r:
        st["min_d2"] = min(st["min_d2"], r[2]); st["max_d2"] = max(st["max_d2"], r[2])


def check_mssm(ctx):
    files = bases()
    if len(files) < 6:
        raise InfraError("base points missing: %r" % files)
    tbs, fas, signs = mssm_lattice(ctx.quick)
    specs, meta = [], []
    for bi, f in enumerate(files):
        for tb in tbs:
            for sg in signs:
                for fa in fas:
                    specs.append("%d %s %d %d %d %s %s %s" % (bi, "nan" if math.isnan(tb) else hexf(tb), sg[0], sg[1], sg[2], hexf(fa), hexf(X1M), hexf(X2M)))
                    meta.append((os.path.basename(f), tb, sg, fa))
    res = evaluate("mssm", specs, files)
    st = new_mssm_st(); st["models"] = len(specs)
    for spec, (bn, tb, sg, fa), ln in zip(specs, meta, res):
        judge_mssm(ctx, st, spec, bn, tb, sg, fa, ln)
    ctx.note("mssm", st)
    ctx.sample({"mssm bases": [os.path.basename(f) for f in files], "tan_beta": [("file" if math.isnan(t) else t) for t in tbs], "fA": fas})
    checked = st["ok"] + st["forced"]
    if checked < 0.5 * len(specs):
        _infra(ctx, "MSSM lattice: only %d of %d models give a finite a_mu" % (checked, len(specs)))
    for k in ("a2L_neg", "cha_neg", "sferm_neg", "a1L_neg"):
        if st[k] == 0 or st[k] == checked:
            _infra(ctx, "MSSM lattice does not reach both signs of %s (%d of %d)" % (k, st[k], checked))


# ---------------------------------------------------------------- THDM
def thdm_lattice(quick):
    types = [1, 2, 3, 4, 5, 6]
    tbs = [0.5, 3.0, 50.0] if quick else [0.5, 1.0, 3.0, 10.0, 50.0]
    mHs = [125.0, 150.0, 1000.0] if quick else [125.0, 130.0, 150.0, 300.0, 1000.0]
    light = [0.05, 0.1, MM, 0.11, 1.0, 150.0, 1000.0] if quick else \
        [0.05, 0.1, math.nextafter(MM, 0), MM, math.nextafter(MM, 1), 0.11, 0.2, 1.0, 10.0, 80.0, 150.0, 500.0, 1000.0]
    sbas = [1.0, 0.995] if quick else [1.0, 0.995, 0.9, -0.995]
    runs = [1] if quick else [1, 0]
    return types, tbs, mHs, light, sbas, runs


def new_thdm_st():
    return dict(models=0, checked=0, rejected=0, nonfinite_amu=0, mNP_below_mmu=0, mNP_equals_mmu=0, mNP_above_mmu=0,
                a1L_neg=0, a2L_neg=0, min_d2=float("inf"), max_d2=0.0, entry_point_values=0)


def thdm_u2(sc):
    mNP = min(abs(sc["mH"]), abs(sc["mA"]), abs(sc["mHp"]))
    try:
        dal = -4 * sc["aem"] / math.pi * math.log(abs(mNP / sc["mm"]))
    except (ValueError, ZeroDivisionError):
        dal = float("nan")
    return mNP, (lambda x1, x2: 2e-12 + abs(x1 * dal) + abs(x2 * dal))


def judge_thdm(ctx, st, spec, ty, tb, mH, mA, mHp, sba, rn, ln):
    ctx.evals(1)
    status, sc, F = parse_line(ln)
    if status == "EXC":
        st["rejected"] += 1
        return
    check_table(F, "THDM")
    a1, a2 = sc["a1L"], sc["a2L"]
    if not fin(a1, a2):
        st["nonfinite_amu"] += 1
        return
    st["checked"] += 1
    st["entry_point_values"] += len(F)
    mNP, u2 = thdm_u2(sc)
    rel = "below" if mNP < sc["mm"] else ("equals" if mNP == sc["mm"] else "above")
    st["mNP_%s_mmu" % rel] += 1
    st["a1L_neg"] += a1 < 0; st["a2L_neg"] += a2 < 0
    desc = "THDM type %d tan(beta)=%g mH=%g mA=%r mH+=%r sin(b-a)=%g running=%d [a1L=%.4g a2L=%.4g m_NP=%r m_mu=%r]" % (
        ty, tb, mH, mA, mHp, sba, rn, a1, a2, mNP, sc["mm"])
    data = {"model": "thdm", "spec": spec, "meta": [ty, tb, mH, mA, mHp, sba, rn]}
    ctx.nontrivial(("thdm", ty, rel, a1 < 0, a2 < 0))
    r = judge_entry_points(ctx, "THDM:mNP-%s-mmu" % rel, "THDM", desc, data, sc, F, u2, (X1T, X2T))
    if r:
        st["min_d2"] = min(st["min_d2"], r[2]); st["max_d2"] = max(st["max_d2"], r[2])


def check_thdm(ctx):
    types, tbs, mHs, light, sbas, runs = thdm_lattice(ctx.quick)
    specs, meta = [], []
    for ty in types:
        zu, zd, zl = (0.3, -0.2, 1.5) if ty == 5 else (0.0, 0.0, 0.0)
        for tb in tbs:
            for mH in mHs:
                for mA in light:
                    for mHp in light:
                        for sba in sbas:
                            for rn in runs:
                                specs.append("%d %s %d %s %s" % (ty, " ".join(hexf(x) for x in (tb, 125.0, mH, mA, mHp, sba, 0.0, 0.0, 0.0, zu, zd, zl)),
                                                                 rn, hexf(X1T), hexf(X2T)))
                                meta.append((ty, tb, mH, mA, mHp, sba, rn))
    res = evaluate("thdm", specs)
    st = new_thdm_st(); st["models"] = len(specs)
    for spec, (ty, tb, mH, mA, mHp, sba, rn), ln in zip(specs, meta, res):
        judge_thdm(ctx, st, spec, ty, tb, mH, mA, mHp, sba, rn, ln)
    ctx.note("thdm", st)
    ctx.sample({"thdm heavy masses (mA, mH+)": light, "mH": mHs, "tan_beta": tbs, "types": types})
    if st["checked"] < 0.5 * len(specs):
        _infra(ctx, "THDM lattice: only %d of %d models give a finite a_mu" % (st["checked"], len(specs)))
    for k in ("mNP_below_mmu", "mNP_above_mmu", "a1L_neg", "a2L_neg"):
        if st[k] == 0:
            _infra(ctx, "THDM lattice does not reach class %s" % k)


# ---------------------------------------------------------------- the program as entry point
OPTS = [(loop, fmt, resum) for loop in (0, 1, 2) for fmt in range(5) for resum in (0, 1)]
CLI_FLAG = {"gm2calc": "--gm2calc-input-file=-", "slha": "--slha-input-file=-", "thdm": "--thdm-input-file=-"}


def strip_block(text, name):
    out, skip = [], False
    for ln in text.split("\n"):
        if re.match(r"\s*block\s", ln, re.I):
            skip = re.match(r"\s*block\s+%s\b" % re.escape(name), ln, re.I) is not None
        if not skip:
            out.append(ln)
    return "\n".join(out)


def block_entries(text, name):
    d, inb = {}, False
    for ln in text.split("\n"):
        if re.match(r"\s*block\s", ln, re.I):
            inb = re.match(r"\s*block\s+%s\b" % re.escape(name), ln, re.I) is not None
            continue
        if inb:
            tk = ln.split("#")[0].split()
            if len(tk) == 2:
                try:
                    d[int(tk[0])] = float(tk[1])
                except ValueError:
                    pass
    return d


def set_entries(text, name, kv):
    """replace (or insert) single-index entries of a block"""
    kv = dict(kv)
    out, inb = [], False
    for ln in text.split("\n"):
        if re.match(r"\s*block\s", ln, re.I):
            inb = re.match(r"\s*block\s+%s\b" % re.escape(name), ln, re.I) is not None
            out.append(ln)
            if inb:
                out.append("\x00INSERT\x00")
            continue
        if inb:
            tk = ln.split("#")[0].split()
            if len(tk) == 2 and tk[0].isdigit() and int(tk[0]) in kv:
                out.append("  %4d   %r" % (int(tk[0]), kv.pop(int(tk[0]))))
                continue
        out.append(ln)
    ins = "\n".join("  %4d   %r" % (k, v) for k, v in sorted(kv.items()))
    res = "\n".join(out)
    if "\x00INSERT\x00" not in res:
        raise InfraError("block %s not found in template" % name)
    return res.replace("\x00INSERT\x00\n", ins + "\n" if ins else "").replace("\x00INSERT\x00", ins)


def config_block(fmt, loop, resum, force, unc, running=1):
    return "Block GM2CalcConfig\n 0 %d\n 1 %d\n 2 %d\n 3 %d\n 4 0\n 5 %d\n 6 %d\n" % (fmt, loop, resum, force, unc, running)


def cli_points(quick):
    """(kind, label, body text without GM2CalcConfig) for every input type"""
    pts = []
    # MSSM, GM2Calc input: sub-lattice of the MSSM lattice
    tbs = [float("nan")] if quick else [float("nan"), 2.0, 50.0]
    fas = [0.0, 1.0] if quick else [0.0, 1.0, -1.0]
    for f in bases():
        body = strip_block(open(f).read(), "GM2CalcConfig")
        e = block_entries(body, "GM2CalcInput")
        for tb in tbs:
            for sg in [(a, b, c) for a in (1, -1) for b in (1, -1) for c in (1, -1)]:
                for fa in fas:
                    t = e[3] if math.isnan(tb) else tb
                    mu = e[4] * sg[0]
                    kv = {3: t, 4: mu, 5: e[5] * sg[1], 6: e[6] * sg[2], 25: e.get(25, 0.0) + fa * mu * t}
                    pts.append(("gm2calc", "MSSM/GM2Calc %s tb=%s signs=%r fA=%g" % (os.path.basename(f), "file" if math.isnan(tb) else tb, sg, fa),
                                set_entries(body, "GM2CalcInput", kv)))
    # MSSM, SLHA input: shipped example x sign patterns
    body = strip_block(open(os.path.join(REPO, "input", "example.slha")).read(), "GM2CalcConfig")
    hm, ms = block_entries(body, "HMIX"), block_entries(body, "MSOFT")
    for sg in [(a, b, c) for a in (1, -1) for b in (1, -1) for c in (1, -1)]:
        t = set_entries(body, "HMIX", {1: hm[1] * sg[0]})
        t = set_entries(t, "MSOFT", {1: ms[1] * sg[1], 2: ms[2] * sg[2]})
        pts.append(("slha", "MSSM/SLHA example.slha signs=%r" % (sg,), t))
    # THDM mass basis: sub-lattice of the THDM lattice
    tmpl = strip_block(open(os.path.join(REPO, "input", "example.thdm")).read(), "GM2CalcConfig")
    light = [0.05, 1.0, 150.0] if quick else [0.05, 0.1, MM, 0.11, 1.0, 150.0, 1000.0]
    for ty in (1, 2, 3, 4, 5, 6):
        zu, zd, zl = (0.3, -0.2, 1.5) if ty == 5 else (0.0, 0.0, 0.0)
        for tb in ([3.0] if quick else [0.5, 3.0, 50.0]):
            for mH in ([150.0] if quick else [125.0, 150.0, 1000.0]):
                for mA in light:
                    for mHp in light:
                        for sba in (1.0, 0.995):
                            t = set_entries(tmpl, "MINPAR", {3: tb, 16: 0.0, 17: 0.0, 18: 0.0, 20: sba, 21: zu, 22: zd, 23: zl, 24: ty})
                            t = set_entries(t, "MASS", {25: 125.0, 35: mH, 36: mA, 37: mHp})
                            pts.append(("thdm", "THDM/mass type %d tb=%g mH=%g mA=%r mH+=%r sba=%g" % (ty, tb, mH, mA, mHp, sba), t))
    # THDM gauge basis: shipped test point x Yukawa type x tan(beta)
    tmpl = strip_block(open(os.path.join(REPO, "test", "test_points", "thdm_gauge-basis.in")).read(), "GM2CalcConfig")
    for ty in (1, 2, 3, 4, 5, 6):
        for tb in (1.0, 3.0, 10.0):
            pts.append(("thdm", "THDM/gauge type %d tb=%g" % (ty, tb), set_entries(tmpl, "MINPAR", {3: tb, 24: ty})))
    return pts


def _harness_text(exe, kind, text, x):
    p = subprocess.run([exe], input="text %s %s %s %d\n%s" % (kind, hexf(x[0]), hexf(x[1]), len(text.encode()), text),
                       stdout=subprocess.PIPE, stderr=subprocess.PIPE, text=True, timeout=600)
    for ln in p.stdout.split("\n"):
        if ln[:2] in ("M ", "T "):
            return ln
    raise InfraError("unc harness (text): %s" % (p.stdout[-300:] + p.stderr[-300:]))


def _parse_cli(fmt, unc, out):
    """the token that carries the requested number"""
    if fmt == 0:
        tk = out.split()
        return tk[-1] if tk else None
    if fmt == 1:
        m = re.search(r"=\s*(\S+)\s*\+-\s*(\S+)", out)
        return (m.group(2) if unc else m.group(1)) if m else None
    inb, val = False, None
    for ln in out.split("\n"):
        if re.match(r"\s*block\s", ln, re.I):
            inb = re.match(r"\s*block\s+GM2CalcOutput\b", ln, re.I) is not None
            continue
        if inb:
            tk = ln.split("#")[0].split()
            if len(tk) == 2 and tk[0] == ("1" if unc else "0"):
                val = tk[1]
    return val


def _cli_task(args):
    cli, exe, kind, label, body = args
    x = (X1T, X2T) if kind == "thdm" else (X1M, X2M)
    force = 0
    ln = _harness_text(exe, kind, config_block(0, 2, 1, 0, 1) + body, x)
    if ln.split()[1] == "EXC":
        force = 1
        ln = _harness_text(exe, kind, config_block(0, 2, 1, 1, 1) + body, x)
        if ln.split()[1] == "EXC":
            return label, kind, None, force, {}, {}, None
    outs, amu, ln_forced = {}, {}, None
    for loop, fmt, resum in OPTS:
        p = subprocess.run([cli, CLI_FLAG[kind]], input=config_block(fmt, loop, resum, force, 1) + body,
                           stdout=subprocess.PIPE, stderr=subprocess.PIPE, text=True, timeout=600)
        tok, f2 = _parse_cli(fmt, 1, p.stdout), force
        if tok is None and p.returncode != 0 and not force:
            # the program refuses (e.g. a_mu without resummation hits a tachyon): same options with force-output
            f2 = 1
            p = subprocess.run([cli, CLI_FLAG[kind]], input=config_block(fmt, loop, resum, 1, 1) + body,
                               stdout=subprocess.PIPE, stderr=subprocess.PIPE, text=True, timeout=600)
            tok = _parse_cli(fmt, 1, p.stdout)
            if ln_forced is None:
                ln_forced = _harness_text(exe, kind, config_block(0, 2, 1, 1, 1) + body, x)
        outs[(loop, fmt, resum)] = (p.returncode, tok, f2)
    for loop in (1, 2):
        p = subprocess.run([cli, CLI_FLAG[kind]], input=config_block(0, loop, 1, force, 0) + body,
                           stdout=subprocess.PIPE, stderr=subprocess.PIPE, text=True, timeout=600)
        amu[loop] = _parse_cli(0, 0, p.stdout)
    return label, kind, ln, force, outs, amu, ln_forced


def matches_printed(tok, val):
    """tok is a correctly rounded rendering of val at the number of digits it shows"""
    try:
        x = float(tok)
    except (TypeError, ValueError):
        return False
    if not math.isfinite(val) or not math.isfinite(x):
        return (math.isnan(val) and math.isnan(x)) or val == x
    m = re.match(r"^[+-]?\d+(?:\.(\d*))?([eE][+-]?\d+)?$", tok)
    if not m:
        return False
    nd = len(m.group(1) or "")
    return float(("%%.%d%s" % (nd, "e" if m.group(2) else "f")) % val) == x


def judge_cli(ctx, st, label, kind, ln, force, outs, amu, ln_forced=None):
    model = "THDM" if kind == "thdm" else "MSSMNoFV_onshell"
    fam = "cli:%s" % label.split(" ")[0]
    data = {"model": "cli", "label": label}
    if ln is None:
        st["rejected"] += 1
        return
    status, sc, F = parse_line(ln)
    a1, a2 = sc["a1L"], sc["a2L"]
    if not fin(a1, a2):
        st["nonfinite_amu"] += 1
        return
    st["points"] += 1; st["forced"] += force
    U = {k: F[("calculate_uncertainty_amu_%dloop|%s|0" % (k, model), "v")] for k in (0, 1, 2)}
    floor = FLOOR[model]
    UF = None
    if ln_forced is not None and ln_forced.split()[1] != "EXC":
        Ff = parse_line(ln_forced)[2]
        UF = {k: Ff[("calculate_uncertainty_amu_%dloop|%s|0" % (k, model), "v")] for k in (0, 1, 2)}
    for (loop, fmt, resum), (rc, tok, f2) in sorted(outs.items()):
        st["runs"] += 1
        ctx.evals(1)
        Ux = U if f2 == force else UF
        if Ux is None:
            st["refused_runs"] = st.get("refused_runs", 0) + 1
            continue
        if f2 != force:
            st["runs_needing_force"] = st.get("runs_needing_force", 0) + 1
        want = Ux[2] if fmt == 1 else Ux[loop]
        what = "%s, GM2CalcConfig: format %d, loop order %d, resummation %d, force %d, uncertainty 1" % (label, fmt, loop, resum, f2)
        ctx.nontrivial(("cli", label.split(" ")[0], fmt, loop, resum))
        if tok is None:
            ctx.fail("%s:fmt%d:loop%d:no-uncertainty-printed" % (fam, fmt, loop), "%s: no uncertainty in the output (exit %d)" % (what, rc), data)
            continue
        if not matches_printed(tok, want):
            ctx.fail("%s:fmt%d:loop%d:printed-differs-from-library" % (fam, fmt, loop),
                     "%s: program prints %s, calculate_uncertainty_amu_%dloop(model) = %r" % (what, tok, 2 if fmt == 1 else loop, want), data)
    # the documented sums from the program's own numbers (every format / resummation setting that prints U_loop)
    try:
        p1, p12 = float(amu[1]), float(amu[2])
    except (TypeError, ValueError):
        ctx.fail("%s:no-amu-printed" % fam, "%s: a_mu at loop order 1 / 2 not printed (%r, %r)" % (label, amu.get(1), amu.get(2)), data)
        return
    p2 = p12 - p1
    for fmt in (0, 2, 3, 4):
        for resum in (0, 1):
            try:
                u0, u1, u2 = (float(outs[(k, fmt, resum)][1]) for k in (0, 1, 2))
            except (TypeError, ValueError):
                continue
            tol = 3e-8 * (abs(p1) + abs(p12) + u0 + u1 + u2)
            e0 = abs(p1) + (abs(p2) if model == "THDM" else 0.0)
            if not abs(u0 - e0) <= tol:
                ctx.fail("%s:fmt%d:U0-sum" % (fam, fmt), "%s (format %d, resummation %d): uncertainty at loop order 0 = %r but the program's own "
                         "a_1L = %r, a_2L = %r give %r" % (label, fmt, resum, u0, p1, p2, e0), data)
            if not abs(u1 - (abs(p2) + u2)) <= tol:
                ctx.fail("%s:fmt%d:U1-sum" % (fam, fmt), "%s (format %d, resummation %d): uncertainty at loop order 1 = %r but |a_2L| + U2 = %r + %r"
                         % (label, fmt, resum, u1, abs(p2), u2), data)
            if not u2 >= floor * (1 - 1e-8):
                ctx.fail("%s:fmt%d:U2-floor" % (fam, fmt), "%s (format %d, resummation %d): uncertainty at loop order 2 = %r below the floor %g"
                         % (label, fmt, resum, u2, floor), data)


def check_cli(ctx):
    build.ensure("plain")
    cli, exe = build.cli("plain"), _exe()
    pts = cli_points(ctx.quick)
    st = dict(points_rendered=len(pts), points=0, rejected=0, nonfinite_amu=0, forced=0, runs=0, by_input_type={})
    tasks = [(cli, exe, kind, label, body) for kind, label, body in pts]
    with mp.Pool(NPROC) as pool:
        for label, kind, ln, force, outs, amu, lnf in pool.imap(_cli_task, tasks, chunksize=4):
            t = label.split(" ")[0]
            st["by_input_type"][t] = st["by_input_type"].get(t, 0) + 1
            judge_cli(ctx, st, label, kind, ln, force, outs, amu, lnf)
    ctx.note("cli", st)
    ctx.sample({"cli option product": "loop order {0,1,2} x output format {0..4} x resummation {0,1} with GM2CalcConfig[5]=1, plus a_mu at loop order 1 and 2",
                "input types": sorted(st["by_input_type"])})
    if st["points"] < 0.5 * len(pts):
        _infra(ctx, "CLI lattice: only %d of %d points give a finite a_mu" % (st["points"], len(pts)))
    if len(st["by_input_type"]) < 4:
        _infra(ctx, "CLI lattice does not cover all four input types: %r" % st["by_input_type"])


def run(ctx):
    build.ensure("plain")
    check_mssm(ctx)
    check_thdm(ctx)
    check_cli(ctx)
    ctx.note("declared_entry_points", {k: v for k, v in sorted((DECLARED or {}).items())})
    ctx.assumptions += [
        "documented compositions (doc comments of src/MSSMNoFV/gm2_uncertainty.cpp and src/THDM/gm2_uncertainty.cpp): MSSM delta_0L=|a_1L|, delta_1L=|a_2L|+delta_2L, delta_2L=2.3e-10+0.3(|2L(a)cha|+|2L(a)sferm|); THDM delta_0L=|a_1L|+|a_2L|, delta_1L=|a_2L|+delta_2L, delta_2L=2e-12+(|a_1L|+|a_2L|)|4 alpha/pi log(m_NP/m_mu)|, m_NP=min(mH,mA,mH+)",
        "models rejected with an exception (also under force-output) or with non-finite a_mu are outside the quantifier and only counted",
        "sums are compared with 2 ulp slack (4 ulp for the THDM formula), entry-point agreement bitwise; printed numbers must be the correctly rounded rendering of the library value at the printed digits; sums from printed numbers within 3e-8 of the magnitudes involved",
        "command line: the detailed format prints the 2L uncertainty at every loop order (README); the uncertainty ignores the resummation switch",
        "C15 compares every number gm2calc.x prints (a_mu and uncertainty, all 480 GM2CalcConfig combinations) with the API on its own inputs (examples, test points, a small lattice); here the loop order x format x resummation product is run on the C18 lattice points in all four input types and the uncertainty sums are checked from the program's own outputs"]
    return ctx.finish(
        "complete product base point x tan(beta) x sign pattern x A_mu factor (MSSM) and type x tan(beta) x mH x mA x mH+ x sin(b-a) "
        "(THDM), every declared entry point on each; command line: sub-lattice in 4 input types x loop order x format x resummation; "
        "distinct = (model, sign pattern of the ingredients / relation of m_NP to m_mu) and (input type, format, loop order, resummation)")


def replay(ctx, path):
    d = json.load(open(path))
    key, data = d["key"], d["data"]

    class R:
        quick = not os.path.basename(path).startswith("thorough")

        def __init__(self):
            self.f = []

        def fail(self, k, what, data=None):
            self.f.append((k, what))

        def evals(self, n=1): pass
        def nontrivial(self, k): pass
    r = R()
    if data["model"] == "mssm":
        (ln,) = evaluate("mssm", [data["spec"]], bases())
        print("replay:", ln[:160])
        judge_mssm(r, new_mssm_st(), data["spec"], data["base"], float(data["tb"]), tuple(data["signs"]), data["fA"], ln)
    elif data["model"] == "thdm":
        (ln,) = evaluate("thdm", [data["spec"]])
        print("replay:", ln[:160])
        judge_thdm(r, new_thdm_st(), data["spec"], *data["meta"], ln)
    else:
        build.ensure("plain")
        pt = [p for p in cli_points(r.quick) if p[1] == data["label"]]
        if not pt:
            print("replay: point %r is not in the lattice of this tier" % data["label"])
            return 2
        kind, label, body = pt[0]
        res = _cli_task((build.cli("plain"), _exe(), kind, label, body))
        judge_cli(r, dict(points=0, rejected=0, nonfinite_amu=0, forced=0, runs=0), *res)
    for k, w in r.f:
        if k == key:
            print("replay:", w)
            print("VIOLATION property=C18 replay=%s" % path)
            return 1
    print("replay: holds now (%s)" % key)
    return 0
