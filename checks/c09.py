"""C09 - THDM Yukawa parametrisations are equivalent where they describe the same theory.

(a) type I/II/X/Y  ==  flavour-aligned model with the zeta_f of Table 1 of arXiv:1607.06292,
    running couplings on and off: 1L, 2L, 2L-F, 2L-B and the twelve Yukawa getters;
(b) running off: aligned(zeta_f, Delta_f) == general(Pi_f = cos(beta)(sqrt2 M_f (zeta_f+tan(beta))/v + Delta_f)):
    1L, 2L-F and the Yukawa getters (not the bosonic part: zeta_l is undefined in the general model);
(c) inputs documented as ignored for a type (zeta_f outside aligned, Pi_f outside general,
    Delta_f in general) do not change a single bit of any result.
All over deviation-bounded product lattices in mass and gauge basis."""
import json
import math
import multiprocessing as mp
import os

import thdmrun as T
from core import InfraError

META = dict(
    level="exploration",
    technique="deviation-bounded exhaustive product lattice of model pairs (metamorphic relation between Yukawa parametrisations), bitwise comparison for ignored inputs",
    text="For every point of a finite lattice in mass and gauge basis (<= 2 / <= 3 deviating dimensions from several base points; tan(beta) 0.05..200, both signs of sin(beta-alpha), 3 CKM matrices, Delta_f alphabets) each of the types I,II,X,Y is compared with the aligned model carrying the tabulated zeta_f (running on and off), every aligned model (zeta_f in {-100,-1,0,1,100}^3, Delta_f single-entry/dense) with the general model carrying the equivalent Pi_f (running off), through a_mu (1L, 2L, 2L-F, 2L-B resp. 1L, 2L-F) and all twelve Yukawa getters to 1e-10 of the sum of |terms|; every ignored input is run over its alphabet and must leave all printed results bitwise unchanged. Exhaustive within the lattice only.",
    note="trusted: zeta table as printed in arXiv:1607.06292 Tab.1 (I: cot,cot,cot; II: cot,-tan,-tan; X: cot,cot,-tan; Y: cot,-tan,cot), Pi_f formula of the statement, the library's own split of a_mu into terms used only as the tolerance scale",
    design_ref="3/C09")

HARNESSES = [(("thdm", "plain", ["thdm.cpp"]), {})]

TOL = 1e-10
ZETAS = [-100.0, -1.0, 0.0, 1.0, 100.0]
MVALS = [10.0, 125.0, 126.0, 400.0, 1e4]
PAIRS = [(a, b) for a in MVALS for b in MVALS if a <= b]
TBS = [0.05, 0.5, 1.0, 3.0, 5.0, 50.0, 200.0]
LAMS = [-2.0, -0.5, 0.0, 0.5, 2.0]

CTX_M = ["mm", "mA", "mHp", "sba", "tb", "l6", "l7", "m122", "ckm", "sm"]
CTX_G = ["l1", "l2", "l3", "l4", "l5", "l6", "l7", "tb", "m122", "ckm", "sm"]
# SM input sets: gm2calc::SM defaults / a complete alternate set (MW, MZ, alpha_em, alpha_s, nine fermion masses, m_hSM)
SM_SETS = {"default": (None, None), "alt": (T.SM_ALT, 150.0)}
ALPHA = {
    "mm": PAIRS, "mA": [10.0, 300.0, 1e4], "mHp": [10.0, 300.0, 1e4],
    "sba": [-1.0, -0.9, -0.3, 0.0, 0.3, 0.7, 0.995, 1.0], "tb": TBS,
    "l6": [-3.0, 0.0, 0.2, 3.0], "l7": [-3.0, 0.0, 0.2, 3.0], "m122": [-1e4, 0.0, 4e4], "ckm": [0, 1, 2],
    "sm": ["default", "alt"],
    "zu": ZETAS, "zd": ZETAS, "zl": ZETAS,
    "Du": T.MAT_NAMES, "Dd": T.MAT_NAMES, "Dl": T.MAT_NAMES,
    "Pu": T.MAT_NAMES, "Pd": T.MAT_NAMES, "Pl": T.MAT_NAMES,
}
ALPHA_G = dict(ALPHA)
ALPHA_G.update({"l%d" % i: LAMS for i in range(1, 8)})
ALPHA_G["m122"] = [-1e4, 0.0, 4e4, 1e6]

BASES_M = [
    dict(mm=(125.0, 400.0), mA=300.0, mHp=300.0, sba=0.995, tb=3.0, l6=0.0, l7=0.0, m122=4e4, ckm=1,
         zu=0.0, zd=0.0, zl=0.0, Du="0", Dd="0", Dl="0", Pu="0", Pd="0", Pl="0"),
    dict(mm=(125.0, 126.0), mA=1e4, mHp=1e4, sba=0.3, tb=50.0, l6=0.2, l7=0.2, m122=0.0, ckm=2,
         zu=1.0, zd=-1.0, zl=100.0, Du="dense", Dd="e12", Dl="m22", Pu="e31", Pd="m22", Pl="dense"),
    dict(mm=(10.0, 1e4), mA=10.0, mHp=300.0, sba=-0.9, tb=0.05, l6=3.0, l7=-3.0, m122=-1e4, ckm=2,
         zu=-100.0, zd=100.0, zl=-1.0, Du="e31", Dd="dense", Dl="dense", Pu="dense", Pd="e12", Pl="m22"),
]
BASES_G = [
    dict(l1=0.5, l2=0.5, l3=2.0, l4=-0.5, l5=-0.5, l6=0.0, l7=0.0, tb=3.0, m122=4e4, ckm=1,
         zu=0.0, zd=0.0, zl=0.0, Du="0", Dd="0", Dl="0", Pu="0", Pd="0", Pl="0"),
    dict(l1=2.0, l2=0.5, l3=0.5, l4=0.5, l5=-0.5, l6=0.5, l7=-0.5, tb=200.0, m122=1e6, ckm=2,
         zu=1.0, zd=-100.0, zl=100.0, Du="dense", Dd="e12", Dl="m22", Pu="m22", Pd="dense", Pl="e31"),
]

for _i, _b in enumerate(BASES_M):
    _b["sm"] = "alt" if _i == 1 else "default"
for _i, _b in enumerate(BASES_G):
    _b["sm"] = "alt" if _i == 1 else "default"

# Table 1 of arXiv:1607.06292: (zeta_u, zeta_d, zeta_l) in units (cot beta -> +1, -tan beta -> -1)
ZETA_TABLE = {1: (+1, +1, +1), 2: (+1, -1, -1), 3: (+1, +1, -1), 4: (+1, -1, +1)}


def table_zeta(t, tb):
    return tuple((1.0 / tb) if s > 0 else -tb for s in ZETA_TABLE[t])


def mk(basis, a, ytype, run, z=None, D=None, P=None, post=()):
    if basis == "M":
        p = [a["mm"][0], a["mm"][1], a["mA"], a["mHp"], a["sba"], a["l6"], a["l7"], a["tb"], a["m122"]]
    else:
        p = [a["l%d" % i] for i in range(1, 8)] + [a["tb"], a["m122"]]
    smo, mhsm = SM_SETS[a.get("sm", "default")]
    return T.case(basis, p, ytype=ytype, run=run, ckm=a["ckm"], sm=smo, mhsm=mhsm, post=post,
                  z=z if z is not None else (a["zu"], a["zd"], a["zl"]),
                  D=D if D is not None else (a["Du"], a["Dd"], a["Dl"]),
                  P=P if P is not None else (a["Pu"], a["Pd"], a["Pl"]))


def matlist(m):
    if m is None:
        return [0.0] * 9
    if isinstance(m, str):
        return T.MATS[m] or [0.0] * 9
    return m


def brief(c):
    def mname(m):
        return m if (m is None or isinstance(m, str)) else "[..]"
    return "%s p=%s type=%s run=%d ckm=%d zeta=%s Delta=%s Pi=%s SM=%s" % (
        c["basis"], ["%g" % x for x in c["p"]], T.TYPES[c["ytype"]], c["run"], c["ckm"], c["z"],
        [mname(m) for m in c["D"]], [mname(m) for m in c["P"]], "alt" if c.get("sm") else "default") + (
        " then set_tan_beta(%s)" % ", ".join("%g" % x for x in c["post"]) if c.get("post") else "")


# ---- oracle for one pair -----------------------------------------------------------------
def tsum(Tb):
    return sum(abs(x) for x in Tb[0:5]), sum(abs(x) for x in Tb[5:10]), sum(abs(x) for x in Tb[10:17])


def yukawa_bounds(c, S):
    """per-entry 'sum of |terms|' of the twelve Yukawa matrices from the inputs of model c:
    rho_f = sqrt2 M_f zeta_f/v + Delta_f   resp.   Pi_f/cos(beta) - sqrt2 M_f tan(beta)/v"""
    tb, v = S[T.TB], S[T.V]
    cb = 1.0 / math.sqrt(1.0 + tb * tb)
    sba, cba = abs(S[T.SBA]), abs(S[T.CBA])
    zeta = S[T.ZETA]
    masses = (S[T.SM_MU], S[T.SM_MD], S[T.SM_ML])
    R = []
    for k in range(3):
        m = masses[k]
        if c["ytype"] == 6:
            Pm = matlist(c["P"][k])
            R.append([[abs(Pm[3 * i + j]) / cb + (math.sqrt(2) * m[i] * tb / v if i == j else 0.0)
                       for j in range(3)] for i in range(3)])
        else:
            Dm = matlist(c["D"][k])
            R.append([[abs(Dm[3 * i + j]) + (math.sqrt(2) * m[i] * abs(zeta[k]) / v if i == j else 0.0)
                       for j in range(3)] for i in range(3)])
    V = [[abs(x) for x in row] for row in T.cmat(S[T.SM_CKM])]
    out = {}
    for k, f in enumerate("udl"):
        m, r = masses[k], R[k]
        dg = [[(m[i] / v if i == j else 0.0) for j in range(3)] for i in range(3)]
        out["y%sh" % f] = [[sba * dg[i][j] + cba * r[i][j] / math.sqrt(2) for j in range(3)] for i in range(3)]
        out["y%sH" % f] = [[cba * dg[i][j] + sba * r[i][j] / math.sqrt(2) for j in range(3)] for i in range(3)]
        out["y%sA" % f] = [[r[i][j] / math.sqrt(2) for j in range(3)] for i in range(3)]
    ru, rd = R[0], R[1]
    out["yuHp"] = [[sum(ru[k][i] * V[k][j] for k in range(3)) for j in range(3)] for i in range(3)]   # |rho_u|^T |V|
    out["ydHp"] = [[sum(V[i][k] * rd[k][j] for k in range(3)) for j in range(3)] for i in range(3)]
    out["ylHp"] = R[2]
    return out


def compare_pair(kind, cA, cB, rA, rB, comps, stats):
    """returns list of (key, what).  comps: a_mu components to compare (indices into the A block)"""
    fails = []
    tag = kind
    names = ["1L", "2L", "2LF", "2LB"]
    tA, tB = tsum(rA.T), tsum(rB.T)
    scale = {0: max(tA[0], tB[0]), 2: max(tA[1], tB[1]), 3: max(tA[2], tB[2])}
    scale[1] = scale[2] + scale[3]
    for k in comps:
        a, b = rA.A[k], rB.A[k]
        err = abs(a - b)
        tol = TOL * scale[k]
        ok = err <= tol
        if ok and tag == kind:
            nm = "worst_" + names[k] + ("(mHp<mt)" if k in (1, 2) and rA.S[T.MHM1] < rA.S[T.SM_MU][2] else "")
            stats[nm] = max(stats.get(nm, 0.0), err / tol if tol > 0 else 0.0)
        if not ok:
            key = "%s:%s" % (tag, names[k])
            if k in (1, 2) and tag == kind and rA.S[T.MHM1] < rA.S[T.SM_MU][2] and err <= 1e-6 * scale[k]:
                # rounding noise of the top-loop charged-Higgs Barr-Zee functions below the top mass (see findings)
                key += ":mHp<mt:noise<1e-6"
            fails.append((key,
                          "a_mu %s: %s gives %r, %s gives %r (|diff| %.3g > 1e-10 x sum|terms| = %.3g)"
                          % (names[k], T.TYPES[cA["ytype"]], a, T.TYPES[cB["ytype"]], b, err, tol)))
    # fermion masses the two members carry (both are the SM input masses)
    for f, sl, k_ in (("u", T.MFU, 0), ("d", T.MFD, 1), ("e", T.MFE, 2)):
        ma, mb = rA.S[sl], rB.S[sl]
        pimax = max([max(abs(x) for x in matlist(cc["P"][k_])) for cc in (cA, cB) if cc["ytype"] == 6] or [0.0])
        scale_ = max(rA.S[(T.SM_MU, T.SM_MD, T.SM_ML)[k_]]) + rA.S[T.V] * pimax
        for g in range(3):
            err = abs(ma[g] - mb[g])
            tol = TOL * max(abs(ma[g]), abs(mb[g])) + 1e-13 * scale_
            if not (err <= tol):
                fails.append(("%s:MF%s" % (tag, f), "fermion mass MF%s(%d): %s carries %r, %s carries %r (|diff| %.3g > %.3g)"
                              % (f, g, T.TYPES[cA["ytype"]], ma[g], T.TYPES[cB["ytype"]], mb[g], err, tol)))
                break
            elif tol > 0:
                stats["worst_MF"] = max(stats.get("worst_MF", 0.0), err / tol)
    bA, bB = yukawa_bounds(cA, rA.S), yukawa_bounds(cB, rB.S)
    for n, name in enumerate(T.YNAMES):
        ya, yb = rA.Y[18 * n:18 * n + 18], rB.Y[18 * n:18 * n + 18]
        worst = None
        for i in range(3):
            for j in range(3):
                e = 2 * (3 * i + j)
                za, zb = complex(ya[e], ya[e + 1]), complex(yb[e], yb[e + 1])
                err = abs(za - zb)
                tol = TOL * (abs(za) + abs(zb) + bA[name][i][j] + bB[name][i][j])
                if not (err <= tol):
                    if worst is None:
                        worst = (i, j, za, zb, err, tol)
                elif tol > 0 and tag == kind:
                    stats["worst_Y"] = max(stats.get("worst_Y", 0.0), err / tol)
        if worst:
            fails.append(("%s:%s" % (tag, name),
                          "%s(%d,%d): %s gives %r, %s gives %r (|diff| %.3g > %.3g)"
                          % (name, worst[0], worst[1], T.TYPES[cA["ytype"]], worst[2], T.TYPES[cB["ytype"]], worst[3], worst[4], worst[5])))
    return fails


def eval_pairs(arg):
    """jobs: list of (kind, caseA, caseB); kind 'a' or 'b'"""
    jobs, history, sminfo = arg
    jobs = [expand(jb, sminfo) for jb in jobs]
    cases = []
    for kind, cA, cB in jobs:
        cases += [cA, cB]
    res = T.run_cases(cases, "SATY")
    out = dict(n=len(jobs), thrown=0, massless=0, fails=[], stats={}, keys=set(), evals=len(cases) * (2 if history else 1),
               smsets=len(set(bool(c_.get("sm")) for c_ in cases)))
    if history and len(cases) > 1:
        for i, what in T.history_mismatches(cases, "SATY", res):
            other = next((c_ for c_ in cases if c_.get("sm") != cases[i].get("sm")), cases[0 if i else -1])
            out["fails"].append(("history-dependence", "result depends on what was constructed before in the same process: %s; %s" % (what, brief(cases[i])),
                                 ("h", cases[i], other)))
    for q, (kind, cA, cB) in enumerate(jobs):
        rA, rB = res[2 * q], res[2 * q + 1]
        if rA.exc or rB.exc:
            out["thrown"] += 1
            # all lattice points are inside the documented input domain: the only legitimate refusal is a
            # tachyonic spectrum (EPhysicalProblem); EInvalidInput / ESetupError / anything else is a defect
            for c_, r_ in ((cA, rA), (cB, rB)):
                if r_.exc and r_.exc[0] != "EPhysicalProblem":
                    out["fails"].append(("%s:valid-input-refused:%s" % (kind, r_.exc[0]),
                                         "input inside the documented domain is refused: %s %s; %s" % (r_.exc[0], r_.exc[1], brief(c_)), (kind, cA, cB)))
                    break
            if bool(rA.exc) != bool(rB.exc):
                # the Higgs sector is identical: both parametrisations must be accepted or rejected together
                out["fails"].append(("%s:accepted-by-one-only" % kind,
                                     "%s: %r / %s: %r" % (T.TYPES[cA["ytype"]], rA.exc, T.TYPES[cB["ytype"]], rB.exc), (kind, cA, cB)))
            continue
        if min(rA.S[T.MHH0], rA.S[T.MAH1], rA.S[T.MHM1]) <= 1e-4 * rA.S[T.SM_MZ]:
            out["massless"] += 1      # (nearly) massless Higgs state: a_mu itself is not finite
            continue
        comps = (0, 1, 2, 3) if kind in ("a", "A") else (0, 2)
        fl = compare_pair(kind, cA, cB, rA, rB, comps, out["stats"])
        for key, what in fl:
            out["fails"].append((key, what, (kind, cA, cB)))
        S = rA.S
        out["keys"].add((kind, cA["basis"], cA["ytype"], cA["run"], cA["ckm"], bool(cA.get("sm")), (S[T.TB] > 1) - (S[T.TB] < 1),
                         (S[T.SBA] > 0) - (S[T.SBA] < 0), tuple((z > 0) - (z < 0) for z in cB["z"]) if kind in ("b", "B") else 0, len(cA.get("post") or ())))
    return out


def eval_groups(arg):
    """(c): groups: list of (label, [cases]); all results of a group must be bitwise identical to the first"""
    groups, history = arg
    cases = []
    for label, cs in groups:
        cases += cs
    res = T.run_cases(cases, "SAY")
    out = dict(n=0, thrown=0, fails=[], keys=set(), evals=len(cases) * (2 if history else 1))
    if history and len(cases) > 1:
        for i, what in T.history_mismatches(cases, "SAY", res):
            other = next((c_ for c_ in cases if c_.get("sm") != cases[i].get("sm")), cases[0 if i else -1])
            out["fails"].append(("history-dependence", "result depends on what was constructed before in the same process: %s; %s" % (what, brief(cases[i])),
                                 ("h", cases[i], other)))
    k = 0
    for label, cs in groups:
        rs = res[k:k + len(cs)]
        k += len(cs)
        ref = rs[0]
        for c, r in zip(cs[1:], rs[1:]):
            out["n"] += 1
            if ref.exc or r.exc:
                out["thrown"] += 1
                for c_, r_ in ((cs[0], ref), (c, r)):
                    if r_.exc and r_.exc[0] != "EPhysicalProblem":
                        out["fails"].append(("c:valid-input-refused:%s" % r_.exc[0],
                                             "input inside the documented domain is refused: %s %s; %s" % (r_.exc[0], r_.exc[1], brief(c_)), ("c", cs[0], c)))
                        break
                if (ref.exc or None) != (r.exc or None):
                    out["fails"].append(("c:%s:outcome" % label, "reference %r, with the ignored input set %r" % (ref.exc, r.exc), ("c", cs[0], c)))
                continue
            for blk in ("S", "A", "Y"):
                if r.raw[blk] != ref.raw[blk]:
                    va, vb = getattr(ref, blk), getattr(r, blk)
                    idx = [i for i in range(len(va)) if not (va[i] == vb[i] or (va[i] != va[i] and vb[i] != vb[i]))
                           or math.copysign(1, va[i]) != math.copysign(1, vb[i])]
                    out["fails"].append(("c:%s:%s" % (label, blk),
                                         "ignored input changes block %s at positions %s: %r -> %r (%s | %s)"
                                         % (blk, idx[:6], [va[i] for i in idx[:3]], [vb[i] for i in idx[:3]], brief(cs[0]), brief(c)),
                                         ("c", cs[0], c)))
                    break
            out["keys"].add(("c", label, c["basis"], c["run"]))
    return out


# ---- lattices ------------------------------------------------------------------------------
def _dims(kind, basis):
    ctx = CTX_M if basis == "M" else CTX_G
    return ctx + (["Du", "Dd", "Dl"] if kind == "a" else ["zu", "zd", "zl", "Du", "Dd", "Dl"])


def expand(job, sminfo):
    """compact job -> (kind, caseA, caseB).  compact: ('a', basis, values, type, run) / ('b', basis, values)"""
    if isinstance(job[1], dict):
        return job
    kind, basis, vals = job[0], job[1], job[2]
    base = (BASES_M if basis == "M" else BASES_G)[0]
    a = dict(base)
    a.update(zip(_dims(kind.lower(), basis), vals))
    zero = ("0", "0", "0")
    if kind == "a":
        t, run = job[3], job[4]
        return ("a", mk(basis, a, t, run, z=(0.0, 0.0, 0.0), P=zero), mk(basis, a, 5, run, z=table_zeta(t, a["tb"]), P=zero))
    if kind == "A":
        # state family: the same set_tan_beta sequence applied to a type-N object and to the aligned object with zeta_f(final tan(beta))
        t, run, seq = job[3], job[4], job[5]
        return ("A", mk(basis, a, t, run, z=(0.0, 0.0, 0.0), P=zero, post=seq),
                mk(basis, a, 5, run, z=table_zeta(t, seq[-1]), P=zero, post=seq))
    if kind == "B":
        seq = job[3]
        cA = mk(basis, a, 5, 0, P=zero, post=seq)
        return ("B", cA, general_from_aligned(cA, sminfo, tb=seq[-1]))
    cA = mk(basis, a, 5, 0, P=zero)
    return ("b", cA, general_from_aligned(cA, sminfo))


def sequences(tb):
    """set_tan_beta sequences applied after construction at tan(beta) = tb"""
    return [(0.5 * tb,), (2.0 * tb,), (1.0 / tb,), (tb,), (0.5 * tb, tb), (2.0 * tb, 1.0 / tb)]


def pairs_state(d):
    """(d) object state: compact jobs ('A', basis, values, type, run, sequence) / ('B', basis, values, sequence)"""
    for kind, k0 in (("A", "a"), ("B", "b")):
        seen = set()
        for basis, alpha, bases in (("M", ALPHA, BASES_M), ("G", ALPHA_G, BASES_G)):
            dims = _dims(k0, basis)
            for b in bases:
                for a, combo in T.devprod(dims, b, alpha, d):
                    vals = tuple(a[k] for k in dims)
                    h = hash((basis, vals))
                    if h in seen:
                        continue
                    seen.add(h)
                    for seq in sequences(a["tb"]):
                        if kind == "A":
                            for t in (1, 2, 3, 4):
                                for run in (0, 1):
                                    yield ("A", basis, vals, t, run, seq)
                        else:
                            yield ("B", basis, vals, seq)


def groups_state(d):
    """set_tan_beta with the construction value, and tb -> tb' -> tb, leave the object bitwise as constructed"""
    for basis, alpha, bases in (("M", ALPHA, BASES_M), ("G", ALPHA_G, BASES_G)):
        dims = _dims("b", basis)
        seen = set()
        for b in bases:
            for a, combo in T.devprod(dims, b, alpha, d):
                vals = tuple(a[k] for k in dims)
                if vals in seen:
                    continue
                seen.add(vals)
                tb = a["tb"]
                for t in (1, 2, 3, 4, 5, 6):
                    for run in (0, 1):
                        seqs = [(), (tb,), (0.5 * tb, tb), (2.0 * tb, tb), (1.0 / tb, tb)]
                        yield ("set_tan_beta-noop-or-back:%s" % T.TYPES[t], [mk(basis, a, t, run, post=s_) for s_ in seqs])


def pairs_a(d):
    """compact jobs (expanded in the workers: the thorough lattice has ~1e6 pairs)"""
    seen = set()
    for basis, alpha, bases in (("M", ALPHA, BASES_M), ("G", ALPHA_G, BASES_G)):
        dims = _dims("a", basis)
        for b in bases:
            for a, combo in T.devprod(dims, b, alpha, d):
                vals = tuple(a[k] for k in dims)
                h = hash((basis, vals))
                if h in seen:
                    continue
                seen.add(h)
                for t in (1, 2, 3, 4):
                    for run in (0, 1):
                        yield ("a", basis, vals, t, run)


def general_from_aligned(cA, sminfo, tb=None):
    """general model with the Pi_f that encode the couplings of the aligned model cA at tan(beta) = tb
    (default: the construction value; for the state family the value after the set_tan_beta sequence)"""
    sm = sminfo["alt" if cA.get("sm") else "default"]
    tb = cA["p"][7] if tb is None else tb
    P = [T.pi_from_aligned(cA["z"][k], matlist(cA["D"][k]), (sm["mu"], sm["md"], sm["ml"])[k], tb, sm["v"]) for k in range(3)]
    cB = dict(cA)
    cB["ytype"] = 6
    cB["P"] = P
    return cB


def pairs_b(d):
    seen = set()
    for basis, alpha, bases in (("M", ALPHA, BASES_M), ("G", ALPHA_G, BASES_G)):
        dims = _dims("b", basis)
        for b in bases:
            for a, combo in T.devprod(dims, b, alpha, d):
                vals = tuple(a[k] for k in dims)
                h = hash((basis, vals))
                if h in seen:
                    continue
                seen.add(h)
                yield ("b", basis, vals)
    # full product zeta^3 x tan(beta) x CKM at the first base point (Delta_f dense)
    dims = _dims("b", "M")
    b = dict(BASES_M[0])
    b.update(Du="dense", Dd="m22", Dl="e12")
    for zu in ZETAS:
        for zd in ZETAS:
            for zl in ZETAS:
                for tb in TBS:
                    for ckm in (0, 1, 2):
                        a = dict(b)
                        a.update(zu=zu, zd=zd, zl=zl, tb=tb, ckm=ckm)
                        vals = tuple(a[k] for k in dims)
                        h = hash(("M", vals))
                        if h in seen:
                            continue
                        seen.add(h)
                        yield ("b", "M", vals)


IGNORED = {1: ["zu", "zd", "zl", "Pu", "Pd", "Pl"], 2: ["zu", "zd", "zl", "Pu", "Pd", "Pl"],
           3: ["zu", "zd", "zl", "Pu", "Pd", "Pl"], 4: ["zu", "zd", "zl", "Pu", "Pd", "Pl"],
           5: ["Pu", "Pd", "Pl"], 6: ["zu", "zd", "zl", "Du", "Dd", "Dl"]}
NEUTRAL = {"zu": 0.0, "zd": 0.0, "zl": 0.0, "Du": "0", "Dd": "0", "Dl": "0", "Pu": "0", "Pd": "0", "Pl": "0"}
IGN_ALPHA = dict(ALPHA)
IGN_ALPHA.update({"zu": ZETAS + [1e-3, 1e6], "zd": ZETAS + [1e-3, 1e6], "zl": ZETAS + [1e-3, 1e6]})


def groups_c(d):
    for basis, bases in (("M", BASES_M), ("G", BASES_G)):
        for b in bases:
            for tbv in (b["tb"], 0.5 if b["tb"] != 0.5 else 3.0):
                for t in (1, 2, 3, 4, 5, 6):
                    for run in (0, 1):
                        base = dict(b)
                        base["tb"] = tbv
                        for dname in IGNORED[t]:
                            base[dname] = NEUTRAL[dname]
                        cs = [mk(basis, a, t, run) for a, combo in T.devprod(IGNORED[t], base, IGN_ALPHA, d)]
                        yield (t, cs)


def label_of(t, ref, c):
    diff = []
    for nm, k in (("zeta", "z"), ("Delta", "D"), ("Pi", "P")):
        for i, f in enumerate("udl"):
            if ref[k][i] != c[k][i]:
                diff.append("%s_%s" % (nm, f))
    return "%s:%s" % (T.TYPES[t], "+".join(diff))


def run(ctx):
    T.exe()
    sm = {"default": T.sm_inputs(1), "alt": T.sm_inputs(1, T.SM_ALT)}
    for name_, ref_ in (("mw", 80.4335), ("mz", 91.05)):
        if sm["alt"][name_] != ref_ or sm["default"][name_] == ref_:
            raise InfraError("harness does not apply the SM override %s" % name_)
    da, db, dc, ds = (2, 2, 1, 1) if ctx.quick else (3, 3, 2, 2)
    tot = dict(pairs_a=0, pairs_b=0, pairs_d=0, cases_c=0, cases_d=0, thrown=0, evals=0, massless=0)
    stats = {}
    min_sm = [2]
    nproc = min(16, os.cpu_count() or 4)

    def absorb(o, what):
        tot["thrown"] += o["thrown"]
        tot["evals"] += o["evals"]
        for key in sorted(o["keys"]):
            ctx.nontrivial(key)
        for key, msg, data in o["fails"]:
            ctx.fail(key, msg, {"kind": data[0], "A": data[1], "B": data[2]})

    with mp.Pool(nproc) as pool:
        for name, gen in (("a", pairs_a(da)), ("b", pairs_b(db)), ("d", pairs_state(ds))):
            jobs = list(gen)
            tot["pairs_" + name] = len(jobs)
            for kind, cA, cB in [expand(jb, sm) for jb in jobs[:2] + jobs[-1:]]:
                ctx.sample("(%s) %s  <->  %s" % (kind, brief(cA), brief(cB)))
            # strided chunks: every harness process mixes both SM input sets; every 4th process is also
            # run in reversed order and compared bitwise (no dependence on what was constructed before)
            for o in pool.imap(eval_pairs, [(ch, q % 4 == 0, sm) for q, ch in enumerate(T.strided_chunks(jobs, 150))]):
                min_sm[0] = min(min_sm[0], o["smsets"])
                absorb(o, name)
                tot["massless"] += o["massless"]
                for k, v in o["stats"].items():
                    stats[name + ":" + k] = max(stats.get(name + ":" + k, 0.0), v)
                if ctx.out_of_time(name):
                    break
        # one group per (reference model, set of ignored inputs that differ) so that the key names the input
        fine = []
        for t, cs in groups_c(dc):
            bylabel = {}
            for c in cs[1:]:
                bylabel.setdefault(label_of(t, cs[0], c), []).append(c)
            for lab in sorted(bylabel):
                fine.append((lab, [cs[0]] + bylabel[lab]))
        ctx.sample("(c) %s: %d settings of the ignored input, reference %s" % (fine[0][0], len(fine[0][1]) - 1, brief(fine[0][1][0])))
        for o in pool.imap(eval_groups, [(ch, q % 4 == 0) for q, ch in enumerate(T.strided_chunks(fine, 40))]):
            tot["cases_c"] += o["n"]
            absorb(o, "c")
        # (d) bitwise part: set_tan_beta(construction value) and tb -> tb' -> tb leave the object as constructed
        gstate = list(groups_state(1))
        ctx.sample("(d) %s: reference %s, last member %s" % (gstate[0][0], brief(gstate[0][1][0]), brief(gstate[0][1][-1])))
        for o in pool.imap(eval_groups, [(ch, q % 4 == 0) for q, ch in enumerate(T.strided_chunks(gstate, 40))]):
            tot["cases_d"] += o["n"]
            absorb(o, "d")
    ctx.evals(tot["evals"])
    npairs = tot["pairs_a"] + tot["pairs_b"] + tot["cases_c"] + tot["pairs_d"] + tot["cases_d"]
    print("[C09] (d) object state: %d pairs after set_tan_beta sequences (type N vs aligned at zeta_f(final tan beta), aligned vs general at Pi_f(final tan beta)), %d bitwise comparisons (no-op / there-and-back)"
          % (tot["pairs_d"], tot["cases_d"]))
    print("[C09] (a) %d pairs, (b) %d pairs, (c) %d comparisons; %d model evaluations; rejected by the constructor %d (%.1f%%), skipped (massless Higgs state) %d"
          % (tot["pairs_a"], tot["pairs_b"], tot["cases_c"], tot["evals"], tot["thrown"], 100.0 * tot["thrown"] / max(1, npairs), tot["massless"]))
    print("[C09] worst |diff|/tolerance on passing pairs: %s" % {k: float("%.3g" % v) for k, v in sorted(stats.items())})
    ctx.note("min_SM_input_sets_per_harness_process", min_sm[0])
    if min_sm[0] < 2:
        ctx.cap("a harness process of (a)/(b) saw only one SM input set")
    if tot["thrown"] > 0.5 * npairs:
        ctx.cap("more than half of the pairs rejected by the constructor")
    ctx.assumptions += [
        "tolerance 1e-10 x sum of |terms|: a_mu terms = the library's own h, H, A, H+, SM pieces (1L, 2L-F) and EWadd, nonYuk, Yuk (2L-B); Yukawa entries: |sba| M/v, |cba| rho/sqrt2, rho terms from the inputs",
        "the SM input set (default / complete alternate set: MW, MZ, alpha_em, alpha_s, fermion masses, m_hSM) is a context dimension; every harness process evaluates both sets interleaved, every 4th process is repeated in reversed order and compared bitwise",
        "a constructor exception other than EPhysicalProblem (tachyon) on a lattice point is a violation (valid input refused)",
        "(d) the object state is part of the alphabet: the same sequence of THDM::set_tan_beta calls (x0.5, x2, 1/tb, the construction value, tb->tb/2->tb, tb->2tb->1/tb) is applied to all members of an equivalence class, which are built for the final tan(beta) (zeta_f table resp. Pi_f at the final value) and compared like (a)/(b) incl. the fermion masses they carry; set_tan_beta(construction value) and there-and-back sequences must leave every printed value bitwise unchanged",
        "(c) compares the hex-float text of spectrum, a_mu and the twelve Yukawa matrices (bitwise, sign of zero included)"]
    return ctx.finish(
        "(a) contexts = all assignments with <= %d deviating dimensions from 3 mass-basis + 2 gauge-basis base points (Higgs sector, CKM, SM input set, Delta_f) x type I/II/X/Y x running on/off; "
        "(b) the same with zeta_f, Delta_f as extra dimensions (<= %d), running off, + full product zeta^3 x tan(beta) x CKM; "
        "(c) per type and base point every ignored input over its alphabet (<= %d simultaneously); (d) contexts with <= %d deviations x 6 set_tan_beta sequences x type/running as in (a),(b) + bitwise no-op/there-and-back groups for all 6 types; distinct = (part, basis, type, running, CKM, SM input set, tan(beta) class, sign sba, zeta signs, length of the set_tan_beta sequence)" % (da, db, dc, ds),
        {"pairs_a": tot["pairs_a"], "pairs_b": tot["pairs_b"], "pairs_d_state": tot["pairs_d"], "bitwise_comparisons_d_state": tot["cases_d"], "comparisons_c": tot["cases_c"], "rejected_by_constructor": tot["thrown"],
         "skipped_massless_state": tot["massless"],
         "worst_diff_over_tol": {k: float("%.3g" % v) for k, v in sorted(stats.items())}})


def replay(ctx, path):
    T.exe()
    d = json.load(open(path))
    kind, cA, cB = d["data"]["kind"], d["data"]["A"], d["data"]["B"]
    if kind == "c":
        o = eval_groups(([(d["key"].split(":", 1)[1].rsplit(":", 1)[0], [cA, cB])], False))
    elif kind == "h":
        cases = [cB, cA]
        bad = T.history_mismatches(cases, "SATY", T.run_cases(cases, "SATY"))
        o = {"fails": [("history-dependence", what, None) for i, what in bad]}
    else:
        o = eval_pairs(([(kind, cA, cB)], False, None))
    for key, what, _ in o["fails"]:
        print("replay: [%s] %s" % (key, what))
    if o["fails"]:
        print("VIOLATION property=C09 replay=%s" % path)
        return 1
    print("replay: holds now")
    return 0
